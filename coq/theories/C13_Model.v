(** C13 model: src/metrics.rs — [_f1], [TpFpFn::micro_f1] / [sequence_averaged_f1],
    [_count_tp_fp_fn], [binary_f1], [accuracy], [_mean_edit_distance],
    [_whitespace_ops_to_set], [_offset_operations], [_whitespace_correction_tp_fp_fn],
    [_group_words], [_spelling_correction_tp_fp_fn], [_correction_f1].

    Texts are the ALREADY cleaned and NFKC-normalised strings ([normalize(clean(s))] is an
    oracle), given as cluster lists (the real [CharString] segmentation for the requested
    [use_graphemes]); the string itself is their concatenation. Numbers are exact
    rationals; f64 rounding is outside the model. Explicit error values ([None] below
    [Some]) stand for panics of the code; [None] at the top of a result stands for the
    [Err] of the length checks / of [whitespace::operations].
    Uses (qualified): C10_Model.operations, C11_Model.word_boundaries,
    C12_Model.operations / distance, C18_Model.match_words / edited_words.
    Definitions only. *)
From Coq Require Import QArith.
From TU Require Import Base.
From TU Require C10_Model C11_Model C12_Model C18_Model.
Open Scope nat_scope.

(** * F-beta with the [max(1)] denominators *)
Definition nz (n : nat) : positive := Pos.of_nat (Nat.max n 1).
(** [a as f64 / b.max(1) as f64] *)
Definition ratio (a b : nat) : Q := Z.of_nat a # nz b.
Definition qpos (q : Q) : bool := (0 <? Qnum q)%Z.

Definition fpr := (Q * Q * Q)%type.
Definition f1 (beta : Q) (tp fp fn : nat) : fpr :=
  let p := ratio tp (tp + fp) in
  let r := ratio tp (tp + fn) in
  let b2 := (beta * beta)%Q in
  let f := if qpos (p + r)%Q then (((1 + b2) * p * r) / (b2 * p + r))%Q else 0%Q in
  (f, p, r).

(** one sequence's contribution: (empty, tp, fp, fn) *)
Definition counts := (bool * nat * nat * nat)%type.

Definition micro_f1 (beta : Q) (vals : list counts) : fpr :=
  match fold_left (fun acc v => match acc, v with (a, b, c), (_, tp, fp, fn) => (a + tp, b + fp, c + fn) end)
                  vals (0, 0, 0) with
  | (tps, fps, fns) => f1 beta tps fps fns
  end.

Definition fpr_add (x y : fpr) : fpr :=
  match x, y with (a, b, c), (a', b', c') => ((a + a')%Q, (b + b')%Q, (c + c')%Q) end.
Definition seq_one (beta : Q) (v : counts) : fpr :=
  match v with (e, tp, fp, fn) => if e then (1%Q, 1%Q, 1%Q) else f1 beta tp fp fn end.
Definition seq_avg_f1 (beta : Q) (vals : list counts) : fpr :=
  match fold_left (fun acc v => fpr_add acc (seq_one beta v)) vals (0%Q, 0%Q, 0%Q) with
  | (f, p, r) =>
    let n := inject_Z (Z.of_nat (Nat.max (length vals) 1)) in
    ((f / n)%Q, (p / n)%Q, (r / n)%Q)
  end.

Definition aggregate (seq_avg : bool) (beta : Q) (vals : list counts) : fpr :=
  if seq_avg then seq_avg_f1 beta vals else micro_f1 beta vals.

(** * binary_f1, accuracy *)
Fixpoint count_tp_fp_fn (p t : list bool) (acc : nat * nat * nat) : nat * nat * nat :=
  match p, t with
  | x :: p', y :: t' =>
    count_tp_fp_fn p' t'
      (match acc with (tp, fp, fn) =>
         match x, y with
         | true, true => (S tp, fp, fn)
         | true, false => (tp, S fp, fn)
         | false, true => (tp, fp, S fn)
         | false, false => (tp, fp, fn)
         end
       end)
  | _, _ => acc
  end.

Definition binary_f1 (beta : Q) (p t : list bool) : option fpr :=
  if Nat.eqb (length p) (length t)
  then match count_tp_fp_fn p t (0, 0, 0) with (tp, fp, fn) => Some (f1 beta tp fp fn) end
  else None.

Fixpoint count_eq (p t : list Z) : nat :=
  match p, t with
  | x :: p', y :: t' => (if Z.eqb x y then 1 else 0) + count_eq p' t'
  | _, _ => 0
  end.
Definition accuracy (p t : list Z) : option Q :=
  if Nat.eqb (length p) (length t) then Some (ratio (count_eq p t) (length p)) else None.

(** * mean (normalised) edit distance: with_swap = false, spaces_insert_delete_only = false *)
Definition ed_flags : C12_Model.flags := C12_Model.Flags false false.
Fixpoint qsum (l : list Q) : Q := match l with [] => 0%Q | x :: r => (x + qsum r)%Q end.
Definition mean_ed (normalized : bool) (s t : list (list cluster)) : option Q :=
  if Nat.eqb (length s) (length t)
  then Some (qsum (map (fun p => C12_Model.distance ed_flags normalized (fst p) (snd p)) (C12_Model.zip s t))
             / inject_Z (Z.of_nat (Nat.max (length s) 1)))%Q
  else None.

(** * whitespace correction *)
Notation wop := C10_Model.op.
Inductive wmode := WIns | WDel | WBoth.
Definition in_mode (m : wmode) (o : wop) : bool :=
  match o, m with
  | C10_Model.Ins, (WIns | WBoth) => true
  | C10_Model.Del, (WDel | WBoth) => true
  | _, _ => false
  end.
Definition iop := (nat * wop)%type.
Definition iop_eqb (a b : iop) : bool := Nat.eqb (fst a) (fst b) && C10_Model.op_eqb (snd a) (snd b).
(** [_whitespace_ops_to_set]: the (index, op) pairs selected by the mode, here in index order *)
Definition ops_to_set (m : wmode) (ops : list wop) : list iop :=
  filter (fun p => in_mode m (snd p)) (combine (seq 0 (length ops)) ops).
Definition mem_iop (p : iop) (s : list iop) : bool := existsb (iop_eqb p) s.
Definition set_inter (a b : list iop) : list iop := filter (fun p => mem_iop p b) a.
Definition set_diff (a b : list iop) : list iop := filter (fun p => negb (mem_iop p b)) a.

(** [_offset_operations]: [offsets[k]] = number of Inserts minus number of Deletes among
    [ops[0..=k]] (i32); entry [(idx, op)] is reported at [idx + offsets[idx-1]].
    [None] = the out-of-bounds panic of [offsets[idx - 1]]. *)
Definition op_offset (o : wop) : Z :=
  match o with C10_Model.Keep => 0 | C10_Model.Ins => 1 | C10_Model.Del => -1 end%Z.
Fixpoint offsets_from (prev : Z) (ops : list wop) : list Z :=
  match ops with
  | [] => []
  | o :: r => let x := (prev + op_offset o)%Z in x :: offsets_from x r
  end.
Fixpoint offset_ops (offs : list Z) (l : list iop) : option (list (Z * wop)) :=
  match l with
  | [] => Some []
  | (idx, o) :: r =>
    match (match idx with 0 => Some 0%Z | S k => nth_error offs k end), offset_ops offs r with
    | Some d, Some r' => Some ((Z.of_nat idx + d, o)%Z :: r')
    | _, _ => None
    end
  end.

Definition winfo := (list (Z * wop) * list (Z * wop) * list (Z * wop))%type.
(** outer [None] = Err of [whitespace::operations]; inner [None] = panic *)
Definition ws_tp_fp_fn (m : wmode) (input pred target : list cluster) : option (option (counts * winfo)) :=
  match C10_Model.operations input target, C10_Model.operations input pred with
  | Some gt, Some pr =>
    let g := ops_to_set m gt in
    let p := ops_to_set m pr in
    let tps := set_inter g p in
    let fps := set_diff p g in
    let fns := set_diff g p in
    let offs := offsets_from 0 pr in
    Some (match offset_ops offs tps, offset_ops offs fps, offset_ops offs fns with
          | Some a, Some b, Some c =>
            Some ((match g, p with [], [] => true | _, _ => false end,
                   length tps, length fps, length fns), (a, b, c))
          | _, _, _ => None
          end)
  | _, _ => None
  end.

(** * spelling correction *)
Definition sp_flags : C12_Model.flags := C12_Model.Flags false true.
Definition mem_nat := C18_Model.mem_nat.

(** the [while word_idx < input_words.len()] scan: first word whose END is >= the position *)
Fixpoint word_idx_of (words : list (nat * nat)) (w : nat) (pos : nat) : nat :=
  match words with
  | [] => w
  | (_, e) :: r => if Nat.leb pos e then w else word_idx_of r (S w) pos
  end.

(** first loop of [_group_words]: the words whose following whitespace is deleted
    ([merged_with_next]) and, per inserted whitespace, the word it is attributed to
    ([num_whitespaces_inserted] as a multiset). [None] = one of the two [unwrap]s panics. *)
Fixpoint attribute (words : list (nat * nat)) (ic pc : list cluster) (ops : list C12_Model.edit)
  : option (list nat * list nat) :=
  match ops with
  | [] => Some ([], [])
  | (o, i, j) :: r =>
    match attribute words ic pc r with
    | None => None
    | Some (mg, ins) =>
      let w := word_idx_of words 0 i in
      match o with
      | C12_Model.EDelete =>
        match nth_error ic i with
        | Some c => Some (if cl_ws c then w :: mg else mg, ins)
        | None => None
        end
      | C12_Model.EInsert =>
        match nth_error pc j with
        | Some c => Some (mg, if cl_ws c then w :: ins else ins)
        | None => None
        end
      | _ => Some (mg, ins)
      end
    end
  end.

Definition num_ins (ins : list nat) (w : nat) : nat := count_occ Nat.eq_dec ins w.

(** [while merged_with_next.contains(&input_idx)] *)
Fixpoint merge_run (fuel : nat) (mg ins : list nat) (idx : nat) (group : list nat) (total : nat)
  : option (nat * list nat * nat) :=
  if mem_nat idx mg then
    match fuel with
    | 0 => None
    | S f => merge_run f mg ins (S idx) (S idx :: group) (total + num_ins ins (S idx))
    end
  else Some (idx, group, total).

(** [while input_idx < input_words.len()]; result (input_idx, pred_idx, correct) *)
Fixpoint walk (fuel : nat) (nwords : nat) (mg ins matching_pred : list nat)
         (input_idx pred_idx : nat) (correct : list nat) : option (nat * nat * list nat) :=
  if Nat.ltb input_idx nwords then
    match fuel with
    | 0 => None
    | S f =>
      match merge_run (S (length mg)) mg ins input_idx [input_idx] (num_ins ins input_idx) with
      | None => None
      | Some (idx', group, total) =>
        let ok := forallb (fun k => mem_nat k matching_pred) (seq pred_idx (S total)) in
        walk f nwords mg ins matching_pred (S idx') (pred_idx + total + 1)
             (if ok then group ++ correct else correct)
      end
    end
  else Some (input_idx, pred_idx, correct).

Definition is_nil {A} (l : list A) : bool := match l with [] => true | _ => false end.

(** [_group_words]; [None] = a panic ([EditOp::None], an [unwrap], the closing assertion) or
    fuel exhaustion. REPAIRED (D6): with no word on one side there is nothing to walk and no
    predicted word can be wrong: every input word counts as correctly handled. *)
Definition group_words (ic pc : list cluster) (matching_pred : list nat) : option (list nat) :=
  let iw := C11_Model.word_boundaries ic in
  let pw := C11_Model.word_boundaries pc in
  if is_nil iw || is_nil pw then Some (seq 0 (length iw)) else
  match C12_Model.operations sp_flags ic pc with
  | None => None
  | Some ops =>
    match attribute iw ic pc ops with
    | None => None
    | Some (mg, ins) =>
      match walk (S (length iw)) (length iw) mg ins matching_pred 0 0 [] with
      | None => None
      | Some (ii, pi, correct) =>
        if Nat.eqb ii (length iw) && Nat.eqb pi (length pw) then Some correct else None
      end
    end
  end.

Definition nat_inter (a b : list nat) : list nat := filter (fun i => mem_nat i b) a.
Definition nat_diff (a b : list nat) : list nat := filter (fun i => negb (mem_nat i b)) a.

(** [_spelling_correction_tp_fp_fn] on the three texts *)
Definition sp_tp_fp_fn (ic pc tc : list cluster) : option counts :=
  let i := concat ic in
  let p := concat pc in
  let t := concat tc in
  match C18_Model.edited_words i t, C18_Model.edited_words i p, C18_Model.match_words p t with
  | Some (_, misspelled), Some (changed, _), Some (mpt, _, _) =>
    let matching_pred := map fst mpt in
    let restored := map snd mpt in
    match group_words ic pc matching_pred with
    | None => None
    | Some correct =>
      Some (is_nil misspelled && is_nil changed,
            length (nat_inter misspelled restored),
            length (nat_diff changed correct),
            length (nat_diff misspelled restored))
    end
  | _, _, _ => None
  end.

(** * [_correction_f1]: length check, per-sequence values (first Err wins), aggregation *)
Definition same3 {A} (a b c : list A) : bool :=
  Nat.eqb (length a) (length c) && Nat.eqb (length a) (length b).

Fixpoint zip3 {A} (a b c : list A) : list (A * A * A) :=
  match a, b, c with
  | x :: a', y :: b', z :: c' => (x, y, z) :: zip3 a' b' c'
  | _, _, _ => []
  end.

Inductive outcome (A : Type) := Ok (x : A) | Err | Panic.
Arguments Ok {A}. Arguments Err {A}. Arguments Panic {A}.

(** all sequences are evaluated (rayon); a panic anywhere is a panic, otherwise an Err anywhere is the Err *)
Fixpoint collect {A} (l : list (option (option A))) : outcome (list A) :=
  match l with
  | [] => Ok []
  | x :: r =>
    match x, collect r with
    | Some None, _ => Panic
    | _, Panic => Panic
    | None, _ => Err
    | _, Err => Err
    | Some (Some v), Ok vs => Ok (v :: vs)
    end
  end.

Definition ws_f1 (beta : Q) (seq_avg : bool) (m : wmode) (inputs preds targets : list (list cluster))
  : outcome (fpr * list winfo) :=
  if same3 inputs preds targets then
    match collect (map (fun x => match x with (i, p, t) => ws_tp_fp_fn m i p t end) (zip3 inputs preds targets)) with
    | Ok vals => Ok (aggregate seq_avg beta (map fst vals), map snd vals)
    | Err => Err
    | Panic => Panic
    end
  else Err.

Definition sp_f1 (beta : Q) (seq_avg : bool) (inputs preds targets : list (list cluster)) : outcome fpr :=
  if same3 inputs preds targets then
    match collect (map (fun x => match x with (i, p, t) => Some (sp_tp_fp_fn i p t) end) (zip3 inputs preds targets)) with
    | Ok vals => Ok (aggregate seq_avg beta vals)
    | Err => Err
    | Panic => Panic
    end
  else Err.

(** * Premise under which the spelling metric is proved total: a whitespace-clean text whose
      non-whitespace characters are non-empty and free of whitespace code points *)
Definition solid (c : cluster) : bool := cl_ws c || (negb (is_nil c) && forallb (fun x => negb (is_ws x)) c).
Definition clean_text (l : list cluster) : bool := C10_Model.cleanb l && forallb solid l.

(** * val glue.
    number = (m e d) meaning m * 2^e / d with d > 0; the implementation's f64 is sent exactly as
    (mantissa exponent 1), a non-finite one as (); the model sends (num 0 den).
    input  = (fn cfg data raw)    raw (the unprocessed strings) is ignored by the model
      fn 0 binary_f1      cfg (beta)                  data (preds targets)      0/1 lists
      fn 1 accuracy       cfg ()                      data (preds targets)      integer lists
      fn 2 mean_ed        cfg (normalized g)          data (seqs targets)       lists of cluster lists
      fn 3 whitespace F1  cfg (beta seq_avg mode g)   data (inputs preds targets)
      fn 4 spelling F1    cfg (beta seq_avg g)        data (inputs preds targets)
      beta = (num den) | (1 s m e)
    output = (0 x) Ok x | (1) Err | (-1) model panic value | (-777) implementation panic
      x = (f p r) | number | ((f p r) infos), infos = list of (tp fp fn), each a list of (pos op) *)
Definition v_q (v : val) : Q := v_z (v_nth 0 v) # Z.to_pos (v_z (v_nth 1 v)).
(** beta: a rational [(num den)] (older corpus files) or the fields [(1 s m e)] of a finite non-zero
    binary64 (value m * 2^e, s = 1 negative; see C13_Float.v); zero and non-finite betas read as 0 *)
Definition v_beta (v : val) : Q :=
  match v with
  | L [I n; I d] => n # Z.to_pos d
  | L [I 1%Z; I s; I m; I e] =>
    let m' := (if Z.eqb s 0 then m else - m)%Z in
    if (0 <=? e)%Z then (m' * 2 ^ e)%Z # 1 else m' # Z.to_pos (2 ^ (- e))
  | _ => 0%Q
  end.
Definition num_v (q : Q) : val := let q' := Qred q in L [I (Qnum q'); I 0%Z; I (Zpos (Qden q'))].
Definition fpr_v (x : fpr) : val := match x with (f, p, r) => L [num_v f; num_v p; num_v r] end.
Definition v_cll (v : val) : list (list cluster) := v_list (v_list (v_list v_n)) v.
Definition v_mode (v : val) : wmode := match v_z v with 0%Z => WIns | 1%Z => WDel | _ => WBoth end.
Definition wop_v (o : wop) : val := C10_Model.op_v o.
Definition info_v (l : list (Z * wop)) : val := list_v (fun p => L [I (fst p); wop_v (snd p)]) l.
Definition winfo_v (w : winfo) : val := match w with (a, b, c) => L [info_v a; info_v b; info_v c] end.

Definition ok_v (x : val) : val := L [I 0%Z; x].
Definition err_v : val := L [I 1%Z].
Definition panic_v : val := L [I (-1)%Z].
Definition opt_out {A} (f : A -> val) (o : option A) : val :=
  match o with Some x => ok_v (f x) | None => err_v end.
Definition outcome_out {A} (f : A -> val) (o : outcome A) : val :=
  match o with Ok x => ok_v (f x) | Err => err_v | Panic => panic_v end.

Definition run_C13 (v : val) : val :=
  let cfg := v_nth 1 v in
  let d := v_nth 2 v in
  match v_z (v_nth 0 v) with
  | 0%Z => opt_out fpr_v (binary_f1 (v_beta (v_nth 0 cfg)) (v_list v_bool (v_nth 0 d)) (v_list v_bool (v_nth 1 d)))
  | 1%Z => opt_out num_v (accuracy (v_list v_z (v_nth 0 d)) (v_list v_z (v_nth 1 d)))
  | 2%Z => opt_out num_v (mean_ed (v_bool (v_nth 0 cfg)) (v_cll (v_nth 0 d)) (v_cll (v_nth 1 d)))
  | 3%Z => outcome_out (fun x => L [fpr_v (fst x); list_v winfo_v (snd x)])
             (ws_f1 (v_beta (v_nth 0 cfg)) (v_bool (v_nth 1 cfg)) (v_mode (v_nth 2 cfg))
                    (v_cll (v_nth 0 d)) (v_cll (v_nth 1 d)) (v_cll (v_nth 2 d)))
  | 4%Z => outcome_out fpr_v
             (sp_f1 (v_beta (v_nth 0 cfg)) (v_bool (v_nth 1 cfg))
                    (v_cll (v_nth 0 d)) (v_cll (v_nth 1 d)) (v_cll (v_nth 2 d)))
  | _ => panic_v
  end.

(** ** comparing numbers *)
Definition v_num (v : val) : option (Z * Z) :=
  match v with
  | L [I m; I e; I d] =>
    if (0 <? d)%Z then Some (if (0 <=? e)%Z then (m * 2 ^ e, d) else (m, d * 2 ^ (- e)))%Z else None
  | _ => None
  end.
(** |impl - model| <= 2^-40 * |model| *)
Definition close (impl model : val) : bool :=
  match v_num impl, v_num model with
  | Some (n1, d1), Some (n2, d2) => (Z.abs (n1 * d2 - n2 * d1) * 2 ^ 40 <=? Z.abs (n2 * d1))%Z
  | _, _ => false
  end.
Definition in01 (x : val) : bool :=
  match v_num x with Some (n, d) => (0 <=? n)%Z && (n <=? d)%Z | None => false end.
Definition nonneg (x : val) : bool :=
  match v_num x with Some (n, d) => (0 <=? n)%Z | None => false end.

Definition close3 (i m : val) : bool :=
  match i, m with
  | L [a; b; c], L [a'; b'; c'] => close a a' && close b b' && close c c'
  | _, _ => false
  end.
Definition in01_3 (x : val) : bool :=
  match x with L [a; b; c] => in01 a && in01 b && in01 c | _ => false end.

(** Correspondence: same outcome kind; numbers within relative 2^-40; info lists exactly *)
Definition agree_C13 (inp m i : val) : bool :=
  match m, i with
  | L [I 0%Z; xm], L [I 0%Z; xi] =>
    match v_z (v_nth 0 inp) with
    | 0%Z | 4%Z => close3 xi xm
    | 1%Z | 2%Z => close xi xm
    | 3%Z => match xm, xi with
             | L [fm; im], L [fi; ii] => close3 fi fm && val_eqb im ii
             | _, _ => false
             end
    | _ => false
    end
  | L [I 1%Z], L [I 1%Z] => true
  | _, _ => false
  end.

(** all [fp] and [fn] info lists empty *)
Definition no_fp_fn (infos : val) : bool :=
  match infos with
  | L l => forallb (fun w => match w with L [_; L []; L []] => true | _ => false end) l
  | _ => false
  end.

(** calibration, stated on the output alone (data = (inputs preds targets), the cleaned texts):
    - predictions = targets: no sequence has a false positive or negative, so every per-sequence
      triple is (1,1,1) or (0,0,0) and F = precision = recall in both aggregation modes;
    - predictions = inputs, micro averaging: no true positive at all, so F = precision = recall = 0. *)
Definition eq3 (x : val) : bool :=
  match x with L [f; p; r] => close f p && close r p | _ => false end.
Definition is_zero (x : val) : bool :=
  match v_num x with Some (n, _) => Z.eqb n 0 | None => false end.
Definition zero3 (x : val) : bool :=
  match x with L [f; p; r] => is_zero f && is_zero p && is_zero r | _ => false end.
Definition calib (d : val) (seq_avg : bool) (x : val) : bool :=
  (if val_eqb (v_nth 1 d) (v_nth 2 d) then eq3 x else true) &&
  (if val_eqb (v_nth 1 d) (v_nth 0 d) && negb seq_avg then zero3 x else true).

(** The executable statement, evaluated on an output (normally the implementation's):
    no panic; Err exactly where the model says so; finite values in [0,1] (mean edit distance:
    >= 0, normalised: in [0,1]); the values are the model's (whose aggregation and defining
    formulas are theorems); calibration as above; whitespace F1 with predictions = targets
    reports no false positive and no false negative operation. *)
Definition check_C13 (v out : val) : bool :=
  agree_C13 v (run_C13 v) out &&
  match out with
  | L [I 0%Z; x] =>
    let cfg := v_nth 1 v in
    let d := v_nth 2 v in
    match v_z (v_nth 0 v) with
    | 0%Z => in01_3 x
    | 1%Z => in01 x
    | 2%Z => if v_bool (v_nth 0 cfg) then in01 x else nonneg x
    | 3%Z => match x with
             | L [f; infos] =>
               in01_3 f && calib d (v_bool (v_nth 1 cfg)) f &&
               (if val_eqb (v_nth 1 d) (v_nth 2 d) then no_fp_fn infos else true)
             | _ => false
             end
    | 4%Z => in01_3 x && calib d (v_bool (v_nth 1 cfg)) x
    | _ => false
    end
  | _ => true
  end.

(** premise of [check_run]: a known function id and, for the spelling metric, clean texts *)
Definition premise_C13 (v : val) : bool :=
  let d := v_nth 2 v in
  match v_z (v_nth 0 v) with
  | 0%Z | 1%Z | 2%Z | 3%Z => true
  | 4%Z => forallb clean_text (v_cll (v_nth 0 d)) && forallb clean_text (v_cll (v_nth 1 d))
  | _ => false
  end.

(** * The texts as the metric functions see them, computed by the model from the RAW strings.
    Every text function of metrics.rs first does [normalize(&clean(s, true), Normalization::NFKC, true)]
    (grapheme mode in both calls, whatever [use_graphemes] says) and only then splits the result
    under the requested [use_graphemes]. [prep] is that, with the models of the segmenter
    (UAX29_Model), of [clean] (C11_Model) and of the normalisation (NFKC_Model). *)
From TU Require UAX29_Model NFKC_Model.
Definition prep (s : str) : str :=
  NFKC_Model.normalize_model NFKC_Model.NFKC true (C11_Model.clean (UAX29_Model.segment s)).
(** [CharString::new(s, use_graphemes)] *)
Definition clusters_of (g : bool) (s : str) : list cluster :=
  if g then UAX29_Model.segment s else singletons s.
Definition text_of (g : bool) (s : str) : list cluster := clusters_of g (prep s).

(** ** KF3 decided on the raw text alone (no normalisation is run):
    - no cluster of the text mixes White_Space with other code points ([no_mixedb], the domain
      restriction the property itself makes);
    - no code point of the text is one of the 52 that NFKC turns into text containing White_Space
      ([NFKC_Model.nfkc_makes_space]);
    and, for grapheme mode only (the prepared text is segmented again):
    - between two words of the text, the first does not end in a Prepend and the second does not
      begin with Extend / SpacingMark / ZWJ ([seams_ok], = C11_UAX29.seam_free: the U+0020 that
      [clean] writes stays a cluster of its own). That this is enough AFTER normalisation as well is a
      theorem (C13_NFKC.v): NFKC changes neither whether a word begins with an attaching code point
      nor whether it ends in a Prepend. *)
Definition in_space_set (c : N) : bool := existsb (N.eqb c) NFKC_Model.nfkc_makes_space.
Definition avoids (s : str) : bool := forallb (fun c => negb (in_space_set c)) s.
Fixpoint seams_ok (W : list str) : bool :=
  match W with
  | w1 :: (w2 :: _) as R =>
      negb (UAX29_Model.is_prepend (last w1 32%N)) && negb (UAX29_Model.ws_joinable (hd 32%N w2)) && seams_ok R
  | _ => true
  end.
Definition kf3_free (g : bool) (s : str) : bool :=
  UAX29_Model.no_mixedb s && avoids s && (if g then seams_ok (C11_Model.words s) else true).

(** the class as the harness decides it with the real crate, here on the model's own [prep]:
    the prepared text is not whitespace-clean or (grapheme mode) has a mixed cluster *)
Definition kf3_class (g : bool) (s : str) : bool :=
  let t := prep s in negb (C11_Model.cleansb t && (if g then UAX29_Model.no_mixedb t else true)).

(** ** val glue for the raw texts.
    input = (fn cfg data raw kf): [data] stays what the harness computed with the real crate (the oracle);
    [raw] holds the unprocessed strings (fn 2: (seqs targets), fn 3/4: (inputs preds targets));
    [kf] (fn 3/4) holds per raw text the pair (kf3_free class) as the HARNESS decides them — kf3_free by
    a Rust transliteration of the definition above, class with the real crate's clean / CharString. *)
Definition v_strs (v : val) : list str := v_list (v_list v_n) v.
Definition in_g (v : val) : bool :=
  let cfg := v_nth 1 v in
  match v_z (v_nth 0 v) with
  | 2%Z => v_bool (v_nth 1 cfg)
  | 3%Z => v_bool (v_nth 3 cfg)
  | 4%Z => v_bool (v_nth 2 cfg)
  | _ => false
  end.
Definition clusters_v (l : list cluster) : val := list_v (list_v n_v) l.
Definition is_text_fn (v : val) : bool :=
  match v_z (v_nth 0 v) with 2%Z | 3%Z | 4%Z => true | _ => false end.
(** the [data] field as the model computes it from [raw] *)
Definition model_data (v : val) : val :=
  if is_text_fn v then
    match v_nth 3 v with
    | L fields => L (map (fun f => list_v (fun s => clusters_v (text_of (in_g v) s)) (v_strs f)) fields)
    | x => x
    end
  else v_nth 2 v.
Definition rawify (v : val) : val := L [v_nth 0 v; v_nth 1 v; model_data v; v_nth 3 v; v_nth 4 v].
(** [prep raw = oracle] for every text *)
Definition prep_agree (v : val) : bool := val_eqb (model_data v) (v_nth 2 v).

Definition kf_flags (v : val) : val :=
  match v_z (v_nth 0 v) with
  | 3%Z | 4%Z =>
    match v_nth 3 v with
    | L fields =>
      L (map (fun f => list_v (fun s => L [bool_v (kf3_free (in_g v) s); bool_v (kf3_class (in_g v) s)]) (v_strs f)) fields)
    | x => x
    end
  | _ => L []
  end.
Definition kf_agree (v : val) : bool := val_eqb (kf_flags v) (v_nth 4 v).

(** premise of [check_run_n]: for the spelling metric, inputs and predictions are [kf3_free] *)
Definition premise_n (v : val) : bool :=
  let r := v_nth 3 v in
  match v_z (v_nth 0 v) with
  | 0%Z | 1%Z | 2%Z | 3%Z => true
  | 4%Z => forallb (kf3_free (in_g v)) (v_strs (v_nth 0 r)) && forallb (kf3_free (in_g v)) (v_strs (v_nth 1 r))
  | _ => false
  end.

(** the model on the raw texts; the correspondence demands in addition that the model's own
    preparation of every raw text is the oracle and that the harness' two flags per text are the model's *)
Definition run_C13N (v : val) : val := run_C13 (rawify v).
Definition agree_C13N (v m i : val) : bool := prep_agree v && kf_agree v && agree_C13 v m i.

(** * Evaluation with reduced fractions (long lists).
    [Qplus] multiplies denominators, so the plain sums above grow by a few bits per sequence and the
    final [Qred] of [num_v] becomes quadratic in the number of sequences. The variants below reduce
    after every addition; they are EQUAL to the plain ones as values ([==]) and therefore give the same
    [val] (C13_Fast.v: [run_C13_fast v = run_C13 v], [check_C13_fast v out = check_C13 v out]). The
    extracted check uses them; every theorem is about the plain definitions. *)
Fixpoint qsum_red (l : list Q) : Q := match l with [] => 0%Q | x :: r => Qred (x + qsum_red r)%Q end.
Definition mean_ed_fast (normalized : bool) (s t : list (list cluster)) : option Q :=
  if Nat.eqb (length s) (length t)
  then Some (qsum_red (map (fun p => C12_Model.distance ed_flags normalized (fst p) (snd p)) (C12_Model.zip s t))
             / inject_Z (Z.of_nat (Nat.max (length s) 1)))%Q
  else None.
Definition fpr_red (x : fpr) : fpr := match x with (a, b, c) => (Qred a, Qred b, Qred c) end.
Definition seq_avg_f1_fast (beta : Q) (vals : list counts) : fpr :=
  match fold_left (fun acc v => fpr_red (fpr_add acc (seq_one beta v))) vals (0%Q, 0%Q, 0%Q) with
  | (f, p, r) =>
    let n := inject_Z (Z.of_nat (Nat.max (length vals) 1)) in
    ((f / n)%Q, (p / n)%Q, (r / n)%Q)
  end.
Definition aggregate_fast (seq_avg : bool) (beta : Q) (vals : list counts) : fpr :=
  if seq_avg then seq_avg_f1_fast beta vals else micro_f1 beta vals.
Definition ws_f1_fast (beta : Q) (seq_avg : bool) (m : wmode) (inputs preds targets : list (list cluster))
  : outcome (fpr * list winfo) :=
  if same3 inputs preds targets then
    match collect (map (fun x => match x with (i, p, t) => ws_tp_fp_fn m i p t end) (zip3 inputs preds targets)) with
    | Ok vals => Ok (aggregate_fast seq_avg beta (map fst vals), map snd vals)
    | Err => Err
    | Panic => Panic
    end
  else Err.
Definition sp_f1_fast (beta : Q) (seq_avg : bool) (inputs preds targets : list (list cluster)) : outcome fpr :=
  if same3 inputs preds targets then
    match collect (map (fun x => match x with (i, p, t) => Some (sp_tp_fp_fn i p t) end) (zip3 inputs preds targets)) with
    | Ok vals => Ok (aggregate_fast seq_avg beta vals)
    | Err => Err
    | Panic => Panic
    end
  else Err.
Definition run_C13_fast (v : val) : val :=
  let cfg := v_nth 1 v in
  let d := v_nth 2 v in
  match v_z (v_nth 0 v) with
  | 0%Z => opt_out fpr_v (binary_f1 (v_beta (v_nth 0 cfg)) (v_list v_bool (v_nth 0 d)) (v_list v_bool (v_nth 1 d)))
  | 1%Z => opt_out num_v (accuracy (v_list v_z (v_nth 0 d)) (v_list v_z (v_nth 1 d)))
  | 2%Z => opt_out num_v (mean_ed_fast (v_bool (v_nth 0 cfg)) (v_cll (v_nth 0 d)) (v_cll (v_nth 1 d)))
  | 3%Z => outcome_out (fun x => L [fpr_v (fst x); list_v winfo_v (snd x)])
             (ws_f1_fast (v_beta (v_nth 0 cfg)) (v_bool (v_nth 1 cfg)) (v_mode (v_nth 2 cfg))
                         (v_cll (v_nth 0 d)) (v_cll (v_nth 1 d)) (v_cll (v_nth 2 d)))
  | 4%Z => outcome_out fpr_v
             (sp_f1_fast (v_beta (v_nth 0 cfg)) (v_bool (v_nth 1 cfg))
                         (v_cll (v_nth 0 d)) (v_cll (v_nth 1 d)) (v_cll (v_nth 2 d)))
  | _ => panic_v
  end.
(** [check_C13] with the model evaluated by [run_C13_fast] *)
Definition check_C13_fast (v out : val) : bool :=
  agree_C13 v (run_C13_fast v) out &&
  match out with
  | L [I 0%Z; x] =>
    let cfg := v_nth 1 v in
    let d := v_nth 2 v in
    match v_z (v_nth 0 v) with
    | 0%Z => in01_3 x
    | 1%Z => in01 x
    | 2%Z => if v_bool (v_nth 0 cfg) then in01 x else nonneg x
    | 3%Z => match x with
             | L [f; infos] =>
               in01_3 f && calib d (v_bool (v_nth 1 cfg)) f &&
               (if val_eqb (v_nth 1 d) (v_nth 2 d) then no_fp_fn infos else true)
             | _ => false
             end
    | 4%Z => in01_3 x && calib d (v_bool (v_nth 1 cfg)) x
    | _ => false
    end
  | _ => true
  end.

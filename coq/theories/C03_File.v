(** C03 with the merge file inside the model: the implementation output carries the bytes of the merge file
    the crate's [save] wrote for the table ([fb]) and the real [MergeOps::load] of it ([lv]);
    [agree_C03f] = the ids agree exactly AND [MsgPack_Model.saved_agree]: the model reads the same map from the
    bytes, the bytes are [mp_encode] of the entries in file order, nothing follows, the map is the input's
    table with id = position.  Definitions only. *)
From TU Require Import Base BPE_Model C03_Model MsgPack_Model.
Open Scope N_scope.

Definition strip_file3 (out : val) : val := match out with L [a; _; _] => L [a] | _ => out end.
Definition check_C03f (v out : val) : bool := check_C03 v (strip_file3 out).
Definition agree_C03f (v m i : val) : bool :=
  match i with
  | L [a; fb; lv] => val_eqb m (L [a]) && saved_agree (v_table (v_nth 0 v)) fb lv
  | _ => val_eqb m i
  end.

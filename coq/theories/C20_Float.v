(** C20: the binary64 arithmetic of [Dictionary::get] / [get_closest] (src/dictionary.rs:278-338), bit for bit
    (third session, topic M item 2).  Definitions only.

    What the code computes with floats:
      get:          [freq as f64 / self.freq_sum as f64]                                   ([relfreq_fl])
      get_closest:  [dists = distances(&a, &b, true, false, false, normalized)]  — C12's [distance_fl] per key
                    ([usize as f64 / usize as f64], one IEEE division; C12_Float.v),
                    first pass:  [min_dist = f64::INFINITY]; [dists[i] < min_dist] -> new minimum, one tie;
                                 [else if dists[i] == min_dist] -> another tie               ([pass1_fl])
                    second pass: [max_by] on the [usize] frequencies (no float)              ([C20_Model.pass2])
                    result:      [(term, freq, freq as f64 / self.freq_sum as f64)]
    [usize as f64] is round-to-nearest-even ([of_Z64], exact up to 2^53, rounding above); [freq_sum = 0] gives
    0/0 = NaN (only a loaded file whose frequencies are all 0 has that).

    The key segmentation is the model's own ([C20_Bytes.seg_key]), no oracle.  [f64] = Flocq [binary_float 53 1024];
    everything here is computed on [Z] / [positive]; a float crosses the val protocol as the fields [(k s m e)] of
    [f64::to_bits] (C12_Float.fl_v).  Because Flocq's operations carry proofs about [R], every theorem that mentions
    these definitions depends on the four axioms of the real numbers / classical logic: they are pinned in
    C20_FloatProps.v, never in C20_Props.v. *)
From Coq Require Import ZArith List Bool QArith.
From Flocq Require Import Core IEEE754.BinarySingleNaN.
From TU Require Import Base C12_Model C12_Float C20_Model C20_Words C20_Bytes.
Import ListNotations.
Open Scope N_scope.

(** [freq as f64 / freq_sum as f64] *)
Definition relfreq_fl (f fs : N) : f64 := quot_fl (Z.of_N f) (Z.of_N fs).

Definition f64_inf : f64 := B754_infinity false.

(** the distances [get_closest] obtains from [edit::distances], in the iteration order [d] of the map *)
Definition dists_fl (norm : bool) (q : list bytes) (d : dict) : list f64 :=
  map (fun e : word * N => distance_fl nofl norm q (seg_key (fst e))) d.

(** first pass, literally: [mn] starts as INFINITY *)
Fixpoint pass1_fl (l : list (f64 * (word * N))) (mn : f64) (ties : list (word * N)) : list (word * N) :=
  match l with
  | [] => ties
  | (x, e) :: r =>
    if flt64 x mn then pass1_fl r x [e]
    else if feq64 x mn then pass1_fl r mn (ties ++ [e])
    else pass1_fl r mn ties
  end.

Definition closest_fl (norm : bool) (q : list bytes) (d : dict) : cres :=
  match d with
  | [] => CNone
  | _ => match pass1_fl (combine (dists_fl norm q d) d) f64_inf [] with
         | [] => CNone
         | t :: ts => CSome (pass2 t ts)
         end
  end.

(** * val glue
    answers of the float level: per query [(get? closest? dists)]
      get?     = () | ((freq rel))         rel: float fields of the returned relative frequency
      closest? = () | ((word freq rel))
      dists    = the first [dists_cap] distances in iteration order (float fields); the implementation side obtains
                 them from the very call [get_closest] makes ([edit::distances] with the keys in [items()] order) *)
Definition dists_cap : nat := 256.
Definition get_fv (fs : N) (o : option N) : val := opt_v (fun f => L [n_v f; fl_v (relfreq_fl f fs)]) o.
Definition closest_fv (fs : N) (c : cres) : val :=
  match c with
  | CNone => L []
  | CSome e => L [L [bytes_v (fst e); n_v (snd e); fl_v (relfreq_fl (snd e) fs)]]
  | CBadOracle => L [I (-1)%Z; I (-1)%Z]
  end.
Definition answer_fv (d : dict) (q : query) : val :=
  let fs := freq_sum d in
  L [ get_fv fs (get (fst (snd q)) d);
      closest_fv fs (closest_fl (fst q) (snd (snd q)) d);
      list_v fl_v (dists_fl (fst q) (snd (snd q)) (firstn dists_cap d)) ].

(** back to the answer [check_closest] reads: [(get? closest?)] without floats *)
Definition strip_answer (a : val) : val :=
  match a with
  | L [g; c; _] =>
    L [ match g with L [L [f; _]] => L [f] | _ => g end;
        match c with L [L [w; f; _]] => L [L [w; f]] | _ => c end ]
  | _ => a
  end.
(** an output without its answers: what [check_C20] / [agree_C20] judge on the input without queries ([prep0]) *)
Definition strip0 (out : val) : val :=
  match out with
  | L [creates; reload; loaded; _] => L [creates; reload; loaded; L []]
  | _ => out
  end.

(** the dictionary [load] yields for the dictionary file, in the model's canonical order *)
Definition loaded_dict (v : val) : option dict := option_map sorted_d (load (prep_dfile (in_dfile v))).

(** the float-level output: creates / reload / loaded as before, the answers with floats *)
Definition run_C20f (v : val) : val :=
  match run_C20 (modelize (prep0 v)) with
  | L [creates; reload; loaded; _] =>
    L [creates; reload; loaded;
       match loaded_dict v with
       | Some d => list_v (answer_fv d) (prep_queries v)
       | None => L []
       end]
  | x => x
  end.

(** the value of returned float fields as an exact fraction (C12_Float.num_of_fl_v; denominator 0 = NaN / infinity) *)
Definition fl_unit (x : val) : bool :=
  let nd := v_zq (num_of_fl_v x) in
  (0 <? snd nd)%Z && (0 <=? fst nd)%Z && (fst nd <=? snd nd)%Z.
(** a returned relative frequency: a finite double in [0,1] — demanded when freq_sum > 0 (with freq_sum = 0 there is
    no relative frequency: the code returns 0/0 = NaN) *)
Definition rel_ok (fs : Z) (a : val) : bool :=
  if (fs <=? 0)%Z then true else
  match a with
  | L [g; c; _] =>
    (match g with L [L [_; x]] => fl_unit x | L [] => true | _ => false end)
    && (match c with L [L [_; _; x]] => fl_unit x | L [] => true | _ => false end)
  | _ => false
  end.

(** the executable statement: [check_C20u] on the prepared input (files read from their bytes) for [create], identical
    builds, save -> load and the shape of [load]'s result; for the dictionary the implementation loaded, every answer
    of [get_closest] an entry at minimal RATIONAL distance (the model's own segmentation of keys and of the query it
    normalised itself) and most frequent among those, [None] exactly on the empty dictionary; and, when freq_sum > 0,
    relative frequencies in [0,1] *)
Definition check_C20f (v out : val) : bool :=
  check_C20u (prep0 v) (strip0 out)
  && match out with
     | L [_; _; loaded; L answers] =>
       match loaded with
       | L [] => match answers with [] => true | _ => false end
       | _ => match v_lres loaded with
              | Some (d, fs) =>
                all2b (fun q a => check_closest_m d q (strip_answer a)) (prep_queries v) answers
                && forallb (rel_ok fs) answers
              | None => false
              end
       end
     | _ => false
     end.

(** correspondence: [agree_C20] on the outputs without answers, the oracle cross-checks, and the answers EXACTLY: on the
    dictionary in the implementation's own iteration order (its [items()]), [get], [get_closest] (which entry among
    ties included: the order decides, the model follows it), the relative frequencies and the distances bit for bit *)
Definition agree_C20f (v m i : val) : bool :=
  agree_C20 (modelize (prep0 v)) (strip0 m) (strip0 i)
  && uax29_agree v && ucd_agree v && reader_agree v && query_agree v
  && match i with
     | L [_; _; L [L [ii; _]]; L ia] => val_eqb (L ia) (list_v (answer_fv (v_items ii)) (prep_queries v))
     | L [_; _; L []; L ia] => match ia with [] => true | _ => false end
     | _ => false
     end.

(** MessagePack as rmp-serde 1.3.1 / rmp 0.8.15 / serde_core 1.0.229 write and read it for the
    one type the crate stores with it in a merge file: [MergeOps = HashMap<Vec<u8>, u32>]
    (src/utils.rs [SerializeMsgPack::save] = [rmp_serde::to_vec] + [write_all],
    [SerializeMsgPack::load] = [rmp_serde::from_read(BufReader::new(file))]).  Definitions only.

    WRITER ([rmp_serde::encode::Serializer], default configuration, [BytesMode::Normal]):
    * [HashMap::serialize] = [collect_map]: [serialize_map(Some(len))] = [write_map_len(len as u32)]
      (fixmap 0x80+n for n < 16, map16 0xde + 2 bytes for n < 65536, map32 0xdf + 4 bytes), then
      for every entry IN ITERATION ORDER the key and the value;
    * key [Vec<u8>::serialize] = [collect_seq]: without serde_bytes (the crate does not use it) and
      with [BytesMode::Normal] a SEQUENCE: [write_array_len(len)] (fixarray 0x90+n, array16 0xdc,
      array32 0xdd), then every byte through [serialize_u8] = [write_uint]: positive fixint for
      b < 128, uint8 0xcc b otherwise;
    * value [u32]: [serialize_u32] = [write_uint(v as u64)]: positive fixint / uint8 0xcc /
      uint16 0xcd / uint32 0xce (uint64 0xcf can not occur for a u32) by magnitude, big endian.

    READER ([rmp_serde::decode::Deserializer::any_inner], the serde visitors of [HashMap], [Vec],
    [u8], [u32]) accepts MORE than the writer emits; everything it accepts for this type is
    modelled ([mp_parse]):
    * top level ([deserialize_map] -> [deserialize_any], [MapVisitor] implements only [visit_map]):
      fixmap / map16 / map32 of any width (a map16 header for 3 entries is fine); every other marker
      is an error; the entries are [insert]ed in file order, so of two entries with the same key
      THE LATER ONE WINS ([fm_get]);
    * key ([deserialize_seq] = [any_inner(visitor, allow_bytes = false)], [VecVisitor] implements only
      [visit_seq]): fixarray / array16 / array32 of any width, AND bin8 / bin16 / bin32 (0xc4-0xc6):
      with [allow_bytes = false] the binary payload is handed to [visit_seq] byte by byte, so a key
      written through serde_bytes loads as the same key; str markers, numbers, nil, maps, ext: error;
    * an element of the key ([deserialize_u8] -> [any_num], serde's [u8] visitor): ANY integer marker
      whose value is in 0..=255: positive fixint, uint8/16/32/64 (0xcc-0xcf), int8/16/32/64
      (0xd0-0xd3) when the two's complement value is non-negative; negative fixint, floats, nil,
      bool: error;
    * value ([deserialize_u32]): the same with range 0..=2^32-1 (an id >= 2^32 in a uint64 is
      "invalid value");
    * running out of bytes anywhere: error ([read_exact] / [read_slice] -> UnexpectedEof);
    * [from_read] does NOT look at what follows the map: TRAILING BYTES ARE IGNORED.  [mp_parse]
      returns the unread rest, [mp_decode] drops it.
    Not modelled: the depth limit (1024; the type has depth 2), I/O errors other than end of file,
    memory exhaustion ([size_hint::cautious] bounds the pre-allocation, so a header announcing 2^32-1
    entries in a short file is an EOF error, not an allocation failure). *)
From TU Require Import Base.
Open Scope N_scope.

Notation mbytes := (list N) (only parsing).
(** a merge table as a list of (key, id) entries in file / iteration order *)
Notation entries := (list (list N * N)) (only parsing).

(** ** big endian *)
Fixpoint be_bytes (k : nat) (v : N) : mbytes :=
  match k with
  | O => []
  | S k' => be_bytes k' (v / 256) ++ [v mod 256]
  end.
Fixpoint be_val (acc : N) (bs : mbytes) : N :=
  match bs with
  | [] => acc
  | b :: r => be_val (acc * 256 + b) r
  end.

(** ** writer *)
(** [rmp::encode::write_uint] *)
Definition enc_uint (v : N) : mbytes :=
  if v <? 128 then [v]
  else if v <? 256 then [204; v]
  else if v <? 65536 then 205 :: be_bytes 2 v
  else if v <? 4294967296 then 206 :: be_bytes 4 v
  else 207 :: be_bytes 8 v.
(** [rmp::encode::write_array_len] / [write_map_len] on [len as u32] *)
Definition enc_array_len (n : N) : mbytes :=
  if n <? 16 then [144 + n] else if n <? 65536 then 220 :: be_bytes 2 n else 221 :: be_bytes 4 n.
Definition enc_map_len (n : N) : mbytes :=
  if n <? 16 then [128 + n] else if n <? 65536 then 222 :: be_bytes 2 n else 223 :: be_bytes 4 n.
Definition enc_key (k : mbytes) : mbytes := enc_array_len (N.of_nat (length k)) ++ flat_map enc_uint k.
Definition enc_entry (e : list N * N) : mbytes := enc_key (fst e) ++ enc_uint (snd e).
(** [rmp_serde::to_vec(&merge_ops)], [m] = the entries in the map's iteration order *)
Definition mp_encode (m : entries) : mbytes := enc_map_len (N.of_nat (length m)) ++ flat_map enc_entry m.

(** the format's size limits for the writer: the three lengths are written [as u32] *)
Definition u32_max : N := 4294967295.
Definition entry_ok (e : list N * N) : Prop :=
  N.of_nat (length (fst e)) <= u32_max /\ Forall (fun b => b < 256) (fst e) /\ snd e <= u32_max.
Definition table_in_limits (m : entries) : Prop :=
  N.of_nat (length m) <= u32_max /\ Forall entry_ok m.

(** ** reader *)
(** [k] bytes of payload, big endian; [None] = end of file *)
Definition take_be (k : nat) (bs : mbytes) : option (N * mbytes) :=
  if (k <=? length bs)%nat then Some (be_val 0 (firstn k bs), skipn k bs) else None.
(** [n] raw bytes ([read_slice]); the comparison comes first so that [N.to_nat] only ever sees a
    number bounded by the length of the input *)
Definition take_n (n : N) (bs : mbytes) : option (mbytes * mbytes) :=
  if n <=? N.of_nat (length bs) then Some (firstn (N.to_nat n) bs, skipn (N.to_nat n) bs) else None.

(** an unsigned integer of range [0..=mx] ([mx] = 255 or 2^32-1) from ANY integer marker *)
Definition dec_unsigned (k : nat) (mx : N) (r : mbytes) : option (N * mbytes) :=
  match take_be k r with
  | Some (v, r') => if v <=? mx then Some (v, r') else None
  | None => None
  end.
(** intN: two's complement; accepted when non-negative (top bit clear) and in range *)
Definition dec_signed (k : nat) (mx : N) (r : mbytes) : option (N * mbytes) :=
  match take_be k r with
  | Some (v, r') => if (v <? 2 ^ (8 * N.of_nat k - 1)) && (v <=? mx) then Some (v, r') else None
  | None => None
  end.
Definition dec_uint (mx : N) (bs : mbytes) : option (N * mbytes) :=
  match bs with
  | [] => None
  | m :: r =>
    if m <? 128 then Some (m, r)
    else if m =? 204 then dec_unsigned 1 mx r
    else if m =? 205 then dec_unsigned 2 mx r
    else if m =? 206 then dec_unsigned 4 mx r
    else if m =? 207 then dec_unsigned 8 mx r
    else if m =? 208 then dec_signed 1 mx r
    else if m =? 209 then dec_signed 2 mx r
    else if m =? 210 then dec_signed 4 mx r
    else if m =? 211 then dec_signed 8 mx r
    else None
  end.

(** [n] elements of a key.  [fuel]: every element consumes at least one byte, so [length bs]
    suffices ([mp_parse_fuel]: the result does not depend on the fuel from there on) *)
Fixpoint dec_elems (fuel : nat) (n : N) (bs : mbytes) : option (mbytes * mbytes) :=
  if n =? 0 then Some ([], bs)
  else match fuel with
       | O => None
       | S f =>
         match dec_uint 255 bs with
         | None => None
         | Some (v, r) =>
           match dec_elems f (n - 1) r with
           | None => None
           | Some (vs, r') => Some (v :: vs, r')
           end
         end
       end.

(** a key; [bin] = whether bin8/16/32 keys are accepted (they are: [mp_parse] uses [true];
    [false] is the array-only sub-format the minimality theorem speaks about) *)
Definition dec_key (bin : bool) (bs : mbytes) : option (mbytes * mbytes) :=
  match bs with
  | [] => None
  | m :: r =>
    if (144 <=? m) && (m <? 160) then dec_elems (length r) (m - 144) r
    else if m =? 220 then match take_be 2 r with Some (n, r') => dec_elems (length r') n r' | None => None end
    else if m =? 221 then match take_be 4 r with Some (n, r') => dec_elems (length r') n r' | None => None end
    else if bin && (m =? 196) then match take_be 1 r with Some (n, r') => take_n n r' | None => None end
    else if bin && (m =? 197) then match take_be 2 r with Some (n, r') => take_n n r' | None => None end
    else if bin && (m =? 198) then match take_be 4 r with Some (n, r') => take_n n r' | None => None end
    else None
  end.

Fixpoint dec_entries (bin : bool) (fuel : nat) (n : N) (bs : mbytes) : option (entries * mbytes) :=
  if n =? 0 then Some ([], bs)
  else match fuel with
       | O => None
       | S f =>
         match dec_key bin bs with
         | None => None
         | Some (k, r) =>
           match dec_uint u32_max r with
           | None => None
           | Some (v, r2) =>
             match dec_entries bin f (n - 1) r2 with
             | None => None
             | Some (es, r3) => Some ((k, v) :: es, r3)
             end
           end
         end
       end.

Definition mp_parse_with (bin : bool) (bs : mbytes) : option (entries * mbytes) :=
  match bs with
  | [] => None
  | m :: r =>
    if (128 <=? m) && (m <? 144) then dec_entries bin (length r) (m - 128) r
    else if m =? 222 then match take_be 2 r with Some (n, r') => dec_entries bin (length r') n r' | None => None end
    else if m =? 223 then match take_be 4 r with Some (n, r') => dec_entries bin (length r') n r' | None => None end
    else None
  end.
(** what [rmp_serde::from_read] accepts for [HashMap<Vec<u8>, u32>]: the entries in file order
    and the bytes it did not read *)
Definition mp_parse (bs : mbytes) : option (entries * mbytes) := mp_parse_with true bs.
(** [MergeOps::load]: the rest is ignored *)
Definition mp_decode (bs : mbytes) : option entries := option_map fst (mp_parse bs).

(** ** the loaded [HashMap]: the entries are inserted in file order, the later one wins *)
Fixpoint fm_get (es : entries) (k : mbytes) : option N :=
  match es with
  | [] => None
  | (k', v) :: r => match fm_get r k with
                    | Some v' => Some v'
                    | None => if nlist_eqb k' k then Some v else None
                    end
  end.
(** the items of the map (one per distinct key, with the value that won), in order of the first
    occurrence of the key — one admissible iteration order *)
Fixpoint fm_items_aux (seen : list mbytes) (all es : entries) : entries :=
  match es with
  | [] => []
  | (k, _) :: r =>
    if existsb (nlist_eqb k) seen then fm_items_aux seen all r
    else match fm_get all k with
         | Some v => (k, v) :: fm_items_aux (k :: seen) all r
         | None => fm_items_aux (k :: seen) all r
         end
  end.
Definition fm_items (es : entries) : entries := fm_items_aux [] es es.

(** ** from the loaded map to the tokenizer's table ([BPETokenizer::new]):
    [reverse_merge_ops] = the keys [sorted_by_key] id; the models of C02 / C03 / C04 take the table as
    the list of keys in id order with id = position, which is what the map IS when its ids are
    exactly 0..n-1.  [key_with_id]: the key carrying id [i]. *)
Definition key_with_id (items : entries) (i : N) : option mbytes :=
  option_map fst (find (fun e => snd e =? i) items).
Fixpoint all_some_keys (l : list (option mbytes)) : option (list mbytes) :=
  match l with
  | [] => Some []
  | None :: _ => None
  | Some x :: r => option_map (cons x) (all_some_keys r)
  end.
(** [Some tbl]: the map has n entries and every id 0..n-1 occurs (hence exactly once); [None]: the ids
    have gaps or repetitions — such a file loads, but it is not a merge table in the sense of the
    properties (train_bpe never writes one: C19 [trained_file_table]) *)
Definition table_of_items (items : entries) : option (list mbytes) :=
  all_some_keys (map (fun i => key_with_id items (N.of_nat i)) (seq 0 (length items))).

Inductive load_result :=
| LoadError                          (* [MergeOps::load] returns Err: the constructor fails *)
| LoadedIllFormed (items : entries)  (* loads; ids are not 0..n-1 *)
| Loaded (tbl : list mbytes).        (* loads; [tbl] = keys in id order, id = position *)
Definition load_table (bs : mbytes) : load_result :=
  match mp_decode bs with
  | None => LoadError
  | Some es => match table_of_items (fm_items es) with
               | Some tbl => Loaded tbl
               | None => LoadedIllFormed (fm_items es)
               end
  end.

(** the entries [train_bpe] / the harnesses put into the map for a table in id order *)
Definition entries_of_table (tbl : list mbytes) : entries :=
  combine tbl (map N.of_nat (seq 0 (length tbl))).

(** ** the correspondence relation on a file (used by [agree] of C02, C03, C04, C19) *)
(** insertion sort by (id, key): the canonical listing of a loaded map, as the harness prints the
    result of the real [MergeOps::load] *)
Fixpoint lex_leb (a b : mbytes) : bool :=
  match a, b with
  | [], _ => true
  | _ :: _, [] => false
  | x :: a', y :: b' => if x <? y then true else if y <? x then false else lex_leb a' b'
  end.
Definition item_leb (a b : list N * N) : bool :=
  if snd a <? snd b then true else if snd b <? snd a then false else lex_leb (fst a) (fst b).
Fixpoint ins_item (e : list N * N) (l : entries) : entries :=
  match l with
  | [] => [e]
  | x :: r => if item_leb e x then e :: l else x :: ins_item e r
  end.
Definition sort_items (l : entries) : entries := fold_right ins_item [] l.

Fixpoint entries_eqb (a b : entries) : bool :=
  match a, b with
  | [], [] => true
  | (k, v) :: a', (k', v') :: b' => nlist_eqb k k' && (v =? v') && entries_eqb a' b'
  | _, _ => false
  end.
Fixpoint tbl_eqb (a b : list mbytes) : bool :=
  match a, b with
  | [], [] => true
  | x :: a', y :: b' => nlist_eqb x y && tbl_eqb a' b'
  | _, _ => false
  end.

Definition v_entries (v : val) : entries :=
  v_list (fun e => (v_list v_n (v_nth 1 e), v_n (v_nth 0 e))) v.
Definition is_byte_list (v : val) : bool :=
  match v with
  | L l => forallb (fun x => match x with I z => (0 <=? z)%Z && (z <? 256)%Z | _ => false end) l
  | _ => false
  end.
Definition is_item_list (v : val) : bool :=
  match v with
  | L l => forallb (fun e => match e with L [I z; k] => (0 <=? z)%Z && is_byte_list k | _ => false end) l
  | _ => false
  end.

(** [load_agree fb lv]: the model reads the file bytes [fb] as the real loader did: [lv] is the real
    [MergeOps::load] result listed as ((id key) ...) sorted by (id, key) *)
Definition load_agree (fb lv : val) : bool :=
  is_byte_list fb && is_item_list lv &&
  match mp_decode (v_list v_n fb) with
  | Some es => entries_eqb (sort_items (fm_items es)) (v_entries lv)
  | None => false
  end.
(** [saved_agree tbl fb lv]: [fb] is a file written by the real [save] for the table [tbl] (ids =
    positions): it parses completely (no trailing byte), re-encoding the parsed entries in the order the
    file has them gives the same bytes (so the writer is [mp_encode] up to the map's iteration order:
    minimal-width integers, array keys), no key occurs twice, the loaded map is the table, and the real loader
    read the same *)
Definition saved_agree (tbl : list mbytes) (fb lv : val) : bool :=
  load_agree fb lv &&
  match mp_parse (v_list v_n fb) with
  | Some (es, []) =>
      nlist_eqb (mp_encode es) (v_list v_n fb)
      && entries_eqb (fm_items es) es
      && match table_of_items es with Some t => tbl_eqb t tbl | None => false end
  | _ => false
  end.

(** RNG model, part 2 — pinned statements about the model of [rand_distr::Geometric] (RNG_Geometric.v: [Geometric::new],
    [sample], [f64::powi] as the square-and-multiply of compiler-rt, all in the exact dyadic binary64 layer of RNG_Model).
    Nothing but statements, [exact], audits.  Tied to the real crates through [mask_tokens] of /repo (lines -5, -6, -7 of
    the C08 check). *)
From TU Require Import RNG_Model RNG_Proofs RNG_Geometric RNG_GeometricProofs.
From TU Require Import Base.
Open Scope N_scope.

(** the constant the code compares with is the binary64 quotient 2.0 / 3.0 *)
Theorem two_thirds_is_quotient : gdiv (g_of_N 2) (g_of_N 3) = two_thirds.
Proof. exact two_thirds_is_quotient_l. Qed.
Print Assumptions two_thirds_is_quotient.

(** a finding about rand_distr 0.5.1 kept by the model: when 1.0 - p rounds to 1.0 (0 < p <= 2^-54) the loop
    [while pi > 0.5 { pi = pi * pi }] of [Geometric::new] starts at 1.0 and never ends — the model's [GNHang] is a real
    divergence (the loop exhausts every fuel), not a fuel artefact *)
Theorem geo_new_hang_is_divergence : forall p, geo_new p = GNHang ->
  gsub g_one p = g_one /\ forall fuel k, new_loop fuel (fmul (gsub g_one p) (gsub g_one p)) k = None.
Proof. exact geo_new_hang_l. Qed.
Print Assumptions geo_new_hang_is_divergence.

Example geo_new_hang_example : geo_new (Fin 4503599627370496 (-106)) = GNHang      (* p = 2^-54 *)
  /\ exists g, geo_new (Fin 4503599627370496 (-105)) = GNOk g /\ g_k g = 53.      (* p = 2^-53: 53 squarings *)
Proof. split; [vm_compute; reflexivity|]. eexists. split; vm_compute; reflexivity. Qed.

(** what a successful [new] returns: p = 0 or p >= 2/3: (p, pi = p, k = 0); otherwise 1 <= k <= 64 and pi <= 0.5 *)
Theorem geo_new_ok : forall p g, geo_new p = GNOk g ->
  g_p g = p /\
  ((g_k g = 0 /\ g_pi g = p /\ (fis_zero p = true \/ fle two_thirds p = true)) \/
   (1 <= g_k g <= 64 /\ fgt (g_pi g) g_half = false /\ fis_zero p = false /\ fle two_thirds p = false)).
Proof. exact geo_new_ok_l. Qed.
Print Assumptions geo_new_ok.

(** TOTALITY OF [new]: for every p given with an exponent <= -53 — every canonical binary64 value below 1, which is every p
    the third branch of [new] can see — the model's 64 squarings suffice: the outcome is Ok, Err or the real divergence,
    never [GNFuel] (the rounded square is monotone on [1/2, 1); from the largest value below 1 the loop ends after 53) *)
Theorem geo_new_never_fuel : forall mp ep, (emin <= ep)%Z -> (ep <= -53)%Z -> geo_new (Fin mp ep) <> GNFuel.
Proof. exact geo_new_never_fuel_l. Qed.
Print Assumptions geo_new_never_fuel.

(** 0.4: (1 - 0.4)^2 = 0.36 <= 0.5, k = 1 *)
Example geo_new_example : geo_new (Fin 7205759403792794 (-54)) = GNOk (Geo (Fin 7205759403792794 (-54)) (Fin 6485183463413514 (-54)) 1).
Proof. vm_compute. reflexivity. Qed.

(** FUEL ADEQUACY.  The three loops of [sample] end with probability one, not for every stream; the model runs them on
    explicit fuel.  A sample that is returned does not depend on the fuel: every larger fuel returns the same value and
    the same generator state.  (Not proved, and not provable without knowledge about ChaCha8: that the fuel of the
    extracted model, 1000 rounds per loop, suffices for the stream of every seed — each round ends a loop with probability
    >= 1/4; never observed.) *)
Theorem geo_sample_fuel_irrelevant : forall f g st x st', geo_sample f g st = GSOk x st' ->
  forall f', (f <= f')%nat -> geo_sample f' g st = GSOk x st'.
Proof. exact geo_sample_mono. Qed.
Print Assumptions geo_sample_fuel_irrelevant.

(** k <= 31 (p above about 3.3e-10): the rejection loop never calls [powf] — [powi] (modelled) is all it needs *)
Theorem geo_sample_no_powf : forall f g st, g_k g <= 31 -> geo_sample f g st <> GSPowf.
Proof. exact geo_sample_no_powf_l. Qed.
Print Assumptions geo_sample_no_powf.

(** a sample is a u64, the generator state stays well-formed, and for 0 < p < 2/3 it is (d << k) + m with m < 2^k and d
    below the fuel *)
Theorem geo_sample_range : forall f g st x st', wf st -> N.of_nat f < 2 ^ 64 -> geo_sample f g st = GSOk x st' ->
  wf st' /\ x < 2 ^ 64 /\
  (fle two_thirds (g_p g) = false -> fis_zero (g_p g) = false ->
   exists d m, x = (d * 2 ^ g_k g) mod 2 ^ 64 + m /\ m < 2 ^ g_k g /\ d < N.of_nat f).
Proof. exact geo_sample_spec_l. Qed.
Print Assumptions geo_sample_range.

(** the premises are met: seed 5, p = 0.4 — the sample is 2 *)
Example geo_sample_example :
  wf (seed_from_u64 5) /\ N.of_nat 100 < 2 ^ 64 /\
  exists st', geo_sample 100 (Geo (Fin 7205759403792794 (-54)) (Fin 6485183463413514 (-54)) 1) (seed_from_u64 5) = GSOk 2 st'.
Proof. split; [apply wf_seed|]. split; [reflexivity|]. eexists. vm_compute. reflexivity. Qed.

(** [powi]: 0.6^5 in five... three multiplications, each rounded *)
Example powi_example : powi (Fin 5404319552844595 (-53)) 5 = Fin 5603198512389276 (-56)
  /\ powi (Fin 5404319552844595 (-53)) 0 = g_one.
Proof. vm_compute. split; reflexivity. Qed.

(** C12 fast model: the dynamic programme of C12_Model.v ([matrix], [dist], [prefix_dist], [operations])
    over binary numbers, written for the extracted OCaml:

    - costs are [N] (binary), never [nat]: every [+ 1] is [N.succ], every comparison [N.ltb];
    - a row is built from the two previous rows by walking them in lockstep (no [nth] in the inner loop):
      [prevs] is the part of row i-1 from column j on, [diag] the cell before it, [p2s] the part of row i-2
      from column j-2 on;
    - the whitespace test of every character is taken once ([wsm]) instead of once per cell;
    - [last_row_f] is a tail-recursive fold over the rows that keeps two rows alive; the op matrix is built
      (as rows of [mop], no costs) only by [operations_f].

    Everything is proved equal to the model of C12_Model.v (bottom of the file), so that each pinned C12
    theorem holds of the functions that are run.  C12_Model.v is untouched. *)
From TU Require Import Base C12_Model C12_Matrix.
From Coq Require Import NArith QArith Lia.
Open Scope N_scope.

(** * Definitions *)
Definition cellf := (N * mop)%type.
(** a character with its whitespace flag *)
Definition wch := (cluster * bool)%type.
Definition wc (x : cluster) : wch := (x, cl_ws x).
Definition wsm (l : list cluster) : list wch := map wc l.

Definition sub_ok_f (fl : flags) (x y : wch) : bool :=
  negb (sid fl) || (negb (snd x) && negb (snd y)).
Definition swap_ok_f (fl : flags) (x x2 y y2 : wch) : bool :=
  with_swap fl && cl_eqb (fst x) (fst y2) && cl_eqb (fst x2) (fst y)
  && (negb (sid fl) || (negb (snd x) && negb (snd x2))).

Definition candidates_f (fl : flags) (x y : wch) (up left diag : N) (sw : option N) : list cellf :=
  [(N.succ up, MDelete); (N.succ left, MInsert)]
  ++ (if cl_eqb (fst x) (fst y) then [(diag, MKeep)]
      else if sub_ok_f fl x y then [(N.succ diag, MReplace)] else [])
  ++ (match sw with Some d2 => [(N.succ d2, MSwap)] | None => [] end).

Fixpoint pick_from_f (c : cellf) (l : list cellf) : cellf :=
  match l with
  | [] => c
  | c' :: l' => pick_from_f (if fst c' <? fst c then c' else c) l'
  end.
Definition pick_f (l : list cellf) : cellf :=
  match l with [] => (0, MNone) | c :: l' => pick_from_f c l' end.

(** [pick_f (candidates_f ..)] without building the list: the same comparisons in the same order *)
Definition better (c' c : cellf) : cellf := if fst c' <? fst c then c' else c.
Definition cell_f (fl : flags) (x y : wch) (up left diag : N) (sw : option N) : cellf :=
  let c2 := better (N.succ left, MInsert) (N.succ up, MDelete) in
  let c3 := if cl_eqb (fst x) (fst y) then better (diag, MKeep) c2
            else if sub_ok_f fl x y then better (N.succ diag, MReplace) c2 else c2 in
  match sw with Some d2 => better (N.succ d2, MSwap) c3 | None => c3 end.

(** cost of the first cell of a row part (0 past the end, as [nth _ _ cell0]) *)
Definition hdc (l : list cellf) : N := match l with [] => 0 | c :: _ => fst c end.

(** cells [j ..] of row i.  [prevs] = row i-1 from column j, [diag] = d[i-1][j-1], [p2s] = row i-2 from
    column j-2 (from column 0 while j = 1, i.e. while [bp = None]), [left] = d[i][j-1]. *)
Fixpoint row_tail_f (fl : flags) (ap : option wch) (x : wch) (bp : option wch) (b : list wch)
         (p2s prevs : list cellf) (diag left : N) : list cellf :=
  match b with
  | [] => []
  | y :: b' =>
    let up := hdc prevs in
    let sw := match ap, bp with
              | Some x2, Some y2 => if swap_ok_f fl x x2 y y2 then Some (hdc p2s) else None
              | _, _ => None
              end in
    let c := cell_f fl x y up left diag sw in
    c :: row_tail_f fl ap x (Some y) b' (match bp with Some _ => tl p2s | None => p2s end)
                    (tl prevs) up (fst c)
  end.

Definition next_row_f (fl : flags) (ap : option wch) (x : wch) (b : list wch) (i : N)
           (prev2 prev : list cellf) : list cellf :=
  (i, MDelete) :: row_tail_f fl ap x None b prev2 (tl prev) (hdc prev) i.

Fixpoint row0_tail_f (b : list wch) (j : N) : list cellf :=
  match b with [] => [] | _ :: b' => (j, MInsert) :: row0_tail_f b' (N.succ j) end.
Definition row0_f (b : list wch) : list cellf := (0, MKeep) :: row0_tail_f b 1.

(** the last row: a tail-recursive fold over the characters of [a], two rows alive *)
Fixpoint last_row_f (fl : flags) (ap : option wch) (a b : list wch) (i : N)
         (prev2 prev : list cellf) : list cellf :=
  match a with
  | [] => prev
  | x :: a' => last_row_f fl (Some x) a' b (N.succ i) prev (next_row_f fl ap x b i prev2 prev)
  end.
Definition final_row_f (fl : flags) (a b : list cluster) : list cellf :=
  let bw := wsm b in last_row_f fl None (wsm a) bw 1 [] (row0_f bw).

(** [d.last()] and the minimum of the last row *)
Definition dist_of_row (row : list cellf) : N := fst (last row (0, MNone)).
Definition prefix_of_row (row : list cellf) : N :=
  match row with
  | [] => 0
  | c :: r => fold_left (fun m c' => N.min m (fst c')) r (fst c)
  end.
Definition dist_f (fl : flags) (a b : list cluster) : N := dist_of_row (final_row_f fl a b).
Definition prefix_dist_f (fl : flags) (a b : list cluster) : N := prefix_of_row (final_row_f fl a b).

Definition distance_f (fl : flags) (normalized : bool) (a b : list cluster) : Q :=
  Qmake (Z.of_N (dist_f fl a b)) (norm_den normalized a b).
Definition prefix_distance_f (fl : flags) (normalized : bool) (a b : list cluster) : Q :=
  Qmake (Z.of_N (prefix_dist_f fl a b)) (pnorm_den normalized a).
Definition distances_f (fl : flags) (normalized : bool) (la lb : list (list cluster)) : option (list Q) :=
  if Nat.eqb (length la) (length lb)
  then Some (map (fun p => distance_f fl normalized (fst p) (snd p)) (zip la lb))
  else None.

(** the op matrix alone (the cost rows are dropped as soon as the next two rows are built) *)
Fixpoint rows_ops_f (fl : flags) (ap : option wch) (a b : list wch) (i : N)
         (prev2 prev : list cellf) : list (list mop) :=
  match a with
  | [] => []
  | x :: a' =>
    let r := next_row_f fl ap x b i prev2 prev in
    map snd r :: rows_ops_f fl (Some x) a' b (N.succ i) prev r
  end.
Definition matrix_ops_f (fl : flags) (a b : list cluster) : list (list mop) :=
  let bw := wsm b in
  let r0 := row0_f bw in
  map snd r0 :: rows_ops_f fl None (wsm a) bw 1 [] r0.

Definition opcell (m : list (list mop)) (i j : nat) : mop := nth j (nth i m []) MNone.

(** [backtrace] of the model on the op matrix alone *)
Fixpoint backtrace_f (fuel : nat) (m : list (list mop)) (i j : nat) : option (list edit) :=
  match fuel with
  | O => None
  | S f =>
    match i, j with
    | O, O => Some []
    | _, _ =>
      match opcell m i j with
      | MNone => None
      | MKeep => match i, j with S i', S j' => backtrace_f f m i' j' | _, _ => None end
      | MInsert => match j with
                   | S j' => option_map (cons (EInsert, i, j')) (backtrace_f f m i j')
                   | O => None end
      | MDelete => match i with
                   | S i' => option_map (cons (EDelete, i', j)) (backtrace_f f m i' j)
                   | O => None end
      | MReplace => match i, j with
                    | S i', S j' => option_map (cons (EReplace, i', j')) (backtrace_f f m i' j')
                    | _, _ => None end
      | MSwap => match i, j with
                 | S (S i'), S (S j') => option_map (cons (ESwap, i', j')) (backtrace_f f m i' j')
                 | _, _ => None end
      end
    end
  end.

Definition ops_of_matrix (a b : list cluster) (m : list (list mop)) : option (list edit) :=
  option_map (fun l => rev_append l []) (backtrace_f (length a + length b + 1) m (length a) (length b)).
Definition operations_f (fl : flags) (a b : list cluster) : option (list edit) :=
  ops_of_matrix a b (matrix_ops_f fl a b).

(** one pass for everything: the op matrix and the last cost row together *)
Fixpoint rows_all_f (fl : flags) (ap : option wch) (a b : list wch) (i : N)
         (prev2 prev : list cellf) : list (list mop) * list cellf :=
  match a with
  | [] => ([], prev)
  | x :: a' =>
    let r := next_row_f fl ap x b i prev2 prev in
    let (m, l) := rows_all_f fl (Some x) a' b (N.succ i) prev r in
    (map snd r :: m, l)
  end.
(** (unnormalised distance, unnormalised prefix distance, script) from ONE matrix computation *)
Definition core_f (fl : flags) (a b : list cluster) : N * N * option (list edit) :=
  let bw := wsm b in
  let r0 := row0_f bw in
  let (m, row) := rows_all_f fl None (wsm a) bw 1 [] r0 in
  (dist_of_row row, prefix_of_row row, ops_of_matrix a b (map snd r0 :: m)).

(** * Proofs: the fast functions are the model's *)
Definition cf (c : cellv) : cellf := (N.of_nat (fst c), snd c).

Lemma of_nat_ltb a b : (N.of_nat a <? N.of_nat b) = (a <? b)%nat.
Proof.
  destruct (N.ltb_spec (N.of_nat a) (N.of_nat b)), (Nat.ltb_spec a b); try reflexivity; lia.
Qed.

Lemma hdc_skipn l : forall k, hdc (map cf (skipn k l)) = N.of_nat (fst (nth k l cell0)).
Proof.
  induction l as [|c l IH]; intros [|k]; try reflexivity.
  cbn [skipn nth]. apply IH.
Qed.

Lemma tl_skipn l : forall k, tl (map cf (skipn k l)) = map cf (skipn (S k) l).
Proof.
  induction l as [|c l IH]; intros [|k]; try reflexivity.
  cbn [skipn]. rewrite IH. reflexivity.
Qed.

Lemma pick_from_f_map l : forall c, pick_from_f (cf c) (map cf l) = cf (pick_from c l).
Proof.
  induction l as [|c' l IH]; intros c; [reflexivity|].
  cbn [map pick_from_f pick_from]. unfold cf at 1 2. cbn [fst]. rewrite of_nat_ltb.
  destruct (fst c' <? fst c)%nat; apply IH.
Qed.
Lemma pick_f_map l : pick_f (map cf l) = cf (pick l).
Proof. destruct l as [|c l]; [reflexivity|]. apply pick_from_f_map. Qed.

Lemma candidates_f_map fl x y up left diag sw :
  candidates_f fl (wc x) (wc y) (N.of_nat up) (N.of_nat left) (N.of_nat diag) (option_map N.of_nat sw)
  = map cf (candidates fl x y up left diag sw).
Proof.
  unfold candidates_f, candidates, sub_ok_f, sub_ok, wc. cbn [fst snd].
  rewrite !map_app. cbn [map]. unfold cf. cbn [fst snd]. rewrite !Nat2N.inj_succ.
  f_equal. f_equal.
  - destruct (cl_eqb x y); [reflexivity|].
    destruct (negb (sid fl) || negb (cl_ws x) && negb (cl_ws y)); cbn [map fst snd]; rewrite ?Nat2N.inj_succ; reflexivity.
  - destruct sw; cbn [option_map map fst snd]; rewrite ?Nat2N.inj_succ; reflexivity.
Qed.

Lemma cell_f_pick fl x y up left diag sw :
  cell_f fl x y up left diag sw = pick_f (candidates_f fl x y up left diag sw).
Proof.
  unfold cell_f, candidates_f, better.
  destruct (cl_eqb (fst x) (fst y)); [|destruct (sub_ok_f fl x y)]; destruct sw; reflexivity.
Qed.

Lemma row_tail_f_eq fl ap x prev2 prev : forall b bp j left,
  match bp with None => j = 1%nat | Some _ => (2 <= j)%nat end ->
  row_tail_f fl (option_map wc ap) (wc x) (option_map wc bp) (wsm b)
             (map cf (skipn (j - 2) prev2)) (map cf (skipn j prev))
             (N.of_nat (fst (nth (j - 1) prev cell0))) (N.of_nat left)
  = map cf (row_tail fl ap x bp b j prev2 prev left).
Proof.
  induction b as [|y b IH]; intros bp j left Hj; [reflexivity|].
  cbn [wsm map row_tail_f row_tail].
  rewrite hdc_skipn.
  assert (Hsw : match option_map wc ap, option_map wc bp with
                | Some x2, Some y2 =>
                  if swap_ok_f fl (wc x) x2 (wc y) y2 then Some (hdc (map cf (skipn (j - 2) prev2))) else None
                | _, _ => None
                end
                = option_map N.of_nat
                    (match ap, bp with
                     | Some x2, Some y2 =>
                       if swap_ok fl x x2 y y2 then Some (fst (nth (j - 2) prev2 cell0)) else None
                     | _, _ => None
                     end)).
  { destruct ap as [x2|], bp as [y2|]; try reflexivity. cbn [option_map].
    unfold swap_ok_f, swap_ok, wc. cbn [fst snd]. rewrite hdc_skipn.
    destruct (with_swap fl && cl_eqb x y2 && cl_eqb x2 y && (negb (sid fl) || negb (cl_ws x) && negb (cl_ws x2)));
      reflexivity. }
  rewrite Hsw, cell_f_pick, candidates_f_map, pick_f_map. f_equal.
  assert (Hp2 : match option_map wc bp with
                | Some _ => tl (map cf (skipn (j - 2) prev2))
                | None => map cf (skipn (j - 2) prev2)
                end = map cf (skipn (S j - 2) prev2)).
  { destruct bp as [y2|]; cbn [option_map].
    - cbv beta iota in Hj. rewrite tl_skipn. f_equal. f_equal. lia.
    - cbv beta iota in Hj. subst j. reflexivity. }
  rewrite Hp2, tl_skipn.
  change (Some (wc y)) with (option_map wc (Some y)).
  unfold cf at 2. cbn [fst].
  replace j with (S j - 1)%nat at 3 by lia.
  apply IH. cbv beta iota. destruct bp; cbv beta iota in Hj; lia.
Qed.

Lemma next_row_f_eq fl ap x b i prev2 prev :
  next_row_f fl (option_map wc ap) (wc x) (wsm b) (N.of_nat i) (map cf prev2) (map cf prev)
  = map cf (next_row fl ap x b i prev2 prev).
Proof.
  unfold next_row_f, next_row. cbn [map]. f_equal.
  pose proof (row_tail_f_eq fl ap x prev2 prev b None 1%nat i eq_refl) as H.
  change (1 - 2)%nat with 0%nat in H. change (1 - 1)%nat with 0%nat in H.
  change (skipn 0 prev2) with prev2 in H. change (option_map wc None) with (@None wch) in H. rewrite <- H.
  rewrite <- (tl_skipn prev 0), <- (hdc_skipn prev 0). reflexivity.
Qed.

Lemma row0_tail_f_eq b : forall j,
  row0_tail_f (wsm b) (N.of_nat j) = map cf (map (fun k => (k, MInsert)) (seq j (length b))).
Proof.
  induction b as [|y b IH]; intros j; [reflexivity|].
  cbn [wsm map row0_tail_f length seq]. rewrite <- Nat2N.inj_succ. fold (wsm b). rewrite IH. reflexivity.
Qed.
Lemma row0_f_eq b : row0_f (wsm b) = map cf (row0 b).
Proof. unfold row0_f, row0. cbn [map]. rewrite <- (row0_tail_f_eq b 1). reflexivity. Qed.

Lemma last_cons {A} (l : list A) : forall x d, last (x :: l) d = last l x.
Proof. induction l as [|y l IH]; intros x d; [reflexivity|]. change (last (x :: y :: l) d) with (last (y :: l) d). rewrite !IH. reflexivity. Qed.

Lemma last_row_f_eq fl b : forall a ap i prev2 prev,
  last_row_f fl (option_map wc ap) (wsm a) (wsm b) (N.of_nat i) (map cf prev2) (map cf prev)
  = map cf (last (rows_from fl ap a b i prev2 prev) prev).
Proof.
  induction a as [|x a IH]; intros ap i prev2 prev; [reflexivity|].
  cbn [wsm map last_row_f rows_from]. rewrite last_cons.
  fold (wsm a). rewrite next_row_f_eq, <- Nat2N.inj_succ.
  change (Some (wc x)) with (option_map wc (Some x)). apply IH.
Qed.

Lemma map_snd_cf r : map snd (map cf r) = map snd r.
Proof. rewrite map_map. apply map_ext. intros c. reflexivity. Qed.

Lemma rows_ops_f_eq fl b : forall a ap i prev2 prev,
  rows_ops_f fl (option_map wc ap) (wsm a) (wsm b) (N.of_nat i) (map cf prev2) (map cf prev)
  = map (map snd) (rows_from fl ap a b i prev2 prev).
Proof.
  induction a as [|x a IH]; intros ap i prev2 prev; [reflexivity|].
  cbn [wsm map rows_ops_f rows_from]. fold (wsm a).
  rewrite next_row_f_eq, map_snd_cf, <- Nat2N.inj_succ.
  change (Some (wc x)) with (option_map wc (Some x)). rewrite IH. reflexivity.
Qed.

Lemma matrix_ops_f_eq fl a b : matrix_ops_f fl a b = map (map snd) (matrix fl a b).
Proof.
  unfold matrix_ops_f, matrix. cbn [map]. rewrite row0_f_eq, map_snd_cf. f_equal.
  exact (rows_ops_f_eq fl b a None 1%nat [] (row0 b)).
Qed.

Lemma nth_length_last {A} (l : list A) : forall x d, nth (length l) (x :: l) d = last l x.
Proof.
  induction l as [|y l IH]; intros x d; [reflexivity|].
  change (nth (length (y :: l)) (x :: y :: l) d) with (nth (length l) (y :: l) d).
  rewrite IH, last_cons. reflexivity.
Qed.

Lemma final_row_f_eq fl a b : final_row_f fl a b = map cf (nth (length a) (matrix fl a b) []).
Proof.
  unfold final_row_f. rewrite row0_f_eq.
  pose proof (last_row_f_eq fl b a None 1%nat [] (row0 b)) as H. cbn [option_map map] in H.
  change (N.of_nat 1) with 1 in H. rewrite H. f_equal.
  unfold matrix.
  assert (Hl : length (rows_from fl None a b 1 [] (row0 b)) = length a).
  { pose proof (length_matrix fl a b) as Hm. unfold matrix in Hm. cbn [length] in Hm. lia. }
  rewrite <- Hl, nth_length_last. reflexivity.
Qed.

Lemma length_final_row fl a b : length (nth (length a) (matrix fl a b) []) = S (length b).
Proof. rewrite nth_matrix by lia. apply length_row_of. Qed.

Lemma nth_last {A} (l : list A) : forall n d d', length l = S n -> nth n l d = last l d'.
Proof.
  induction l as [|x l IH]; intros n d d' H; [discriminate|].
  destruct n as [|n].
  - destruct l; [reflexivity|discriminate].
  - cbn [nth]. rewrite last_cons. destruct l as [|y l]; [discriminate|].
    rewrite (IH n d x) by (cbn [length] in *; lia). reflexivity.
Qed.

Lemma last_map_cf l : forall d, last (map cf l) (cf d) = cf (last l d).
Proof.
  induction l as [|x l IH]; intros d; [reflexivity|].
  cbn [map]. rewrite !last_cons. apply IH.
Qed.

Lemma dist_f_eq fl a b : dist_f fl a b = N.of_nat (dist fl a b).
Proof.
  unfold dist_f, dist_of_row, dist, cell. rewrite final_row_f_eq.
  change (0, MNone) with (cf cell0). rewrite last_map_cf.
  rewrite (nth_last _ (length b) cell0 cell0 (length_final_row fl a b)). reflexivity.
Qed.

Lemma min_list_min l : forall d x, min_list (Nat.min d x) l = Nat.min x (min_list d l).
Proof.
  induction l as [|y l IH]; intros d x; cbn [min_list fold_right]; [lia|].
  fold (min_list (Nat.min d x) l). fold (min_list d l). rewrite IH. lia.
Qed.

Lemma fold_min_eq r : forall d,
  fold_left (fun m c' => N.min m (fst c')) (map cf r) (N.of_nat d) = N.of_nat (min_list d (map fst r)).
Proof.
  induction r as [|c r IH]; intros d; [reflexivity|].
  cbn [map fold_left]. unfold cf at 2. cbn [fst]. rewrite <- Nat2N.inj_min, IH.
  cbn [min_list fold_right]. fold (min_list d (map fst r)). rewrite min_list_min. reflexivity.
Qed.

Lemma prefix_dist_f_eq fl a b : prefix_dist_f fl a b = N.of_nat (prefix_dist fl a b).
Proof.
  unfold prefix_dist_f, prefix_of_row, prefix_dist. rewrite final_row_f_eq.
  destruct (nth (length a) (matrix fl a b) []) as [|c r]; [reflexivity|].
  cbn [map]. unfold cf at 1. cbn [fst]. apply fold_min_eq.
Qed.

Lemma distance_f_eq fl nm a b : distance_f fl nm a b = distance fl nm a b.
Proof. unfold distance_f, distance. rewrite dist_f_eq, nat_N_Z. reflexivity. Qed.
Lemma prefix_distance_f_eq fl nm a b : prefix_distance_f fl nm a b = prefix_distance fl nm a b.
Proof. unfold prefix_distance_f, prefix_distance. rewrite prefix_dist_f_eq, nat_N_Z. reflexivity. Qed.
Lemma distances_f_eq fl nm la lb : distances_f fl nm la lb = distances fl nm la lb.
Proof.
  unfold distances_f, distances. destruct (Nat.eqb (length la) (length lb)); [|reflexivity].
  f_equal. apply map_ext. intros p. apply distance_f_eq.
Qed.

Lemma opcell_eq m i j : opcell (map (map snd) m) i j = snd (cell m i j).
Proof.
  unfold opcell, cell.
  change (@nil mop) with (map (@snd nat mop) []). rewrite map_nth.
  change MNone with (snd cell0). rewrite map_nth. reflexivity.
Qed.

Lemma backtrace_f_eq m : forall fuel i j, backtrace_f fuel (map (map snd) m) i j = backtrace fuel m i j.
Proof.
  induction fuel as [|f IH]; intros i j; [reflexivity|].
  cbn [backtrace_f backtrace]. rewrite opcell_eq.
  destruct i as [|i], j as [|j]; try reflexivity;
    destruct (snd (cell m _ _)); try reflexivity; rewrite ?IH; try reflexivity;
    try (destruct i; try reflexivity); try (destruct j; try reflexivity); rewrite ?IH; reflexivity.
Qed.

Lemma operations_f_eq fl a b : operations_f fl a b = operations fl a b.
Proof.
  unfold operations_f, ops_of_matrix, operations. rewrite matrix_ops_f_eq, backtrace_f_eq.
  destruct (backtrace _ _ _ _) as [l|]; [|reflexivity].
  cbn [option_map]. rewrite <- rev_alt. reflexivity.
Qed.

Lemma rows_all_f_eq fl b : forall a ap i prev2 prev,
  rows_all_f fl ap a b i prev2 prev = (rows_ops_f fl ap a b i prev2 prev, last_row_f fl ap a b i prev2 prev).
Proof.
  induction a as [|x a IH]; intros ap i prev2 prev; [reflexivity|].
  cbn [rows_all_f rows_ops_f last_row_f]. rewrite IH. reflexivity.
Qed.

Lemma core_f_eq fl a b :
  core_f fl a b = (N.of_nat (dist fl a b), N.of_nat (prefix_dist fl a b), operations fl a b).
Proof.
  unfold core_f. cbv zeta. rewrite rows_all_f_eq.
  change (last_row_f fl None (wsm a) (wsm b) 1 [] (row0_f (wsm b))) with (final_row_f fl a b).
  change (map snd (row0_f (wsm b)) :: rows_ops_f fl None (wsm a) (wsm b) 1 [] (row0_f (wsm b)))
    with (matrix_ops_f fl a b).
  fold (dist_f fl a b). fold (prefix_dist_f fl a b). fold (operations_f fl a b).
  rewrite dist_f_eq, prefix_dist_f_eq, operations_f_eq. reflexivity.
Qed.

(** C19 proofs, part 5: different merges of one run never spell the same token.
    Key invariant: every token-aligned span of a word segments in isolation exactly
    as it does in context (the left-to-right replacement factors at token boundaries). *)
From TU Require Import Base C19_Model C19_Proofs C19_Delta C19_Check.
From Coq Require Import Lia.
Open Scope N_scope.

(** * the replacement factors at every token boundary of its result *)
Lemma replace_aux_factor : forall p w last A' B', A' <> [] -> replace_aux p last w = A' ++ B' ->
  exists A B, w = A ++ B /\ replace_aux p last A = A' /\ replace_in_word p B = B'.
Proof.
  intros p w; induction w as [|s r IH]; intros last A' B' HA H; cbn [replace_aux] in H.
  - destruct A' as [|a A'']; [congruence|]. cbn [app] in H. injection H as <- H.
    symmetry in H. apply app_eq_nil in H as [-> ->]. exists [], []. repeat split.
  - destruct (tok_eqb last (fst p) && tok_eqb s (snd p)) eqn:E.
    + destruct (IH _ _ _ HA H) as (A & B & -> & H1 & H2). exists (s :: A), B.
      split; [reflexivity|]. split; [|exact H2]. cbn [replace_aux]. now rewrite E.
    + destruct A' as [|a A'']; [congruence|]. cbn [app] in H. injection H as <- H.
      destruct A'' as [|a2 A3].
      * cbn [app] in H. exists [], (s :: r). repeat split. cbn [replace_in_word]. exact H.
      * destruct (IH s (a2 :: A3) B' ltac:(discriminate) H) as (A & B & -> & H1 & H2).
        exists (s :: A), B. split; [reflexivity|]. split; [|exact H2]. cbn [replace_aux]. now rewrite E, H1.
Qed.

Lemma replace_factor : forall p w A' B', replace_in_word p w = A' ++ B' ->
  exists A B, w = A ++ B /\ replace_in_word p A = A' /\ replace_in_word p B = B'.
Proof.
  intros p w A' B' H. destruct A' as [|a A''].
  - exists [], w. repeat split. exact H.
  - destruct w as [|x t]; [discriminate H|]. cbn [replace_in_word] in H.
    destruct (replace_aux_factor p t x (a :: A'') B' ltac:(discriminate) H) as (A & B & -> & H1 & H2).
    exists (x :: A), B. repeat split; assumption.
Qed.

(** * segmentation of a word by a list of merges *)
Definition seg (ps : list pair) (w : word) : word := fold_left (fun w p => replace_in_word p w) ps w.
Definition bytes_word (bs : list N) : word := map (fun b => [b]) bs.
(** the bytes of a span, as single-byte tokens *)
Definition init (S : word) : word := bytes_word (concat S).

Lemma seg_snoc : forall ps p w, seg (ps ++ [p]) w = replace_in_word p (seg ps w).
Proof. intros. unfold seg. now rewrite fold_left_app. Qed.
Lemma seg_app : forall ps qs w, seg (ps ++ qs) w = seg qs (seg ps w).
Proof. intros. unfold seg. now rewrite fold_left_app. Qed.
Lemma seg_single : forall qs t, seg qs [t] = [t].
Proof. induction qs as [|q qs IH]; intros t; cbn [seg fold_left]; [reflexivity|]. apply IH. Qed.
Lemma seg_concat : forall ps w, concat (seg ps w) = concat w.
Proof.
  induction ps as [|p ps IH]; intros w; cbn [seg fold_left]; [reflexivity|].
  fold (seg ps (replace_in_word p w)). now rewrite IH, replace_concat_l.
Qed.

Lemma state_after_seg : forall ps c, state_after c ps = map (fun wk => (seg ps (fst wk), snd wk)) c.
Proof.
  induction ps as [|p ps IH]; intros c; cbn [state_after fold_left seg].
  - rewrite <- (map_id c) at 1. apply map_ext. now intros [w k].
  - fold (state_after (apply_pair c p) ps). rewrite IH. unfold apply_pair. rewrite map_map.
    apply map_ext. intros [w k]. reflexivity.
Qed.

(** * the invariant: aligned spans segment alone as in context *)
Definition Singles (w : word) : Prop := Forall (fun t => exists b, t = [b]) w.

Lemma init_singles : forall S, Singles S -> init S = S.
Proof.
  intros S H; induction H as [|t r [b ->] Hr IH]; unfold init, bytes_word in *; cbn [concat app map]; [reflexivity|].
  now rewrite IH.
Qed.

Lemma span_inv : forall w0, Singles w0 -> forall ps l S r,
  seg ps w0 = l ++ S ++ r -> seg ps (init S) = S.
Proof.
  intros w0 Hw0 ps. induction ps as [|p ps IH] using rev_ind; intros l S r H.
  - cbn [seg fold_left] in *. apply init_singles. subst w0. unfold Singles in *.
    rewrite !Forall_app in Hw0. tauto.
  - rewrite seg_snoc in H. apply replace_factor in H as (L & R1 & HW & HL & HR1).
    apply replace_factor in HR1 as (S0 & R0 & -> & HS & HR).
    rewrite seg_snoc. assert (Hi : init S = init S0).
    { unfold init. now rewrite <- HS, replace_concat_l. }
    rewrite Hi, (IH L S0 R0 HW). exact HS.
Qed.

(** * occurrence runs: each pair is adjacent somewhere in the state it is merged in *)
Definition Occurs (c : corpus) (ps : list pair) : Prop :=
  forall i p, nth_error ps i = Some p -> In p (all_pairs (state_after c (firstn i ps))).

Lemma word_pairs_split : forall w u v, In (u, v) (word_pairs w) -> exists l r, w = l ++ u :: v :: r.
Proof.
  induction w as [|a t IH]; intros u v H; [destruct H|].
  destruct t as [|b r]; [destruct H|]. rewrite word_pairs_cons2 in H. destruct H as [H|H].
  - injection H as <- <-. now exists [], r.
  - destruct (IH u v H) as (l & r' & Hl). exists (a :: l), r'. cbn [app]. now rewrite Hl.
Qed.

Lemma occurs_span : forall c ps u v, CorpusOK [] c -> In (u, v) (all_pairs (state_after c ps)) ->
  seg ps (init [u; v]) = [u; v].
Proof.
  intros c ps u v Hc H. rewrite state_after_seg in H. unfold all_pairs in H.
  apply in_flat_map in H as ([w k] & Hin & Hp). cbn [fst] in Hp.
  apply in_map_iff in Hin as ([w0 k0] & He & Hin0). cbn [fst snd] in He. injection He as <- <-.
  apply word_pairs_split in Hp as (l & r & Hs).
  apply (span_inv w0) with (l := l) (r := r); [|exact Hs].
  specialize (Hc _ _ Hin0). unfold Singles. eapply Forall_impl; [|exact Hc].
  intros t [_ [Hb|[]]]. exact Hb.
Qed.

Lemma init_pair : forall u v, init [u; v] = init [u ++ v].
Proof. intros. unfold init. cbn [concat]. now rewrite !app_nil_r. Qed.

Lemma replace_pair_itself : forall p : pair, replace_in_word p [fst p; snd p] = [merge p].
Proof. intros p. cbn [replace_in_word replace_aux]. now rewrite !tok_eqb_refl. Qed.

Lemma nth_error_firstn_lt : forall A (l : list A) n i, (i < n)%nat -> nth_error (firstn n l) i = nth_error l i.
Proof.
  intros A l; induction l as [|a l IH]; intros n i H; destruct n as [|n]; try lia; destruct i as [|i]; cbn [firstn nth_error]; try reflexivity.
  apply IH. lia.
Qed.

Lemma occurs_prefix : forall c ps n, Occurs c ps -> Occurs c (firstn n ps).
Proof.
  intros c ps n H i p Hn.
  assert (Hi : (i < n)%nat).
  { destruct (Nat.lt_ge_cases i n) as [Hlt|Hge]; [exact Hlt|].
    assert (nth_error (firstn n ps) i = None); [|congruence].
    apply nth_error_None. rewrite firstn_length. lia. }
  rewrite firstn_firstn. replace (Nat.min i n) with i by lia.
  apply H. rewrite <- Hn. symmetry. apply nth_error_firstn_lt. exact Hi.
Qed.

(** every entry, segmented alone by the whole run, is the single token itself *)
Lemma entry_single : forall c ps, CorpusOK [] c -> Occurs c ps ->
  forall j p, nth_error ps j = Some p -> seg ps (init [merge p]) = [merge p].
Proof.
  intros c ps Hc Ho j p Hn.
  pose proof (Ho j p Hn) as Hin. destruct p as [u v].
  pose proof (occurs_span c (firstn j ps) u v Hc Hin) as Hs.
  apply nth_error_split in Hn as (l1 & l2 & Hps & Hlen).
  assert (Hf : firstn j ps = l1) by (subst ps j; now rewrite firstn_app, firstn_all, Nat.sub_diag, app_nil_r).
  rewrite Hf in Hs. rewrite Hps. change ((u, v) :: l2) with ([(u, v)] ++ l2). rewrite app_assoc, seg_app, seg_snoc.
  unfold merge; cbn [fst snd]. rewrite <- init_pair, Hs.
  change [u; v] with [fst (u, v); snd (u, v)]. rewrite replace_pair_itself. apply seg_single.
Qed.

Lemma occurs_nodup_l : forall c ps, CorpusOK [] c -> Occurs c ps -> NoDup (map merge ps).
Proof.
  intros c ps Hc Ho. apply NoDup_nth_error. intros i j Hi He.
  rewrite map_length in Hi.
  (* wlog the two indices are ordered *)
  assert (Key : forall a b pa pb, (a < b)%nat -> nth_error ps a = Some pa -> nth_error ps b = Some pb ->
                merge pa = merge pb -> False).
  { intros a b pa [u v] Hab Ha Hb Hm.
    pose proof (Ho b (u, v) Hb) as Hin.
    pose proof (occurs_span c (firstn b ps) u v Hc Hin) as Hs.
    assert (Ha' : nth_error (firstn b ps) a = Some pa) by (rewrite nth_error_firstn_lt; assumption).
    pose proof (entry_single c (firstn b ps) Hc (occurs_prefix c ps b Ho) a pa Ha') as Hw.
    assert (Hm' : u ++ v = merge pa) by (symmetry; exact Hm).
    rewrite init_pair, Hm' in Hs. pose proof (eq_trans (eq_sym Hs) Hw) as Hc2. discriminate Hc2. }
  destruct (nth_error ps i) as [pi|] eqn:Ei; [|apply nth_error_None in Ei; lia].
  rewrite (map_nth_error merge i ps Ei) in He.
  destruct (nth_error ps j) as [pj|] eqn:Ej.
  - rewrite (map_nth_error merge j ps Ej) in He. injection He as He.
    destruct (Nat.lt_trichotomy i j) as [Hlt|[Heq|Hgt]]; [|exact Heq|].
    + exfalso. exact (Key i j pi pj Hlt Ei Ej He).
    + exfalso. exact (Key j i pj pi Hgt Ej Ei (eq_sym He)).
  - assert (Hn : nth_error (map merge ps) j = None) by (apply nth_error_None; rewrite map_length; now apply nth_error_None).
    congruence.
Qed.

Lemma run_occurs : forall c k ps, Run c k ps -> Occurs c ps.
Proof. intros c k ps H i p Hn. now destruct (run_entry_max_l c k ps H i p Hn) as [Hin _]. Qed.

Lemma run_nodup_l : forall c k ps, CorpusOK [] c -> Run c k ps -> NoDup (map merge ps).
Proof. intros c k ps Hc Hr. eapply occurs_nodup_l; [exact Hc | eapply run_occurs; exact Hr]. Qed.

(** * the incremental trainer refines the recount specification, unconditionally *)
Lemma occurs_snoc : forall c pre p, Occurs c pre -> In p (all_pairs (state_after c pre)) -> Occurs c (pre ++ [p]).
Proof.
  intros c pre p Ho Hin i q Hn.
  destruct (Nat.lt_ge_cases i (length pre)) as [Hlt|Hge].
  - rewrite nth_error_app1 in Hn by exact Hlt. rewrite firstn_app.
    replace (i - length pre)%nat with 0%nat by lia. cbn [firstn]. rewrite app_nil_r. now apply Ho.
  - rewrite nth_error_app2 in Hn by exact Hge.
    destruct (i - length pre)%nat as [|d] eqn:Ed; cbn [nth_error] in Hn; [|destruct d; discriminate].
    injection Hn as <-. assert (i = length pre) by lia. subst i.
    rewrite firstn_app, firstn_all, Nat.sub_diag. cbn [firstn]. now rewrite app_nil_r.
Qed.

Lemma state_after_snoc : forall c pre p, state_after c (pre ++ [p]) = apply_pair (state_after c pre) p.
Proof. intros. unfold state_after. now rewrite fold_left_app. Qed.

Lemma inc_run_gen : forall c F k ps, IRun c F k ps ->
  forall c0 pre, CorpusOK [] c0 -> Occurs c0 pre -> c = state_after c0 pre ->
  (forall q, F q = pair_freq c q) -> Run c k ps.
Proof.
  intros c F k ps H; induction H as [c F|c F k Hex|c F k p ps Hpos Hmax Hrun IH]; intros c0 pre Hc0 Ho Hc HF.
  - constructor.
  - constructor. intros q. rewrite <- HF. apply Hex.
  - assert (Hok : StepOK c p).
    { split; [apply pair_freq_pos_in; rewrite <- HF; exact Hpos|]. split; [rewrite <- HF; exact Hpos|].
      intros q. rewrite <- !HF. apply Hmax. }
    assert (Hin : In p (all_pairs (state_after c0 pre))) by (rewrite <- Hc; apply Hok).
    pose proof (occurs_snoc c0 pre p Ho Hin) as Ho'.
    pose proof (occurs_nodup_l c0 (pre ++ [p]) Hc0 Ho') as Hnd. rewrite map_app in Hnd. cbn [map] in Hnd.
    pose proof (state_ok pre [] c0 Hc0) as Hcok. cbn [app] in Hcok. rewrite <- Hc in Hcok.
    assert (Hfresh : Fresh c p).
    { destruct Hok as (Hinp & _). apply all_pairs_in in Hinp as (w & kk & Hw & Hf & Hs).
      pose proof (Hcok _ _ Hw) as Hall. rewrite Forall_forall in Hall.
      destruct (Hall _ Hf) as [Hx _]. destruct (Hall _ Hs) as [Hy _].
      split; [exact Hx|]. split; [exact Hy|]. intros w' k' Hw' Hm.
      pose proof (Hcok _ _ Hw') as Hall'. rewrite Forall_forall in Hall'. destruct (Hall' _ Hm) as [_ [[b Hb]|Hin']].
      - unfold merge in Hb. destruct (fst p) as [|? [|]]; destruct (snd p); cbn in Hb; congruence.
      - apply NoDup_remove_2 in Hnd. apply Hnd. rewrite app_nil_r. exact Hin'. }
    constructor; [exact Hok|].
    destruct (update_recount_l c p Hfresh) as [Hfreq Hvoc]. rewrite Hvoc in *.
    apply (IH c0 (pre ++ [p]) Hc0 Ho').
    + rewrite state_after_snoc. now rewrite <- Hc.
    + intros q. rewrite <- Hfreq. apply upd_freq_ext. exact HF.
Qed.

Lemma inc_refines_full_l : forall c k ps, CorpusOK [] c -> IRun c (pair_freq c) k ps -> Run c k ps.
Proof.
  intros c k ps Hc H. apply (inc_run_gen c (pair_freq c) k ps H c [] Hc).
  - intros i p Hn. destruct i; discriminate.
  - reflexivity.
  - reflexivity.
Qed.

Lemma run_fresh_full_l : forall c k ps, CorpusOK [] c -> Run c k ps ->
  forall i p, nth_error ps i = Some p -> Fresh (state_after c (firstn i ps)) p.
Proof. intros c k ps Hc Hr. apply (run_fresh_l c k ps Hc Hr). eapply run_nodup_l; eassumption. Qed.

(** the table of a run is a well-formed merge table in the sense of C02 (distinct entries of >= 2 bytes) *)
Lemma run_table_ok_l : forall c k ps, CorpusOK [] c -> Run c k ps ->
  NoDup (map merge ps) /\ Forall (fun e => (2 <= length e)%nat) (map merge ps).
Proof.
  intros c k ps Hc Hr. split; [eapply run_nodup_l; eassumption|].
  apply Forall_forall. intros e He. apply in_map_iff in He as (p & <- & Hp).
  apply In_nth_error in Hp as (i & Hi).
  destruct (run_table_wf_l c k ps Hc Hr) as [_ H]. now destruct (H i p Hi) as (_ & _ & H2).
Qed.

Lemma checked_table_ok_l : forall v out, check_C19 v out = true ->
  NoDup (out_entries out) /\ Forall (fun e => (2 <= length e)%nat) (out_entries out).
Proof.
  intros v out H. destruct (check_sound_l v out H) as [_ (ps & Hrun & <-)].
  apply (run_table_ok_l _ _ _ (in_corpus_ok v) Hrun).
Qed.

(** C13 proofs, part 4: spelling-correction counts on clean texts: totality, an unchanged
    prediction has no true positive, a prediction equal to the target has no false
    positive and no false negative. *)
From Coq Require Import Lia.
From TU Require Import Base C13_Model C13_Walk.
From TU Require C10_Model C11_Model C12_Model C12_Props C18_Model C18_Proofs.
Open Scope nat_scope.

(** * string-level words (split_ascii_whitespace) = cluster-level words on clean texts *)
Lemma ascii_ws_is_ws : forall x, is_ascii_ws x = true -> is_ws x = true.
Proof.
  intros x H. unfold is_ascii_ws in H. cbn [existsb] in H.
  repeat (apply orb_true_iff in H as [H|H]; [apply N.eqb_eq in H; subst x; reflexivity|]).
  discriminate.
Qed.

Lemma solid_awf : forall c, forallb (fun x => negb (is_ws x)) c = true -> forallb C18_Proofs.awf c = true.
Proof.
  intros c H. rewrite forallb_forall in *. intros x Hx. specialize (H x Hx). unfold C18_Proofs.awf.
  destruct (is_ascii_ws x) eqn:E; [|reflexivity]. apply ascii_ws_is_ws in E. rewrite E in H. discriminate.
Qed.

Lemma split_scan_app_word : forall c s, forallb C18_Proofs.awf c = true ->
  C18_Model.split_scan (c ++ s) = (c ++ fst (C18_Model.split_scan s), snd (C18_Model.split_scan s)).
Proof.
  induction c as [|x c IH]; intros s H.
  - cbn [app]. now destruct (C18_Model.split_scan s).
  - cbn [forallb] in H. apply andb_true_iff in H as [Hx Hc]. cbn [app C18_Model.split_scan].
    rewrite (IH s Hc). cbn [fst snd]. unfold C18_Proofs.awf in Hx.
    destruct (is_ascii_ws x); [discriminate|reflexivity].
Qed.

Lemma string_words_gen : forall l, C10_Model.scb l = true -> forallb solid l = true ->
  let r := C18_Model.split_scan (concat l) in
  is_nil (fst r) = negb (starts_nonws l) /\ length (snd r) = cws l.
Proof.
  induction l as [|c l IH]; intros Hsc Hso; [split; reflexivity|].
  cbn [C10_Model.scb] in Hsc. apply andb_true_iff in Hsc as [Hc Hsc].
  cbn [forallb] in Hso. apply andb_true_iff in Hso as [Hs Hso].
  destruct (IH Hsc Hso) as [I1 I2]. cbv zeta in *. cbn [concat cws starts_nonws].
  destruct (cl_ws c) eqn:Ec.
  - apply andb_true_iff in Hc as [Hc Hh]. apply andb_true_iff in Hc as [Hc Hne].
    apply cl_eqb_true in Hc. subst c. cbn [app C18_Model.split_scan].
    change (is_ascii_ws 32%N) with true. cbv iota. cbn [fst snd negb is_nil].
    split; [reflexivity|].
    assert (Hst : starts_nonws l = true).
    { destruct l as [|c' l']; [discriminate|]. exact Hh. }
    rewrite Hst in I1. cbn [negb] in I1.
    destruct (fst (C18_Model.split_scan (concat l))) as [|x w]; [discriminate|].
    cbn [C18_Model.push_word length]. now rewrite I2.
  - unfold solid in Hs. rewrite Ec in Hs. cbn [orb] in Hs. apply andb_true_iff in Hs as [Hne Hs].
    rewrite (split_scan_app_word c _ (solid_awf c Hs)). cbn [fst snd negb].
    split; [|exact I2]. destruct c; [discriminate|reflexivity].
Qed.

Lemma clean_text_parts : forall l, clean_text l = true -> C10_Model.cleanb l = true /\ forallb solid l = true.
Proof. intros l H. unfold clean_text in H. now apply andb_true_iff in H. Qed.

Lemma words_agree : forall l, clean_text l = true ->
  length (C18_Model.split_ascii_ws (concat l)) = length (C11_Model.word_boundaries l).
Proof.
  intros l H. apply clean_text_parts in H as [Hc Hs].
  destruct l as [|c l]; [reflexivity|].
  rewrite (clean_words_length (c :: l) Hc) by discriminate.
  pose proof (clean_starts (c :: l) Hc ltac:(discriminate)) as Hst.
  apply cleanb_parts in Hc as [_ Hsc].
  destruct (string_words_gen (c :: l) Hsc Hs) as [I1 I2]. cbv zeta in *.
  unfold C18_Model.split_ascii_ws. rewrite Hst in I1. cbn [negb] in I1.
  destruct (fst (C18_Model.split_scan (concat (c :: l)))) as [|x w]; [discriminate|].
  cbn [C18_Model.push_word length]. now rewrite I2.
Qed.

(** * set helpers on index lists *)
Lemma nat_inter_nil : forall a b, (forall i, In i a -> ~ In i b) -> nat_inter a b = [].
Proof.
  intros a b. unfold nat_inter. induction a as [|x a IH]; intros H; [reflexivity|]. cbn [filter].
  destruct (mem_nat x b) eqn:E.
  - apply mem_nat_true in E. exfalso. exact (H x (or_introl eq_refl) E).
  - apply IH. intros i Hi. apply H. now right.
Qed.

Lemma nat_diff_nil : forall a b, (forall i, In i a -> In i b) -> nat_diff a b = [].
Proof.
  intros a b. unfold nat_diff. induction a as [|x a IH]; intros H; [reflexivity|]. cbn [filter].
  replace (mem_nat x b) with true by (symmetry; apply mem_nat_true; apply H; left; reflexivity).
  cbn [negb]. apply IH. intros i Hi. apply H. now right.
Qed.

(** * decomposition of [sp_tp_fp_fn] *)
Lemma sp_decompose : forall ic pc tc c,
  sp_tp_fp_fn ic pc tc = Some c ->
  exists Mit Mip Mpt correct,
    C18_Model.match_keys C18_Model.str_eqb (C18_Model.split_ascii_ws (concat ic)) (C18_Model.split_ascii_ws (concat tc)) = Some Mit /\
    C18_Model.match_keys C18_Model.str_eqb (C18_Model.split_ascii_ws (concat ic)) (C18_Model.split_ascii_ws (concat pc)) = Some Mip /\
    C18_Model.match_keys C18_Model.str_eqb (C18_Model.split_ascii_ws (concat pc)) (C18_Model.split_ascii_ws (concat tc)) = Some Mpt /\
    group_words ic pc (map fst Mpt) = Some correct /\
    let misspelled := C18_Model.complement (length (C18_Model.split_ascii_ws (concat tc))) (map snd Mit) in
    let changed := C18_Model.complement (length (C18_Model.split_ascii_ws (concat ic))) (map fst Mip) in
    c = (is_nil misspelled && is_nil changed,
         length (nat_inter misspelled (map snd Mpt)),
         length (nat_diff changed correct),
         length (nat_diff misspelled (map snd Mpt))).
Proof.
  intros ic pc tc c H. unfold sp_tp_fp_fn, C18_Model.edited_words, C18_Model.match_words in H.
  destruct (C18_Model.match_keys _ (C18_Model.split_ascii_ws (concat ic)) (C18_Model.split_ascii_ws (concat tc))) as [Mit|]; [|discriminate].
  destruct (C18_Model.match_keys _ (C18_Model.split_ascii_ws (concat ic)) (C18_Model.split_ascii_ws (concat pc))) as [Mip|]; [|discriminate].
  destruct (C18_Model.match_keys _ (C18_Model.split_ascii_ws (concat pc)) (C18_Model.split_ascii_ws (concat tc))) as [Mpt|]; [|discriminate].
  cbn [C18_Model.edited_of fst snd] in H.
  destruct (group_words ic pc (map fst Mpt)) as [correct|] eqn:G; [|discriminate].
  injection H as <-. exists Mit, Mip, Mpt, correct. repeat split; try reflexivity. exact G.
Qed.

(** * totality: on clean texts the panic value is never produced *)
Lemma group_words_clean : forall ic pc mp,
  clean_text ic = true -> clean_text pc = true ->
  exists correct, group_words ic pc mp = Some correct
    /\ ((forall x, x < length (C11_Model.word_boundaries pc) -> mem_nat x mp = true) ->
        forall w, w < length (C11_Model.word_boundaries ic) -> In w correct).
Proof.
  intros ic pc mp Hi Hp. apply clean_text_parts in Hi as [Hi _]. apply clean_text_parts in Hp as [Hp _].
  apply group_words_total_l; [exact Hi|exact Hp|].
  destruct (C12_Props.ops_total sp_flags ic pc) as [ops Ho]. exists ops. split; [exact Ho|].
  exact (C12_Props.ops_apply sp_flags ic pc ops Ho).
Qed.

Lemma sp_total_l : forall ic pc tc, clean_text ic = true -> clean_text pc = true ->
  exists c, sp_tp_fp_fn ic pc tc = Some c.
Proof.
  intros ic pc tc Hi Hp. unfold sp_tp_fp_fn, C18_Model.edited_words, C18_Model.match_words.
  destruct (C18_Proofs.match_total_l _ C18_Model.str_eqb (C18_Model.split_ascii_ws (concat ic)) (C18_Model.split_ascii_ws (concat tc))) as [Mit ->].
  destruct (C18_Proofs.match_total_l _ C18_Model.str_eqb (C18_Model.split_ascii_ws (concat ic)) (C18_Model.split_ascii_ws (concat pc))) as [Mip ->].
  destruct (C18_Proofs.match_total_l _ C18_Model.str_eqb (C18_Model.split_ascii_ws (concat pc)) (C18_Model.split_ascii_ws (concat tc))) as [Mpt ->].
  cbn [C18_Model.edited_of fst snd].
  destruct (group_words_clean ic pc (map fst Mpt) Hi Hp) as (correct & -> & _). eexists. reflexivity.
Qed.

(** * unchanged prediction: no true positive *)
Lemma sp_unchanged_l : forall ic tc e tp fp fn, sp_tp_fp_fn ic ic tc = Some (e, tp, fp, fn) -> tp = 0.
Proof.
  intros ic tc e tp fp fn H. destruct (sp_decompose _ _ _ _ H) as (Mit & Mip & Mpt & correct & H1 & _ & H3 & _ & Hc).
  rewrite H1 in H3. injection H3 as <-. cbv zeta in Hc. injection Hc as _ -> _ _.
  rewrite nat_inter_nil; [reflexivity|].
  intros i Hi. apply C18_Proofs.complement_spec in Hi. tauto.
Qed.

(** * prediction = target: no false positive, no false negative *)
Lemma str_eqb_refl : forall x, C18_Model.str_eqb x x = true.
Proof. intros x. now apply C18_Proofs.str_eqb_eq. Qed.

Lemma sp_pred_eq_target_l : forall ic pc e tp fp fn,
  clean_text ic = true -> clean_text pc = true ->
  sp_tp_fp_fn ic pc pc = Some (e, tp, fp, fn) -> fp = 0 /\ fn = 0.
Proof.
  intros ic pc e tp fp fn Hi Hp H.
  destruct (sp_decompose _ _ _ _ H) as (Mit & Mip & Mpt & correct & H1 & H2 & H3 & H4 & Hc).
  cbv zeta in Hc. injection Hc as _ _ -> ->.
  pose proof (C18_Proofs.match_self_l _ _ _ _ str_eqb_refl H3) as Hd.
  set (np := length (C18_Model.split_ascii_ws (concat pc))) in *.
  assert (Hfst : map fst Mpt = seq 0 np).
  { rewrite Hd, map_map. cbn [fst]. apply map_id. }
  assert (Hsnd : map snd Mpt = seq 0 np).
  { rewrite Hd, map_map. cbn [snd]. apply map_id. }
  split.
  - (* every changed input word lies in a group whose predicted words are all matched *)
    destruct (group_words_clean ic pc (map fst Mpt) Hi Hp) as (correct' & G1 & G2).
    rewrite H4 in G1. injection G1 as <-.
    rewrite nat_diff_nil; [reflexivity|].
    intros i Hin. apply C18_Proofs.complement_spec in Hin as [Hlt _].
    rewrite (words_agree ic Hi) in Hlt. apply G2; [|exact Hlt].
    intros x Hx. rewrite <- (words_agree pc Hp) in Hx. apply mem_nat_true. rewrite Hfst. apply in_seq. lia.
  - rewrite nat_diff_nil; [reflexivity|].
    intros i Hin. apply C18_Proofs.complement_spec in Hin as [Hlt _]. rewrite Hsnd. apply in_seq. lia.
Qed.

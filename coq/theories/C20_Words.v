(** C20 with the tokenisation of a line inside the model.  Definitions only.

    What a worker of [Dictionary::create] does to a line (src/dictionary.rs:100-143):
    [normalize(&clean(&line, true), NFKC, true)] — [NFKC_Tie.process_line] (C11's [clean] on
    [UAX29_Model.segment], then [NFKC_Model.normalize_model]) —, [text::split_words] —
    [UCD_Model.split_ws] and [UCD_Model.word_parts] (the matches of the word regex) —, and for the
    character n-grams [CS::split(word, true)] — [UAX29_Model.segment] — with
    [unicode::is_alphabetic] / [is_punctuation] of every cluster — [UCD_Model.str_is_alphabetic] /
    [str_is_punctuation].  [linfo_of_raw] builds from the RAW line exactly the record ([linfo]) that the
    harness used to obtain from the real crate and that [C20_Model.line_tokens] consumes.

    [modelize v] replaces the oracle words of every line of the input by the model's own;
    [run_C20u] / [check_C20u] are [run_C20] / [check_C20] on the modelized input, so the oracle words no
    longer reach them; [ucd_agree] (part of [agree]) demands that the oracle words equal the model's,
    byte offsets of the regex matches included, and the same for the class probes (optional 7th input
    field: strings on which [split_words], [CS::split], [is_alphabetic], [is_punctuation] are applied
    WITHOUT clean / normalisation — used to sweep all scalar values). *)
From TU Require Import Base C20_Model UCD_Model.
From TU Require Import UAX29_Model NFKC_Model NFKC_Tie.
From TU Require Import Base C20_Model UCD_Model.   (* again: the names of this development win over the imported models' *)
Open Scope N_scope.

(** the line as the worker sees it *)
Definition norm_line (raw : str) : str := NFKC_Tie.process_line (Some NFKC_Model.NFKC) raw.

Definition cl_info (cl : str) : clinfo := (utf8s cl, (str_is_alphabetic cl, str_is_punctuation cl)).
Definition winfo_of (w : str) : winfo :=
  (map (fun p : nat * str => utf8s (snd p)) (word_parts w), map cl_info (UAX29_Model.segment w)).
(** [split_words(line)] with the clusters of every word *)
Definition linfo_of (line : str) : linfo := map winfo_of (split_ws line).
Definition linfo_of_raw (raw : str) : linfo := linfo_of (norm_line raw).
(** [Match::start] of the regex matches of every word, in bytes *)
Definition offs_of (line : str) : list (list nat) :=
  map (fun w => map (fun p : nat * str => byte_off w (fst p)) (word_parts w)) (split_ws line).

(** tokens of a raw line *)
Definition raw_tokens (chars : bool) (n : nat) (raw : str) : list word :=
  line_tokens chars n (linfo_of_raw raw).
(** [Dictionary::create] on raw lines *)
Definition create_raw (chars : bool) (cg : N) (max_size max_seq : option N) (raws : list str)
           (arr hp : list nat) : res dict :=
  create chars cg max_size max_seq (map linfo_of_raw raws) arr hp.

(** * val glue *)
Definition clinfo_v (c : clinfo) : val := L [bytes_v (fst c); bool_v (fst (snd c)); bool_v (snd (snd c))].
Definition winfo_v (w : winfo) : val := L [list_v bytes_v (fst w); list_v clinfo_v (snd w)].
Definition linfo_v (l : linfo) : val := list_v winfo_v l.

(** a line of the input is [(raw words)]; the modelized line is [(raw model_words)] *)
Definition v_cps (v : val) : str := v_list v_n v.
Definition line_raw (l : val) : str := v_cps (v_nth 0 l).
Definition modelize_line (l : val) : val := L [v_nth 0 l; linfo_v (linfo_of_raw (line_raw l))].
Definition modelize_file (f : val) : val := L [v_nth 0 f; list_v modelize_line (v_list (fun x => x) (v_nth 1 f))].
Definition set_nth1 (v x : val) : val :=
  match v with
  | L (a :: _ :: r) => L (a :: x :: r)
  | _ => v
  end.
Definition modelize (v : val) : val :=
  set_nth1 v (list_v modelize_file (v_list (fun x => x) (v_nth 1 v))).

Definition in_raws (v : val) : list str :=
  flat_map (fun f => v_list line_raw (v_nth 1 f)) (v_list (fun x => x) (v_nth 1 v)).

Definition run_C20u (v : val) : val := run_C20 (modelize v).

(** "the result is identical for every worker-thread count" (and for a repeated build): every build of
    the output returns the same dictionary as the first one — same status, same items up to list order,
    same freq_sum.  [check_C20] judges every build on its own (exact counts, size, no kept entry less
    frequent than an omitted one); which of several equally frequent words survive the cut is left open
    there, so two builds that break such a tie differently both pass it. *)
Definition same_create (a b : val) : bool :=
  match a, b with
  | L [I 0%Z; ia; I fa], L [I 0%Z; ib; I fb] => same_dict (v_items ia) (v_items ib) && (fa =? fb)%Z
  | L [I 1%Z], L [I 1%Z] => true
  | _, _ => false
  end.
Definition builds_same (out : val) : bool :=
  match v_nth 0 out with
  | L (c0 :: rest) => forallb (same_create c0) rest
  | _ => true
  end.
Definition check_C20u (v out : val) : bool := check_C20 (modelize v) out && builds_same out.

(** * The oracle against the model *)
Definition clinfo_eqb (a b : clinfo) : bool :=
  bytes_eqb (fst a) (fst b) && Bool.eqb (fst (snd a)) (fst (snd b)) && Bool.eqb (snd (snd a)) (snd (snd b)).
Definition winfo_eqb (a b : winfo) : bool :=
  bl_eqb (fst a) (fst b) && all2b clinfo_eqb (snd a) (snd b).
Definition linfo_eqb (a b : linfo) : bool := all2b winfo_eqb a b.

(** the offsets travel as a third component of every word: [(parts clusters offs)] *)
Definition v_offs (words : val) : list (list nat) := v_list (fun w => v_list v_nat (v_nth 2 w)) words.
Definition offs_eqb (a b : list (list nat)) : bool :=
  all2b (fun x y => all2b Nat.eqb x y) a b.

(** one (text, oracle words) pair: [norm] = apply clean + NFKC first *)
Definition words_ok (norm : bool) (l : val) : bool :=
  let line := if norm then norm_line (line_raw l) else line_raw l in
  linfo_eqb (linfo_of line) (v_list v_winfo (v_nth 1 l))
  && offs_eqb (offs_of line) (v_offs (v_nth 1 l)).

Definition in_probes (v : val) : list val := v_list (fun x => x) (v_nth 6 v).
Definition ucd_agree (v : val) : bool :=
  forallb (fun f => forallb (words_ok true) (v_list (fun x => x) (v_nth 1 f))) (v_list (fun x => x) (v_nth 1 v))
  && forallb (words_ok false) (in_probes v).

Definition agree_C20u (v m i : val) : bool :=
  agree_C20 (modelize v) m i && uax29_agree v && ucd_agree v.

(** C02 proofs: word splitting, UTF-8 bytes, decoding, the tokenizer-level theorems. *)
From TU Require Import Base BPE_Model C02_Model C02_Inv C02_Loop.
From Coq Require Import Lia ZifyN ZifyBool.
Open Scope N_scope.
Arguments N.add : simpl never.
Arguments N.ltb : simpl never.
Arguments N.div : simpl never.
Arguments N.modulo : simpl never.

(** * strip_trailing_ws *)
Lemma strip_prefix_l : forall s, exists t, s = strip_trailing_ws s ++ t /\ forallb is_ws t = true.
Proof.
  induction s as [|c r IH]; cbn [strip_trailing_ws].
  - exists []. split; reflexivity.
  - destruct IH as [t [Hr Ht]].
    destruct (strip_trailing_ws r) as [|x r'] eqn:E.
    + cbn [app] in Hr. subst t.
      destruct (is_ws c) eqn:Ec.
      * exists (c :: r). split; [reflexivity|]. cbn [forallb]. rewrite Ec, Ht. reflexivity.
      * exists r. split; [reflexivity|assumption].
    + exists t. split; [|assumption]. cbn [app]. f_equal. exact Hr.
Qed.

Lemma strip_last_l : forall s, strip_trailing_ws s = [] \/
  exists t c, strip_trailing_ws s = t ++ [c] /\ is_ws c = false.
Proof.
  induction s as [|x r IH]; cbn [strip_trailing_ws]; [left; reflexivity|].
  destruct (strip_trailing_ws r) as [|y r'] eqn:E.
  - destruct (is_ws x) eqn:Ex; [left; reflexivity|]. right. exists [], x. split; [reflexivity|exact Ex].
  - right. destruct IH as [IH|[t [c [Ht Hc]]]]; [discriminate|].
    exists (x :: t), c. rewrite Ht. split; [reflexivity|exact Hc].
Qed.

Lemma strip_id_l : forall s c, is_ws c = false -> strip_trailing_ws (s ++ [c]) = s ++ [c].
Proof.
  induction s as [|x s IH]; intros c Hc; cbn [app strip_trailing_ws].
  - rewrite Hc. reflexivity.
  - rewrite (IH c Hc). destruct s; reflexivity.
Qed.

(** the complete specification: the unique split into a part that does not end in
    whitespace and an all-whitespace rest *)
Lemma strip_spec_l : forall s,
  (exists t, s = strip_trailing_ws s ++ t /\ forallb is_ws t = true) /\
  (strip_trailing_ws s = [] \/ exists t c, strip_trailing_ws s = t ++ [c] /\ is_ws c = false) /\
  (forall t c, s = t ++ [c] -> is_ws c = false -> strip_trailing_ws s = s).
Proof.
  intro s. split; [apply strip_prefix_l|]. split; [apply strip_last_l|].
  intros t c -> Hc. apply strip_id_l. exact Hc.
Qed.

(** * the word scanner *)
Definition sc_rhs (cur : list N) (seen : bool) (t : list N) : list N :=
  match t with [] => if seen then cur else [] | _ => cur ++ t end.

Lemma scan_concat : forall s cur seen, concat (scan_words cur seen s) = sc_rhs cur seen (strip_trailing_ws s).
Proof.
  induction s as [|c r IH]; intros cur seen; cbn [scan_words strip_trailing_ws].
  - destruct seen; cbn [concat sc_rhs]; [apply app_nil_r|reflexivity].
  - destruct (is_ws c) eqn:Ec.
    + destruct seen.
      * cbn [concat]. rewrite IH. destruct (strip_trailing_ws r) as [|y r']; cbn [sc_rhs].
        -- apply app_nil_r.
        -- reflexivity.
      * rewrite IH. destruct (strip_trailing_ws r) as [|y r']; cbn [sc_rhs]; [reflexivity|].
        rewrite <- app_assoc. reflexivity.
    + rewrite IH. destruct (strip_trailing_ws r) as [|y r']; cbn [sc_rhs]; [reflexivity|].
      rewrite <- app_assoc. reflexivity.
Qed.

Lemma words_concat s : concat (bpe_words s) = strip_trailing_ws s.
Proof. unfold bpe_words. rewrite scan_concat. destruct (strip_trailing_ws s); reflexivity. Qed.

(** * UTF-8 bytes are bytes *)
Ltac Zify.zify_post_hook ::= Z.div_mod_to_equations.
Lemma utf8_bytes c : valid_cp c -> Forall (fun b => b < 256) (utf8 c).
Proof.
  unfold valid_cp, utf8. intro H.
  destruct (c <? 128) eqn:E1; [repeat constructor; lia|].
  destruct (c <? 2048) eqn:E2; [repeat constructor; lia|].
  destruct (c <? 65536) eqn:E3; repeat constructor; lia.
Qed.
Ltac Zify.zify_post_hook ::= idtac.

Lemma utf8s_bytes s : Forall valid_cp s -> Forall (fun b => b < 256) (utf8s s).
Proof.
  induction 1 as [|c s Hc _ IH]; [constructor|]. unfold utf8s. cbn [flat_map].
  apply Forall_app. split; [apply utf8_bytes; exact Hc|exact IH].
Qed.

Lemma utf8s_app a b : utf8s (a ++ b) = utf8s a ++ utf8s b.
Proof. apply flat_map_app. Qed.

Lemma utf8s_concat ws : utf8s (concat ws) = concat (map utf8s ws).
Proof. induction ws as [|w ws IH]; [reflexivity|]. cbn [concat map]. rewrite utf8s_app, IH. reflexivity. Qed.

(** * decoding the ids of tokens *)
Lemma tok_decode tbl b : Tok tbl b ->
  id_of tbl b < 256 + N.of_nat (length tbl) /\ tok_bytes tbl (id_of tbl b) = b.
Proof.
  intros [[x [-> Hx]]|[Hl [m Hm]]].
  - cbn [id_of]. unfold tok_bytes. replace (x <? 256) with true by (symmetry; apply N.ltb_lt; exact Hx).
    split; [lia|reflexivity].
  - rewrite (id_of_long _ _ _ Hl Hm). pose proof (lookup_lt _ _ _ Hm) as Lt. split; [lia|].
    unfold tok_bytes. replace (256 + m <? 256) with false by (symmetry; apply N.ltb_ge; lia).
    replace (256 + m - 256) with m by lia. apply lookup_nth. exact Hm.
Qed.

Lemma decode_app tbl a b : bpe_decode tbl (a ++ b) = bpe_decode tbl a ++ bpe_decode tbl b.
Proof. apply flat_map_app. Qed.

Lemma decode_toks tbl ts : Forall (Tok tbl) ts ->
  bpe_decode tbl (map (id_of tbl) ts) = concat ts /\
  Forall (fun id => id < 256 + N.of_nat (length tbl)) (map (id_of tbl) ts).
Proof.
  induction 1 as [|b ts Hb _ [IH1 IH2]]; [split; [reflexivity|constructor]|].
  destruct (tok_decode tbl b Hb) as [H1 H2]. cbn [map concat]. split.
  - unfold bpe_decode in *. cbn [flat_map]. rewrite IH1.
    replace (id_of tbl b <? 256 + N.of_nat (length tbl)) with true by (symmetry; apply N.ltb_lt; exact H1).
    rewrite H2. reflexivity.
  - constructor; assumption.
Qed.

Lemma flatten_ids_toks tbl bs : flatten_ids (map (idopt tbl) bs) = map (id_of tbl) (toks bs).
Proof.
  induction bs as [|b bs IH]; [reflexivity|]. unfold flatten_ids in *. cbn [map flat_map]. rewrite IH.
  destruct b as [|x b]; [reflexivity|]. rewrite toks_cons_nonnil by discriminate. reflexivity.
Qed.

Lemma toks_forall (P : list N -> Prop) : forall bs, (forall k, nth k bs [] <> [] -> P (nth k bs [])) -> Forall P (toks bs).
Proof.
  induction bs as [|b bs IH]; intro H; [constructor|].
  assert (Hr : Forall P (toks bs)) by (apply IH; intros k Hk; apply (H (S k)); exact Hk).
  destruct b as [|x b]; [exact Hr|]. rewrite toks_cons_nonnil by discriminate.
  constructor; [apply (H O); discriminate|exact Hr].
Qed.

Lemma concat_toks bs : concat (toks bs) = concat bs.
Proof.
  induction bs as [|b bs IH]; [reflexivity|]. destruct b as [|x b]; [exact IH|].
  rewrite toks_cons_nonnil by discriminate. cbn [concat]. rewrite IH. reflexivity.
Qed.

(** one word: ids exist, decode to the word, are regular vocabulary ids *)
Lemma word_lossless tbl w : Forall (fun b => b < 256) w ->
  exists ids, merge_word tbl w = Some ids /\ bpe_decode tbl ids = w /\
              Forall (fun id => id < 256 + N.of_nat (length tbl)) ids.
Proof.
  intro Hb. destruct (merge_word_inv_l tbl w Hb) as [bs [E [Hc Ht]]].
  unfold merge_word. rewrite E. cbn [option_map snd]. eexists. split; [reflexivity|].
  rewrite flatten_ids_toks.
  destruct (decode_toks tbl (toks bs) (toks_forall _ _ Ht)) as [D1 D2].
  split; [|exact D2]. rewrite D1, concat_toks. exact Hc.
Qed.

(** * the text level *)
Lemma body_words tbl : forall ws, (forall w, In w ws -> Forall valid_cp w) ->
  exists idss, all_some (map (fun w => merge_word tbl (utf8s w)) ws) = Some idss /\
    bpe_decode tbl (concat idss) = utf8s (concat ws) /\
    Forall (fun id => id < 256 + N.of_nat (length tbl)) (concat idss).
Proof.
  induction ws as [|w ws IH]; intro Hv.
  - exists []. repeat split. constructor.
  - destruct IH as [idss [A [D V]]]; [intros x Hx; apply Hv; right; exact Hx|].
    destruct (word_lossless tbl (utf8s w)) as [ids [M [Dw Vw]]];
      [apply utf8s_bytes; apply Hv; left; reflexivity|].
    exists (ids :: idss). cbn [map all_some concat]. rewrite M, A. cbn [option_map]. split; [reflexivity|]. split.
    + rewrite decode_app, Dw, D, utf8s_app. reflexivity.
    + apply Forall_app. split; assumption.
Qed.

Lemma words_valid s : Forall valid_cp s -> forall w, In w (bpe_words s) -> Forall valid_cp w.
Proof.
  intros Hs w Hw. apply Forall_forall. intros c Hc.
  assert (Hin : In c (concat (bpe_words s))) by (apply in_concat; exists w; split; assumption).
  rewrite words_concat in Hin. destruct (strip_prefix_l s) as [t [E _]].
  apply (proj1 (Forall_forall _ _) Hs). rewrite E. apply in_or_app. left. exact Hin.
Qed.

Lemma body_lossless tbl s : Forall valid_cp s ->
  exists body, bpe_body tbl s = Some body /\ bpe_decode tbl body = utf8s (strip_trailing_ws s) /\
               Forall (fun id => id < 256 + N.of_nat (length tbl)) body.
Proof.
  intro Hs. destruct (body_words tbl (bpe_words s) (words_valid s Hs)) as [idss [A [D V]]].
  exists (concat idss). unfold bpe_body. rewrite A. cbn [option_map]. rewrite D, words_concat.
  repeat split. exact V.
Qed.

(** * special ids *)
Lemma index_of_range x : forall l k i, index_of x l k = Some i -> k <= i < k + N.of_nat (length l).
Proof.
  induction l as [|y l IH]; intros k i H; cbn [index_of] in H; [discriminate|].
  destruct (nlist_eqb y x).
  - injection H as <-. cbn [length]. lia.
  - apply IH in H. cbn [length]. lia.
Qed.

Lemma special_id_range c t id : special_id c t = Some id -> n_regular c <= id < vocab_size c.
Proof.
  unfold special_id, vocab_size. destruct (index_of t (uniq [] (c_toks c)) 0) as [i|] eqn:E; [|discriminate].
  cbn [option_map]. intro H. injection H as <-. apply index_of_range in E. lia.
Qed.

Lemma all_some_forall {A B} (f : A -> option B) : forall l,
  forallb (fun t => match f t with Some _ => true | None => false end) l = true ->
  exists r, all_some (map f l) = Some r /\ forall y, In y r -> exists t, f t = Some y.
Proof.
  induction l as [|x l IH]; intro H.
  - exists []. split; [reflexivity|]. intros y [].
  - cbn [forallb] in H. apply andb_true_iff in H. destruct H as [H1 H2].
    destruct (IH H2) as [r [E Hr]]. destruct (f x) as [y|] eqn:Ex; [|discriminate].
    exists (y :: r). cbn [map all_some]. rewrite Ex, E. split; [reflexivity|].
    intros z [<-|Hz]; [exists x; exact Ex|apply Hr; exact Hz].
Qed.

Lemma all_some_none {A B} (f : A -> option B) : forall l,
  forallb (fun t => match f t with Some _ => true | None => false end) l = false -> all_some (map f l) = None.
Proof.
  induction l as [|x l IH]; intro H; [discriminate|]. cbn [forallb] in H. cbn [map all_some].
  destruct (f x) as [y|]; [|reflexivity]. cbn [andb] in H. rewrite (IH H). reflexivity.
Qed.

Lemma decode_specials tbl ids : Forall (fun id => 256 + N.of_nat (length tbl) <= id) ids -> bpe_decode tbl ids = [].
Proof.
  induction 1 as [|id ids H _ IH]; [reflexivity|]. unfold bpe_decode in *. cbn [flat_map]. rewrite IH.
  replace (id <? 256 + N.of_nat (length tbl)) with false by (symmetry; apply N.ltb_ge; exact H). reflexivity.
Qed.

(** * the tokenizer *)
Lemma bpe_lossless_l c s : Forall valid_cp s -> config_ok c = true ->
  exists ids, bpe_tokenize c s = Some ids /\
    bpe_decode (eff_table c) ids = utf8s (strip_trailing_ws s) /\
    Forall (fun id => id < vocab_size c) ids.
Proof.
  intros Hs Hc. unfold config_ok in Hc. apply andb_true_iff in Hc. destruct Hc as [Ht Hps].
  rewrite forallb_app in Hps. apply andb_true_iff in Hps. destruct Hps as [Hp Hsu].
  destruct (all_some_forall _ _ Hp) as [pre [Ep Rp]]. destruct (all_some_forall _ _ Hsu) as [suf [Es Rs]].
  destruct (body_lossless (eff_table c) s Hs) as [body [Eb [Db Vb]]].
  exists (pre ++ body ++ suf). unfold bpe_tokenize. rewrite Ep, Es, Eb.
  destruct (c_toks c) as [|t0 ts] eqn:Et; [discriminate|]. split; [reflexivity|].
  assert (Sp : forall l, (forall y, In y l -> exists t, special_id c t = Some y) ->
               Forall (fun id => n_regular c <= id < vocab_size c) l).
  { intros l Hl. apply Forall_forall. intros y Hy. destruct (Hl y Hy) as [t Hy']. eapply special_id_range. exact Hy'. }
  pose proof (Sp pre Rp) as Fp. pose proof (Sp suf Rs) as Fs. split.
  - rewrite !decode_app, Db.
    rewrite (decode_specials _ pre), (decode_specials _ suf).
    + apply app_nil_r.
    + eapply Forall_impl; [|exact Fs]. unfold n_regular. intros a Ha. lia.
    + eapply Forall_impl; [|exact Fp]. unfold n_regular. intros a Ha. lia.
  - apply Forall_app. split; [eapply Forall_impl; [|exact Fp]; intros a Ha; cbv beta in *; lia|].
    apply Forall_app. split; [|eapply Forall_impl; [|exact Fs]; intros a Ha; cbv beta in *; lia].
    eapply Forall_impl; [|exact Vb]. unfold vocab_size, n_regular. intros a Ha. cbv beta in *. lia.
Qed.

Lemma bpe_tokenize_error c s : config_ok c = false -> bpe_tokenize c s = None.
Proof.
  unfold config_ok, bpe_tokenize. intro H. destruct (c_toks c) as [|t0 ts]; [reflexivity|].
  cbn [is_nil negb andb] in H. rewrite forallb_app in H. apply andb_false_iff in H.
  destruct H as [H|H]; rewrite (all_some_none _ _ H); [reflexivity|].
  destruct (all_some (map (special_id c) (c_prefix c))); reflexivity.
Qed.

(** [merge_word_fuel] at the tokenizer level: with a valid configuration the only [None] of
    [bpe_tokenize] would be an exhausted fuel, and it does not occur *)
Lemma merge_word_fuel_l tbl w : Forall (fun b => b < 256) w -> merge_word tbl w <> None.
Proof.
  intros Hb H. unfold merge_word in H. destruct (merge_word_st tbl w) eqn:E; [discriminate|].
  exact (merge_word_st_some tbl w Hb E).
Qed.

Lemma bpe_some_ok c s ids : bpe_tokenize c s = Some ids -> config_ok c = true.
Proof. intro H. destruct (config_ok c) eqn:E; [reflexivity|]. rewrite (bpe_tokenize_error c s E) in H. discriminate. Qed.

Lemma bpe_lossless_full c s ids : Forall valid_cp s -> bpe_tokenize c s = Some ids ->
  bpe_decode (eff_table c) ids = utf8s (strip_trailing_ws s).
Proof.
  intros Hs H. destruct (bpe_lossless_l c s Hs (bpe_some_ok _ _ _ H)) as [ids' [E [D _]]]. congruence.
Qed.

Lemma bpe_ids_valid_l c s ids : Forall valid_cp s -> bpe_tokenize c s = Some ids ->
  Forall (fun id => id < vocab_size c) ids.
Proof.
  intros Hs H. destruct (bpe_lossless_l c s Hs (bpe_some_ok _ _ _ H)) as [ids' [E [_ V]]]. congruence.
Qed.

Lemma bpe_total_l c s : Forall valid_cp s -> config_ok c = true -> bpe_tokenize c s <> None.
Proof. intros Hs Hc. destruct (bpe_lossless_l c s Hs Hc) as [ids [E _]]. congruence. Qed.

Lemma bpe_utf8_prefix_l c s ids : Forall valid_cp s -> bpe_tokenize c s = Some ids ->
  exists p t, s = p ++ t /\ forallb is_ws t = true /\ bpe_decode (eff_table c) ids = utf8s p.
Proof.
  intros Hs H. destruct (strip_prefix_l s) as [t [E Ht]].
  exists (strip_trailing_ws s), t. repeat split; try assumption. apply bpe_lossless_full; assumption.
Qed.

Lemma bpe_exact_l c s ids t ch : Forall valid_cp s -> bpe_tokenize c s = Some ids ->
  s = t ++ [ch] -> is_ws ch = false -> bpe_decode (eff_table c) ids = utf8s s.
Proof.
  intros Hs H E Hc. rewrite (bpe_lossless_full c s ids Hs H). rewrite E, strip_id_l by exact Hc. reflexivity.
Qed.

(** * check_run *)
Lemma v_n_n_v x : v_n (n_v x) = x.
Proof. unfold v_n, n_v. cbn [v_z]. apply N2Z.id. Qed.

Lemma v_list_list_v l : v_list v_n (list_v n_v l) = l.
Proof. unfold list_v. cbn [v_list]. rewrite map_map. rewrite <- (map_id l) at 2. apply map_ext. apply v_n_n_v. Qed.

Lemma val_eqb_nlist l : val_eqb (list_v n_v l) (list_v n_v l) = true.
Proof.
  unfold list_v. cbn [val_eqb]. induction l as [|x l IH]; cbn [map]; [reflexivity|].
  rewrite IH. unfold n_v. cbn [val_eqb]. rewrite Z.eqb_refl. reflexivity.
Qed.

Lemma check_run_l v : Forall valid_cp (v_str (v_nth 5 v)) -> check_C02 v (run_C02 v) = true.
Proof.
  intro Hs. unfold check_C02, run_C02.
  destruct (config_ok (v_config v)) eqn:Hc.
  - destruct (bpe_lossless_l _ _ Hs Hc) as [ids [E [D V]]]. rewrite E.
    rewrite v_list_list_v, val_eqb_nlist, D, val_eqb_nlist. cbn [andb].
    rewrite andb_true_r. apply forallb_forall. intros id Hid. apply N.ltb_lt.
    apply (proj1 (Forall_forall _ _) V). exact Hid.
  - rewrite (bpe_tokenize_error _ _ Hc). reflexivity.
Qed.

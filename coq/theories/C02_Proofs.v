(** C02 proofs. *)
From TU Require Import Base BPE_Model C02_Model.
Open Scope N_scope.

Lemma strip_prefix_l : forall s, exists t, s = strip_trailing_ws s ++ t /\ forallb is_ws t = true.
Proof.
  induction s as [|c r IH]; cbn [strip_trailing_ws].
  - exists []. split; reflexivity.
  - destruct IH as [t [Hr Ht]].
    destruct (strip_trailing_ws r) as [|x r'] eqn:E.
    + cbn [app] in Hr. subst t.
      destruct (is_ws c) eqn:Ec.
      * exists (c :: r). split; [reflexivity|]. cbn [forallb]. rewrite Ec, Ht. reflexivity.
      * exists r. split; [reflexivity|assumption].
    + exists t. split; [|assumption]. cbn [app]. f_equal. exact Hr.
Qed.

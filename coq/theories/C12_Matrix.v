(** C12 proofs, part 2: the iteratively built matrix is the recurrence [Dc] on
    reversed prefixes ([cell_prefix]); [dist] = [Dref]; [prefix_dist]. *)
From TU Require Import Base C12_Model C12_Spec.
From Coq Require Import Lia.
Open Scope nat_scope.

(** reversed prefix of length [k] *)
Definition rpre (l : list cluster) (k : nat) : list cluster := rev (firstn k l).
(** row of the matrix belonging to the reversed prefix [ra] of [a] *)
Definition row_of (fl : flags) (ra b : list cluster) : list cellv :=
  map (fun k => Dc fl ra (rpre b k)) (seq 0 (S (length b))).

Lemma rpre_0 l : rpre l 0 = [].
Proof. reflexivity. Qed.
Lemma rpre_full l : rpre l (length l) = rev l.
Proof. unfold rpre. rewrite firstn_all. reflexivity. Qed.
Lemma rpre_app_len p s : rpre (p ++ s) (length p) = rev p.
Proof.
  unfold rpre. rewrite firstn_app, firstn_all, Nat.sub_diag. cbn [firstn]. rewrite app_nil_r. reflexivity.
Qed.
Lemma rpre_app_S p y s : rpre (p ++ y :: s) (S (length p)) = y :: rev p.
Proof.
  unfold rpre. rewrite firstn_app. rewrite (firstn_all2 p) by lia.
  replace (S (length p) - length p) with 1 by lia. cbn [firstn].
  rewrite rev_unit. reflexivity.
Qed.
Lemma rpre_app_le p s k : k <= length p -> rpre (p ++ s) k = rpre p k.
Proof.
  intros H. unfold rpre. rewrite firstn_app. replace (k - length p) with 0 by lia.
  cbn [firstn]. rewrite app_nil_r. reflexivity.
Qed.
Lemma length_rpre l k : k <= length l -> length (rpre l k) = k.
Proof. intros H. unfold rpre. rewrite rev_length, firstn_length. lia. Qed.
(** one more character *)
Lemma rpre_S l : forall k, k < length l -> rpre l (S k) = nth k l [] :: rpre l k.
Proof.
  induction l as [|a l IH]; intros k H; cbn [length] in H; [lia|].
  destruct k as [|k]; [reflexivity|].
  change (rpre (a :: l) (S (S k))) with (rpre l (S k) ++ [a]).
  change (rpre (a :: l) (S k)) with (rpre l k ++ [a]).
  rewrite IH by lia. reflexivity.
Qed.

Lemma nth_row_of fl ra b j : j <= length b -> nth j (row_of fl ra b) cell0 = Dc fl ra (rpre b j).
Proof.
  intros H. unfold row_of.
  rewrite nth_indep with (d' := Dc fl ra (rpre b 0))
    by (rewrite map_length, seq_length; lia).
  pose proof (map_nth (fun k => Dc fl ra (rpre b k)) (seq 0 (S (length b))) 0 j) as E.
  cbv beta in E. rewrite E. rewrite seq_nth by lia. reflexivity.
Qed.
Lemma length_row_of fl ra b : length (row_of fl ra b) = S (length b).
Proof. unfold row_of. rewrite map_length, seq_length. reflexivity. Qed.

Lemma row0_spec fl b : row0 b = row_of fl [] b.
Proof.
  unfold row0, row_of. cbn [seq map]. rewrite rpre_0, Dc_nil_nil. f_equal.
  apply map_ext_in. intros k Hk. apply in_seq in Hk.
  pose proof (length_rpre b k ltac:(lia)) as Hl.
  destruct (rpre b k) as [|y rb]; cbn [length] in Hl; [lia|].
  rewrite Dc_nil_cons. f_equal. lia.
Qed.

Lemma row_tail_spec fl x ra prev2 b :
  (forall x2 ra'', ra = x2 :: ra'' -> prev2 = row_of fl ra'' b) ->
  forall bsuf bpre, b = bpre ++ bsuf ->
  row_tail fl (hd_error ra) x (hd_error (rev bpre)) bsuf (S (length bpre)) prev2 (row_of fl ra b)
           (fst (Dc fl (x :: ra) (rev bpre)))
  = map (fun k => Dc fl (x :: ra) (rpre b k)) (seq (S (length bpre)) (length bsuf)).
Proof.
  intros Hp2. induction bsuf as [|y bsuf IH]; intros bpre Hb; [reflexivity|].
  cbn [row_tail length seq map].
  assert (Hlen : length b = length bpre + S (length bsuf)) by (rewrite Hb, app_length; reflexivity).
  assert (Hc : pick (candidates fl x y
                 (fst (nth (S (length bpre)) (row_of fl ra b) cell0))
                 (fst (Dc fl (x :: ra) (rev bpre)))
                 (fst (nth (S (length bpre) - 1) (row_of fl ra b) cell0))
                 match hd_error ra with
                 | Some x2 => match hd_error (rev bpre) with
                              | Some y2 => if swap_ok fl x x2 y y2
                                           then Some (fst (nth (S (length bpre) - 2) prev2 cell0)) else None
                              | None => None end
                 | None => None end)
               = Dc fl (x :: ra) (y :: rev bpre)).
  { rewrite Dc_cons. f_equal. f_equal.
    - rewrite nth_row_of by lia. rewrite Hb, rpre_app_S. reflexivity.
    - replace (S (length bpre) - 1) with (length bpre) by lia.
      rewrite nth_row_of by lia. rewrite Hb, rpre_app_len. reflexivity.
    - destruct ra as [|x2 ra'']; cbn [hd_error sw_of]; [reflexivity|].
      destruct (rev bpre) as [|y2 rb''] eqn:Erb; cbn [hd_error]; [reflexivity|].
      destruct (swap_ok fl x x2 y y2); [|reflexivity].
      rewrite (Hp2 x2 ra'' eq_refl).
      assert (Hbp : bpre = rev rb'' ++ [y2]).
      { rewrite <- (rev_involutive bpre), Erb. reflexivity. }
      assert (Hl2 : length bpre = S (length rb'')).
      { rewrite Hbp, app_length, rev_length. cbn [length]. lia. }
      replace (S (length bpre) - 2) with (length rb'') by lia.
      rewrite nth_row_of by lia. do 2 f_equal.
      rewrite Hb, Hbp, <- app_assoc. rewrite <- (rev_length rb''), rpre_app_len.
      rewrite rev_involutive. reflexivity. }
  match goal with |- ?c :: _ = _ => change c with (pick (candidates fl x y
                 (fst (nth (S (length bpre)) (row_of fl ra b) cell0))
                 (fst (Dc fl (x :: ra) (rev bpre)))
                 (fst (nth (S (length bpre) - 1) (row_of fl ra b) cell0))
                 match hd_error ra with
                 | Some x2 => match hd_error (rev bpre) with
                              | Some y2 => if swap_ok fl x x2 y y2
                                           then Some (fst (nth (S (length bpre) - 2) prev2 cell0)) else None
                              | None => None end
                 | None => None end)) end.
  rewrite Hc.
  f_equal.
  - rewrite Hb, rpre_app_S. reflexivity.
  - specialize (IH (bpre ++ [y])). rewrite rev_unit, app_length in IH. cbn [length hd_error] in IH.
    rewrite Nat.add_1_r in IH. apply IH. rewrite Hb, <- app_assoc. reflexivity.
Qed.

Lemma next_row_spec fl x ra prev2 b :
  (forall x2 ra'', ra = x2 :: ra'' -> prev2 = row_of fl ra'' b) ->
  next_row fl (hd_error ra) x b (S (length ra)) prev2 (row_of fl ra b) = row_of fl (x :: ra) b.
Proof.
  intros Hp2. unfold next_row. unfold row_of at 2. cbn [seq map].
  rewrite rpre_0, Dc_cons_nil. f_equal.
  pose proof (row_tail_spec fl x ra prev2 b Hp2 b [] eq_refl) as H.
  cbn [rev hd_error length] in H. rewrite Dc_cons_nil in H. cbn [fst] in H. exact H.
Qed.

Fixpoint rows_spec (fl : flags) (ra suf b : list cluster) : list (list cellv) :=
  match suf with
  | [] => []
  | x :: suf' => row_of fl (x :: ra) b :: rows_spec fl (x :: ra) suf' b
  end.

Lemma rows_from_spec fl b : forall suf ra prev2,
  (forall x2 ra'', ra = x2 :: ra'' -> prev2 = row_of fl ra'' b) ->
  rows_from fl (hd_error ra) suf b (S (length ra)) prev2 (row_of fl ra b) = rows_spec fl ra suf b.
Proof.
  induction suf as [|x suf IH]; intros ra prev2 Hp2; [reflexivity|].
  cbn [rows_from rows_spec]. rewrite next_row_spec by exact Hp2. f_equal.
  apply (IH (x :: ra) (row_of fl ra b)). intros x2 ra'' E. injection E as _ <-. reflexivity.
Qed.

Lemma matrix_spec fl a b : matrix fl a b = row_of fl [] b :: rows_spec fl [] a b.
Proof.
  unfold matrix. rewrite (row0_spec fl). f_equal.
  apply (rows_from_spec fl b a [] []). intros x2 ra'' E. discriminate.
Qed.

Lemma nth_rows_spec fl b : forall suf ra i, i < length suf ->
  nth i (rows_spec fl ra suf b) [] = row_of fl (rpre suf (S i) ++ ra) b.
Proof.
  induction suf as [|x suf IH]; intros ra i Hi; cbn [length] in Hi; [lia|].
  cbn [rows_spec]. destruct i as [|i].
  - reflexivity.
  - cbn [nth]. rewrite IH by lia. f_equal. unfold rpre. cbn [firstn rev].
    rewrite <- app_assoc. reflexivity.
Qed.

Lemma nth_matrix fl a b i : i <= length a -> nth i (matrix fl a b) [] = row_of fl (rpre a i) b.
Proof.
  intros Hi. rewrite matrix_spec. destruct i as [|i]; [reflexivity|].
  cbn [nth]. rewrite nth_rows_spec by lia. rewrite app_nil_r. reflexivity.
Qed.
Lemma length_matrix fl a b : length (matrix fl a b) = S (length a).
Proof.
  rewrite matrix_spec. cbn [length]. f_equal. generalize (@nil cluster).
  induction a as [|x a IH]; intros ra; cbn [rows_spec length]; [reflexivity|]. f_equal. apply IH.
Qed.

(** cell (i, j) is the recurrence on the prefixes of lengths i and j *)
Lemma cell_prefix_l fl a b i j : i <= length a -> j <= length b ->
  cell (matrix fl a b) i j = Dc fl (rpre a i) (rpre b j).
Proof. intros Hi Hj. unfold cell. rewrite nth_matrix by exact Hi. apply nth_row_of. exact Hj. Qed.

Lemma Dref_firstn fl a b i j : Dref fl (firstn i a) (firstn j b) = fst (Dc fl (rpre a i) (rpre b j)).
Proof. reflexivity. Qed.

Lemma dist_Dref fl a b : dist fl a b = Dref fl a b.
Proof. unfold dist. rewrite cell_prefix_l by lia. rewrite !rpre_full. reflexivity. Qed.

(** cell (i, j) is the distance of the prefixes *)
Lemma cell_dist fl a b i j : i <= length a -> j <= length b ->
  fst (cell (matrix fl a b) i j) = dist fl (firstn i a) (firstn j b).
Proof. intros Hi Hj. rewrite cell_prefix_l by assumption. rewrite dist_Dref. reflexivity. Qed.

(** * prefix distance *)
Lemma prefix_dist_spec_l fl a b : prefix_dist fl a b = prefix_ref fl a b.
Proof.
  unfold prefix_dist, prefix_ref. rewrite nth_matrix by lia. rewrite rpre_full.
  unfold row_of. cbn [seq map]. f_equal.
  - rewrite dist_Dref. reflexivity.
  - rewrite map_map. apply map_ext. intros k. rewrite dist_Dref. reflexivity.
Qed.

Lemma min_list_le d l : min_list d l <= d /\ forall x, In x l -> min_list d l <= x.
Proof.
  induction l as [|y l [IH1 IH2]]; cbn [min_list fold_right]; [split; [lia|intros x []]|].
  fold (min_list d l). split; [lia|]. intros x [<-|H]; [lia|]. specialize (IH2 x H). lia.
Qed.
Lemma min_list_in d l : min_list d l = d \/ In (min_list d l) l.
Proof.
  induction l as [|y l IH]; cbn [min_list fold_right]; [left; reflexivity|]. fold (min_list d l).
  destruct (Nat.min_spec y (min_list d l)) as [[_ ->]|[_ ->]]; [right; left; reflexivity|].
  destruct IH as [IH|IH]; [left; exact IH|right; right; exact IH].
Qed.

(** the minimum over all prefixes of [b], stated without [min_list] *)
Lemma prefix_dist_min_l fl a b :
  (exists k, k <= length b /\ prefix_dist fl a b = dist fl a (firstn k b))
  /\ (forall k, prefix_dist fl a b <= dist fl a (firstn k b)).
Proof.
  rewrite prefix_dist_spec_l. unfold prefix_ref.
  set (l := map (fun k => dist fl a (firstn k b)) (seq 1 (length b))).
  destruct (min_list_le (dist fl a []) l) as [H1 H2]. split.
  - destruct (min_list_in (dist fl a []) l) as [H|H].
    + exists 0. split; [lia|]. exact H.
    + unfold l in H. apply in_map_iff in H as (k & Hk & Hin). apply in_seq in Hin.
      exists k. split; [lia|]. symmetry. exact Hk.
  - intros k. destruct (Nat.le_gt_cases k (length b)) as [Hk|Hk].
    + destruct k as [|k]; [exact H1|]. apply H2. unfold l. apply in_map_iff.
      exists (S k). split; [reflexivity|]. apply in_seq. lia.
    + (* longer than b: the whole of b *)
      rewrite firstn_all2 by lia. destruct (length b) as [|n] eqn:E.
      * destruct b; [exact H1|discriminate].
      * apply H2. unfold l. apply in_map_iff. exists (S n). split.
        -- rewrite <- E. rewrite firstn_all. reflexivity.
        -- apply in_seq. lia.
Qed.

(** JSON — pinned statements about the model of serde_json 1.0.151's [from_str::<Value>] / [to_string] and of the
    item mapping of train_data_generator_from_jsonl (src/data/loading.rs:119-165).  Nothing but statements, [exact],
    and assumption audits.  [json_parse_r]: the parser with its loop fuel visible ([PFuel] = out of fuel);
    [json_parse]: the same as an option; [print]: compact printer; [wf]: number lexemes are what the lexer
    produces and are in range; [depth]: nesting depth (0 for scalars); [item_of_line]: a line -> Err class | item. *)
From TU Require Import Base C01_Model JSON_Model JSON_Proofs JSON_Roundtrip JSON_Items.

(** Totality: the fuel of the element loops (the length of the remaining text) is adequate on every text:
    the parser never gives up for lack of fuel. *)
Theorem json_parse_total : forall s, json_parse_r s <> PFuel.
Proof. exact JSON_Proofs.json_parse_total. Qed.
Print Assumptions json_parse_total.

(** Every value parser of the family consumes at least one character when it succeeds and never runs out of fuel. *)
Theorem json_value_progress : forall d,
  (forall s, pv d s <> PFuel) /\ (forall s v r, pv d s = POk (v, r) -> (length r < length s)%nat).
Proof. exact pv_good. Qed.
Print Assumptions json_value_progress.

(** Round trip for EVERY value (null, booleans, numbers with fraction and exponent, strings with every escape,
    arrays, objects incl. duplicate keys) whose numbers are well formed and whose nesting depth is at most 127:
    parsing the printed text gives the value back. *)
Theorem json_roundtrip : forall v, wf v = true -> (depth v <= DEPTH)%nat -> json_parse (print v) = Some v.
Proof. exact json_roundtrip_l. Qed.
Print Assumptions json_roundtrip.

(** The limit is sharp: serde_json refuses 128 nested arrays (remaining_depth 128 -> 0). *)
Theorem json_depth_limit : exists v, wf v = true /\ depth v = S DEPTH /\ json_parse (print v) = None.
Proof.
  exists (Nat.iter (S DEPTH) (fun x => JArr [x]) JNull). split; [vm_compute; reflexivity|].
  split; vm_compute; reflexivity.
Qed.
Print Assumptions json_depth_limit.

(** Strings: every list of code points, printed with serde_json's escapes, is read back (no premise at all). *)
Theorem json_string_roundtrip : forall s rest, pstr (flat_map esc_char s ++ 34%N :: rest) = Some (s, rest).
Proof. exact pstr_esc. Qed.
Print Assumptions json_string_roundtrip.

(** ... and so is Python's ensure_ascii form (\uXXXX with surrogate pairs) for strings of scalar values. *)
Theorem json_string_ascii_roundtrip : forall s rest, scalars s = true ->
  pstr (flat_map esc_char_ascii s ++ 34%N :: rest) = Some (s, rest).
Proof. exact pstr_esc_ascii. Qed.
Print Assumptions json_string_ascii_roundtrip.

(** Number lexemes: a well-formed lexeme followed by anything that cannot continue a number is read back whole. *)
Theorem json_number_roundtrip : forall n rest, num_wf n = true -> rest_ok rest = true ->
  lex_number (print_num n ++ rest) = Some (n, rest).
Proof. exact lex_number_print. Qed.
Print Assumptions json_number_roundtrip.

(** Duplicate keys: reading a key of serde_json's map (built by inserting the members in text order; an equal key
    replaces) gives the LAST member with that key. *)
Theorem duplicate_key_last_wins : forall (V : Type) (k : list N) (members : list (list N * V)),
  map_get k (map_of members) = find_last k members.
Proof. intros V. exact map_get_of. Qed.
Print Assumptions duplicate_key_last_wins.

(** Any text can be fed to the loader losslessly: for EVERY pair of strings the line a serde_json writer
    produces is read back as exactly that item ... *)
Theorem item_roundtrip : forall i t, item_of_line (line_of i t) = IItem i t.
Proof. exact item_roundtrip_l. Qed.
Print Assumptions item_roundtrip.

(** ... it contains neither '\n' nor '\r' (so it is one line of a jsonl file) ... *)
Theorem line_has_no_eol : forall i t, no_eol (line_of i t) = true.
Proof. exact line_of_no_eol. Qed.
Print Assumptions line_has_no_eol.

(** ... and the line json.dumps of Python writes (ensure_ascii, ", " and ": ") is read back too. *)
Theorem item_roundtrip_py : forall i t, scalars i = true ->
  match t with Some x => scalars x = true | None => True end ->
  item_of_line (line_of_py i t) = IItem i t.
Proof. exact item_roundtrip_py_l. Qed.
Print Assumptions item_roundtrip_py.

(** Non-vacuity and concrete readings. *)
Definition sample_value : jvalue :=
  JObj [([97]%N, JArr [JNum (mk_jnum true [49; 50]%N (Some [53]%N) (Some (true, [51]%N))); JNull; JBool true]);
        ([97]%N, JStr [34; 92; 10; 0; 233; 128512]%N); ([]%N, JObj [])].
Example sample_wf : wf sample_value = true /\ (depth sample_value <= DEPTH)%nat.
Proof. split; [reflexivity|vm_compute; repeat constructor]. Qed.
Example sample_text : print sample_value
  = [123; 34; 97; 34; 58; 91; 45; 49; 50; 46; 53; 101; 45; 51; 44; 110; 117; 108; 108; 44; 116; 114; 117; 101; 93; 44;
     34; 97; 34; 58; 34; 92; 34; 92; 92; 92; 110; 92; 117; 48; 48; 48; 48; 233; 128512; 34; 44; 34; 34; 58; 123; 125; 125]%N.
Proof. reflexivity. Qed.
Example num_wf_witness : num_wf (mk_jnum false [49; 55]%N None (Some (false, [51; 48; 55]%N))) = true
  /\ rest_ok [44]%N = true.
Proof. split; vm_compute; reflexivity. Qed.
(** the range check: 1e308 is read, 1e309 and 10e308 are "number out of range", 0e999 is read *)
Example range_check :
  number_ok (mk_jnum false [49]%N None (Some (false, [51; 48; 56]%N))) = true /\
  number_ok (mk_jnum false [49]%N None (Some (false, [51; 48; 57]%N))) = false /\
  number_ok (mk_jnum false [49; 48]%N None (Some (false, [51; 48; 56]%N))) = false /\
  number_ok (mk_jnum false [48]%N None (Some (false, [57; 57; 57]%N))) = true.
Proof. repeat split; vm_compute; reflexivity. Qed.
(** {"input":"x","target":"y","input":"z"}: the last "input" wins; a lone surrogate escape is an error *)
Example dup_line : item_of_line [123; 34; 105; 110; 112; 117; 116; 34; 58; 34; 120; 34; 44; 34; 116; 97; 114; 103; 101; 116; 34; 58;
                                 34; 121; 34; 44; 34; 105; 110; 112; 117; 116; 34; 58; 34; 122; 34; 125]%N
  = IItem [122]%N (Some [121]%N).
Proof. vm_compute. reflexivity. Qed.
Example lone_surrogate : json_parse [34; 92; 117; 100; 56; 48; 48; 34]%N = None
  /\ json_parse [34; 92; 117; 100; 56; 51; 100; 92; 117; 100; 101; 48; 48; 34]%N = Some (JStr [128512]%N).
Proof. split; vm_compute; reflexivity. Qed.
Example py_witness : scalars [128512; 233; 10; 127; 0]%N = true.
Proof. reflexivity. Qed.

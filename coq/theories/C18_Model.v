(** C18 model: text::match_words_with (src/text.rs) and edit::edited_words (src/edit.rs).
    Words are obtained with [split_ascii_whitespace]; the LCS table is filled row by
    row with the code's tie-breaking ([max_by] over [Delete; Insert; Match|NoMatch]
    returns the LAST maximum); the backtrace walks the op table from the bottom-right
    corner. Word equality is a boolean relation on "keys": the words themselves
    (exact) or their lower-cased forms, which the harness supplies ([str::to_lowercase]
    is an oracle). Definitions only. *)
From TU Require Import Base.

(** * [str::split_ascii_whitespace] on code points (the five ASCII whitespace bytes
      only ever occur as one-byte code points, so bytes vs. code points is immaterial). *)
Definition push_word (w : str) (ws : list str) : list str :=
  match w with [] => ws | _ :: _ => w :: ws end.

(** right-to-left scan: (word under construction at the front, finished words behind it) *)
Fixpoint split_scan (s : str) : str * list str :=
  match s with
  | [] => ([], [])
  | c :: s' =>
    let r := split_scan s' in
    if is_ascii_ws c then ([], push_word (fst r) (snd r)) else (c :: fst r, snd r)
  end.

Definition split_ascii_ws (s : str) : list str :=
  let r := split_scan s in push_word (fst r) (snd r).

(** * The LCS table *)
Inductive mop := MNone | MDel | MIns | MMatch | MNoMatch.
Definition cell := (nat * mop)%type.

(** [values.iter().max_by(cmp)] over [(d[i-1][j], Delete); (d[i][j-1], Insert);
    (d[i-1][j-1] + matching, Match|NoMatch)]: a later element replaces the current
    maximum when it is greater OR EQUAL. *)
Definition pick (vd vi vm : nat) (m : bool) : cell :=
  let c1 := if Nat.leb vd vi then (vi, MIns) else (vd, MDel) in
  let vm' := if m then S vm else vm in
  if Nat.leb (fst c1) vm' then (vm', if m then MMatch else MNoMatch) else c1.

Section Table.
Context {K : Type} (eqb : K -> K -> bool).

(** cells 1.. of row i, given row i-1 ([prev], starting at column j-1) and the cell to the left *)
Fixpoint row_aux (x : K) (left : nat) (prev : list cell) (ys : list K) : list cell :=
  match ys, prev with
  | y :: ys', pd :: ((pu :: _) as prev') =>
      let c := pick (fst pu) left (fst pd) (eqb x y) in
      c :: row_aux x (fst c) prev' ys'
  | _, _ => []
  end.

Definition row0 (ys : list K) : list cell := (0, MNoMatch) :: map (fun _ => (0, MIns)) ys.
Definition next_row (x : K) (prev : list cell) (ys : list K) : list cell :=
  (0, MDel) :: row_aux x 0 prev ys.

Fixpoint build_rows (prev : list cell) (xs ys : list K) : list (list cell) :=
  match xs with
  | [] => []
  | x :: xs' => let r := next_row x prev ys in r :: build_rows r xs' ys
  end.

Definition matrix (xs ys : list K) : list (list cell) := row0 ys :: build_rows (row0 ys) xs ys.

End Table.

(** out-of-table reads give the [MatchOp::None] cell (the code would panic on it) *)
Definition cell_at (M : list (list cell)) (i j : nat) : cell := nth j (nth i M []) (0, MNone).

(** [while i > 0 || j > 0]; [None] = a panic of the code ([MatchOp::None] reached,
    index underflow) or fuel exhausted. Pushing and reversing at the end = consing. *)
Fixpoint backtrace (fuel : nat) (M : list (list cell)) (i j : nat) (acc : list (nat * nat))
  : option (list (nat * nat)) :=
  match i, j with
  | 0, 0 => Some acc
  | _, _ =>
    match fuel with
    | 0 => None
    | S fuel' =>
      match snd (cell_at M i j), i, j with
      | MDel, S i', _ => backtrace fuel' M i' j acc
      | MIns, _, S j' => backtrace fuel' M i j' acc
      | MMatch, S i', S j' => backtrace fuel' M i' j' ((i', j') :: acc)
      | MNoMatch, S i', S j' => backtrace fuel' M i' j' acc
      | _, _, _ => None
      end
    end
  end.

Definition match_keys {K} (eqb : K -> K -> bool) (xs ys : list K) : option (list (nat * nat)) :=
  backtrace (length xs + length ys + 1) (matrix eqb xs ys) (length xs) (length ys) [].

(** the bottom-right value of the table *)
Definition lcs_value {K} (eqb : K -> K -> bool) (xs ys : list K) : nat :=
  fst (cell_at (matrix eqb xs ys) (length xs) (length ys)).

Definition str_eqb : str -> str -> bool := nlist_eqb.

(** [match_words(a, b, false)] *)
Definition match_words (a b : str) : option (list (nat * nat) * nat * nat) :=
  let wa := split_ascii_ws a in
  let wb := split_ascii_ws b in
  match match_keys str_eqb wa wb with
  | Some m => Some (m, length wa, length wb)
  | None => None
  end.

(** * [edited_words]: indices 0..n not among the matched ones (returned sorted; the code
      returns hash sets) *)
Definition mem_nat (i : nat) (l : list nat) : bool := existsb (Nat.eqb i) l.
Definition complement (n : nat) (used : list nat) : list nat :=
  filter (fun i => negb (mem_nat i used)) (seq 0 n).

Definition edited_of (m : list (nat * nat)) (na nb : nat) : list nat * list nat :=
  (complement na (map fst m), complement nb (map snd m)).

Definition edited_words (a b : str) : option (list nat * list nat) :=
  match match_words a b with
  | Some (m, na, nb) => Some (edited_of m na nb)
  | None => None
  end.

(** * Executable statement of the property on an arbitrary candidate output *)
Definition pair_ltb (p q : nat * nat) : bool := Nat.ltb (fst p) (fst q) && Nat.ltb (snd p) (snd q).
Fixpoint inc_pairsb (m : list (nat * nat)) : bool :=
  match m with
  | [] => true
  | p :: m' => match m' with [] => true | q :: _ => pair_ltb p q end && inc_pairsb m'
  end.
Definition relatedb {K} (eqb : K -> K -> bool) (xs ys : list K) (p : nat * nat) : bool :=
  match nth_error xs (fst p), nth_error ys (snd p) with
  | Some x, Some y => eqb x y
  | _, _ => false
  end.
(** a strictly increasing matching of related words whose size is the table's optimum *)
Definition lcs_matchingb {K} (eqb : K -> K -> bool) (xs ys : list K) (m : list (nat * nat)) : bool :=
  inc_pairsb m && forallb (relatedb eqb xs ys) m && Nat.eqb (length m) (lcs_value eqb xs ys).

Fixpoint natlist_eqb (a b : list nat) : bool :=
  match a, b with
  | [], [] => true
  | x :: a', y :: b' => Nat.eqb x y && natlist_eqb a' b'
  | _, _ => false
  end.

(** * val glue
    input  = (a b ic la lb)   a, b: code points; ic: ignore_case; la, lb: the lower-cased
             words of a and b (oracle, used only when ic = 1)
    output = (m na nb mx ea eb)   m = match_words(a,b,ic) pairs, counts, mx = match_words(a,b,false)
             pairs, (ea, eb) = edited_words(a,b) sorted *)
Definition v_str (v : val) : str := v_list v_n v.
Definition v_pair (v : val) : nat * nat := (v_nat (v_nth 0 v), v_nat (v_nth 1 v)).
Definition pairv (p : nat * nat) : val := L [nat_v (fst p); nat_v (snd p)].
Definition v_err : val := L [I (-1)%Z].

Definition keys_ok (v : val) : bool :=
  let wa := split_ascii_ws (v_str (v_nth 0 v)) in
  let wb := split_ascii_ws (v_str (v_nth 1 v)) in
  if v_bool (v_nth 2 v)
  then Nat.eqb (length (v_list v_str (v_nth 3 v))) (length wa)
       && Nat.eqb (length (v_list v_str (v_nth 4 v))) (length wb)
  else true.

Definition run_C18 (v : val) : val :=
  let wa := split_ascii_ws (v_str (v_nth 0 v)) in
  let wb := split_ascii_ws (v_str (v_nth 1 v)) in
  let ic := v_bool (v_nth 2 v) in
  let ka := if ic then v_list v_str (v_nth 3 v) else wa in
  let kb := if ic then v_list v_str (v_nth 4 v) else wb in
  if negb (keys_ok v) then v_err else
  match match_keys str_eqb ka kb, match_keys str_eqb wa wb with
  | Some m, Some mx =>
    let e := edited_of mx (length wa) (length wb) in
    L [list_v pairv m; nat_v (length wa); nat_v (length wb); list_v pairv mx;
       list_v nat_v (fst e); list_v nat_v (snd e)]
  | _, _ => v_err
  end.

Definition shape6 (out : val) : bool :=
  match out with L [L _; I _; I _; L _; L _; L _] => true | _ => false end.

Definition check_C18 (v out : val) : bool :=
  let wa := split_ascii_ws (v_str (v_nth 0 v)) in
  let wb := split_ascii_ws (v_str (v_nth 1 v)) in
  let ic := v_bool (v_nth 2 v) in
  let ka := if ic then v_list v_str (v_nth 3 v) else wa in
  let kb := if ic then v_list v_str (v_nth 4 v) else wb in
  let m := v_list v_pair (v_nth 0 out) in
  let mx := v_list v_pair (v_nth 3 out) in
  shape6 out && keys_ok v
  (* the matching: increasing, related, optimal *)
  && lcs_matchingb str_eqb ka kb m
  (* the counts *)
  && Z.eqb (v_z (v_nth 1 out)) (Z.of_nat (length wa))
  && Z.eqb (v_z (v_nth 2 out)) (Z.of_nat (length wb))
  (* the exact matching edited_words is based on, and the complement *)
  && lcs_matchingb str_eqb wa wb mx
  && natlist_eqb (v_list v_nat (v_nth 4 out)) (complement (length wa) (map fst mx))
  && natlist_eqb (v_list v_nat (v_nth 5 out)) (complement (length wb) (map snd mx)).

(** Loop invariant of the (repaired) heap loop [merge_loop] — shared by C02 and C03.
    Basic facts about [lookup], [pop_max], [upd], [find_prev], [find_next], the
    invariant [Inv] (slots hold tokens, ids are the ids of the slots, the slots
    concatenate to the word, every heap entry is well-formed) and its preservation. *)
From TU Require Import Base BPE_Model.
From Coq Require Import Lia Permutation.
Open Scope N_scope.
Arguments N.add : simpl never.
Arguments N.ltb : simpl never.

(** * small things *)
Lemma nlist_eqb_eq a : forall b, nlist_eqb a b = true <-> a = b.
Proof.
  induction a as [|x a IH]; intros [|y b]; cbn [nlist_eqb]; split; intro H; try reflexivity; try discriminate.
  - apply andb_true_iff in H. destruct H as [H1 H2]. apply N.eqb_eq in H1. apply IH in H2. congruence.
  - injection H as -> ->. rewrite N.eqb_refl. cbn. apply IH. reflexivity.
Qed.

Lemma opt_eqb_eq a b : opt_eqb a b = true <-> a = b.
Proof.
  destruct a, b; cbn [opt_eqb]; split; intro H; try reflexivity; try discriminate.
  - apply N.eqb_eq in H. congruence.
  - injection H as ->. apply N.eqb_refl.
Qed.

(** * lookup *)
Lemma lookup_from_nth tbl : forall k b m, lookup_from tbl k b = Some m ->
  exists i, m = k + N.of_nat i /\ nth_error tbl i = Some b.
Proof.
  induction tbl as [|t r IH]; intros k b m H; cbn [lookup_from] in H; [discriminate|].
  destruct (nlist_eqb t b) eqn:E.
  - injection H as <-. apply nlist_eqb_eq in E. subst t. exists O. split; [lia|reflexivity].
  - apply IH in H. destruct H as [i [Hm Hi]]. exists (S i). split; [lia|exact Hi].
Qed.

Lemma lookup_inj tbl a b m : lookup tbl a = Some m -> lookup tbl b = Some m -> a = b.
Proof.
  unfold lookup. intros Ha Hb.
  apply lookup_from_nth in Ha. apply lookup_from_nth in Hb.
  destruct Ha as [i [Hi Ha]]. destruct Hb as [j [Hj Hb]].
  assert (i = j) by lia. subst j. congruence.
Qed.

Lemma lookup_lt tbl b m : lookup tbl b = Some m -> m < N.of_nat (length tbl).
Proof.
  unfold lookup. intro H. apply lookup_from_nth in H. destruct H as [i [Hm Hi]].
  assert (i < length tbl)%nat by (apply nth_error_Some; congruence). lia.
Qed.

Lemma lookup_nth tbl b m : lookup tbl b = Some m -> nth (N.to_nat m) tbl [] = b.
Proof.
  unfold lookup. intro H. apply lookup_from_nth in H. destruct H as [i [Hm Hi]].
  replace (N.to_nat m) with i by lia. apply nth_error_nth. exact Hi.
Qed.

(** * tokens and their ids *)
Definition Tok (tbl : table) (b : bytes) : Prop :=
  (exists x, b = [x] /\ x < 256) \/ ((2 <= length b)%nat /\ exists m, lookup tbl b = Some m).

Lemma id_of_long tbl b m : (2 <= length b)%nat -> lookup tbl b = Some m -> id_of tbl b = 256 + m.
Proof.
  intros Hl H. unfold id_of. rewrite H.
  destruct b as [|x [|y b']]; cbn [length] in Hl; [lia|lia|reflexivity].
Qed.

Lemma id_of_inj tbl a b : Tok tbl a -> Tok tbl b -> id_of tbl a = id_of tbl b -> a = b.
Proof.
  intros [[x [-> Hx]]|[La [m Ha]]] [[y [-> Hy]]|[Lb [n Hb]]] H.
  - cbn [id_of] in H. congruence.
  - rewrite (id_of_long _ _ _ Lb Hb) in H. cbn [id_of] in H. lia.
  - rewrite (id_of_long _ _ _ La Ha) in H. cbn [id_of] in H. lia.
  - rewrite (id_of_long _ _ _ La Ha), (id_of_long _ _ _ Lb Hb) in H.
    assert (m = n) by lia. subst n. eapply lookup_inj; eassumption.
Qed.

Lemma Tok_nonnil tbl b : Tok tbl b -> b <> [].
Proof. intros [[x [-> _]]|[L _]]; [discriminate|]. destruct b; cbn [length] in L; [lia|discriminate]. Qed.

Definition idopt (tbl : table) (b : bytes) : option N :=
  match b with [] => None | _ => Some (id_of tbl b) end.

Lemma idopt_some tbl b : b <> [] -> idopt tbl b = Some (id_of tbl b).
Proof. destruct b; [congruence|reflexivity]. Qed.

(** * pop_max *)
Definition keyle (a b : entry) : Prop :=
  e_mid a < e_mid b \/ (e_mid a = e_mid b /\ (e_fi a <= e_fi b)%nat).

Lemma keyle_trans a b c : keyle a b -> keyle b c -> keyle a c.
Proof. unfold keyle. lia. Qed.
Lemma keyle_refl a : keyle a a.
Proof. unfold keyle. lia. Qed.

Lemma entry_cmp_Lt a b : entry_cmp a b = Lt -> keyle b a.
Proof.
  unfold entry_cmp, keyle, lex. intro H.
  destruct (N.compare_spec (e_mid b) (e_mid a)) as [E|E|E]; try discriminate; [|lia].
  destruct (Nat.compare_spec (e_fi b) (e_fi a)) as [F|F|F]; try discriminate; lia.
Qed.

Lemma entry_cmp_nLt a b : entry_cmp a b <> Lt -> keyle a b.
Proof.
  unfold entry_cmp, keyle, lex. intro H.
  destruct (N.compare_spec (e_mid b) (e_mid a)) as [E|E|E]; try congruence; [|lia].
  destruct (Nat.compare_spec (e_fi b) (e_fi a)) as [F|F|F]; try congruence; lia.
Qed.

Lemma pop_max_spec h : forall m h', pop_max h = Some (m, h') ->
  Permutation h (m :: h') /\ forall x, In x h' -> keyle m x.
Proof.
  induction h as [|e r IH]; intros m h' H; cbn [pop_max] in H; [discriminate|].
  destruct (pop_max r) as [[m0 r']|] eqn:P.
  - destruct (IH _ _ eq_refl) as [Hp Hk].
    destruct (entry_cmp e m0) eqn:C; injection H as <- <-.
    + split; [reflexivity|]. intros x Hx.
      assert (K : keyle e m0) by (apply entry_cmp_nLt; congruence).
      apply (Permutation_in _ Hp) in Hx. destruct Hx as [<-|Hx]; [exact K|].
      eapply keyle_trans; [exact K|apply Hk; exact Hx].
    + split.
      * rewrite Hp. apply perm_swap.
      * intros x [<-|Hx]; [apply entry_cmp_Lt; exact C|apply Hk; exact Hx].
    + split; [reflexivity|]. intros x Hx.
      assert (K : keyle e m0) by (apply entry_cmp_nLt; congruence).
      apply (Permutation_in _ Hp) in Hx. destruct Hx as [<-|Hx]; [exact K|].
      eapply keyle_trans; [exact K|apply Hk; exact Hx].
  - injection H as <- <-. destruct r as [|e' r].
    + split; [reflexivity|]. intros x [].
    + cbn [pop_max] in P. destruct (pop_max r) as [[m1 r1]|]; [destruct (entry_cmp e' m1)|]; discriminate.
Qed.

Lemma pop_max_none h : pop_max h = None -> h = [].
Proof.
  destruct h as [|e r]; [reflexivity|]. cbn [pop_max].
  destruct (pop_max r) as [[m1 r1]|]; [destruct (entry_cmp e m1)|]; discriminate.
Qed.

Lemma pop_max_length h m h' : pop_max h = Some (m, h') -> length h = S (length h').
Proof. intro H. apply pop_max_spec in H. destruct H as [Hp _]. apply Permutation_length in Hp. exact Hp. Qed.

(** * upd / nth *)
Lemma upd_length {A} (v : A) : forall l k, length (upd k v l) = length l.
Proof. induction l as [|x l IH]; intros [|k]; cbn [upd length]; try reflexivity. rewrite IH. reflexivity. Qed.

Lemma nth_upd_eq {A} (v d : A) : forall l k, (k < length l)%nat -> nth k (upd k v l) d = v.
Proof.
  induction l as [|x l IH]; intros [|k] H; cbn [length] in H; try lia; cbn [upd nth]; [reflexivity|].
  apply IH. lia.
Qed.

Lemma nth_upd_neq {A} (v d : A) : forall l k j, k <> j -> nth j (upd k v l) d = nth j l d.
Proof.
  induction l as [|x l IH]; intros [|k] [|j] H; cbn [upd nth]; try reflexivity; try congruence.
  apply IH. congruence.
Qed.

Lemma upd_map {A B} (f : A -> B) (v : A) : forall l k, upd k (f v) (map f l) = map f (upd k v l).
Proof. induction l as [|x l IH]; intros [|k]; cbn [upd map]; try reflexivity. rewrite IH. reflexivity. Qed.

Lemma upd_at {A} (v x : A) R : forall L k, length L = k -> upd k v (L ++ x :: R) = L ++ v :: R.
Proof.
  induction L as [|y L IH]; intros k H; cbn [length] in H; subst k; cbn [app upd]; [reflexivity|].
  rewrite IH; reflexivity.
Qed.

(** * decomposition around two slots with nothing live in between *)
Definition AllNil (Z : list bytes) : Prop := Forall (fun b => b = []) Z.

Lemma decomp1 : forall (l : list bytes) n, (n < length l)%nat -> (forall k, (k < n)%nat -> nth k l [] = []) ->
  exists Z R, l = Z ++ nth n l [] :: R /\ AllNil Z /\ length Z = n.
Proof.
  induction l as [|b l IH]; intros n Hn Hz; cbn [length] in Hn; [lia|].
  destruct n as [|n].
  - exists [], l. split; [reflexivity|]. split; [constructor|reflexivity].
  - destruct (IH n) as [Z [R [E [HZ HL]]]]; [lia| |].
    + intros k Hk. apply (Hz (S k)). lia.
    + exists (b :: Z), R. cbn [nth app]. split; [f_equal; exact E|]. split.
      * constructor; [apply (Hz O); lia|exact HZ].
      * cbn [length]. lia.
Qed.

Lemma decomp2 : forall (bs : list bytes) fi si, (fi < si)%nat -> (si < length bs)%nat ->
  (forall k, (fi < k < si)%nat -> nth k bs [] = []) ->
  exists L Z R, bs = L ++ nth fi bs [] :: Z ++ nth si bs [] :: R /\ length L = fi /\
                si = (fi + S (length Z))%nat /\ AllNil Z.
Proof.
  induction bs as [|b bs IH]; intros fi si H1 H2 Hz; cbn [length] in H2; [lia|].
  destruct fi as [|fi].
  - destruct si as [|si]; [lia|].
    destruct (decomp1 bs si) as [Z [R [E [HZ HL]]]]; [lia| |].
    + intros k Hk. apply (Hz (S k)). lia.
    + exists [], Z, R. cbn [nth app]. split; [f_equal; exact E|]. split; [reflexivity|]. split; [lia|exact HZ].
  - destruct si as [|si]; [lia|].
    destruct (IH fi si) as [L [Z [R [E [HL [HS HZ]]]]]]; [lia|lia| |].
    + intros k Hk. apply (Hz (S k)). lia.
    + exists (b :: L), Z, R. cbn [nth app]. split; [f_equal; exact E|]. split; [cbn [length]; lia|]. split; [lia|exact HZ].
Qed.

Lemma AllNil_concat Z : AllNil Z -> concat Z = [].
Proof. induction 1 as [|b Z Hb _ IH]; [reflexivity|]. subst b. exact IH. Qed.

(** the state after a merge, in decomposed form *)
Lemma upd2_decomp (L Z R : list bytes) B1 B2 M fi si :
  length L = fi -> si = (fi + S (length Z))%nat ->
  upd si [] (upd fi M (L ++ B1 :: Z ++ B2 :: R)) = L ++ M :: Z ++ [] :: R.
Proof.
  intros HL HS. rewrite (upd_at M B1 _ L fi HL).
  assert (E : L ++ M :: Z ++ B2 :: R = (L ++ M :: Z) ++ B2 :: R) by (rewrite <- app_assoc; reflexivity).
  rewrite E. etransitivity.
  - apply (upd_at [] B2 R (L ++ M :: Z) si). rewrite app_length. cbn [length]. lia.
  - rewrite <- app_assoc. reflexivity.
Qed.

(** * find_prev / find_next *)
Lemma find_prev_some bs : forall i p B, find_prev bs i = Some (p, B) ->
  (p < i)%nat /\ nth p bs [] = B /\ B <> [] /\ forall k, (p < k < i)%nat -> nth k bs [] = [].
Proof.
  induction i as [|i IH]; intros p B H; cbn [find_prev] in H; [discriminate|].
  destruct (nth i bs []) as [|x b] eqn:E.
  - apply IH in H. destruct H as [H1 [H2 [H3 H4]]]. repeat split; try assumption; [lia|].
    intros k Hk. destruct (Nat.eq_dec k i) as [->|]; [exact E|apply H4; lia].
  - injection H as <- <-. repeat split; [lia|exact E|discriminate|]. intros k Hk. lia.
Qed.

Lemma find_prev_none bs : forall i, find_prev bs i = None -> forall k, (k < i)%nat -> nth k bs [] = [].
Proof.
  induction i as [|i IH]; intros H k Hk; [lia|]. cbn [find_prev] in H.
  destruct (nth i bs []) as [|x b] eqn:E; [|discriminate].
  destruct (Nat.eq_dec k i) as [->|]; [exact E|apply IH; [exact H|lia]].
Qed.

Lemma find_from_some : forall r k0 q B, find_from r k0 = Some (q, B) ->
  exists j, q = (k0 + j)%nat /\ (j < length r)%nat /\ nth j r [] = B /\ B <> [] /\
            forall j', (j' < j)%nat -> nth j' r [] = [].
Proof.
  induction r as [|b r IH]; intros k0 q B H; cbn [find_from] in H; [discriminate|].
  destruct b as [|x b].
  - apply IH in H. destruct H as [j [H1 [H2 [H3 [H4 H5]]]]].
    exists (S j). cbn [length nth]. repeat split; try assumption; try lia.
    intros [|j'] Hj; [reflexivity|apply H5; lia].
  - injection H as <- <-. exists O. cbn [length nth]. repeat split; try lia; try discriminate.
Qed.

Lemma find_from_none : forall r k0, find_from r k0 = None -> forall j, nth j r [] = [].
Proof.
  induction r as [|b r IH]; intros k0 H j; [destruct j; reflexivity|]. cbn [find_from] in H.
  destruct b as [|x b]; [|discriminate]. destruct j as [|j]; [reflexivity|]. cbn [nth]. eapply IH. exact H.
Qed.

Lemma nth_skipn {A} (d : A) : forall j l k, nth k (skipn j l) d = nth (j + k) l d.
Proof.
  induction j as [|j IH]; intros l k; [reflexivity|].
  destruct l as [|x l]; [destruct k; reflexivity|]. cbn [skipn Nat.add nth]. apply IH.
Qed.

Lemma find_next_some bs j q B : find_next bs j = Some (q, B) ->
  (j <= q)%nat /\ (q < length bs)%nat /\ nth q bs [] = B /\ B <> [] /\
  forall k, (j <= k < q)%nat -> nth k bs [] = [].
Proof.
  unfold find_next. intro H. apply find_from_some in H.
  destruct H as [i [H1 [H2 [H3 [H4 H5]]]]]. rewrite nth_skipn in H3. rewrite skipn_length in H2.
  subst q. repeat split; try assumption; try lia.
  intros k Hk. replace k with (j + (k - j))%nat by lia. rewrite <- nth_skipn. apply H5. lia.
Qed.

Lemma find_next_none bs j : find_next bs j = None -> forall k, (j <= k)%nat -> nth k bs [] = [].
Proof.
  unfold find_next. intros H k Hk. replace k with (j + (k - j))%nat by lia. rewrite <- nth_skipn.
  eapply find_from_none. exact H.
Qed.

(** * the invariant *)
Definition EntryOK (tbl : table) (bs : list bytes) (e : entry) : Prop :=
  exists B1 B2, Tok tbl B1 /\ Tok tbl B2 /\
    e_fid e = Some (id_of tbl B1) /\ e_sid e = Some (id_of tbl B2) /\
    e_mg e = B1 ++ B2 /\ lookup tbl (e_mg e) = Some (e_mid e) /\
    (e_fi e < e_si e)%nat /\ (e_si e < length bs)%nat /\
    forall k, (e_fi e < k < e_si e)%nat -> nth k bs [] = [].

Record Inv (tbl : table) (w : bytes) (bs : list bytes) (ids : list (option N)) (h : list entry) : Prop := {
  inv_ids : ids = map (idopt tbl) bs;
  inv_tok : forall k, nth k bs [] <> [] -> Tok tbl (nth k bs []);
  inv_cat : concat bs = w;
  inv_heap : Forall (EntryOK tbl bs) h }.

Lemma nth_ids tbl bs k : nth k (map (idopt tbl) bs) None = idopt tbl (nth k bs []).
Proof. change None with (idopt tbl []). apply map_nth. Qed.

(** a fresh well-formed entry describes two live slots with nothing live in between *)
Lemma fresh_slots tbl w bs ids h e :
  Inv tbl w bs ids h -> EntryOK tbl bs e -> fresh ids e = true ->
  Tok tbl (nth (e_fi e) bs []) /\ Tok tbl (nth (e_si e) bs []) /\
  e_mg e = nth (e_fi e) bs [] ++ nth (e_si e) bs [] /\
  e_fid e = Some (id_of tbl (nth (e_fi e) bs [])) /\ e_sid e = Some (id_of tbl (nth (e_si e) bs [])).
Proof.
  intros I [B1 [B2 [T1 [T2 [F1 [F2 [Hm [_ [_ [_ _]]]]]]]]]] Hf.
  unfold fresh in Hf. apply andb_true_iff in Hf. destruct Hf as [G1 G2].
  apply opt_eqb_eq in G1, G2. rewrite (inv_ids _ _ _ _ _ I), nth_ids in G1, G2.
  rewrite F1 in G1. rewrite F2 in G2.
  assert (N1 : nth (e_fi e) bs [] <> []) by (intro Z; rewrite Z in G1; discriminate).
  assert (N2 : nth (e_si e) bs [] <> []) by (intro Z; rewrite Z in G2; discriminate).
  rewrite (idopt_some _ _ N1) in G1. rewrite (idopt_some _ _ N2) in G2.
  injection G1 as G1. injection G2 as G2.
  pose proof (inv_tok _ _ _ _ _ I _ N1) as K1. pose proof (inv_tok _ _ _ _ _ I _ N2) as K2.
  apply (id_of_inj _ _ _ K1 T1) in G1. apply (id_of_inj _ _ _ K2 T2) in G2.
  rewrite G1, G2. repeat split; assumption.
Qed.

Lemma Tok_merged tbl B1 B2 m : Tok tbl B1 -> Tok tbl B2 -> lookup tbl (B1 ++ B2) = Some m -> Tok tbl (B1 ++ B2).
Proof.
  intros T1 T2 H. right. split; [|exists m; exact H].
  apply Tok_nonnil in T1, T2. rewrite app_length.
  destruct B1; [congruence|]. destruct B2; [congruence|]. cbn [length]. lia.
Qed.

Section Step.
  Variables (tbl : table) (w : bytes) (bs : list bytes) (ids : list (option N)) (e : entry).
  Hypothesis Hok : EntryOK tbl bs e.
  Hypothesis Hfresh : fresh ids e = true.

  Local Notation fi := (e_fi e).
  Local Notation si := (e_si e).
  Local Notation M := (e_mg e).
  Definition bs_after := upd (e_si e) [] (upd (e_fi e) (e_mg e) bs).
  Definition ids_after := upd (e_si e) None (upd (e_fi e) (Some (256 + e_mid e)) ids).

  Lemma bs_after_length : length bs_after = length bs.
  Proof. unfold bs_after. rewrite !upd_length. reflexivity. Qed.

  Lemma range : (fi < si)%nat /\ (si < length bs)%nat.
  Proof. destruct Hok as [B1 [B2 H]]. tauto. Qed.

  Lemma bs_after_fi : nth fi bs_after [] = M.
  Proof.
    destruct range as [R1 R2]. unfold bs_after.
    rewrite nth_upd_neq by lia. apply nth_upd_eq. lia.
  Qed.
  Lemma bs_after_si : nth si bs_after [] = [].
  Proof.
    destruct range as [R1 R2]. unfold bs_after.
    apply nth_upd_eq. rewrite upd_length. lia.
  Qed.
  Lemma bs_after_other k : k <> fi -> k <> si -> nth k bs_after [] = nth k bs [].
  Proof. intros H1 H2. unfold bs_after. rewrite !nth_upd_neq by congruence. reflexivity. Qed.

  Lemma step_inv h' news :
    Inv tbl w bs ids (e :: h') ->
    Forall (EntryOK tbl bs_after) news ->
    Inv tbl w bs_after ids_after (news ++ h').
  Proof.
    intros I Hnews.
    destruct (fresh_slots _ _ _ _ _ _ I Hok Hfresh) as [T1 [T2 [Hm [F1 F2]]]].
    destruct Hok as [B1 [B2 [_ [_ [_ [_ [_ [Hl [R1 [R2 Hz]]]]]]]]]].
    assert (TM : Tok tbl M) by (rewrite Hm; apply (Tok_merged _ _ _ (e_mid e)); [assumption|assumption|rewrite <- Hm; exact Hl]).
    constructor.
    - (* ids *)
      unfold ids_after, bs_after. rewrite (inv_ids _ _ _ _ _ I).
      assert (E1 : Some (256 + e_mid e) = idopt tbl M).
      { rewrite (idopt_some _ _ (Tok_nonnil _ _ TM)). f_equal. symmetry. apply id_of_long; [|exact Hl].
        destruct TM as [[x [Ex _]]|[L _]]; [|exact L].
        exfalso. rewrite Hm in Ex. apply Tok_nonnil in T1, T2.
        destruct (nth fi bs []) as [|a [|a' r1]]; [congruence| |]; (destruct (nth si bs []); [congruence|discriminate]). }
      rewrite E1. change (@None N) with (idopt tbl []). rewrite !upd_map. reflexivity.
    - (* tokens *)
      intros k Hk. destruct (Nat.eq_dec k fi) as [->|N1].
      + rewrite bs_after_fi. exact TM.
      + destruct (Nat.eq_dec k si) as [->|N2]; [rewrite bs_after_si in Hk; congruence|].
        rewrite bs_after_other in * by assumption. apply (inv_tok _ _ _ _ _ I). exact Hk.
    - (* concatenation *)
      destruct (decomp2 bs fi si R1 R2 Hz) as [L [Z [R [E [HL [HS HZ]]]]]].
      rewrite <- (inv_cat _ _ _ _ _ I). unfold bs_after.
      remember (nth fi bs []) as X1 eqn:EX1. remember (nth si bs []) as X2 eqn:EX2. clear EX1 EX2.
      rewrite E.
      rewrite (upd2_decomp L Z R _ _ M fi si HL HS).
      rewrite !concat_app. cbn [concat]. rewrite !concat_app. cbn [concat].
      rewrite (AllNil_concat _ HZ). cbn [app]. rewrite Hm. rewrite <- app_assoc. reflexivity.
    - (* heap *)
      apply Forall_app. split; [exact Hnews|].
      pose proof (inv_heap _ _ _ _ _ I) as HH. inversion HH as [|? ? _ HH']. subst.
      eapply Forall_impl; [|exact HH'].
      intros x [C1 [C2 [U1 [U2 [V1 [V2 [V3 [V4 [V5 [V6 V7]]]]]]]]]].
      exists C1, C2. repeat split; try assumption; [rewrite bs_after_length; exact V6|].
      intros k Hk. pose proof (V7 k Hk) as Ek.
      destruct (Nat.eq_dec k fi) as [->|N1].
      { exfalso. apply (Tok_nonnil _ _ T1). exact Ek. }
      destruct (Nat.eq_dec k si) as [->|N2]; [apply bs_after_si|].
      rewrite bs_after_other by assumption. exact Ek.
  Qed.
End Step.

(** Pipeline model, part 3: SpellingCorruption as a modelled stage.  Definitions only.

    [C15_Spell.spell_text] (builder B) is the closure [corrupt_spelling(prob, allow_full_delete, mode)] returns, as a
    function of (text, seed): [text::split_words], grapheme segmentation at every call of the chain, the Unicode class
    tests, every draw of ChaCha8Rng::seed_from_u64(info.seed), [.join(" ")].  Imported here, not copied.

    Modelled as a stage of the pipeline: the mode that needs no files,
      SpellingCorruption(part, prob, allow_full_delete, Artificial(char_edit_prob, temperature, None))
    (mode 3 of C15_Spell: delete and swap edits only; the temperature is unused without a character dictionary).
    The modes with a character dictionary or a misspellings file stay opaque in C08 (their models exist in C15_Spell;
    the loader line would have to carry the files).

    The configuration type of Pipeline_Model has one constructor for the stages it does not interpret, [COpaque id],
    and an interpreter parameter [opq id item info]; the parameters of the stage are packed into the id:
      id = 2 + part + 2 * allow_full_delete + 4 * pw + 32 * pc          (ids 0, 1: JsonDecode, Pipeline_Tasks.opq_std)
    [pw], [pc] < 8 index two fixed menus of binary64 probabilities (the harness uses the same f64 values). *)
From TU Require Import RNG_Model.
From TU Require Import Base C15_Seeded C15_Spell Pipeline_Model Pipeline_Tasks C08_Pipeline C08_Bytes.
Local Open Scope nat_scope.

(** 1.0 0.5 0.25 0.75 0.9 0.3 0.1 0.6 *)
Definition pw_menu : list f64w :=
  [Fin 4503599627370496 (-52); Fin 4503599627370496 (-53); Fin 4503599627370496 (-54); Fin 6755399441055744 (-53);
   Fin 8106479329266893 (-53); Fin 5404319552844595 (-54); Fin 7205759403792794 (-56); Fin 5404319552844595 (-53)].
(** 0.0 1.0 0.5 0.25 0.3 0.1 0.75 0.9 *)
Definition pc_menu : list f64w :=
  [f_zero; Fin 4503599627370496 (-52); Fin 4503599627370496 (-53); Fin 4503599627370496 (-54);
   Fin 5404319552844595 (-54); Fin 7205759403792794 (-56); Fin 6755399441055744 (-53); Fin 8106479329266893 (-53)].

(** [corrupt_spelling(prob, fd, Artificial(pc, _, None))(text, info)]: never an Err; a panic only through an empty
    [random_range] (never: C15's totality theorems) *)
Definition spell_stage (fd : bool) (prob pc : f64w) (seed : N) (s : str) : res str :=
  match spell_text 3 fd prob pc f_zero [] [] seed s with
  | SpText t => ROk t
  | _ => RPanic 10
  end.

Definition opq_full (id : nat) (x : item) (i : info) : res (item * info) :=
  match id with
  | 0 | 1 => opq_std id x i
  | _ =>
      let k := id - 2 in
      if Nat.ltb k 256 then
        apply_part (if Nat.eqb (k mod 2) 0 then PInput else PTarget)
                   (fun s i => spell_stage (Nat.eqb ((k / 2) mod 2) 1) (nth ((k / 4) mod 8) pw_menu f_zero)
                                           (nth ((k / 32) mod 8) pc_menu f_zero) (i_seed i) s) x i
      else RErr 9
  end.

Fixpoint has_unmodelled_full (c : cfg) : bool :=
  match c with
  | COpaque id => Nat.leb 258 id
  | CChain l => existsb has_unmodelled_full l
  | CSwitch l _ => existsb has_unmodelled_full l
  | _ => false
  end.
Definition p_has_unmodelled_full (p : pcfg) : bool :=
  match p with PGlobal c => has_unmodelled_full c | PPerSource l => existsb has_unmodelled_full l end.

(** the extracted model of the C08 check: item line and byte loader line with JsonDecode and the table-free spelling
    corruption interpreted *)
Definition run_C08z (v : val) : val := run_C08y_with opq_full p_has_unmodelled_full v.

(** MessagePack model: the reader inverts the writer ([mp_parse (mp_encode m ++ rest) = Some (m, rest)]
    within the format's size limits), the writer emits bytes. *)
From TU Require Import Base MsgPack_Model.
From Coq Require Import Lia ZifyBool ZifyNat ZifyN.
Open Scope N_scope.
Arguments N.add : simpl never.
Arguments N.sub : simpl never.
Arguments N.mul : simpl never.
Arguments N.div : simpl never.
Arguments N.modulo : simpl never.
Arguments N.eqb : simpl never.
Arguments N.ltb : simpl never.
Arguments N.leb : simpl never.
Arguments N.pow : simpl never.

Definition isbyte (b : N) : Prop := b < 256.

(** ** big endian *)
Lemma be_val_app : forall l1 l2 acc, be_val acc (l1 ++ l2) = be_val (be_val acc l1) l2.
Proof. induction l1 as [|b l1 IH]; intros l2 acc; cbn [app be_val]; [reflexivity|apply IH]. Qed.

Lemma be_bytes_length : forall k v, length (be_bytes k v) = k.
Proof. induction k as [|k IH]; intros v; cbn [be_bytes]; [reflexivity|]. rewrite app_length, IH. cbn. lia. Qed.

Lemma be_bytes_isbyte : forall k v, Forall isbyte (be_bytes k v).
Proof.
  induction k as [|k IH]; intros v; cbn [be_bytes]; [constructor|].
  apply Forall_app. split; [apply IH|]. constructor; [|constructor]. unfold isbyte. apply N.mod_lt. lia.
Qed.

Lemma pow256_succ k : 256 ^ N.of_nat (S k) = 256 * 256 ^ N.of_nat k.
Proof. rewrite Nat2N.inj_succ, N.pow_succ_r'. reflexivity. Qed.

Lemma pow256_pos k : 0 < 256 ^ N.of_nat k.
Proof. apply N.neq_0_lt_0. apply N.pow_nonzero. lia. Qed.

Lemma be_val_bytes : forall k v acc, be_val acc (be_bytes k v) = acc * 256 ^ N.of_nat k + v mod 256 ^ N.of_nat k.
Proof.
  induction k as [|k IH]; intros v acc.
  - cbn [be_bytes be_val]. change (256 ^ N.of_nat 0) with 1. rewrite N.mod_1_r. lia.
  - cbn [be_bytes]. rewrite be_val_app, IH. cbn [be_val]. rewrite pow256_succ.
    assert (Hp := pow256_pos k).
    rewrite (N.mod_mul_r v 256 (256 ^ N.of_nat k)) by lia. lia.
Qed.

Lemma be_val_bytes_small k v : v < 256 ^ N.of_nat k -> be_val 0 (be_bytes k v) = v.
Proof. intros H. rewrite be_val_bytes, N.mod_small by exact H. lia. Qed.

Lemma be_val_acc : forall l acc, be_val acc l = acc * 256 ^ N.of_nat (length l) + be_val 0 l.
Proof.
  induction l as [|b l IH]; intros acc; cbn [be_val length].
  - change (256 ^ N.of_nat 0) with 1. lia.
  - rewrite IH, (IH (0 * 256 + b)), pow256_succ. lia.
Qed.

Lemma be_val_lt : forall l, Forall isbyte l -> be_val 0 l < 256 ^ N.of_nat (length l).
Proof.
  induction l as [|b l IH] using rev_ind; intros H.
  - cbn. lia.
  - apply Forall_app in H. destruct H as [Hl Hb]. inversion Hb as [|? ? Hb1 _]; subst. unfold isbyte in Hb1.
    rewrite be_val_app. cbn [be_val]. rewrite app_length. cbn [length].
    replace (length l + 1)%nat with (S (length l)) by lia. rewrite pow256_succ.
    specialize (IH Hl). lia.
Qed.

Lemma be_bytes_val : forall l, Forall isbyte l -> be_bytes (length l) (be_val 0 l) = l.
Proof.
  induction l as [|b l IH] using rev_ind; intros H; [reflexivity|].
  apply Forall_app in H. destruct H as [Hl Hb]. inversion Hb as [|? ? Hb1 _]; subst. unfold isbyte in Hb1.
  rewrite app_length. cbn [length]. replace (length l + 1)%nat with (S (length l)) by lia.
  cbn [be_bytes]. rewrite be_val_app. cbn [be_val].
  replace ((be_val 0 l * 256 + b) / 256) with (be_val 0 l).
  2:{ symmetry. rewrite N.div_add_l by lia. rewrite N.div_small by exact Hb1. lia. }
  replace ((be_val 0 l * 256 + b) mod 256) with b.
  2:{ symmetry. rewrite N.add_comm, N.mod_add by lia. apply N.mod_small. exact Hb1. }
  rewrite (IH Hl). reflexivity.
Qed.

(** ** reading what was written *)
Lemma take_be_app k v r : v < 256 ^ N.of_nat k -> take_be k (be_bytes k v ++ r) = Some (v, r).
Proof.
  intros H. unfold take_be. rewrite app_length, be_bytes_length.
  destruct (k <=? k + length r)%nat eqn:E; [|lia].
  rewrite firstn_app, be_bytes_length, Nat.sub_diag. cbn [firstn]. rewrite app_nil_r.
  rewrite <- (be_bytes_length k v) at 1. rewrite firstn_all.
  rewrite skipn_app, be_bytes_length, Nat.sub_diag. cbn [skipn].
  rewrite <- (be_bytes_length k v) at 2. rewrite skipn_all. cbn [app].
  rewrite be_val_bytes_small by exact H. reflexivity.
Qed.

Lemma dec_unsigned_app k mx v r : v < 256 ^ N.of_nat k -> v <= mx ->
  dec_unsigned k mx (be_bytes k v ++ r) = Some (v, r).
Proof. intros H1 H2. unfold dec_unsigned. rewrite take_be_app by exact H1. destruct (v <=? mx) eqn:E; [reflexivity|lia]. Qed.

(** the reader on each concrete marker *)
Lemma dec_uint_204 mx r : dec_uint mx (204 :: r) = dec_unsigned 1 mx r. Proof. reflexivity. Qed.
Lemma dec_uint_205 mx r : dec_uint mx (205 :: r) = dec_unsigned 2 mx r. Proof. reflexivity. Qed.
Lemma dec_uint_206 mx r : dec_uint mx (206 :: r) = dec_unsigned 4 mx r. Proof. reflexivity. Qed.
Lemma dec_uint_207 mx r : dec_uint mx (207 :: r) = dec_unsigned 8 mx r. Proof. reflexivity. Qed.
Lemma dec_uint_fix mx v r : v < 128 -> dec_uint mx (v :: r) = Some (v, r).
Proof. intros H. cbn [dec_uint]. destruct (v <? 128) eqn:E; [reflexivity|lia]. Qed.

Lemma dec_enc_uint mx v r : v <= mx -> v < 2 ^ 64 -> dec_uint mx (enc_uint v ++ r) = Some (v, r).
Proof.
  intros Hmx H64. unfold enc_uint.
  destruct (v <? 128) eqn:E1.
  { cbn [app]. apply dec_uint_fix. lia. }
  destruct (v <? 256) eqn:E2.
  { cbn [app]. rewrite dec_uint_204. replace [v] with (be_bytes 1 v) at 1.
    2:{ cbn [be_bytes app]. rewrite N.mod_small by lia. reflexivity. }
    change (v :: r) with ([v] ++ r). replace [v] with (be_bytes 1 v).
    2:{ cbn [be_bytes app]. rewrite N.mod_small by lia. reflexivity. }
    apply (dec_unsigned_app 1); [change (256 ^ N.of_nat 1) with 256; lia|exact Hmx]. }
  destruct (v <? 65536) eqn:E3.
  { cbn [app]. rewrite dec_uint_205. apply (dec_unsigned_app 2); [change (256 ^ N.of_nat 2) with 65536; lia|exact Hmx]. }
  destruct (v <? 4294967296) eqn:E4.
  { cbn [app]. rewrite dec_uint_206. apply (dec_unsigned_app 4); [change (256 ^ N.of_nat 4) with 4294967296; lia|exact Hmx]. }
  cbn [app]. rewrite dec_uint_207. apply (dec_unsigned_app 8); [change (256 ^ N.of_nat 8) with (2 ^ 64); lia|exact Hmx].
Qed.

Lemma enc_uint_isbyte v : v < 2 ^ 64 -> Forall isbyte (enc_uint v).
Proof.
  intros H. unfold enc_uint.
  destruct (v <? 128) eqn:E1; [constructor; [unfold isbyte; lia|constructor]|].
  destruct (v <? 256) eqn:E2; [repeat constructor; unfold isbyte; lia|].
  destruct (v <? 65536) eqn:E3; [constructor; [unfold isbyte; lia|apply be_bytes_isbyte]|].
  destruct (v <? 4294967296) eqn:E4; (constructor; [unfold isbyte; lia|apply be_bytes_isbyte]).
Qed.

Lemma enc_uint_nonempty v : enc_uint v <> [].
Proof.
  unfold enc_uint. destruct (v <? 128); [discriminate|]. destruct (v <? 256); [discriminate|].
  destruct (v <? 65536); [discriminate|]. destruct (v <? 4294967296); discriminate.
Qed.

(** ** keys *)
Lemma dec_elems_enc : forall k fuel r, Forall isbyte k -> (length k <= fuel)%nat ->
  dec_elems fuel (N.of_nat (length k)) (flat_map enc_uint k ++ r) = Some (k, r).
Proof.
  induction k as [|b k IH]; intros fuel r Hb Hf.
  - destruct fuel; reflexivity.
  - inversion Hb as [|? ? Hb1 Hb2]; subst. unfold isbyte in Hb1.
    destruct fuel as [|f]; [cbn in Hf; lia|].
    cbn [dec_elems length]. destruct (N.of_nat (S (length k)) =? 0) eqn:E0; [lia|].
    cbn [flat_map]. rewrite <- app_assoc. rewrite dec_enc_uint by lia.
    replace (N.of_nat (S (length k)) - 1) with (N.of_nat (length k)) by lia.
    rewrite IH; [reflexivity|exact Hb2|cbn in Hf; lia].
Qed.

Lemma flat_map_enc_uint_length k : (length k <= length (flat_map enc_uint k))%nat.
Proof.
  induction k as [|b k IH]; cbn [flat_map length]; [lia|]. rewrite app_length.
  assert (H := enc_uint_nonempty b). destruct (enc_uint b); [congruence|]. cbn [length]. lia.
Qed.

Lemma dec_key_fixarr bin n r : n < 16 -> dec_key bin ((144 + n) :: r) = dec_elems (length r) n r.
Proof.
  intros H. cbn [dec_key]. destruct ((144 <=? 144 + n) && (144 + n <? 160)) eqn:E; [|lia].
  replace (144 + n - 144) with n by lia. reflexivity.
Qed.
Lemma dec_key_220 bin r : dec_key bin (220 :: r) =
  match take_be 2 r with Some (n, r') => dec_elems (length r') n r' | None => None end.
Proof. reflexivity. Qed.
Lemma dec_key_221 bin r : dec_key bin (221 :: r) =
  match take_be 4 r with Some (n, r') => dec_elems (length r') n r' | None => None end.
Proof. reflexivity. Qed.

Lemma dec_key_enc bin k r : N.of_nat (length k) <= u32_max -> Forall isbyte k ->
  dec_key bin (enc_key k ++ r) = Some (k, r).
Proof.
  unfold u32_max. intros Hl Hb. unfold enc_key, enc_array_len. set (n := N.of_nat (length k)) in *.
  assert (Hfuel : forall r, (length k <= length (flat_map enc_uint k ++ r))%nat).
  { intros r0. rewrite app_length. pose proof (flat_map_enc_uint_length k). lia. }
  destruct (n <? 16) eqn:E1.
  { cbn [app]. rewrite dec_key_fixarr by lia. apply dec_elems_enc; [exact Hb|apply Hfuel]. }
  destruct (n <? 65536) eqn:E2.
  { cbn [app]. rewrite dec_key_220. rewrite <- app_assoc.
    rewrite take_be_app by (change (256 ^ N.of_nat 2) with 65536; lia).
    apply dec_elems_enc; [exact Hb|apply Hfuel]. }
  cbn [app]. rewrite dec_key_221. rewrite <- app_assoc.
  rewrite take_be_app by (change (256 ^ N.of_nat 4) with 4294967296; lia).
  apply dec_elems_enc; [exact Hb|apply Hfuel].
Qed.

Lemma enc_array_len_isbyte n : n <= u32_max -> Forall isbyte (enc_array_len n).
Proof.
  unfold u32_max, enc_array_len. intros H.
  destruct (n <? 16) eqn:E1; [repeat constructor; unfold isbyte; lia|].
  destruct (n <? 65536) eqn:E2; (constructor; [unfold isbyte; lia|apply be_bytes_isbyte]).
Qed.
Lemma enc_map_len_isbyte n : n <= u32_max -> Forall isbyte (enc_map_len n).
Proof.
  unfold u32_max, enc_map_len. intros H.
  destruct (n <? 16) eqn:E1; [repeat constructor; unfold isbyte; lia|].
  destruct (n <? 65536) eqn:E2; (constructor; [unfold isbyte; lia|apply be_bytes_isbyte]).
Qed.

Lemma flat_map_isbyte {A} (f : A -> list N) l : (forall x, In x l -> Forall isbyte (f x)) -> Forall isbyte (flat_map f l).
Proof.
  induction l as [|x l IH]; intros H; cbn [flat_map]; [constructor|].
  apply Forall_app. split; [apply H; left; reflexivity|apply IH; intros y Hy; apply H; right; exact Hy].
Qed.

Lemma enc_key_isbyte k : N.of_nat (length k) <= u32_max -> Forall isbyte k -> Forall isbyte (enc_key k).
Proof.
  intros Hl Hb. unfold enc_key. apply Forall_app. split; [apply enc_array_len_isbyte; exact Hl|].
  apply flat_map_isbyte. intros b Hin. apply enc_uint_isbyte.
  pose proof (proj1 (Forall_forall _ _) Hb b Hin) as H. unfold isbyte in H. lia.
Qed.

(** ** entries and the map *)
Lemma entry_ok_isbyte e : entry_ok e -> Forall isbyte (enc_entry e).
Proof.
  intros (Hl & Hb & Hv). unfold enc_entry. apply Forall_app. split; [apply enc_key_isbyte; assumption|].
  apply enc_uint_isbyte. unfold u32_max in Hv. lia.
Qed.

Lemma enc_entry_nonempty e : enc_entry e <> [].
Proof.
  unfold enc_entry. intros H. apply app_eq_nil in H. destruct H as [_ H]. exact (enc_uint_nonempty _ H).
Qed.

Lemma dec_entries_enc bin : forall m fuel r, Forall entry_ok m -> (length m <= fuel)%nat ->
  dec_entries bin fuel (N.of_nat (length m)) (flat_map enc_entry m ++ r) = Some (m, r).
Proof.
  induction m as [|[k v] m IH]; intros fuel r Hok Hf.
  - destruct fuel; reflexivity.
  - inversion Hok as [|? ? H1 H2]; subst. destruct H1 as (Hl & Hb & Hv). cbn [fst snd] in *.
    destruct fuel as [|f]; [cbn in Hf; lia|].
    cbn [dec_entries length]. destruct (N.of_nat (S (length m)) =? 0) eqn:E0; [lia|].
    cbn [flat_map]. unfold enc_entry at 1. cbn [fst snd]. rewrite <- !app_assoc.
    rewrite dec_key_enc by assumption.
    rewrite dec_enc_uint by (unfold u32_max in *; lia).
    replace (N.of_nat (S (length m)) - 1) with (N.of_nat (length m)) by lia.
    rewrite IH; [reflexivity|exact H2|cbn in Hf; lia].
Qed.

Lemma flat_map_enc_entry_length m : (length m <= length (flat_map enc_entry m))%nat.
Proof.
  induction m as [|e m IH]; cbn [flat_map length]; [lia|]. rewrite app_length.
  assert (H := enc_entry_nonempty e). destruct (enc_entry e); [congruence|]. cbn [length]. lia.
Qed.

Lemma mp_parse_fixmap bin n r : n < 16 -> mp_parse_with bin ((128 + n) :: r) = dec_entries bin (length r) n r.
Proof.
  intros H. cbn [mp_parse_with]. destruct ((128 <=? 128 + n) && (128 + n <? 144)) eqn:E; [|lia].
  replace (128 + n - 128) with n by lia. reflexivity.
Qed.
Lemma mp_parse_222 bin r : mp_parse_with bin (222 :: r) =
  match take_be 2 r with Some (n, r') => dec_entries bin (length r') n r' | None => None end.
Proof. reflexivity. Qed.
Lemma mp_parse_223 bin r : mp_parse_with bin (223 :: r) =
  match take_be 4 r with Some (n, r') => dec_entries bin (length r') n r' | None => None end.
Proof. reflexivity. Qed.

(** THE ROUND TRIP: whatever follows the map is left unread *)
Theorem mp_parse_encode_l bin m rest : table_in_limits m ->
  mp_parse_with bin (mp_encode m ++ rest) = Some (m, rest).
Proof.
  intros [Hn Hok]. unfold u32_max in Hn. unfold mp_encode, enc_map_len. set (n := N.of_nat (length m)) in *.
  assert (Hfuel : forall r, (length m <= length (flat_map enc_entry m ++ r))%nat).
  { intros r0. rewrite app_length. pose proof (flat_map_enc_entry_length m). lia. }
  destruct (n <? 16) eqn:E1.
  { cbn [app]. rewrite mp_parse_fixmap by lia. apply dec_entries_enc; [exact Hok|apply Hfuel]. }
  destruct (n <? 65536) eqn:E2.
  { cbn [app]. rewrite mp_parse_222. rewrite <- !app_assoc.
    rewrite take_be_app by (change (256 ^ N.of_nat 2) with 65536; lia).
    apply dec_entries_enc; [exact Hok|apply Hfuel]. }
  cbn [app]. rewrite mp_parse_223. rewrite <- !app_assoc.
  rewrite take_be_app by (change (256 ^ N.of_nat 4) with 4294967296; lia).
  apply dec_entries_enc; [exact Hok|apply Hfuel].
Qed.

Theorem mp_decode_encode_l m : table_in_limits m -> mp_decode (mp_encode m) = Some m.
Proof.
  intros H. unfold mp_decode, mp_parse. rewrite <- (app_nil_r (mp_encode m)).
  rewrite mp_parse_encode_l by exact H. reflexivity.
Qed.

Theorem mp_decode_trailing_l m junk : table_in_limits m -> mp_decode (mp_encode m ++ junk) = Some m.
Proof. intros H. unfold mp_decode, mp_parse. rewrite mp_parse_encode_l by exact H. reflexivity. Qed.

Theorem mp_encode_isbyte_l m : table_in_limits m -> Forall isbyte (mp_encode m).
Proof.
  intros [Hn Hok]. unfold mp_encode. apply Forall_app. split; [apply enc_map_len_isbyte; exact Hn|].
  apply flat_map_isbyte. intros e He. apply entry_ok_isbyte. exact (proj1 (Forall_forall _ _) Hok e He).
Qed.

(** the writer is injective: different tables, or the same table in another order, give different files *)
Theorem mp_encode_inj_l m m' : table_in_limits m -> table_in_limits m' -> mp_encode m = mp_encode m' -> m = m'.
Proof.
  intros H H' E. apply mp_decode_encode_l in H, H'. rewrite E in H. congruence.
Qed.

(** C05 — pinned statements about the Pipe LTS (all inputs, all thread counts W >= 1,
    all schedules = all label sequences). Nothing but statements and audits. *)
From Coq Require Import Permutation.
From TU Require Import Base Pipe_Model Pipe_Proofs Pipe_Proofs2 C05_Model C05_Proofs.


(** Every reachable state satisfies the order / no-loss / no-duplication invariant:
    tickets held by the workers are exactly turn..next-1, only the holder of the turn
    can be sending, and what the consumer got plus what sits in the channel is the
    image of a prefix of the input, in order. *)
Theorem pipe_inv : forall (A B : Type) (f : A -> B) (d : A) (l : list A) (W : nat) (tr : list label) (s : state A B),
  run A B f d (init A B l W) tr = Some s -> Inv A B f s.
Proof. exact inv_reach. Qed.
Print Assumptions pipe_inv.

(** What the consumer has received is always f(x0), f(x1), ... in input order (a prefix), drop or not. *)
Theorem pipe_prefix : forall (A B : Type) (f : A -> B) (d : A) (l : list A) (W : nat) (tr : list label) (s : state A B),
  run A B f d (init A B l W) tr = Some s -> out s = map f (firstn (length (out s)) l).
Proof. exact pipe_prefix_l. Qed.
Print Assumptions pipe_prefix.

(** Every execution is finite: at most 6|xs| + W + 1 steps under any schedule. *)
Theorem pipe_finite : forall (A B : Type) (f : A -> B) (d : A) (l : list A) (W : nat) (tr : list label) (s : state A B),
  run A B f d (init A B l W) tr = Some s -> length tr <= 6 * length l + W + 1.
Proof. exact pipe_finite_l. Qed.
Print Assumptions pipe_finite.

(** No deadlock: a reachable state that is not final has an enabled step other than Drop. *)
Theorem pipe_no_deadlock : forall (A B : Type) (f : A -> B) (d : A) (l : list A) (W : nat) (tr : list label) (s : state A B),
  run A B f d (init A B l W) tr = Some s -> final A B s = false ->
  exists lab s', lab <> Drop /\ step A B f d s lab = Some s'.
Proof. exact pipe_no_deadlock_l. Qed.
Print Assumptions pipe_no_deadlock.

(** Terminal states: when the consumer never dropped and no step other than Drop is enabled,
    the consumer has received exactly map f xs, every worker has returned (so the next
    receive reports end of stream), and each input index was computed exactly once. *)
Theorem pipe_terminal : forall (A B : Type) (f : A -> B) (d : A) (l : list A) (W : nat) (tr : list label) (s : state A B),
  0 < W -> run A B f d (init A B l W) tr = Some s -> dropped s = false ->
  (forall lab, lab <> Drop -> step A B f d s lab = None) ->
  out s = map f l /\ final A B s = true /\ Permutation (log s) (seq 0 (length l)).
Proof. exact pipe_terminal_l. Qed.
Print Assumptions pipe_terminal.

(** Each index is computed at most once in every reachable state (no duplicated work). *)
Theorem pipe_once : forall (A B : Type) (f : A -> B) (d : A) (l : list A) (W : nat) (tr : list label) (s : state A B),
  run A B f d (init A B l W) tr = Some s -> NoDup (log s) /\ forall i, In i (log s) -> i < next s.
Proof. exact pipe_once_l. Qed.
Print Assumptions pipe_once.

(** The scheduler-driven runner used by the correspondence check only visits reachable states. *)
Theorem sched_reachable : forall (A B : Type) (f : A -> B) (d : A) fuel k ch dk (s : state A B) evs s',
  run_sched A B f d fuel k ch dk s = (evs, s') -> exists tr, run A B f d s tr = Some s'.
Proof. exact run_sched_reach. Qed.
Print Assumptions sched_reachable.

(** W = 0 (unthreaded) is [map] in the code; for the threaded case every maximal
    execution yields [map f xs]: combination of the three theorems above. *)
Theorem pipe_maximal_run : forall (l : list Z) (W : nat) (tr : list label) (s : state Z Z),
  0 < W -> run Z Z fZ 0%Z (init Z Z l W) tr = Some s -> dropped s = false ->
  (forall lab, lab <> Drop -> step Z Z fZ 0%Z s lab = None) -> out s = map fZ l.
Proof. exact pipe_maximal_run_l. Qed.
Print Assumptions pipe_maximal_run.

(** An accepting verdict of the executable statement evaluated on an implementation output means:
    the consumer received exactly f(x0), f(x1), ... in order, then saw the end of the stream, and the
    processing function ran exactly once per input. *)
Theorem check_sound : forall v o, check_C05 v o = true ->
  v_list v_z (v_nth 1 o) = map fZ (v_list v_z (v_nth 1 v))
  /\ v_bool (v_nth 2 o) = true
  /\ v_list v_z (v_nth 3 o) = repeat 1%Z (length (v_list v_z (v_nth 1 v))).
Proof. exact check_C05_sound_l. Qed.
Print Assumptions check_sound.

(** Non-vacuity: a concrete complete schedule of 2 workers over 2 items reaches a terminal state. *)
Example terminal_witness :
  exists s, run Z Z fZ 0%Z (init Z Z [5; 7]%Z 2)
     [Pull 0; Pull 1; Compute 1; Compute 0; TurnOk 0; SendOk 0; Advance 0; TurnOk 1; Recv;
      SendOk 1; Advance 1; Pull 0; Pull 1; Recv] = Some s
   /\ final Z Z s = true /\ out s = [16; 22]%Z.
Proof. eexists. split; [vm_compute; reflexivity|]. split; reflexivity. Qed.

(** RNG — pinned statements. Nothing but statements, [exact], assumption audits and
    known-answer examples (every value below was produced by the REAL crates:
    rand_chacha 0.9.0 / rand_core 0.9.5 / rand 0.9.5, [ChaCha8Rng::seed_from_u64]).
    [wf st]: every buffered word of the generator state is below 2^32; it holds of
    [seed_from_u64 seed] and is preserved by every sampler. *)
From TU Require Import Base RNG_Model RNG_Proofs RNG_Check.
Require Import Permutation.
Local Open Scope N_scope.

(** ** words *)
Theorem w32_is_mod : forall x, w32 x = x mod 2 ^ 32.
Proof. exact w32_mod. Qed.
Print Assumptions w32_is_mod.

Theorem w64_is_mod : forall x, w64 x = x mod 2 ^ 64.
Proof. exact w64_mod. Qed.
Print Assumptions w64_is_mod.

Theorem add32_is_mod : forall a b, add32 a b = (a + b) mod 2 ^ 32.
Proof. exact add32_spec. Qed.
Print Assumptions add32_is_mod.

(** the quarter round keeps 32-bit words 32-bit words *)
Theorem quarter_round_range : forall a b c d a' b' c' d',
  b < 2 ^ 32 -> d < 2 ^ 32 -> quarter_round a b c d = (a', b', c', d') ->
  a' < 2 ^ 32 /\ b' < 2 ^ 32 /\ c' < 2 ^ 32 /\ d' < 2 ^ 32.
Proof. exact quarter_round_range_l. Qed.
Print Assumptions quarter_round_range.

Theorem chacha_block_words : forall k c,
  length (chacha_block k c) = 16%nat /\ Forall (fun w => w < 2 ^ 32) (chacha_block k c).
Proof. exact chacha_block_spec. Qed.
Print Assumptions chacha_block_words.

Theorem refill_words_words : forall k c,
  length (refill_words k c) = 64%nat /\ Forall (fun w => w < 2 ^ 32) (refill_words k c).
Proof. exact refill_words_spec. Qed.
Print Assumptions refill_words_words.

(** ** the generator *)
Theorem seed_wf : forall seed, wf (seed_from_u64 seed).
Proof. exact wf_seed. Qed.
Print Assumptions seed_wf.

Theorem next_u32_range : forall st x st', wf st -> next_u32 st = (x, st') -> x < 2 ^ 32 /\ wf st'.
Proof. exact next_u32_spec. Qed.
Print Assumptions next_u32_range.

Theorem next_u64_range : forall st x st', wf st -> next_u64 st = (x, st') -> x < 2 ^ 64 /\ wf st'.
Proof. exact next_u64_spec. Qed.
Print Assumptions next_u64_range.

(** the three cases of BlockRng::next_u64 (two words buffered / buffer used up / the value
    straddles the refill) all are: two consecutive stream words, low half first *)
Theorem next_u64_two_words : forall st,
  next_u64 st = (let (lo, st1) := next_u32 st in let (hi, st2) := next_u32 st1 in
                 (N.lor (N.shiftl hi 32) lo, st2)).
Proof. exact next_u64_as_u32s. Qed.
Print Assumptions next_u64_two_words.

Theorem set_word_pos_wf : forall b off st, wf (set_word_pos b off st).
Proof. exact wf_set_word_pos. Qed.
Print Assumptions set_word_pos_wf.

(** random::<f64>() = k / 2^53 with k < 2^53 *)
Theorem random_f64_range : forall st k st', wf st -> random_f64 st = (k, st') -> k < 2 ^ 53 /\ wf st'.
Proof. exact random_f64_spec. Qed.
Print Assumptions random_f64_range.

(** ** random_range(0..n): every draw is in range — this is the premise
    [pick t m < m] of C06's and [o t m < m] of C07's [oracle_guard] *)
Theorem random_range_lt : forall n st i st', wf st -> random_range n st = Some (i, st') -> i < n /\ wf st'.
Proof. exact random_range_spec. Qed.
Print Assumptions random_range_lt.

(** it panics exactly on the empty range (and on bounds that are not a usize) *)
Theorem random_range_defined : forall n st, random_range n st <> None <-> 0 < n < 2 ^ 64.
Proof. exact random_range_some. Qed.
Print Assumptions random_range_defined.

(** Uniform::<usize>::new(0, total).sample: in range whenever the rejection loop ends within its fuel *)
Theorem uniform_usize_lt : forall fuel total st x st', wf st -> 0 < total -> total < 2 ^ 64 ->
  uniform_usize fuel total st = Some (x, st') -> x < total /\ wf st'.
Proof. exact uniform_usize_spec. Qed.
Print Assumptions uniform_usize_lt.

(** ** shuffle *)
(** [calculate_bound_u32]: the loop ends within its fuel; the result is a product of
    consecutive numbers below 2^32 *)
Theorem calc_bound_product : forall m, 0 < m -> m < 2 ^ 32 ->
  exists r, calc_bound m = (prodfrom m (S r), N.of_nat (S r)) /\ prodfrom m (S r) < 2 ^ 32.
Proof. exact calc_bound_spec. Qed.
Print Assumptions calc_bound_product.

(** [IncreasingUniform::next_index]: the index is at most n, the invariant is kept *)
Theorem next_index_le : forall c st j c' st', wf st -> incu_ok c -> iu_n c + 1 < 2 ^ 32 ->
  next_index c st = (j, c', st') ->
  j <= iu_n c /\ iu_n c' = iu_n c + 1 /\ incu_ok c' /\ wf st'.
Proof. exact next_index_spec. Qed.
Print Assumptions next_index_le.

(** the result of a shuffle is a permutation of the slice — the premise [lehmer_okb] of C06's
    [oracle_guard], for every state of the generator *)
Theorem shuffle_perm : forall (A : Type) (l : list A) st, Permutation (fst (shuffle l st)) l.
Proof. intros A. exact shuffle_perm_l. Qed.
Print Assumptions shuffle_perm.

(** and no swap of it is out of bounds: for position i the drawn index is at most i < len *)
Theorem shuffle_in_bounds : forall len st, wf st -> N.of_nat len < 2 ^ 64 ->
  swaps_in_bounds len 0 (fst (shuffle_indices len st)).
Proof. exact shuffle_in_bounds_l. Qed.
Print Assumptions shuffle_in_bounds.

Theorem shuffle_keeps_wf : forall (A : Type) (l : list A) st, wf st -> N.of_nat (length l) < 2 ^ 64 ->
  wf (snd (shuffle l st)).
Proof. exact shuffle_wf. Qed.
Print Assumptions shuffle_keeps_wf.

(** ** WeightedIndex *)
(** usize weights (the loader): the sampled index names a weight, and that weight is positive *)
Theorem weighted_sample_in_range : forall fuel ws st i st', wf st -> Forall (fun w => w < 2 ^ 64) ws ->
  weighted_sample_n fuel ws st = inr (Some (i, st')) ->
  (i < length ws)%nat /\ 0 < nth i ws 0 /\ wf st'.
Proof. exact weighted_sample_n_spec. Qed.
Print Assumptions weighted_sample_in_range.

(** [WeightedIndex::new] succeeds when there is a weight and the sum is positive and fits a usize *)
Theorem windex_new_ok : forall ws, ws <> [] -> sumN ws < 2 ^ 64 -> 0 < sumN ws ->
  exists cum, windex_new_n ws = inr (cum, sumN ws).
Proof. exact windex_new_n_ok. Qed.
Print Assumptions windex_new_ok.

(** f64 weights (corrupt.rs): the sampled index names a weight *)
Theorem weighted_sample_f_in_range : forall ws st i total st', wf st ->
  weighted_sample_f ws st = inr (i, total, st') -> (i < length ws)%nat /\ wf st'.
Proof. exact weighted_sample_f_spec. Qed.
Print Assumptions weighted_sample_f_in_range.

(** ** the executable statements the correspondence evaluates on the implementation's results hold of the
    model's own results: scripts whose usize weights / lengths are usizes, whose f64 weights are all positive
    and that contain no Uniform<f64> call ([call_ok]; the two excluded cases are the unproved float facts),
    and in which no rejection loop ran out of fuel *)
Theorem check_calls_run : forall cs st outs st', wf st -> Forall call_ok cs -> run_calls cs st = (outs, st') ->
  ~ In v_fuel outs -> check_calls cs outs = true /\ wf st'.
Proof. exact check_calls_run_l. Qed.
Print Assumptions check_calls_run.

(** the permutation test of [check_calls] accepts every permutation of 0..m-1 *)
Theorem is_perm_seq_complete : forall m l, Permutation l (seq 0 m) -> is_perm_seq m l = true.
Proof. exact is_perm_seq_perm. Qed.
Print Assumptions is_perm_seq_complete.

(** ** Known answers, from the real crates *)
Fixpoint take_u32 (n : nat) (st : rng) : list N :=
  match n with O => [] | S k => let (x, st) := next_u32 st in x :: take_u32 k st end.
Fixpoint skip_u32 (n : nat) (st : rng) : rng :=
  match n with O => st | S k => skip_u32 k (snd (next_u32 st)) end.

(** the key = [get_seed()] read as little-endian words *)
Example key_seed_0 : seed_key 0 =
  K8 4185125612 1171109249 1934028935 2909580550 3819163856 1743198003 1927977970 4269640407.
Proof. vm_compute. reflexivity. Qed.

Example stream_seed_0 : take_u32 8 (seed_from_u64 0) =
  [2811902828; 3045455719; 3134767159; 2001118559; 2179114726; 3002797362; 2409334908; 258433188].
Proof. vm_compute. reflexivity. Qed.
Example stream_seed_1 : take_u32 8 (seed_from_u64 1) =
  [2359561649; 1728662762; 4228812395; 345245400; 906430053; 2562206467; 1661472066; 941991900].
Proof. vm_compute. reflexivity. Qed.
Example stream_seed_22 : take_u32 8 (seed_from_u64 22) =
  [3326164106; 3100946906; 2335452348; 699642184; 1961073232; 3050154920; 3238604637; 89577763].
Proof. vm_compute. reflexivity. Qed.
Example stream_seed_2_63 : take_u32 8 (seed_from_u64 (2 ^ 63)) =
  [2396702205; 315251739; 4188613557; 3106259693; 1131051327; 2642557695; 2685241898; 2259260420].
Proof. vm_compute. reflexivity. Qed.
Example stream_seed_max : take_u32 8 (seed_from_u64 (2 ^ 64 - 1)) =
  [3819388078; 2938119046; 2545823192; 1839259395; 106437596; 1635475236; 2575672727; 1859133944].
Proof. vm_compute. reflexivity. Qed.

(** 63 words consumed, then a u64 (straddles the refill), then the next word *)
Example straddle_seed_0 :
  (let (x, st) := next_u64 (skip_u32 63 (seed_from_u64 0)) in (x, fst (next_u32 st)))
  = (15248265377044583692, 1723585294).
Proof. vm_compute. reflexivity. Qed.
Example straddle_seed_22 :
  (let (x, st) := next_u64 (skip_u32 63 (seed_from_u64 22)) in (x, fst (next_u32 st)))
  = (8975583517025519283, 1753389794).
Proof. vm_compute. reflexivity. Qed.

(** (0..10).collect::<Vec<_>>().shuffle(rng); one u32 is consumed *)
Example shuffle10_seed_0 :
  (let (l, st) := shuffle (seq 0 10) (seed_from_u64 0) in (l, fst (next_u32 st)))
  = ([2; 8; 6; 1; 9; 5; 7; 4; 0; 3]%nat, 3045455719).
Proof. vm_compute. reflexivity. Qed.
Example shuffle10_seed_1 : fst (shuffle (seq 0 10) (seed_from_u64 1)) = [3; 8; 5; 2; 7; 9; 6; 0; 4; 1]%nat.
Proof. vm_compute. reflexivity. Qed.
Example shuffle10_seed_22 : fst (shuffle (seq 0 10) (seed_from_u64 22)) = [6; 0; 9; 1; 5; 2; 3; 4; 7; 8]%nat.
Proof. vm_compute. reflexivity. Qed.
Example shuffle10_seed_2_63 : fst (shuffle (seq 0 10) (seed_from_u64 (2 ^ 63))) = [4; 3; 7; 1; 0; 8; 9; 5; 6; 2]%nat.
Proof. vm_compute. reflexivity. Qed.

(** random_range(0..n) for n = 1, 2, 3, 10, 1000, 2^32-1, 2^32, 2^32+1, 2^64-1 in a row *)
Fixpoint ranges (ns : list N) (st : rng) : list (option N) :=
  match ns with
  | [] => []
  | n :: r => match random_range n st with Some (x, st) => Some x :: ranges r st | None => [None] end
  end.
Definition kat_bounds : list N := [1; 2; 3; 10; 1000; 4294967295; 4294967296; 4294967297; 18446744073709551615].
Example ranges_seed_0 : ranges kat_bounds (seed_from_u64 0) =
  map Some [0; 1; 2; 4; 507; 3002797361; 839009913; 2491330750; 7651213605704963275].
Proof. vm_compute. reflexivity. Qed.
Example ranges_seed_1 : ranges kat_bounds (seed_from_u64 1) =
  map Some [0; 0; 2; 0; 211; 2562206466; 3575368677; 3923910745; 9151184802281065782].
Proof. vm_compute. reflexivity. Qed.
Example ranges_seed_2_63 : ranges kat_bounds (seed_from_u64 (2 ^ 63)) =
  map Some [0; 0; 2; 7; 263; 2642557695; 732898129; 18106432; 9853213290358996543].
Proof. vm_compute. reflexivity. Qed.
Example range_empty : random_range 0 (seed_from_u64 0) = None.
Proof. reflexivity. Qed.

(** random::<f64>() * 2^53 *)
Example f64_seed_0 :
  (let (a, st) := random_f64 (seed_from_u64 0) in let (b, st) := random_f64 st in let (c, _) := random_f64 st in [a; b; c])
  = [6386783553385287; 4196649789774616; 6297322494377044].
Proof. vm_compute. reflexivity. Qed.

(** WeightedIndex::new([3usize, 0, 5, 2]) sampled 12 times, then WeightedIndex::new([0.5, 0.0, 0.25, 3.0]) 12 times *)
Fixpoint wn (k : nat) (ws : list N) (st : rng) : list nat * rng :=
  match k with
  | O => ([], st)
  | S k' => match weighted_sample_n lemire_fuel ws st with
            | inr (Some (i, st)) => let (l, st) := wn k' ws st in (i :: l, st)
            | _ => ([], st)
            end
  end.
Fixpoint wfl (k : nat) (ws : list f64w) (st : rng) : list nat :=
  match k with
  | O => []
  | S k' => match weighted_sample_f ws st with inr (i, _, st) => i :: wfl k' ws st | _ => [] end
  end.
Example weighted_seed_0 :
  (let (a, st) := wn 12 [3; 0; 5; 2] (seed_from_u64 0) in
   (a, wfl 12 [Fin 1 (-1); Fin 0 0; Fin 1 (-2); Fin 3 0] st))
  = ([2; 2; 2; 2; 2; 2; 2; 0; 0; 3; 2; 2]%nat, [3; 3; 3; 2; 3; 3; 3; 3; 3; 3; 2; 3]%nat).
Proof. vm_compute. reflexivity. Qed.
Example weighted_seed_22 :
  (let (a, st) := wn 12 [3; 0; 5; 2] (seed_from_u64 22) in
   (a, wfl 12 [Fin 1 (-1); Fin 0 0; Fin 1 (-2); Fin 3 0] st))
  = ([2; 2; 2; 0; 2; 2; 2; 0; 0; 0; 0; 3]%nat, [3; 2; 3; 3; 0; 2; 2; 2; 3; 3; 3; 3]%nat).
Proof. vm_compute. reflexivity. Qed.

(** binary64 rounding of the model: 0.1 + 0.2 = 0.30000000000000004, 1/3-ish products, ties to even, overflow *)
Example fadd_01_02 : fadd (Fin 7205759403792794 (-56)) (Fin 7205759403792794 (-55)) = Fin 5404319552844596 (-54).
Proof. vm_compute. reflexivity. Qed.
Example fround_tie_even : (fround (2 ^ 53 + 1) 0, fround (2 ^ 53 + 3) 0) = (Fin (2 ^ 52) 1, Fin (2 ^ 52 + 2) 1).
Proof. vm_compute. reflexivity. Qed.
Example fround_overflow : fadd (Fin (2 ^ 53 - 1) 971) (Fin (2 ^ 53 - 1) 971) = FInf.
Proof. vm_compute. reflexivity. Qed.
Example fround_subnormal : fmul (Fin 3 (-1074)) (Fin 1 (-1)) = Fin 2 (-1074).
Proof. vm_compute. reflexivity. Qed.

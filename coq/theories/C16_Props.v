(** C16 — pinned statements. Nothing but statements, [exact], and assumption audits. *)
From TU Require Import Base C16_Model C16_Proofs.

(** decode (encode l) = l *)
Theorem rle_roundtrip : forall l : list N, unrle (rle l) = l.
Proof. exact rle_roundtrip_l. Qed.
Print Assumptions rle_roundtrip.

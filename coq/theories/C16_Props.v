(** C16 — pinned statements. Nothing but statements, [exact], and assumption audits.

    Vocabulary (C16_Model.v / C16_Proofs.v):
    [lens] = byte lengths of the characters (clusters) of the text; [Pos lens]: all positive;
    [cs_new lens] = the CharString (run-length encoded lengths, len, str.len());
    [pre lens n] = sum of the first [n] lengths; [windows kind max ctx lens] = the model of
    windows::windows / char / byte with [kclass kind] = 0 characters, 1 bytes, 2 full;
    results: [Ok ws], [Err 1 []] (max <= 2*ctx), [Err 2 [pos; bytes; window_length]] (character wider
    than the window), [Panic _] (the code would panic), [Fuel] (the loop would not stop);
    [Tile fs fe s e ws]: the ranges [fs w, fe w) are non-empty, consecutive, start at [s], end at [e]. *)
From TU Require Import Base C16_Model C16_Proofs C16_Top.
From TU Require Import UAX29_Model C16_UAX29.
Open Scope N_scope.

(** run_length_decode (run_length_encode l) = l *)
Theorem rle_roundtrip : forall l : list N, unrle (rle l) = l.
Proof. exact rle_roundtrip_l. Qed.
Print Assumptions rle_roundtrip.

(** [pre] is the prefix sum; the byte length used by the model is the UTF-8 length of Base.v *)
Theorem pre_is_prefix_sum : forall l n, pre l n = sumN (firstn (N.to_nat n) l).
Proof. exact pre_firstn. Qed.
Print Assumptions pre_is_prefix_sum.

Theorem utf8_len_is_utf8 : forall c, utf8_len c = lenN (utf8 c).
Proof. exact utf8_len_utf8. Qed.
Print Assumptions utf8_len_is_utf8.

(** byte_start_end walks the run-length encoding to: start = sum of the byte lengths of the first n
    characters, end = start + length of character n; beyond the end it is the "should not happen" panic *)
Theorem byte_start_end_spec : forall lens n,
  (n < lenN lens -> bse (cs_new lens) n = Ok (pre lens n, pre lens n + nth (N.to_nat n) lens 0))
  /\ (lenN lens <= n -> bse (cs_new lens) n = Panic 1).
Proof. exact byte_start_end_spec_l. Qed.
Print Assumptions byte_start_end_spec.

Theorem char_byte_len_spec : forall lens n, n < lenN lens ->
  cbl (cs_new lens) n = Ok (nth (N.to_nat n) lens 0).
Proof. exact char_byte_len_spec_l. Qed.
Print Assumptions char_byte_len_spec.

(** char_range_to_byte_range and sub as byte ranges *)
Theorem char_range_spec : forall lens a b, a < b -> b <= lenN lens ->
  cr2br (cs_new lens) a b = Ok (pre lens a, pre lens b).
Proof. exact cr2br_new. Qed.
Print Assumptions char_range_spec.

Theorem sub_spec : forall lens a b, a <= b ->
  sub (cs_new lens) a b =
  if N.min a (lenN lens) =? N.min b (lenN lens) then Ok (0, 0)
  else Ok (pre lens (N.min a (lenN lens)),
           pre lens (N.min b (lenN lens)) - pre lens (N.min a (lenN lens))).
Proof. exact sub_new. Qed.
Print Assumptions sub_spec.

(** The windows partition the text: in characters and in bytes the first starts at 0, each starts
    where the previous ended, none is empty, the last ends at the length; the byte ranges
    concatenate to the text (any byte string of the right length). *)
Theorem windows_tile : forall kind max ctx lens wins, Pos lens -> lens <> [] ->
  windows kind max ctx lens = Ok wins ->
  Tile w_ws w_we 0 (lenN lens) wins
  /\ Tile w_bws w_bwe 0 (sumN lens) wins
  /\ (forall text : list byte, lenN text = sumN lens ->
        concat (map (fun w => bslice text (w_bws w) (w_bwe w)) wins) = text).
Proof. exact windows_tile_l. Qed.
Print Assumptions windows_tile.

(** what [Tile] says, spelled out *)
Theorem tile_explicit : forall (fs fe : window -> N) d wins s e, Tile fs fe s e wins -> s <> e ->
  wins <> [] /\ fs (hd d wins) = s /\ fe (last wins d) = e
  /\ (forall i, (S i < length wins)%nat -> fe (nth i wins d) = fs (nth (S i) wins d))
  /\ Forall (fun w => fs w < fe w) wins.
Proof. exact Tile_explicit. Qed.
Print Assumptions tile_explicit.

(** each context contains its window and lies inside the text *)
Theorem ctx_contains : forall kind max ctx lens wins, Pos lens -> lens <> [] ->
  windows kind max ctx lens = Ok wins ->
  Forall (fun w => w_cs w <= w_ws w /\ w_we w <= w_ce w /\ w_ce w <= lenN lens
                /\ w_bcs w <= w_bws w /\ w_bwe w <= w_bce w /\ w_bce w <= sumN lens) wins.
Proof. exact ctx_contains_l. Qed.
Print Assumptions ctx_contains.

(** no context exceeds the maximum: in characters for character windows, in bytes for byte windows *)
Theorem ctx_bound : forall kind max ctx lens wins, Pos lens -> lens <> [] ->
  windows kind max ctx lens = Ok wins ->
  (kclass kind = 0 -> Forall (fun w => w_ce w - w_cs w <= max) wins)
  /\ (kclass kind = 1 -> Forall (fun w => w_bce w - w_bcs w <= max) wins).
Proof. exact ctx_bound_l. Qed.
Print Assumptions ctx_bound.

(** the reported string is exactly the byte range of the context *)
Theorem ctx_str : forall kind max ctx lens wins, Pos lens -> lens <> [] ->
  windows kind max ctx lens = Ok wins ->
  Forall (fun w => w_soff w = w_bcs w /\ w_soff w + w_slen w = w_bce w) wins.
Proof. exact ctx_str_l. Qed.
Print Assumptions ctx_str.

(** byte and character boundaries denote the same positions *)
Theorem byte_char_agree : forall kind max ctx lens wins, Pos lens -> lens <> [] ->
  windows kind max ctx lens = Ok wins ->
  Forall (fun w => w_bcs w = pre lens (w_cs w) /\ w_bws w = pre lens (w_ws w)
                /\ w_bwe w = pre lens (w_we w) /\ w_bce w = pre lens (w_ce w)) wins.
Proof. exact byte_char_agree_l. Qed.
Print Assumptions byte_char_agree.

(** an impossible configuration is the configuration error (also for the direct calls on any text) *)
Theorem bad_config_err : forall kind max ctx lens, Pos lens -> lens <> [] ->
  kclass kind <> 2 -> max <= 2 * ctx -> windows kind max ctx lens = Err 1 [].
Proof. exact bad_config_err_l. Qed.
Print Assumptions bad_config_err.

Theorem bad_config_err_direct : forall lens max ctx, max <= 2 * ctx ->
  char_windows lens max ctx = Err 1 [] /\ byte_windows lens max ctx = Err 1 [].
Proof. exact bad_config_err_direct_l. Qed.
Print Assumptions bad_config_err_direct.

(** byte windows: a character wider than max - ctx fits in no window: the error *)
Theorem wide_char_err : forall kind max ctx lens b, Pos lens -> lens <> [] -> kclass kind = 1 ->
  2 * ctx < max -> In b lens -> max - ctx < b ->
  exists info, windows kind max ctx lens = Err 2 info.
Proof. exact windows_wide. Qed.
Print Assumptions wide_char_err.

(** ... and the error is produced only for a character wider than its window, with the numbers the
    message reports *)
Theorem wide_err_sound : forall kind max ctx lens c info, Pos lens -> lens <> [] ->
  windows kind max ctx lens = Err c info -> c <> 1 ->
  kclass kind = 1 /\ 2 * ctx < max /\ c = 2 /\
  exists p, p < lenN lens
    /\ info = [p; nth (N.to_nat p) lens 0; max - (1 + b2n (0 <? p)) * ctx]
    /\ max - (1 + b2n (0 <? p)) * ctx < nth (N.to_nat p) lens 0.
Proof. exact wide_err_sound_l. Qed.
Print Assumptions wide_err_sound.

(** a valid configuration in which every character fits in every window succeeds *)
Theorem windows_fit_ok : forall kind max ctx lens, Pos lens -> lens <> [] ->
  (kclass kind <> 2 -> 2 * ctx < max) ->
  (kclass kind = 1 -> Forall (fun b => b <= max - 2 * ctx) lens) ->
  exists wins, windows kind max ctx lens = Ok wins.
Proof. exact windows_fit_ok_l. Qed.
Print Assumptions windows_fit_ok.

(** totality: for every text, configuration and kind the result is a window list or an error value:
    the fuel (= number of characters) is never exhausted and no panic site is reached *)
Theorem windows_total : forall kind max ctx lens, Pos lens ->
  (exists wins, windows kind max ctx lens = Ok wins)
  \/ (exists c info, windows kind max ctx lens = Err c info).
Proof. exact windows_total_l. Qed.
Print Assumptions windows_total.

(** the executable statement used on the implementation's outputs means the clauses above ... *)
Theorem wins_okb_sound : forall lens kc max wins, wins_okb lens kc max wins = true ->
  Tile w_ws w_we 0 (lenN lens) wins /\ Tile w_bws w_bwe 0 (sumN lens) wins
  /\ Forall (win_ok lens kc max) wins.
Proof. exact wins_okb_sound_l. Qed.
Print Assumptions wins_okb_sound.

(** ... and holds of the model's own output for every well-formed input (no empty cluster) *)
Theorem check_run : forall v, wf_C16 v = true -> check_C16 v (run_C16 v) = true.
Proof. exact check_run_l. Qed.
Print Assumptions check_run.

(** Non-vacuity: concrete inputs meeting the hypotheses. "aä中😀abä" (1,2,3,4,1,1,2 bytes), byte windows
    max 7 ctx 1: three windows; max 5: the 4-byte character does not fit behind the first window. *)
Example pos_witness : Pos [1;2;3;4;1;1;2] /\ [1;2;3;4;1;1;2] <> [].
Proof. split; [repeat constructor | discriminate]. Qed.
Example ok_witness : exists wins, windows 1 7 1 [1;2;3;4;1;1;2] = Ok wins /\ length wins = 3%nat.
Proof. eexists. split; [vm_compute; reflexivity | reflexivity]. Qed.
Example char_witness : exists wins, windows 0 5 1 [1;2;3;4;1;1;2] = Ok wins /\ length wins = 2%nat.
Proof. eexists. split; [vm_compute; reflexivity | reflexivity]. Qed.
Example wide_witness : windows 1 5 1 [1;2;3;4;1;1;2] = Err 2 [3; 4; 3].
Proof. vm_compute. reflexivity. Qed.
Example config_witness : windows 1 6 3 [1;2;3;4;1;1;2] = Err 1 [].
Proof. vm_compute. reflexivity. Qed.
Example wf_witness : wf_C16 (L [I 1; I 7; I 1; L [L [I 97]; L [I 228]; L [I 101; I 769]]; I 1; L []])%Z = true.
Proof. vm_compute. reflexivity. Qed.

(** ** Grapheme mode with the segmenter inside the model (UAX29_Model.segment, tied to the crate
    unicode-segmentation by the correspondence [uax29_agree]).  [lens_u s] = UTF-8 byte lengths of
    the clusters of [segment s]; [utf8s s] = the UTF-8 bytes of [s] (Base.v).  No premise on the
    segmentation is left: the text is any list of code points. *)

(** the (num_bytes, count) runs computed from [segment s] account for exactly the UTF-8 bytes of [s];
    [str.len()] / [len()] are the UTF-8 length / the number of clusters; character [n] occupies the
    bytes between the UTF-8 lengths of the first [n] and the first [n+1] clusters *)
Theorem offsets_u : forall s,
  sumN (map (fun p => fst p * snd p) (c_rle (cs_new (lens_u s)))) = lenN (utf8s s)
  /\ unrle (c_rle (cs_new (lens_u s))) = map (fun c => lenN (utf8s c)) (segment s)
  /\ c_blen (cs_new (lens_u s)) = lenN (utf8s s)
  /\ c_len (cs_new (lens_u s)) = lenN (segment s)
  /\ (forall n, n < lenN (segment s) ->
        bse (cs_new (lens_u s)) n =
        Ok (lenN (utf8s (concat (firstn (N.to_nat n) (segment s)))),
            lenN (utf8s (concat (firstn (N.to_nat (n + 1)) (segment s)))))).
Proof. exact offsets_u_l. Qed.
Print Assumptions offsets_u.

(** the windows tile the clusters of [segment s] and the UTF-8 bytes of [s]; the byte slices of the
    UTF-8 text concatenate to it, the cluster slices concatenate to the text *)
Theorem windows_tile_u : forall kind max ctx s wins, s <> [] ->
  windows kind max ctx (lens_u s) = Ok wins ->
  Tile w_ws w_we 0 (lenN (segment s)) wins
  /\ Tile w_bws w_bwe 0 (lenN (utf8s s)) wins
  /\ concat (map (fun w => bslice (utf8s s) (w_bws w) (w_bwe w)) wins) = utf8s s
  /\ concat (map (fun w => concat (bslice (segment s) (w_ws w) (w_we w))) wins) = s.
Proof. exact (windows_tile_g true). Qed.
Print Assumptions windows_tile_u.

(** the same in both modes: [seg_of g s] = [segment s] or one cluster per code point *)
Theorem windows_tile_g : forall g kind max ctx s wins, s <> [] ->
  windows kind max ctx (lens_g g s) = Ok wins ->
  Tile w_ws w_we 0 (lenN (seg_of g s)) wins
  /\ Tile w_bws w_bwe 0 (lenN (utf8s s)) wins
  /\ concat (map (fun w => bslice (utf8s s) (w_bws w) (w_bwe w)) wins) = utf8s s
  /\ concat (map (fun w => concat (bslice (seg_of g s) (w_ws w) (w_we w))) wins) = s.
Proof. exact C16_UAX29.windows_tile_g. Qed.
Print Assumptions windows_tile_g.

Theorem ctx_contains_u : forall kind max ctx s wins, s <> [] ->
  windows kind max ctx (lens_u s) = Ok wins ->
  Forall (fun w => w_cs w <= w_ws w /\ w_we w <= w_ce w /\ w_ce w <= lenN (segment s)
                /\ w_bcs w <= w_bws w /\ w_bwe w <= w_bce w /\ w_bce w <= lenN (utf8s s)) wins.
Proof. exact (ctx_contains_g true). Qed.
Print Assumptions ctx_contains_u.

Theorem ctx_bound_u : forall kind max ctx s wins, s <> [] ->
  windows kind max ctx (lens_u s) = Ok wins ->
  (kclass kind = 0 -> Forall (fun w => w_ce w - w_cs w <= max) wins)
  /\ (kclass kind = 1 -> Forall (fun w => w_bce w - w_bcs w <= max) wins).
Proof. exact (ctx_bound_g true). Qed.
Print Assumptions ctx_bound_u.

(** byte boundary = UTF-8 length of the clusters before the character boundary
    ([blen_to seg n] = [lenN (utf8s (concat (firstn n seg)))]); the string is the context range *)
Theorem byte_char_agree_u : forall kind max ctx s wins, s <> [] ->
  windows kind max ctx (lens_u s) = Ok wins ->
  Forall (fun w => w_bcs w = blen_to (segment s) (w_cs w) /\ w_bws w = blen_to (segment s) (w_ws w)
                /\ w_bwe w = blen_to (segment s) (w_we w) /\ w_bce w = blen_to (segment s) (w_ce w)
                /\ w_soff w = w_bcs w /\ w_soff w + w_slen w = w_bce w) wins.
Proof. exact (byte_char_agree_g true). Qed.
Print Assumptions byte_char_agree_u.

Theorem windows_total_u : forall kind max ctx s,
  (exists wins, windows kind max ctx (lens_u s) = Ok wins)
  \/ (exists c info, windows kind max ctx (lens_u s) = Err c info).
Proof. exact (windows_total_g true). Qed.
Print Assumptions windows_total_u.

Theorem bad_config_err_u : forall kind max ctx s, s <> [] ->
  kclass kind <> 2 -> max <= 2 * ctx -> windows kind max ctx (lens_u s) = Err 1 [].
Proof. exact (bad_config_err_g true). Qed.
Print Assumptions bad_config_err_u.

Theorem windows_fit_ok_u : forall kind max ctx s, s <> [] ->
  (kclass kind <> 2 -> 2 * ctx < max) ->
  (kclass kind = 1 -> Forall (fun c => lenN (utf8s c) <= max - 2 * ctx) (segment s)) ->
  exists wins, windows kind max ctx (lens_u s) = Ok wins.
Proof. exact (windows_fit_ok_g true). Qed.
Print Assumptions windows_fit_ok_u.

(** the harness input built entirely by the model (either mode) passes the executable statement and
    the segmenter correspondence; and an input accepted by [uax29_agree] carries the model's own
    segmentation of the text it spells *)
Theorem check_run_u : forall kind max ctx g s probes,
  check_C16 (input_of kind max ctx g s probes) (run_C16 (input_of kind max ctx g s probes)) = true
  /\ uax29_agree (input_of kind max ctx g s probes) = true.
Proof. exact check_run_u_l. Qed.
Print Assumptions check_run_u.

Theorem uax29_agree_sound : forall v, uax29_agree v = true ->
  v_clusters (v_nth 3 v) = seg_of (v_bool (v_nth 4 v)) (concat (v_clusters (v_nth 3 v))).
Proof. exact uax29_agree_sound_l. Qed.
Print Assumptions uax29_agree_sound.

(** "e + U+0301, woman ZWJ laptop, CR LF, a": 4 clusters of 3, 11, 2, 1 bytes; byte windows max 12 ctx 0 *)
Example lens_u_witness : lens_u [101; 769; 128105; 8205; 128187; 13; 10; 97] = [3; 11; 2; 1].
Proof. vm_compute. reflexivity. Qed.
Example windows_u_witness : exists wins,
  windows 1 12 0 (lens_u [101; 769; 128105; 8205; 128187; 13; 10; 97]) = Ok wins /\ length wins = 3%nat.
Proof. eexists. split; [vm_compute; reflexivity | reflexivity]. Qed.

(** ** [usize] inside the model (C16_Machine.v): a second, literal model of the same code in which every
    [+], [-], [*] on a [usize] is an explicit 64-bit operation, in the two cargo profiles: [Checked]
    (overflow-checks on: a result that does not fit is the panic [Fault site]) and [Wrapping] (off: the
    value modulo 2^64).  [mwindows p fixed isb kind max ctx lens]: [fixed = true] is the code after the
    D10 repair ([saturating_mul]), [false] the pinned code ([2 * context]); [isb] = the string's
    [is_char_boundary] (slices off a boundary panic).  [W] = 2^64, [ISIZE_MAX] = 2^63 - 1 = the largest
    byte length a Rust string can have.  [ctx] is not bounded in the statements: they hold for every [N],
    in particular for every [usize]. *)
From TU Require Import C16_Machine C16_MachineProofs C16_MachineTop.

Example W_value : W = 2 ^ 64 /\ ISIZE_MAX = 2 ^ 63 - 1.
Proof. vm_compute. split; reflexivity. Qed.

(** what the three operations are, on [usize] operands *)
Theorem machine_ops_spec : forall s a b, a < W -> b < W ->
  madd Checked s a b = (if a + b <? W then Ok (a + b) else Fault s)
  /\ madd Wrapping s a b = Ok ((a + b) mod W)
  /\ msub Checked s a b = (if b <=? a then Ok (a - b) else Fault s)
  /\ msub Wrapping s a b = Ok ((a + W - b) mod W)
  /\ mmul Checked s a b = (if a * b <? W then Ok (a * b) else Fault s)
  /\ mmul Wrapping s a b = Ok ((a * b) mod W).
Proof. exact machine_ops_spec_l. Qed.
Print Assumptions machine_ops_spec.

(** [bnd] (is_char_boundary): exactly the byte lengths of the prefixes of the code points; every
    cluster boundary is one *)
Theorem char_boundary_spec : forall cpl b, bnd cpl b = true <-> exists k, b = sumN (firstn k cpl).
Proof. exact bnd_spec. Qed.
Print Assumptions char_boundary_spec.

Theorem cluster_boundary_is_char_boundary : forall cl k, isb_of cl (pre (lens_of cl) k) = true.
Proof. exact isb_of_pre. Qed.
Print Assumptions cluster_boundary_is_char_boundary.

(** THE MACHINE MODEL IS THE UNBOUNDED MODEL: for every text of at most isize::MAX bytes (positive
    cluster byte lengths), every [max] below 2^64, every [ctx], every kind and both profiles.  Hence
    every theorem above about [windows] is a theorem about [mwindows]. *)
Theorem machine_eq_model : forall p lens isb kind max ctx,
  Pos lens -> sumN lens <= ISIZE_MAX -> (forall k, isb (pre lens k) = true) -> max < W ->
  mwindows p true isb kind max ctx lens = windows kind max ctx lens.
Proof. exact machine_eq_model_l. Qed.
Print Assumptions machine_eq_model.

(** no arithmetic fault, no panic, no exhausted fuel: a window list or one of the two errors *)
Theorem machine_no_fault : forall p lens isb kind max ctx,
  Pos lens -> sumN lens <= ISIZE_MAX -> (forall k, isb (pre lens k) = true) -> max < W ->
  (exists wins, mwindows p true isb kind max ctx lens = Ok wins)
  \/ (exists c info, mwindows p true isb kind max ctx lens = Err c info).
Proof. exact machine_no_fault_l. Qed.
Print Assumptions machine_no_fault.

(** debug and release builds compute the same *)
Theorem machine_profiles_agree : forall lens isb kind max ctx,
  Pos lens -> sumN lens <= ISIZE_MAX -> (forall k, isb (pre lens k) = true) -> max < W ->
  mwindows Checked true isb kind max ctx lens = mwindows Wrapping true isb kind max ctx lens.
Proof. exact machine_profiles_agree_l. Qed.
Print Assumptions machine_profiles_agree.

(** the CharString arithmetic for EVERY index argument (also out of range: the same panic), and
    possible_character_substrings for every [max_chars] *)
Theorem machine_offsets_eq : forall p lens isb,
  Pos lens -> sumN lens <= ISIZE_MAX -> (forall k, isb (pre lens k) = true) ->
  mcs_new p lens = Ok (cs_new lens)
  /\ (forall n, mbse p (cs_new lens) n = bse (cs_new lens) n)
  /\ (forall n, mcbl p (cs_new lens) n = cbl (cs_new lens) n)
  /\ (forall a b, mcr2br p (cs_new lens) a b = cr2br (cs_new lens) a b)
  /\ (forall n, mget p isb (cs_new lens) n = cs_get (cs_new lens) n)
  /\ (forall a b, msubstr p isb (cs_new lens) a b = sub (cs_new lens) a b)
  /\ (forall maxc, mpcs p lens maxc = pcs lens maxc).
Proof. exact machine_offsets_eq_l. Qed.
Print Assumptions machine_offsets_eq.

(** with the segmenter inside the model: [mwindows_u p g kind max ctx s] = the machine model on the
    clusters of [seg_of g s] with the character boundaries of [s]; the only premises left are the
    byte length of the text and [max < 2^64] *)
Theorem machine_eq_model_u : forall p g kind max ctx s, lenN (utf8s s) <= ISIZE_MAX -> max < W ->
  mwindows_u p g kind max ctx s = windows kind max ctx (lens_g g s).
Proof. exact machine_eq_model_g. Qed.
Print Assumptions machine_eq_model_u.

Theorem machine_total_u : forall p g kind max ctx s, lenN (utf8s s) <= ISIZE_MAX -> max < W ->
  (exists wins, mwindows_u p g kind max ctx s = Ok wins)
  \/ (exists c info, mwindows_u p g kind max ctx s = Err c info).
Proof. exact machine_total_g. Qed.
Print Assumptions machine_total_u.

(** the transferred clauses, spelled out for the machine-level function *)
Theorem machine_tile_u : forall p g kind max ctx s wins, lenN (utf8s s) <= ISIZE_MAX -> max < W ->
  s <> [] -> mwindows_u p g kind max ctx s = Ok wins ->
  Tile w_ws w_we 0 (lenN (seg_of g s)) wins
  /\ Tile w_bws w_bwe 0 (lenN (utf8s s)) wins
  /\ concat (map (fun w => bslice (utf8s s) (w_bws w) (w_bwe w)) wins) = utf8s s
  /\ concat (map (fun w => concat (bslice (seg_of g s) (w_ws w) (w_we w))) wins) = s.
Proof. exact (fun p g kind max ctx s wins HB Hm => machine_tile_g p g kind max ctx s HB Hm wins). Qed.
Print Assumptions machine_tile_u.

Theorem machine_ctx_u : forall p g kind max ctx s wins, lenN (utf8s s) <= ISIZE_MAX -> max < W ->
  s <> [] -> mwindows_u p g kind max ctx s = Ok wins ->
  Forall (fun w => w_cs w <= w_ws w /\ w_we w <= w_ce w /\ w_ce w <= lenN (seg_of g s)
                /\ w_bcs w <= w_bws w /\ w_bwe w <= w_bce w /\ w_bce w <= lenN (utf8s s)) wins
  /\ (kclass kind = 0 -> Forall (fun w => w_ce w - w_cs w <= max) wins)
  /\ (kclass kind = 1 -> Forall (fun w => w_bce w - w_bcs w <= max) wins).
Proof. exact (fun p g kind max ctx s wins HB Hm => machine_ctx_g p g kind max ctx s HB Hm wins). Qed.
Print Assumptions machine_ctx_u.

(** "an impossible configuration yields an error, never a panic", at machine level: for EVERY usize pair *)
Theorem machine_bad_config_u : forall p g kind max ctx s, lenN (utf8s s) <= ISIZE_MAX -> max < W ->
  s <> [] -> kclass kind <> 2 -> max <= 2 * ctx -> mwindows_u p g kind max ctx s = Err 1 [].
Proof. exact machine_bad_config_g. Qed.
Print Assumptions machine_bad_config_u.

(** the val-level runs used by the correspondence: on every well-formed input within the bounds the
    machine run is the model run in both profiles, passes the executable statement, and the clause
    [machine_agree] of [agree] holds of the model's output *)
Theorem machine_run_eq : forall p v, wf_C16 v = true -> bytes_of v <= ISIZE_MAX -> v_big (v_nth 1 v) < W ->
  run_M16 p v = run_C16 v /\ check_C16 v (run_M16 p v) = true /\ machine_agree v (run_C16 v) = true.
Proof.
  exact (fun p v H1 H2 H3 => conj (run_M16_ok p v H1 H2 H3)
           (conj (machine_check_run_l p v H1 H2 H3) (machine_agree_run_l v H1 H2 H3))).
Qed.
Print Assumptions machine_run_eq.

Theorem machine_run_u : forall p kind max ctx g s probes, lenN (utf8s s) <= ISIZE_MAX -> max < W ->
  run_M16 p (input_of kind max ctx g s probes) = run_C16 (input_of kind max ctx g s probes)
  /\ machine_agree (input_of kind max ctx g s probes) (run_C16 (input_of kind max ctx g s probes)) = true.
Proof. exact machine_run_u_l. Qed.
Print Assumptions machine_run_u.

(** THE CODE BEFORE THE D10 REPAIR ([max <= 2 * context]).  With overflow checks every call with
    [context >= 2^63] faults at the configuration check, whatever the text and [max] ... *)
Theorem pinned_config_faults : forall isb lens max ctx, W <= 2 * ctx ->
  mchar_windows Checked false isb lens max ctx = Fault 18
  /\ mbyte_windows Checked false isb lens max ctx = Fault 26.
Proof. exact pinned_config_faults_l. Qed.
Print Assumptions pinned_config_faults.

(** ... so "never a fault" is false of it: "abcdefgh", max 5, context 2^63 (the model: the error) *)
Theorem pinned_no_fault_refuted :
  exists kind max ctx cl,
    max < W /\ ctx < W /\ sumN (lens_of cl) <= ISIZE_MAX /\ Pos (lens_of cl)
    /\ is_fault (mwindows Checked false (isb_of cl) kind max ctx (lens_of cl)) = true
    /\ windows kind max ctx (lens_of cl) = Err 1 [].
Proof. exact pinned_no_fault_refuted_l. Qed.
Print Assumptions pinned_no_fault_refuted.

(** without overflow checks the product wraps to 0, the impossible configuration is accepted, and the
    result violates the property: a window whose context ends before the window ends (characters) ... *)
Theorem pinned_wrapping_refuted :
  exists kind max ctx cl wins w,
    max < W /\ ctx < W /\ sumN (lens_of cl) <= ISIZE_MAX /\ Pos (lens_of cl)
    /\ windows kind max ctx (lens_of cl) = Err 1 []
    /\ mwindows Wrapping false (isb_of cl) kind max ctx (lens_of cl) = Ok wins /\ In w wins
    /\ w_ce w < w_we w.
Proof. exact pinned_wrapping_refuted_l. Qed.
Print Assumptions pinned_wrapping_refuted.

(** ... and a context of more than [max] bytes (byte windows) *)
Theorem pinned_wrapping_bound_refuted :
  exists kind max ctx cl wins w,
    max < W /\ ctx < W /\ sumN (lens_of cl) <= ISIZE_MAX /\ Pos (lens_of cl)
    /\ kclass kind = 1
    /\ windows kind max ctx (lens_of cl) = Err 1 []
    /\ mwindows Wrapping false (isb_of cl) kind max ctx (lens_of cl) = Ok wins /\ In w wins
    /\ max < w_bce w - w_bcs w.
Proof. exact pinned_wrapping_bound_refuted_l. Qed.
Print Assumptions pinned_wrapping_bound_refuted.

(** the repair changes nothing else: for [context < 2^63] the pinned and the repaired code agree *)
Theorem pinned_agrees_elsewhere : forall p isb kind lens max ctx, 2 * ctx < W ->
  mwindows p false isb kind max ctx lens = mwindows p true isb kind max ctx lens.
Proof. exact pinned_agrees_elsewhere_l. Qed.
Print Assumptions pinned_agrees_elsewhere.

(** THE BOUND ON THE TEXT IS NEEDED.  For a CharString of 2^63 + 10 one-byte characters (a single run; Rust
    has no such str), max = 2^63 + 5, ctx = 0, the unbounded loop returns two windows, while the second
    iteration of the machine loop computes 2^63+5 + 2^63+5: a fault with overflow checks, and without
    them the wrapped values trip the range assertion.  (Stated on the loop: a list of that many cluster
    lengths cannot be written down; the run-length form can.) *)
Theorem isize_bound_needed :
  exists cs max ctx,
    c_rle cs = [(1, c_len cs)] /\ c_blen cs = c_len cs /\ c_len cs < W /\ ISIZE_MAX < c_blen cs
    /\ 2 * ctx < max /\ max < W
    /\ (exists wins, char_loop 3 cs max ctx 0 = Ok wins /\ length wins = 2%nat)
    /\ mchar_loop Checked (fun _ => true) 3 cs max ctx 0 = Fault 15
    /\ mchar_loop Wrapping (fun _ => true) 3 cs max ctx 0 = Panic 4.
Proof. exact isize_bound_needed_l. Qed.
Print Assumptions isize_bound_needed.

(** Non-vacuity.  "aä中😀ab" + "e U+0301" (1,2,3,4,1,1,3 bytes): the premises hold; byte windows max 7
    ctx 1 in the checked profile: three windows; max = 2^64-1 with ctx = 2^63-1 is a VALID configuration
    (2*ctx = 2^64-2 < max) and gives one window in both profiles; max = 2^64-2 is the error; a slice
    that is not on a character boundary panics. *)
Definition mix7 : list cluster := [[97];[228];[20013];[128512];[97];[98];[101;769]].
Example machine_premises : Pos (lens_of mix7) /\ sumN (lens_of mix7) <= ISIZE_MAX
  /\ (forall k, isb_of mix7 (pre (lens_of mix7) k) = true) /\ 18446744073709551615 < W.
Proof.
  split; [repeat constructor|]. split; [vm_compute; discriminate|].
  split; [intros k; apply isb_of_pre|reflexivity].
Qed.
Example machine_witness : exists wins,
  mwindows Checked true (isb_of mix7) 1 7 1 (lens_of mix7) = Ok wins /\ length wins = 3%nat.
Proof. eexists. split; [vm_compute; reflexivity | reflexivity]. Qed.
Example machine_huge_witness : exists w,
  mwindows Checked true (isb_of mix7) 1 18446744073709551615 9223372036854775807 (lens_of mix7) = Ok [w]
  /\ mwindows Wrapping true (isb_of mix7) 0 18446744073709551615 9223372036854775807 (lens_of mix7) = Ok [w]
  /\ mwindows Checked true (isb_of mix7) 1 18446744073709551614 9223372036854775807 (lens_of mix7) = Err 1 [].
Proof. eexists. split; [vm_compute; reflexivity|]. split; vm_compute; reflexivity. Qed.
Example machine_u_premises : lenN (utf8s [101; 769; 128105; 8205; 128187; 13; 10; 97]) <= ISIZE_MAX.
Proof. vm_compute. discriminate. Qed.
Example machine_u_witness : exists wins,
  mwindows_u Wrapping true 1 12 0 [101; 769; 128105; 8205; 128187; 13; 10; 97] = Ok wins /\ length wins = 3%nat.
Proof. eexists. split; [vm_compute; reflexivity | reflexivity]. Qed.
Example off_boundary_slice_panics :
  mslice (isb_of mix7) (cs_new (lens_of mix7)) 1 2 = Panic 6
  /\ mslice (isb_of mix7) (cs_new (lens_of mix7)) 1 3 = Ok (1, 2).
Proof. split; vm_compute; reflexivity. Qed.
Example pinned_faults_premise : W <= 2 * two63.
Proof. vm_compute. discriminate. Qed.
Example pinned_agrees_premise : 2 * 9223372036854775807 < W.
Proof. reflexivity. Qed.
Example machine_run_premises :
  let v := (L [I 1; L [I 4294967295; I 4294967295]; L [I 2147483647; I 4294967295];
               L [L [I 97]; L [I 228]; L [I 20013]]; I 0; L [L [I 1; I 3]]])%Z in
  wf_C16 v = true /\ bytes_of v <= ISIZE_MAX /\ v_big (v_nth 1 v) < W
  /\ run_M16 Checked v = run_C16 v.
Proof. cbv zeta. split; [reflexivity|]. split; [vm_compute; discriminate|]. split; vm_compute; reflexivity. Qed.

(** ** possible_byte_substrings (src/text.rs) with find_subsequences_of_max_size_k (src/utils.rs),
    informational (no clause of C16 depends on it): [pbs] = an unbounded reference model of the code,
    [mpbs] = its machine-integer model (C16_MachinePbs.v).  [find_sub vals k] / [mfind_sub p vals k] =
    the three-way loop over items of sizes [vals] with the sum as the size function. *)
From TU Require Import C16_MachinePbs C16_MachinePbsProofs.

(** the loop, for EVERY list of item sizes whose sum and length are usize values: no operation faults,
    the machine loop is the reference loop *)
Theorem machine_find_sub_eq : forall p vals k, sumN vals < W -> lenN vals + 2 < W ->
  mfind_sub p vals k = find_sub vals k.
Proof. exact mfind_sub_ok. Qed.
Print Assumptions machine_find_sub_eq.

(** the reference returns, for every text and every [max_bytes], only triples (byte start, byte end,
    number of characters) of non-empty ranges of whole characters with at most [max_bytes] bytes; the
    loop ends within its fuel ([2 * len + 2] iterations) and no slice is out of range *)
Theorem pbs_ref_spec : forall lens maxb, Pos lens -> lens <> [] ->
  exists ts, pbs lens maxb = Ok ts /\
    Forall (fun t => exists a b, a < b /\ b <= lenN lens /\ t = (pre lens a, pre lens b, b - a)
                                 /\ pre lens b - pre lens a <= maxb) ts.
Proof. exact (fun lens maxb HP HN => pbs_spec lens HP maxb HN). Qed.
Print Assumptions pbs_ref_spec.

(** the machine model is the reference in both profiles (every [max_bytes], also >= 2^64), hence never faults *)
Theorem machine_pbs_eq : forall p lens isb maxb,
  Pos lens -> sumN lens <= ISIZE_MAX -> (forall k, isb (pre lens k) = true) ->
  mpbs p isb lens maxb = pbs lens maxb.
Proof. exact (fun p lens isb maxb H1 H2 H3 => mpbs_ok p lens isb H1 H2 H3 maxb). Qed.
Print Assumptions machine_pbs_eq.

Theorem machine_pbs_run_eq : forall p v, wf_C16 v = true -> bytes_of v <= ISIZE_MAX ->
  run_pbs p v = run_pbs_ref v.
Proof. exact run_pbs_ok. Qed.
Print Assumptions machine_pbs_run_eq.

Example pbs_witness : pbs (lens_of mix7) 6 = Ok [(0, 6, 3); (6, 12, 3); (10, 15, 3)]
  /\ mpbs Checked (isb_of mix7) (lens_of mix7) 6 = pbs (lens_of mix7) 6.
Proof. split; vm_compute; reflexivity. Qed.
Example find_sub_premises : sumN [14; 50; 10; 100] < W /\ lenN [14; 50; 10; 100] + 2 < W
  /\ find_sub [14; 50; 10; 100] 32 = Ok [(0, 1); (2, 3)].
Proof. split; [reflexivity|]. split; [reflexivity|]. vm_compute. reflexivity. Qed.

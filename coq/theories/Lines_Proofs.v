(** Lines: proofs about the line reader model (Lines_Model.v). *)
From TU Require Import Base C01_Model C01_Proofs Lines_Model.
Require Import Lia ZifyBool ZifyN ZifyNat.
Open Scope N_scope.

(** * chunks = iterating read_until *)
Lemma chunks_unfold : forall b,
  chunks b = match b with [] => [] | _ => let (c, r) := read_until_nl b in c :: chunks r end.
Proof.
  induction b as [|x r IH]; [reflexivity|].
  cbn [chunks read_until_nl]. destruct (x =? 10) eqn:E; [reflexivity|].
  rewrite IH. destruct r as [|y r']; [reflexivity|].
  destruct (read_until_nl (y :: r')) as [c r'']. reflexivity.
Qed.

Lemma lossy_lines_unfold : forall b,
  lossy_lines b = match next_line b with None => [] | Some (l, r) => l :: lossy_lines r end.
Proof.
  intros b. unfold lossy_lines, next_line. rewrite chunks_unfold. destruct b as [|x r]; [reflexivity|].
  destruct (read_until_nl (x :: r)) as [c r']. reflexivity.
Qed.

(** * counting *)
Lemma lines_count : forall b, length (lossy_lines b) = count_lines b.
Proof. intros. unfold lossy_lines, count_lines. apply map_length. Qed.

Lemma lines_pinned_count : forall b, length (lossy_lines_pinned b) = count_lines b.
Proof. intros. unfold lossy_lines_pinned, count_lines. apply map_length. Qed.

Lemma cons_chunk_length : forall x cs, cs <> [] -> length (cons_chunk x cs) = length cs.
Proof. intros x [|c cs] H; [congruence|reflexivity]. Qed.

Lemma chunks_nil_iff : forall b, chunks b = [] <-> b = [].
Proof.
  intros b. split; [|intros ->; reflexivity].
  destruct b as [|x r]; [reflexivity|]. cbn [chunks]. destruct (x =? 10); [discriminate|].
  destruct (chunks r); discriminate.
Qed.

Lemma count_lines_closed : forall b, count_lines b = count_lines_spec b.
Proof.
  unfold count_lines, count_lines_spec, count_nl.
  induction b as [|x r IH]; [reflexivity|].
  cbn [chunks filter]. destruct (x =? 10) eqn:E.
  - apply N.eqb_eq in E. subst x. cbn [N.eqb Pos.eqb length]. rewrite IH.
    destruct r as [|y r']; [reflexivity|]. cbn [last]. fold (last (y :: r') 0). lia.
  - rewrite N.eqb_sym, E. destruct r as [|y r'].
    + cbn [chunks cons_chunk length filter last]. rewrite E. reflexivity.
    + rewrite cons_chunk_length by (intros H; apply chunks_nil_iff in H; discriminate).
      rewrite IH. cbn [last]. reflexivity.
Qed.

(** * chunks of written files *)
Definition no10 (l : list byte) : bool := forallb (fun c => negb (c =? 10)) l.

Lemma chunks_line : forall l r, no10 l = true -> chunks (l ++ 10 :: r) = (l ++ [10]) :: chunks r.
Proof.
  induction l as [|x l IH]; intros r H; [reflexivity|].
  cbn [no10 forallb] in H. apply andb_true_iff in H as [Hx Hl].
  cbn [app chunks]. apply negb_true_iff in Hx. rewrite Hx. rewrite (IH r Hl). reflexivity.
Qed.

Lemma chunks_last : forall l, l <> [] -> no10 l = true -> chunks l = [l].
Proof.
  induction l as [|x l IH]; intros Hne H; [congruence|].
  cbn [no10 forallb] in H. apply andb_true_iff in H as [Hx Hl].
  cbn [chunks]. apply negb_true_iff in Hx. rewrite Hx.
  destruct l as [|y l']; [reflexivity|]. rewrite IH by (try discriminate; exact Hl). reflexivity.
Qed.

Lemma no10_app : forall a b, no10 (a ++ b) = no10 a && no10 b.
Proof. intros. unfold no10. apply forallb_app. Qed.

Lemma utf8_no10 : forall c, (c =? 10) = false -> no10 (utf8 c) = true.
Proof.
  intros c H. unfold utf8.
  destruct (c <? 128); [|destruct (c <? 2048); [|destruct (c <? 65536)]]; cbn [no10 forallb];
    rewrite ?andb_true_iff; repeat split; try reflexivity; apply negb_true_iff; try exact H;
    apply N.eqb_neq; lia.
Qed.

Lemma utf8s_no10 : forall s, no_nl s = true -> no10 (utf8s s) = true.
Proof.
  induction s as [|c s IH]; intros H; [reflexivity|].
  cbn [no_nl forallb] in H. apply andb_true_iff in H as [Hc Hs].
  unfold utf8s. cbn [flat_map]. rewrite no10_app. fold (utf8s s). rewrite (IH Hs), andb_true_r.
  apply utf8_no10. apply negb_true_iff. exact Hc.
Qed.

(** * the terminator *)
Lemma strip_eol_lf : forall l, strip_eol (l ++ [10]) = if last l 0 =? 13 then removelast l else l.
Proof. intros l. unfold strip_eol. rewrite last_last, removelast_last. reflexivity. Qed.

Lemma strip_eol_crlf : forall l, strip_eol (l ++ [13; 10]) = l.
Proof.
  intros l. unfold strip_eol. change (l ++ [13; 10]) with (l ++ [13] ++ [10]). rewrite app_assoc.
  rewrite last_last, removelast_last. cbn [N.eqb Pos.eqb]. rewrite last_last, removelast_last. reflexivity.
Qed.

Lemma last_In : forall (x : N) l d, In (last (x :: l) d) (x :: l).
Proof. intros x l d. revert x. induction l as [|y l IH]; intros x; [left; reflexivity|right; apply IH]. Qed.

Lemma strip_eol_no10 : forall l, no10 l = true -> strip_eol l = l.
Proof.
  intros l H. unfold strip_eol. destruct (last l 0 =? 10) eqn:E; [|reflexivity].
  exfalso. apply N.eqb_eq in E. destruct l as [|x l']; [discriminate|].
  pose proof (last_In x l' 0) as Hin. unfold byte in *.
  unfold no10 in H. rewrite forallb_forall in H. specialize (H _ Hin). rewrite E in H. discriminate.
Qed.

Lemma utf8_last : forall c, utf8 c <> [] /\ (last (utf8 c) 0 = 13 -> c = 13).
Proof.
  intros c. unfold utf8.
  destruct (c <? 128) eqn:E1; [|destruct (c <? 2048); [|destruct (c <? 65536)]]; cbn [last];
    (split; [discriminate|]); intros H; lia.
Qed.

Lemma last_app_ne : forall (a b : list N) d, b <> [] -> last (a ++ b) d = last b d.
Proof.
  intros a b d Hb. destruct (exists_last Hb) as [b' [y ->]]. rewrite app_assoc, !last_last. reflexivity.
Qed.

Lemma utf8s_last_cr : forall s, last (utf8s s) 0 = 13 -> last s 0 = 13.
Proof.
  induction s as [|c s IH]; intros H; [discriminate|].
  unfold utf8s in H. cbn [flat_map] in H. fold (utf8s s) in H.
  destruct s as [|c' s'].
  - cbn [utf8s flat_map] in H. rewrite app_nil_r in H. apply utf8_last in H. subst. reflexivity.
  - assert (Hne : utf8s (c' :: s') <> []).
    { unfold utf8s. cbn [flat_map]. destruct (utf8_last c') as [Hn _]. destruct (utf8 c'); [congruence|discriminate]. }
    rewrite last_app_ne in H by exact Hne. cbn [last]. apply IH. exact H.
Qed.

(** * from_utf8_lossy *)
Lemma check3_eq : forall b0 b1 b2, 224 <= b0 -> b0 < 240 ->
  cont b1 && cont b2 && (2048 <=? cp3 b0 b1 b2) && scalar (cp3 b0 b1 b2) = ok3 b0 b1 && cont b2.
Proof.
  intros b0 b1 b2 H0 H1. unfold ok3, cont, scalar, cp3.
  destruct (b0 =? 224) eqn:E1; [|destruct (b0 =? 237) eqn:E2]; lia.
Qed.

Lemma check4_eq : forall b0 b1 b2 b3, 240 <= b0 -> b0 < 245 ->
  cont b1 && cont b2 && cont b3 && (65536 <=? cp4 b0 b1 b2 b3) && (cp4 b0 b1 b2 b3 <? 1114112)
  = ok4 b0 b1 && cont b2 && cont b3.
Proof.
  intros b0 b1 b2 b3 H0 H1. unfold ok4, cont, cp4.
  destruct (b0 =? 240) eqn:E1; [|destruct (b0 =? 244) eqn:E2]; lia.
Qed.

Lemma width2 : forall b0, 194 <= b0 -> b0 < 224 -> char_width b0 =? 2 = true.
Proof. intros. unfold char_width. destruct (b0 <? 194) eqn:E1; [lia|]. destruct (b0 <? 224) eqn:E2; [reflexivity|lia]. Qed.
Lemma width3 : forall b0, 224 <= b0 -> b0 < 240 -> (char_width b0 =? 2 = false) /\ (char_width b0 =? 3 = true).
Proof.
  intros. unfold char_width. destruct (b0 <? 194) eqn:E1; [lia|]. destruct (b0 <? 224) eqn:E2; [lia|].
  destruct (b0 <? 240) eqn:E3; [split; reflexivity|lia].
Qed.
Lemma width4 : forall b0, 240 <= b0 -> b0 < 245 ->
  (char_width b0 =? 2 = false) /\ (char_width b0 =? 3 = false) /\ (char_width b0 =? 4 = true).
Proof.
  intros. unfold char_width. destruct (b0 <? 194) eqn:E1; [lia|]. destruct (b0 <? 224) eqn:E2; [lia|].
  destruct (b0 <? 240) eqn:E3; [lia|]. destruct (b0 <? 245) eqn:E4; [repeat split; reflexivity|lia].
Qed.
Lemma width0 : forall b0, (b0 < 194 \/ 245 <= b0) ->
  (char_width b0 =? 2 = false) /\ (char_width b0 =? 3 = false) /\ (char_width b0 =? 4 = false).
Proof.
  intros b0 H. unfold char_width. destruct (b0 <? 194) eqn:E1; [repeat split; reflexivity|].
  destruct (b0 <? 224) eqn:E2; [lia|]. destruct (b0 <? 240) eqn:E3; [lia|]. destruct (b0 <? 245) eqn:E4; [lia|].
  repeat split; reflexivity.
Qed.

(** the lossy decoder against the strict one: the same string on valid input, at least one U+FFFD otherwise *)
Definition lossy_rel (l : list byte) : Prop :=
  match utf8_decode l with Some s => lossy l = s | None => In REPL (lossy l) end.

Lemma lossy_rel_cons : forall c l', lossy_rel l' ->
  match option_map (cons c) (utf8_decode l') with Some s => c :: lossy l' = s | None => In REPL (c :: lossy l') end.
Proof.
  intros c l' H. unfold lossy_rel in H. destruct (utf8_decode l') as [s|]; cbn [option_map].
  - rewrite H. reflexivity.
  - right. exact H.
Qed.

Lemma lossy_spec_aux : forall n l, (length l <= n)%nat -> lossy_rel l.
Proof.
  induction n as [|n IH]; intros l Hl.
  { destruct l; [reflexivity|cbn [length] in Hl; lia]. }
  destruct l as [|b0 r0]; [reflexivity|]. cbn [length] in Hl.
  unfold lossy_rel. cbn [utf8_decode lossy].
  destruct (b0 <? 128) eqn:E0.
  { apply (lossy_rel_cons b0 r0). apply IH. lia. }
  destruct (b0 <? 194) eqn:E1.
  { destruct (width0 b0) as (-> & -> & ->); [lia|]. left. reflexivity. }
  destruct (b0 <? 224) eqn:E2.
  { rewrite width2 by lia. destruct r0 as [|b1 r1]; [left; reflexivity|]. cbn [length] in Hl.
    destruct (cont b1); [|left; reflexivity]. apply (lossy_rel_cons _ r1). apply IH. lia. }
  destruct (b0 <? 240) eqn:E3.
  { destruct (width3 b0) as (-> & ->); [lia|lia|].
    destruct r0 as [|b1 r1]; [left; reflexivity|]. destruct r1 as [|b2 r2].
    - destruct (ok3 b0 b1); left; reflexivity.
    - cbn [length] in Hl. fold (cp3 b0 b1 b2). rewrite check3_eq by lia.
      destruct (ok3 b0 b1); cbn [andb]; [|left; reflexivity].
      destruct (cont b2); [|left; reflexivity]. apply (lossy_rel_cons _ r2). apply IH. lia. }
  destruct (b0 <? 245) eqn:E4.
  { destruct (width4 b0) as (-> & -> & ->); [lia|lia|].
    destruct r0 as [|b1 r1]; [left; reflexivity|]. destruct r1 as [|b2 r2].
    { destruct (ok4 b0 b1); left; reflexivity. }
    destruct r2 as [|b3 r3].
    { destruct (ok4 b0 b1); [|left; reflexivity]. destruct (cont b2); left; reflexivity. }
    cbn [length] in Hl. fold (cp4 b0 b1 b2 b3). rewrite check4_eq by lia.
    destruct (ok4 b0 b1); cbn [andb]; [|left; reflexivity].
    destruct (cont b2); cbn [andb]; [|left; reflexivity].
    destruct (cont b3); [|left; reflexivity]. apply (lossy_rel_cons _ r3). apply IH. lia. }
  destruct (width0 b0) as (-> & -> & ->); [lia|]. left. reflexivity.
Qed.

Lemma lossy_spec : forall l, lossy_rel l.
Proof. intros l. apply (lossy_spec_aux (length l)). lia. Qed.

Lemma lossy_strict : forall l s, utf8_decode l = Some s -> lossy l = s.
Proof. intros l s H. pose proof (lossy_spec l) as R. unfold lossy_rel in R. rewrite H in R. exact R. Qed.

Lemma lossy_invalid : forall l, utf8_decode l = None -> In REPL (lossy l).
Proof. intros l H. pose proof (lossy_spec l) as R. unfold lossy_rel in R. rewrite H in R. exact R. Qed.

Lemma lossy_utf8s : forall s, scalars s = true -> lossy (utf8s s) = s.
Proof. intros s H. apply lossy_strict. apply utf8_decode_utf8s. exact H. Qed.

(** scalar values only *)
Lemma cp2_scalar : forall b0 b1, 194 <= b0 -> b0 < 224 -> cont b1 = true -> scalar (cp2 b0 b1) = true.
Proof. intros b0 b1 H0 H1 H. unfold cont in H. unfold scalar, cp2. lia. Qed.
Lemma cp3_scalar : forall b0 b1 b2, 224 <= b0 -> b0 < 240 -> ok3 b0 b1 = true -> cont b2 = true ->
  scalar (cp3 b0 b1 b2) = true.
Proof.
  intros b0 b1 b2 H0 H1 Hk Hc. pose proof (check3_eq b0 b1 b2 H0 H1) as E. rewrite Hk, Hc in E.
  cbn [andb] in E. apply andb_true_iff in E as [_ E]. exact E.
Qed.
Lemma cp4_scalar : forall b0 b1 b2 b3, 240 <= b0 -> b0 < 245 -> ok4 b0 b1 = true -> cont b2 = true ->
  cont b3 = true -> scalar (cp4 b0 b1 b2 b3) = true.
Proof.
  intros b0 b1 b2 b3 H0 H1 Hk Hc Hd. pose proof (check4_eq b0 b1 b2 b3 H0 H1) as E. rewrite Hk, Hc, Hd in E.
  cbn [andb] in E. apply andb_true_iff in E as [E1 E2]. rewrite !andb_true_iff in E1. unfold scalar. lia.
Qed.

Lemma lossy_scalars_aux : forall n l, (length l <= n)%nat -> scalars (lossy l) = true.
Proof.
  unfold scalars.
  induction n as [|n IH]; intros l Hl.
  { destruct l; [reflexivity|cbn [length] in Hl; lia]. }
  destruct l as [|b0 r0]; [reflexivity|]. cbn [length] in Hl. cbn [lossy].
  assert (HR : forall r, (length r <= n)%nat -> forallb scalar (REPL :: lossy r) = true).
  { intros r Hr. cbn [forallb]. rewrite IH by exact Hr. reflexivity. }
  destruct (b0 <? 128) eqn:E0.
  { cbn [forallb]. rewrite IH by lia. unfold scalar. lia. }
  destruct (char_width b0 =? 2) eqn:W2.
  { assert (194 <= b0 /\ b0 < 224) as [G1 G2].
    { unfold char_width in W2. destruct (b0 <? 194) eqn:A1; [discriminate|]. destruct (b0 <? 224) eqn:A2; [lia|].
      destruct (b0 <? 240); [discriminate|]. destruct (b0 <? 245); discriminate. }
    destruct r0 as [|b1 r1]; [apply HR; cbn [length]; lia|]. cbn [length] in Hl.
    destruct (cont b1) eqn:C1; [|apply HR; cbn [length]; lia].
    cbn [forallb]. rewrite cp2_scalar by assumption. apply IH. lia. }
  destruct (char_width b0 =? 3) eqn:W3.
  { assert (224 <= b0 /\ b0 < 240) as [G1 G2].
    { unfold char_width in W3. destruct (b0 <? 194) eqn:A1; [discriminate|]. destruct (b0 <? 224) eqn:A2; [discriminate|].
      destruct (b0 <? 240) eqn:A3; [lia|]. destruct (b0 <? 245); discriminate. }
    destruct r0 as [|b1 r1]; [apply HR; cbn [length]; lia|]. cbn [length] in Hl.
    destruct (ok3 b0 b1) eqn:K; [|apply HR; cbn [length]; lia].
    destruct r1 as [|b2 r2]; [apply HR; cbn [length]; lia|]. cbn [length] in Hl.
    destruct (cont b2) eqn:C2; [|apply HR; cbn [length]; lia].
    cbn [forallb]. rewrite cp3_scalar by assumption. apply IH. lia. }
  destruct (char_width b0 =? 4) eqn:W4.
  { assert (240 <= b0 /\ b0 < 245) as [G1 G2].
    { unfold char_width in W4. destruct (b0 <? 194) eqn:A1; [discriminate|]. destruct (b0 <? 224) eqn:A2; [discriminate|].
      destruct (b0 <? 240) eqn:A3; [discriminate|]. destruct (b0 <? 245) eqn:A4; [lia|discriminate]. }
    destruct r0 as [|b1 r1]; [apply HR; cbn [length]; lia|]. cbn [length] in Hl.
    destruct (ok4 b0 b1) eqn:K; [|apply HR; cbn [length]; lia].
    destruct r1 as [|b2 r2]; [apply HR; cbn [length]; lia|]. cbn [length] in Hl.
    destruct (cont b2) eqn:C2; [|apply HR; cbn [length]; lia].
    destruct r2 as [|b3 r3]; [apply HR; cbn [length]; lia|]. cbn [length] in Hl.
    destruct (cont b3) eqn:C3; [|apply HR; cbn [length]; lia].
    cbn [forallb]. rewrite cp4_scalar by assumption. apply IH. lia. }
  apply HR. lia.
Qed.

Lemma lossy_scalars : forall l, scalars (lossy l) = true.
Proof. intros l. apply (lossy_scalars_aux (length l)). lia. Qed.

Lemma lines_scalars : forall b, Forall (fun l => scalars l = true) (lossy_lines b).
Proof. intros b. unfold lossy_lines. apply Forall_map. apply Forall_forall. intros c _. apply lossy_scalars. Qed.

(** * Round trips *)
Definition line_ok (l : str * bool) : Prop :=
  scalars (fst l) = true /\ no_nl (fst l) = true /\ (snd l = true \/ not_cr_end (fst l) = true).

Lemma lines_written : forall lines rest, Forall line_ok lines ->
  lossy_lines (file_of lines ++ rest) = map fst lines ++ lossy_lines rest.
Proof.
  induction lines as [|[s crlf] lines IH]; intros rest H; [reflexivity|].
  inversion H as [|? ? (Hs & Hn & Hc) H']. subst. cbn [fst snd] in *.
  unfold file_of. cbn [flat_map fst snd map]. fold (file_of lines).
  unfold lossy_lines in *. destruct crlf.
  - change CRLF with ([13] ++ [10]). rewrite <- !app_assoc. rewrite (app_assoc (utf8s s) [13]).
    cbn [app]. rewrite chunks_line.
    2:{ rewrite no10_app, utf8s_no10 by exact Hn. reflexivity. }
    cbn [map]. rewrite <- (IH rest H'). f_equal.
    rewrite <- app_assoc. cbn [app]. rewrite strip_eol_crlf. apply lossy_utf8s. exact Hs.
  - unfold LF. rewrite <- !app_assoc. cbn [app]. rewrite chunks_line by (apply utf8s_no10; exact Hn).
    cbn [map]. rewrite <- (IH rest H'). f_equal. rewrite strip_eol_lf.
    destruct Hc as [Hc|Hc]; [discriminate|].
    match goal with |- context [if ?b then _ else _] => destruct b eqn:E end.
    + apply N.eqb_eq in E. apply utf8s_last_cr in E. unfold not_cr_end in Hc. rewrite E in Hc. discriminate.
    + apply lossy_utf8s. exact Hs.
Qed.

Lemma lines_roundtrip_l : forall lines, Forall line_ok lines -> lossy_lines (file_of lines) = map fst lines.
Proof.
  intros lines H. rewrite <- (app_nil_r (file_of lines)). rewrite lines_written by exact H.
  cbn. apply app_nil_r.
Qed.

Lemma utf8s_nonempty : forall s, s <> [] -> utf8s s <> [].
Proof.
  intros [|c s] H; [congruence|]. unfold utf8s. cbn [flat_map]. destruct (utf8_last c) as [Hn _].
  destruct (utf8 c); [congruence|discriminate].
Qed.

(** a last line without terminator is kept whole (also when it ends in '\r') *)
Lemma lines_roundtrip_open_l : forall lines s, Forall line_ok lines ->
  s <> [] -> scalars s = true -> no_nl s = true ->
  lossy_lines (file_of lines ++ utf8s s) = map fst lines ++ [s].
Proof.
  intros lines s H Hne Hs Hn. rewrite lines_written by exact H. f_equal.
  unfold lossy_lines. rewrite chunks_last by (try apply utf8s_nonempty; try apply utf8s_no10; assumption).
  cbn [map]. rewrite strip_eol_no10 by (apply utf8s_no10; exact Hn). rewrite lossy_utf8s by exact Hs. reflexivity.
Qed.

(** * The pinned tree *)
Lemma chunks_terminated : forall b, (b = [] \/ last b 0 = 10) -> Forall (fun c => last c 0 = 10) (chunks b).
Proof.
  induction b as [|x r IH]; intros H; [constructor|].
  destruct H as [H|H]; [discriminate|]. cbn [chunks].
  assert (Hr : r = [] \/ last r 0 = 10).
  { destruct r as [|y r']; [left; reflexivity|right; exact H]. }
  specialize (IH Hr). destruct (x =? 10) eqn:E.
  - constructor; [cbn [last]; apply N.eqb_eq; exact E|exact IH].
  - destruct r as [|y r']. { cbn [last] in H. subst x. discriminate. }
    destruct (chunks (y :: r')) as [|c cs] eqn:Ec.
    { apply chunks_nil_iff in Ec. discriminate. }
    cbn [cons_chunk]. inversion IH as [|? ? Hc Hcs]. subst. constructor; [|exact Hcs].
    destruct c as [|z c']; [discriminate|]. exact Hc.
Qed.

Lemma strip_pinned_terminated : forall c : list byte, last c (0 : byte) = 10 -> strip_eol_pinned c = strip_eol c.
Proof. intros c H. unfold strip_eol, strip_eol_pinned. rewrite H. reflexivity. Qed.

(** on files that end with '\n' (and on the empty file) the pinned reader and the repaired one agree *)
Lemma lines_pinned_terminated : forall b, (b = [] \/ last b 0 = 10) -> lossy_lines_pinned b = lossy_lines b.
Proof.
  intros b H. unfold lossy_lines_pinned, lossy_lines. apply chunks_terminated in H.
  induction H as [|c cs Hc _ IH]; [reflexivity|]. cbn [map]. rewrite strip_pinned_terminated by exact Hc.
  f_equal. exact IH.
Qed.

(** Soundness of the executable statements [check_C02] / [check_C03]: a [true] on an
    implementation output means the Prop-level property holds of that output. *)
From TU Require Import Base BPE_Model C02_Model C03_Model C02_Inv C02_Proofs.
From Coq Require Import Lia.
Open Scope N_scope.

Section ValInd.
  Variable P : val -> Prop.
  Hypothesis HI : forall z, P (I z).
  Hypothesis HL : forall l, Forall P l -> P (L l).
  Fixpoint val_ind' (v : val) : P v :=
    match v with
    | I z => HI z
    | L l => HL l ((fix go (l : list val) : Forall P l :=
                      match l with
                      | [] => Forall_nil P
                      | x :: r => Forall_cons x (val_ind' x) (go r)
                      end) l)
    end.
End ValInd.

Lemma val_eqb_eq : forall a b, val_eqb a b = true -> a = b.
Proof.
  induction a as [z|l IH] using val_ind'; intros [y|m] H; cbn [val_eqb] in H; try discriminate.
  - apply Z.eqb_eq in H. congruence.
  - f_equal. revert m H. induction IH as [|x l Hx _ IHl]; intros [|y m] H; try discriminate; [reflexivity|].
    apply andb_true_iff in H. destruct H as [H1 H2]. f_equal; [apply Hx; exact H1|apply IHl; exact H2].
Qed.

(** C03: the implementation output IS the canonical id sequence of the text *)
Lemma check_C03_sound_l v out : check_C03 v out = true ->
  out = L [list_v n_v (canon_text (v_table (v_nth 0 v)) (v_str (v_nth 1 v)))].
Proof. unfold check_C03. apply val_eqb_eq. Qed.

(** C02: for a valid configuration, the output is a triple (ids, (decoded bytes), _) with every
    id a vocabulary id and the decoded bytes the UTF-8 of the stripped text *)
Lemma check_C02_sound_l v out : config_ok (v_config v) = true -> check_C02 v out = true ->
  exists ids vs, out = L [list_v n_v ids; L [list_v n_v (utf8s (strip_trailing_ws (v_str (v_nth 5 v))))]; vs] /\
                 Forall (fun id => id < vocab_size (v_config v)) ids.
Proof.
  intros Hc H. unfold check_C02 in H. rewrite Hc in H.
  destruct out as [z|[|idsv [|[z|[|decv [|? ?]]] [|vs [|? ?]]]]]; try discriminate.
  apply andb_true_iff in H. destruct H as [H H3]. apply andb_true_iff in H. destruct H as [H1 H2].
  apply val_eqb_eq in H1, H3. exists (v_list v_n idsv), vs. split; [congruence|].
  apply Forall_forall. intros id Hid. apply N.ltb_lt. exact (proj1 (forallb_forall _ _) H2 id Hid).
Qed.

(** C02 — injectivity corollary of the string-level round trip: the id sequence determines the text
    up to its trailing whitespace, for every table. Proof only; the statement is pinned in [C02_Props.v]. *)
From TU Require Import Base BPE_Model C01_Model C02_Model C02_Proofs C02_String.
Open Scope N_scope.

Lemma bpe_tokenize_injective_l : forall c s t ids,
  scalars s = true -> scalars t = true -> config_ok c = true ->
  bpe_tokenize c s = Some ids -> bpe_tokenize c t = Some ids ->
  strip_trailing_ws s = strip_trailing_ws t.
Proof.
  intros c s t ids Hs Ht Hc Es Et.
  destruct (bpe_lossless_string_l c s Hs Hc) as [i1 [T1 [D1 _]]].
  destruct (bpe_lossless_string_l c t Ht Hc) as [i2 [T2 [D2 _]]].
  rewrite Es in T1. injection T1 as <-. rewrite Et in T2. injection T2 as <-.
  rewrite D1 in D2. injection D2 as D2. exact D2.
Qed.

(** C20 model: Dictionary (src/dictionary.rs): [create] (per-line counting in
    workers, reducer, bounded min-heap top-k), [freq_sum], [save] / [load],
    [get], [get_closest].  Definitions only.

    Boundaries.
    - A dictionary key is a Rust [String]; here it is its list of UTF-8 bytes
      ([word]), so that the order the heap uses ([Ord for String] = bytewise
      lexicographic) is the order on the model's keys themselves.
    - [clean], NFKC [normalize], the regex of [split_words] and the class
      predicates [is_alphabetic] / [is_punctuation] are oracles: a line enters
      the model as the list of its words after clean + NFKC + split_whitespace,
      each word as (regex parts, grapheme clusters with two class booleans).
      The n-gram windowing, the <bow>/<eow> framing, the centre filter and the
      join with spaces ARE modelled.
    - Worker threads: which thread counts which line is irrelevant by
      construction (per-line maps); what is arbitrary is the order in which the
      per-line maps reach the reducer ([arr]) and the order in which the heap
      loop iterates the summed HashMap ([heap order]).  [create] takes both as
      explicit permutations; the theorems show the result does not depend on them.
    - [BinaryHeap<Reverse<(usize, String)>>] is modelled as a priority queue kept
      as an ascending list ([hpush] = ordered insertion, pop = head).
    - usize is not modelled except in [create_pinned] (D9, the arithmetic of the
      unrepaired code) and in [parse_usize] (overflow of the parsed value).
    - Edit distance: C12_Model.distance, flags (with_swap = false, sid = false),
      on the grapheme segmentation of query and key (oracle [segs]). *)
From TU Require Import Base C12_Model.
From Coq Require Import QArith.
Open Scope N_scope.

Definition bytes := list N.
Definition word := bytes.

(** * Orders *)
Definition bytes_eqb : bytes -> bytes -> bool := nlist_eqb.

(** [Ord for str]: bytewise lexicographic, a proper prefix is smaller *)
Fixpoint bytes_leb (a b : bytes) : bool :=
  match a, b with
  | [], _ => true
  | _ :: _, [] => false
  | x :: a', y :: b' => if x <? y then true else if y <? x then false else bytes_leb a' b'
  end.

(** heap entries [(freq, word)], tuple order *)
Definition entry := (N * word)%type.
Definition entry_leb (a b : entry) : bool :=
  if fst a <? fst b then true
  else if fst b <? fst a then false
  else bytes_leb (snd a) (snd b).

Fixpoint memb (w : word) (l : list word) : bool :=
  match l with [] => false | x :: t => bytes_eqb w x || memb w t end.

(** * Tokens of a line *)
(** cluster: bytes, [is_alphabetic], [is_punctuation] *)
Definition clinfo := (bytes * (bool * bool))%type.
(** word: the regex matches of [split_words] (empty list = [None]), the clusters of [CS::split(word, true)] *)
Definition winfo := (list bytes * list clinfo)%type.
Definition linfo := list winfo.

Definition bow : bytes := [60;98;111;119;62].   (* "<bow>" *)
Definition eow : bytes := [60;101;111;119;62].  (* "<eow>" *)

(** [slice::windows(n)], n >= 1 *)
Fixpoint windows {A} (n : nat) (l : list A) : list (list A) :=
  match l with
  | [] => []
  | _ :: t => if Nat.leb n (length l) then firstn n l :: windows n t else []
  end.

(** [window.join(" ")] *)
Fixpoint join_sp (l : list bytes) : bytes :=
  match l with
  | [] => []
  | [x] => x
  | x :: t => x ++ 32 :: join_sp t
  end.

(** [window[window.len() / 2]] is alphabetic or punctuation.  The frame markers
    are neither (never the centre for n = 1, 3). *)
Definition centre_ok (n : nat) (w : list (bytes * bool)) : bool :=
  snd (nth (Nat.div n 2) w ([], false)).

Definition char_tokens (n : nat) (cls : list clinfo) : list word :=
  let el := map (fun c : clinfo => (fst c, fst (snd c) || snd (snd c))) cls in
  let chars := if Nat.ltb 1 n then (bow, false) :: el ++ [(eow, false)] else el in
  map (fun w => join_sp (map fst w)) (filter (centre_ok n) (windows n chars)).

Definition line_tokens (chars : bool) (n : nat) (l : linfo) : list word :=
  if chars then flat_map (fun w : winfo => char_tokens n (snd w)) l
  else flat_map (fun w : winfo => fst w) l.

(** * Counting *)
Definition cmap := list (word * N).

(** [*acc.entry(w).or_insert(0) += c] / [get_mut .. += 1 else insert 1] *)
Fixpoint add_count (w : word) (c : N) (m : cmap) : cmap :=
  match m with
  | [] => [(w, c)]
  | (k, v) :: m' => if bytes_eqb k w then (k, v + c) :: m' else (k, v) :: add_count w c m'
  end.

(** the per-line fold in a worker *)
Definition count_line (toks : list word) : cmap :=
  fold_left (fun m t => add_count t 1 m) toks [].
(** one step of the reducer *)
Definition merge (acc counts : cmap) : cmap :=
  fold_left (fun a (kc : word * N) => add_count (fst kc) (snd kc) a) counts acc.
Definition reduce (arrivals : list cmap) : cmap := fold_left merge arrivals [].

Fixpoint lookup (w : word) (m : cmap) : option N :=
  match m with
  | [] => None
  | (k, v) :: m' => if bytes_eqb k w then Some v else lookup w m'
  end.

(** [.take(max_sequences)] *)
Definition take_opt {A} (k : option N) (l : list A) : list A :=
  match k with
  | None => l
  | Some k => if N.of_nat (length l) <=? k then l else firstn (N.to_nat k) l   (* = firstn k l; k stays binary *)
  end.

(** an arbitrary order, given as a list of picks (any list of numbers is a permutation) *)
Fixpoint remove_nth {A} (i : nat) (l : list A) : list A :=
  match l, i with
  | [], _ => []
  | _ :: t, O => t
  | x :: t, S j => x :: remove_nth j t
  end.
Fixpoint permute {A} (picks : list nat) (l : list A) : list A :=
  match picks with
  | [] => l
  | p :: ps =>
    match l with
    | [] => []
    | d :: _ => let i := Nat.modulo p (length l) in nth i l d :: permute ps (remove_nth i l)
    end
  end.

(** * Bounded min-heap top-k *)
Fixpoint hpush (e : entry) (h : list entry) : list entry :=
  match h with
  | [] => [e]
  | x :: t => if entry_leb e x then e :: h else x :: hpush e t
  end.
(** [heap.len() > max_size]; [None] = unbounded (usize::MAX in the code: no length exceeds it) *)
Definition over (cap : option N) (len : nat) : bool :=
  match cap with None => false | Some k => k <? N.of_nat len end.
(** push, then pop the minimum if too long *)
Definition push_bounded (cap : option N) (h : list entry) (e : entry) : list entry :=
  let h' := hpush e h in if over cap (length h') then tl h' else h'.
Definition topk (cap : option N) (order : list entry) : list entry :=
  fold_left (push_bounded cap) order [].

(** insertion sort = pushing everything; used to canonicalise item lists *)
Definition isort (l : list entry) : list entry := fold_left (fun h e => hpush e h) l [].

(** * The dictionary *)
Definition dict := list (word * N).
Definition swap_e (e : entry) : word * N := (snd e, fst e).
Definition swap_d (e : word * N) : entry := (snd e, fst e).
Definition freq_sum (d : dict) : N := sumN (map snd d).

Inductive res (A : Type) := Ok (a : A) | ErrCfg | Overflow.
Arguments Ok {A} a.
Arguments ErrCfg {A}.
Arguments Overflow {A}.

Definition cfg_bad (chars : bool) (cg : N) : bool := chars && negb (cg =? 1) && negb (cg =? 3).

Definition all_tokens (chars : bool) (cg : N) (max_seq : option N) (lines : list linfo) : list word :=
  flat_map (line_tokens chars (N.to_nat cg)) (take_opt max_seq lines).

(** [Dictionary::create] (repaired: nothing is computed from [max_size] but the
    comparison in the loop).  The items are in pop order (ascending). *)
Definition create (chars : bool) (cg : N) (max_size max_seq : option N) (lines : list linfo)
           (arr hp : list nat) : res dict :=
  if cfg_bad chars cg then ErrCfg else
  let per_line := map (fun l => count_line (line_tokens chars (N.to_nat cg) l)) (take_opt max_seq lines) in
  let counts := reduce (permute arr per_line) in
  let order := permute hp (map swap_d counts) in
  Ok (map swap_e (topk max_size order)).

(** D9: the arithmetic of the pinned code, [BinaryHeap::with_capacity(max_size + 1)]
    with [max_size = unwrap_or(usize::MAX)], checked as in a debug build. *)
Definition usize_max : N := 18446744073709551615.
Definition create_pinned (chars : bool) (cg : N) (max_size max_seq : option N) (lines : list linfo)
           (arr hp : list nat) : res dict :=
  if cfg_bad chars cg then ErrCfg else
  let m := match max_size with None => usize_max | Some k => k end in
  if usize_max <? m + 1 then Overflow else create chars cg max_size max_seq lines arr hp.

(** * save / load *)
(** decimal printing *)
Fixpoint dec_fuel (fuel : nat) (n : N) (acc : bytes) : bytes :=
  match fuel with
  | O => acc
  | S f => let acc' := (48 + n mod 10) :: acc in
           if n <? 10 then acc' else dec_fuel f (n / 10) acc'
  end.
Definition dec (n : N) : bytes := dec_fuel (S (N.size_nat n)) n [].

(** [usize::from_str]: optional '+', at least one ASCII digit, no overflow *)
Fixpoint parse_digits (acc : N) (bs : bytes) : option N :=
  match bs with
  | [] => Some acc
  | b :: r =>
    if (48 <=? b) && (b <=? 57) then
      let acc' := acc * 10 + (b - 48) in
      if usize_max <? acc' then None else parse_digits acc' r
    else None
  end.
Definition parse_usize (bs : bytes) : option N :=
  match bs with
  | [] => None
  | b :: r => if b =? 43 then (match r with [] => None | _ => parse_digits 0 r end)
              else parse_digits 0 bs
  end.

(** stable sort by [Reverse(freq)] ([sort_by_key]) *)
Fixpoint ins_desc (x : word * N) (l : list (word * N)) : list (word * N) :=
  match l with
  | [] => [x]
  | y :: t => if snd y <=? snd x then x :: l else y :: ins_desc x t
  end.
Definition sort_desc (l : list (word * N)) : list (word * N) := fold_right ins_desc [] l.

Definition save_line (e : word * N) : bytes := fst e ++ 9 :: dec (snd e) ++ [10].
(** [save], given the iteration order of the map *)
Definition save (order : dict) : bytes := flat_map save_line (sort_desc order).

(** [BufRead::lines]: split on LF, drop one CR before the LF, a final
    unterminated non-empty piece is a line *)
Definition strip_cr (rl : bytes) : bytes :=   (* on the reversed line *)
  match rl with
  | [] => []
  | x :: r => if x =? 13 then rev r else rev rl
  end.
Fixpoint lines_aux (cur_rev : bytes) (bs : bytes) : list bytes :=
  match bs with
  | [] => match cur_rev with [] => [] | _ => [rev cur_rev] end
  | b :: r => if b =? 10 then strip_cr cur_rev :: lines_aux [] r else lines_aux (b :: cur_rev) r
  end.
Definition lines_of (bs : bytes) : list bytes := lines_aux [] bs.

(** [str::trim] on UTF-8 bytes: strip encodings of White_Space code points *)
Definition ws_enc : list bytes := map utf8 ws_list.
Fixpoint prefixb (p l : bytes) : bool :=
  match p, l with
  | [], _ => true
  | x :: p', y :: l' => (x =? y) && prefixb p' l'
  | _ :: _, [] => false
  end.
Definition starts_ws (encs : list bytes) (l : bytes) : option nat :=
  option_map (@length N) (find (fun w => prefixb w l) encs).
Fixpoint trim_start_f (fuel : nat) (encs : list bytes) (l : bytes) : bytes :=
  match fuel with
  | O => l
  | S f => match starts_ws encs l with
           | Some k => trim_start_f f encs (skipn k l)
           | None => l
           end
  end.
Definition trim_start (l : bytes) : bytes := trim_start_f (length l) ws_enc l.
Definition trim_end (l : bytes) : bytes :=
  rev (trim_start_f (length l) (map (@rev N) ws_enc) (rev l)).
Definition trim (l : bytes) : bytes := trim_end (trim_start l).

(** [str::split('\t')] *)
Fixpoint split_on (sep : N) (cur_rev : bytes) (l : bytes) : list bytes :=
  match l with
  | [] => [rev cur_rev]
  | b :: r => if b =? sep then rev cur_rev :: split_on sep [] r else split_on sep (b :: cur_rev) r
  end.

(** [HashMap::insert]: overwrite *)
Fixpoint insert (k : word) (v : N) (m : dict) : dict :=
  match m with
  | [] => [(k, v)]
  | (k', v') :: m' => if bytes_eqb k' k then (k', v) :: m' else (k', v') :: insert k v m'
  end.

Fixpoint load_lines (ls : list bytes) (acc : dict) : option dict :=
  match ls with
  | [] => Some acc
  | l :: r =>
    match split_on 9 [] (trim l) with
    | [k; v] => match parse_usize v with
                | Some n => load_lines r (insert k n acc)
                | None => None
                end
    | _ => None
    end
  end.
(** [Dictionary::load]; [None] = Err *)
Definition load (file : bytes) : option dict := load_lines (lines_of file) [].

(** keys that survive [save] then [load]: no TAB, no LF, not empty and not
    starting with a White_Space character *)
Definition key_ok (k : word) : bool :=
  negb (existsb (N.eqb 9) k) && negb (existsb (N.eqb 10) k)
  && match starts_ws ws_enc (k ++ [9]) with None => true | Some _ => false end.

(** * get / get_closest *)
Definition nofl : flags := Flags false false.
Definition q_ltb (a b : Q) : bool := negb (Qle_bool b a).

(** segmentation oracle: the grapheme clusters of a key *)
Fixpoint seg_of (segs : list (list bytes)) (k : word) : option (list bytes) :=
  match segs with
  | [] => None
  | s :: r => if bytes_eqb (concat s) k then Some s else seg_of r k
  end.

(** first pass: entries at minimal distance, in iteration order ([None] = INFINITY) *)
Fixpoint pass1 (l : list (Q * (word * N))) (mn : option Q) (ties : list (word * N)) : list (word * N) :=
  match l with
  | [] => ties
  | (d, e) :: r =>
    match mn with
    | None => pass1 r (Some d) [e]
    | Some m => if q_ltb d m then pass1 r (Some d) [e]
                else if Qeq_bool d m then pass1 r mn (ties ++ [e])
                else pass1 r mn ties
    end
  end.
(** second pass: [Iterator::max_by] on the frequency returns the LAST maximum *)
Fixpoint pass2 (best : word * N) (l : list (word * N)) : word * N :=
  match l with
  | [] => best
  | e :: r => pass2 (if snd best <=? snd e then e else best) r
  end.

Fixpoint with_dists (norm : bool) (segs : list (list bytes)) (q : list bytes) (d : dict)
  : option (list (Q * (word * N))) :=
  match d with
  | [] => Some []
  | e :: r =>
    match seg_of segs (fst e), with_dists norm segs q r with
    | Some s, Some l => Some ((distance nofl norm q s, e) :: l)
    | _, _ => None
    end
  end.

Inductive cres := CNone | CSome (e : word * N) | CBadOracle.
(** [get_closest] over the iteration order [d] of the map; [q] = clusters of the normalised query *)
Definition closest (norm : bool) (segs : list (list bytes)) (q : list bytes) (d : dict) : cres :=
  match d with
  | [] => CNone
  | _ => match with_dists norm segs q d with
         | None => CBadOracle
         | Some l => match pass1 l None [] with
                     | [] => CNone
                     | t :: ts => CSome (pass2 t ts)
                     end
         end
  end.
(** [get]: frequency of the normalised query *)
Definition get (nq : word) (d : dict) : option N := lookup nq d.

(** * val glue
    input  = (cfg files perms dfile segs queries)
      cfg     = (chars cg max_size? max_seq? threads)   threads: list of worker-thread counts to run
      files   = list of (final_newline lines); line = (raw words); word = (parts clusters);
                parts: list of byte strings; clusters: list of (bytes alpha punct)
      perms   = (arrival_picks heap_picks)
      dfile   = bytes of a dictionary file handed to [load]
      segs    = list of cluster lists (byte strings): grapheme segmentation of candidate keys of dfile
      queries = list of (raw norm nq qclusters)
    output = (creates reload loaded answers)
      creates = per thread count (0 items freq_sum) | (1) [Err] | (2) [Overflow, model of pinned code only]
                items: list of (word freq) — model: ascending (freq, word); implementation: iteration order
      reload  = () if the first create is not Ok, else (file lres): [save] of the first create, then [load]
      lres    = () [Err] | ((items freq_sum))
      loaded  = lres of dfile
      answers = per query (get? closest?) on the dictionary loaded from dfile; closest? = () | ((word freq)) *)
Definition v_bytes (v : val) : bytes := v_list v_n v.
Definition bytes_v (b : bytes) : val := list_v n_v b.
Definition v_clinfo (v : val) : clinfo := (v_bytes (v_nth 0 v), (v_bool (v_nth 1 v), v_bool (v_nth 2 v))).
Definition v_winfo (v : val) : winfo := (v_list v_bytes (v_nth 0 v), v_list v_clinfo (v_nth 1 v)).
Definition v_line (v : val) : linfo := v_list v_winfo (v_nth 1 v).
Definition v_lines (files : val) : list linfo :=
  flat_map (fun f => v_list v_line (v_nth 1 f)) (v_list (fun x => x) files).

Definition item_v (e : word * N) : val := L [bytes_v (fst e); n_v (snd e)].
Definition v_item (v : val) : word * N := (v_bytes (v_nth 0 v), v_n (v_nth 1 v)).
Definition items_v (d : dict) : val := list_v item_v d.
Definition v_items (v : val) : dict := v_list v_item v.

Definition cres_v (r : res dict) : val :=
  match r with
  | Ok d => L [I 0%Z; items_v d; n_v (freq_sum d)]
  | ErrCfg => L [I 1%Z]
  | Overflow => L [I 2%Z]
  end.
Definition lres_v (o : option dict) : val :=
  opt_v (fun d => L [items_v d; n_v (freq_sum d)]) o.
Definition closest_v (c : cres) : val :=
  match c with
  | CNone => L []
  | CSome e => L [item_v e]
  | CBadOracle => L [I (-1)%Z; I (-1)%Z]
  end.

Definition in_cfg (v : val) := v_nth 0 v.
Definition in_chars (v : val) : bool := v_bool (v_nth 0 (in_cfg v)).
Definition in_cg (v : val) : N := v_n (v_nth 1 (in_cfg v)).
Definition in_max_size (v : val) : option N := v_opt v_n (v_nth 2 (in_cfg v)).
Definition in_max_seq (v : val) : option N := v_opt v_n (v_nth 3 (in_cfg v)).
Definition in_threads (v : val) : list N := v_list v_n (v_nth 4 (in_cfg v)).
Definition in_lines (v : val) : list linfo := v_lines (v_nth 1 v).
Definition in_arr (v : val) : list nat := v_list v_nat (v_nth 0 (v_nth 2 v)).
Definition in_hp (v : val) : list nat := v_list v_nat (v_nth 1 (v_nth 2 v)).
Definition in_dfile (v : val) : bytes := v_bytes (v_nth 3 v).
Definition in_segs (v : val) : list (list bytes) := v_list (v_list v_bytes) (v_nth 4 v).
(** query: (norm, normalised query bytes, its clusters) *)
Definition query := (bool * (word * list bytes))%type.
Definition v_query (v : val) : query :=
  (v_bool (v_nth 1 v), (v_bytes (v_nth 2 v), v_list v_bytes (v_nth 3 v))).
Definition in_queries (v : val) : list query := v_list v_query (v_nth 5 v).

Definition answer_v (segs : list (list bytes)) (d : dict) (q : query) : val :=
  L [opt_v n_v (get (fst (snd q)) d); closest_v (closest (fst q) segs (snd (snd q)) d)].

Definition model_create (v : val) : res dict :=
  create (in_chars v) (in_cg v) (in_max_size v) (in_max_seq v) (in_lines v) (in_arr v) (in_hp v).

Definition sorted_d (d : dict) : dict := map swap_e (isort (map swap_d d)).

Definition reload_v (r : res dict) : val :=
  match r with
  | Ok d => L [bytes_v (save d); lres_v (option_map sorted_d (load (save d)))]
  | _ => L []
  end.

Definition run_C20 (v : val) : val :=
  let r := model_create v in
  let ld := option_map sorted_d (load (in_dfile v)) in
  L [ list_v (fun _ : N => cres_v r) (in_threads v);
      match in_threads v with [] => L [] | _ => reload_v r end;
      lres_v ld;
      match ld with
      | Some d => list_v (answer_v (in_segs v) d) (in_queries v)
      | None => L []
      end ].

(** * The executable statement of the property, evaluated on an output *)
Definition count_tok (w : word) (toks : list word) : N :=
  N.of_nat (length (filter (bytes_eqb w) toks)).
Fixpoint dedup (l : list word) : list word :=
  match l with
  | [] => []
  | x :: t => if memb x t then dedup t else x :: dedup t
  end.
Fixpoint nodupb (l : list word) : bool :=
  match l with [] => true | x :: t => negb (memb x t) && nodupb t end.

Definition items_shape (v : val) : bool :=
  match v with
  | L l => forallb (fun x => match x with L [L _; I z] => (0 <=? z)%Z | _ => false end) l
  | _ => false
  end.

(** one [create] result against the token lists *)
Definition check_create (toks : list word) (max_size : option N) (c : val) : bool :=
  match c with
  | L [I 0%Z; items; I fs] =>
    let d := v_items items in
    let vocab := dedup toks in
    let want := match max_size with
                | None => N.of_nat (length vocab)
                | Some k => N.min k (N.of_nat (length vocab))
                end in
    items_shape items
    && nodupb (map fst d)
    (* exact counts, only tokens that occur *)
    && forallb (fun e : word * N => (snd e =? count_tok (fst e) toks) && (0 <? snd e)) d
    (* restricted to max_size entries (all of them when absent) *)
    && (N.of_nat (length d) =? want)
    (* no kept entry is less frequent than an omitted one *)
    && forallb (fun w => memb w (map fst d)
                         || forallb (fun e : word * N => count_tok w toks <=? snd e) d) vocab
    (* freq_sum is the total of the kept entries *)
    && (0 <=? fs)%Z && (Z.to_N fs =? freq_sum d)
  | _ => false
  end.

Fixpoint all2b {A B} (f : A -> B -> bool) (l : list A) (r : list B) : bool :=
  match l, r with
  | [], [] => true
  | x :: l', y :: r' => f x y && all2b f l' r'
  | _, _ => false
  end.
Definition entries_eqb (a b : list entry) : bool :=
  all2b (fun x y : entry => (fst x =? fst y) && bytes_eqb (snd x) (snd y)) a b.
(** same dictionary up to order *)
Definition same_dict (a b : dict) : bool :=
  entries_eqb (isort (map swap_d a)) (isort (map swap_d b)).

Definition v_lres (v : val) : option (dict * Z) :=
  match v with
  | L [L [items; I fs]] => if items_shape items then Some (v_items items, fs) else None
  | _ => None
  end.

(** is the answer to one query right for the dictionary [d]? *)
Definition check_closest (segs : list (list bytes)) (d : dict) (q : query) (a : val) : bool :=
  match d with
  | [] => match a with L [_; L []] => true | _ => false end
  | _ =>
    match with_dists (fst q) segs (snd (snd q)) d with
    | None => false
    | Some l =>
      match a with
      | L [_; L [L [w; I f]]] =>
        let w := v_bytes w in
        let f := Z.to_N f in
        match find (fun p : Q * (word * N) => bytes_eqb (fst (snd p)) w && (snd (snd p) =? f)) l with
        | None => false
        | Some (dw, _) =>
          forallb (fun p : Q * (word * N) =>
                     Qle_bool dw (fst p) && (if Qeq_bool (fst p) dw then snd (snd p) <=? f else true)) l
        end
      | _ => false
      end
    end
  end.

(** well-formedness of an input: the segmentation oracle covers every key of the dictionary file *)
Definition segs_cover (v : val) : bool :=
  match load (in_dfile v) with
  | Some d => forallb (fun e : word * N => match seg_of (in_segs v) (fst e) with Some _ => true | None => false end) d
  | None => true
  end.

Definition check_C20 (v out : val) : bool :=
  match out with
  | L [L creates; reload; loaded; L answers] =>
    let bad := cfg_bad (in_chars v) (in_cg v) in
    let toks := all_tokens (in_chars v) (in_cg v) (in_max_seq v) (in_lines v) in
    (* one result per requested thread count; with a valid configuration every one is the
       exact top-max_size count table (hence they are identical up to order); never an error *)
    Nat.eqb (length creates) (length (in_threads v))
    && (if bad then true else forallb (check_create toks (in_max_size v)) creates)
    (* save then load reproduces the dictionary *)
    && (if bad then true else
        match creates, reload with
        | [], L [] => true
        | L [I 0%Z; items; I fs] :: _, L [L _; lr] =>
          let d := v_items items in
          if forallb key_ok (map fst d) && forallb (fun e : word * N => snd e <=? usize_max) d then
            match v_lres lr with
            | Some (d', fs') => same_dict d d' && (fs =? fs')%Z
            | None => false
            end
          else true
        | _, _ => false
        end)
    (* get_closest on the dictionary the implementation loaded *)
    && match loaded with
       | L [] => match answers with [] => true | _ => false end
       | _ => match v_lres loaded with
              | Some (d, _) => all2b (check_closest (in_segs v) d) (in_queries v) answers
              | None => false
              end
       end
  | _ => false
  end.

(** * Correspondence relation: model output [m] against implementation output [i].
    [create]: exact — same status, same items up to list order (the implementation
    lists them in hash order), same freq_sum.  Saved file: exactly [save] of SOME
    order of the items with non-increasing frequency (the order among equal
    frequencies is the hash order).  [load]: exact.  [get]: exact.  [get_closest]:
    the answer must be a member of the tie set (minimal distance, maximal
    frequency) of the loaded dictionary; which member is hash-order dependent. *)
Definition agree_create (m i : val) : bool :=
  match m, i with
  | L [I 0%Z; mi; I mf], L [I 0%Z; ii; I jf] =>
    items_shape ii && entries_eqb (map swap_d (v_items mi)) (isort (map swap_d (v_items ii))) && (mf =? jf)%Z
  | L [I 1%Z], L [I 1%Z] => true
  | _, _ => false
  end.
Definition agree_lres (m i : val) : bool :=
  match m, i with
  | L [], L [] => true
  | L [L [mi; I mf]], L [L [ii; I jf]] =>
    items_shape ii && entries_eqb (map swap_d (v_items mi)) (isort (map swap_d (v_items ii))) && (mf =? jf)%Z
  | _, _ => false
  end.
(** the entries of a saved file in file order (no trimming, exactly two fields) *)
Fixpoint file_entries (ls : list bytes) : option dict :=
  match ls with
  | [] => Some []
  | l :: r =>
    match split_on 9 [] l, file_entries r with
    | [k; v], Some es => option_map (fun n => (k, n) :: es) (parse_usize v)
    | _, _ => None
    end
  end.
Fixpoint desc_freq (es : dict) : bool :=
  match es with
  | e1 :: ((e2 :: _) as r) => (snd e2 <=? snd e1) && desc_freq r
  | _ => true
  end.
Definition agree_file (ifile : val) (items : dict) : bool :=
  match file_entries (lines_of (v_bytes ifile)) with
  | Some es => val_eqb ifile (bytes_v (flat_map save_line es)) && same_dict es items && desc_freq es
  | None => false
  end.
Definition agree_C20 (v m i : val) : bool :=
  match m, i with
  | L [L mc; mr; ml; L ma], L [L ic; ir; il; L ia] =>
    all2b agree_create mc ic
    && match mr, ir, ic with
       | L [], L [], _ => true
       | L [_; mlr], L [ifile; ilr], L [I 0%Z; ii; _] :: _ =>
         agree_file ifile (v_items ii) && agree_lres mlr ilr
       | _, _, _ => false
       end
    && agree_lres ml il
    && match il with
       | L [L [ii; _]] =>
         all2b (fun q a => val_eqb (v_nth 0 a) (opt_v n_v (get (fst (snd q)) (v_items ii)))
                           && check_closest (in_segs v) (v_items ii) q a) (in_queries v) ia
       | _ => match ia with [] => true | _ => false end
       end
    && Nat.eqb (length ma) (length ia)
  | _, _ => false
  end.

(** * Correspondence of the segmenter (UAX29_Model): every cluster list handed over by the
    harness — the clusters of every word of every line (character n-grams), the segmentation of
    every candidate key of the dictionary file, the clusters of every normalised query — must be
    the UTF-8 encoding of the model's own segmentation of the text it spells: decode the
    concatenated bytes ([C01_Model.utf8_decode], the strict decoder), segment the code points,
    encode each cluster.  Part of [agree], not of [check_C20]: a mismatch is a model /
    implementation disagreement, not a property failure. *)
From TU Require C01_Model UAX29_Model.
Fixpoint bl_eqb (a b : list bytes) : bool :=
  match a, b with
  | [], [] => true
  | x :: a', y :: b' => bytes_eqb x y && bl_eqb a' b'
  | _, _ => false
  end.
(** grapheme clusters of the text [s], as byte strings *)
Definition seg_bytes (s : str) : list bytes := map utf8s (UAX29_Model.segment s).
Definition seg_checked (cls : list bytes) : bool :=
  match C01_Model.utf8_decode (concat cls) with
  | Some s => bl_eqb (seg_bytes s) cls
  | None => false
  end.
Definition uax29_agree (v : val) : bool :=
  forallb (fun l : linfo => forallb (fun w : winfo => seg_checked (map fst (snd w))) l) (in_lines v)
  && forallb seg_checked (in_segs v)
  && forallb (fun q : query => seg_checked (snd (snd q))) (in_queries v).

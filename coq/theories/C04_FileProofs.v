(** C04 with the merge file in the correspondence: the executable statement is the old one on the eleven fields,
    holds of the model's own output; an accepted correspondence on a BPE case means the file on disk was
    [mp_encode] of the merges (id = position) in some order and loads as exactly these merges. *)
From TU Require Import Base C01_Model C04_Model C04_Proofs C04_Check C02_Check MsgPack_Model MsgPack_Codec MsgPack_Stream
  MsgPack_Map MsgPack_Tie C04_File.
From Coq Require Import Permutation.
Open Scope N_scope.

Theorem check_run_C04f_l v : check_C04f v (run_C04 v) = true.
Proof.
  unfold check_C04f. assert (Hr : strip_file11 (run_C04 v) = run_C04 v).
  { unfold run_C04. destruct (build _); reflexivity. }
  rewrite Hr. apply check_run_l.
Qed.

Theorem agree_C04f_sound_l v m a0 a1 a2 a3 a4 a5 a6 a7 a8 a9 a10 fb lv :
  agree_C04f v m (L [a0; a1; a2; a3; a4; a5; a6; a7; a8; a9; a10; fb; lv]) = true ->
  m = L [a0; a1; a2; a3; a4; a5; a6; a7; a8; a9; a10] /\
  exists es, v_list v_n fb = mp_encode es /\ mp_parse (v_list v_n fb) = Some (es, []) /\
             Permutation es (entries_of_table (in_merges v)) /\ NoDup (in_merges v) /\
             load_table (v_list v_n fb) = Loaded (in_merges v) /\ v_entries lv = sort_items es.
Proof.
  unfold agree_C04f. cbn [strip_file11]. intros H. apply andb_true_iff in H. destruct H as [H1 H2].
  split; [apply val_eqb_eq; exact H1|].
  destruct (saved_agree_sound_l _ _ _ H2) as (es & E1 & E2 & E3 & E4 & _ & E6 & E7). exists es. repeat split; assumption.
Qed.

(** C20 — proofs about the byte-level readers, the model's key segmentation and the prepared input (C20_Bytes.v). *)
From TU Require Import Base C12_Model C20_Model C20_Topk C20_Counts C20_Closest C20_Proofs C20_Check C20_UAX29.
From TU Require Import UCD_Model C20_Words C20_WordsProofs C20_Bytes.
From TU Require C01_Model C01_Proofs C04_Proofs NFKC_Tie Lines_Model Lines_Proofs C19_Lines C19_LinesProofs.
From Coq Require Import Lia ZifyBool ZifyNat ZifyN Permutation QArith.
Open Scope N_scope.
Arguments N.eqb : simpl never. Arguments N.ltb : simpl never. Arguments N.leb : simpl never.

Notation split_lines := NFKC_Tie.split_lines.
Notation lossy := Lines_Model.lossy.
Notation lossy_lines := Lines_Model.lossy_lines.
Notation chunks := Lines_Model.chunks.
Notation strip_eol := Lines_Model.strip_eol.
Notation no10 := Lines_Proofs.no10.

(** * the lossy reader cuts the lines [BufRead::lines] cuts *)
Lemma no10_rev l : no10 (rev l) = no10 l.
Proof.
  unfold no10. induction l as [|x l IH]; [reflexivity|]. cbn [rev forallb].
  rewrite forallb_app. cbn [forallb]. rewrite andb_true_r, andb_comm. f_equal. exact IH.
Qed.

Lemma strip_lf_cur (cur : list N) :
  strip_eol (rev cur ++ [10]) = match cur with 13 :: cur' => rev cur' | _ => rev cur end.
Proof.
  rewrite Lines_Proofs.strip_eol_lf. destruct cur as [|y cur']; [reflexivity|].
  cbn [rev]. rewrite Lines_Proofs.last_app_ne by discriminate. cbn [last].
  rewrite removelast_last.
  destruct (y =? 13) eqn:E; [apply N.eqb_eq in E; subst y; reflexivity|].
  destruct y as [|p]; [reflexivity|]. apply N.eqb_neq in E.
  repeat (destruct p as [p|p|]; try reflexivity; try congruence).
Qed.

Lemma split_chunks_gen : forall bs cur, no10 cur = true ->
  split_lines cur bs =
  match chunks bs with
  | [] => match cur with [] => [] | _ => [rev cur] end
  | c :: cs => strip_eol (rev cur ++ c) :: map strip_eol cs
  end.
Proof.
  induction bs as [|x r IH]; intros cur Hc; [reflexivity|].
  cbn [NFKC_Tie.split_lines Lines_Model.chunks]. destruct (x =? 10) eqn:E.
  - apply N.eqb_eq in E. subst x. rewrite strip_lf_cur. f_equal.
    refine (eq_trans (IH [] eq_refl) _). destruct (chunks r) as [|c cs]; reflexivity.
  - assert (Hc' : no10 (x :: cur) = true).
    { unfold no10 in *. cbn [forallb]. rewrite E, Hc. reflexivity. }
    refine (eq_trans (IH (x :: cur) Hc') _). destruct (chunks r) as [|c cs]; cbn [Lines_Model.cons_chunk].
    + cbn [map]. f_equal. rewrite app_nil_r || idtac. cbn [rev].
      symmetry. apply Lines_Proofs.strip_eol_no10.
      change (rev cur ++ [x]) with (rev (x :: cur)). rewrite no10_rev. exact Hc'.
    + cbn [rev]. rewrite <- app_assoc. reflexivity.
Qed.

Lemma split_chunks bs : split_lines [] bs = map strip_eol (chunks bs).
Proof. refine (eq_trans (split_chunks_gen bs [] eq_refl) _). destruct (chunks bs); reflexivity. Qed.

Lemma lines_split_l bs : lossy_lines bs = map lossy (split_lines [] bs).
Proof. unfold Lines_Model.lossy_lines. rewrite split_chunks, map_map. reflexivity. Qed.

(** * the pinned reader ([lines().map_while(ok)]) yields a prefix of the lines; all of them iff every line is UTF-8 *)
Definition decodes (l : bytes) : Prop := C01_Model.utf8_decode l <> None.

Lemma while_ok_prefix (L : list bytes) :
  exists rest, map lossy L = C19_Lines.while_ok (map C01_Model.utf8_decode L) ++ rest
               /\ (rest = [] <-> Forall decodes L).
Proof.
  induction L as [|l L [rest [E I]]].
  - exists []. split; [reflexivity|]. split; intros _; [constructor|reflexivity].
  - cbn [map C19_Lines.while_ok]. destruct (C01_Model.utf8_decode l) as [s|] eqn:D.
    + exists rest. rewrite (Lines_Proofs.lossy_strict l s D), E. split; [reflexivity|].
      rewrite I. split; intro H.
      * constructor; [unfold decodes; congruence|exact H].
      * inversion H; assumption.
    + exists (lossy l :: map lossy L). split; [reflexivity|]. split; [discriminate|].
      intro H. inversion H as [|? ? H1 _]. unfold decodes in H1. congruence.
Qed.

Lemma reader_pinned_prefix_l bs :
  exists rest, file_lines bs = file_lines_pinned bs ++ rest
               /\ (rest = [] <-> Forall decodes (split_lines [] bs)).
Proof.
  unfold file_lines, file_lines_pinned, C19_Lines.dict_read, C19_Lines.read_lines.
  rewrite lines_split_l. apply while_ok_prefix.
Qed.

Lemma file_lines_valid_l bs : Forall decodes (split_lines [] bs) -> file_lines bs = file_lines_pinned bs.
Proof.
  intro H. destruct (reader_pinned_prefix_l bs) as [rest [E I]]. apply I in H. subst rest.
  rewrite app_nil_r in E. exact E.
Qed.

(** on a UTF-8 file the lines are the lines of the text *)
Lemma lossy_utf8s_all (L : list str) : Forall (fun l => C01_Model.scalars l = true) L -> map lossy (map utf8s L) = L.
Proof.
  induction 1 as [|l L0 F1 _ IH]; [reflexivity|]. cbn [map].
  rewrite (Lines_Proofs.lossy_utf8s l F1), IH. reflexivity.
Qed.
Lemma file_lines_utf8_l s : C01_Model.scalars s = true -> file_lines (utf8s s) = split_lines [] s.
Proof.
  intro Hs. unfold file_lines. rewrite lines_split_l, C19_LinesProofs.split_lines_utf8_l.
  apply lossy_utf8s_all. exact (C19_LinesProofs.split_lines_scalars s [] Hs eq_refl).
Qed.

Lemma file_lines_length_l bs : length (file_lines bs) = Lines_Model.count_lines_spec bs.
Proof. unfold file_lines. rewrite Lines_Proofs.lines_count. apply Lines_Proofs.count_lines_closed. Qed.

(** * counts from bytes *)
Lemma counts_exact_b_l chars cg max_size max_seq files arr hp d :
  create_bytes chars cg max_size max_seq files arr hp = Ok d ->
  NoDup (map fst d) /\
  forall w f, In (w, f) d ->
    f = count_tok w (flat_map (raw_tokens chars (N.to_nat cg)) (take_opt max_seq (flat_map file_lines files))) /\ 0 < f.
Proof. unfold create_bytes. apply counts_exact_u_l. Qed.

Lemma flat_map_ext_Forall {A B} (f g : A -> list B) l : Forall (fun x => f x = g x) l -> flat_map f l = flat_map g l.
Proof. induction 1 as [|x l H _ IH]; [reflexivity|]. cbn [flat_map]. rewrite H, IH. reflexivity. Qed.

Lemma create_bytes_utf8_l chars cg max_size max_seq (texts : list str) arr hp :
  Forall (fun s => C01_Model.scalars s = true) texts ->
  create_bytes chars cg max_size max_seq (map utf8s texts) arr hp
  = create_raw chars cg max_size max_seq (flat_map (split_lines []) texts) arr hp.
Proof.
  intro H. unfold create_bytes. f_equal. rewrite flat_map_map. apply flat_map_ext_Forall.
  rewrite Forall_forall in *. intros s Hs. apply file_lines_utf8_l, H, Hs.
Qed.

(** the pinned reader loses lines: file "a\n\xff\nb b\n" and a second file "b c\n" *)
Lemma reader_pinned_truncates_l :
  let files := [[97; 10; 255; 10; 98; 32; 98; 10]; [98; 32; 99; 10]] in
  create_bytes_pinned false 1 None None files [] [] = Ok [([97], 1); ([98], 1); ([99], 1)]
  /\ create_bytes false 1 None None files [] [] = Ok [([97], 1); ([99], 1); ([98], 3)].
Proof. vm_compute. split; reflexivity. Qed.

(** * [load] on arbitrary bytes *)
Lemma load_bad : load bad_dfile = None.
Proof. vm_compute. reflexivity. Qed.
Lemma prep_dfile_load b : load (prep_dfile b) = load_b b.
Proof. unfold prep_dfile, load_b. destruct (forallb line_decodes (lines_of b)); [reflexivity|apply load_bad]. Qed.
Lemma load_b_spec_l b d :
  load_b b = Some d <-> (Forall decodes (lines_of b) /\ load b = Some d).
Proof.
  unfold load_b. destruct (forallb line_decodes (lines_of b)) eqn:E.
  - split; [intro H; split; [|exact H]|intros [_ H]; exact H].
    rewrite forallb_forall in E. apply Forall_forall. intros l Hl. specialize (E l Hl).
    unfold line_decodes, decodes in *. destruct (C01_Model.utf8_decode l); congruence.
  - split; [discriminate|]. intros [H _]. exfalso.
    assert (forallb line_decodes (lines_of b) = true); [|congruence].
    apply forallb_forall. intros l Hl. rewrite Forall_forall in H. specialize (H l Hl).
    unfold line_decodes, decodes in *. destruct (C01_Model.utf8_decode l); congruence.
Qed.

(** * the model's key segmentation covers by construction *)
Lemma concat_singletons (k : bytes) : concat (map (fun b => [b]) k) = k.
Proof. induction k as [|b k IH]; [reflexivity|]. cbn [map concat app]. rewrite IH. reflexivity. Qed.

Lemma seg_key_concat_l k : concat (seg_key k) = k.
Proof.
  unfold seg_key. destruct (C01_Model.utf8_decode k) as [t|] eqn:D.
  - rewrite seg_bytes_concat. apply (C04_Proofs.utf8_decode_inv k t D).
  - apply concat_singletons.
Qed.

Lemma seg_of_dict_l : forall (d : dict) k, In k (map fst d) -> seg_of (segs_of_dict d) k = Some (seg_key k).
Proof.
  induction d as [|e d IH]; intros k H; [destruct H|]. cbn [segs_of_dict map seg_of].
  rewrite seg_key_concat_l. destruct (bytes_eqb (fst e) k) eqn:E.
  - apply bytes_eqb_eq in E. subst k. reflexivity.
  - destruct H as [H|H]; [subst k; rewrite bytes_eqb_refl in E; discriminate|]. apply IH, H.
Qed.

Lemma covered_segs_of_dict (d d' : dict) : (forall e, In e d' -> In (fst e) (map fst d)) -> covered (segs_of_dict d) d'.
Proof. intros H e He. rewrite (seg_of_dict_l d (fst e) (H e He)). discriminate. Qed.

(** [closest] with the oracle built by the model is [closest_m] *)
Lemma with_dists_m norm (d0 : dict) q : forall d : dict, (forall e, In e d -> In (fst e) (map fst d0)) ->
  with_dists norm (segs_of_dict d0) q d = Some (map (fun e => (kdist_m norm q e, e)) d).
Proof.
  induction d as [|e d IH]; intro H; [reflexivity|]. cbn [with_dists map].
  rewrite (seg_of_dict_l d0 (fst e) (H e (or_introl eq_refl))), IH; [reflexivity|].
  intros e' He'. apply H. right. exact He'.
Qed.

Lemma closest_segs_of_dict_l norm (d0 d : dict) q : (forall e, In e d -> In (fst e) (map fst d0)) ->
  closest norm (segs_of_dict d0) q d = closest_m norm q d.
Proof.
  intro H. unfold closest, closest_m. destruct d as [|e d']; [reflexivity|].
  rewrite (with_dists_m norm d0 q (e :: d') H). reflexivity.
Qed.

Lemma closest_m_spec_l norm q (d : dict) :
  (d = [] -> closest_m norm q d = CNone) /\
  (d <> [] ->
   exists e, closest_m norm q d = CSome e /\ In e d /\
     forall e', In e' d ->
       (kdist_m norm q e <= kdist_m norm q e')%Q /\
       ((kdist_m norm q e' == kdist_m norm q e)%Q -> snd e' <= snd e)).
Proof.
  split; [intros ->; reflexivity|]. intro Hne.
  assert (Hin : forall e, In e d -> In (fst e) (map fst d)) by (intros e He; apply in_map; exact He).
  rewrite <- (closest_segs_of_dict_l norm d d q Hin).
  destruct (closest_spec_l norm (segs_of_dict d) q d) as [_ S].
  destruct (S Hne (covered_segs_of_dict d d Hin)) as [e [E [Ie A]]].
  exists e. split; [exact E|]. split; [exact Ie|]. intros e' He'.
  specialize (A e' He'). unfold kdist, kseg in A.
  rewrite (seg_of_dict_l d (fst e) (Hin e Ie)), (seg_of_dict_l d (fst e') (Hin e' He')) in A. exact A.
Qed.

(** * the prepared input *)
Lemma v_list_id (l : list val) : v_list (fun x => x) (L l) = l.
Proof. unfold v_list. apply map_id. Qed.
Lemma v_cps_str_v (s : str) : v_cps (str_v s) = s.
Proof.
  unfold v_cps, str_v, list_v, v_list. rewrite map_map. induction s as [|c s IH]; [reflexivity|].
  cbn [map]. rewrite v_n_n_v, IH. reflexivity.
Qed.
Lemma v_bl_bl_v (s : list bytes) : v_list v_bytes (list_v bytes_v s) = s.
Proof.
  unfold list_v, v_list. rewrite map_map. induction s as [|c s IH]; [reflexivity|].
  cbn [map]. rewrite v_bytes_bytes_v, IH. reflexivity.
Qed.
Lemma v_segs_segs_v (S : list (list bytes)) : v_list (v_list v_bytes) (list_v (list_v bytes_v) S) = S.
Proof.
  unfold list_v at 1, v_list at 1. rewrite map_map. induction S as [|c S IH]; [reflexivity|].
  cbn [map]. rewrite v_bl_bl_v, IH. reflexivity.
Qed.

Lemma in_raws_prep_l v : in_raws (prep v) = flat_map file_lines (in_fbytes v).
Proof.
  unfold in_raws, in_fbytes, prep. cbn [v_nth nth]. unfold list_v at 1. rewrite v_list_id.
  rewrite !flat_map_map. apply flat_map_ext_Forall. apply Forall_forall. intros f _.
  unfold prep_file. cbn [v_nth nth]. unfold list_v, v_list. rewrite map_map.
  generalize (file_lines (file_bytes_of f)). intro ls. induction ls as [|l ls IH]; [reflexivity|].
  cbn [map]. rewrite IH. f_equal. unfold line_raw. cbn [v_nth nth]. apply v_cps_str_v.
Qed.

Lemma model_create_prep_l v :
  model_create (modelize (prep v))
  = create_bytes (in_chars v) (in_cg v) (in_max_size v) (in_max_seq v) (in_fbytes v) (in_arr v) (in_hp v).
Proof. rewrite model_create_modelize, in_raws_prep_l. reflexivity. Qed.

Lemma in_dfile_prep v : in_dfile (prep v) = prep_dfile (in_dfile v).
Proof. unfold in_dfile at 1, prep. cbn [v_nth nth]. apply v_bytes_bytes_v. Qed.
Lemma in_segs_prep v : in_segs (prep v) = prep_segs (in_dfile v).
Proof. unfold in_segs, prep. cbn [v_nth nth]. apply v_segs_segs_v. Qed.

Lemma segs_cover_prep_l v : segs_cover (prep v) = true.
Proof.
  unfold segs_cover. rewrite in_dfile_prep, in_segs_prep. unfold prep_segs.
  destruct (load (prep_dfile (in_dfile v))) as [d|]; [|reflexivity].
  apply forallb_forall. intros e He. rewrite (seg_of_dict_l d (fst e) (in_map fst d e He)). reflexivity.
Qed.

Lemma check_run_b_l v : check_C20b v (run_C20b v) = true.
Proof. unfold check_C20b, run_C20b. apply check_run_u_l, segs_cover_prep_l. Qed.

(** the loaded dictionary of the prepared input is [load_b] of the bytes *)
Lemma load_prep_l v : load (in_dfile (prep v)) = load_b (in_dfile v).
Proof. rewrite in_dfile_prep. apply prep_dfile_load. Qed.

(** * the prepared input without queries *)
Lemma in_raws_prep0_l v : in_raws (prep0 v) = flat_map file_lines (in_fbytes v).
Proof. exact (in_raws_prep_l v). Qed.
Lemma model_create_prep0_l v :
  model_create (modelize (prep0 v))
  = create_bytes (in_chars v) (in_cg v) (in_max_size v) (in_max_seq v) (in_fbytes v) (in_arr v) (in_hp v).
Proof. rewrite model_create_modelize, in_raws_prep0_l. reflexivity. Qed.
Lemma in_dfile_prep0 v : in_dfile (prep0 v) = prep_dfile (in_dfile v).
Proof. exact (in_dfile_prep v). Qed.
Lemma segs_cover_prep0_l v : segs_cover (prep0 v) = true.
Proof. exact (segs_cover_prep_l v). Qed.
Lemma in_queries_prep0 v : in_queries (prep0 v) = [].
Proof. reflexivity. Qed.
Lemma in_queries_prep v : in_queries (prep v) = prep_queries v.
Proof. reflexivity. Qed.

(** * [check_closest_m] is [check_closest] with the oracle built by the model *)
Lemma check_closest_m_eq (d0 d : dict) q a : (forall e, In e d -> In (fst e) (map fst d0)) ->
  check_closest (segs_of_dict d0) d q a = check_closest_m d q a.
Proof.
  intro H. unfold check_closest, check_closest_m. destruct d as [|e d']; [reflexivity|].
  rewrite (with_dists_m (fst q) d0 (snd (snd q)) (e :: d') H). reflexivity.
Qed.

Lemma keys_self (d : dict) : forall e, In e d -> In (fst e) (map fst d).
Proof. intros e He. apply in_map. exact He. Qed.

Lemma check_closest_m_ok (d : dict) (q : query) g :
  check_closest_m d q (L [g; closest_v (closest_m (fst q) (snd (snd q)) d)]) = true.
Proof.
  rewrite <- (check_closest_m_eq d d q _ (keys_self d)).
  rewrite <- (closest_segs_of_dict_l (fst q) d d (snd (snd q)) (keys_self d)).
  pose proof (check_closest_ok (segs_of_dict d) d q (covered_segs_of_dict d d (keys_self d))) as H.
  unfold answer_v in H. unfold check_closest in *. destruct d as [|e d']; [exact H|].
  destruct (with_dists (fst q) (segs_of_dict (e :: d')) (snd (snd q)) (e :: d')); exact H.
Qed.

Lemma check_closest_m_sound_l (d : dict) norm nq qc a :
  check_closest_m d (norm, (nq, qc)) a = true ->
  (d = [] -> exists g, a = L [g; L []]) /\
  (d <> [] ->
   exists g wv fz, a = L [g; L [L [wv; I fz]]] /\
     In (v_bytes wv, Z.to_N fz) d /\
     forall e', In e' d ->
       (kdist_m norm qc (v_bytes wv, Z.to_N fz) <= kdist_m norm qc e')%Q /\
       ((kdist_m norm qc e' == kdist_m norm qc (v_bytes wv, Z.to_N fz))%Q -> snd e' <= Z.to_N fz)).
Proof.
  intro H. rewrite <- (check_closest_m_eq d d _ _ (keys_self d)) in H.
  destruct (check_closest_sound_l _ _ _ _ _ _ H) as [S0 S1]. split; [exact S0|].
  intro Hne. destruct (S1 Hne) as [_ (g & wv & fz & Ea & Hin & Hall)].
  exists g, wv, fz. split; [exact Ea|]. split; [exact Hin|]. intros e' He'.
  specialize (Hall e' He'). unfold kdist, kseg in Hall.
  rewrite (seg_of_dict_l d _ (keys_self d _ Hin)), (seg_of_dict_l d _ (keys_self d _ He')) in Hall. exact Hall.
Qed.

(** Proofs about the model of [rand_distr::Geometric] (RNG_Geometric.v):
    - the constant 2.0 / 3.0;
    - [GNHang] is a real divergence: from pi = 1.0 the loop of [Geometric::new] exhausts every fuel;
    - fuel adequacy of the three sampling loops and of [sample]: a result that is returned does not depend on the fuel
      (more fuel gives the same value and the same generator state);
    - [powf] is never reached for k <= 31;
    - range: a sample is a u64, the generator state stays well-formed, and for 0 < p < 2/3 the value is
      (d << k) + m with m < 2^k (the Bringmann–Friedrich decomposition the code builds). *)
From TU Require Import RNG_Model RNG_Proofs RNG_Geometric.
From TU Require Import Base.
Require Import Lia ZifyBool ZifyNat ZifyN.
Open Scope N_scope.

Lemma two_thirds_is_quotient_l : gdiv (g_of_N 2) (g_of_N 3) = two_thirds.
Proof. vm_compute. reflexivity. Qed.

(** * [new] *)
Lemma new_loop_one_l : forall fuel k, new_loop fuel g_one k = None.
Proof.
  induction fuel as [|f IH]; intros k; [reflexivity|]. cbn [new_loop].
  change (fgt g_one g_half) with true. cbv iota. change (fmul g_one g_one) with g_one. apply IH.
Qed.

Lemma is_one_eq : forall x, is_one x = true -> x = g_one.
Proof.
  intros [m e| | |] H; try discriminate. cbn [is_one] in H. apply andb_true_iff in H. destruct H as [Hm He].
  apply N.eqb_eq in Hm. apply Z.eqb_eq in He. subst. reflexivity.
Qed.

(** when the model says "hang", the loop of the code has pi = 1.0 * 1.0 = 1.0 > 0.5 forever *)
Lemma geo_new_hang_l : forall p, geo_new p = GNHang ->
  gsub g_one p = g_one /\ forall fuel k, new_loop fuel (fmul (gsub g_one p) (gsub g_one p)) k = None.
Proof.
  intros p H. unfold geo_new in H. destruct p as [m e| | |]; try discriminate.
  destruct (fgt (Fin m e) g_one); [discriminate|].
  destruct ((m =? 0) || fle two_thirds (Fin m e)); [discriminate|].
  destruct (is_one (gsub g_one (Fin m e))) eqn:E.
  - apply is_one_eq in E. split; [exact E|]. intros fuel k. rewrite E. change (fmul g_one g_one) with g_one.
    apply new_loop_one_l.
  - destruct (new_loop new_fuel _ 1) as [[pi k]|]; discriminate.
Qed.

(** what a successful [new] returns: p itself with k = 0 for p = 0 or p >= 2/3, otherwise a pi <= 0.5 reached by k - 1
    squarings of (1 - p)^2, all of them > 0.5 before *)
Lemma new_loop_spec : forall fuel pi k pi' k', new_loop fuel pi k = Some (pi', k') ->
  fgt pi' g_half = false /\ k <= k' /\ k' < k + N.of_nat fuel.
Proof.
  induction fuel as [|f IH]; intros pi k pi' k' H; [discriminate|]. cbn [new_loop] in H.
  destruct (fgt pi g_half) eqn:E.
  - destruct (IH _ _ _ _ H) as (H1 & H2 & H3). split; [exact H1|]. lia.
  - injection H as <- <-. split; [exact E|]. lia.
Qed.

Lemma geo_new_ok_l : forall p g, geo_new p = GNOk g ->
  g_p g = p /\
  ((g_k g = 0 /\ g_pi g = p /\ (fis_zero p = true \/ fle two_thirds p = true)) \/
   (1 <= g_k g <= 64 /\ fgt (g_pi g) g_half = false /\ fis_zero p = false /\ fle two_thirds p = false)).
Proof.
  intros p g H. unfold geo_new in H. destruct p as [m e| | |]; try discriminate.
  destruct (fgt (Fin m e) g_one); [discriminate|].
  destruct (m =? 0) eqn:Em; cbn [orb] in H.
  - injection H as <-. cbn [g_p g_k g_pi]. split; [reflexivity|]. left. repeat split. left. cbn [fis_zero]. exact Em.
  - destruct (fle two_thirds (Fin m e)) eqn:Et.
    + injection H as <-. cbn [g_p g_k g_pi]. split; [reflexivity|]. left. repeat split. right. reflexivity.
    + destruct (is_one _); [discriminate|].
      destruct (new_loop new_fuel _ 1) as [[pi k]|] eqn:El; [|discriminate]. injection H as <-.
      cbn [g_p g_k g_pi]. split; [reflexivity|]. right.
      destruct (new_loop_spec _ _ _ _ _ El) as (H1 & H2 & H3). unfold new_fuel in H3.
      repeat split; try assumption; try lia.
Qed.

(** * fuel adequacy *)
Lemma trivial_loop_mono : forall f p n st r, trivial_loop f p n st = Some r ->
  forall f', (f <= f')%nat -> trivial_loop f' p n st = Some r.
Proof.
  induction f as [|f IH]; intros p n st r H f' Hf; [discriminate|].
  destruct f' as [|f']; [lia|]. cbn [trivial_loop] in *. destruct (random_f64 st) as [u st1].
  destruct (fle (Fin u (-53)) p); [exact H|]. apply (IH _ _ _ _ H). lia.
Qed.

Lemma d_loop_mono : forall f pi n st r, d_loop f pi n st = Some r ->
  forall f', (f <= f')%nat -> d_loop f' pi n st = Some r.
Proof.
  induction f as [|f IH]; intros pi n st r H f' Hf; [discriminate|].
  destruct f' as [|f']; [lia|]. cbn [d_loop] in *. destruct (random_f64 st) as [u st1].
  destruct (fgt pi (Fin u (-53))); [|exact H]. apply (IH _ _ _ _ H). lia.
Qed.

Lemma m_loop_mono : forall f q k st, m_loop f q k st <> MFuel ->
  forall f', (f <= f')%nat -> m_loop f' q k st = m_loop f q k st.
Proof.
  induction f as [|f IH]; intros q k st H f' Hf; [contradiction H; reflexivity|].
  destruct f' as [|f']; [lia|]. cbn [m_loop] in *. destruct (next_u64 st) as [x st1].
  destruct (i32_max <? _); [reflexivity|]. destruct (random_f64 st1) as [u st2].
  destruct (fgt _ _); [reflexivity|]. apply IH; [exact H|lia].
Qed.

(** more fuel never changes a sample that was returned *)
Lemma geo_sample_mono : forall f g st x st', geo_sample f g st = GSOk x st' ->
  forall f', (f <= f')%nat -> geo_sample f' g st = GSOk x st'.
Proof.
  intros f g st x st' H f' Hf. unfold geo_sample in *.
  destruct (fle two_thirds (g_p g)).
  - destruct (trivial_loop f (g_p g) 0 st) as [[n s]|] eqn:E; [|discriminate].
    rewrite (trivial_loop_mono _ _ _ _ _ E f' Hf). exact H.
  - destruct (fis_zero (g_p g)); [exact H|].
    destruct (d_loop f (g_pi g) 0 st) as [[d s1]|] eqn:E; [|discriminate].
    rewrite (d_loop_mono _ _ _ _ _ E f' Hf).
    destruct (m_loop f (gsub g_one (g_p g)) (g_k g) s1) as [m s2| |] eqn:Em; try discriminate.
    rewrite (m_loop_mono f _ _ s1 ltac:(rewrite Em; discriminate) f' Hf), Em. exact H.
Qed.

(** * no [powf] for k <= 31 *)
Lemma m_loop_no_powf_l : forall f q k st, k <= 31 -> m_loop f q k st <> MPowf.
Proof.
  induction f as [|f IH]; intros q k st Hk; [discriminate|]. cbn [m_loop].
  destruct (next_u64 st) as [x st1].
  assert (Hm : N.land x (N.shiftl 1 k - 1) < 2 ^ 31).
  { rewrite land_ones_mod. eapply N.lt_le_trans; [apply N.mod_lt; apply N.pow_nonzero; discriminate|].
    apply N.pow_le_mono_r; [discriminate|exact Hk]. }
  destruct (i32_max <? _) eqn:E.
  - apply N.ltb_lt in E. unfold i32_max in E. change (2 ^ 31) with 2147483648 in Hm. lia.
  - destruct (random_f64 st1) as [u st2]. destruct (fgt _ _); [discriminate|]. apply IH. exact Hk.
Qed.

Lemma geo_sample_no_powf_l : forall f g st, g_k g <= 31 -> geo_sample f g st <> GSPowf.
Proof.
  intros f g st Hk. unfold geo_sample. destruct (fle two_thirds (g_p g)).
  - destruct (trivial_loop _ _ _ _) as [[n s]|]; discriminate.
  - destruct (fis_zero (g_p g)); [discriminate|]. destruct (d_loop _ _ _ _) as [[d s1]|]; [|discriminate].
    pose proof (m_loop_no_powf_l f (gsub g_one (g_p g)) (g_k g) s1 Hk) as Hn.
    destruct (m_loop _ _ _ _) as [m s2| |]; [|discriminate|contradiction Hn; reflexivity].
    destruct (p64 <=? _); discriminate.
Qed.

(** * range and shape of a sample *)
Lemma trivial_loop_wf : forall f p n st n' st', wf st -> trivial_loop f p n st = Some (n', st') ->
  wf st' /\ n <= n' /\ n' < n + N.of_nat f.
Proof.
  induction f as [|f IH]; intros p n st n' st' Hw H; [discriminate|]. cbn [trivial_loop] in H.
  destruct (random_f64 st) as [u st1] eqn:E. destruct (random_f64_spec _ _ _ Hw E) as [_ Hw1].
  destruct (fle (Fin u (-53)) p).
  - injection H as <- <-. split; [exact Hw1|]. lia.
  - destruct (IH _ _ _ _ _ Hw1 H) as (H1 & H2 & H3). split; [exact H1|]. lia.
Qed.

Lemma d_loop_wf : forall f pi n st n' st', wf st -> d_loop f pi n st = Some (n', st') ->
  wf st' /\ n <= n' /\ n' < n + N.of_nat f.
Proof.
  induction f as [|f IH]; intros pi n st n' st' Hw H; [discriminate|]. cbn [d_loop] in H.
  destruct (random_f64 st) as [u st1] eqn:E. destruct (random_f64_spec _ _ _ Hw E) as [_ Hw1].
  destruct (fgt pi (Fin u (-53))).
  - destruct (IH _ _ _ _ _ Hw1 H) as (H1 & H2 & H3). split; [exact H1|]. lia.
  - injection H as <- <-. split; [exact Hw1|]. lia.
Qed.

Lemma m_loop_wf : forall f q k st m st', wf st -> m_loop f q k st = MOk m st' -> wf st' /\ m < 2 ^ k /\ m <= i32_max.
Proof.
  induction f as [|f IH]; intros q k st m st' Hw H; [discriminate|]. cbn [m_loop] in H.
  destruct (next_u64 st) as [x st1] eqn:E. destruct (next_u64_spec _ _ _ Hw E) as [_ Hw1].
  remember (N.land x (N.shiftl 1 k - 1)) as mm eqn:Emm.
  destruct (i32_max <? mm) eqn:Ei; [discriminate|].
  destruct (random_f64 st1) as [u st2] eqn:E2. destruct (random_f64_spec _ _ _ Hw1 E2) as [_ Hw2].
  destruct (fgt _ _).
  - injection H as Hm Hs. subst st' m. split; [exact Hw2|]. split.
    + rewrite Emm, land_ones_mod. apply N.mod_lt. apply N.pow_nonzero. discriminate.
    + apply N.ltb_ge in Ei. exact Ei.
  - exact (IH _ _ _ _ _ Hw2 H).
Qed.

Lemma geo_sample_spec_l : forall f g st x st', wf st -> N.of_nat f < 2 ^ 64 -> geo_sample f g st = GSOk x st' ->
  wf st' /\ x < 2 ^ 64 /\
  (fle two_thirds (g_p g) = false -> fis_zero (g_p g) = false ->
   exists d m, x = (d * 2 ^ g_k g) mod 2 ^ 64 + m /\ m < 2 ^ g_k g /\ d < N.of_nat f).
Proof.
  intros f g st x st' Hw Hf H. unfold geo_sample in H. destruct (fle two_thirds (g_p g)) eqn:Et.
  - destruct (trivial_loop f (g_p g) 0 st) as [[n s]|] eqn:E; [|discriminate]. injection H as <- <-.
    destruct (trivial_loop_wf _ _ _ _ _ _ Hw E) as (H1 & _ & H3). split; [exact H1|]. split; [|discriminate].
    lia.
  - destruct (fis_zero (g_p g)) eqn:Ez.
    + injection H as <- <-. split; [exact Hw|]. split; [reflexivity|discriminate].
    + destruct (d_loop f (g_pi g) 0 st) as [[d s1]|] eqn:E; [|discriminate].
      destruct (d_loop_wf _ _ _ _ _ _ Hw E) as (Hw1 & _ & Hd).
      destruct (m_loop f _ (g_k g) s1) as [m s2| |] eqn:Em; try discriminate.
      destruct (m_loop_wf _ _ _ _ _ _ Hw1 Em) as (Hw2 & Hm & _).
      destruct (p64 <=? _) eqn:Eo; [discriminate|]. injection H as <- <-. apply N.leb_gt in Eo.
      split; [exact Hw2|]. split; [exact Eo|]. intros _ _. exists d, m.
      rewrite w64_mod, N.shiftl_mul_pow2. repeat split; [exact Hm|lia].
Qed.

(** * [Geometric::new] never runs out of the model's fuel
    Monotonicity of the rounded square on [1/2, 1): the loop started from a smaller value ends no later; the extreme
    start 1 - 2^-53 ends after 53 squarings (computed); 1.0 - p has the form 1.0 / a normal value in [1/4, 1). *)
(** round to nearest, ties to even, after dropping [sh] bits *)
Definition rnd (sh m : N) : N :=
  let q := N.shiftr m sh in
  let r := N.land m (N.shiftl 1 sh - 1) in
  let half := N.shiftl 1 (sh - 1) in
  if (half <? r) || ((half =? r) && N.odd q) then q + 1 else q.

Lemma split_bits : forall m sh, m = 2 ^ sh * N.shiftr m sh + N.land m (N.shiftl 1 sh - 1) /\ N.land m (N.shiftl 1 sh - 1) < 2 ^ sh.
Proof.
  intros m sh. rewrite land_ones_mod, N.shiftr_div_pow2.
  assert (H : 2 ^ sh <> 0) by (apply N.pow_nonzero; discriminate).
  split; [apply N.div_mod; exact H|apply N.mod_lt; exact H].
Qed.

Lemma rnd_mono : forall sh a b, a <= b -> rnd sh a <= rnd sh b.
Proof.
  intros sh a b Hab. unfold rnd.
  destruct (split_bits a sh) as [Ea Ra]. destruct (split_bits b sh) as [Eb Rb].
  set (qa := N.shiftr a sh) in *. set (qb := N.shiftr b sh) in *.
  set (ra := N.land a (N.shiftl 1 sh - 1)) in *. set (rb := N.land b (N.shiftl 1 sh - 1)) in *.
  set (half := N.shiftl 1 (sh - 1)). set (P := 2 ^ sh) in *.
  assert (Hq : qa <= qb) by nia.
  destruct (N.eq_dec qa qb) as [E|NE].
  - rewrite <- E in *. assert (Hr : ra <= rb) by nia.
    destruct (N.odd qa); destruct (N.ltb_spec half ra); destruct (N.ltb_spec half rb);
      destruct (N.eqb_spec half ra); destruct (N.eqb_spec half rb); cbn [orb andb]; lia.
  - destruct ((half <? ra) || ((half =? ra) && N.odd qa)); destruct ((half <? rb) || ((half =? rb) && N.odd qb)); lia.
Qed.

(** [fround] when bits are dropped (more than 53 significant bits), result in the normal range *)
Lemma fround_big : forall M e s, N.size M = s -> 53 < s ->
  (emin <= e + Z.of_N s - 53)%Z -> (e + Z.of_N s - 53 <= 970)%Z ->
  fround M e = let q := rnd (s - 53) M in
               if q =? 9007199254740992 then Fin 4503599627370496 (e + Z.of_N s - 52) else Fin q (e + Z.of_N s - 53).
Proof.
  intros M e s Hs H53 Hlo Hhi. unfold fround.
  assert (HM : M <> 0) by (intros ->; cbn in Hs; lia).
  destruct (N.eqb_spec M 0) as [|_]; [contradiction|]. rewrite Hs.
  rewrite (Z.max_l _ emin) by lia.
  destruct (Z.leb_spec (e + Z.of_N s - 53) e) as [Hle|_]; [lia|].
  replace (Z.to_N (e + Z.of_N s - 53 - e)) with (s - 53) by lia.
  unfold rnd. cbv zeta.
  set (q := N.shiftr M (s - 53)). set (r := N.land M (N.shiftl 1 (s - 53) - 1)). set (half := N.shiftl 1 (s - 53 - 1)).
  destruct ((half <? r) || ((half =? r) && N.odd q)).
  - destruct (N.eqb_spec (q + 1) 9007199254740992).
    + destruct (Z.ltb_spec 971 (e + Z.of_N s - 53 + 1)); [lia|]. f_equal. lia.
    + destruct (Z.ltb_spec 971 (e + Z.of_N s - 53)); [lia|]. reflexivity.
  - destruct (N.eqb_spec q 9007199254740992).
    + destruct (Z.ltb_spec 971 (e + Z.of_N s - 53 + 1)); [lia|]. f_equal. lia.
    + destruct (Z.ltb_spec 971 (e + Z.of_N s - 53)); [lia|]. reflexivity.
Qed.

Lemma size_of_range : forall M k, 0 < k -> 2 ^ (k - 1) <= M -> M < 2 ^ k -> N.size M = k.
Proof.
  intros M k Hk Hlo Hhi. assert (HM : M <> 0).
  { intros ->. assert (0 < 2 ^ (k - 1)) by (apply N.neq_0_lt_0, N.pow_nonzero; discriminate). lia. }
  rewrite N.size_log2 by exact HM. rewrite (N.log2_unique M (k - 1)); [lia|lia|].
  split; [exact Hlo|]. replace (N.succ (k - 1)) with k by lia. exact Hhi.
Qed.

Definition P52 : N := 4503599627370496.
Definition P53 : N := 9007199254740992.
Definition sq (m : N) : f64w := fmul (Fin m (-53)) (Fin m (-53)).

Lemma rnd_range : forall s M, 53 < s -> 2 ^ (s - 1) <= M -> M < 2 ^ s -> P52 <= rnd (s - 53) M <= P53.
Proof.
  intros s M Hs Hlo Hhi. unfold rnd.
  destruct (split_bits M (s - 53)) as [E R].
  set (q := N.shiftr M (s - 53)) in *. set (r := N.land M (N.shiftl 1 (s - 53) - 1)) in *.
  assert (Hp : 2 ^ s = 2 ^ (s - 53) * P53).
  { unfold P53. change 9007199254740992 with (2 ^ 53). rewrite <- N.pow_add_r. f_equal. lia. }
  assert (Hp' : 2 ^ (s - 1) = 2 ^ (s - 53) * P52).
  { unfold P52. change 4503599627370496 with (2 ^ 52). rewrite <- N.pow_add_r. f_equal. lia. }
  assert (0 < 2 ^ (s - 53)) by (apply N.neq_0_lt_0, N.pow_nonzero; discriminate).
  assert (P52 <= q < P53) by nia.
  destruct (_ || _); lia.
Qed.

(** the square of a value in [1/2, 1) *)
Lemma sq_small : forall m, P52 <= m -> m * m < 2 ^ 105 ->
  sq m = let q := rnd 52 (m * m) in if q =? P53 then Fin P52 (-53) else Fin q (-54).
Proof.
  intros m Hm Hs. unfold sq, fmul. change (-53 + -53)%Z with (-106)%Z.
  assert (Hlo : 2 ^ 104 <= m * m). { change (2 ^ 104) with (P52 * P52). nia. }
  rewrite (fround_big (m * m) (-106) 105); [reflexivity|apply size_of_range; [lia|exact Hlo|exact Hs]|lia|unfold emin; lia|lia].
Qed.

Lemma sq_big : forall m, m < P53 -> 2 ^ 105 <= m * m ->
  sq m = let q := rnd 53 (m * m) in if q =? P53 then Fin P52 (-52) else Fin q (-53).
Proof.
  intros m Hm Hs. unfold sq, fmul. change (-53 + -53)%Z with (-106)%Z.
  assert (Hhi : m * m < 2 ^ 106). { change (2 ^ 106) with (P53 * P53). nia. }
  rewrite (fround_big (m * m) (-106) 106); [reflexivity|apply size_of_range; [lia|exact Hs|exact Hhi]|lia|unfold emin; lia|lia].
Qed.

Lemma rnd_top : forall m, m < P53 -> rnd 53 (m * m) <= P53 - 2.
Proof.
  intros m Hm. eapply N.le_trans; [apply (rnd_mono 53 (m * m) ((P53 - 1) * (P53 - 1))); nia|].
  vm_compute. discriminate.
Qed.

(** value * 2^54 of the results of [sq] *)
Definition v54 (z : f64w) : N :=
  match z with Fin m e => m * 2 ^ Z.to_N (e + 54) | _ => 0 end.

Lemma sq_v54 : forall m, P52 <= m -> m < P53 ->
  (m * m < 2 ^ 105 /\ v54 (sq m) = rnd 52 (m * m) /\ fgt (sq m) g_half = false) \/
  (2 ^ 105 <= m * m /\ v54 (sq m) = 2 * rnd 53 (m * m) /\
   sq m = Fin (rnd 53 (m * m)) (-53) /\ fgt (sq m) g_half = (P52 <? rnd 53 (m * m))).
Proof.
  intros m Hlo Hhi. destruct (N.lt_ge_cases (m * m) (2 ^ 105)) as [Hs|Hs].
  - left. split; [exact Hs|]. rewrite (sq_small m Hlo Hs). cbv zeta.
    assert (Hr : P52 <= rnd 52 (m * m) <= P53).
    { apply (rnd_range 105 (m * m)); [lia| |exact Hs]. change (2 ^ (105 - 1)) with (P52 * P52). nia. }
    destruct (N.eqb_spec (rnd 52 (m * m)) P53) as [E|NE].
    + rewrite E. split; reflexivity.
    + split; [cbn [v54]; change (Z.to_N (-54 + 54)) with 0; lia|].
      unfold fgt, g_half, falign. change (Z.min (-54) (-53)) with (-54)%Z.
      change (Z.to_N (-54 - -54)) with 0. change (Z.to_N (-53 - -54)) with 1.
      rewrite N.shiftl_0_r. change (N.shiftl 4503599627370496 1) with P53. apply N.ltb_ge. lia.
  - right. split; [exact Hs|]. rewrite (sq_big m Hhi Hs). cbv zeta.
    pose proof (rnd_top m Hhi) as Ht.
    destruct (N.eqb_spec (rnd 53 (m * m)) P53) as [E|NE]; [unfold P53 in *; lia|].
    split; [cbn [v54]; change (Z.to_N (-53 + 54)) with 1; lia|]. split; [reflexivity|].
    unfold fgt, g_half, falign. change (Z.min (-53) (-53)) with (-53)%Z. change (Z.to_N (-53 - -53)) with 0.
    rewrite !N.shiftl_0_r. reflexivity.
Qed.

Lemma sq_v54_mono : forall a b, P52 <= a -> a <= b -> b < P53 -> v54 (sq a) <= v54 (sq b).
Proof.
  intros a b Ha Hab Hb.
  destruct (sq_v54 a Ha ltac:(lia)) as [(Sa & Va & _)|(Sa & Va & _)];
  destruct (sq_v54 b ltac:(lia) Hb) as [(Sb & Vb & _)|(Sb & Vb & _)]; rewrite Va, Vb.
  - apply rnd_mono. nia.
  - assert (rnd 52 (a * a) <= P53).
    { apply (rnd_range 105 (a * a)); [lia| |exact Sa]. change (2 ^ (105 - 1)) with (P52 * P52). nia. }
    assert (P52 <= rnd 53 (b * b)).
    { apply (rnd_range 106 (b * b)); [lia|exact Sb|]. change (2 ^ 106) with (P53 * P53). nia. }
    unfold P52, P53 in *. lia.
  - nia.
  - assert (rnd 53 (a * a) <= rnd 53 (b * b)) by (apply rnd_mono; nia). lia.
Qed.

(** the loop of [Geometric::new] is monotone: if it ends from the square of a larger value it ends from the square of
    a smaller one, within the same fuel *)
Lemma new_loop_mono : forall f a b k, P52 <= a -> a <= b -> b < P53 ->
  new_loop f (sq b) k <> None -> new_loop f (sq a) k <> None.
Proof.
  induction f as [|f IH]; intros a b k Ha Hab Hb H; [exact H|]. cbn [new_loop] in *.
  pose proof (sq_v54_mono a b Ha Hab Hb) as Hv.
  destruct (sq_v54 a Ha ltac:(lia)) as [(Sa & Va & Ga)|(Sa & Va & Ea & Ga)]; rewrite Ga; [discriminate|].
  destruct (N.ltb_spec P52 (rnd 53 (a * a))) as [Hra|_]; [|discriminate].
  destruct (sq_v54 b ltac:(lia) Hb) as [(Sb & Vb & Gb)|(Sb & Vb & Eb & Gb)].
  - exfalso. rewrite Va, Vb in Hv.
    assert (rnd 52 (b * b) <= P53).
    { apply (rnd_range 105 (b * b)); [lia| |exact Sb]. change (2 ^ (105 - 1)) with (P52 * P52). nia. }
    unfold P52, P53 in *. lia.
  - rewrite Va, Vb in Hv. rewrite Gb in H.
    destruct (N.ltb_spec P52 (rnd 53 (b * b))) as [Hrb|Hrb]; [|lia].
    rewrite Ea. rewrite Eb in H. fold (sq (rnd 53 (a * a))). fold (sq (rnd 53 (b * b))) in H.
    apply (IH _ (rnd 53 (b * b))); [lia|lia| |exact H].
    pose proof (rnd_top b Hb). unfold P53 in *. lia.
Qed.

Lemma new_loop_top : new_loop new_fuel (sq (P53 - 1)) 1 <> None.
Proof. vm_compute. discriminate. Qed.

(** every q = 1 - p in [1/2, 1): the loop ends within the model's fuel *)
Lemma new_loop_total_half : forall m, P52 <= m -> m < P53 -> new_loop new_fuel (sq m) 1 <> None.
Proof.
  intros m Hlo Hhi. apply (new_loop_mono new_fuel m (P53 - 1) 1 Hlo); [unfold P53 in *; lia|unfold P53; lia|].
  exact new_loop_top.
Qed.

Lemma fgt_small : forall q e, q <= P53 -> (e <= -54)%Z -> fgt (Fin q e) g_half = false.
Proof.
  intros q e Hq He. unfold fgt, g_half, falign. rewrite Z.min_l by lia.
  replace (Z.to_N (e - e)) with 0 by lia. rewrite N.shiftl_0_r. apply N.ltb_ge.
  rewrite N.shiftl_mul_pow2.
  assert (2 ^ 1 <= 2 ^ Z.to_N (-53 - e)) by (apply N.pow_le_mono_r; lia).
  change (2 ^ 1) with 2 in *. unfold P53 in *. nia.
Qed.

Lemma size_bounds : forall X, X <> 0 -> 2 ^ (N.size X - 1) <= X < 2 ^ N.size X.
Proof.
  intros X HX. rewrite N.size_log2 by exact HX. replace (N.succ (N.log2 X) - 1) with (N.log2 X) by lia.
  apply N.log2_spec. lia.
Qed.

(** the form of 1.0 - p for a p below 2/3 given with an exponent <= -53 (every canonical binary64 value below 1):
    1.0 itself, or a normal value in [1/4, 1) *)
Lemma one_minus_form : forall mp ep, (emin <= ep)%Z -> (ep <= -53)%Z -> mp <> 0 ->
  fgt (Fin mp ep) g_one = false -> fle two_thirds (Fin mp ep) = false ->
  exists m e, gsub g_one (Fin mp ep) = Fin m e /\
    ((m = P52 /\ e = (-52)%Z) \/ (P52 <= m < P53 /\ (e = (-53)%Z \/ e = (-54)%Z))).
Proof.
  intros mp ep Hemin Hep Hmp Hg1 Ht.
  set (n := Z.to_N (- ep)). assert (Hn : 53 <= n) by lia.
  assert (Ha1 : N.shiftl 4503599627370496 (Z.to_N (-52 - ep)) = 2 ^ n).
  { rewrite N.shiftl_mul_pow2. change 4503599627370496 with (2 ^ 52). rewrite <- N.pow_add_r. f_equal. lia. }
  (* p <= 1 *)
  assert (Hle : mp <= 2 ^ n).
  { unfold fgt, g_one, falign in Hg1. rewrite Z.min_l in Hg1 by lia.
    replace (Z.to_N (ep - ep)) with 0 in Hg1 by lia. rewrite N.shiftl_0_r, Ha1 in Hg1. apply N.ltb_ge in Hg1. exact Hg1. }
  (* p < 2/3 *)
  assert (H3 : 3 * mp < 2 * 2 ^ n).
  { unfold fle, two_thirds, falign in Ht. rewrite Z.min_r in Ht by lia.
    replace (Z.to_N (ep - ep)) with 0 in Ht by lia. rewrite N.shiftl_0_r in Ht. apply N.leb_gt in Ht.
    rewrite N.shiftl_mul_pow2 in Ht.
    assert (E : 2 ^ n = 2 ^ 53 * 2 ^ Z.to_N (-53 - ep)) by (rewrite <- N.pow_add_r; f_equal; lia).
    rewrite E. change (2 ^ 53) with 9007199254740992. nia. }
  unfold gsub, g_one, falign. rewrite Z.min_r by lia.
  replace (Z.to_N (ep - ep)) with 0 by lia. rewrite N.shiftl_0_r, Ha1.
  destruct (N.leb_spec mp (2 ^ n)) as [_|]; [|lia].
  set (X := 2 ^ n - mp).
  assert (HXlo : 2 ^ n < 3 * X) by (unfold X; lia).
  assert (HXhi : X < 2 ^ n) by (unfold X; lia).
  assert (HX0 : X <> 0) by lia.
  destruct (size_bounds X HX0) as [Slo Shi]. set (s := N.size X) in *.
  assert (Hs : s = n \/ s = n - 1).
  { assert (s <= n).
    { destruct (N.le_gt_cases s n) as [|G]; [assumption|]. exfalso.
      assert (2 ^ n <= 2 ^ (s - 1)) by (apply N.pow_le_mono_r; lia). lia. }
    assert (n - 1 <= s).
    { destruct (N.le_gt_cases (n - 1) s) as [|G]; [assumption|]. exfalso.
      assert (2 ^ s <= 2 ^ (n - 2)) by (apply N.pow_le_mono_r; lia).
      assert (2 ^ n = 4 * 2 ^ (n - 2)) by (change 4 with (2 ^ 2); rewrite <- N.pow_add_r; f_equal; lia). lia. }
    lia. }
  destruct (N.le_gt_cases s 53) as [Hs53|Hs53].
  - (* exact *)
    unfold fround. destruct (N.eqb_spec X 0) as [|_]; [contradiction|]. fold s.
    rewrite (Z.max_l _ emin) by (unfold emin in *; lia).
    destruct (Z.leb_spec (ep + Z.of_N s - 53) ep) as [_|]; [|lia].
    destruct (Z.ltb_spec 971 (ep + Z.of_N s - 53)) as [|_]; [lia|].
    eexists _, _. split; [reflexivity|]. right. split; [|lia].
    rewrite N.shiftl_mul_pow2. replace (Z.to_N (ep - (ep + Z.of_N s - 53))) with (53 - s) by lia.
    assert (E1 : 2 ^ (s - 1) * 2 ^ (53 - s) = P52).
    { rewrite <- N.pow_add_r. replace (s - 1 + (53 - s)) with 52 by lia. reflexivity. }
    assert (E2 : 2 ^ s * 2 ^ (53 - s) = P53).
    { rewrite <- N.pow_add_r. replace (s + (53 - s)) with 53 by lia. reflexivity. }
    assert (0 < 2 ^ (53 - s)) by (apply N.neq_0_lt_0, N.pow_nonzero; discriminate). nia.
  - (* rounded *)
    rewrite (fround_big X ep s eq_refl Hs53); [|unfold emin in *; lia|lia]. cbv zeta.
    pose proof (rnd_range s X Hs53 Slo Shi) as Hr.
    destruct (N.eqb_spec (rnd (s - 53) X) 9007199254740992) as [E|NE].
    + eexists _, _. split; [reflexivity|]. destruct Hs as [->| ->].
      * left. split; [reflexivity|lia].
      * right. split; [unfold P52, P53; lia|lia].
    + eexists _, _. split; [reflexivity|]. right. split; [unfold P53 in *; lia|lia].
Qed.

(** [Geometric::new] in the model never runs out of its 64 squarings: for every p given with an exponent <= -53 (every
    canonical binary64 value below 1) the outcome is Ok, Err or the real divergence *)
Theorem geo_new_never_fuel_l : forall mp ep, (emin <= ep)%Z -> (ep <= -53)%Z -> geo_new (Fin mp ep) <> GNFuel.
Proof.
  intros mp ep Hemin Hep. unfold geo_new.
  destruct (fgt (Fin mp ep) g_one) eqn:Hg1; [discriminate|].
  destruct (N.eqb_spec mp 0) as [|Hmp]; [discriminate|]. cbn [orb].
  destruct (fle two_thirds (Fin mp ep)) eqn:Ht; [discriminate|].
  destruct (one_minus_form mp ep Hemin Hep Hmp Hg1 Ht) as (m & e & Eq & Hform). rewrite Eq.
  destruct Hform as [[-> ->]|[Hm [->| ->]]].
  - change (is_one (Fin P52 (-52))) with true. discriminate.
  - destruct (is_one (Fin m (-53))); [discriminate|].
    fold (sq m). pose proof (new_loop_total_half m ltac:(lia) ltac:(lia)) as Hn.
    destruct (new_loop new_fuel (sq m) 1) as [[pi k]|]; [discriminate|contradiction].
  - destruct (is_one (Fin m (-54))); [discriminate|].
    assert (Hsq : fgt (fmul (Fin m (-54)) (Fin m (-54))) g_half = false).
    { unfold fmul. change (-54 + -54)%Z with (-108)%Z.
      assert (Hlo : 2 ^ 104 <= m * m) by (change (2 ^ 104) with (P52 * P52); nia).
      assert (Hhi : m * m < 2 ^ 106) by (change (2 ^ 106) with (P53 * P53); nia).
      destruct (size_bounds (m * m) ltac:(nia)) as [Slo Shi]. set (s := N.size (m * m)) in *.
      assert (Hs : 105 <= s <= 106).
      { split.
        - destruct (N.le_gt_cases 105 s) as [|G]; [assumption|]. exfalso.
          assert (2 ^ s <= 2 ^ 104) by (apply N.pow_le_mono_r; lia). lia.
        - destruct (N.le_gt_cases s 106) as [|G]; [assumption|]. exfalso.
          assert (2 ^ 106 <= 2 ^ (s - 1)) by (apply N.pow_le_mono_r; lia). lia. }
      rewrite (fround_big (m * m) (-108) s eq_refl ltac:(lia)); [|unfold emin; lia|lia]. cbv zeta.
      pose proof (rnd_range s (m * m) ltac:(lia) Slo Shi) as Hr.
      destruct (_ =? _); apply fgt_small; unfold P52, P53 in *; lia. }
    assert (Hstep : forall f pi k, new_loop (S f) pi k =
                                   if fgt pi g_half then new_loop f (fmul pi pi) (k + 1) else Some (pi, k)) by reflexivity.
    change new_fuel with (S 63). rewrite Hstep, Hsq. discriminate.
Qed.

(** C07, file level: proofs.  What a jsonl file yields, that [len()] is honest, that written items are read
    back, the combined generator over files, the executable check. *)
From TU Require Import RNG_Model RNG_Proofs.
From TU Require Import Base C01_Model C01_Proofs Lines_Model Lines_Proofs JSON_Model JSON_Proofs JSON_Roundtrip JSON_Items.
From TU Require Import C07_Model C07_Proofs C07_Specs C07_Top C07_Seeded C07_Files.
Require Import Lia.
Close Scope N_scope.

(** * one file *)
Lemma file_items_len : forall b, length (items_of_file b) = file_len b.
Proof. intros b. unfold items_of_file, file_len. rewrite map_length. apply lines_count. Qed.

Lemma file_items_len_closed : forall b, length (items_of_file b) = count_lines_spec b.
Proof. intros b. rewrite file_items_len. apply count_lines_closed. Qed.

Lemma files_lens : forall fs, map (@length fitem) (map items_of_file fs) = map file_len fs.
Proof. intros fs. rewrite map_map. apply map_ext. apply file_items_len. Qed.

Lemma files_total_len : forall fs, total_len (map items_of_file fs) = sum_nat (map file_len fs).
Proof. intros fs. unfold total_len. rewrite files_lens. reflexivity. Qed.

(** * written files *)
Definition item_ok (it : (str * option str) * bool) : Prop :=
  scalars (fst (fst it)) = true /\ match snd (fst it) with Some t => scalars t = true | None => True end.

Lemma esc_char_scalars : forall c, scalar c = true -> scalars (esc_char c) = true.
Proof.
  intros c H. unfold esc_char.
  destruct (N.eqb c 34); [reflexivity|]. destruct (N.eqb c 92); [reflexivity|]. destruct (N.eqb c 8); [reflexivity|].
  destruct (N.eqb c 9); [reflexivity|]. destruct (N.eqb c 10); [reflexivity|]. destruct (N.eqb c 12); [reflexivity|].
  destruct (N.eqb c 13); [reflexivity|]. destruct (N.ltb c 32) eqn:E.
  - unfold scalars. cbn [forallb]. unfold hex_digit.
    assert (S1 : forall n, (n < 16)%N -> scalar (if N.ltb n 10 then (48 + n)%N else (87 + n)%N) = true).
    { intros n Hn. unfold scalar. destruct (N.ltb n 10) eqn:A; apply orb_true_iff; left; apply N.ltb_lt.
      - apply N.ltb_lt in A. lia.
      - lia. }
    apply N.ltb_lt in E. nn.
    rewrite (S1 (c / 16)%N) by (apply N.div_lt_upper_bound; lia).
    rewrite (S1 (c mod 16)%N) by (apply N.mod_lt; lia). reflexivity.
  - unfold scalars. cbn [forallb]. rewrite H. reflexivity.
Qed.

Lemma json_string_scalars : forall s, scalars s = true -> scalars (json_string s) = true.
Proof.
  intros s H. unfold json_string. change (34%N :: flat_map esc_char s ++ [34%N]) with ([34%N] ++ flat_map esc_char s ++ [34%N]).
  rewrite !scalars_app. cbn [scalars forallb]. change (scalar 34) with true. cbn [andb]. rewrite andb_true_r.
  induction s as [|c s IH]; [reflexivity|]. unfold scalars in H. cbn [forallb] in H. apply andb_true_iff in H as [Hc Hs].
  cbn [flat_map]. rewrite scalars_app, esc_char_scalars by exact Hc. apply IH. exact Hs.
Qed.

Lemma line_of_scalars : forall i t, scalars i = true -> match t with Some x => scalars x = true | None => True end ->
  scalars (line_of i t) = true.
Proof.
  intros i t Hi Ht. rewrite line_of_flat. destruct t as [t|]; rewrite !scalars_app, !json_string_scalars; auto.
Qed.

Lemma no_eol_no_nl : forall s, no_eol s = true -> no_nl s = true /\ not_cr_end s = true.
Proof.
  intros s H. unfold no_eol in H. rewrite forallb_forall in H. split.
  - unfold no_nl. apply forallb_forall. intros x Hx. specialize (H x Hx). apply andb_true_iff in H. tauto.
  - unfold not_cr_end. destruct s as [|c s]; [reflexivity|].
    specialize (H _ (last_In c s 0%N)). apply andb_true_iff in H. tauto.
Qed.

Lemma jsonl_line_ok : forall it, item_ok it -> line_ok (jsonl_line it).
Proof.
  intros [[i t] crlf] [Hi Ht]. cbn [fst snd] in *. unfold jsonl_line, line_ok. cbn [fst snd].
  destruct (no_eol_no_nl _ (line_of_no_eol i t)) as [N1 N2].
  split; [apply line_of_scalars; assumption|]. split; [exact N1|]. right. exact N2.
Qed.

Lemma jsonl_lines : forall items rest, Forall item_ok items ->
  items_of_file (jsonl_file items ++ rest) = map item_written items ++ items_of_file rest.
Proof.
  intros items rest H. unfold items_of_file, jsonl_file. rewrite lines_written.
  2:{ apply Forall_map. eapply Forall_impl; [|exact H]. apply jsonl_line_ok. }
  rewrite map_app. f_equal. rewrite !map_map. apply map_ext_in. intros [[i t] crlf] _.
  unfold jsonl_line, item_written. cbn [fst snd]. rewrite item_roundtrip_l. reflexivity.
Qed.

(** every item written as a serde_json line, with '\n' or '\r\n' after each line, is read back *)
Lemma jsonl_roundtrip_l : forall items, Forall item_ok items ->
  items_of_file (jsonl_file items) = map item_written items /\ file_len (jsonl_file items) = length items.
Proof.
  intros items H. assert (E : items_of_file (jsonl_file items) = map item_written items).
  { rewrite <- (app_nil_r (jsonl_file items)). rewrite jsonl_lines by exact H. apply app_nil_r. }
  split; [exact E|]. rewrite <- file_items_len, E. apply map_length.
Qed.

(** ... also when the last line has no terminator *)
Lemma jsonl_roundtrip_open_l : forall items i t, Forall item_ok items -> item_ok ((i, t), false) ->
  items_of_file (jsonl_file items ++ utf8s (line_of i t)) = map item_written items ++ [item_written ((i, t), false)].
Proof.
  intros items i t H [Hi Ht]. cbn [fst snd] in *. rewrite jsonl_lines by exact H. f_equal.
  unfold items_of_file. pose proof (lines_roundtrip_open_l [] (line_of i t) (Forall_nil _)) as R.
  cbn [file_of flat_map app map] in R. rewrite R.
  - cbn [map]. rewrite item_roundtrip_l. reflexivity.
  - rewrite line_of_flat. discriminate.
  - apply line_of_scalars; assumption.
  - apply no_eol_no_nl. apply line_of_no_eol.
Qed.

(** * the pinned reader *)
Lemma items_pinned_terminated : forall b, (b = [] \/ last b 0%N = 10%N) -> items_of_file_pinned b = items_of_file b.
Proof. intros b H. unfold items_of_file_pinned, items_of_file. rewrite lines_pinned_terminated by exact H. reflexivity. Qed.

(** * the combined generator over files *)
Lemma nth_items : forall fs j, nth j (map items_of_file fs) [] = items_of_file (nth j fs []).
Proof. intros fs j. change (@nil fitem) with (items_of_file []). apply map_nth. Qed.

Lemma files_items_l : forall s o fs out, fs <> [] -> run_files s o fs = Ok out ->
  (forall j, proj j out = items_of_file (nth j fs [])) /\ length out = sum_nat (map file_len fs) /\
  Forall (fun p => fst p < length fs) out.
Proof.
  intros s o fs out Hne H. unfold run_files in H.
  assert (Hne' : map items_of_file fs <> []) by (destruct fs; [congruence|discriminate]).
  destruct (gen_items_l _ _ _ _ Hne' H) as (I1 & I2 & I3). repeat split.
  - intros j. rewrite I1. apply nth_items.
  - rewrite I2. apply files_total_len.
  - rewrite map_length in I3. exact I3.
Qed.

Lemma empty_file_iff : forall fs, existsb is_nil (map items_of_file fs) = existsb (fun b => Nat.eqb (file_len b) 0) fs.
Proof.
  induction fs as [|b fs IH]; [reflexivity|]. cbn [map existsb]. rewrite IH. f_equal.
  rewrite <- file_items_len. destruct (items_of_file b); reflexivity.
Qed.

Lemma files_total_l : forall s o fs, fs <> [] -> oracle_guard o ->
  is_weighted s && existsb (fun b => Nat.eqb (file_len b) 0) fs = false ->
  exists out, run_files s o fs = Ok out.
Proof.
  intros s o fs Hne Hg Hc. unfold run_files. apply gen_total_l; auto.
  - destruct fs; [congruence|discriminate].
  - rewrite empty_file_iff. exact Hc.
Qed.

Lemma files_sequential_l : forall o fs, fs <> [] -> run_files Sequential o fs = Ok (seq_spec (map items_of_file fs)).
Proof. intros o fs Hne. unfold run_files. apply sequential_spec_l. destruct fs; [congruence|discriminate]. Qed.

Lemma files_interleaved_l : forall o fs, fs <> [] -> run_files Interleaved o fs = Ok (rr (map items_of_file fs)).
Proof. intros o fs Hne. unfold run_files. apply interleaved_spec_l. destruct fs; [congruence|discriminate]. Qed.

Lemma files_seeded_oracle_l : forall seed fs r, (N.of_nat (sum_nat (map file_len fs)) < RNG_Model.p64)%N ->
  run_files_seeded seed fs = Some r -> exists o, oracle_guard o /\ run_files Weighted o fs = r.
Proof.
  intros seed fs r Hsum H. unfold run_files_seeded in H. unfold run_files.
  apply (seeded_oracle_l seed); [rewrite files_total_len; exact Hsum|exact H].
Qed.

(** * the executable check *)
Lemma err_eqb_eq : forall a b, err_eqb a b = true <-> a = b.
Proof. intros [] []; cbn; split; intros H; try reflexivity; try discriminate. Qed.

Lemma nlist_eqb_iff : forall a b : list N, nlist_eqb a b = true <-> a = b.
Proof. apply str_eqb_eq. Qed.

Lemma fitem_eqb_eq : forall a b, fitem_eqb a b = true <-> a = b.
Proof.
  intros [e|i t] [e'|i' t']; cbn [fitem_eqb].
  - rewrite err_eqb_eq. split; [intros ->; reflexivity|intros H; injection H; auto].
  - split; discriminate.
  - split; discriminate.
  - rewrite andb_true_iff, !nlist_eqb_iff. split; [intros [-> ->]; reflexivity|intros H; injection H; auto].
Qed.

Lemma fout_eqb_eq : forall a b : list (nat * fitem), out_eqb fitem_eqb a b = true <-> a = b.
Proof.
  induction a as [|[i x] a IH]; destruct b as [|[j y] b]; cbn [out_eqb]; try (split; [discriminate|congruence]).
  - split; reflexivity.
  - rewrite !andb_true_iff, Nat.eqb_eq, fitem_eqb_eq, IH. split.
    + intros [[-> ->] ->]. reflexivity.
    + intros H. injection H as -> -> ->. auto.
Qed.

Lemma v_str_str_v : forall s, C07_Files.v_str (C07_Files.str_v s) = s.
Proof.
  intros s. unfold C07_Files.v_str, C07_Files.str_v, v_list, list_v. rewrite map_map. rewrite <- (map_id s) at 2.
  apply map_ext. intros x. unfold v_n, n_v. cbn [v_z]. apply N2Z.id.
Qed.

Lemma v_fitem_fitem_v : forall x, v_fitem (fitem_v x) = x.
Proof.
  intros [e|i t]; unfold v_fitem, fitem_v; cbn [v_nth nth v_z Z.eqb].
  - destruct e; reflexivity.
  - rewrite !v_str_str_v. reflexivity.
Qed.

Lemma v_fout_fout_v : forall p, v_fout (fout_v p) = p.
Proof.
  intros [j x]. unfold v_fout, fout_v. cbn [fst snd v_nth nth]. rewrite v_fitem_fitem_v.
  unfold v_nat, nat_v. cbn [v_z]. rewrite Nat2Z.id. reflexivity.
Qed.

Lemma v_list_fout : forall out, v_list v_fout (list_v fout_v out) = out.
Proof.
  intros. unfold v_list, list_v. rewrite map_map. rewrite <- (map_id out) at 2. apply map_ext. apply v_fout_fout_v.
Qed.

Lemma f_strategy_cases : forall v, f_strategy v = Sequential \/ f_strategy v = Interleaved \/ f_strategy v = Weighted.
Proof. intros v. destruct (f_strategy v); auto. Qed.

(** the check holds of the model's own output on every file case (weighted: when the line counts sum to less than
    2^64 and the sampler's rejection loop does not run out of its fuel) *)
Lemma check_file_run_l : forall v, v_files v <> [] ->
  (f_strategy v = Weighted ->
   (N.of_nat (sum_nat (map file_len (v_files v))) < RNG_Model.p64)%N
   /\ run_files_seeded (v_n (v_nth 1 v)) (v_files v) <> None) ->
  check_file_case v (run_file_case v) = true.
Proof.
  intros v Hne Hw. unfold check_file_case, run_file_case.
  set (files := v_files v) in *. set (srcs := map items_of_file files).
  assert (Hne' : srcs <> []) by (unfold srcs; destruct files; [congruence|discriminate]).
  assert (Hlen : Nat.eqb (v_nat (nat_v (sum_nat (map file_len files)))) (total_len srcs) = true).
  { unfold v_nat, nat_v. cbn [v_z]. rewrite Nat2Z.id. unfold srcs. rewrite files_total_len. apply Nat.eqb_refl. }
  destruct (f_strategy v) eqn:Es.
  - unfold run_files. fold srcs. rewrite (sequential_spec_l (v_oracle v) srcs Hne').
    cbn [fres_v shape_ctor_err shape_ok v_nth nth]. rewrite v_list_fout, Hlen.
    assert (Hti : is_ti fitem_eqb srcs (seq_spec srcs) = true).
    { apply (is_ti_TI fitem_eqb fitem_eqb_eq). eapply gen_ti_l; [exact Hne'|]. apply (sequential_spec_l (v_oracle v)). exact Hne'. }
    rewrite Hti. cbn [v_bool v_z Z.eqb negb andb]. apply fout_eqb_eq. reflexivity.
  - unfold run_files. fold srcs. rewrite (interleaved_spec_l (v_oracle v) srcs Hne').
    cbn [fres_v shape_ctor_err shape_ok v_nth nth]. rewrite v_list_fout, Hlen.
    assert (Hti : is_ti fitem_eqb srcs (rr srcs) = true).
    { apply (is_ti_TI fitem_eqb fitem_eqb_eq). eapply gen_ti_l; [exact Hne'|]. apply (interleaved_spec_l (v_oracle v)). exact Hne'. }
    rewrite Hti. cbn [v_bool v_z Z.eqb negb andb]. apply fout_eqb_eq. reflexivity.
  - destruct (Hw eq_refl) as [Hsum Hsome]. unfold run_files_seeded in *. fold srcs in Hsome |- *.
    destruct (run_gen_seeded (v_n (v_nth 1 v)) srcs) as [r|] eqn:Er; [|congruence].
    assert (Hsum' : (N.of_nat (total_len srcs) < RNG_Model.p64)%N) by (unfold srcs; rewrite files_total_len; exact Hsum).
    destruct (existsb is_nil srcs) eqn:Hnil.
    + rewrite gen_ctor_seeded_l in Er by exact Hnil. injection Er as <-. cbn [fres_v shape_ctor_err is_weighted andb]. reflexivity.
    + destruct (gen_total_seeded_l _ _ _ Hne' Hnil Hsum' Er) as [out ->].
      destruct (gen_items_seeded_l _ _ _ Hne' Hsum' Er) as (I1 & I2 & I3 & I4).
      cbn [fres_v shape_ctor_err shape_ok v_nth nth]. rewrite v_list_fout, Hlen.
      assert (Hti : is_ti fitem_eqb srcs out = true).
      { apply (is_ti_TI fitem_eqb fitem_eqb_eq). apply spec_TI; assumption. }
      rewrite Hti. reflexivity.
Qed.

(** what a passing check says about an implementation output of a file case *)
Lemma check_file_sound_l : forall v out, check_file_case v out = true -> shape_ctor_err out = false ->
  let files := v_files v in
  let items := v_list v_fout (v_nth 1 out) in
  (forall j, proj j items = items_of_file (nth j files [])) /\ length items = sum_nat (map file_len files) /\
  v_nat (v_nth 3 out) = sum_nat (map file_len files) /\
  Forall (fun p => fst p < length files) items /\
  (f_strategy v = Sequential -> items = seq_spec (map items_of_file files)) /\
  (f_strategy v = Interleaved -> items = rr (map items_of_file files)).
Proof.
  intros v out H Hs. unfold check_file_case in H. rewrite Hs in H. cbn zeta.
  rewrite !andb_true_iff in H. destruct H as [[[[_ Hti] _] Hl] Hspec].
  apply (is_ti_TI fitem_eqb fitem_eqb_eq) in Hti. apply TI_spec in Hti. destruct Hti as (Hp & Hn & Hf).
  apply Nat.eqb_eq in Hl. rewrite files_total_len in *. rewrite map_length in Hf. repeat split; auto.
  - intros j. rewrite Hp. apply nth_items.
  - intros E. rewrite E in Hspec. apply fout_eqb_eq. exact Hspec.
  - intros E. rewrite E in Hspec. apply fout_eqb_eq. exact Hspec.
Qed.

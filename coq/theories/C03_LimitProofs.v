From TU Require Import Base BPE_Model C03_Model C02_Check MsgPack_Model C02_File C02_FileProofs C03_File C03_FileProofs C03_Limit.
From Coq Require Import ZArith List.
Import ListNotations.

Lemma eff_text v : v_str (v_nth 1 (eff_input v)) = v_str (v_nth 1 v).
Proof. unfold eff_input. destruct (keep_of v); reflexivity. Qed.

Lemma eff_table v k : keep_of v = Some k -> v_table (v_nth 0 (eff_input v)) = firstn k (v_table (v_nth 0 v)).
Proof. intros H. unfold eff_input. rewrite H. cbn [v_nth nth]. apply v_table_rt. Qed.

Lemma eff_none v : keep_of v = None -> eff_input v = v.
Proof. intros H. unfold eff_input. rewrite H. reflexivity. Qed.

(** the executable statement (with limit) holds of the model's own output *)
Theorem check_run_C03l_l v : Forall valid_cp (v_str (v_nth 1 v)) -> check_C03l v (run_C03l v) = true.
Proof.
  intros H. unfold check_C03l, run_C03l. apply check_run_C03f_l. rewrite eff_text. exact H.
Qed.

(** and a [true] on an implementation output means: its ids are the canonical ids for the first [k] merges of the table *)
Theorem check_C03l_sound v out k : keep_of v = Some k -> check_C03l v out = true ->
  strip_file3 out = L [list_v n_v (canon_text (firstn k (v_table (v_nth 0 v))) (v_str (v_nth 1 v)))].
Proof.
  intros Hk H. unfold check_C03l, check_C03f in H.
  apply check_C03_sound_l in H. rewrite (eff_table v k Hk), eff_text in H. exact H.
Qed.

Theorem check_C03l_nolimit v out : keep_of v = None -> check_C03l v out = check_C03f v out.
Proof. intros H. unfold check_C03l. rewrite (eff_none v H). reflexivity. Qed.

From TU Require Import Base C10_Model C10_Proofs C14_Model.
From TU Require C11_Model C11_Proofs C11_Link.
From Coq Require Import Lia.
Open Scope Z_scope.

Module M11 := C11_Model.
Module P11 := C11_Proofs.

(** * 0. the target is untouched *)
Lemma apply_input_target {A} (f : A -> A) item : snd (apply_input f item) = snd item.
Proof. reflexivity. Qed.

(** * 1. one unfolding step, totality *)
Definition piece (ti td : Z) (prev_ws first : bool) (c : cluster) (k : Z) : list cluster :=
  if cl_ws c then (if k <? td then [] else [c])
  else if (k <? ti) && negb first && negb prev_ws then [[32%N]; c] else [c].

Lemma corrupt_aux_cons ti td prev first c r k ks :
  corrupt_aux ti td prev first (c :: r) (k :: ks) =
  option_map (app (piece ti td prev first c k)) (corrupt_aux ti td (cl_ws c) false r ks).
Proof. reflexivity. Qed.

Lemma corrupt_aux_inv ti td prev first c r ks out :
  corrupt_aux ti td prev first (c :: r) ks = Some out ->
  exists k ks' rest, ks = k :: ks' /\ corrupt_aux ti td (cl_ws c) false r ks' = Some rest
                     /\ out = piece ti td prev first c k ++ rest.
Proof.
  destruct ks as [|k ks']; [discriminate|]. rewrite corrupt_aux_cons.
  destruct (corrupt_aux ti td (cl_ws c) false r ks') as [rest|] eqn:E; [|discriminate].
  cbn [option_map]. intros H. injection H as <-. exists k, ks', rest. auto.
Qed.

Lemma corrupt_aux_total ti td : forall chars prev first ks,
  (length chars <= length ks)%nat -> exists out, corrupt_aux ti td prev first chars ks = Some out.
Proof.
  induction chars as [|c r IH]; intros prev first ks H; [eexists; reflexivity|].
  destruct ks as [|k ks']; [cbn in H; lia|]. cbn [length] in H.
  destruct (IH (cl_ws c) false ks') as [rest E]; [lia|].
  rewrite corrupt_aux_cons, E. eexists; reflexivity.
Qed.

Lemma ws32 : cl_ws [32%N] = true.
Proof. reflexivity. Qed.

(** * 2. only whitespace changes *)
Lemma strip_app a b : strip (a ++ b) = strip a ++ strip b.
Proof. apply filter_app. Qed.

Lemma strip_piece ti td prev first c k :
  strip (piece ti td prev first c k) = if cl_ws c then [] else [c].
Proof.
  unfold piece. destruct (cl_ws c) eqn:E.
  - destruct (k <? td); [reflexivity|]. rewrite strip_cons, E. reflexivity.
  - destruct ((k <? ti) && negb first && negb prev)%bool.
    + rewrite strip_cons, ws32, strip_cons, E. reflexivity.
    + rewrite strip_cons, E. reflexivity.
Qed.

Lemma corrupt_strip ti td : forall chars prev first ks out,
  corrupt_aux ti td prev first chars ks = Some out -> strip out = strip chars.
Proof.
  induction chars as [|c r IH]; intros prev first ks out H.
  - cbn in H. injection H as <-. reflexivity.
  - apply corrupt_aux_inv in H as (k & ks' & rest & -> & Hr & ->).
    rewrite strip_app, strip_piece, strip_cons, (IH _ _ _ _ Hr). destruct (cl_ws c); reflexivity.
Qed.

Lemma strip_cp_concat_piece ti td prev first c k :
  strip_cp (concat (piece ti td prev first c k)) = strip_cp c.
Proof.
  unfold piece. destruct (cl_ws c) eqn:E.
  - destruct (k <? td); cbn [concat]; [|rewrite app_nil_r; reflexivity].
    rewrite (strip_cp_ws c E). reflexivity.
  - destruct ((k <? ti) && negb first && negb prev)%bool; cbn [concat]; rewrite ?app_nil_r; [|reflexivity].
    rewrite strip_cp_app. reflexivity.
Qed.

Lemma corrupt_strip_cp ti td : forall chars prev first ks out,
  corrupt_aux ti td prev first chars ks = Some out ->
  strip_cp (concat out) = strip_cp (concat chars).
Proof.
  induction chars as [|c r IH]; intros prev first ks out H.
  - cbn in H. injection H as <-. reflexivity.
  - apply corrupt_aux_inv in H as (k & ks' & rest & -> & Hr & ->).
    rewrite concat_app. cbn [concat]. rewrite !strip_cp_app, strip_cp_concat_piece, (IH _ _ _ _ Hr).
    reflexivity.
Qed.

(** * 3. the result is whitespace-clean again *)
Lemma corrupt_head ti td prev first d r ks out :
  cl_ws d = false -> prev = true \/ first = true ->
  corrupt_aux ti td prev first (d :: r) ks = Some out -> exists out', out = d :: out'.
Proof.
  intros Hd Hpf H. apply corrupt_aux_inv in H as (k & ks' & rest & -> & Hr & ->).
  unfold piece. rewrite Hd.
  assert (E : ((k <? ti) && negb first && negb prev)%bool = false).
  { destruct Hpf as [-> | ->]; cbn; [apply andb_false_r|rewrite andb_false_r; reflexivity]. }
  rewrite E. eexists; reflexivity.
Qed.

Lemma corrupt_SC ti td : forall t prev first ks out,
  SC t -> corrupt_aux ti td prev first t ks = Some out -> SC out.
Proof.
  induction t as [|c r IH]; intros prev first ks out Ht H.
  - cbn in H. injection H as <-. exact Logic.I.
  - destruct Ht as [Hc Hr]. apply corrupt_aux_inv in H as (k & ks' & rest & -> & Hrest & ->).
    pose proof (IH _ _ _ _ Hr Hrest) as IHr. unfold piece. destruct (cl_ws c) eqn:E.
    + destruct (k <? td); [exact IHr|]. cbn [app SC]. split; [|exact IHr]. intros _.
      destruct (Hc eq_refl) as (H32 & Hne & Hh). split; [exact H32|].
      destruct r as [|d r']; [congruence|]. cbn [head_nonws] in Hh.
      destruct (corrupt_head _ _ _ _ _ _ _ _ Hh (or_introl eq_refl) Hrest) as [out' ->].
      split; [discriminate|exact Hh].
    + destruct ((k <? ti) && negb first && negb prev)%bool; cbn [app SC].
      * split; [intros _; repeat split; [discriminate|exact E]|].
        split; [rewrite E; discriminate|exact IHr].
      * split; [rewrite E; discriminate|exact IHr].
Qed.

Lemma corrupt_Clean iw dw t ks out :
  Clean t -> corrupt_cl iw dw t ks = Some out -> Clean out.
Proof.
  unfold corrupt_cl. intros [Hh Hs] H. split; [|exact (corrupt_SC _ _ _ _ _ _ _ Hs H)].
  destruct t as [|d r].
  - cbn in H. injection H as <-. exact Logic.I.
  - cbn [head_nonws] in Hh.
    destruct (corrupt_head _ _ _ _ _ _ _ _ Hh (or_intror eq_refl) H) as [out' ->]. exact Hh.
Qed.

(** * 4. operations / repair recover the text: one label per character *)
Lemma corrupt_labels_l iw dw t ks out :
  Clean t -> corrupt_cl iw dw t ks = Some out ->
  exists ops, operations out t = Some ops /\ length ops = length out
              /\ repair out ops = Some (concat t).
Proof.
  intros Ht H. apply ops_roundtrip_l; [exact (corrupt_Clean _ _ _ _ _ Ht H)|exact Ht|].
  exact (corrupt_strip _ _ _ _ _ _ _ H).
Qed.

(** * 5. probability 0 *)
(** [DelR P a b]: [b] is [a] minus some elements that satisfy [P] *)
Inductive DelR {A} (P : A -> Prop) : list A -> list A -> Prop :=
| DelR_nil : DelR P [] []
| DelR_keep x a b : DelR P a b -> DelR P (x :: a) (x :: b)
| DelR_drop x a b : P x -> DelR P a b -> DelR P (x :: a) b.

Definition in_range (ks : list Z) : Prop := Forall (fun k => 0 <= k < D53) ks.

(** delete probability 0: every whitespace character survives; the text is the
    corrupted input minus inserted U+0020 *)
Lemma corrupt_dw0 ti : forall t prev first ks out,
  in_range ks -> corrupt_aux ti 0 prev first t ks = Some out -> DelR (eq [32%N]) out t.
Proof.
  induction t as [|c r IH]; intros prev first ks out Hk H.
  - cbn in H. injection H as <-. constructor.
  - apply corrupt_aux_inv in H as (k & ks' & rest & -> & Hrest & ->).
    inversion Hk as [|? ? Hk0 Hk']; subst. pose proof (IH _ _ _ _ Hk' Hrest) as IHr.
    unfold piece. assert (E : (k <? 0) = false) by (apply Z.ltb_ge; lia). rewrite E.
    destruct (cl_ws c).
    + cbn [app]. constructor. exact IHr.
    + destruct ((k <? ti) && negb first && negb prev)%bool; cbn [app].
      * apply DelR_drop; [reflexivity|]. constructor. exact IHr.
      * constructor. exact IHr.
Qed.

(** insert probability 0: nothing appears; the corrupted input is the text minus
    whitespace characters (which are U+0020 in a clean text) *)
Lemma corrupt_iw0 td : forall t prev first ks out,
  in_range ks -> corrupt_aux 0 td prev first t ks = Some out ->
  DelR (fun c => cl_ws c = true) t out.
Proof.
  induction t as [|c r IH]; intros prev first ks out Hk H.
  - cbn in H. injection H as <-. constructor.
  - apply corrupt_aux_inv in H as (k & ks' & rest & -> & Hrest & ->).
    inversion Hk as [|? ? Hk0 Hk']; subst. pose proof (IH _ _ _ _ Hk' Hrest) as IHr.
    unfold piece. assert (E : (k <? 0) = false) by (apply Z.ltb_ge; lia). rewrite E.
    cbn [andb]. destruct (cl_ws c) eqn:Ec.
    + destruct (k <? td); cbn [app].
      * apply DelR_drop; [exact Ec|exact IHr].
      * constructor. exact IHr.
    + cbn [app]. constructor. exact IHr.
Qed.

Lemma corrupt_iw0_SC td : forall t prev first ks out,
  SC t -> in_range ks -> corrupt_aux 0 td prev first t ks = Some out ->
  DelR (eq [32%N]) t out.
Proof.
  induction t as [|c r IH]; intros prev first ks out Ht Hk H.
  - cbn in H. injection H as <-. constructor.
  - destruct Ht as [Hc Hr].
    apply corrupt_aux_inv in H as (k & ks' & rest & -> & Hrest & ->).
    inversion Hk as [|? ? Hk0 Hk']; subst. pose proof (IH _ _ _ _ Hr Hk' Hrest) as IHr.
    unfold piece. assert (E : (k <? 0) = false) by (apply Z.ltb_ge; lia). rewrite E.
    cbn [andb]. destruct (cl_ws c) eqn:Ec.
    + destruct (k <? td); cbn [app].
      * apply DelR_drop; [destruct (Hc eq_refl) as [-> _]; reflexivity|exact IHr].
      * constructor. exact IHr.
    + cbn [app]. constructor. exact IHr.
Qed.

(** probabilities (0, 1): all whitespace goes, nothing else changes *)
Lemma corrupt_dw1_iw0 : forall t prev first ks out,
  in_range ks -> corrupt_aux 0 D53 prev first t ks = Some out -> out = strip t.
Proof.
  induction t as [|c r IH]; intros prev first ks out Hk H.
  - cbn in H. injection H as <-. reflexivity.
  - apply corrupt_aux_inv in H as (k & ks' & rest & -> & Hrest & ->).
    inversion Hk as [|? ? Hk0 Hk']; subst. rewrite (IH _ _ _ _ Hk' Hrest).
    unfold piece. assert (E : (k <? 0) = false) by (apply Z.ltb_ge; lia).
    assert (E1 : (k <? D53) = true) by (apply Z.ltb_lt; lia). rewrite E, E1, strip_cons.
    destruct (cl_ws c); reflexivity.
Qed.

(** * 6. structure of the output clusters *)
Lemma wf_seg_app a b : M11.wf_seg (a ++ b) = (M11.wf_seg a && M11.wf_seg b)%bool.
Proof. unfold M11.wf_seg. apply forallb_app. Qed.

Lemma wf32 : M11.wf_seg [[32%N]] = true.
Proof. reflexivity. Qed.

Lemma wf_piece ti td prev first c k :
  M11.wf_seg [c] = true -> M11.wf_seg (piece ti td prev first c k) = true.
Proof.
  intros H. unfold piece. destruct (cl_ws c); [destruct (k <? td); [reflexivity|exact H]|].
  destruct ((k <? ti) && negb first && negb prev)%bool; [|exact H].
  change [[32%N]; c] with ([[32%N]] ++ [c]). rewrite wf_seg_app, wf32, H. reflexivity.
Qed.

Lemma corrupt_wf ti td : forall t prev first ks out,
  M11.wf_seg t = true -> corrupt_aux ti td prev first t ks = Some out -> M11.wf_seg out = true.
Proof.
  induction t as [|c r IH]; intros prev first ks out Ht H.
  - cbn in H. injection H as <-. reflexivity.
  - apply corrupt_aux_inv in H as (k & ks' & rest & -> & Hrest & ->).
    change (c :: r) with ([c] ++ r) in Ht. rewrite wf_seg_app in Ht.
    apply andb_true_iff in Ht as [Hc Hr]. rewrite wf_seg_app, (wf_piece _ _ _ _ _ _ Hc).
    exact (IH _ _ _ _ Hr Hrest).
Qed.

Definition singleb (c : cluster) : bool := match c with [_] => true | _ => false end.

Lemma singles_singletons s : forallb singleb (singletons s) = true.
Proof. induction s as [|x s IH]; [reflexivity|exact IH]. Qed.

Lemma singletons_concat l : forallb singleb l = true -> singletons (concat l) = l.
Proof.
  induction l as [|c l IH]; [reflexivity|]. cbn [forallb]. intros H.
  apply andb_true_iff in H as [Hc Hl]. destruct c as [|x [|y c']]; try discriminate.
  cbn [concat app singletons map]. f_equal. exact (IH Hl).
Qed.

Lemma corrupt_singles ti td : forall t prev first ks out,
  forallb singleb t = true -> corrupt_aux ti td prev first t ks = Some out ->
  forallb singleb out = true.
Proof.
  induction t as [|c r IH]; intros prev first ks out Ht H.
  - cbn in H. injection H as <-. reflexivity.
  - apply corrupt_aux_inv in H as (k & ks' & rest & -> & Hrest & ->).
    cbn [forallb] in Ht. apply andb_true_iff in Ht as [Hc Hr].
    rewrite forallb_app, (IH _ _ _ _ Hr Hrest), andb_true_r. unfold piece.
    destruct (cl_ws c); [destruct (k <? td); [reflexivity|cbn [forallb]; rewrite Hc; reflexivity]|].
    destruct ((k <? ti) && negb first && negb prev)%bool; cbn [forallb singleb]; rewrite Hc; reflexivity.
Qed.

(** cluster-level [Clean] (C10) of a segmentation without mixed clusters gives the
    code-point-level normal form of C11 *)
Lemma scs_of_SC : forall seg, SC seg -> M11.wf_seg seg = true -> M11.scs (concat seg) = true.
Proof.
  induction seg as [|c r IH]; intros Hs Hw; [reflexivity|].
  destruct Hs as [Hc Hr]. apply P11.wf_seg_cons in Hw as (Hne & Hm & Hwr).
  specialize (IH Hr Hwr). cbn [concat]. destruct Hm as [Hws|[Hws Hn]].
  - destruct (Hc Hws) as (-> & Hrne & Hh). cbn [app M11.scs].
    change (is_ws 32%N) with true. cbv iota. rewrite IH, andb_true_r. cbn [N.eqb Pos.eqb andb].
    rewrite <- (P11.head_nonws_concat r Hwr). destruct r as [|d r']; [congruence|].
    cbn [head_nonws] in Hh. cbn [M11.head_is]. unfold M11.nonws_cl. rewrite Hh. reflexivity.
  - rewrite P11.scs_app_word by exact Hn. exact IH.
Qed.

Lemma cleansb_of_Clean seg : Clean seg -> M11.wf_seg seg = true -> M11.cleansb (concat seg) = true.
Proof.
  intros [Hh Hs] Hw. unfold M11.cleansb. rewrite (scs_of_SC seg Hs Hw), andb_true_r.
  destruct seg as [|c r]; [reflexivity|]. cbn [head_nonws] in Hh.
  apply P11.wf_seg_cons in Hw as (Hne & Hm & _). destruct Hm as [Hws|[_ Hn]]; [congruence|].
  destruct c as [|x c']; [congruence|]. cbn [concat app M11.head_is].
  cbn [forallb] in Hn. apply andb_true_iff in Hn as [Hx _]. unfold M11.nonws_cp in Hx.
  rewrite Hx. reflexivity.
Qed.

(** * 7. the greedy decision procedure is complete *)
Lemma DelR_app_same {A} (P : A -> Prop) x : forall a b, DelR P a b -> DelR P (x ++ a) (x ++ b).
Proof. induction x as [|y x IH]; intros a b H; [exact H|]. cbn [app]. constructor. auto. Qed.

Lemma DelR_concat a b :
  DelR (eq [32%N]) a b -> DelR (fun x => is32 x = true) (concat a) (concat b).
Proof.
  induction 1 as [|x a b H IH|x a b Hx H IH]; cbn [concat].
  - constructor.
  - apply DelR_app_same. exact IH.
  - subst x. cbn [app]. apply DelR_drop; [reflexivity|exact IH].
Qed.

Lemma DelR_uncons {A} (P : A -> Prop) x : forall a b, DelR P a (x :: b) -> P x -> DelR P a b.
Proof.
  induction a as [|y a IH]; intros b H Hx; inversion H; subst.
  - apply DelR_drop; assumption.
  - apply DelR_drop; [assumption|]. apply IH; assumption.
Qed.

Lemma delb_complete p : forall a b, DelR (fun x => p x = true) a b -> delb p a b = true.
Proof.
  induction a as [|x a IH]; intros b H.
  - inversion H; subst. reflexivity.
  - cbn [delb]. destruct b as [|y b'].
    + inversion H; subst. rewrite H2. cbn [andb]. apply IH. assumption.
    + destruct (N.eqb x y) eqn:E.
      * apply N.eqb_eq in E. subst y. inversion H; subst; [apply IH; assumption|].
        apply IH. apply (DelR_uncons _ x); assumption.
      * inversion H; subst; [rewrite N.eqb_refl in E; discriminate|].
        rewrite H2. cbn [andb]. apply IH. assumption.
Qed.

(** * 8. labels *)
Lemma labels_length np ns ops : length (labels np ns ops) = (np + length ops + ns)%nat.
Proof. unfold labels. rewrite !app_length, !repeat_length, map_length. lia. Qed.

Lemma labels_prefix np ns ops : firstn np (labels np ns ops) = repeat (-1) np.
Proof.
  unfold labels. rewrite <- (repeat_length (-1) np) at 1. apply P11.firstn_exact.
Qed.

Lemma labels_mid np ns ops : skipn np (labels np ns ops) = map op_code ops ++ repeat (-1) ns.
Proof.
  unfold labels. rewrite <- (repeat_length (-1) np) at 1. apply P11.skipn_exact.
Qed.

Lemma labels_ops np ns ops n :
  n = length ops -> firstn n (skipn np (labels np ns ops)) = map op_code ops.
Proof.
  intros ->. rewrite labels_mid. rewrite <- (map_length op_code ops). apply P11.firstn_exact.
Qed.

Lemma labels_suffix np ns ops n :
  n = length ops -> skipn (np + n) (labels np ns ops) = repeat (-1) ns.
Proof.
  intros ->. rewrite Nat.add_comm, <- P11.skipn_skipn, labels_mid.
  rewrite <- (map_length op_code ops). apply P11.skipn_exact.
Qed.

Lemma code_op_code ops : map code_op (map op_code ops) = ops.
Proof. induction ops as [|[] ops IH]; cbn [map]; [reflexivity|..]; rewrite IH; reflexivity. Qed.

Lemma op_code_range ops : forallb (fun z => (0 <=? z) && (z <=? 2))%bool (map op_code ops) = true.
Proof. induction ops as [|[] ops IH]; cbn [map forallb]; [reflexivity|..]; rewrite IH; reflexivity. Qed.

Lemma zlist_eqb_refl l : zlist_eqb l l = true.
Proof. induction l as [|x l IH]; cbn [zlist_eqb]; [reflexivity|]. rewrite Z.eqb_refl. exact IH. Qed.

Lemma v_z_list l : v_list v_z (list_v z_v l) = l.
Proof.
  unfold v_list, list_v. rewrite map_map. induction l as [|x l IH]; cbn [map]; [reflexivity|].
  rewrite IH. reflexivity.
Qed.

(** * 9. the executable statement holds of the model's own output *)
(** well-formed oracle: one draw in [0, 2^53) per character; in grapheme mode,
    for a text in the property's domain, the real segmenter gives back the
    clusters the corruption wrote (SeamStable; false exactly on the KF1 class) *)
Definition wf_input (v : val) : Prop :=
  (length (in_text v) <= length (in_ks v))%nat /\ in_range (in_ks v) /\
  (v_bool (v_nth 0 v) = true -> premise (in_text v) = true ->
   forall ccl, corrupt_cl (in_iw v) (in_dw v) (in_text v) (in_ks v) = Some ccl ->
               v_clusters (v_nth 2 v) = ccl).

Lemma in_text_singles v : v_bool (v_nth 0 v) = false -> forallb singleb (in_text v) = true.
Proof. unfold in_text. intros ->. apply singles_singletons. Qed.

Lemma nlist_eqb_refl l : nlist_eqb l l = true.
Proof. apply nlist_eqb_eq. reflexivity. Qed.

Lemma check_run_l v : wf_input v -> check_C14 v (run_C14 v) = true.
Proof.
  intros (Hlen & Hrange & Hseam). unfold check_C14, run_C14.
  destruct (accepted (in_iw v) (in_dw v)) eqn:Hacc; cbn [negb]; [|reflexivity].
  set (t := in_text v) in *.
  destruct (corrupt_aux_total (clamp (in_iw v)) (clamp (in_dw v)) t false true (in_ks v) Hlen) as [ccl Hc].
  fold (corrupt_cl (in_iw v) (in_dw v) t (in_ks v)) in Hc. rewrite Hc.
  cbn [apply_input fst snd v_nth nth]. rewrite !P11.v_n_list.
  set (c := concat ccl). set (cseg := in_cseg v c).
  set (lab := if nlist_eqb (concat cseg) c
              then option_map (labels (in_np v) (in_ns v)) (operations cseg t) else None).
  assert (Hsh : shape_ok (L [I 1; list_v n_v c; list_v n_v (concat t); opt_v (list_v z_v) lab; I 1]) = true)
    by (destruct lab; reflexivity).
  rewrite Hsh. cbn [v_z Z.eqb Pos.eqb andb]. rewrite nlist_eqb_refl. cbn [andb].
  unfold c at 1. unfold corrupt_cl in Hc. rewrite (corrupt_strip_cp _ _ _ _ _ _ _ Hc), nlist_eqb_refl.
  cbn [andb]. destruct (premise t) eqn:Hp; [|reflexivity].
  pose proof Hp as Hp0. unfold premise in Hp. apply andb_true_iff in Hp as [Hcl Hwf].
  apply cleanb_spec in Hcl.
  assert (Hcc : Clean ccl) by exact (corrupt_Clean _ _ _ _ _ Hcl Hc).
  assert (Hwc : M11.wf_seg ccl = true) by exact (corrupt_wf _ _ _ _ _ _ _ Hwf Hc).
  assert (Hseg : cseg = ccl).
  { unfold cseg, in_cseg. destruct (v_bool (v_nth 0 v)) eqn:Hg.
    - apply (Hseam eq_refl eq_refl). exact Hc.
    - unfold c. apply singletons_concat. apply (corrupt_singles _ _ _ _ _ _ _ (in_text_singles v Hg) Hc). }
  unfold c at 1. rewrite (cleansb_of_Clean ccl Hcc Hwc). cbn [andb].
  destruct (corrupt_labels_l _ _ _ _ _ Hcl Hc) as (ops & Hops & Hlo & Hrep).
  unfold lab. rewrite Hseg. fold c. rewrite nlist_eqb_refl, Hops. cbn [option_map opt_v v_opt].
  rewrite v_z_list, labels_length, Hlo, Nat.eqb_refl, labels_prefix, zlist_eqb_refl.
  rewrite (labels_suffix _ _ _ _ (eq_sym Hlo)), zlist_eqb_refl.
  rewrite (labels_ops _ _ _ _ (eq_sym Hlo)), op_code_range, code_op_code, Hrep, nlist_eqb_refl.
  cbn [andb].
  assert (Hd : (if clamp (in_dw v) =? 0 then delb is32 c (concat t) else true) = true).
  { destruct (clamp (in_dw v) =? 0) eqn:E; [|reflexivity]. apply Z.eqb_eq in E. rewrite E in Hc.
    apply delb_complete, DelR_concat. exact (corrupt_dw0 _ _ _ _ _ _ Hrange Hc). }
  assert (Hi : (if clamp (in_iw v) =? 0 then delb is32 (concat t) c else true) = true).
  { destruct (clamp (in_iw v) =? 0) eqn:E; [|reflexivity]. apply Z.eqb_eq in E. rewrite E in Hc.
    apply delb_complete, DelR_concat. destruct Hcl as [_ Hsc].
    exact (corrupt_iw0_SC _ _ _ _ _ _ Hsc Hrange Hc). }
  rewrite Hd, Hi. reflexivity.
Qed.

Lemma delb_sound p : forall a b, delb p a b = true -> DelR (fun x => p x = true) a b.
Proof.
  induction a as [|x a IH]; intros b H; cbn [delb] in H.
  - destruct b; [constructor|discriminate].
  - destruct b as [|y b'].
    + apply andb_true_iff in H as [H1 H2]. apply DelR_drop; auto.
    + destruct (N.eqb x y) eqn:E.
      * apply N.eqb_eq in E. subst y. constructor. auto.
      * apply andb_true_iff in H as [H1 H2]. apply DelR_drop; auto.
Qed.

Lemma delb_iff p a b : delb p a b = true <-> DelR (fun x => p x = true) a b.
Proof. split; [apply delb_sound|apply delb_complete]. Qed.

(** top-level forms *)
Lemma corrupt_total_l iw dw t ks :
  (length t <= length ks)%nat -> exists out, corrupt_cl iw dw t ks = Some out.
Proof. apply corrupt_aux_total. Qed.

Lemma corrupt_nonws_l iw dw t ks out :
  corrupt_cl iw dw t ks = Some out ->
  strip out = strip t /\ strip_cp (concat out) = strip_cp (concat t).
Proof. intros H. split; [exact (corrupt_strip _ _ _ _ _ _ _ H)|exact (corrupt_strip_cp _ _ _ _ _ _ _ H)]. Qed.

Lemma corrupt_clean_cp_l iw dw t ks out :
  Clean t -> M11.wf_seg t = true -> corrupt_cl iw dw t ks = Some out ->
  M11.cleansb (concat out) = true.
Proof.
  intros Ht Hw H. apply cleansb_of_Clean; [exact (corrupt_Clean _ _ _ _ _ Ht H)|].
  exact (corrupt_wf _ _ _ _ _ _ _ Hw H).
Qed.

Lemma corrupt_dw0_l iw dw t ks out :
  clamp dw = 0 -> in_range ks -> corrupt_cl iw dw t ks = Some out ->
  DelR (eq [32%N]) out t /\ DelR (fun x => is32 x = true) (concat out) (concat t).
Proof.
  unfold corrupt_cl. intros -> Hk H. pose proof (corrupt_dw0 _ _ _ _ _ _ Hk H) as D.
  split; [exact D|apply DelR_concat; exact D].
Qed.

Lemma corrupt_iw0_l iw dw t ks out :
  clamp iw = 0 -> in_range ks -> corrupt_cl iw dw t ks = Some out ->
  DelR (fun c => cl_ws c = true) t out /\
  (Clean t -> DelR (eq [32%N]) t out /\ DelR (fun x => is32 x = true) (concat t) (concat out)).
Proof.
  unfold corrupt_cl. intros -> Hk H. split; [exact (corrupt_iw0 _ _ _ _ _ _ Hk H)|].
  intros [_ Hs]. pose proof (corrupt_iw0_SC _ _ _ _ _ _ Hs Hk H) as D.
  split; [exact D|apply DelR_concat; exact D].
Qed.

Lemma clamp_1 : clamp D53 = D53.
Proof. reflexivity. Qed.
Lemma clamp_0 : clamp 0 = 0.
Proof. reflexivity. Qed.

Lemma corrupt_extreme_l t ks out :
  in_range ks -> corrupt_cl 0 D53 t ks = Some out -> out = strip t.
Proof. unfold corrupt_cl. rewrite clamp_0, clamp_1. apply corrupt_dw1_iw0. Qed.

(** code-point mode: re-segmenting the corrupted text gives back the clusters
    that were written (SeamStable is a theorem there) *)
Lemma corrupt_cp_stable iw dw s ks out :
  corrupt_cl iw dw (singletons s) ks = Some out -> singletons (concat out) = out.
Proof.
  intros H. apply singletons_concat.
  exact (corrupt_singles _ _ _ _ _ _ _ (singles_singletons s) H).
Qed.

(** code-point mode, string level: everything about one clean string *)
Lemma corrupt_cp_all iw dw s ks :
  M11.cleansb s = true -> (length s <= length ks)%nat ->
  exists c, option_map (@concat N) (corrupt_cl iw dw (singletons s) ks) = Some c
    /\ strip_cp c = strip_cp s
    /\ M11.cleansb c = true
    /\ exists ops, operations (singletons c) (singletons s) = Some ops
                   /\ length ops = length c
                   /\ repair (singletons c) ops = Some s.
Proof.
  intros Hs Hl.
  assert (Ht : Clean (singletons s)).
  { apply (C11_Link.Clean_of_cleansb s); [exact Hs|apply P11.concat_singletons|apply P11.wf_singletons]. }
  destruct (corrupt_total_l iw dw (singletons s) ks) as [out Ho].
  { unfold singletons. rewrite map_length. exact Hl. }
  exists (concat out). rewrite Ho. split; [reflexivity|].
  destruct (corrupt_nonws_l _ _ _ _ _ Ho) as [_ Hn]. rewrite P11.concat_singletons in Hn.
  split; [exact Hn|]. split.
  { exact (corrupt_clean_cp_l _ _ _ _ _ Ht (P11.wf_singletons s) Ho). }
  destruct (corrupt_labels_l _ _ _ _ _ Ht Ho) as (ops & H1 & H2 & H3).
  rewrite (corrupt_cp_stable _ _ _ _ _ Ho). exists ops. rewrite P11.concat_singletons in H3.
  split; [exact H1|]. split; [|exact H3].
  rewrite H2. rewrite <- (corrupt_cp_stable _ _ _ _ _ Ho) at 1. unfold singletons. apply map_length.
Qed.

From TU Require Import Base C10_Model C10_Proofs C14_Model.
From Coq Require Import Lia.
Open Scope Z_scope.

Lemma apply_input_target {A} (f : A -> A) item : snd (apply_input f item) = snd item.
Proof. reflexivity. Qed.

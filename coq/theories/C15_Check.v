(** C15 proofs, part 3: the executable statement [check_C15] holds of every
    output that lies in the model's outcome sets ([check_run]). *)
From TU Require Import Base C15_Model C15_Proofs C15_Apply.
From Coq Require Import Lia.

Lemma val_eqb_eq : forall a b, val_eqb a b = true -> a = b.
Proof.
  fix IH 1. intros [x|xs] [y|ys]; cbn [val_eqb]; try discriminate.
  - intros H. apply Z.eqb_eq in H. congruence.
  - intros H. f_equal. revert ys H.
    induction xs as [|x xs IHxs]; intros [|y ys] H; try discriminate; try reflexivity.
    apply andb_true_iff in H as [H1 H2]. f_equal; [apply IH; exact H1 | apply IHxs; exact H2].
Qed.

Lemma all2_impl {A B} (f g : A -> B -> bool) a b :
  (forall x y, f x y = true -> g x y = true) -> all2 f a b = true -> all2 g a b = true.
Proof.
  intros H. revert b. induction a as [|x a IH]; intros [|y b]; cbn; try congruence.
  intros E. apply andb_true_iff in E as [E1 E2]. rewrite (H _ _ E1), (IH _ E2). reflexivity.
Qed.

(** * Valid edits are among the candidates of the executable statement *)
Lemma ins_lookup_In t p s es : ins_lookup t p s = Some es -> exists en, In en t /\ snd en = es.
Proof.
  induction t as [|[[p' s'] es'] t IH]; cbn; [discriminate|].
  destruct (nlist_eqb p p' && nlist_eqb s s').
  - intros H. injection H as <-. eexists. split; [left; reflexivity | reflexivity].
  - intros H. destruct (IH H) as (en & H1 & H2). exists en. split; [right; exact H1 | exact H2].
Qed.

Lemma rep_lookup_In t p s n es : rep_lookup t p s n = Some es -> exists en, In en t /\ snd en = es.
Proof.
  induction t as [|[[[p' s'] n'] es'] t IH]; cbn; [discriminate|].
  destruct (nlist_eqb p p' && nlist_eqb s s' && nlist_eqb n n').
  - intros H. injection H as <-. eexists. split; [left; reflexivity | reflexivity].
  - intros H. destruct (IH H) as (en & H1 & H2). exists en. split; [right; exact H1 | exact H2].
Qed.

Lemma valid_in_spec c w ex k : valid_ed c w ex k -> In k (spec_cands c w ex).
Proof.
  unfold spec_cands. destruct k as [|i e|i|i e|i]; intros V.
  - left. reflexivity.
  - right. destruct V as (Hk & Hi & _ & _ & es & Hl & He). rewrite Hk.
    apply in_or_app. left. apply in_flat_map. exists i. split; [apply in_seq; lia|].
    apply in_map. unfold itab_strings. apply in_flat_map.
    destruct (ins_lookup_In _ _ _ _ Hl) as (en & H1 & H2). exists en. split; [exact H1|].
    subst es. change (In e (map fst (snd en))). apply in_map_iff. exists (e, true). split; [reflexivity | exact He].
  - right. destruct V as (Hk & Hi & Hex). rewrite Hk.
    apply in_or_app. right. apply in_or_app. left. apply in_map. apply rep_idxs_In. split; assumption.
  - right. destruct V as (Hk & Hi & Hex & s & es & Hs & Hl & He). rewrite Hk.
    apply in_or_app. right. apply in_or_app. right. apply in_or_app. left.
    apply in_flat_map. exists i. split; [apply rep_idxs_In; split; assumption|].
    apply in_map. unfold rtab_strings. apply in_flat_map.
    destruct (rep_lookup_In _ _ _ _ _ Hl) as (en & H1 & H2). exists en. split; [exact H1|].
    subst es. change (In e (map fst (snd en))). apply in_map_iff. exists (e, true). split; [reflexivity | exact He].
  - right. destruct V as (Hk & Hi & Hex1 & Hex2). rewrite Hk.
    apply in_or_app. right. apply in_or_app. right. apply in_or_app. right.
    apply in_map. apply filter_In. split; [apply in_seq; lia|].
    apply negb_true_iff, orb_false_iff. split; apply mem_false; assumption.
Qed.

(** * One call *)
Lemma step_check_of_valid c w ex k ex' :
  valid_ed c w ex k -> set_eqb (apply_excl k ex) ex' = true ->
  step_check c w ex (apply_word k w) ex' = true.
Proof.
  intros V S. unfold step_check. apply andb_true_iff. split.
  - destruct (in_rangeb w ex) eqn:R; [|reflexivity]. cbn [negb orb].
    apply in_rangeb_spec in R. apply in_rangeb_spec.
    pose proof (apply_excl_range c w ex k V R) as R'.
    unfold in_range in *. rewrite Forall_forall in *. intros x Hx. apply R'.
    apply (proj1 (set_eqb_spec _ _) S). exact Hx.
  - apply existsb_exists. exists k. split; [apply valid_in_spec; exact V|].
    unfold explains. rewrite nlist_eqb_refl, S. cbn [andb].
    apply forallb_forall. intros p Hp.
    destruct (p <? length w) eqn:E; [|reflexivity]. cbn [negb orb].
    apply Nat.ltb_lt in E. apply ocl_eqb_eq.
    apply (untouched_l c w ex k p V E). eapply excl_not_old; eassumption.
Qed.

Lemma step_check_of_agree c s o : step_agree true c s o = true -> step_check_v c s o = true.
Proof.
  unfold step_agree, step_check_v.
  destruct o as [z|[|wv [|exv [|x r]]]]; try discriminate.
  destruct (outcomes c (s_cd s) (s_cs s) (s_w s) (s_ex s)) as [l|] eqn:E; [|discriminate].
  intros H. apply existsb_exists in H as (m & Hm & H).
  apply andb_true_iff in H as [H1 H2]. apply cls_eqb_eq in H1.
  destruct (outcomes_In _ _ _ _ _ _ _ E Hm) as (k & V & ->). cbn [fst snd] in *.
  rewrite <- H1. eapply step_check_of_valid; eassumption.
Qed.

(** * The provider probe of the model has the shape the statement asks for *)
Lemma res_shape_ins t w i : res_shape false (res_v (ins_ctx t w i)) = true.
Proof. unfold ins_ctx. cbn [res_v]. destruct (ins_lookup _ _ _); reflexivity. Qed.

Lemma res_shape_rep t w i : res_shape (Nat.eqb (length w) 0) (res_v (rep_ctx t w i)) = true.
Proof.
  unfold rep_ctx. destruct (nth_error w _) as [s|] eqn:E.
  - cbn [res_v]. destruct (rep_lookup _ _ _ _); reflexivity.
  - apply nth_error_None in E. destruct w as [|c w']; [reflexivity | cbn in E; lia].
Qed.

Lemma probe_ok_probe c w : probe_ok w (probe c w) = true.
Proof.
  unfold probe, probe_ok, list_v. rewrite map_length, seq_length, Nat.eqb_refl. cbn [andb].
  apply forallb_forall. intros x Hx. apply in_map_iff in Hx as (i & <- & _).
  rewrite res_shape_ins, res_shape_rep. reflexivity.
Qed.

Lemma check_edit_of_agree v out : agree_edit true v out = true -> check_edit v out = true.
Proof.
  unfold agree_edit, check_edit.
  destruct out as [z|[|pv [|[z|ch] [|x r]]]]; try discriminate.
  intros H. apply andb_true_iff in H as [H1 H2].
  apply val_eqb_eq in H1. rewrite <- H1, probe_ok_probe. cbn [andb].
  eapply all2_impl; [|exact H2]. intros s o. apply step_check_of_agree.
Qed.

(** * The corrupt_spelling stream *)
Lemma all2_length {A B} (f : A -> B -> bool) a b : all2 f a b = true -> length b = length a.
Proof.
  revert b. induction a as [|x a IH]; intros [|y b]; cbn; try congruence.
  intros E. apply andb_true_iff in E as [_ E]. rewrite (IH _ E). reflexivity.
Qed.

Lemma all2_right {A B} (f : A -> B -> bool) (g : B -> bool) a b :
  (forall x y, f x y = true -> g y = true) -> all2 f a b = true -> forallb g b = true.
Proof.
  intros H. revert b. induction a as [|x a IH]; intros [|y b]; cbn; try congruence.
  intros E. apply andb_true_iff in E as [E1 E2]. rewrite (H _ _ E1), (IH _ E2). reflexivity.
Qed.

Lemma check_e2e_of_agree v out : agree_e2e v out = true -> check_e2e v out = true.
Proof.
  unfold agree_e2e, check_e2e. destruct out as [z|ws]; [discriminate|].
  intros H. rewrite (all2_length _ _ _ H), Nat.eqb_refl. cbn [andb].
  eapply all2_right; [|exact H]. intros w o. unfold word_agree. destruct o; [discriminate | reflexivity].
Qed.

Lemma check_run_l v out : agree_C15 true v out = true -> check_C15 v out = true.
Proof.
  unfold agree_C15, check_C15. destruct (is_e2e v);
    [apply check_e2e_of_agree | apply check_edit_of_agree].
Qed.

(** strict membership implies the text-level membership used at run time *)
Lemma agree_strict_weak v out : agree_C15 true v out = true -> agree_C15 false v out = true.
Proof.
  unfold agree_C15. destruct (is_e2e v); [exact (fun H => H)|]. unfold agree_edit.
  destruct out as [z|[|pv [|[z|ch] [|x r]]]]; try discriminate.
  intros H. apply andb_true_iff in H as [H1 H2]. rewrite H1. cbn [andb].
  eapply all2_impl; [|exact H2]. intros s o. unfold step_agree.
  destruct o as [z|[|wv [|exv [|x r]]]]; try discriminate.
  destruct (outcomes _ _ _ _ _) as [l|]; [|discriminate].
  intros H. apply existsb_exists in H as (m & Hm & H). apply existsb_exists. exists m. split; [exact Hm|].
  apply andb_true_iff in H as [H3 H4]. apply cls_eqb_eq in H3. rewrite H3, nlist_eqb_refl, H4. reflexivity.
Qed.

(** every state [reach] lists is the end of a chain of exactly [k] calls *)
Lemma outcomes_all_In c ci ss l o :
  outcomes_all c ci ss = Some l -> In o l ->
  exists w ex l', In (w, ex) ss /\ outcomes c (cd_of ci w) (cs_of ci w) w ex = Some l' /\ In o l'.
Proof.
  revert l. induction ss as [|[w ex] r IH]; intros l H Hin; cbn in H.
  - injection H as <-. destruct Hin.
  - apply opt_app_Some in H as (l1 & l2 & H1 & H2 & ->). apply in_app_iff in Hin as [Hin|Hin].
    + exists w, ex, l1. split; [left; reflexivity|]. split; assumption.
    + destruct (IH l2 H2 Hin) as (w' & ex' & l' & Hs & Ho & Hi).
      exists w', ex', l'. split; [right; exact Hs|]. split; assumption.
Qed.

Lemma reach_chain c ci k : forall ss l s',
  reach c ci k ss = Some l -> In s' l -> exists s, In s ss /\ chain c k s s'.
Proof.
  induction k as [|k IH]; intros ss l s' H Hin; cbn in H.
  - injection H as <-. exists s'. split; [exact Hin | apply chain_0].
  - destruct (outcomes_all c ci ss) as [ss'|] eqn:E; [|discriminate].
    destruct (IH ss' l s' H Hin) as (o & Ho & Hc).
    destruct (outcomes_all_In _ _ _ _ _ E Ho) as (w & ex & l' & Hs & Hl & Hi).
    exists (w, ex). split; [exact Hs|]. eapply chain_S; eassumption.
Qed.

Lemma reach_sound_l c ci k w ex l s' :
  reach c ci k [(w, ex)] = Some l -> In s' l -> chain c k (w, ex) s'.
Proof.
  intros H Hin. destruct (reach_chain c ci k _ _ _ H Hin) as (s & [<-|[]] & Hc). exact Hc.
Qed.

(** * Code-point mode: the text-level membership the runner uses is the cluster-level one *)
Lemma concat_singles_inj (a b : word) : singles a -> singles b -> concat a = concat b -> a = b.
Proof.
  unfold singles. revert b. induction a as [|x a IH]; intros b Ha Hb E.
  - destruct b as [|y b]; [reflexivity|]. inversion Hb as [|? ? Hy _]; subst.
    destruct y as [|y0 [|? ?]]; cbn in Hy, E; discriminate.
  - inversion Ha as [|? ? Hx Ha']; subst.
    destruct x as [|x0 [|? ?]]; cbn in Hx; try discriminate.
    destruct b as [|y b]; [cbn in E; discriminate|].
    inversion Hb as [|? ? Hy Hb']; subst.
    destruct y as [|y0 [|? ?]]; cbn in Hy; try discriminate.
    cbn in E. injection E as -> E. f_equal. apply IH; assumption.
Qed.

Lemma valid_edit_string c w ex k :
  valid_ed c w ex k ->
  match k with
  | EIns _ e => In e (itab_strings (itab c))
  | ERep _ e => In e (rtab_strings (rtab c))
  | _ => True
  end.
Proof.
  destruct k as [|i e|i|i e|i]; intros V; try exact Logic.I.
  - destruct V as (_ & _ & _ & _ & es & Hl & He).
    unfold itab_strings. apply in_flat_map.
    destruct (ins_lookup_In _ _ _ _ Hl) as (en & H1 & H2). exists en. split; [exact H1|].
    subst es. change (In e (map fst (snd en))). apply in_map_iff. exists (e, true). split; [reflexivity | exact He].
  - destruct V as (_ & _ & _ & s & es & _ & Hl & He).
    unfold rtab_strings. apply in_flat_map.
    destruct (rep_lookup_In _ _ _ _ _ Hl) as (en & H1 & H2). exists en. split; [exact H1|].
    subst es. change (In e (map fst (snd en))). apply in_map_iff. exists (e, true). split; [reflexivity | exact He].
Qed.

Lemma apply_word_singles c w ex k :
  cp_cfg c -> valid_ed c w ex k -> singles w -> singles (apply_word k w).
Proof.
  intros [Ci Cr] V Hw. pose proof (valid_edit_string c w ex k V) as Hs.
  pose proof (edit_shape_l c w ex k V) as Sh. unfold singles in *.
  destruct k as [|i e|i|i e|i].
  - rewrite Sh. exact Hw.
  - destruct Sh as (a & b & -> & _ & ->). apply Forall_app in Hw as [Ha Hb].
    apply Forall_app. split; [exact Ha|]. apply Forall_app. split; [apply Ci; exact Hs | exact Hb].
  - destruct Sh as (a & x & b & -> & _ & ->). apply Forall_app in Hw as [Ha Hb].
    inversion Hb; subst. apply Forall_app. split; assumption.
  - destruct Sh as (a & x & b & -> & _ & ->). apply Forall_app in Hw as [Ha Hb].
    inversion Hb; subst. apply Forall_app. split; [exact Ha|]. apply Forall_app. split; [apply Cr; exact Hs | assumption].
  - destruct Sh as (a & x & y & b & -> & _ & ->). apply Forall_app in Hw as [Ha Hb].
    inversion Hb as [|? ? Hx Hb']; subst. inversion Hb' as [|? ? Hy Hb'']; subst.
    apply Forall_app. split; [exact Ha|]. repeat constructor; assumption.
Qed.

Lemma step_agree_cp c s wv exv :
  cp_cfg c -> singles (s_w s) -> singles (v_cls wv) ->
  step_agree false c s (L [wv; exv]) = true -> step_agree true c s (L [wv; exv]) = true.
Proof.
  intros C Hw Hw'. unfold step_agree.
  destruct (outcomes c (s_cd s) (s_cs s) (s_w s) (s_ex s)) as [l|] eqn:E; [|discriminate].
  intros H. apply existsb_exists in H as (m & Hm & H). apply existsb_exists. exists m. split; [exact Hm|].
  apply andb_true_iff in H as [H1 H2]. rewrite H2, andb_true_r. apply nlist_eqb_eq in H1.
  destruct (outcomes_In _ _ _ _ _ _ _ E Hm) as (k & V & ->). cbn [fst] in *.
  apply cls_eqb_eq. apply concat_singles_inj; [|exact Hw'|exact H1].
  eapply apply_word_singles; eassumption.
Qed.

(** C06 — machine-integer model: one [build_batch] call, the loop, the two generator instances,
    the statements pinned in C06_Props.v. *)
From TU Require Import RNG_Model RNG_Proofs.
From TU Require Import Base C06_Model C06_Subseq C06_Proofs C06_Loop C06_Top C06_Seeded C06_Seeded_Proofs.
From TU Require Import C06_Machine C06_MachineProofs.
Require Import Lia Permutation.

Arguments N.add : simpl never.
Arguments N.sub : simpl never.
Arguments N.mul : simpl never.
Arguments N.ltb : simpl never.
Arguments N.leb : simpl never.
Arguments N.min : simpl never.
Arguments N.max : simpl never.
Arguments N.of_nat : simpl never.
Arguments N.to_nat : simpl never.

Definition liftb {A St} (r : @bres A * St) : mres (option (list A) * list A * list A * St) :=
  match r with
  | (BOk ob rest buf, st) => MOk (ob, rest, buf, st)
  | (BErr e, _) => MErr e
  end.

Section Step.
Context {A St : Type} (sizeN : A -> N) (p : profile) (fixed : bool) (ty : limit_type) (D : draws A St).
Context (n : nat) (smax LN PN : N).
Hypothesis Hn : (N.of_nat n + 2 < W)%N.
Hypothesis HL1 : (1 <= LN)%N.
Hypothesis HL : (LN <= UMAX)%N.
Hypothesis HP1 : (1 <= PN)%N.
Hypothesis Hfx : fixed = false ->
  (xmax ty (N.of_nat n) smax <= UMAX)%N /\ (LN * PN <= UMAX)%N.
(** what the draws must guarantee for the bound on the items in flight to be kept: a shuffle
    permutes (true of both instances: [apply_shuf_perm], [RNG_Proofs.shuffle_perm_l]) *)
Hypothesis Hshuf : forall st buf sb st', d_shuf D st buf = Some (sb, st') -> Permutation sb buf.

Notation sz := (sz sizeN).
Notation X := (xmax ty (N.of_nat n) smax).
Notation effL := (N.to_nat (eff_limit LN X)).
Notation effP := (N.to_nat (eff_prefetch LN PN X)).
Notation bnd := (bnd sizeN n smax).

Lemma mpop_batch_eq : forall (st : St) sb rest1, bnd sb ->
  mpop_batch sizeN p fixed ty LN st sb rest1 = liftb (pop_batch sz ty effL sb rest1, st).
Proof.
  intros st sb rest1 Hb. unfold mpop_batch, pop_batch.
  change (0%N, 0%N) with (limN (lim_from sz [])). change (0, 0) with (lim_from sz []).
  rewrite (mbatch_from_eq sizeN p fixed ty n smax LN PN Hn HL1 HL HP1 Hfx)
    by (cbn [app]; eapply bnd_perm; [apply Permutation_rev|exact Hb]).
  cbn [mbind]. destruct (batch_from sz ty effL [] (lim_from sz []) (rev sb)) as [[b rem] src']. reflexivity.
Qed.

Lemma nth_error_map_pairN : forall l i, nth_error (map pairN l) i = option_map pairN (nth_error l i).
Proof. intros l i. apply nth_error_map. Qed.

Lemma mstep_eq : forall sort shuffle st rest buf, bnd (buf ++ rest) ->
  mbuild_batch sizeN p fixed D sort shuffle LN PN ty st rest buf
  = liftb (gbuild_batch sz D sort shuffle effL effP ty st rest buf).
Proof.
  intros sort shuffle st rest buf Hb. unfold mbuild_batch, gbuild_batch.
  destruct (negb sort && negb shuffle) eqn:Em.
  - (* plain *)
    assert (Hplain : (do r <- mbatch_from sizeN p fixed ty LN [] (0%N, 0%N) (buf ++ rest);
                      (let '(b, rem, src') := r in
                       MOk (if is_nil b then None else Some b, src', opt_list rem, st)))
                     = liftb (let '(b, rem, src') := batch_from sz ty effL [] (0, 0) (buf ++ rest) in
                              BOk (if is_nil b then None else Some b) src' (opt_list rem), st)).
    { change (0%N, 0%N) with (limN (lim_from sz [])). change (0, 0) with (lim_from sz []).
      rewrite (mbatch_from_eq sizeN p fixed ty n smax LN PN Hn HL1 HL HP1 Hfx) by (cbn [app]; exact Hb).
      cbn [mbind]. destruct (batch_from sz ty effL [] (lim_from sz []) (buf ++ rest)) as [[b rem] src']. reflexivity. }
    destruct buf as [|x [|y buf]]; [exact Hplain|exact Hplain|reflexivity].
  - rewrite mlim_from_conv.
    rewrite (mfill_eq sizeN p fixed ty n smax LN PN Hn HL1 HL HP1 Hfx) by exact Hb. cbn [mbind].
    destruct (fill sz ty (effL * effP) (lim_from sz buf) buf rest) as [buf1 rest1] eqn:Ef.
    apply fill_spec in Ef. destruct Ef as [Heq _].
    assert (Hb1 : bnd buf1) by (apply (bnd_app_l sizeN n smax buf1 rest1); rewrite Heq; exact Hb).
    destruct (is_nil buf1); [reflexivity|].
    destruct sort.
    + rewrite (msort_by_eq sizeN).
      assert (Hsb : bnd (sort_by sz buf1)).
      { eapply bnd_perm; [|exact Hb1]. symmetry. apply sort_by_perm. }
      set (sb := sort_by sz buf1) in *.
      destruct shuffle; [|apply mpop_batch_eq; exact Hsb].
      rewrite (mfind_subseq_eq sizeN p fixed ty n smax LN PN Hn HL1 HL HP1 Hfx sb Hsb).
      destruct (find_subseq (fun s e => limit sz ty (slice sb s e)) effL (length sb)) as [subs|]; [|reflexivity].
      cbn [olift mbind]. destruct subs as [|q subs]; cbn [map].
      * destruct (rev sb); reflexivity.
      * change (pairN q :: map pairN subs) with (map pairN (q :: subs)).
        rewrite map_length. destruct (d_pick D st (length (q :: subs))) as [[i st']|]; [|reflexivity].
        rewrite nth_error_map_pairN.
        destruct (nth_error (q :: subs) i) as [[s e]|]; [|reflexivity]. cbn [option_map pairN fst snd].
        replace ((N.of_nat s <=? N.of_nat e)%N) with (s <=? e)
          by (destruct (N.leb_spec (N.of_nat s) (N.of_nat e)); destruct (Nat.leb_spec s e); try reflexivity; lia).
        replace ((N.of_nat e <=? N.of_nat (length sb))%N) with (e <=? length sb)
          by (destruct (N.leb_spec (N.of_nat e) (N.of_nat (length sb))); destruct (Nat.leb_spec e (length sb)); try reflexivity; lia).
        rewrite !Nat2N.id. destruct ((s <=? e) && (e <=? length sb)); reflexivity.
    + destruct shuffle; [|discriminate Em].
      destruct (d_shuf D st buf1) as [[sb st']|] eqn:Es; [|reflexivity].
      apply mpop_batch_eq. eapply bnd_perm; [|exact Hb1]. symmetry. eapply Hshuf. exact Es.
Qed.
End Step.

(** * the loop, for any draws whose steps keep a state invariant and permute the items in flight *)
Section Loop.
Context {A St : Type} (sizeN : A -> N) (p : profile) (fixed : bool) (ty : limit_type) (D : draws A St).
Context (n : nat) (smax LN PN : N).
Hypothesis Hn : (N.of_nat n + 2 < W)%N.
Hypothesis HL1 : (1 <= LN)%N.
Hypothesis HL : (LN <= UMAX)%N.
Hypothesis HP1 : (1 <= PN)%N.
Hypothesis Hfx : fixed = false ->
  (xmax ty (N.of_nat n) smax <= UMAX)%N /\ (LN * PN <= UMAX)%N.
Hypothesis Hshuf : forall st buf sb st', d_shuf D st buf = Some (sb, st') -> Permutation sb buf.
Context (Inv : St -> Prop).

Notation sz := (sz sizeN).
Notation X := (xmax ty (N.of_nat n) smax).
Notation effL := (N.to_nat (eff_limit LN X)).
Notation effP := (N.to_nat (eff_prefetch LN PN X)).
Notation bnd := (bnd sizeN n smax).

Hypothesis Hstep : forall sort shuffle L P st rest buf R st', Inv st -> length (buf ++ rest) <= n ->
  gbuild_batch sz D sort shuffle L P ty st rest buf = (R, st') ->
  Inv (d_next D st') /\
  (forall ob rest' buf', R = BOk ob rest' buf' -> Permutation (olist ob ++ buf' ++ rest') (buf ++ rest)).

Lemma mloop_eq : forall sort shuffle fuel st rest buf, Inv st -> bnd (buf ++ rest) ->
  mbatches_loop sizeN p fixed D sort shuffle LN PN ty fuel st rest buf
  = lift (gbatches_loop sz D sort shuffle effL effP ty fuel st rest buf).
Proof.
  intros sort shuffle. induction fuel as [|f IH]; intros st rest buf Hi Hb; [reflexivity|].
  cbn [mbatches_loop gbatches_loop].
  rewrite (mstep_eq sizeN p fixed ty D n smax LN PN Hn HL1 HL HP1 Hfx Hshuf) by exact Hb.
  destruct (gbuild_batch sz D sort shuffle effL effP ty st rest buf) as [R st'] eqn:E.
  destruct (Hstep _ _ _ _ _ _ _ _ _ Hi (proj1 Hb) E) as [Hi' Hp].
  destruct R as [ob rest' buf'|e]; cbn [liftb mbind]; [|reflexivity].
  destruct ob as [b|]; [|reflexivity].
  specialize (Hp _ _ _ eq_refl). cbn [olist] in Hp.
  rewrite IH.
  - destruct (gbatches_loop sz D sort shuffle effL effP ty f (d_next D st') rest' buf'); reflexivity.
  - exact Hi'.
  - apply (bnd_app_r sizeN n smax b). eapply bnd_perm; [symmetry; exact Hp|exact Hb].
Qed.
End Loop.

(** * the two instances are the two unbounded models *)
Section Instances.
Context {A : Type} (size : A -> nat).

Lemma gstep_oracle : forall o sort shuffle L P ty t (rest buf : list A),
  gbuild_batch size (D_oracle o) sort shuffle L P ty t rest buf
  = (build_batch size sort shuffle L P ty o t rest buf, t).
Proof.
  intros o sort shuffle L P ty t rest buf. unfold gbuild_batch, build_batch.
  destruct (negb sort && negb shuffle); [reflexivity|].
  destruct (fill size ty (L * P) (lim_from size buf) buf rest) as [buf1 rest1].
  destruct (is_nil buf1); [reflexivity|].
  destruct sort.
  - destruct shuffle; [|reflexivity].
    destruct (find_subseq _ L (length (sort_by size buf1))) as [[|q subs]|]; reflexivity.
  - cbn [D_oracle d_shuf].
    destruct (apply_shuf (shuf o t (length buf1)) buf1); reflexivity.
Qed.

Lemma gloop_oracle : forall o sort shuffle L P ty fuel t (rest buf : list A),
  gbatches_loop size (D_oracle o) sort shuffle L P ty fuel t rest buf
  = batches_loop size sort shuffle L P ty o fuel t rest buf.
Proof.
  intros o sort shuffle L P ty. induction fuel as [|f IH]; intros t rest buf; [reflexivity|].
  cbn [gbatches_loop batches_loop]. rewrite gstep_oracle.
  destruct (build_batch size sort shuffle L P ty o t rest buf) as [[b|] rest' buf'|e]; try reflexivity.
  cbn [D_oracle d_next]. rewrite IH. reflexivity.
Qed.

Lemma gstep_seeded : forall sort shuffle L P ty st (rest buf : list A),
  gbuild_batch size D_seeded sort shuffle L P ty st rest buf
  = build_batch_s size sort shuffle L P ty st rest buf.
Proof.
  intros sort shuffle L P ty st rest buf. unfold gbuild_batch, build_batch_s.
  destruct (negb sort && negb shuffle); [reflexivity|].
  destruct (fill size ty (L * P) (lim_from size buf) buf rest) as [buf1 rest1].
  destruct (is_nil buf1); [reflexivity|].
  destruct sort.
  - destruct shuffle; [|reflexivity].
    destruct (find_subseq _ L (length (sort_by size buf1))) as [[|q subs]|]; try reflexivity.
    cbn [D_seeded d_pick].
    destruct (random_range (N.of_nat (length (q :: subs))) st) as [[i st']|]; reflexivity.
  - cbn [D_seeded d_shuf]. destruct (RNG_Model.shuffle buf1 st); reflexivity.
Qed.

Lemma gloop_seeded : forall sort shuffle L P ty fuel st (rest buf : list A),
  gbatches_loop size D_seeded sort shuffle L P ty fuel st rest buf
  = batches_loop_s size sort shuffle L P ty fuel st rest buf.
Proof.
  intros sort shuffle L P ty. induction fuel as [|f IH]; intros st rest buf; [reflexivity|].
  cbn [gbatches_loop batches_loop_s]. rewrite gstep_seeded.
  destruct (build_batch_s size sort shuffle L P ty st rest buf) as [[[b|] rest' buf'|e] st']; try reflexivity.
  cbn [D_seeded d_next]. rewrite IH. reflexivity.
Qed.

Lemma oracle_shuf_perm : forall o t (buf sb : list A) t',
  d_shuf (D_oracle o) t buf = Some (sb, t') -> Permutation sb buf.
Proof.
  intros o t buf sb t' H. cbn [D_oracle d_shuf] in H.
  destruct (apply_shuf (shuf o t (length buf)) buf) as [sb'|] eqn:E; [|discriminate].
  injection H as <- _. eapply apply_shuf_perm; eauto.
Qed.

Lemma seeded_shuf_perm : forall st (buf sb : list A) st',
  d_shuf D_seeded st buf = Some (sb, st') -> Permutation sb buf.
Proof.
  intros st buf sb st' H. cbn [D_seeded d_shuf] in H. injection H as H.
  pose proof (RNG_Proofs.shuffle_perm_l buf st) as Hp. rewrite H in Hp. exact Hp.
Qed.

Lemma oracle_step_inv : forall o ty sort shuffle L P t (rest buf : list A) R t',
  gbuild_batch size (D_oracle o) sort shuffle L P ty t rest buf = (R, t') ->
  True /\
  (forall ob rest' buf', R = BOk ob rest' buf' -> Permutation (olist ob ++ buf' ++ rest') (buf ++ rest)).
Proof.
  intros o ty sort shuffle L P t rest buf R t' H. rewrite gstep_oracle in H. injection H as <- _.
  split; [exact Logic.I|]. intros ob rest' buf' E. apply build_batch_step in E. apply E.
Qed.

Lemma seeded_step_inv : forall n ty sort shuffle L P st (rest buf : list A) R st', fits n ->
  RNG_Proofs.wf st -> length (buf ++ rest) <= n ->
  gbuild_batch size D_seeded sort shuffle L P ty st rest buf = (R, st') ->
  RNG_Proofs.wf (d_next (@D_seeded A) st') /\
  (forall ob rest' buf', R = BOk ob rest' buf' -> Permutation (olist ob ++ buf' ++ rest') (buf ++ rest)).
Proof.
  intros n ty sort shuffle L P st rest buf R st' Hf Hw Hl H. rewrite gstep_seeded in H.
  assert (Hu : usize_ok (length (buf ++ rest))).
  { pose proof (fits_usize_ok n Hf) as Hu. unfold usize_ok, p64 in *. lia. }
  destruct (seeded_step size sort shuffle L P ty st rest buf R st' Hw Hu H) as [Hw' [d Hd]].
  split; [exact Hw'|]. intros ob rest' buf' E. specialize (Hd [] []). cbn [app length] in Hd.
  rewrite E in Hd. apply build_batch_step in Hd. apply Hd.
Qed.
End Instances.

(** * top level *)
Section TopLevel.
Context {A : Type} (sizeN : A -> N).
Notation sz := (sz sizeN).

Lemma smax_of_bound : forall (l : list A), Forall (fun a => (sizeN a <= smax_of sizeN l)%N) l.
Proof.
  induction l as [|a l IH]; constructor.
  - unfold smax_of. cbn [map fold_right]. lia.
  - eapply Forall_impl; [|exact IH]. intros b Hb. unfold smax_of in *. cbn [map fold_right]. lia.
Qed.

Lemma bnd_input : forall (input : list A), bnd sizeN (length input) (smax_of sizeN input) ([] ++ input).
Proof. intros input. split; [cbn [app]; lia|apply smax_of_bound]. Qed.

Lemma fits_Hn : forall n, fits n -> (N.of_nat n + 2 < W)%N.
Proof. intros n H. unfold fits, W in *. lia. Qed.

Lemma eff_pre_pos : forall LN PN X, (1 <= LN)%N -> (1 <= PN)%N -> (1 <= eff_prefetch LN PN X)%N.
Proof.
  intros LN PN X HL HP. unfold eff_prefetch.
  destruct (N.ltb_spec (LN * PN) UMAX); cbn [orb]; [exact HP|].
  destruct (N.leb_spec X (LN * PN)); [exact HP|]. nia.
Qed.

Lemma lift_cons_res : forall (b : list A) r,
  (do bs <- lift r; MOk (b :: bs)) = lift (cons_res b r).
Proof. intros b [bs|e]; reflexivity. Qed.

(** the configuration premise under which the pinned code is covered *)
Definition no_ovf (ty : limit_type) (prefetch limit_ : N) (input : list A) : Prop :=
  (eff_X sizeN ty input <= UMAX /\ N.max limit_ 1 * N.max prefetch 1 <= UMAX)%N.

Section Cfg.
Context (p : profile) (fixed sort shuffle : bool) (prefetch limit_ : N) (ty : limit_type) (input : list A).
Hypothesis Hlim : (limit_ < W)%N.
Hypothesis Hfit : fits (length input).
Hypothesis Hfx : fixed = false -> no_ovf ty prefetch limit_ input.

Notation LN := (N.max limit_ 1).
Notation PN := (N.max prefetch 1).
Notation effL := (N.to_nat (eff_lim sizeN ty limit_ input)).
Notation effP := (N.to_nat (eff_pre sizeN ty prefetch limit_ input)).

Lemma HLN : (LN <= UMAX)%N.
Proof. unfold W, UMAX in *. lia. Qed.

Lemma eff_max : Nat.max effL 1 = effL /\ Nat.max effP 1 = effP.
Proof.
  pose proof (eff_limit_pos LN (eff_X sizeN ty input) ltac:(lia)).
  pose proof (eff_pre_pos LN PN (eff_X sizeN ty input) ltac:(lia) ltac:(lia)).
  unfold eff_lim, eff_pre. lia.
Qed.

(** oracle level *)
Lemma machine_eff_gen_o : forall o,
  mbatches_o sizeN p fixed sort shuffle prefetch limit_ ty o input
  = lift (batches sz sort shuffle effP effL ty o input).
Proof.
  intros o. unfold mbatches_o, mbatches, batches.
  destruct eff_max as [-> ->].
  rewrite (mloop_eq sizeN p fixed ty (D_oracle o) (length input) (smax_of sizeN input) LN PN
             (fits_Hn _ Hfit) ltac:(lia) HLN ltac:(lia) Hfx (oracle_shuf_perm o) (fun _ => True)
             (fun sort shuffle L P st rest buf R st' _ _ H =>
                oracle_step_inv sz o ty sort shuffle L P st rest buf R st' H)
             sort shuffle (length input + 1) 0 input [] Logic.I (bnd_input input)).
  rewrite gloop_oracle. reflexivity.
Qed.

(** seeded level *)
Lemma machine_eff_gen_s : forall seed,
  mbatches_seeded sizeN p fixed sort shuffle prefetch limit_ ty seed input
  = lift (batches_seeded sz sort shuffle effP effL ty seed input).
Proof.
  intros seed. unfold mbatches_seeded, mbatches, batches_seeded.
  destruct eff_max as [-> ->].
  rewrite (mloop_eq sizeN p fixed ty D_seeded (length input) (smax_of sizeN input) LN PN
             (fits_Hn _ Hfit) ltac:(lia) HLN ltac:(lia) Hfx seeded_shuf_perm RNG_Proofs.wf
             (fun sort shuffle L P st rest buf R st' Hw Hl H =>
                seeded_step_inv sz (length input) ty sort shuffle L P st rest buf R st' Hfit Hw Hl H)
             sort shuffle (length input + 1) (seed_from_u64 seed) input [] (RNG_Proofs.wf_seed seed) (bnd_input input)).
  rewrite gloop_seeded. reflexivity.
Qed.
End Cfg.
End TopLevel.

(** C06 — machine-integer model: one [build_batch] call, the loop, the two generator instances,
    the statements pinned in C06_Props.v. *)
From TU Require Import RNG_Model RNG_Proofs.
From TU Require Import Base C06_Model C06_Subseq C06_Proofs C06_Loop C06_Top C06_Seeded C06_Seeded_Proofs.
From TU Require Import C06_Machine C06_MachineProofs.
Require Import Lia Permutation.

Arguments N.add : simpl never.
Arguments N.sub : simpl never.
Arguments N.mul : simpl never.
Arguments N.ltb : simpl never.
Arguments N.leb : simpl never.
Arguments N.min : simpl never.
Arguments N.max : simpl never.
Arguments N.of_nat : simpl never.
Arguments N.to_nat : simpl never.

Definition liftb {A St} (r : @bres A * St) : mres (option (list A) * list A * list A * St) :=
  match r with
  | (BOk ob rest buf, st) => MOk (ob, rest, buf, st)
  | (BErr e, _) => MErr e
  end.

Section Step.
Context {A St : Type} (sizeN : A -> N) (p : profile) (fixed : bool) (ty : limit_type) (D : draws A St).
Context (n : nat) (smax LN PN : N).
Hypothesis Hn : (N.of_nat n + 2 < W)%N.
Hypothesis HL1 : (1 <= LN)%N.
Hypothesis HL : (LN <= UMAX)%N.
Hypothesis HP1 : (1 <= PN)%N.
Hypothesis Hfx : fixed = false ->
  (xmax ty (N.of_nat n) smax <= UMAX)%N /\ (LN * PN <= UMAX)%N.
(** what the draws must guarantee for the bound on the items in flight to be kept: a shuffle
    permutes (true of both instances: [apply_shuf_perm], [RNG_Proofs.shuffle_perm_l]) *)
Hypothesis Hshuf : forall st buf sb st', d_shuf D st buf = Some (sb, st') -> Permutation sb buf.

Notation sz := (sz sizeN).
Notation X := (xmax ty (N.of_nat n) smax).
Notation effL := (N.to_nat (eff_limit LN X)).
Notation effP := (N.to_nat (eff_prefetch LN PN X)).
Notation bnd := (bnd sizeN n smax).

Lemma mpop_batch_eq : forall (st : St) sb rest1, bnd sb ->
  mpop_batch sizeN p fixed ty LN st sb rest1 = liftb (pop_batch sz ty effL sb rest1, st).
Proof.
  intros st sb rest1 Hb. unfold mpop_batch, pop_batch.
  change (0%N, 0%N) with (limN (lim_from sz [])). change (0, 0) with (lim_from sz []).
  rewrite (mbatch_from_eq sizeN p fixed ty n smax LN PN Hn HL1 HL HP1 Hfx)
    by (cbn [app]; eapply bnd_perm; [apply Permutation_rev|exact Hb]).
  cbn [mbind]. destruct (batch_from sz ty effL [] (lim_from sz []) (rev sb)) as [[b rem] src']. reflexivity.
Qed.

Lemma nth_error_map_pairN : forall l i, nth_error (map pairN l) i = option_map pairN (nth_error l i).
Proof. intros l i. apply nth_error_map. Qed.

Lemma mstep_eq : forall sort shuffle st rest buf, bnd (buf ++ rest) ->
  mbuild_batch sizeN p fixed D sort shuffle LN PN ty st rest buf
  = liftb (gbuild_batch sz D sort shuffle effL effP ty st rest buf).
Proof.
  intros sort shuffle st rest buf Hb. unfold mbuild_batch, gbuild_batch.
  destruct (negb sort && negb shuffle) eqn:Em.
  - (* plain *)
    assert (Hplain : (do r <- mbatch_from sizeN p fixed ty LN [] (0%N, 0%N) (buf ++ rest);
                      (let '(b, rem, src') := r in
                       MOk (if is_nil b then None else Some b, src', opt_list rem, st)))
                     = liftb (let '(b, rem, src') := batch_from sz ty effL [] (0, 0) (buf ++ rest) in
                              BOk (if is_nil b then None else Some b) src' (opt_list rem), st)).
    { change (0%N, 0%N) with (limN (lim_from sz [])). change (0, 0) with (lim_from sz []).
      rewrite (mbatch_from_eq sizeN p fixed ty n smax LN PN Hn HL1 HL HP1 Hfx) by (cbn [app]; exact Hb).
      cbn [mbind]. destruct (batch_from sz ty effL [] (lim_from sz []) (buf ++ rest)) as [[b rem] src']. reflexivity. }
    destruct buf as [|x [|y buf]]; [exact Hplain|exact Hplain|reflexivity].
  - rewrite mlim_from_conv.
    rewrite (mfill_eq sizeN p fixed ty n smax LN PN Hn HL1 HL HP1 Hfx) by exact Hb. cbn [mbind].
    destruct (fill sz ty (effL * effP) (lim_from sz buf) buf rest) as [buf1 rest1] eqn:Ef.
    apply fill_spec in Ef. destruct Ef as [Heq _].
    assert (Hb1 : bnd buf1) by (apply (bnd_app_l sizeN n smax buf1 rest1); rewrite Heq; exact Hb).
    destruct (is_nil buf1); [reflexivity|].
    destruct sort.
    + rewrite (msort_by_eq sizeN).
      assert (Hsb : bnd (sort_by sz buf1)).
      { eapply bnd_perm; [|exact Hb1]. symmetry. apply sort_by_perm. }
      set (sb := sort_by sz buf1) in *.
      destruct shuffle; [|apply mpop_batch_eq; exact Hsb].
      rewrite (mfind_subseq_eq sizeN p fixed ty n smax LN PN Hn HL1 HL HP1 Hfx sb Hsb).
      destruct (find_subseq (fun s e => limit sz ty (slice sb s e)) effL (length sb)) as [subs|]; [|reflexivity].
      cbn [olift mbind]. destruct subs as [|q subs]; cbn [map].
      * destruct (rev sb); reflexivity.
      * change (pairN q :: map pairN subs) with (map pairN (q :: subs)).
        rewrite map_length. destruct (d_pick D st (length (q :: subs))) as [[i st']|]; [|reflexivity].
        rewrite nth_error_map_pairN.
        destruct (nth_error (q :: subs) i) as [[s e]|]; [|reflexivity]. cbn [option_map pairN fst snd].
        replace ((N.of_nat s <=? N.of_nat e)%N) with (s <=? e)
          by (destruct (N.leb_spec (N.of_nat s) (N.of_nat e)); destruct (Nat.leb_spec s e); try reflexivity; lia).
        replace ((N.of_nat e <=? N.of_nat (length sb))%N) with (e <=? length sb)
          by (destruct (N.leb_spec (N.of_nat e) (N.of_nat (length sb))); destruct (Nat.leb_spec e (length sb)); try reflexivity; lia).
        rewrite !Nat2N.id. destruct ((s <=? e) && (e <=? length sb)); reflexivity.
    + destruct shuffle; [|discriminate Em].
      destruct (d_shuf D st buf1) as [[sb st']|] eqn:Es; [|reflexivity].
      apply mpop_batch_eq. eapply bnd_perm; [|exact Hb1]. symmetry. eapply Hshuf. exact Es.
Qed.
End Step.

(** * the loop, for any draws whose steps keep a state invariant and permute the items in flight *)
Section Loop.
Context {A St : Type} (sizeN : A -> N) (p : profile) (fixed : bool) (ty : limit_type) (D : draws A St).
Context (n : nat) (smax LN PN : N).
Hypothesis Hn : (N.of_nat n + 2 < W)%N.
Hypothesis HL1 : (1 <= LN)%N.
Hypothesis HL : (LN <= UMAX)%N.
Hypothesis HP1 : (1 <= PN)%N.
Hypothesis Hfx : fixed = false ->
  (xmax ty (N.of_nat n) smax <= UMAX)%N /\ (LN * PN <= UMAX)%N.
Hypothesis Hshuf : forall st buf sb st', d_shuf D st buf = Some (sb, st') -> Permutation sb buf.
Context (Inv : St -> Prop).

Notation sz := (sz sizeN).
Notation X := (xmax ty (N.of_nat n) smax).
Notation effL := (N.to_nat (eff_limit LN X)).
Notation effP := (N.to_nat (eff_prefetch LN PN X)).
Notation bnd := (bnd sizeN n smax).

Hypothesis Hstep : forall sort shuffle L P st rest buf R st', Inv st -> length (buf ++ rest) <= n ->
  gbuild_batch sz D sort shuffle L P ty st rest buf = (R, st') ->
  Inv (d_next D st') /\
  (forall ob rest' buf', R = BOk ob rest' buf' -> Permutation (olist ob ++ buf' ++ rest') (buf ++ rest)).

Lemma mloop_eq : forall sort shuffle fuel st rest buf, Inv st -> bnd (buf ++ rest) ->
  mbatches_loop sizeN p fixed D sort shuffle LN PN ty fuel st rest buf
  = lift (gbatches_loop sz D sort shuffle effL effP ty fuel st rest buf).
Proof.
  intros sort shuffle. induction fuel as [|f IH]; intros st rest buf Hi Hb; [reflexivity|].
  cbn [mbatches_loop gbatches_loop].
  rewrite (mstep_eq sizeN p fixed ty D n smax LN PN Hn HL1 HL HP1 Hfx Hshuf) by exact Hb.
  destruct (gbuild_batch sz D sort shuffle effL effP ty st rest buf) as [R st'] eqn:E.
  destruct (Hstep _ _ _ _ _ _ _ _ _ Hi (proj1 Hb) E) as [Hi' Hp].
  destruct R as [ob rest' buf'|e]; cbn [liftb mbind]; [|reflexivity].
  destruct ob as [b|]; [|reflexivity].
  specialize (Hp _ _ _ eq_refl). cbn [olist] in Hp.
  rewrite IH.
  - destruct (gbatches_loop sz D sort shuffle effL effP ty f (d_next D st') rest' buf'); reflexivity.
  - exact Hi'.
  - apply (bnd_app_r sizeN n smax b). eapply bnd_perm; [symmetry; exact Hp|exact Hb].
Qed.
End Loop.

(** * the two instances are the two unbounded models *)
Section Instances.
Context {A : Type} (size : A -> nat).

Lemma gstep_oracle : forall o sort shuffle L P ty t (rest buf : list A),
  gbuild_batch size (D_oracle o) sort shuffle L P ty t rest buf
  = (build_batch size sort shuffle L P ty o t rest buf, t).
Proof.
  intros o sort shuffle L P ty t rest buf. unfold gbuild_batch, build_batch.
  destruct (negb sort && negb shuffle); [reflexivity|].
  destruct (fill size ty (L * P) (lim_from size buf) buf rest) as [buf1 rest1].
  destruct (is_nil buf1); [reflexivity|].
  destruct sort.
  - destruct shuffle; [|reflexivity].
    destruct (find_subseq _ L (length (sort_by size buf1))) as [[|q subs]|]; reflexivity.
  - cbn [D_oracle d_shuf].
    destruct (apply_shuf (shuf o t (length buf1)) buf1); reflexivity.
Qed.

Lemma gloop_oracle : forall o sort shuffle L P ty fuel t (rest buf : list A),
  gbatches_loop size (D_oracle o) sort shuffle L P ty fuel t rest buf
  = batches_loop size sort shuffle L P ty o fuel t rest buf.
Proof.
  intros o sort shuffle L P ty. induction fuel as [|f IH]; intros t rest buf; [reflexivity|].
  cbn [gbatches_loop batches_loop]. rewrite gstep_oracle.
  destruct (build_batch size sort shuffle L P ty o t rest buf) as [[b|] rest' buf'|e]; try reflexivity.
  cbn [D_oracle d_next]. rewrite IH. reflexivity.
Qed.

Lemma gstep_seeded : forall sort shuffle L P ty st (rest buf : list A),
  gbuild_batch size D_seeded sort shuffle L P ty st rest buf
  = build_batch_s size sort shuffle L P ty st rest buf.
Proof.
  intros sort shuffle L P ty st rest buf. unfold gbuild_batch, build_batch_s.
  destruct (negb sort && negb shuffle); [reflexivity|].
  destruct (fill size ty (L * P) (lim_from size buf) buf rest) as [buf1 rest1].
  destruct (is_nil buf1); [reflexivity|].
  destruct sort.
  - destruct shuffle; [|reflexivity].
    destruct (find_subseq _ L (length (sort_by size buf1))) as [[|q subs]|]; try reflexivity.
    cbn [D_seeded d_pick].
    destruct (random_range (N.of_nat (length (q :: subs))) st) as [[i st']|]; reflexivity.
  - cbn [D_seeded d_shuf]. destruct (RNG_Model.shuffle buf1 st); reflexivity.
Qed.

Lemma gloop_seeded : forall sort shuffle L P ty fuel st (rest buf : list A),
  gbatches_loop size D_seeded sort shuffle L P ty fuel st rest buf
  = batches_loop_s size sort shuffle L P ty fuel st rest buf.
Proof.
  intros sort shuffle L P ty. induction fuel as [|f IH]; intros st rest buf; [reflexivity|].
  cbn [gbatches_loop batches_loop_s]. rewrite gstep_seeded.
  destruct (build_batch_s size sort shuffle L P ty st rest buf) as [[[b|] rest' buf'|e] st']; try reflexivity.
  cbn [D_seeded d_next]. rewrite IH. reflexivity.
Qed.

Lemma oracle_shuf_perm : forall o t (buf sb : list A) t',
  d_shuf (D_oracle o) t buf = Some (sb, t') -> Permutation sb buf.
Proof.
  intros o t buf sb t' H. cbn [D_oracle d_shuf] in H.
  destruct (apply_shuf (shuf o t (length buf)) buf) as [sb'|] eqn:E; [|discriminate].
  injection H as <- _. eapply apply_shuf_perm; eauto.
Qed.

Lemma seeded_shuf_perm : forall st (buf sb : list A) st',
  d_shuf D_seeded st buf = Some (sb, st') -> Permutation sb buf.
Proof.
  intros st buf sb st' H. cbn [D_seeded d_shuf] in H. injection H as H.
  pose proof (RNG_Proofs.shuffle_perm_l buf st) as Hp. rewrite H in Hp. exact Hp.
Qed.

Lemma oracle_step_inv : forall o ty sort shuffle L P t (rest buf : list A) R t',
  gbuild_batch size (D_oracle o) sort shuffle L P ty t rest buf = (R, t') ->
  True /\
  (forall ob rest' buf', R = BOk ob rest' buf' -> Permutation (olist ob ++ buf' ++ rest') (buf ++ rest)).
Proof.
  intros o ty sort shuffle L P t rest buf R t' H. rewrite gstep_oracle in H. injection H as <- _.
  split; [exact Logic.I|]. intros ob rest' buf' E. apply build_batch_step in E. apply E.
Qed.

Lemma seeded_step_inv : forall n ty sort shuffle L P st (rest buf : list A) R st', fits n ->
  RNG_Proofs.wf st -> length (buf ++ rest) <= n ->
  gbuild_batch size D_seeded sort shuffle L P ty st rest buf = (R, st') ->
  RNG_Proofs.wf (d_next (@D_seeded A) st') /\
  (forall ob rest' buf', R = BOk ob rest' buf' -> Permutation (olist ob ++ buf' ++ rest') (buf ++ rest)).
Proof.
  intros n ty sort shuffle L P st rest buf R st' Hf Hw Hl H. rewrite gstep_seeded in H.
  assert (Hu : usize_ok (length (buf ++ rest))).
  { pose proof (fits_usize_ok n Hf) as Hu. unfold usize_ok, p64 in *. lia. }
  destruct (seeded_step size sort shuffle L P ty st rest buf R st' Hw Hu H) as [Hw' [d Hd]].
  split; [exact Hw'|]. intros ob rest' buf' E. specialize (Hd [] []). cbn [app length] in Hd.
  rewrite E in Hd. apply build_batch_step in Hd. apply Hd.
Qed.
End Instances.

(** * top level *)
Section TopLevel.
Context {A : Type} (sizeN : A -> N).
Notation sz := (sz sizeN).

Lemma smax_of_bound : forall (l : list A), Forall (fun a => (sizeN a <= smax_of sizeN l)%N) l.
Proof.
  induction l as [|a l IH]; constructor.
  - unfold smax_of. cbn [map fold_right]. lia.
  - eapply Forall_impl; [|exact IH]. intros b Hb. unfold smax_of in *. cbn [map fold_right]. lia.
Qed.

Lemma bnd_input : forall (input : list A), bnd sizeN (length input) (smax_of sizeN input) ([] ++ input).
Proof. intros input. split; [cbn [app]; lia|apply smax_of_bound]. Qed.

Lemma fits_Hn : forall n, fits n -> (N.of_nat n + 2 < W)%N.
Proof. intros n H. unfold fits, W in *. lia. Qed.

Lemma eff_pre_pos : forall LN PN X, (1 <= LN)%N -> (1 <= PN)%N -> (1 <= eff_prefetch LN PN X)%N.
Proof.
  intros LN PN X HL HP. unfold eff_prefetch.
  destruct (N.ltb_spec (LN * PN) UMAX); cbn [orb]; [exact HP|].
  destruct (N.leb_spec X (LN * PN)); [exact HP|]. nia.
Qed.

Lemma lift_cons_res : forall (b : list A) r,
  (do bs <- lift r; MOk (b :: bs)) = lift (cons_res b r).
Proof. intros b [bs|e]; reflexivity. Qed.

(** the configuration premise under which the pinned code is covered *)
Definition no_ovf (ty : limit_type) (prefetch limit_ : N) (input : list A) : Prop :=
  (eff_X sizeN ty input <= UMAX /\ N.max limit_ 1 * N.max prefetch 1 <= UMAX)%N.

Section Cfg.
Context (p : profile) (fixed sort shuffle : bool) (prefetch limit_ : N) (ty : limit_type) (input : list A).
Hypothesis Hlim : (limit_ < W)%N.
Hypothesis Hfit : fits (length input).
Hypothesis Hfx : fixed = false -> no_ovf ty prefetch limit_ input.

Notation LN := (N.max limit_ 1).
Notation PN := (N.max prefetch 1).
Notation effL := (N.to_nat (eff_lim sizeN ty limit_ input)).
Notation effP := (N.to_nat (eff_pre sizeN ty prefetch limit_ input)).

Lemma HLN : (LN <= UMAX)%N.
Proof. unfold W, UMAX in *. lia. Qed.

Lemma eff_max : Nat.max effL 1 = effL /\ Nat.max effP 1 = effP.
Proof.
  pose proof (eff_limit_pos LN (eff_X sizeN ty input) ltac:(lia)).
  pose proof (eff_pre_pos LN PN (eff_X sizeN ty input) ltac:(lia) ltac:(lia)).
  unfold eff_lim, eff_pre. lia.
Qed.

(** oracle level *)
Lemma machine_eff_gen_o : forall o,
  mbatches_o sizeN p fixed sort shuffle prefetch limit_ ty o input
  = lift (batches sz sort shuffle effP effL ty o input).
Proof.
  intros o. unfold mbatches_o, mbatches, batches.
  destruct eff_max as [-> ->].
  rewrite (mloop_eq sizeN p fixed ty (D_oracle o) (length input) (smax_of sizeN input) LN PN
             (fits_Hn _ Hfit) ltac:(lia) HLN ltac:(lia) Hfx (oracle_shuf_perm o) (fun _ => True)
             (fun sort shuffle L P st rest buf R st' _ _ H =>
                oracle_step_inv sz o ty sort shuffle L P st rest buf R st' H)
             sort shuffle (length input + 1) 0 input [] Logic.I (bnd_input input)).
  rewrite gloop_oracle. reflexivity.
Qed.

(** seeded level *)
Lemma machine_eff_gen_s : forall seed,
  mbatches_seeded sizeN p fixed sort shuffle prefetch limit_ ty seed input
  = lift (batches_seeded sz sort shuffle effP effL ty seed input).
Proof.
  intros seed. unfold mbatches_seeded, mbatches, batches_seeded.
  destruct eff_max as [-> ->].
  rewrite (mloop_eq sizeN p fixed ty D_seeded (length input) (smax_of sizeN input) LN PN
             (fits_Hn _ Hfit) ltac:(lia) HLN ltac:(lia) Hfx seeded_shuf_perm RNG_Proofs.wf
             (fun sort shuffle L P st rest buf R st' Hw Hl H =>
                seeded_step_inv sz (length input) ty sort shuffle L P st rest buf R st' Hfit Hw Hl H)
             sort shuffle (length input + 1) (seed_from_u64 seed) input [] (RNG_Proofs.wf_seed seed) (bnd_input input)).
  rewrite gloop_seeded. reflexivity.
Qed.
End Cfg.
End TopLevel.

(** * corollaries: the pinned statements *)
Section Corollaries.
Context {A : Type} (sizeN : A -> N).
Notation sz := (sz sizeN).

Lemma limitN_conv : forall ty (b : list A), limitN sizeN ty b = N.of_nat (limit sz ty b).
Proof.
  intros ty b. unfold limitN, limit, lim_val, lim_from, smax_of. cbn [fst snd]. rewrite smax_conv.
  destruct ty; lia.
Qed.

Lemma lift_ok : forall B (r : res B) x, lift r = MOk x -> r = Ok x.
Proof. intros B [y|e] x H; [injection H as <-; reflexivity|discriminate]. Qed.

(** below usize::MAX the limit is its own effective limit *)
Lemma eff_lim_below : forall ty limit_ (input : list A), lim_exact sizeN ty limit_ input ->
  eff_lim sizeN ty limit_ input = N.max limit_ 1.
Proof.
  intros ty limit_ input [H|H]; unfold eff_lim, eff_limit.
  - destruct (N.ltb_spec (N.max limit_ 1) UMAX); [reflexivity|]. unfold UMAX in *. lia.
  - destruct (N.leb_spec (eff_X sizeN ty input) UMAX); [|lia]. rewrite orb_true_r. reflexivity.
Qed.

Lemma eff_exact : forall ty prefetch limit_ (input : list A), (limit_ < W)%N ->
  no_sat sizeN ty prefetch limit_ input ->
  eff_lim sizeN ty limit_ input = N.max limit_ 1 /\ eff_pre sizeN ty prefetch limit_ input = N.max prefetch 1.
Proof.
  intros ty prefetch limit_ input Hl Hs. unfold no_sat, eff_lim, eff_pre, eff_limit, eff_prefetch in *.
  set (LN := N.max limit_ 1) in *. set (PN := N.max prefetch 1) in *. set (X := eff_X sizeN ty input) in *.
  assert (HLP : (LN <= LN * PN)%N) by (subst LN PN; nia).
  assert (HLU : (LN <= UMAX)%N) by (subst LN; unfold W, UMAX in *; lia).
  destruct Hs as [Hs|Hs].
  - destruct (N.ltb_spec LN UMAX); [|lia]. destruct (N.ltb_spec (LN * PN) UMAX); [|lia]. auto.
  - destruct (N.leb_spec X UMAX); [|lia]. rewrite orb_true_r. split; [reflexivity|].
    destruct (N.ltb_spec (LN * PN) UMAX); [reflexivity|]. cbn [orb].
    destruct (N.leb_spec X (LN * PN)); [reflexivity|lia].
Qed.

Lemma batches_clamp : forall sort shuffle (prefetch limit_ : N) ty o (input : list A),
  batches sz sort shuffle (N.to_nat (N.max prefetch 1)) (N.to_nat (N.max limit_ 1)) ty o input
  = batches sz sort shuffle (N.to_nat prefetch) (N.to_nat limit_) ty o input.
Proof.
  intros. unfold batches.
  replace (Nat.max (N.to_nat (N.max limit_ 1)) 1) with (Nat.max (N.to_nat limit_) 1) by lia.
  replace (Nat.max (N.to_nat (N.max prefetch 1)) 1) with (Nat.max (N.to_nat prefetch) 1) by lia.
  reflexivity.
Qed.
Lemma batches_seeded_clamp : forall sort shuffle (prefetch limit_ : N) ty seed (input : list A),
  batches_seeded sz sort shuffle (N.to_nat (N.max prefetch 1)) (N.to_nat (N.max limit_ 1)) ty seed input
  = batches_seeded sz sort shuffle (N.to_nat prefetch) (N.to_nat limit_) ty seed input.
Proof.
  intros. unfold batches_seeded.
  replace (Nat.max (N.to_nat (N.max limit_ 1)) 1) with (Nat.max (N.to_nat limit_) 1) by lia.
  replace (Nat.max (N.to_nat (N.max prefetch 1)) 1) with (Nat.max (N.to_nat prefetch) 1) by lia.
  reflexivity.
Qed.

(** ** the repaired code: effective parameters, for every input *)
Lemma machine_eff_o_l : forall p sort shuffle prefetch limit_ ty o (input : list A),
  (limit_ < W)%N -> fits (length input) ->
  mbatches_o sizeN p true sort shuffle prefetch limit_ ty o input
  = lift (batches sz sort shuffle (N.to_nat (eff_pre sizeN ty prefetch limit_ input))
                  (N.to_nat (eff_lim sizeN ty limit_ input)) ty o input).
Proof.
  intros p sort shuffle prefetch limit_ ty o input Hl Hf.
  apply machine_eff_gen_o; auto. intros H. discriminate H.
Qed.
Lemma machine_eff_s_l : forall p sort shuffle prefetch limit_ ty seed (input : list A),
  (limit_ < W)%N -> fits (length input) ->
  mbatches_seeded sizeN p true sort shuffle prefetch limit_ ty seed input
  = lift (batches_seeded sz sort shuffle (N.to_nat (eff_pre sizeN ty prefetch limit_ input))
                         (N.to_nat (eff_lim sizeN ty limit_ input)) ty seed input).
Proof.
  intros p sort shuffle prefetch limit_ ty seed input Hl Hf.
  apply machine_eff_gen_s; auto. intros H. discriminate H.
Qed.

(** never a fault, a panic or an exhausted fuel: every oracle *)
Lemma machine_safe_o_l : forall p sort shuffle prefetch limit_ ty o (input : list A),
  (limit_ < W)%N -> fits (length input) ->
  (exists bs, mbatches_o sizeN p true sort shuffle prefetch limit_ ty o input = MOk bs) \/
  (mbatches_o sizeN p true sort shuffle prefetch limit_ ty o input = MErr BadOracle /\ ~ oracle_guard o).
Proof.
  intros p sort shuffle prefetch limit_ ty o input Hl Hf. rewrite machine_eff_o_l by assumption.
  destruct (batches_safe_l sz sort shuffle (N.to_nat (eff_pre sizeN ty prefetch limit_ input))
              (N.to_nat (eff_lim sizeN ty limit_ input)) ty o input) as (H1 & H2 & H3).
  destruct (batches sz sort shuffle _ _ ty o input) as [bs|[]]; cbn [lift].
  - left. eauto.
  - congruence.
  - right. split; [reflexivity|apply H3; reflexivity].
  - congruence.
Qed.

Lemma machine_total_o_l : forall p sort shuffle prefetch limit_ ty o (input : list A),
  (limit_ < W)%N -> fits (length input) -> oracle_guard o ->
  exists bs, mbatches_o sizeN p true sort shuffle prefetch limit_ ty o input = MOk bs.
Proof.
  intros p sort shuffle prefetch limit_ ty o input Hl Hf Hg.
  destruct (machine_safe_o_l p sort shuffle prefetch limit_ ty o input Hl Hf) as [H|[_ H]]; [exact H|contradiction].
Qed.

Lemma machine_total_s_l : forall p sort shuffle prefetch limit_ ty seed (input : list A),
  (limit_ < W)%N -> fits (length input) ->
  exists bs, mbatches_seeded sizeN p true sort shuffle prefetch limit_ ty seed input = MOk bs.
Proof.
  intros p sort shuffle prefetch limit_ ty seed input Hl Hf. rewrite machine_eff_s_l by assumption.
  destruct (seeded_total_l sz sort shuffle (N.to_nat (eff_pre sizeN ty prefetch limit_ input))
              (N.to_nat (eff_lim sizeN ty limit_ input)) ty seed input Hf) as [bs ->].
  exists bs. reflexivity.
Qed.

(** the clauses, from the unbounded statement under the effective limit *)
Lemma props_transfer : forall ty limit_ (input : list A) bs,
  (Permutation (concat bs) input /\ Forall (fun b => b <> []) bs /\
   Forall (fun b => 1 < length b -> limit sz ty b <= Nat.max (N.to_nat (eff_lim sizeN ty limit_ input)) 1) bs) ->
  Permutation (concat bs) input /\ Forall (fun b => b <> []) bs /\
  (lim_exact sizeN ty limit_ input -> Forall (fun b => 1 < length b -> (limitN sizeN ty b <= N.max limit_ 1)%N) bs).
Proof.
  intros ty limit_ input bs (Hp & Hne & Hl). split; [exact Hp|]. split; [exact Hne|].
  intros Hlt. rewrite (eff_lim_below ty limit_ input Hlt) in Hl.
  eapply Forall_impl; [|exact Hl]. cbn beta. intros b Hb H1. specialize (Hb H1).
  rewrite limitN_conv. lia.
Qed.

Lemma machine_props_o_l : forall p sort shuffle prefetch limit_ ty o (input : list A) bs,
  (limit_ < W)%N -> fits (length input) ->
  mbatches_o sizeN p true sort shuffle prefetch limit_ ty o input = MOk bs ->
  Permutation (concat bs) input /\ Forall (fun b => b <> []) bs /\
  (lim_exact sizeN ty limit_ input -> Forall (fun b => 1 < length b -> (limitN sizeN ty b <= N.max limit_ 1)%N) bs).
Proof.
  intros p sort shuffle prefetch limit_ ty o input bs Hl Hf H. rewrite machine_eff_o_l in H by assumption.
  apply lift_ok in H. apply props_transfer. exact (batches_props_l sz _ _ _ _ _ _ _ _ H).
Qed.

Lemma machine_props_s_l : forall p sort shuffle prefetch limit_ ty seed (input : list A) bs,
  (limit_ < W)%N -> fits (length input) ->
  mbatches_seeded sizeN p true sort shuffle prefetch limit_ ty seed input = MOk bs ->
  Permutation (concat bs) input /\ Forall (fun b => b <> []) bs /\
  (lim_exact sizeN ty limit_ input -> Forall (fun b => 1 < length b -> (limitN sizeN ty b <= N.max limit_ 1)%N) bs).
Proof.
  intros p sort shuffle prefetch limit_ ty seed input bs Hl Hf H. rewrite machine_eff_s_l in H by assumption.
  apply lift_ok in H. apply props_transfer. exact (seeded_props_l sz _ _ _ _ _ _ _ _ Hf H).
Qed.

Lemma plain_transfer : forall ty limit_ (input : list A) bs,
  (concat bs = input /\
   forall i b b' x, nth_error bs i = Some b -> nth_error bs (S i) = Some (x :: b') ->
     Nat.max (N.to_nat (eff_lim sizeN ty limit_ input)) 1 < limit sz ty (b ++ [x])) ->
  concat bs = input /\
  (lim_exact sizeN ty limit_ input -> forall i b b' x, nth_error bs i = Some b -> nth_error bs (S i) = Some (x :: b') ->
     (N.max limit_ 1 < limitN sizeN ty (b ++ [x]))%N).
Proof.
  intros ty limit_ input bs [Hc Hg]. split; [exact Hc|].
  intros Hlt i b b' x Hi Hsi. specialize (Hg i b b' x Hi Hsi).
  rewrite (eff_lim_below ty limit_ input Hlt) in Hg. rewrite limitN_conv. lia.
Qed.

Lemma machine_plain_o_l : forall p prefetch limit_ ty o (input : list A) bs,
  (limit_ < W)%N -> fits (length input) ->
  mbatches_o sizeN p true false false prefetch limit_ ty o input = MOk bs ->
  concat bs = input /\
  (lim_exact sizeN ty limit_ input -> forall i b b' x, nth_error bs i = Some b -> nth_error bs (S i) = Some (x :: b') ->
     (N.max limit_ 1 < limitN sizeN ty (b ++ [x]))%N).
Proof.
  intros p prefetch limit_ ty o input bs Hl Hf H. rewrite machine_eff_o_l in H by assumption.
  apply lift_ok in H. apply plain_transfer.
  split; [exact (plain_order_l _ sz _ _ _ _ _ _ H)|exact (plain_greedy_l _ sz _ _ _ _ _ _ H)].
Qed.

Lemma machine_plain_s_l : forall p prefetch limit_ ty seed (input : list A) bs,
  (limit_ < W)%N -> fits (length input) ->
  mbatches_seeded sizeN p true false false prefetch limit_ ty seed input = MOk bs ->
  concat bs = input /\
  (lim_exact sizeN ty limit_ input -> forall i b b' x, nth_error bs i = Some b -> nth_error bs (S i) = Some (x :: b') ->
     (N.max limit_ 1 < limitN sizeN ty (b ++ [x]))%N).
Proof.
  intros p prefetch limit_ ty seed input bs Hl Hf H. rewrite machine_eff_s_l in H by assumption.
  apply lift_ok in H. apply plain_transfer. exact (seeded_plain_l sz _ _ _ _ _ _ Hf H).
Qed.

(** ** equality with the unbounded model under the given configuration *)
Lemma machine_eq_model_o_l : forall p sort shuffle prefetch limit_ ty o (input : list A),
  (limit_ < W)%N -> fits (length input) -> no_sat sizeN ty prefetch limit_ input ->
  mbatches_o sizeN p true sort shuffle prefetch limit_ ty o input
  = lift (batches sz sort shuffle (N.to_nat prefetch) (N.to_nat limit_) ty o input).
Proof.
  intros p sort shuffle prefetch limit_ ty o input Hl Hf Hs. rewrite machine_eff_o_l by assumption.
  destruct (eff_exact ty prefetch limit_ input Hl Hs) as [-> ->]. rewrite batches_clamp. reflexivity.
Qed.

Lemma machine_eq_model_s_l : forall p sort shuffle prefetch limit_ ty seed (input : list A),
  (limit_ < W)%N -> fits (length input) -> no_sat sizeN ty prefetch limit_ input ->
  mbatches_seeded sizeN p true sort shuffle prefetch limit_ ty seed input
  = lift (batches_seeded sz sort shuffle (N.to_nat prefetch) (N.to_nat limit_) ty seed input).
Proof.
  intros p sort shuffle prefetch limit_ ty seed input Hl Hf Hs. rewrite machine_eff_s_l by assumption.
  destruct (eff_exact ty prefetch limit_ input Hl Hs) as [-> ->]. rewrite batches_seeded_clamp. reflexivity.
Qed.

(** BatchSize: no premise at all *)
Lemma no_sat_batch_size : forall prefetch limit_ (input : list A), fits (length input) ->
  no_sat sizeN BatchSize prefetch limit_ input.
Proof. intros prefetch limit_ input Hf. right. unfold eff_X, xmax, fits, UMAX in *. lia. Qed.

(** ** debug and release builds compute the same *)
Lemma machine_profiles_agree_l : forall sort shuffle prefetch limit_ ty (input : list A),
  (limit_ < W)%N -> fits (length input) ->
  (forall o, mbatches_o sizeN Checked true sort shuffle prefetch limit_ ty o input
             = mbatches_o sizeN Wrapping true sort shuffle prefetch limit_ ty o input) /\
  (forall seed, mbatches_seeded sizeN Checked true sort shuffle prefetch limit_ ty seed input
                = mbatches_seeded sizeN Wrapping true sort shuffle prefetch limit_ ty seed input).
Proof.
  intros sort shuffle prefetch limit_ ty input Hl Hf. split; intros x.
  - rewrite !machine_eff_o_l by assumption. reflexivity.
  - rewrite !machine_eff_s_l by assumption. reflexivity.
Qed.

(** ** the pinned code: where neither product overflows it is the repaired code *)
Lemma pinned_agrees_elsewhere_l : forall p sort shuffle prefetch limit_ ty (input : list A),
  (limit_ < W)%N -> fits (length input) -> no_ovf sizeN ty prefetch limit_ input ->
  (forall o, mbatches_o sizeN p false sort shuffle prefetch limit_ ty o input
             = mbatches_o sizeN p true sort shuffle prefetch limit_ ty o input) /\
  (forall seed, mbatches_seeded sizeN p false sort shuffle prefetch limit_ ty seed input
                = mbatches_seeded sizeN p true sort shuffle prefetch limit_ ty seed input).
Proof.
  intros p sort shuffle prefetch limit_ ty input Hl Hf Hn. split; intros x.
  - rewrite (machine_eff_gen_o sizeN p false) by auto. rewrite machine_eff_o_l by assumption. reflexivity.
  - rewrite (machine_eff_gen_s sizeN p false) by auto. rewrite machine_eff_s_l by assumption. reflexivity.
Qed.

(** ... and with overflow checks every configuration whose buffer bound is no usize faults at
    site 4 in the first call of next(), whatever the input (even an empty one) *)
Lemma pinned_bound_faults_l : forall St (D : draws A St) sort shuffle prefetch limit_ ty st0 (input : list A),
  sort || shuffle = true -> (W <= N.max limit_ 1 * N.max prefetch 1)%N ->
  mbatches sizeN Checked false D sort shuffle prefetch limit_ ty st0 input = MFault 4.
Proof.
  intros St D sort shuffle prefetch limit_ ty st0 input Hm Hw. unfold mbatches.
  rewrite Nat.add_1_r. cbn [mbatches_loop]. unfold mbuild_batch.
  replace (negb sort && negb shuffle) with false by (destruct sort, shuffle; try reflexivity; discriminate).
  assert (Hv : mlim_val Checked false ty (mlim_from sizeN []) = MOk 0%N).
  { unfold mlim_val, mlim_from. cbn [length map fold_right fst snd]. change (N.of_nat 0) with 0%N.
    destruct ty; [reflexivity|]. rewrite mmul_ok by (unfold W; lia). reflexivity. }
  assert (Hb : mbound Checked false (N.max limit_ 1) (N.max prefetch 1) = MFault 4).
  { unfold mbound, mmul, mul_o. cbn zeta.
    destruct (N.ltb_spec (N.max limit_ 1 * N.max prefetch 1) W); [lia|reflexivity]. }
  destruct input as [|x input]; cbn [mfill]; rewrite Hv; cbn [mbind]; rewrite Hb; reflexivity.
Qed.
End Corollaries.

(** * witnesses (items = (position, size)) *)
Definition p63 : N := 9223372036854775808.

(** the pinned code with overflow checks: padded limit 5, sizes 2^63, 1, 1, no sort, no shuffle:
    [2 * 2^63] in [limit()] faults (site 3); the unbounded model and the repaired code answer *)
Lemma pinned_no_fault_refuted_l :
  mbatches_o misize Checked false false false 1 5 Padded o_default (mk_mitems [p63; 1; 1]%N) = MFault 3 /\
  mbatches_o misize Checked true false false 1 5 Padded o_default (mk_mitems [p63; 1; 1]%N)
  = MOk [[(0, p63)]; [(1, 1%N); (2, 1%N)]].
Proof. split; vm_compute; reflexivity. Qed.

(** the same input without overflow checks: the product wraps to 0 <= 5 and the first batch holds
    two items of padded size 2^64 > 5 *)
Lemma pinned_wrapping_limit_refuted_l :
  mbatches_o misize Wrapping false false false 1 5 Padded o_default (mk_mitems [p63; 1; 1]%N)
  = MOk [[(0, p63); (1, 1%N)]; [(2, 1%N)]] /\
  (5 < limitN misize Padded [(0%nat, p63); (1%nat, 1)])%N.
Proof. split; vm_compute; reflexivity. Qed.

(** limit 2^63, prefetch factor 2, sort: the wrapped bound is 0 and the buffer holds one item at a
    time (three batches); the repaired code fills the buffer (one batch) *)
Lemma pinned_wrapping_bound_refuted_l :
  mbatches_o misize Wrapping false true false 2 p63 BatchSize o_default (mk_mitems [1; 2; 3]%N)
  = MOk [[(0, 1%N)]; [(1, 2%N)]; [(2, 3%N)]] /\
  mbatches_o misize Wrapping true true false 2 p63 BatchSize o_default (mk_mitems [1; 2; 3]%N)
  = MOk [[(2, 3%N); (1, 2%N); (0, 1%N)]].
Proof. split; vm_compute; reflexivity. Qed.

(** the repaired code with limit = usize::MAX: the saturated product never exceeds the limit, two
    items of 2^63 share a batch although 2 * 2^63 > usize::MAX (known finding LIMIT-MAX) *)
Lemma machine_limit_max_refuted_l : forall p,
  mbatches_o misize p true false false 1 UMAX Padded o_default (mk_mitems [p63; p63])
  = MOk [[(0, p63); (1, p63)]] /\
  (UMAX < limitN misize Padded [(0%nat, p63); (1%nat, p63)])%N /\
  ~ no_sat misize Padded 1 UMAX (mk_mitems [p63; p63]).
Proof.
  intros p. split; [destruct p; vm_compute; reflexivity|]. split; [vm_compute; reflexivity|].
  unfold no_sat. intros [H|H]; vm_compute in H; [discriminate H|apply H; reflexivity].
Qed.

Lemma over_umax : forall {A} (sizeN : A -> N) ty (b : list A), (UMAX < limitN sizeN ty b)%N ->
  ~ limit (sz sizeN) ty b <= Nat.max (N.to_nat UMAX) 1.
Proof.
  intros A sizeN ty b Hlt Hb. rewrite limitN_conv in Hlt.
  assert (Hu : (1 <= UMAX)%N) by (unfold UMAX; lia).
  set (x := limit (sz sizeN) ty b) in *. clearbody x. generalize dependent UMAX. intros u. lia.
Qed.

(** hence the premise of [machine_eq_model] is needed: on this input the machine model is not the
    unbounded model under the given limit *)
Lemma machine_eq_model_refuted_l : forall p,
  mbatches_o misize p true false false 1 UMAX Padded o_default (mk_mitems [p63; p63])
  <> lift (batches (sz misize) false false (N.to_nat 1) (N.to_nat UMAX) Padded o_default (mk_mitems [p63; p63])).
Proof.
  intros p H. destruct (machine_limit_max_refuted_l p) as (Hm & Hlt & _). rewrite Hm in H.
  symmetry in H. apply lift_ok in H. apply batches_limit_l in H.
  inversion H as [|b l Hb _]; subst. cbn [length] in Hb. specialize (Hb ltac:(lia)).
  exact (over_umax misize Padded _ Hlt Hb).
Qed.

(** * val level: the run of the correspondence *)
Lemma v_mitems_length : forall v, length (v_mitems v) = length (v_list v_big (v_nth 6 v)).
Proof.
  intros v. unfold v_mitems, mk_mitems, mitem. rewrite combine_length, seq_length. apply Nat.min_id.
Qed.

Lemma machine_run_eq_l : forall p v, (v_big (v_nth 3 v) < W)%N -> fits (length (v_mitems v)) ->
  run_machine p true v
  = lift (batches_seeded (sz misize) (v_bool (v_nth 0 v)) (v_bool (v_nth 1 v))
            (N.to_nat (eff_pre misize (v_ty (v_nth 4 v)) (v_big (v_nth 2 v)) (v_big (v_nth 3 v)) (v_mitems v)))
            (N.to_nat (eff_lim misize (v_ty (v_nth 4 v)) (v_big (v_nth 3 v)) (v_mitems v)))
            (v_ty (v_nth 4 v)) (in_seed v) (v_mitems v)) /\
  run_M06s Checked true v = run_M06s Wrapping true v /\
  exists bs, run_machine p true v = MOk bs.
Proof.
  intros p v Hl Hf. unfold run_M06s, run_machine. split; [|split].
  - apply machine_eff_s_l; assumption.
  - rewrite (proj2 (machine_profiles_agree_l misize _ _ _ _ _ _ Hl Hf)). reflexivity.
  - apply machine_total_s_l; assumption.
Qed.

(** * the executable statement over machine integers *)
Lemma map_fst_combine_seqN : forall (sizes : list N) a, map fst (combine (seq a (length sizes)) sizes) = seq a (length sizes).
Proof. induction sizes as [|s sizes IH]; intros a; cbn; [reflexivity|]. rewrite IH. reflexivity. Qed.

Lemma mk_mitems_fst : forall sizes, map fst (mk_mitems sizes) = seq 0 (length sizes).
Proof. intros. apply map_fst_combine_seqN. Qed.

Lemma mk_mitems_length : forall sizes, length (mk_mitems sizes) = length sizes.
Proof. intros. unfold mk_mitems, mitem. rewrite combine_length, seq_length. apply Nat.min_id. Qed.

Lemma combine_seq_nthN : forall (sizes : list N) a x d, In x (combine (seq a (length sizes)) sizes) ->
  a <= fst x /\ nth (fst x - a) (combine (seq a (length sizes)) sizes) d = x.
Proof.
  induction sizes as [|s sizes IH]; intros a x d H; cbn in H; [contradiction|].
  destruct H as [<-|H].
  - cbn [fst]. rewrite Nat.sub_diag. split; [lia|reflexivity].
  - destruct (IH (S a) x d H) as [Hle Hn]. split; [lia|].
    cbn [length seq combine]. replace (fst x - a) with (S (fst x - S a)) by lia. exact Hn.
Qed.

Lemma mlookup_in : forall sizes x, In x (mk_mitems sizes) -> mlookup (mk_mitems sizes) (fst x) = x.
Proof.
  intros sizes x H. unfold mlookup, mk_mitems in *.
  destruct (combine_seq_nthN sizes 0 x (fst x, W) H) as [_ Hn]. rewrite Nat.sub_0_r in Hn. exact Hn.
Qed.

Lemma v_batches_mbatches_v : forall bs, v_batches (mbatches_v bs) = map (map fst) bs.
Proof.
  intros. unfold v_batches, mbatches_v, v_list, list_v. rewrite map_map. apply map_ext. intros b.
  rewrite map_map. apply map_ext. intros x. unfold v_nat, nat_v. cbn [v_z]. apply Nat2Z.id.
Qed.

Lemma mrelookup : forall sizes (bs : list (list mitem)),
  (forall x, In x (concat bs) -> In x (mk_mitems sizes)) ->
  map (map (mlookup (mk_mitems sizes))) (map (map fst) bs) = bs.
Proof.
  intros sizes. induction bs as [|b bs IH]; intros H; [reflexivity|]. cbn [map]. f_equal.
  - rewrite map_map. rewrite <- (map_id b) at 2. apply map_ext_in. intros x Hx.
    apply mlookup_in. apply H. cbn [concat]. apply in_or_app. left. exact Hx.
  - apply IH. intros x Hx. apply H. cbn [concat]. apply in_or_app. right. exact Hx.
Qed.

Lemma mgreedyb_cons : forall ty L b x tail bs,
  mgreedyb ty L (b :: (x :: tail) :: bs) = (L <? mlimitN ty (b ++ [x]))%N && mgreedyb ty L ((x :: tail) :: bs).
Proof. reflexivity. Qed.

Lemma mgreedyb_spec : forall ty L bs, mgreedyb ty L bs = true ->
  forall i b b' x, nth_error bs i = Some b -> nth_error bs (S i) = Some (x :: b') ->
  (L < limitN misize ty (b ++ [x]))%N.
Proof.
  intros ty L. induction bs as [|b0 bs IH]; intros Hg i b b' x Hi Hsi; [destruct i; discriminate|].
  destruct bs as [|b1 bs]; [destruct i; discriminate|].
  destruct b1 as [|y b1]; [cbn in Hg; discriminate|].
  rewrite mgreedyb_cons in Hg. apply andb_true_iff in Hg. destruct Hg as [H0 Hg].
  destruct i as [|i].
  - cbn in Hi, Hsi. injection Hi as <-. injection Hsi as <- <-. apply N.ltb_lt. exact H0.
  - apply (IH Hg i b b' x); assumption.
Qed.

Lemma mgreedyb_complete : forall ty L bs,
  (forall i b b' x, nth_error bs i = Some b -> nth_error bs (S i) = Some (x :: b') ->
     (L < limitN misize ty (b ++ [x]))%N) ->
  Forall (fun b => b <> []) bs -> mgreedyb ty L bs = true.
Proof.
  intros ty L. induction bs as [|b0 bs IH]; intros Hg Hne; [reflexivity|].
  destruct bs as [|b1 bs]; [reflexivity|].
  destruct b1 as [|y b1].
  - inversion Hne as [|? ? _ Hne']; subst. inversion Hne' as [|? ? Hn _]; subst. congruence.
  - rewrite mgreedyb_cons. apply andb_true_iff. split.
    + apply N.ltb_lt. apply (Hg 0 b0 b1 y); reflexivity.
    + apply IH.
      * intros i b b' x Hi Hsi. apply (Hg (S i) b b' x); assumption.
      * inversion Hne; assumption.
Qed.

(** a passing check means: the batches (positions resolved to items) are a partition of the input,
    none empty, the limit (in machine integers) respected; plain mode: input order, greedy-maximal *)
Lemma check_M06_sound_l : forall v out, check_M06 v out = true ->
  let items := v_mitems v in
  let ty := v_ty (v_nth 4 v) in
  let L := N.max (v_big (v_nth 3 v)) 1 in
  let bs := map (map (mlookup items)) (v_batches (v_nth 0 out)) in
  Permutation (concat bs) items /\
  Forall (fun b => b <> []) bs /\
  Forall (fun b => 1 < length b -> (limitN misize ty b <= L)%N) bs /\
  (v_bool (v_nth 0 v) = false -> v_bool (v_nth 1 v) = false ->
   concat bs = items /\
   forall i b b' x, nth_error bs i = Some b -> nth_error bs (S i) = Some (x :: b') ->
     (L < limitN misize ty (b ++ [x]))%N).
Proof.
  intros v out H. cbn zeta. unfold check_M06 in H.
  set (items := v_mitems v) in *. set (ids := v_batches (v_nth 0 out)) in *.
  set (ty := v_ty (v_nth 4 v)) in *. set (L := N.max (v_big (v_nth 3 v)) 1) in *.
  rewrite !andb_true_iff in H. destruct H as [[[[[_ Hperm] Hne] Hlim] _] Hplain].
  apply is_perm_ids_sound in Hperm.
  assert (Hconcat : concat (map (map (mlookup items)) ids) = map (mlookup items) (concat ids))
    by (symmetry; apply concat_map).
  assert (Hitems : map (mlookup items) (seq 0 (length items)) = items).
  { transitivity (map (fun i => nth i items (0, W)) (seq 0 (length items))); [|apply map_nth_seq].
    apply map_ext_in. intros i Hi. apply in_seq in Hi. unfold mlookup. apply nth_indep. lia. }
  split; [|split; [|split]].
  - rewrite Hconcat. apply (Permutation_map (mlookup items)) in Hperm. rewrite Hitems in Hperm. exact Hperm.
  - apply Forall_forall. intros b Hb. apply in_map_iff in Hb. destruct Hb as (b0 & <- & Hb0).
    rewrite forallb_forall in Hne. specialize (Hne _ Hb0). destruct b0; [discriminate|cbn; congruence].
  - apply Forall_forall. intros b Hb Hlt. rewrite forallb_forall in Hlim. specialize (Hlim _ Hb).
    unfold mlimit_okb in Hlim. apply orb_true_iff in Hlim. destruct Hlim as [E|E].
    + apply Nat.leb_le in E. lia.
    + apply N.leb_le in E. exact E.
  - intros E1 E2. rewrite E1, E2 in Hplain. cbn [negb andb] in Hplain.
    apply andb_true_iff in Hplain. destruct Hplain as [Ho Hg]. apply nat_list_eqb_eq in Ho. split.
    + rewrite Hconcat, Ho. exact Hitems.
    + apply (mgreedyb_spec ty L _ Hg).
Qed.

(** the machine model's own output passes it, in both profiles, whenever the limit is exact *)
Lemma check_M06_run_l : forall p v, (v_big (v_nth 3 v) < W)%N -> fits (length (v_mitems v)) ->
  lim_exact misize (v_ty (v_nth 4 v)) (v_big (v_nth 3 v)) (v_mitems v) ->
  check_M06 v (run_M06s p true v) = true.
Proof.
  intros p v Hl Hf Hx. unfold run_M06s, run_machine.
  set (sort := v_bool (v_nth 0 v)). set (shuffle := v_bool (v_nth 1 v)).
  set (pf := v_big (v_nth 2 v)). set (lm := v_big (v_nth 3 v)) in *. set (ty := v_ty (v_nth 4 v)) in *.
  destruct (machine_total_s_l misize p sort shuffle pf lm ty (in_seed v) (v_mitems v) Hl Hf) as [bs Hbs].
  rewrite Hbs. unfold check_M06. fold sort shuffle lm ty.
  cbn [v_nth nth shape2]. rewrite v_batches_mbatches_v.
  destruct (machine_props_s_l misize _ _ _ _ _ _ _ _ _ Hl Hf Hbs) as (Hperm & Hne & Hlim).
  specialize (Hlim Hx).
  unfold v_mitems in *. set (sizes := v_list v_big (v_nth 6 v)) in *.
  rewrite mrelookup by (intros x Hx'; eapply Permutation_in; eauto).
  assert (Hids : concat (map (map fst) bs) = map fst (concat bs)) by (symmetry; apply concat_map).
  assert (Hpf : Permutation (map fst (concat bs)) (seq 0 (length sizes))).
  { rewrite <- mk_mitems_fst. apply Permutation_map. exact Hperm. }
  rewrite Hids, mk_mitems_length.
  assert (H1 : is_perm_ids (map fst (concat bs)) (length sizes) = true).
  { unfold is_perm_ids. apply andb_true_iff. split.
    - apply Nat.eqb_eq. rewrite (Permutation_length Hpf). apply seq_length.
    - apply forallb_forall. intros i Hi. apply existsb_exists. exists i. split; [|apply Nat.eqb_refl].
      eapply Permutation_in; [symmetry; exact Hpf|exact Hi]. }
  assert (H2 : forallb (fun b : list nat => negb (is_nil b)) (map (map fst) bs) = true).
  { apply forallb_forall. intros b Hb. apply in_map_iff in Hb. destruct Hb as (b0 & <- & Hb0).
    rewrite Forall_forall in Hne. specialize (Hne _ Hb0). destruct b0; [exfalso; apply Hne; reflexivity|reflexivity]. }
  assert (H3 : forallb (mlimit_okb ty (N.max lm 1)) bs = true).
  { apply forallb_forall. intros b Hb. rewrite Forall_forall in Hlim. specialize (Hlim _ Hb).
    unfold mlimit_okb. destruct (length b <=? 1) eqn:E; [reflexivity|].
    apply Nat.leb_gt in E. cbn [orb]. apply N.leb_le. apply Hlim. exact E. }
  rewrite H1, H2, H3. unfold v_bool. cbn [v_z Z.eqb negb andb].
  destruct (negb sort && negb shuffle) eqn:Em; [|reflexivity].
  apply andb_true_iff in Em. destruct Em as [E1 E2].
  apply negb_true_iff in E1. apply negb_true_iff in E2. rewrite E1, E2 in Hbs.
  destruct (machine_plain_s_l misize _ _ _ _ _ _ _ Hl Hf Hbs) as [Hc Hg]. specialize (Hg Hx).
  rewrite Hc, mk_mitems_fst, nat_list_eqb_refl. cbn [andb].
  apply mgreedyb_complete; assumption.
Qed.

(** the correspondence clause holds of the machine model's own output *)
Lemma nat_ll_eqb_refl : forall l, nat_ll_eqb l l = true.
Proof. induction l as [|x l IH]; [reflexivity|]. cbn [nat_ll_eqb]. rewrite nat_list_eqb_refl, IH. reflexivity. Qed.

Lemma machine_agree_run_l : forall p v, (v_big (v_nth 3 v) < W)%N -> fits (length (v_mitems v)) ->
  machine_agree v (run_M06s p true v) = true.
Proof.
  intros p v Hl Hf. destruct (machine_run_eq_l Checked v Hl Hf) as (_ & Hpa & _).
  assert (Hp : run_M06s p true v = run_M06s Checked true v) by (destruct p; [reflexivity|symmetry; exact Hpa]).
  unfold machine_agree. rewrite <- Hpa, Hp.
  destruct (machine_run_eq_l Checked v Hl Hf) as (_ & _ & bs & Hbs).
  assert (Hs : seeded_ok (run_M06s Checked true v) (run_M06s Checked true v) = true).
  { unfold run_M06s. rewrite Hbs. unfold seeded_ok. cbn [shape2 v_nth nth andb]. apply nat_ll_eqb_refl. }
  rewrite Hs, orb_true_r. reflexivity.
Qed.

(** C18 — the number of matched words does not depend on the argument order when word equality is symmetric
    (as [str_eqb] and case-insensitive equality are). Proofs only; the statement is pinned in [C18_Props.v]. *)
From Coq Require Import Sorting.Sorted.
From TU Require Import Base C18_Model C18_Proofs.

Definition swp (p : nat * nat) : nat * nat := (snd p, fst p).
Definition inc (p q : nat * nat) : Prop := fst p < fst q /\ snd p < snd q.

Lemma swp_sorted M : StronglySorted inc M -> StronglySorted inc (map swp M).
Proof.
  induction 1 as [|p M HS IH HF]; cbn [map]; constructor; [exact IH|].
  rewrite Forall_map. eapply Forall_impl; [|exact HF].
  intros q [H1 H2]. unfold inc, swp; cbn [fst snd]. split; assumption.
Qed.

Lemma swp_related K (eqb : K -> K -> bool) xs ys M :
  (forall x y, eqb x y = eqb y x) ->
  Forall (fun p => exists x y, nth_error xs (fst p) = Some x /\ nth_error ys (snd p) = Some y /\ eqb x y = true) M ->
  Forall (fun p => exists x y, nth_error ys (fst p) = Some x /\ nth_error xs (snd p) = Some y /\ eqb x y = true) (map swp M).
Proof.
  intros Hsym HF. rewrite Forall_map. eapply Forall_impl; [|exact HF].
  intros p [x [y [Hx [Hy He]]]]. exists y, x. unfold swp; cbn [fst snd].
  repeat split; [exact Hy|exact Hx|rewrite Hsym; exact He].
Qed.

Lemma match_size_sym_l K (eqb : K -> K -> bool) xs ys M M' :
  (forall x y, eqb x y = eqb y x) ->
  match_keys eqb xs ys = Some M -> match_keys eqb ys xs = Some M' -> length M = length M'.
Proof.
  intros Hsym H H'.
  pose proof (match_increasing_l K eqb xs ys M H) as S. pose proof (match_related_l K eqb xs ys M H) as R.
  pose proof (match_increasing_l K eqb ys xs M' H') as S'. pose proof (match_related_l K eqb ys xs M' H') as R'.
  pose proof (match_optimal_l K eqb ys xs M' (map swp M) H' (conj (swp_sorted _ S) (swp_related _ _ _ _ _ Hsym R))) as L1.
  pose proof (match_optimal_l K eqb xs ys M (map swp M') H (conj (swp_sorted _ S') (swp_related _ _ _ _ _ Hsym R'))) as L2.
  rewrite map_length in L1, L2. apply Nat.le_antisymm; assumption.
Qed.

(** JSON: proofs, part 1 — the parser is total: the loops' fuel is never exhausted, on any text. *)
From TU Require Import Base JSON_Model.
Require Import Lia ZifyBool ZifyN ZifyNat.
Open Scope N_scope.

(** * lists *)
Lemma skip_ws_le : forall s, (length (skip_ws s) <= length s)%nat.
Proof.
  induction s as [|c r IH]; [cbn; lia|]. cbn [skip_ws]. destruct (is_ws_json c); cbn [length]; lia.
Qed.

Lemma skip_ws_head : forall s c r, skip_ws s = c :: r -> is_ws_json c = false.
Proof.
  induction s as [|x s IH]; intros c r H; [discriminate|]. cbn [skip_ws] in H.
  destruct (is_ws_json x) eqn:E; [eapply IH; exact H|]. injection H as <- <-. exact E.
Qed.

Lemma skip_ws_nows : forall c r, is_ws_json c = false -> skip_ws (c :: r) = c :: r.
Proof. intros c r H. cbn [skip_ws]. rewrite H. reflexivity. Qed.

Lemma span_app : forall p s a b, span p s = (a, b) -> s = a ++ b.
Proof.
  induction s as [|c r IH]; intros a b H; cbn [span] in H.
  - injection H as <- <-. reflexivity.
  - destruct (p c).
    + destruct (span p r) as [a' b'] eqn:E. injection H as <- <-. cbn [app]. f_equal. apply IH. reflexivity.
    + injection H as <- <-. reflexivity.
Qed.

Lemma span_length : forall p s a b, span p s = (a, b) -> (length s = length a + length b)%nat.
Proof. intros p s a b H. apply span_app in H. subst s. apply app_length. Qed.

(** * every successful sub-parser consumes at least one character *)
Lemma ocons_shorter : forall c o t r n, ocons c o = Some (t, r) ->
  (forall t' r', o = Some (t', r') -> (length r' < n)%nat) -> (length r < n)%nat.
Proof.
  intros c o t r n H Ho. destruct o as [[t' r']|]; [|discriminate]. cbn [ocons] in H.
  injection H as <- <-. apply (Ho t' r'). reflexivity.
Qed.

Lemma pstr_shorter_aux : forall n s, (length s <= n)%nat -> forall t r, pstr s = Some (t, r) -> (length r < length s)%nat.
Proof.
  induction n as [|n IH]; intros s Hs t r H.
  { destruct s; [discriminate|cbn [length] in Hs; lia]. }
  destruct s as [|c s1]; [discriminate|]. cbn [length] in Hs. cbn [pstr] in H.
  destruct (c =? 34). { injection H as <- <-. cbn [length]. lia. }
  destruct (c =? 92).
  - destruct s1 as [|e r1]; [discriminate|]. cbn [length] in Hs.
    destruct (e =? 117).
    + destruct r1 as [|h1 [|h2 [|h3 [|h4 r5]]]]; try discriminate. cbn [length] in Hs.
      destruct (hex4 h1 h2 h3 h4) as [k|]; [|discriminate].
      destruct ((56320 <=? k) && (k <=? 57343)); [discriminate|].
      destruct ((55296 <=? k) && (k <=? 56319)).
      * destruct r5 as [|b1 [|u1 [|g1 [|g2 [|g3 [|g4 r11]]]]]]; try discriminate. cbn [length] in Hs.
        destruct ((b1 =? 92) && (u1 =? 117)); [|discriminate].
        destruct (hex4 g1 g2 g3 g4) as [k2|]; [|discriminate].
        destruct ((56320 <=? k2) && (k2 <=? 57343)); [|discriminate].
        cbn [length]. eapply ocons_shorter; [exact H|]. intros t' r' E. apply IH in E; [|lia]. lia.
      * cbn [length]. eapply ocons_shorter; [exact H|]. intros t' r' E. apply IH in E; [|lia]. lia.
    + destruct (simple_escape e); [|discriminate].
      cbn [length]. eapply ocons_shorter; [exact H|]. intros t' r' E. apply IH in E; [|lia]. lia.
  - destruct (c <? 32); [discriminate|].
    cbn [length]. eapply ocons_shorter; [exact H|]. intros t' r' E. apply IH in E; [|lia]. lia.
Qed.

Lemma pstr_shorter : forall s t r, pstr s = Some (t, r) -> (length r < length s)%nat.
Proof. intros s t r. apply (pstr_shorter_aux (length s)). lia. Qed.

Lemma lex_frac_le : forall s fr r, lex_frac s = Some (fr, r) -> (length r <= length s)%nat.
Proof.
  intros s fr r H. unfold lex_frac in H. destruct s as [|c s1]; [injection H as <- <-; lia|].
  destruct (c =? 46).
  - destruct (span is_digit s1) as [fs r'] eqn:E. destruct (is_nil_s fs); [discriminate|].
    injection H as <- <-. apply span_length in E. cbn [length]. lia.
  - injection H as <- <-. lia.
Qed.

Lemma lex_exp_le : forall s ex r, lex_exp s = Some (ex, r) -> (length r <= length s)%nat.
Proof.
  intros s ex r H. unfold lex_exp in H. destruct s as [|c s1]; [injection H as <- <-; lia|].
  destruct ((c =? 101) || (c =? 69)).
  - destruct (match s1 with
              | x :: r' => if x =? 43 then (false, r') else if x =? 45 then (true, r') else (false, s1)
              | [] => (false, s1)
              end) as [eneg r1] eqn:E1.
    assert (L1 : (length r1 <= length s1)%nat).
    { destruct s1 as [|x r']; [injection E1 as <- <-; lia|].
      destruct (x =? 43); [injection E1 as <- <-; cbn [length]; lia|].
      destruct (x =? 45); injection E1 as <- <-; cbn [length]; lia. }
    destruct (span is_digit r1) as [es r2] eqn:E2. destruct (is_nil_s es); [discriminate|].
    injection H as <- <-. apply span_length in E2. cbn [length]. lia.
  - injection H as <- <-. lia.
Qed.

Lemma lex_number_shorter : forall s n r, lex_number s = Some (n, r) -> (length r < length s)%nat.
Proof.
  intros s n r H. unfold lex_number in H.
  destruct (match s with
            | c :: r0 => if c =? 45 then (true, r0) else (false, s)
            | [] => (false, s)
            end) as [neg s1] eqn:E1.
  assert (L1 : (length s1 <= length s)%nat).
  { destruct s as [|c r0]; [injection E1 as <- <-; lia|]. destruct (c =? 45); injection E1 as <- <-; cbn [length]; lia. }
  destruct (span is_digit s1) as [ds s2] eqn:E2. apply span_length in E2.
  destruct ds as [|d0 dr]; [discriminate|]. cbn [length] in E2.
  destruct ((d0 =? 48) && negb (is_nil_s dr)); [discriminate|].
  destruct (lex_frac s2) as [[fr s3]|] eqn:E3; [|discriminate]. apply lex_frac_le in E3.
  destruct (lex_exp s3) as [[ex s4]|] eqn:E4; [|discriminate]. apply lex_exp_le in E4.
  injection H as <- <-. lia.
Qed.

Lemma plit_le : forall lit v s v' r, plit lit v s = POk (v', r) -> (length r <= length s)%nat.
Proof.
  induction lit as [|l lit IH]; intros v s v' r H; cbn [plit] in H.
  - injection H as <- <-. lia.
  - destruct s as [|c s1]; [discriminate|]. destruct (c =? l); [|discriminate].
    apply IH in H. cbn [length]. lia.
Qed.

Lemma plit_nofuel : forall lit v s, plit lit v s <> PFuel.
Proof.
  induction lit as [|l lit IH]; intros v s; cbn [plit]; [discriminate|].
  destruct s as [|c s1]; [discriminate|]. destruct (c =? l); [apply IH|discriminate].
Qed.

(** * the loops *)
(** a value parser that never runs out of fuel and consumes at least one character when it succeeds *)
Definition good (pvf : str -> pres (jvalue * str)) : Prop :=
  (forall s, pvf s <> PFuel) /\ (forall s v r, pvf s = POk (v, r) -> (length r < length s)%nat).

Lemma parr_good : forall pvf, good pvf -> forall f first s, (length s < f)%nat ->
  parr pvf f first s <> PFuel /\ (forall ls r, parr pvf f first s = POk (ls, r) -> (length r < length s)%nat).
Proof.
  intros pvf [G1 G2]. induction f as [|f IH]; intros first s Hf; [lia|].
  cbn [parr]. pose proof (skip_ws_le s) as Hle. destruct (skip_ws s) as [|c r] eqn:Es.
  { split; [discriminate|intros; discriminate]. }
  cbn [length] in Hle.
  assert (Step : forall t, (length t <= length (c :: r))%nat ->
     pbind (pvf t) (fun vs => pbind (parr pvf f false (snd vs)) (fun ls => POk (fst vs :: fst ls, snd ls))) <> PFuel /\
     (forall ls r', pbind (pvf t) (fun vs => pbind (parr pvf f false (snd vs)) (fun ls => POk (fst vs :: fst ls, snd ls)))
                    = POk (ls, r') -> (length r' < length s)%nat)).
  { intros t Ht. cbn [length] in Ht. destruct (pvf t) as [[v s']| |] eqn:Ep; cbn [pbind].
    - apply G2 in Ep. cbn [fst snd]. destruct (IH false s' ltac:(lia)) as [I1 I2].
      destruct (parr pvf f false s') as [[ls' r'']| |] eqn:Eq; cbn [pbind].
      + split; [discriminate|]. intros ls r' H. injection H as <- <-. cbn [snd]. specialize (I2 _ _ eq_refl). lia.
      + split; [discriminate|intros; discriminate].
      + exfalso. apply I1. reflexivity.
    - split; [discriminate|intros; discriminate].
    - exfalso. apply (G1 t). exact Ep. }
  destruct (c =? 93).
  { split; [discriminate|]. intros ls r' H. injection H as <- <-. lia. }
  destruct first.
  { apply Step. lia. }
  destruct (c =? 44); [|split; [discriminate|intros; discriminate]].
  pose proof (skip_ws_le r) as Hle2. destruct (skip_ws r) as [|c2 r2] eqn:Es2.
  { split; [discriminate|intros; discriminate]. }
  destruct (c2 =? 93); [split; [discriminate|intros; discriminate]|].
  apply Step. cbn [length] in *. lia.
Qed.

Lemma pmember_good : forall pvf, good pvf -> forall r,
  pmember pvf r <> PFuel /\ (forall kv r', pmember pvf r = POk (kv, r') -> (length r' < length r)%nat).
Proof.
  intros pvf [G1 G2] r. unfold pmember. destruct (pstr r) as [[k r1]|] eqn:Ep.
  2:{ split; [discriminate|intros; discriminate]. }
  apply pstr_shorter in Ep. pose proof (skip_ws_le r1) as Hle.
  destruct (skip_ws r1) as [|c r2]; [split; [discriminate|intros; discriminate]|].
  cbn [length] in Hle. destruct (c =? 58); [|split; [discriminate|intros; discriminate]].
  destruct (pvf r2) as [[v s']| |] eqn:Ev; cbn [pbind].
  - apply G2 in Ev. split; [discriminate|]. intros kv r' H. injection H as <- <-. cbn [snd]. lia.
  - split; [discriminate|intros; discriminate].
  - exfalso. apply (G1 r2). exact Ev.
Qed.

Lemma pobj_good : forall pvf, good pvf -> forall f first s, (length s < f)%nat ->
  pobj pvf f first s <> PFuel /\ (forall ls r, pobj pvf f first s = POk (ls, r) -> (length r < length s)%nat).
Proof.
  intros pvf G. induction f as [|f IH]; intros first s Hf; [lia|].
  cbn [pobj]. pose proof (skip_ws_le s) as Hle. destruct (skip_ws s) as [|c r] eqn:Es.
  { split; [discriminate|intros; discriminate]. }
  cbn [length] in Hle.
  assert (Step : forall t, (length t < length (c :: r))%nat ->
     pbind (pmember pvf t) (fun ms => pbind (pobj pvf f false (snd ms)) (fun ls => POk (fst ms :: fst ls, snd ls))) <> PFuel /\
     (forall ls r', pbind (pmember pvf t) (fun ms => pbind (pobj pvf f false (snd ms)) (fun ls => POk (fst ms :: fst ls, snd ls)))
                    = POk (ls, r') -> (length r' < length s)%nat)).
  { intros t Ht. cbn [length] in Ht. destruct (pmember_good pvf G t) as [M1 M2].
    destruct (pmember pvf t) as [[kv s']| |] eqn:Ep; cbn [pbind].
    - specialize (M2 _ _ eq_refl). cbn [fst snd]. destruct (IH false s' ltac:(lia)) as [I1 I2].
      destruct (pobj pvf f false s') as [[ls' r'']| |] eqn:Eq; cbn [pbind].
      + split; [discriminate|]. intros ls r' H. injection H as <- <-. cbn [snd]. specialize (I2 _ _ eq_refl). lia.
      + split; [discriminate|intros; discriminate].
      + exfalso. apply I1. reflexivity.
    - split; [discriminate|intros; discriminate].
    - exfalso. apply M1. reflexivity. }
  destruct (c =? 125).
  { split; [discriminate|]. intros ls r' H. injection H as <- <-. lia. }
  destruct first.
  { destruct (c =? 34); [|split; [discriminate|intros; discriminate]]. apply Step. cbn [length]. lia. }
  destruct (c =? 44); [|split; [discriminate|intros; discriminate]].
  pose proof (skip_ws_le r) as Hle2. destruct (skip_ws r) as [|c2 r2] eqn:Es2.
  { split; [discriminate|intros; discriminate]. }
  destruct (c2 =? 34); [|split; [discriminate|intros; discriminate]].
  apply Step. cbn [length] in *. lia.
Qed.

(** * the value parser *)
Definition arr_branch (d : nat) (r : str) : pres (jvalue * str) :=
  match d with
  | O => PErr
  | S d' => pbind (parr (pv d') (S (length r)) true r) (fun ls => POk (JArr (fst ls), snd ls))
  end.
Definition obj_branch (d : nat) (r : str) : pres (jvalue * str) :=
  match d with
  | O => PErr
  | S d' => pbind (pobj (pv d') (S (length r)) true r) (fun ls => POk (JObj (fst ls), snd ls))
  end.
Definition num_branch (s : str) : pres (jvalue * str) :=
  match lex_number s with
  | Some (n, r') => if number_ok n then POk (JNum n, r') else PErr
  | None => PErr
  end.
Definition str_branch (r : str) : pres (jvalue * str) :=
  match pstr r with Some (t, r') => POk (JStr t, r') | None => PErr end.

Lemma pv_unfold : forall d s,
  pv d s = match skip_ws s with
           | [] => PErr
           | c :: r =>
             if c =? 110 then plit [117; 108; 108] JNull r
             else if c =? 116 then plit [114; 117; 101] (JBool true) r
             else if c =? 102 then plit [97; 108; 115; 101] (JBool false) r
             else if c =? 34 then str_branch r
             else if c =? 91 then arr_branch d r
             else if c =? 123 then obj_branch d r
             else if (c =? 45) || is_digit c then num_branch (c :: r)
             else PErr
           end.
Proof. intros d s. destruct d; reflexivity. Qed.

Lemma arr_branch_good : forall d r, (forall d', d = S d' -> good (pv d')) ->
  arr_branch d r <> PFuel /\ (forall v r0, arr_branch d r = POk (v, r0) -> (length r0 < length r)%nat).
Proof.
  intros d r Hd. destruct d as [|d']; cbn [arr_branch]; [split; [discriminate|intros; discriminate]|].
  destruct (parr_good (pv d') (Hd d' eq_refl) (S (length r)) true r ltac:(lia)) as [P1 P2].
  destruct (parr (pv d') (S (length r)) true r) as [[ls r']| |]; cbn [pbind].
  - split; [discriminate|]. intros v r0 H. injection H as <- <-. cbn [snd]. apply (P2 _ _ eq_refl).
  - split; [discriminate|intros; discriminate].
  - exfalso. apply P1. reflexivity.
Qed.

Lemma obj_branch_good : forall d r, (forall d', d = S d' -> good (pv d')) ->
  obj_branch d r <> PFuel /\ (forall v r0, obj_branch d r = POk (v, r0) -> (length r0 < length r)%nat).
Proof.
  intros d r Hd. destruct d as [|d']; cbn [obj_branch]; [split; [discriminate|intros; discriminate]|].
  destruct (pobj_good (pv d') (Hd d' eq_refl) (S (length r)) true r ltac:(lia)) as [P1 P2].
  destruct (pobj (pv d') (S (length r)) true r) as [[ls r']| |]; cbn [pbind].
  - split; [discriminate|]. intros v r0 H. injection H as <- <-. cbn [snd]. apply (P2 _ _ eq_refl).
  - split; [discriminate|intros; discriminate].
  - exfalso. apply P1. reflexivity.
Qed.

Lemma pv_good_step : forall d, (forall d', d = S d' -> good (pv d')) -> good (pv d).
Proof.
  intros d Hd. split.
  - intros s. rewrite pv_unfold. destruct (skip_ws s) as [|c r]; [discriminate|].
    destruct (c =? 110); [apply plit_nofuel|].
    destruct (c =? 116); [apply plit_nofuel|].
    destruct (c =? 102); [apply plit_nofuel|].
    destruct (c =? 34); [unfold str_branch; destruct (pstr r) as [[t r']|]; discriminate|].
    destruct (c =? 91); [apply arr_branch_good; exact Hd|].
    destruct (c =? 123); [apply obj_branch_good; exact Hd|].
    destruct ((c =? 45) || is_digit c); [|discriminate].
    unfold num_branch. destruct (lex_number (c :: r)) as [[n r']|]; [|discriminate].
    destruct (number_ok n); discriminate.
  - intros s v r0 H. pose proof (skip_ws_le s) as Hle. rewrite pv_unfold in H.
    destruct (skip_ws s) as [|c r] eqn:Es; [discriminate|]. cbn [length] in Hle.
    destruct (c =? 110); [apply plit_le in H; lia|].
    destruct (c =? 116); [apply plit_le in H; lia|].
    destruct (c =? 102); [apply plit_le in H; lia|].
    destruct (c =? 34).
    { unfold str_branch in H. destruct (pstr r) as [[t r']|] eqn:Ep; [|discriminate].
      injection H as <- <-. apply pstr_shorter in Ep. lia. }
    destruct (c =? 91). { apply arr_branch_good in H; [lia|exact Hd]. }
    destruct (c =? 123). { apply obj_branch_good in H; [lia|exact Hd]. }
    destruct ((c =? 45) || is_digit c); [|discriminate].
    unfold num_branch in H. destruct (lex_number (c :: r)) as [[n r']|] eqn:En; [|discriminate].
    destruct (number_ok n); [|discriminate].
    injection H as <- <-. apply lex_number_shorter in En. cbn [length] in En. lia.
Qed.

Lemma pv_good : forall d, good (pv d).
Proof.
  induction d as [|d IH]; apply pv_good_step.
  - intros d' E. discriminate.
  - intros d' E. injection E as <-. exact IH.
Qed.

(** the fuel is adequate: on no text does the parser give up for lack of fuel *)
Lemma json_parse_total : forall s, json_parse_r s <> PFuel.
Proof.
  intros s. unfold json_parse_r. destruct (pv_good DEPTH) as [G1 _].
  destruct (pv DEPTH s) as [[v r]| |] eqn:E; cbn [pbind].
  - cbn [fst snd]. destruct (skip_ws r); discriminate.
  - discriminate.
  - exfalso. apply (G1 s). exact E.
Qed.

(** C08: the executable statement [check_C08] holds of the model's own output. *)
From Coq Require Import Lia Sorting.Sorted Permutation.
From TU Require Import Base C08_Model C08_Proofs.

Lemma natlist_eqb_refl l : natlist_eqb l l = true.
Proof. induction l as [|x l IH]; cbn; [reflexivity|]. rewrite Nat.eqb_refl. exact IH. Qed.

Lemma same_refl o l : same o l l = true.
Proof. unfold same. destruct o; apply natlist_eqb_refl. Qed.

Lemma ins_lt_all x l : Forall (lt x) l -> ins x l = x :: l.
Proof.
  destruct l as [|y r]; [reflexivity|]. intros F. inversion F as [|? ? Hxy _]; subst. cbn.
  destruct (x <=? y) eqn:E; [reflexivity|]. apply Nat.leb_gt in E. lia.
Qed.

Lemma isort_sorted l : StronglySorted lt l -> isort l = l.
Proof.
  induction l as [|x l IH]; intros S; [reflexivity|]. inversion S as [|? ? S' F]; subst.
  cbn [isort fold_right]. change (fold_right ins [] l) with (isort l). rewrite (IH S'). apply ins_lt_all, F.
Qed.

Lemma ins_comm x y l : ins x (ins y l) = ins y (ins x l).
Proof.
  induction l as [|z l IH]; cbn [ins].
  - destruct (x <=? y) eqn:E1, (y <=? x) eqn:E2; cbn [ins]; rewrite ?E1, ?E2; try reflexivity.
    + apply Nat.leb_le in E1, E2. assert (x = y) by lia. subst. reflexivity.
    + apply Nat.leb_gt in E1, E2. lia.
  - destruct (y <=? z) eqn:Eyz, (x <=? z) eqn:Exz; cbn [ins].
    + destruct (x <=? y) eqn:Exy, (y <=? x) eqn:Eyx; rewrite ?Exz, ?Eyz; try reflexivity.
      * apply Nat.leb_le in Exy, Eyx. assert (x = y) by lia. subst. reflexivity.
      * apply Nat.leb_gt in Exy, Eyx. lia.
    + destruct (x <=? y) eqn:Exy.
      * apply Nat.leb_le in Exy, Eyz. apply Nat.leb_gt in Exz. lia.
      * rewrite Eyz. destruct (y <=? x) eqn:Eyx; [rewrite Exz; reflexivity|].
        apply Nat.leb_gt in Exy, Eyx. lia.
    + rewrite Exz. destruct (y <=? x) eqn:Eyx.
      * apply Nat.leb_le in Eyx, Exz. apply Nat.leb_gt in Eyz. lia.
      * rewrite Eyz. reflexivity.
    + rewrite Exz, Eyz, IH. reflexivity.
Qed.

Lemma isort_perm a b : Permutation a b -> isort a = isort b.
Proof.
  induction 1 as [|x a b _ IH|x y l|a b c _ IH1 _ IH2]; cbn [isort fold_right] in *.
  - reflexivity.
  - change (fold_right ins [] a) with (isort a). change (fold_right ins [] b) with (isort b). rewrite IH. reflexivity.
  - apply ins_comm.
  - congruence.
Qed.

Lemma sorted_nodup l : StronglySorted lt l -> NoDup l.
Proof.
  induction l as [|x l IH]; intros S; [constructor|]. inversion S as [|? ? S' F]; subst.
  constructor; [|apply IH, S']. intros Hin. rewrite Forall_forall in F. pose proof (F _ Hin). lia.
Qed.

Lemma incr_sorted l : StronglySorted lt l -> incr l = true.
Proof.
  induction l as [|x l IH]; intros S; [reflexivity|]. inversion S as [|? ? S' F]; subst.
  destruct l as [|y r]; [reflexivity|].
  change (incr (x :: y :: r)) with ((x <? y) && incr (y :: r)). rewrite (IH S'), andb_true_r.
  inversion F; subst. apply Nat.ltb_lt. assumption.
Qed.

Lemma disjointb_true a b : (forall x, In x a -> In x b -> False) -> disjointb a b = true.
Proof.
  intros H. unfold disjointb. apply forallb_forall. intros x Hx. apply negb_true_iff.
  destruct (existsb (Nat.eqb x) b) eqn:E; [|reflexivity].
  apply existsb_exists in E as (y & Hy & Exy). apply Nat.eqb_eq in Exy. subst y. exfalso. eauto.
Qed.

Section Ranks.
Variable g : nat -> list nat.
Variable W : nat.
Hypothesis g_sorted : forall r, StronglySorted lt (g r).
Hypothesis g_disj : forall r1 r2 x, r1 < W -> r2 < W -> r1 <> r2 -> In x (g r1) -> In x (g r2) -> False.

Lemma ranks_pairwise rs : NoDup rs -> Forall (fun r => r < W) rs -> pairwise_disjoint (map g rs) = true.
Proof.
  induction rs as [|r rs IH]; intros ND F; [reflexivity|]. inversion ND as [|? ? Hn ND']; subst.
  inversion F as [|? ? Hr F']; subst. cbn [map pairwise_disjoint]. rewrite (IH ND' F'), andb_true_r.
  apply forallb_forall. intros l Hl. apply in_map_iff in Hl as (r2 & <- & Hr2).
  apply disjointb_true. intros x H1 H2. rewrite Forall_forall in F'.
  apply (g_disj r r2 x); auto. intros ->. contradiction.
Qed.

Lemma ranks_nodup rs : NoDup rs -> Forall (fun r => r < W) rs -> NoDup (concat (map g rs)).
Proof.
  induction rs as [|r rs IH]; intros ND F; [constructor|]. inversion ND as [|? ? Hn ND']; subst.
  inversion F as [|? ? Hr F']; subst. cbn [map concat].
  assert (G : forall l1 l2 : list nat, NoDup l1 -> NoDup l2 -> (forall x, In x l1 -> In x l2 -> False) -> NoDup (l1 ++ l2)).
  { induction l1 as [|a l1 IHl]; intros l2 N1 N2 D; [exact N2|]. inversion N1 as [|? ? Na N1']; subst. cbn. constructor.
    - intros Hin. apply in_app_or in Hin as [Hin|Hin]; [contradiction|]. apply (D a); [left; reflexivity|exact Hin].
    - apply IHl; auto. intros x Hx1 Hx2. apply (D x); [right; exact Hx1|exact Hx2]. }
  apply G; [apply sorted_nodup, g_sorted|apply IH; assumption|].
  intros x H1 H2. apply in_concat in H2 as (l & Hl & Hx). apply in_map_iff in Hl as (r2 & <- & Hr2).
  rewrite Forall_forall in F'. apply (g_disj r r2 x); auto. intros ->. contradiction.
Qed.
End Ranks.

Lemma sorted_app l1 l2 : StronglySorted lt l1 -> StronglySorted lt l2 ->
  (forall x y, In x l1 -> In y l2 -> x < y) -> StronglySorted lt (l1 ++ l2).
Proof.
  induction l1 as [|a l1 IH]; intros S1 S2 H; [exact S2|]. inversion S1 as [|? ? S1' F]; subst. cbn.
  constructor.
  - apply IH; auto. intros x y Hx Hy. apply H; [right; exact Hx|exact Hy].
  - apply Forall_forall. intros x Hx. apply in_app_or in Hx as [Hx|Hx].
    + rewrite Forall_forall in F. apply F, Hx.
    + apply H; [left; reflexivity|exact Hx].
Qed.

Lemma v_ids_ids_v l : v_ids (ids_v l) = l.
Proof.
  unfold v_ids, ids_v, list_v, v_list. rewrite map_map. induction l as [|x l IH]; [reflexivity|].
  cbn [map]. rewrite IH. f_equal. unfold v_nat, nat_v, v_z. apply Nat2Z.id.
Qed.

Lemma check_run_l (v : val) :
  1 <= v_nat (v_nth 7 v) -> check_C08 v (run_C08 v) = true.
Proof.
  intros HW. unfold check_C08, run_C08.
  set (N := v_nat (v_nth 0 v)). set (oks := v_list v_bool (v_nth 1 v)). set (res := v_list v_bool (v_nth 2 v)).
  set (lim := v_lim N (v_nth 3 v)). set (skip := v_nat (v_nth 4 v)). set (ff := v_nat (v_nth 5 v)).
  set (rank := v_nat (v_nth 6 v)). set (W := v_nat (v_nth 7 v)) in *. set (k := v_nat (v_nth 8 v)).
  set (ordered := v_bool (v_nth 9 v)).
  set (g := fun r => stream oks res lim skip 0 r W N).
  set (D := stream oks res lim skip 0 0 1 N).
  unfold ids_v at 1 3 4 5 6 7. unfold list_v at 1 2 4 5 6 7 8. cbn [v_nth nth].
  fold (ids_v (stream oks res lim skip ff rank W N)). fold (ids_v D).
  fold (ids_v (stream oks res lim skip k 0 1 N)). fold (ids_v (stream oks res k 0 0 0 1 N)).
  fold (ids_v (stream oks res N k 0 0 1 N)). fold (ids_v (stream oks res N 0 0 0 1 N)).
  rewrite !v_ids_ids_v. rewrite map_map.
  assert (EC : map (fun x => v_ids (ids_v (g x))) (seq 0 W) = map g (seq 0 W)).
  { apply map_ext. intros r. apply v_ids_ids_v. }
  change (map (fun x => v_ids (ids_v (stream oks res lim skip 0 x W N))) (seq 0 W))
    with (map (fun x => v_ids (ids_v (g x))) (seq 0 W)). rewrite EC.
  assert (SD : StronglySorted lt D) by apply stream_sorted_l.
  assert (Sg : forall r, StronglySorted lt (g r)) by (intros r; apply stream_sorted_l).
  assert (Dg : forall r1 r2 x, r1 < W -> r2 < W -> r1 <> r2 -> In x (g r1) -> In x (g r2) -> False).
  { intros r1 r2 x H1 H2 Hne I1 I2. apply stream_mem_l in I1 as [I1 _]. apply stream_mem_l in I2 as [I2 _].
    exact (ranks_disjoint_l lim skip 0 W N r1 r2 x H1 H2 Hne I1 I2). }
  assert (Fseq : Forall (fun r => r < W) (seq 0 W)).
  { apply Forall_forall. intros r Hr. apply in_seq in Hr. lia. }
  assert (ID : (if ordered then D else isort D) = D) by (destruct ordered; [reflexivity|apply isort_sorted, SD]).
  rewrite ID.
  repeat (apply andb_true_iff; split); try reflexivity.
  - rewrite map_length, seq_length. apply Nat.eqb_refl.
  - apply (ranks_pairwise g W Dg); [apply seq_NoDup|exact Fseq].
  - rewrite (isort_perm (concat (map g (seq 0 W))) D); [apply natlist_eqb_refl|].
    apply NoDup_Permutation.
    + apply (ranks_nodup g W Sg Dg); [apply seq_NoDup|exact Fseq].
    + apply sorted_nodup, SD.
    + intros x. rewrite in_concat. unfold D. rewrite stream_mem_l, (ranks_union_l _ _ _ W) by exact HW. split.
      * intros (l & Hl & Hx). apply in_map_iff in Hl as (r & <- & Hr). apply in_seq in Hr.
        unfold g in Hx. apply stream_mem_l in Hx as (Hs & H1 & H2). split; [exists r; split; [lia|exact Hs]|auto].
      * intros ((r & Hr & Hs) & H1 & H2). exists (g r). split; [apply in_map, in_seq; lia|].
        unfold g. apply stream_mem_l. auto.
  - destruct ordered; [|reflexivity]. apply andb_true_iff. split; [|apply incr_sorted, SD].
    apply forallb_forall. intros l Hl. apply in_map_iff in Hl as (r & <- & _). apply incr_sorted, Sg.
  - unfold D. rewrite <- (stream_rank_l oks res lim skip ff rank W N HW). apply same_refl.
  - unfold D. rewrite <- stream_resume_l. apply same_refl.
  - apply disjointb_true. intros x H1 H2. apply stream_mem_l in H1 as [H1 _]. apply stream_mem_l in H2 as [H2 _].
    apply limit_part_l in H1. apply skip_part_l in H2. lia.
  - assert (E : stream oks res k 0 0 0 1 N ++ stream oks res N k 0 0 1 N = stream oks res N 0 0 0 1 N).
    { apply sorted_ext.
      - apply sorted_app; try apply stream_sorted_l. intros x y Hx Hy.
        apply stream_mem_l in Hx as [Hx _]. apply stream_mem_l in Hy as [Hy _].
        apply limit_part_l in Hx. apply skip_part_l in Hy. lia.
      - apply stream_sorted_l.
      - intros x. rewrite in_app_iff, !stream_mem_l, limit_part_l, skip_part_l.
        rewrite (sel_mem_l N 0 0 0 1 N x) by lia. split.
        + intros [(H & H1 & H2)|(H & H1 & H2)]; (split; [exists x; lia|auto]).
        + intros ((j & -> & H) & H1 & H2). destruct (Nat.lt_ge_cases (0 + 0 + 0 + j * 1) k); [left|right]; (split; [lia|auto]). }
    rewrite E. apply natlist_eqb_refl.
  - apply forallb_forall. intros x Hx. apply stream_mem_l in Hx as [Hx _]. apply limit_part_l in Hx. apply Nat.ltb_lt. lia.
  - apply forallb_forall. intros x Hx. apply stream_mem_l in Hx as [Hx _]. apply skip_part_l in Hx. apply Nat.leb_le. lia.
Qed.

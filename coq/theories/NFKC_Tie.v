(** The tie of the normalisation model to the code inside the C19 correspondence.
    The C19 input carries the raw lines of the corpus files (field 5), the lines as
    [train_bpe]'s workers see them — [BufRead::lines], [clean(&line, true)], then optionally
    [normalize(&line, form, true)] — computed by the real crate (field 6, the [proc] oracle of
    [run_C19]/[check_C19]), and a side channel (field 9) of strings with
    [text_utils::unicode::normalize(s, form, g)] for the four forms and both modes.
    Here the MODEL computes all of that itself: [lines_of_file] (the line iterator),
    [C11_Model.clean] on [UAX29_Model.segment], [NFKC_Model.normalize_model]; [nf_agree]
    demands equality. It is part of [agree] (C19_Extract.v), not of [check_C19]: a mismatch is
    a model / implementation disagreement, not a failure of the property. Definitions only. *)
From TU Require Import Base UAX29_Model C11_Model NFKC_Model.
Open Scope N_scope.

(** [BufRead::lines] over the file the harness writes (every raw line followed by U+000A):
    chunks end at U+000A; the terminator is dropped, and then one U+000D before it;
    a last chunk without terminator is kept as it is (does not occur for these files).
    [cur]: the current chunk, reversed. *)
Fixpoint split_lines (cur : list N) (s : list N) : list (list N) :=
  match s with
  | [] => match cur with [] => [] | _ => [rev cur] end
  | c :: r =>
      if c =? 10 then
        (match cur with
         | 13 :: cur' => rev cur'
         | _ => rev cur
         end) :: split_lines [] r
      else split_lines (c :: cur) r
  end.
(** one U+000D at the end of a line is dropped *)
Definition strip_cr (l : list N) : list N :=
  match rev l with
  | 13 :: r => rev r
  | _ => l
  end.
Definition file_content (raw : list (list N)) : list N := flat_map (fun l => l ++ [10]) raw.
Definition lines_of_file (raw : list (list N)) : list (list N) := split_lines [] (file_content raw).

(** what a worker of [train_bpe] does to a line before counting words *)
Definition process_line (f : option form) (line : list N) : list N :=
  let c := clean (segment line) in
  match f with
  | Some f => normalize_model f true c
  | None => c
  end.

Fixpoint nll_eqb (a b : list (list N)) : bool :=
  match a, b with
  | [], [] => true
  | x :: a', y :: b' => nlist_eqb x y && nll_eqb a' b'
  | _, _ => false
  end.
Fixpoint nlll_eqb (a b : list (list (list N))) : bool :=
  match a, b with
  | [], [] => true
  | x :: a', y :: b' => nll_eqb x y && nlll_eqb a' b'
  | _, _ => false
  end.

Definition in_form (v : val) : option form := form_of (v_n (v_nth 2 v)).
Definition in_files (v : val) : list (list (list N)) := v_list (v_list (v_list v_n)) (v_nth 5 v).
Definition in_proc_lines (v : val) : list (list (list N)) := v_list (v_list (v_list v_n)) (v_nth 6 v).

(** the processed lines of every file, computed by the model alone *)
Definition model_proc (v : val) : list (list (list N)) :=
  map (fun raw => map (process_line (in_form v)) (lines_of_file raw)) (in_files v).

Definition lines_agree (v : val) : bool := nlll_eqb (model_proc v) (in_proc_lines v).

(** side channel: field 9 of the input is a list of strings; field 6 of the implementation
    output holds, per string, (nfc nfd nfkc nfkd g_nfc g_nfd g_nfkc g_nfkd) =
    [text_utils::unicode::normalize(s, form, false)] and [(s, form, true)]; the last four are
    options, [()] standing for "equal to the code-point-mode result of the same form" *)
Definition forms4 : list form := [NFC; NFD; NFKC; NFKD].
Definition entry_ok (s : list N) (e : val) : bool :=
  let seg := segment s in
  (match e with L [_; _; _; _; _; _; _; _] => true | _ => false end)
  && forallb (fun kf =>
       let k := fst kf in let f := snd kf in
       let r := v_list v_n (v_nth k e) in
       let rg := match v_opt (v_list v_n) (v_nth (4 + k) e) with Some x => x | None => r end in
       nlist_eqb (nf f s) r && nlist_eqb (flat_map (nf f) seg) rg)
     (combine [0; 1; 2; 3]%nat forms4).
Fixpoint entries_ok (ss : list (list N)) (es : list val) : bool :=
  match ss, es with
  | [], [] => true
  | s :: ss', e :: es' => entry_ok s e && entries_ok ss' es'
  | _, _ => false
  end.
Definition in_side (v : val) : list (list N) := v_list (v_list v_n) (v_nth 9 v).
Definition side_agree (v i : val) : bool :=
  match in_side v with
  | [] => true
  | ss => match v_nth 6 i with L es => entries_ok ss es | _ => false end
  end.

Definition nf_agree (v i : val) : bool := lines_agree v && side_agree v i.

(** From training to tokenizing THROUGH THE FILE, with no trust in the file format:
    C19 (every run of the literal loop of [train_bpe] ends with a table) ∘ MsgPack (the bytes [save] writes for that
    map, in any iteration order, load as that table) ∘ C02 (the tokenizer built on a table is lossless). *)
From TU Require Import Base.
From TU Require C19_Model C19_Lit C19_LitRun C19_FileProofs.
From TU Require BPE_Model C02_Model C02_Proofs C02_FileProofs.
From TU Require Import MsgPack_Model MsgPack_Map.
From Coq Require Import Permutation.
Open Scope N_scope.

Theorem trained_file_lossless_l (c : C19_Model.corpus) k o :
  C19_Model.CorpusOK [] c -> C19_FileProofs.CorpusBytes c -> N.of_nat k <= u32_max ->
  C19_Lit.LRun c (C19_Lit.byte_pair_stats_lit c) k o ->
  exists ps, o = C19_Lit.Done ps /\
    forall es junk, Permutation es (entries_of_table (map C19_Model.merge ps)) ->
      load_table (mp_encode es ++ junk) = Loaded (map C19_Model.merge ps) /\
      forall cfg s, BPE_Model.c_tbl cfg = map C19_Model.merge ps -> C02_Model.config_ok cfg = true ->
        Forall BPE_Model.valid_cp s ->
        exists ids, BPE_Model.bpe_tokenize cfg s = Some ids /\
          BPE_Model.bpe_decode (BPE_Model.eff_table cfg) ids = utf8s (BPE_Model.strip_trailing_ws s) /\
          Forall (fun id => id < BPE_Model.vocab_size cfg) ids.
Proof.
  intros Hok Hb Hk HL. destruct (C19_FileProofs.trained_file_l c k o Hok Hb Hk HL) as (ps & -> & _ & _ & Hload).
  exists ps. split; [reflexivity|]. intros es junk Hp. destruct (Hload es junk Hp) as [_ Hl]. split; [exact Hl|].
  intros cfg s _ Hc Hs. apply C02_Proofs.bpe_lossless_l; assumption.
Qed.

(** C07 proofs. *)
From TU Require Import Base C07_Model.
Require Import Lia.

(** * The unrepaired interleaved selection diverges on lengths [1;3] *)
Lemma probe_pinned_stuck : forall g idx,
  idx < 2 -> probe_pinned [true; false] 1 g idx = None.
Proof.
  induction g as [|g IH]; intros idx H; [reflexivity|].
  destruct idx as [|[|idx]]; try lia; cbn [probe_pinned]; cbn; apply IH; lia.
Qed.

Lemma pinned_diverges_l : forall (A : Type) (a b c d : A) f g,
  run_pinned f g [[a]; [b; c; d]] = Err OutOfFuel.
Proof.
  intros A a b c d f g. unfold run_pinned.
  destruct f as [|f]; [reflexivity|].
  destruct g as [|g]; [reflexivity|]. destruct g as [|g]; [reflexivity|].
  destruct f as [|f]; [reflexivity|].
  destruct f as [|f]; [reflexivity|].
  destruct f as [|f]; [reflexivity|].
  cbn. rewrite (probe_pinned_stuck g 1) by lia. reflexivity.
Qed.

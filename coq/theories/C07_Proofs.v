(** C07 proofs, part 1: list facts, the selection functions, invariant, totality,
    items (tagged interleaving). *)
From TU Require Import Base C07_Model.
Require Import Lia.

(** * set_nth *)
Lemma set_nth_length : forall B i (x : B) l, length (set_nth i x l) = length l.
Proof. induction i; destruct l; cbn; auto. Qed.

Lemma nth_set_nth_eq : forall B i (x d : B) l, i < length l -> nth i (set_nth i x l) d = x.
Proof. induction i; destruct l; cbn; intros; try lia; auto. apply IHi. lia. Qed.

Lemma nth_set_nth_neq : forall B i j (x d : B) l, j <> i -> nth j (set_nth i x l) d = nth j l d.
Proof.
  induction i; destruct l; cbn; intros; auto.
  - destruct j; [lia|reflexivity].
  - destruct j; [reflexivity|]. apply IHi. lia.
Qed.

Lemma nth_error_nth : forall B (l : list B) i x d, nth_error l i = Some x -> nth i l d = x.
Proof. induction l; destruct i; cbn; intros; try discriminate; [congruence|eauto]. Qed.

Lemma nth_error_lt : forall B (l : list B) i x, nth_error l i = Some x -> i < length l.
Proof. intros. apply nth_error_Some. congruence. Qed.

Lemma nth_error_of_nth : forall B (l : list B) i d, i < length l -> nth_error l i = Some (nth i l d).
Proof. induction l; destruct i; cbn; intros; try lia; auto. apply IHl. lia. Qed.

Lemma nth_error_set_nth_eq : forall B i (x : B) l, i < length l -> nth_error (set_nth i x l) i = Some x.
Proof. induction i; destruct l; cbn; intros; try lia; auto. apply IHi. lia. Qed.

Lemma nth_error_set_nth_neq : forall B i j (x : B) l, j <> i -> nth_error (set_nth i x l) j = nth_error l j.
Proof.
  induction i; destruct l; cbn; intros; auto.
  - destruct j; [lia|reflexivity].
  - destruct j; [reflexivity|]. cbn. apply IHi. lia.
Qed.

(** * finished flags *)
Lemma all_fin_true : forall fin, all_fin fin = true <-> (forall j, nth j fin true = true).
Proof.
  unfold all_fin. induction fin as [|b fin IH]; cbn.
  - split; auto. intros _ j. destruct j; reflexivity.
  - rewrite andb_true_iff, IH. split.
    + intros [Hb H] [|j]; auto.
    + intros H. split; [apply (H 0)|intros j; apply (H (S j))].
Qed.

Lemma all_fin_false : forall fin, all_fin fin = false -> exists j, nth j fin true = false.
Proof.
  unfold all_fin. induction fin as [|b fin IH]; cbn; [discriminate|].
  destruct b; cbn.
  - intros H. destruct (IH H) as [j Hj]. exists (S j). exact Hj.
  - intros _. exists 0. reflexivity.
Qed.

Lemma unf_lt : forall j (fin : list bool), nth j fin true = false -> j < length fin.
Proof.
  intros j fin H. destruct (Nat.lt_ge_cases j (length fin)) as [|Hge]; auto.
  rewrite nth_overflow in H by lia. discriminate.
Qed.

Lemma not_all_fin : forall fin j, nth j fin true = false -> all_fin fin = false.
Proof.
  intros fin j H. destruct (all_fin fin) eqn:E; auto.
  rewrite all_fin_true in E. rewrite E in H. discriminate.
Qed.

Lemma in_unfinished : forall fin j, In j (unfinished fin) <-> nth j fin true = false.
Proof.
  intros. unfold unfinished. rewrite filter_In, in_seq, negb_true_iff. split.
  - tauto.
  - intros H. split; auto. pose proof (unf_lt _ _ H). lia.
Qed.

(** number of unfinished sources *)
Definition cf (fin : list bool) : nat := length (filter negb fin).

Lemma cf_set : forall i fin, nth i fin true = false -> cf (set_nth i true fin) + 1 = cf fin.
Proof.
  unfold cf. induction i; destruct fin as [|b fin]; cbn; intros H; try discriminate.
  - subst b. cbn. lia.
  - destruct b; cbn; rewrite <- (IHi fin H); lia.
Qed.

Lemma cf_repeat : forall n, cf (repeat false n) = n.
Proof. unfold cf. induction n; cbn; auto. Qed.

(** * probe: the repaired interleaved selection *)
Lemma probe_some : forall fin f s j, s < length fin -> probe fin f s = Some j ->
  exists k, k < f /\ j = (s + k) mod length fin /\ nth j fin true = false /\
    (forall k', k' < k -> nth ((s + k') mod length fin) fin true = true).
Proof.
  intros fin. induction f as [|f IH]; intros s j Hs H; cbn in H; [discriminate|].
  destruct (nth s fin true) eqn:E.
  - assert (Hn : length fin <> 0) by lia.
    destruct (IH _ _ (Nat.mod_upper_bound _ _ Hn) H) as (k & Hk & Hj & Hf & Hbefore).
    exists (S k). split; [lia|]. split; [|split; [exact Hf|]].
    + rewrite Hj. rewrite Nat.add_mod_idemp_l by exact Hn. f_equal. lia.
    + intros k' Hk'. destruct k' as [|k'].
      * rewrite Nat.add_0_r, Nat.mod_small by exact Hs. exact E.
      * specialize (Hbefore k' ltac:(lia)).
        rewrite Nat.add_mod_idemp_l in Hbefore by exact Hn.
        replace (s + S k') with (S s + k') by lia. exact Hbefore.
  - injection H as <-. exists 0. split; [lia|]. split; [|split; [exact E|intros; lia]].
    rewrite Nat.add_0_r, Nat.mod_small by exact Hs. reflexivity.
Qed.

Lemma probe_none : forall fin f s, s < length fin -> probe fin f s = None ->
  forall k, k < f -> nth ((s + k) mod length fin) fin true = true.
Proof.
  intros fin. induction f as [|f IH]; intros s Hs H k Hk; [lia|]. cbn in H.
  assert (Hn : length fin <> 0) by lia.
  destruct (nth s fin true) eqn:E; [|discriminate].
  destruct k as [|k].
  - rewrite Nat.add_0_r, Nat.mod_small by exact Hs. exact E.
  - specialize (IH _ (Nat.mod_upper_bound _ _ Hn) H k ltac:(lia)).
    rewrite Nat.add_mod_idemp_l in IH by exact Hn.
    replace (s + S k) with (S s + k) by lia. exact IH.
Qed.

(** every residue is reached within n probes *)
Lemma probe_total : forall fin s j, s < length fin -> nth j fin true = false ->
  exists i, probe fin (length fin) s = Some i.
Proof.
  intros fin s j Hs Hj. destruct (probe fin (length fin) s) eqn:E; [eauto|exfalso].
  pose proof (unf_lt _ _ Hj) as Hlt.
  pose proof (probe_none _ _ _ Hs E) as H.
  destruct (Nat.le_gt_cases s j) as [Hle|Hgt].
  - specialize (H (j - s) ltac:(lia)). replace (s + (j - s)) with j in H by lia.
    rewrite Nat.mod_small in H by exact Hlt. congruence.
  - specialize (H (j + length fin - s) ltac:(lia)).
    replace (s + (j + length fin - s)) with (j + 1 * length fin) in H by lia.
    rewrite Nat.mod_add, Nat.mod_small in H by lia. congruence.
Qed.

(** the shape of the result: forward without wrapping (A) or wrapped (B) *)
Lemma probe_shape : forall fin i i', i < length fin ->
  probe fin (length fin) (S i mod length fin) = Some i' ->
  nth i' fin true = false /\
  ((i < i' /\ forall j, i < j < i' -> nth j fin true = true) \/
   (i' <= i /\ (forall j, i < j -> nth j fin true = true) /\ (forall j, j < i' -> nth j fin true = true))).
Proof.
  intros fin i i' Hi H. set (n := length fin) in *.
  assert (Hn : n <> 0) by lia.
  destruct (probe_some _ _ _ _ (Nat.mod_upper_bound _ _ Hn) H) as (k & Hk & Hj & Hf & Hb).
  fold n in Hj, Hb. split; [exact Hf|].
  rewrite Nat.add_mod_idemp_l in Hj by exact Hn.
  assert (Hb' : forall k', k' < k -> nth ((S i + k') mod n) fin true = true).
  { intros k' Hk'. specialize (Hb k' Hk'). rewrite Nat.add_mod_idemp_l in Hb by exact Hn. exact Hb. }
  clear Hb. destruct (Nat.lt_ge_cases (S i + k) n) as [Hlt|Hge].
  - left. rewrite Nat.mod_small in Hj by exact Hlt. split; [lia|].
    intros j Hjr. specialize (Hb' (j - S i) ltac:(lia)).
    replace (S i + (j - S i)) with j in Hb' by lia. rewrite Nat.mod_small in Hb' by lia. exact Hb'.
  - right. assert (Hi' : i' = S i + k - n).
    { rewrite Hj. replace (S i + k) with ((S i + k - n) + 1 * n) by lia.
      rewrite Nat.mod_add, Nat.mod_small by lia. lia. }
    split; [lia|]. split.
    + intros j Hjr. destruct (Nat.lt_ge_cases j n) as [Hjn|Hjn]; [|apply nth_overflow; fold n; lia].
      specialize (Hb' (j - S i) ltac:(lia)).
      replace (S i + (j - S i)) with j in Hb' by lia. rewrite Nat.mod_small in Hb' by lia. exact Hb'.
    + intros j Hjr. specialize (Hb' (j + n - S i) ltac:(lia)).
      replace (S i + (j + n - S i)) with (j + 1 * n) in Hb' by lia.
      rewrite Nat.mod_add, Nat.mod_small in Hb' by lia. exact Hb'.
Qed.

(** * next_idx *)
(** Seq-specific shape of the flags: everything before [idx] finished, everything
    after unfinished ([idx] itself may be either, it is decided by the caller). *)
Definition SeqShape (idx : nat) (fin : list bool) : Prop :=
  forall j, j < length fin -> j <> idx -> nth j fin true = (j <? idx).

Lemma next_idx_ok : forall s o clk fin idx idx' clk',
  (s = Sequential -> SeqShape idx fin) ->
  next_idx s o clk fin idx = inr (idx', clk') ->
  nth idx' fin true = false /\ (s = Sequential -> SeqShape idx' fin).
Proof.
  intros s o clk fin idx idx' clk' Hseq H. unfold next_idx in H.
  destruct (all_fin fin) eqn:Eall; [discriminate|].
  destruct (idx <? length fin) eqn:Elt; [|discriminate]. cbn [negb] in H.
  apply Nat.ltb_lt in Elt.
  destruct s.
  - specialize (Hseq eq_refl). injection H as <- <-.
    destruct (nth idx fin true) eqn:E.
    + (* idx finished: all j <= idx finished, someone is not, so S idx < n *)
      destruct (all_fin_false _ Eall) as [j Hj].
      pose proof (unf_lt _ _ Hj) as Hjl.
      assert (Hji : idx < j).
      { destruct (Nat.eq_dec j idx) as [->|Hne]; [congruence|].
        rewrite (Hseq j Hjl Hne) in Hj. apply Nat.ltb_ge in Hj. lia. }
      rewrite Nat.mod_small by lia. split.
      * destruct (Nat.eq_dec (S idx) j) as [->|Hne]; [exact Hj|].
        rewrite (Hseq (S idx)) by lia. apply Nat.ltb_ge. lia.
      * intros _ j' Hj' Hne'. destruct (Nat.eq_dec j' idx) as [->|Hne2].
        -- rewrite E. symmetry. apply Nat.ltb_lt. lia.
        -- rewrite (Hseq j' Hj' Hne2).
           destruct (j' <? idx) eqn:E1, (j' <? S idx) eqn:E2; auto;
             [apply Nat.ltb_lt in E1; apply Nat.ltb_ge in E2|apply Nat.ltb_ge in E1; apply Nat.ltb_lt in E2]; lia.
    + split; [exact E|intros _; exact Hseq].
  - destruct (probe fin (length fin) (S idx mod length fin)) eqn:Ep; [|discriminate].
    injection H as <- <-. split; [|discriminate].
    apply (probe_shape _ _ _ Elt Ep).
  - destruct (nth_error (unfinished fin) (o clk (length (unfinished fin)))) eqn:En; [|discriminate].
    injection H as <- <-. split; [|discriminate].
    apply in_unfinished. eapply nth_error_In. exact En.
Qed.

Lemma next_idx_err : forall s o clk fin idx e,
  idx < length fin -> all_fin fin = false ->
  next_idx s o clk fin idx = inl e ->
  e = BadOracle /\ s = Weighted /\ ~ (o clk (length (unfinished fin)) < length (unfinished fin)).
Proof.
  intros s o clk fin idx e Hidx Hall H. unfold next_idx in H. rewrite Hall in H.
  apply Nat.ltb_lt in Hidx. rewrite Hidx in H. cbn [negb] in H. apply Nat.ltb_lt in Hidx.
  destruct s; [discriminate| |].
  - destruct (all_fin_false _ Hall) as [j Hj].
    assert (Hn : length fin <> 0) by lia.
    destruct (probe_total fin (S idx mod length fin) j (Nat.mod_upper_bound _ _ Hn) Hj) as [i Hi].
    rewrite Hi in H. discriminate.
  - destruct (nth_error (unfinished fin) (o clk (length (unfinished fin)))) eqn:En; [discriminate|].
    injection H as <-. split; [reflexivity|]. split; [reflexivity|].
    apply nth_error_None in En. lia.
Qed.

Lemma unfinished_pos : forall fin, all_fin fin = false -> 0 < length (unfinished fin).
Proof.
  intros fin H. destruct (all_fin_false _ H) as [j Hj]. apply in_unfinished in Hj.
  destruct (unfinished fin); [destruct Hj|cbn; lia].
Qed.

(** * Invariant of the drain loop *)
Section Run.
Context {A : Type}.
Implicit Types (srcs : list (list A)) (fin : list bool).

Record Inv (s : strategy) srcs (idx : nat) fin : Prop := {
  inv_len : length fin = length srcs;
  inv_idx : nth idx fin true = false;
  inv_fin : forall j, nth j fin true = true -> nth j srcs [] = [];
  inv_seq : s = Sequential -> SeqShape idx fin }.

Lemma total_len_set : forall srcs i x xs, nth_error srcs i = Some (x :: xs) ->
  total_len (set_nth i xs srcs) + 1 = total_len srcs.
Proof.
  unfold total_len, sum_nat. induction srcs as [|a srcs IH]; destruct i; cbn; intros x xs H; try discriminate.
  - injection H as ->. cbn. lia.
  - rewrite <- (IH _ _ _ H). lia.
Qed.

Lemma inv_item : forall s srcs idx fin x xs idx',
  Inv s srcs idx fin -> nth_error srcs idx = Some (x :: xs) ->
  nth idx' fin true = false -> (s = Sequential -> SeqShape idx' fin) ->
  Inv s (set_nth idx xs srcs) idx' fin.
Proof.
  intros s srcs idx fin x xs idx' [Hl Hi Hf Hs] Hn Hi' Hs'. split; auto.
  - rewrite set_nth_length. exact Hl.
  - intros j Hj. destruct (Nat.eq_dec j idx) as [->|Hne]; [congruence|].
    rewrite nth_set_nth_neq by exact Hne. auto.
Qed.

Lemma inv_none_fin : forall s srcs idx fin,
  Inv s srcs idx fin -> nth_error srcs idx = Some [] ->
  forall j, nth j (set_nth idx true fin) true = true -> nth j srcs [] = [].
Proof.
  intros s srcs idx fin [Hl Hi Hf Hs] Hn j Hj.
  destruct (Nat.eq_dec j idx) as [->|Hne].
  - eapply nth_error_nth. exact Hn.
  - rewrite nth_set_nth_neq in Hj by exact Hne. auto.
Qed.

Lemma seqshape_set : forall idx fin, SeqShape idx fin -> SeqShape idx (set_nth idx true fin).
Proof.
  intros idx fin H j Hj Hne. rewrite set_nth_length in Hj.
  rewrite nth_set_nth_neq by exact Hne. auto.
Qed.

Lemma inv_none : forall s srcs idx fin idx',
  Inv s srcs idx fin -> nth_error srcs idx = Some [] ->
  nth idx' (set_nth idx true fin) true = false ->
  (s = Sequential -> SeqShape idx' (set_nth idx true fin)) ->
  Inv s srcs idx' (set_nth idx true fin).
Proof.
  intros s srcs idx fin idx' HI Hn Hi' Hs'. split; auto.
  - rewrite set_nth_length. apply HI.
  - eapply inv_none_fin; eauto.
Qed.

Lemma inv_init : forall s srcs, srcs <> [] -> Inv s srcs 0 (repeat false (length srcs)).
Proof.
  intros s srcs Hne. assert (0 < length srcs) by (destruct srcs; [congruence|cbn; lia]).
  split.
  - apply repeat_length.
  - destruct (length srcs); [lia|reflexivity].
  - intros j Hj. destruct (Nat.lt_ge_cases j (length srcs)) as [Hlt|Hge].
    + rewrite (nth_indep _ true false) in Hj by (rewrite repeat_length; exact Hlt).
      rewrite nth_repeat in Hj. discriminate.
    + apply nth_overflow. exact Hge.
  - intros _ j Hj Hne'. rewrite repeat_length in Hj.
    rewrite (nth_indep _ true false) by (rewrite repeat_length; exact Hj).
    rewrite nth_repeat. symmetry. apply Nat.ltb_ge. lia.
Qed.

(** * Totality: the fuel suffices; errors other than an out-of-range oracle never occur *)
Definition good (r : res A) : Prop :=
  match r with Ok _ => True | Err BadOracle => True | Err _ => False end.
Definition is_ok (r : res A) : Prop := exists out, r = Ok out.

Lemma good_cons : forall p r, good r -> good (cons_res p r).
Proof. intros p [out|e]; cbn; auto. Qed.
Lemma is_ok_cons : forall p r, is_ok r -> is_ok (cons_res p r).
Proof. intros p r [out ->]. eexists. reflexivity. Qed.

Lemma run_total : forall s o f srcs idx fin clk,
  Inv s srcs idx fin -> total_len srcs + cf fin < f ->
  good (run_loop (next_idx s o) f srcs idx fin clk) /\
  (oracle_guard o \/ s <> Weighted -> is_ok (run_loop (next_idx s o) f srcs idx fin clk)).
Proof.
  intros s o. induction f as [|f IH]; intros srcs idx fin clk HI Hm; [lia|].
  cbn [run_loop].
  pose proof (unf_lt _ _ (inv_idx _ _ _ _ HI)) as Hidx.
  assert (Hidx' : idx < length srcs) by (rewrite <- (inv_len _ _ _ _ HI); exact Hidx).
  rewrite (nth_error_of_nth _ srcs idx [] Hidx').
  destruct (nth idx srcs []) as [|x xs] eqn:Esrc.
  - (* exhausted *)
    assert (Hn : nth_error srcs idx = Some []) by (rewrite (nth_error_of_nth _ srcs idx [] Hidx'), Esrc; reflexivity).
    destruct (all_fin (set_nth idx true fin)) eqn:Eall.
    + split; [exact Logic.I|intros _; eexists; reflexivity].
    + destruct (next_idx s o clk (set_nth idx true fin) idx) as [e|[idx' clk']] eqn:En.
      * apply next_idx_err in En; [|rewrite set_nth_length; exact Hidx|exact Eall].
        destruct En as (-> & -> & Hbad). split; [exact Logic.I|].
        intros [Hg|Hg]; [|congruence]. exfalso. apply Hbad, Hg, unfinished_pos, Eall.
      * apply next_idx_ok in En.
        2:{ intros Hs. apply seqshape_set. apply (inv_seq _ _ _ _ HI Hs). }
        destruct En as [Hi' Hs'].
        apply IH; [apply inv_none; auto|].
        pose proof (cf_set idx fin (inv_idx _ _ _ _ HI)). lia.
  - assert (Hn : nth_error srcs idx = Some (x :: xs)) by (rewrite (nth_error_of_nth _ srcs idx [] Hidx'), Esrc; reflexivity).
    pose proof (not_all_fin _ _ (inv_idx _ _ _ _ HI)) as Eall.
    destruct (next_idx s o clk fin idx) as [e|[idx' clk']] eqn:En.
    + apply next_idx_err in En; [|exact Hidx|exact Eall].
      destruct En as (-> & -> & Hbad). split; [exact Logic.I|].
      intros [Hg|Hg]; [|congruence]. exfalso. apply Hbad, Hg, unfinished_pos, Eall.
    + apply next_idx_ok in En; [|apply (inv_seq _ _ _ _ HI)].
      destruct En as [Hi' Hs'].
      pose proof (total_len_set _ _ _ _ Hn) as Hlen.
      destruct (IH (set_nth idx xs srcs) idx' fin clk') as [Hg Ho].
      * eapply inv_item; eauto.
      * lia.
      * split; [apply good_cons, Hg|intros Hgd; apply is_ok_cons, Ho, Hgd].
Qed.

(** * Items: the output is a tagged interleaving of the sources *)
Inductive TI : list (list A) -> list (nat * A) -> Prop :=
| TI_nil : forall srcs, (forall j, nth j srcs [] = []) -> TI srcs []
| TI_cons : forall srcs j x xs out,
    nth_error srcs j = Some (x :: xs) -> TI (set_nth j xs srcs) out -> TI srcs ((j, x) :: out).

Lemma cons_res_ok : forall p (r : res A) out, cons_res p r = Ok out -> exists out', r = Ok out' /\ out = p :: out'.
Proof. intros p [o|e] out H; cbn in H; [injection H as <-; eauto|discriminate]. Qed.

Lemma run_ti : forall s o f srcs idx fin clk out,
  Inv s srcs idx fin ->
  run_loop (next_idx s o) f srcs idx fin clk = Ok out -> TI srcs out.
Proof.
  intros s o. induction f as [|f IH]; intros srcs idx fin clk out HI H; [discriminate|].
  cbn [run_loop] in H.
  destruct (nth_error srcs idx) as [[|x xs]|] eqn:Hn; [| |discriminate].
  - destruct (all_fin (set_nth idx true fin)) eqn:Eall.
    + injection H as <-. constructor. intros j.
      eapply inv_none_fin; eauto. rewrite all_fin_true in Eall. apply Eall.
    + destruct (next_idx s o clk (set_nth idx true fin) idx) as [e|[idx' clk']] eqn:En; [discriminate|].
      apply next_idx_ok in En.
      2:{ intros Hs. apply seqshape_set. apply (inv_seq _ _ _ _ HI Hs). }
      destruct En as [Hi' Hs'].
      eapply IH; [|exact H]. apply inv_none; auto.
  - destruct (next_idx s o clk fin idx) as [e|[idx' clk']] eqn:En; [discriminate|].
    apply next_idx_ok in En; [|apply (inv_seq _ _ _ _ HI)].
    destruct En as [Hi' Hs'].
    apply cons_res_ok in H. destruct H as (out' & H & ->).
    econstructor; [exact Hn|]. eapply IH; [|exact H]. eapply inv_item; eauto.
Qed.

(** what a tagged interleaving means *)
Lemma proj_cons : forall j j' (x : A) out,
  proj j' ((j, x) :: out) = if Nat.eqb j j' then x :: proj j' out else proj j' out.
Proof. intros. unfold proj. cbn. destruct (Nat.eqb j j'); reflexivity. Qed.

Lemma TI_spec : forall srcs out, TI srcs out ->
  (forall j, proj j out = nth j srcs []) /\ length out = total_len srcs /\
  Forall (fun p => fst p < length srcs) out.
Proof.
  induction 1 as [srcs Hnil|srcs j x xs out Hn HT (IHp & IHl & IHf)].
  - split; [intros j; rewrite Hnil; reflexivity|]. split; [|constructor].
    cbn. unfold total_len, sum_nat. clear -Hnil. induction srcs as [|a srcs IH]; cbn; auto.
    rewrite <- IH; [|intros j; apply (Hnil (S j))]. specialize (Hnil 0). cbn in Hnil. subst a. reflexivity.
  - pose proof (nth_error_lt _ _ _ _ Hn) as Hj. split; [|split].
    + intros j'. rewrite proj_cons. destruct (Nat.eqb j j') eqn:E.
      * apply Nat.eqb_eq in E. subst j'. rewrite IHp, nth_set_nth_eq by exact Hj.
        symmetry. eapply nth_error_nth. exact Hn.
      * apply Nat.eqb_neq in E. rewrite IHp. apply nth_set_nth_neq. congruence.
    + cbn. rewrite IHl. pose proof (total_len_set _ _ _ _ Hn). lia.
    + constructor; [exact Hj|]. rewrite set_nth_length in IHf. exact IHf.
Qed.

Lemma spec_TI : forall out srcs,
  (forall j, proj j out = nth j srcs []) -> Forall (fun p => fst p < length srcs) out -> TI srcs out.
Proof.
  induction out as [|[j x] out IH]; intros srcs Hp Hf.
  - constructor. intros j. rewrite <- Hp. reflexivity.
  - inversion Hf as [|? ? Hj Hf']; subst. cbn in Hj.
    pose proof (Hp j) as Hpj. rewrite proj_cons, Nat.eqb_refl in Hpj.
    econstructor.
    + rewrite (nth_error_of_nth _ srcs j [] Hj), <- Hpj. reflexivity.
    + apply IH.
      * intros j'. destruct (Nat.eq_dec j' j) as [->|Hne].
        -- rewrite nth_set_nth_eq by exact Hj. reflexivity.
        -- rewrite nth_set_nth_neq by exact Hne. rewrite <- Hp, proj_cons.
           destruct (Nat.eqb j j') eqn:E; [apply Nat.eqb_eq in E; congruence|reflexivity].
      * rewrite set_nth_length. exact Hf'.
Qed.

(** the executable form *)
Context (eqb : A -> A -> bool) (eqb_eq : forall x y, eqb x y = true <-> x = y).

Lemma forallb_is_nil : forall srcs, forallb is_nil srcs = true <-> (forall j, nth j srcs [] = []).
Proof.
  induction srcs as [|a srcs IH]; cbn.
  - split; auto. intros _ j. destruct j; reflexivity.
  - rewrite andb_true_iff, IH. split.
    + intros [Ha H] [|j]; [destruct a; [reflexivity|discriminate]|apply H].
    + intros H. split; [rewrite (H 0); reflexivity|intros j; apply (H (S j))].
Qed.

Lemma is_ti_TI : forall out srcs, is_ti eqb srcs out = true <-> TI srcs out.
Proof.
  induction out as [|[j x] out IH]; intros srcs; cbn [is_ti].
  - rewrite forallb_is_nil. split; [intros H; constructor; exact H|intros H; inversion H; auto].
  - split.
    + destruct (nth_error srcs j) as [[|y ys]|] eqn:Hn; try discriminate.
      rewrite andb_true_iff, eqb_eq, IH. intros [-> HT]. econstructor; eauto.
    + intros H. inversion H as [|? ? ? xs ? Hn HT]; subst. rewrite Hn.
      rewrite andb_true_iff, IH. split; [apply eqb_eq; reflexivity|exact HT].
Qed.

End Run.

(** C12 fast model at the val level: what the extracted programme runs.

    [run_C12F_fast] / [check_C12F_fast] compute exactly the vals of [run_C12F] / [check_C12F] (C12_Float.v)
    with the binary-number dynamic programme of C12_Fast.v — one matrix computation for distance, prefix
    distance and script; the prefix clause of the executable statement reads the minimum of the last row
    (= the minimum over all prefixes by [prefix_dist_spec_l]) instead of one full matrix per prefix.

    [run_R] / [check_R] / [agree_R] are what C12_Extract.v extracts: below the size threshold ([big] false) the
    old unary model runs and the fast one runs NEXT to it (the correspondence demands that both equal the
    implementation, and that both executable statements give the same verdict); above it the fast one runs
    alone.  [run_R_eq] / [check_R_eq]: for every input they are [run_C12F] / [check_C12F]. *)
From Coq Require Import ZArith List Bool QArith Lia.
From TU Require Import Base C12_Model C12_Matrix C12_Fast C12_UAX29 C12_Float.
Import ListNotations.

(** * rational level *)
Definition run_C12_fast (v : val) : val :=
  let fl := in_flags v in
  let nm := in_norm v in
  let a := in_a v in
  let b := in_b v in
  let '(d, p, o) := core_f fl a b in
  L [ q_v (Qmake (Z.of_N d) (norm_den nm a b));
      q_v (Qmake (Z.of_N p) (pnorm_den nm a));
      match o with Some ops => list_v edit_v ops | None => v_model_err end;
      opt_v (list_v q_v) (distances_f fl nm (in_la v) (in_lb v)) ].

Definition check_C12_fast (v out : val) : bool :=
  let fl := in_flags v in
  let nm := in_norm v in
  let a := in_a v in
  let b := in_b v in
  let d := v_zq (v_nth 0 out) in
  let pd := v_zq (v_nth 1 out) in
  let ops := v_list v_edit (v_nth 2 out) in
  let ds := v_opt (v_list v_zq) (v_nth 3 out) in
  let ex := negb nm in
  let row := final_row_f fl a b in
  let dd := dist_of_row row in
  shape_ok out
  && q_close ex d (Z.of_N dd) (norm_den nm a b)
  && (if nm then (0 <=? fst d)%Z && (fst d <=? snd d)%Z else true)
  && q_close ex pd (Z.of_N (prefix_of_row row)) (pnorm_den nm a)
  && forallb edit_shape (match v_nth 2 out with L l => l | _ => [] end)
  && sortedb ops
  && script_ok fl ops a b
  && N.eqb (N.of_nat (length ops)) dd
  && (if Nat.eqb (length (in_la v)) (length (in_lb v))
      then match ds with
           | Some l => all2 (fun x p => q_close ex x (Z.of_N (dist_f fl (fst p) (snd p)))
                                                (norm_den nm (fst p) (snd p)))
                            l (zip (in_la v) (in_lb v))
           | None => false
           end
      else match ds with None => true | Some _ => false end).

(** * float level (the shapes of C12_Float.v) *)
Definition run_C12F_fast (v : val) : val :=
  let fl := in_flags v in
  let nm := in_norm v in
  let a := in_a v in
  let b := in_b v in
  let '(d, p, o) := core_f fl a b in
  L [ fl_v (q_fl (Qmake (Z.of_N d) (norm_den nm a b)));
      fl_v (q_fl (Qmake (Z.of_N p) (pnorm_den nm a)));
      match o with Some ops => list_v edit_v ops | None => v_model_err end;
      opt_v (list_v fl_v) (option_map (map q_fl) (distances_f fl nm (in_la v) (in_lb v))) ].
Definition check_C12F_fast (v out : val) : bool := check_C12_fast v (conv_out out).

(** * what is extracted *)
(** size threshold: more than 48 characters in the two texts together *)
Definition big (v : val) : bool := Nat.ltb 48 (length (in_a v) + length (in_b v)).

Definition run_R (v : val) : val := if big v then run_C12F_fast v else run_C12F v.
Definition check_R (v out : val) : bool := if big v then check_C12F_fast v out else check_C12F v out.
(** small inputs: the old relation (bit for bit with the unary float model + the rational second line), AND
    the fast model's output equals the implementation's, AND both executable statements agree on it;
    big inputs: bit for bit with the fast model ([m] is its output).  The segmenter correspondence always. *)
Definition agree_R (v m out : val) : bool :=
  (if big v then val_eqb m out
   else agree_C12F v m out && val_eqb (run_C12F_fast v) out
        && Bool.eqb (check_C12F_fast v out) (check_C12F v out))
  && uax29_agree v.

(** * Proofs *)
Lemma run_C12_fast_eq v : run_C12_fast v = run_C12 v.
Proof.
  unfold run_C12_fast, run_C12. cbv zeta. rewrite core_f_eq, distances_f_eq.
  unfold distance, prefix_distance. rewrite !nat_N_Z. reflexivity.
Qed.

Lemma run_C12F_fast_eq v : run_C12F_fast v = run_C12F v.
Proof.
  unfold run_C12F_fast, run_C12F. cbv zeta. rewrite core_f_eq, distances_f_eq.
  unfold distance_fl, prefix_distance_fl, distances_fl, distance, prefix_distance. rewrite !nat_N_Z. reflexivity.
Qed.

Lemma of_nat_eqb a b : N.eqb (N.of_nat a) (N.of_nat b) = Nat.eqb a b.
Proof.
  destruct (N.eqb_spec (N.of_nat a) (N.of_nat b)), (Nat.eqb_spec a b); try reflexivity; lia.
Qed.

Lemma all2_ext {A B} (f g : A -> B -> bool) : (forall x y, f x y = g x y) ->
  forall l r, all2 f l r = all2 g l r.
Proof.
  intros H. induction l as [|x l IH]; intros [|y r]; try reflexivity.
  cbn [all2]. rewrite H, IH. reflexivity.
Qed.

Lemma check_C12_fast_eq v out : check_C12_fast v out = check_C12 v out.
Proof.
  unfold check_C12_fast, check_C12. cbv zeta.
  fold (dist_f (in_flags v) (in_a v) (in_b v)). fold (prefix_dist_f (in_flags v) (in_a v) (in_b v)).
  rewrite dist_f_eq, prefix_dist_f_eq, prefix_dist_spec_l, !nat_N_Z, of_nat_eqb.
  f_equal. destruct (Nat.eqb (length (in_la v)) (length (in_lb v))); [|reflexivity].
  destruct (v_opt (v_list v_zq) (v_nth 3 out)) as [l|]; [|reflexivity].
  apply all2_ext. intros x p. rewrite dist_f_eq, nat_N_Z. reflexivity.
Qed.

Lemma check_C12F_fast_eq v out : check_C12F_fast v out = check_C12F v out.
Proof. unfold check_C12F_fast, check_C12F. apply check_C12_fast_eq. Qed.

Lemma run_R_eq v : run_R v = run_C12F v.
Proof. unfold run_R. destruct (big v); [apply run_C12F_fast_eq|reflexivity]. Qed.
Lemma check_R_eq v out : check_R v out = check_C12F v out.
Proof. unfold check_R. destruct (big v); [apply check_C12F_fast_eq|reflexivity]. Qed.

(** the extracted correspondence relation accepts exactly what the old one accepts: bit-for-bit equality
    with the float model, the rational second line where it is evaluated (small inputs), the segmenter *)
Lemma agree_R_small v out : big v = false ->
  agree_R v (run_R v) out = agree_C12F v (run_C12F v) out && uax29_agree v.
Proof.
  intros Hb. unfold agree_R. rewrite Hb, run_R_eq, run_C12F_fast_eq, check_C12F_fast_eq, Bool.eqb_reflx.
  unfold agree_C12F. destruct (val_eqb (run_C12F v) out); [|reflexivity].
  rewrite !andb_true_r. reflexivity.
Qed.
Lemma agree_R_big v out : big v = true ->
  agree_R v (run_R v) out = val_eqb (run_C12F v) out && uax29_agree v.
Proof. intros Hb. unfold agree_R. rewrite Hb, run_R_eq. reflexivity. Qed.

(** * transfer of the pinned C12 theorems to the fast functions *)
From TU Require Import C12_Proofs.
Lemma dist_f_metric fl a b :
  Align fl a b (N.to_nat (dist_f fl a b))
  /\ forall n, Align fl a b n -> (dist_f fl a b <= N.of_nat n)%N.
Proof.
  rewrite dist_f_eq, Nat2N.id. split; [apply dist_achieved_l|].
  intros n H. apply dist_minimal_l in H. lia.
Qed.
Lemma operations_f_spec fl a b :
  exists ops, operations_f fl a b = Some ops
    /\ sortedb ops = true /\ script_ok fl ops a b = true
    /\ N.of_nat (length ops) = dist_f fl a b.
Proof.
  destruct (ops_total_l fl a b) as [ops H]. exists ops. rewrite operations_f_eq, dist_f_eq.
  repeat split; [exact H|eapply ops_sorted_l; exact H|apply ops_apply_l; exact H|].
  f_equal. apply ops_length_l. exact H.
Qed.

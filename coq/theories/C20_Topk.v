(** C20 — the (freq, word) order, ordered insertion, bounded top-k. *)
From TU Require Import Base C12_Model C20_Model.
From Coq Require Import Lia ZifyBool ZifyNat ZifyN Permutation Sorted.
Open Scope N_scope.
Arguments N.add : simpl never. Arguments N.sub : simpl never. Arguments N.mul : simpl never.
Arguments N.div : simpl never. Arguments N.modulo : simpl never.
Arguments N.eqb : simpl never. Arguments N.ltb : simpl never. Arguments N.leb : simpl never.

(** * byte strings *)
Lemma bytes_eqb_eq : forall a b, bytes_eqb a b = true <-> a = b.
Proof.
  unfold bytes_eqb. induction a as [|x a IH]; destruct b as [|y b]; cbn [nlist_eqb]; split; intro H;
    try reflexivity; try discriminate.
  - apply andb_true_iff in H as [H1 H2]. apply N.eqb_eq in H1. apply IH in H2. congruence.
  - injection H as -> ->. apply andb_true_iff. split; [apply N.eqb_refl | apply IH; reflexivity].
Qed.
Lemma bytes_eqb_refl : forall a, bytes_eqb a a = true.
Proof. intro. apply bytes_eqb_eq. reflexivity. Qed.
Lemma bytes_eqb_neq : forall a b, bytes_eqb a b = false <-> a <> b.
Proof.
  intros. split; intro H.
  - intro E. apply bytes_eqb_eq in E. congruence.
  - destruct (bytes_eqb a b) eqn:E; [|reflexivity]. apply bytes_eqb_eq in E. contradiction.
Qed.
Lemma bytes_eqb_sym : forall a b, bytes_eqb a b = bytes_eqb b a.
Proof.
  intros. destruct (bytes_eqb a b) eqn:E.
  - apply bytes_eqb_eq in E. subst. symmetry. apply bytes_eqb_refl.
  - apply bytes_eqb_neq in E. symmetry. apply bytes_eqb_neq. congruence.
Qed.

Lemma bytes_leb_refl : forall a, bytes_leb a a = true.
Proof. induction a as [|x a IH]; cbn [bytes_leb]; [reflexivity|]. rewrite N.ltb_irrefl. exact IH. Qed.
Lemma bytes_leb_total : forall a b, bytes_leb a b = true \/ bytes_leb b a = true.
Proof.
  induction a as [|x a IH]; destruct b as [|y b]; cbn [bytes_leb]; auto.
  destruct (x <? y) eqn:E1; auto. destruct (y <? x) eqn:E2; auto.
Qed.
Lemma bytes_leb_antisym : forall a b, bytes_leb a b = true -> bytes_leb b a = true -> a = b.
Proof.
  induction a as [|x a IH]; destruct b as [|y b]; cbn [bytes_leb]; intros H1 H2; try reflexivity; try discriminate.
  destruct (x <? y) eqn:E1; destruct (y <? x) eqn:E2; try discriminate; try lia.
  assert (x = y) by lia. subst. f_equal. apply IH; assumption.
Qed.
Lemma bytes_leb_trans : forall a b c, bytes_leb a b = true -> bytes_leb b c = true -> bytes_leb a c = true.
Proof.
  induction a as [|x a IH]; destruct b as [|y b]; destruct c as [|z c]; cbn [bytes_leb]; intros H1 H2;
    try reflexivity; try discriminate.
  destruct (x <? y) eqn:E1; destruct (y <? z) eqn:E2; destruct (x <? z) eqn:E3; try reflexivity;
    destruct (y <? x) eqn:E4; destruct (z <? y) eqn:E5; destruct (z <? x) eqn:E6;
    try discriminate; try lia.
  eapply IH; eassumption.
Qed.

(** * entries *)
Lemma entry_leb_refl : forall a, entry_leb a a = true.
Proof. intros [f w]. unfold entry_leb. cbn [fst snd]. rewrite N.ltb_irrefl. apply bytes_leb_refl. Qed.
Lemma entry_leb_total : forall a b, entry_leb a b = true \/ entry_leb b a = true.
Proof.
  intros [f w] [g u]. unfold entry_leb. cbn [fst snd].
  destruct (f <? g) eqn:E1; auto. destruct (g <? f) eqn:E2; auto. apply bytes_leb_total.
Qed.
Lemma entry_leb_antisym : forall a b, entry_leb a b = true -> entry_leb b a = true -> a = b.
Proof.
  intros [f w] [g u]. unfold entry_leb. cbn [fst snd]. intros H1 H2.
  destruct (f <? g) eqn:E1; destruct (g <? f) eqn:E2; try discriminate; try lia.
  assert (f = g) by lia. subst. f_equal. apply bytes_leb_antisym; assumption.
Qed.
Lemma entry_leb_trans : forall a b c, entry_leb a b = true -> entry_leb b c = true -> entry_leb a c = true.
Proof.
  intros [f w] [g u] [h x]. unfold entry_leb. cbn [fst snd]. intros H1 H2.
  destruct (f <? g) eqn:E1; destruct (g <? h) eqn:E2; destruct (f <? h) eqn:E3; try reflexivity;
    destruct (g <? f) eqn:E4; destruct (h <? g) eqn:E5; destruct (h <? f) eqn:E6;
    try discriminate; try lia.
  eapply bytes_leb_trans; eassumption.
Qed.
Lemma entry_leb_false : forall a b, entry_leb a b = false -> entry_leb b a = true.
Proof. intros a b H. destruct (entry_leb_total a b) as [H1|H1]; congruence. Qed.
(** the order refines the frequency order *)
Lemma entry_leb_freq : forall a b, entry_leb a b = true -> fst a <= fst b.
Proof.
  intros [f w] [g u]. unfold entry_leb. cbn [fst snd]. intro H.
  destruct (f <? g) eqn:E1; [lia|]. destruct (g <? f) eqn:E2; [discriminate|lia].
Qed.

Definition ele (a b : entry) : Prop := entry_leb a b = true.

(** * ordered insertion *)
Definition lb (e : entry) (l : list entry) : Prop := Forall (ele e) l.

Lemma hpush_perm : forall e h, Permutation (hpush e h) (e :: h).
Proof.
  induction h as [|x t IH]; cbn [hpush]; [apply Permutation_refl|].
  destruct (entry_leb e x); [apply Permutation_refl|].
  eapply perm_trans; [apply perm_skip, IH | apply perm_swap].
Qed.
Lemma hpush_length : forall e h, length (hpush e h) = S (length h).
Proof. intros. rewrite (Permutation_length (hpush_perm e h)). reflexivity. Qed.

Lemma hpush_sorted : forall e h, StronglySorted ele h -> StronglySorted ele (hpush e h).
Proof.
  induction h as [|x t IH]; intro Hs; cbn [hpush].
  - constructor; constructor.
  - inversion Hs as [|? ? St Fx]; subst. destruct (entry_leb e x) eqn:E.
    + constructor; [exact Hs|]. constructor; [exact E|].
      eapply Forall_impl; [|exact Fx]. intros a Ha. eapply entry_leb_trans; eassumption.
    + constructor; [apply IH; exact St|].
      eapply Permutation_Forall; [apply Permutation_sym, hpush_perm|].
      constructor; [apply entry_leb_false; exact E | exact Fx].
Qed.

Lemma isort_snoc : forall l e, isort (l ++ [e]) = hpush e (isort l).
Proof. intros. unfold isort. rewrite fold_left_app. reflexivity. Qed.

Lemma isort_perm : forall l, Permutation (isort l) l.
Proof.
  intro l. induction l as [|e l IH] using rev_ind; [apply Permutation_refl|].
  rewrite isort_snoc. eapply perm_trans; [apply hpush_perm|].
  eapply perm_trans; [apply perm_skip, IH|]. apply Permutation_cons_append.
Qed.
Lemma isort_sorted : forall l, StronglySorted ele (isort l).
Proof.
  intro l. induction l as [|e l IH] using rev_ind; [constructor|].
  rewrite isort_snoc. apply hpush_sorted, IH.
Qed.
Lemma isort_length : forall l, length (isort l) = length l.
Proof. intro. apply Permutation_length, isort_perm. Qed.

(** a sorted list is determined by its elements *)
Lemma sorted_perm_eq : forall l1 l2,
  StronglySorted ele l1 -> StronglySorted ele l2 -> Permutation l1 l2 -> l1 = l2.
Proof.
  induction l1 as [|x l1 IH]; intros l2 S1 S2 P.
  - apply Permutation_nil in P. congruence.
  - destruct l2 as [|y l2]; [apply Permutation_sym, Permutation_nil in P; discriminate|].
    inversion S1 as [|? ? S1' F1]; inversion S2 as [|? ? S2' F2]; subst.
    assert (x = y).
    { assert (Ix : In x (y :: l2)) by (eapply Permutation_in; [exact P | left; reflexivity]).
      assert (Iy : In y (x :: l1)) by (eapply Permutation_in; [apply Permutation_sym, P | left; reflexivity]).
      destruct Ix as [->|Ix]; [reflexivity|]. destruct Iy as [->|Iy]; [reflexivity|].
      rewrite Forall_forall in F1, F2. apply entry_leb_antisym; [apply F1, Iy | apply F2, Ix]. }
    subst. f_equal. apply IH; try assumption. eapply Permutation_cons_inv; exact P.
Qed.

Lemma isort_perm_eq : forall l1 l2, Permutation l1 l2 -> isort l1 = isort l2.
Proof.
  intros. apply sorted_perm_eq; try apply isort_sorted.
  eapply perm_trans; [apply isort_perm|]. eapply perm_trans; [exact H|]. apply Permutation_sym, isort_perm.
Qed.
Lemma isort_sorted_id : forall l, StronglySorted ele l -> isort l = l.
Proof. intros. apply sorted_perm_eq; [apply isort_sorted | assumption | apply isort_perm]. Qed.

(** * the bounded heap *)
Lemma hpush_lb : forall e h, lb e h -> hpush e h = e :: h.
Proof.
  intros e [|x t] H; [reflexivity|]. cbn [hpush]. inversion H; subst.
  unfold ele in *. replace (entry_leb e x) with true by (symmetry; assumption). reflexivity.
Qed.
Lemma lb_skipn : forall e d l, lb e l -> lb e (skipn d l).
Proof.
  intros e d l H. unfold lb in *. rewrite Forall_forall in *. intros x Hx. apply H.
  rewrite <- (firstn_skipn d l). apply in_or_app. right. exact Hx.
Qed.

(** dropping one more from the front of the pushed list = push into the shortened list, then pop *)
Lemma skipn_hpush : forall e d s, StronglySorted ele s ->
  skipn (S d) (hpush e s) = tl (hpush e (skipn d s)).
Proof.
  intros e d. induction d as [|d IH]; intros s Hs.
  - cbn [skipn]. destruct (hpush e s); reflexivity.
  - destruct s as [|x t].
    + cbn [hpush skipn]. reflexivity.
    + inversion Hs as [|? ? St Fx]; subst. cbn [hpush]. destruct (entry_leb e x) eqn:E.
      * change (skipn (S (S d)) (e :: x :: t)) with (skipn d t).
        change (skipn (S d) (x :: t)) with (skipn d t).
        rewrite hpush_lb; [reflexivity|]. apply lb_skipn.
        unfold lb. eapply Forall_impl; [|exact Fx]. intros a Ha. eapply entry_leb_trans; eassumption.
      * change (skipn (S (S d)) (x :: hpush e t)) with (skipn (S d) (hpush e t)).
        change (skipn (S d) (x :: t)) with (skipn d t). apply IH. exact St.
Qed.

(** the number of entries kept out of [n] *)
Definition kmin (cap : option N) (n : nat) : nat :=
  match cap with None => n | Some k => if N.of_nat n <=? k then n else N.to_nat k end.

Lemma kmin_le : forall cap n, (kmin cap n <= n)%nat.
Proof. intros [k|] n; unfold kmin; [|lia]. destruct (N.of_nat n <=? k) eqn:E; lia. Qed.

Lemma push_bounded_step : forall cap s e, StronglySorted ele s ->
  push_bounded cap (skipn (length s - kmin cap (length s)) s) e
  = skipn (S (length s) - kmin cap (S (length s))) (hpush e s).
Proof.
  intros cap s e Hs. unfold push_bounded.
  set (n := length s).
  assert (Hlen : length (hpush e (skipn (n - kmin cap n) s)) = S (kmin cap n)).
  { rewrite hpush_length, skipn_length. fold n. pose proof (kmin_le cap n). lia. }
  rewrite Hlen. destruct cap as [k|]; unfold over, kmin in *.
  - destruct (N.of_nat n <=? k) eqn:E1.
    + (* nothing dropped so far *)
      replace (n - n)%nat with 0%nat in * by lia. cbn [skipn] in *.
      destruct (N.of_nat (S n) <=? k) eqn:E2.
      * replace (k <? N.of_nat (S n)) with false by lia.
        replace (S n - S n)%nat with 0%nat by lia. reflexivity.
      * replace (k <? N.of_nat (S n)) with true by lia.
        assert (N.to_nat k = n) by lia.
        replace (S n - N.to_nat k)%nat with 1%nat by lia. cbn [skipn]. destruct (hpush e s); reflexivity.
    + replace (N.of_nat (S n) <=? k) with false by lia.
      replace (k <? N.of_nat (S (N.to_nat k))) with true by lia.
      replace (S n - N.to_nat k)%nat with (S (n - N.to_nat k)) by lia.
      symmetry. apply skipn_hpush. exact Hs.
  - replace (n - n)%nat with 0%nat by lia. replace (S n - S n)%nat with 0%nat by lia. reflexivity.
Qed.

Lemma topk_fold : forall cap l p,
  fold_left (push_bounded cap) l (skipn (length p - kmin cap (length p)) (isort p))
  = skipn (length (p ++ l) - kmin cap (length (p ++ l))) (isort (p ++ l)).
Proof.
  intros cap l. induction l as [|e l IH]; intro p.
  - rewrite app_nil_r. reflexivity.
  - cbn [fold_left].
    pose proof (push_bounded_step cap (isort p) e (isort_sorted p)) as H.
    rewrite isort_length in H. rewrite H. rewrite <- isort_snoc.
    replace (S (length p)) with (length (p ++ [e])) by (rewrite app_length; cbn [length]; lia).
    rewrite IH. rewrite <- app_assoc. reflexivity.
Qed.

(** the heap loop computes: sort everything, keep the last [kmin] *)
Lemma topk_eq : forall cap l, topk cap l = skipn (length l - kmin cap (length l)) (isort l).
Proof.
  intros. unfold topk. pose proof (topk_fold cap l []) as H. cbn [length app isort fold_left skipn] in H.
  replace (0 - kmin cap 0)%nat with 0%nat in H by lia. cbn [skipn] in H. exact H.
Qed.

Definition omitted (cap : option N) (l : list entry) : list entry :=
  firstn (length l - kmin cap (length l)) (isort l).

Lemma topk_split : forall cap l, Permutation (omitted cap l ++ topk cap l) l.
Proof. intros. unfold omitted. rewrite topk_eq, firstn_skipn. apply isort_perm. Qed.

Lemma topk_length : forall cap l, length (topk cap l) = kmin cap (length l).
Proof.
  intros. rewrite topk_eq, skipn_length, isort_length. pose proof (kmin_le cap (length l)). lia.
Qed.

Lemma sorted_skipn : forall d (l : list entry), StronglySorted ele l -> StronglySorted ele (skipn d l).
Proof.
  induction d as [|d IH]; intros l Hs; [exact Hs|]. destruct l as [|x t]; [constructor|].
  cbn [skipn]. apply IH. inversion Hs; assumption.
Qed.
Lemma topk_sorted : forall cap l, StronglySorted ele (topk cap l).
Proof. intros. rewrite topk_eq. apply sorted_skipn, isort_sorted. Qed.

Lemma sorted_split_le : forall d (l : list entry), StronglySorted ele l ->
  forall x y, In x (firstn d l) -> In y (skipn d l) -> ele x y.
Proof.
  induction d as [|d IH]; intros l Hs x y Hx Hy; [destruct Hx|].
  destruct l as [|a t]; [destruct Hx|]. inversion Hs as [|? ? St Fa]; subst.
  cbn [firstn skipn] in *. destruct Hx as [->|Hx].
  - rewrite Forall_forall in Fa. apply Fa. rewrite <- (firstn_skipn d t). apply in_or_app. right. exact Hy.
  - eapply IH; eassumption.
Qed.
Lemma topk_omitted_le : forall cap l x y, In x (omitted cap l) -> In y (topk cap l) -> ele x y.
Proof. intros cap l x y Hx Hy. unfold omitted in Hx. rewrite topk_eq in Hy. eapply sorted_split_le; [apply isort_sorted|eassumption..]. Qed.

Lemma topk_perm_eq : forall cap l1 l2, Permutation l1 l2 -> topk cap l1 = topk cap l2.
Proof.
  intros cap l1 l2 P. rewrite !topk_eq. rewrite (isort_perm_eq l1 l2 P), (Permutation_length P). reflexivity.
Qed.

Lemma topk_none : forall l, topk None l = isort l.
Proof. intro. rewrite topk_eq. cbn [kmin]. replace (length l - length l)%nat with 0%nat by lia. reflexivity. Qed.

Lemma topk_zero_l : forall order, topk (Some 0) order = [].
Proof.
  intro l. apply length_zero_iff_nil. rewrite topk_length. unfold kmin.
  destruct (N.of_nat (length l) <=? 0) eqn:E; lia.
Qed.

(** [permute] is a permutation *)
Lemma remove_nth_perm : forall A (d : A) i (l : list A), (i < length l)%nat ->
  Permutation (nth i l d :: remove_nth i l) l.
Proof.
  intros A d i. induction i as [|i IH]; intros [|x t] H; cbn [length] in H; try lia; cbn [nth remove_nth].
  - apply Permutation_refl.
  - eapply perm_trans; [apply perm_swap|]. apply perm_skip. apply IH. lia.
Qed.
Lemma permute_perm : forall A picks (l : list A), Permutation (permute picks l) l.
Proof.
  intros A picks. induction picks as [|p ps IH]; intro l; cbn [permute]; [apply Permutation_refl|].
  destruct l as [|d t]; [apply Permutation_refl|].
  set (i := Nat.modulo p (length (d :: t))).
  assert (Hi : (i < length (d :: t))%nat) by (apply Nat.mod_upper_bound; cbn [length]; lia).
  eapply perm_trans; [apply perm_skip, IH|]. apply remove_nth_perm. exact Hi.
Qed.

(** C12 proofs, part 3: the backtrace.  [operations] never fails; its result is
    a sorted script that transforms [a] into [b], of length [dist]; every valid
    script is an alignment (hence at least as long). *)
From TU Require Import Base C12_Model C12_Spec C12_Matrix.
From Coq Require Import Lia.
Open Scope nat_scope.

(** scripts in walk order (last operation first) over reversed prefixes; positions
    are the prefix lengths, as in the code *)
Inductive RS (fl : flags) : list edit -> list cluster -> list cluster -> Prop :=
| RS_nil : RS fl [] [] []
| RS_keep x ra rb w : RS fl w ra rb -> RS fl w (x :: ra) (x :: rb)
| RS_ins y ra rb w : RS fl w ra rb -> RS fl ((EInsert, length ra, length rb) :: w) ra (y :: rb)
| RS_del x ra rb w : RS fl w ra rb -> RS fl ((EDelete, length ra, length rb) :: w) (x :: ra) rb
| RS_rep x y ra rb w : sub_ok fl x y = true -> RS fl w ra rb ->
    RS fl ((EReplace, length ra, length rb) :: w) (x :: ra) (y :: rb)
| RS_swap x x2 y y2 ra rb w : swap_ok fl x x2 y y2 = true -> RS fl w ra rb ->
    RS fl ((ESwap, length ra, length rb) :: w) (x :: x2 :: ra) (y :: y2 :: rb).

Lemma apply_keep_cons fl ops x a b i j :
  apply_script fl ops a b (S i) (S j) = true -> apply_script fl ops (x :: a) (x :: b) i j = true.
Proof.
  destruct ops as [|[[o pi] pj] ops]; cbn [apply_script].
  - intros H. cbn [all_kept]. rewrite cl_eqb_refl. exact H.
  - intros H. apply andb_true_iff in H as [H H4]. apply andb_true_iff in H as [H H3].
    apply andb_true_iff in H as [H1 H2].
    apply Nat.leb_le in H1. apply Nat.leb_le in H2. apply Nat.eqb_eq in H3.
    replace (pi - i) with (S (pi - S i)) by lia.
    replace (pj - j) with (S (pj - S j)) by lia.
    cbn [keep_n]. rewrite cl_eqb_refl.
    apply andb_true_iff. split; [|exact H4].
    apply andb_true_iff. split; [apply andb_true_iff; split; apply Nat.leb_le; lia|].
    apply Nat.eqb_eq. lia.
Qed.

Lemma apply_here fl o ops a b i j :
  apply_script fl ((o, i, j) :: ops) a b i j =
  match o, a, b with
  | EInsert, _, _ :: b' => apply_script fl ops a b' i (S j)
  | EDelete, _ :: a', _ => apply_script fl ops a' b (S i) j
  | EReplace, x :: a', y :: b' => sub_ok fl x y && apply_script fl ops a' b' (S i) (S j)
  | ESwap, x2 :: x :: a', y2 :: y :: b' =>
    swap_ok fl x x2 y y2 && apply_script fl ops a' b' (S (S i)) (S (S j))
  | _, _, _ => false
  end.
Proof.
  cbn [apply_script]. rewrite !Nat.leb_refl, !Nat.sub_diag. cbn [Nat.eqb andb keep_n]. reflexivity.
Qed.

Lemma RS_apply fl w ra rb : RS fl w ra rb -> forall ops2 a2 b2,
  apply_script fl ops2 a2 b2 (length ra) (length rb) = true ->
  apply_script fl (rev w ++ ops2) (rev ra ++ a2) (rev rb ++ b2) 0 0 = true.
Proof.
  induction 1 as [|x ra rb w H IH|y ra rb w H IH|x ra rb w H IH|x y ra rb w Hs H IH|x x2 y y2 ra rb w Hs H IH];
    intros ops2 a2 b2 H2; cbn [rev length] in *.
  - exact H2.
  - rewrite <- !app_assoc. cbn [app]. apply IH. apply apply_keep_cons. exact H2.
  - rewrite <- !app_assoc. cbn [app]. apply IH. rewrite apply_here. exact H2.
  - rewrite <- !app_assoc. cbn [app]. apply IH. rewrite apply_here. exact H2.
  - rewrite <- !app_assoc. cbn [app]. apply IH. rewrite apply_here. rewrite Hs. exact H2.
  - rewrite <- !app_assoc. cbn [app]. apply IH. rewrite apply_here. rewrite Hs. exact H2.
Qed.

(** * The walk *)
Lemma backtrace_spec fl a b : forall fuel i j, i <= length a -> j <= length b -> i + j < fuel ->
  exists w, backtrace fuel (matrix fl a b) i j = Some w
         /\ RS fl w (rpre a i) (rpre b j)
         /\ length w = fst (Dc fl (rpre a i) (rpre b j)).
Proof.
  induction fuel as [|f IH]; intros i j Hi Hj Hf; [lia|].
  destruct i as [|i]; destruct j as [|j].
  - exists []. cbn [backtrace]. rewrite !rpre_0, Dc_nil_nil. repeat split. constructor.
  - cbn [backtrace]. rewrite cell_prefix_l by lia. rewrite rpre_0, (rpre_S b j) by lia.
    rewrite Dc_nil_cons. cbn [snd fst].
    destruct (IH 0 j) as (w & Hw & HR & Hl); [lia..|]. rewrite Hw. cbn [option_map].
    eexists. split; [reflexivity|]. rewrite rpre_0 in *. split.
    + pose proof (RS_ins fl (nth j b []) _ _ _ HR) as R. cbn [length] in R.
      rewrite length_rpre in R by lia. exact R.
    + cbn [length]. rewrite Hl, Dc_nil_l. reflexivity.
  - cbn [backtrace]. rewrite cell_prefix_l by lia. rewrite rpre_0, (rpre_S a i) by lia.
    rewrite Dc_cons_nil. cbn [snd fst].
    destruct (IH i 0) as (w & Hw & HR & Hl); [lia..|]. rewrite Hw. cbn [option_map].
    eexists. split; [reflexivity|]. rewrite rpre_0 in *. split.
    + pose proof (RS_del fl (nth i a []) _ _ _ HR) as R. cbn [length] in R.
      rewrite length_rpre in R by lia. exact R.
    + cbn [length]. rewrite Hl, Dc_nil_r. reflexivity.
  - cbn [backtrace]. rewrite cell_prefix_l by lia.
    rewrite (rpre_S a i), (rpre_S b j) by lia.
    set (x := nth i a []). set (y := nth j b []).
    rewrite Dc_cons.
    pose proof (pick_in fl x y (fst (Dc fl (rpre a i) (y :: rpre b j))) (fst (Dc fl (x :: rpre a i) (rpre b j)))
                        (fst (Dc fl (rpre a i) (rpre b j))) (sw_of fl x y (rpre a i) (rpre b j))) as Hin.
    apply in_candidates in Hin.
    destruct Hin as [E|[E|[[Exy E]|[(Exy & Hs & E)|(d2 & Hsw & E)]]]]; rewrite E; cbn [fst snd].
    + (* Delete *)
      destruct (IH i (S j)) as (w & Hw & HR & Hl); [lia..|]. rewrite Hw. cbn [option_map].
      eexists. split; [reflexivity|]. rewrite (rpre_S b j) in HR, Hl by lia. fold y in HR, Hl. split.
      * pose proof (RS_del fl x _ _ _ HR) as R. cbn [length] in R.
        rewrite !length_rpre in R by lia. exact R.
      * cbn [length]. rewrite Hl. reflexivity.
    + (* Insert *)
      destruct (IH (S i) j) as (w & Hw & HR & Hl); [lia..|]. rewrite Hw. cbn [option_map].
      eexists. split; [reflexivity|]. rewrite (rpre_S a i) in HR, Hl by lia. fold x in HR, Hl. split.
      * pose proof (RS_ins fl y _ _ _ HR) as R. cbn [length] in R.
        rewrite !length_rpre in R by lia. exact R.
      * cbn [length]. rewrite Hl. reflexivity.
    + (* Keep *)
      destruct (IH i j) as (w & Hw & HR & Hl); [lia..|]. rewrite Hw.
      eexists. split; [reflexivity|]. split.
      * apply cl_eqb_eq in Exy. rewrite <- Exy. apply RS_keep. exact HR.
      * exact Hl.
    + (* Replace *)
      destruct (IH i j) as (w & Hw & HR & Hl); [lia..|]. rewrite Hw. cbn [option_map].
      eexists. split; [reflexivity|]. split.
      * pose proof (RS_rep fl x y _ _ _ Hs HR) as R.
        rewrite !length_rpre in R by lia. exact R.
      * cbn [length]. rewrite Hl. reflexivity.
    + (* Swap *)
      destruct i as [|i]; [rewrite rpre_0 in Hsw; discriminate|].
      destruct j as [|j]; [rewrite rpre_0 in Hsw; destruct (rpre a (S i)); discriminate|].
      rewrite (rpre_S a i), (rpre_S b j) in Hsw by lia. cbn [sw_of] in Hsw.
      destruct (swap_ok fl x (nth i a []) y (nth j b [])) eqn:Eok; [|discriminate].
      injection Hsw as <-.
      destruct (IH i j) as (w & Hw & HR & Hl); [lia..|]. rewrite Hw. cbn [option_map].
      eexists. split; [reflexivity|]. rewrite (rpre_S a i), (rpre_S b j) by lia. split.
      * pose proof (RS_swap fl _ _ _ _ _ _ _ Eok HR) as R.
        rewrite !length_rpre in R by lia. exact R.
      * cbn [length]. rewrite Hl. reflexivity.
Qed.

(** * What a valid script is *)
Lemma apply_step fl o pi pj ops a b i j :
  apply_script fl ((o, pi, pj) :: ops) a b i j = true ->
  i <= pi /\ j <= pj /\
  exists a1 b1, keep_n (pi - i) a b = Some (a1, b1) /\
  match o, a1, b1 with
  | EInsert, _, _ :: b' => apply_script fl ops a1 b' pi (S pj) = true
  | EDelete, _ :: a', _ => apply_script fl ops a' b1 (S pi) pj = true
  | EReplace, x :: a', y :: b' => sub_ok fl x y = true /\ apply_script fl ops a' b' (S pi) (S pj) = true
  | ESwap, x2 :: x :: a', y2 :: y :: b' =>
    swap_ok fl x x2 y y2 = true /\ apply_script fl ops a' b' (S (S pi)) (S (S pj)) = true
  | _, _, _ => False
  end.
Proof.
  cbn [apply_script]. intros H.
  apply andb_true_iff in H as [H H4]. apply andb_true_iff in H as [H H3].
  apply andb_true_iff in H as [H1 H2]. apply Nat.leb_le in H1. apply Nat.leb_le in H2.
  split; [exact H1|]. split; [exact H2|].
  destruct (keep_n (pi - i) a b) as [[a1 b1]|]; [|discriminate].
  exists a1, b1. split; [reflexivity|].
  destruct o; destruct a1 as [|x2 [|x a']]; destruct b1 as [|y2 [|y b']]; try discriminate; try exact H4;
    apply andb_true_iff in H4; exact H4.
Qed.

Lemma sortedb_cons2 o1 i1 j1 o2 i2 j2 r :
  sortedb ((o1, i1, j1) :: (o2, i2, j2) :: r) = (i1 <=? i2) && (j1 <=? j2) && sortedb ((o2, i2, j2) :: r).
Proof. reflexivity. Qed.

Lemma script_sorted fl : forall ops a b i j, apply_script fl ops a b i j = true ->
  sortedb ops = true /\ match ops with (_, pi, pj) :: _ => i <= pi /\ j <= pj | [] => True end.
Proof.
  induction ops as [|[[o pi] pj] ops IH]; intros a b i j H; [split; [reflexivity|exact Logic.I]|].
  apply apply_step in H as (Hi & Hj & a1 & b1 & _ & H). split; [|split; assumption].
  assert (Hn : exists a' b' i' j', pi <= i' /\ pj <= j' /\ apply_script fl ops a' b' i' j' = true).
  { destruct o; destruct a1 as [|x2 [|x a']]; destruct b1 as [|y2 [|y b']]; try contradiction;
      try (match type of H with _ /\ _ => destruct H as [_ H] end);
      do 4 eexists; (split; [|split; [|exact H]]); lia. }
  destruct Hn as (a' & b' & i' & j' & Hi' & Hj' & H').
  apply IH in H' as [Hs Hp]. destruct ops as [|[[o2 i2] j2] ops']; [reflexivity|].
  rewrite sortedb_cons2. destruct Hp as [Hp1 Hp2].
  apply andb_true_iff. split; [|exact Hs].
  apply andb_true_iff. split; apply Nat.leb_le; lia.
Qed.

Lemma keep_n_align fl : forall n a b a1 b1 m,
  keep_n n a b = Some (a1, b1) -> Align fl a1 b1 m -> Align fl a b m.
Proof.
  induction n as [|n IH]; intros a b a1 b1 m; cbn [keep_n].
  - intros E. injection E as -> ->. trivial.
  - destruct a as [|x a]; [discriminate|]. destruct b as [|y b]; [discriminate|].
    destruct (cl_eqb x y) eqn:E; [|discriminate]. apply cl_eqb_eq in E. subst y.
    intros Hk HA. apply A_keep. eapply IH; eassumption.
Qed.
Lemma all_kept_align fl : forall a b, all_kept a b = true -> Align fl a b 0.
Proof.
  induction a as [|x a IH]; intros [|y b]; cbn [all_kept]; try discriminate.
  - intros _. constructor.
  - intros H. apply andb_true_iff in H as [E H]. apply cl_eqb_eq in E. subst y. apply A_keep. apply IH. exact H.
Qed.

(** a valid script is an alignment whose cost is its length *)
Lemma script_align fl : forall ops a b i j,
  apply_script fl ops a b i j = true -> Align fl a b (length ops).
Proof.
  induction ops as [|[[o pi] pj] ops IH]; intros a b i j H.
  - apply all_kept_align. exact H.
  - apply apply_step in H as (_ & _ & a1 & b1 & Hk & H). cbn [length].
    eapply keep_n_align; [exact Hk|].
    destruct o; destruct a1 as [|x2 [|x a']]; destruct b1 as [|y2 [|y b']]; try contradiction;
      try (apply A_ins; eapply IH; exact H); try (apply A_del; eapply IH; exact H);
      try (destruct H as [Hs H]; apply A_rep; [exact Hs|eapply IH; exact H]).
    destruct H as [Hs H]. apply swap_ok_inv in Hs as (Hw & -> & -> & Hws).
    apply A_swap; [exact Hw|rewrite swap_ws_ok_sym; exact Hws|]. eapply IH; exact H.
Qed.

(** * [operations] *)
Lemma operations_spec fl a b :
  exists ops, operations fl a b = Some ops
    /\ sortedb ops = true
    /\ script_ok fl ops a b = true
    /\ length ops = dist fl a b.
Proof.
  destruct (backtrace_spec fl a b (length a + length b + 1) (length a) (length b))
    as (w & Hw & HR & Hl); [lia..|].
  unfold operations. rewrite Hw. cbn [option_map]. exists (rev w). split; [reflexivity|].
  rewrite !rpre_full in HR, Hl.
  assert (Hs : script_ok fl (rev w) a b = true).
  { pose proof (RS_apply fl w _ _ HR [] [] [] eq_refl) as H.
    rewrite !app_nil_r, !rev_involutive in H. exact H. }
  split; [|split; [exact Hs|]].
  - apply (script_sorted fl _ _ _ _ _ Hs).
  - rewrite rev_length, Hl. rewrite dist_Dref. reflexivity.
Qed.

Lemma script_min fl ops a b : script_ok fl ops a b = true -> dist fl a b <= length ops.
Proof.
  intros H. rewrite dist_Dref. apply Dref_minimal. eapply script_align. exact H.
Qed.

(** C14 proofs with the generator inside the model: the run from the seed is the oracle model
    ([C14_Model.corrupt_cl]) run on the r-stream of the seed, and that stream satisfies the guard of
    the oracle-level theorems (one draw per character, every draw in [0, 2^53)) by RNG_Proofs — so
    every theorem of C14_Proofs.v / C14_UAX29.v holds of the seeded function with no premise on
    the stream left.  The f64 comparison [r < p] is the integer comparison with [thr p]. *)
From TU Require Import RNG_Model RNG_Proofs.
From TU Require Import Base UAX29_Model UAX29_Proofs C10_Model C10_Proofs C10_Seam C14_Model C14_Proofs C14_Seam C14_UAX29 C14_Seeded.
From TU Require C11_Model C11_Proofs C11_Link.
From Coq Require Import Lia.
Open Scope Z_scope.

Module M11 := C11_Model.
Module P11 := C11_Proofs.

(** * 1. the stream of a seed meets the oracle guard *)
Lemma stream_from_length : forall n st, length (stream_from n st) = n.
Proof.
  induction n as [|n IH]; intros st; cbn [stream_from]; [reflexivity|].
  destruct (random_f64 st) as [k st1]. cbn [length]. rewrite IH. reflexivity.
Qed.

Lemma stream_from_range : forall n st, RNG_Proofs.wf st -> in_range (stream_from n st).
Proof.
  induction n as [|n IH]; intros st Hw; cbn [stream_from]; [constructor|].
  destruct (random_f64 st) as [k st1] eqn:E.
  destruct (RNG_Proofs.random_f64_spec _ _ _ Hw E) as [Hk Hw1].
  constructor; [|apply IH; exact Hw1]. unfold D53. lia.
Qed.

Lemma stream_length seed n : length (stream seed n) = n.
Proof. apply stream_from_length. Qed.

Lemma stream_range seed n : in_range (stream seed n).
Proof. apply stream_from_range, RNG_Proofs.wf_seed. Qed.

(** the stream is prefix-stable: more characters only append draws *)
Lemma stream_from_app : forall n m st, exists st', stream_from (n + m) st = stream_from n st ++ stream_from m st'.
Proof.
  induction n as [|n IH]; intros m st; cbn [stream_from Nat.add app]; [eauto|].
  destruct (random_f64 st) as [k st1]. destruct (IH m st1) as [st' ->]. exists st'. reflexivity.
Qed.

Lemma stream_prefix seed n m : (n <= m)%nat -> firstn n (stream seed m) = stream seed n.
Proof.
  intros H. unfold stream. replace m with (n + (m - n))%nat by lia.
  destruct (stream_from_app n (m - n) (seed_from_u64 seed)) as [st' ->].
  rewrite firstn_app, stream_from_length, Nat.sub_diag, firstn_O, app_nil_r.
  rewrite <- (stream_from_length n (seed_from_u64 seed)) at 1. apply firstn_all.
Qed.

(** * 2. the seeded loop is the oracle loop on that stream *)
Lemma corrupt_aux_s_spec ti td : forall chars prev first st,
  corrupt_aux ti td prev first chars (stream_from (length chars) st)
  = Some (fst (corrupt_aux_s ti td prev first chars st)).
Proof.
  induction chars as [|c r IH]; intros prev first st; [reflexivity|].
  cbn [length stream_from corrupt_aux_s]. destruct (random_f64 st) as [kn st1].
  rewrite corrupt_aux_cons, IH. destruct (corrupt_aux_s ti td (cl_ws c) false r st1) as [rest st2].
  cbn [fst option_map]. reflexivity.
Qed.

(** seeded run = oracle run under an oracle that satisfies the guard of the oracle-level theorems *)
Lemma seeded_oracle_l iw dw seed t :
  let ks := stream seed (length t) in
  length ks = length t /\ in_range ks /\ corrupt_cl iw dw t ks = Some (corrupt_seeded iw dw seed t).
Proof.
  cbn zeta. split; [apply stream_length|]. split; [apply stream_range|].
  unfold corrupt_cl, corrupt_seeded, stream. apply corrupt_aux_s_spec.
Qed.

Lemma seeded_cl iw dw seed t : corrupt_cl iw dw t (stream seed (length t)) = Some (corrupt_seeded iw dw seed t).
Proof. apply seeded_oracle_l. Qed.

(** only the clamped thresholds matter *)
Lemma corrupt_seeded_clamp iw dw iw' dw' seed t :
  clamp iw = clamp iw' -> clamp dw = clamp dw' -> corrupt_seeded iw dw seed t = corrupt_seeded iw' dw' seed t.
Proof. unfold corrupt_seeded. intros -> ->. reflexivity. Qed.

(** * 3. every oracle-level theorem, of the seeded function *)
Lemma nonws_seeded_l iw dw seed t :
  strip (corrupt_seeded iw dw seed t) = strip t
  /\ strip_cp (concat (corrupt_seeded iw dw seed t)) = strip_cp (concat t).
Proof. exact (corrupt_nonws_l _ _ _ _ _ (seeded_cl iw dw seed t)). Qed.

Lemma clean_seeded_l iw dw seed t : Clean t -> Clean (corrupt_seeded iw dw seed t).
Proof. intros H. exact (corrupt_Clean _ _ _ _ _ H (seeded_cl iw dw seed t)). Qed.

Lemma clean_cp_seeded_l iw dw seed t :
  Clean t -> M11.wf_seg t = true -> M11.cleansb (concat (corrupt_seeded iw dw seed t)) = true.
Proof. intros H W. exact (corrupt_clean_cp_l _ _ _ _ _ H W (seeded_cl iw dw seed t)). Qed.

Lemma labels_seeded_l iw dw seed t : Clean t ->
  let out := corrupt_seeded iw dw seed t in
  exists ops, operations out t = Some ops /\ length ops = length out /\ repair out ops = Some (concat t).
Proof. intros H. exact (corrupt_labels_l _ _ _ _ _ H (seeded_cl iw dw seed t)). Qed.

Lemma dw0_seeded_l iw dw seed t : clamp dw = 0 ->
  let out := corrupt_seeded iw dw seed t in
  DelR (eq [32%N]) out t /\ DelR (fun x => is32 x = true) (concat out) (concat t).
Proof. intros H. exact (corrupt_dw0_l _ _ _ _ _ H (stream_range _ _) (seeded_cl iw dw seed t)). Qed.

Lemma iw0_seeded_l iw dw seed t : clamp iw = 0 ->
  let out := corrupt_seeded iw dw seed t in
  DelR (fun c => cl_ws c = true) t out /\
  (Clean t -> DelR (eq [32%N]) t out /\ DelR (fun x => is32 x = true) (concat t) (concat out)).
Proof. intros H. exact (corrupt_iw0_l _ _ _ _ _ H (stream_range _ _) (seeded_cl iw dw seed t)). Qed.

Lemma extreme_seeded_l seed t : corrupt_seeded 0 D53 seed t = strip t.
Proof. exact (corrupt_extreme_l _ _ _ (stream_range _ _) (seeded_cl 0 D53 seed t)). Qed.

(** code-point mode, string level: no premise but "the string is whitespace-clean" *)
Lemma cp_seeded_l iw dw seed s : M11.cleansb s = true ->
  let out := corrupt_seeded iw dw seed (singletons s) in
  let c := concat out in
  singletons c = out
  /\ strip_cp c = strip_cp s
  /\ M11.cleansb c = true
  /\ exists ops, operations (singletons c) (singletons s) = Some ops
                 /\ length ops = length c
                 /\ repair (singletons c) ops = Some s.
Proof.
  intros Hs. cbn zeta. pose proof (seeded_cl iw dw seed (singletons s)) as Ho.
  split; [exact (corrupt_cp_stable _ _ _ _ _ Ho)|].
  assert (Hl : (length s <= length (stream seed (length (singletons s))))%nat).
  { rewrite stream_length. unfold singletons. rewrite map_length. lia. }
  destruct (corrupt_cp_all iw dw s _ Hs Hl) as (c & Hc & H1 & H2 & H3).
  rewrite Ho in Hc. cbn [option_map] in Hc. injection Hc as <-. auto.
Qed.

(** grapheme mode with the segmenter inside the model: the text is a string, nothing else is given *)
Lemma nonws_u_seeded_l iw dw seed s :
  strip_cp (concat (corrupt_seeded iw dw seed (segment s))) = strip_cp s.
Proof. exact (corrupt_nonws_u_l _ _ _ _ _ (seeded_cl iw dw seed (segment s))). Qed.

Lemma clean_u_seeded_l iw dw seed s : M11.cleansb s = true -> no_mixedb s = true ->
  M11.cleansb (concat (corrupt_seeded iw dw seed (segment s))) = true.
Proof. intros Hc Hm. exact (corrupt_clean_u_l _ _ _ _ _ Hc Hm (seeded_cl iw dw seed (segment s))). Qed.

Lemma stable_u_seeded_l iw dw seed s : M11.cleansb s = true -> corrupt_safe s = true ->
  segment (concat (corrupt_seeded iw dw seed (segment s))) = corrupt_seeded iw dw seed (segment s).
Proof. intros Hc Hs. exact (corrupt_stable_l _ _ _ _ _ Hc Hs (seeded_cl iw dw seed (segment s))). Qed.

Lemma labels_u_seeded_l iw dw seed s : M11.cleansb s = true -> corrupt_safe s = true ->
  let c := concat (corrupt_seeded iw dw seed (segment s)) in
  strip_cp c = strip_cp s
  /\ M11.cleansb c = true
  /\ exists ops, operations (segment c) (segment s) = Some ops
                 /\ length ops = length (segment c)
                 /\ repair (segment c) ops = Some s.
Proof.
  intros Hc Hs. cbn zeta.
  assert (Hl : (length (segment s) <= length (stream seed (length (segment s))))%nat) by (rewrite stream_length; lia).
  destruct (corrupt_labels_u_l iw dw s _ Hc Hs Hl) as (c & Ho & H1 & H2 & H3).
  rewrite seeded_cl in Ho. cbn [option_map] in Ho. injection Ho as <-. auto.
Qed.

Lemma kf1_outside_seeded_l iw dw seed s : M11.cleansb s = true -> corrupt_safe s = true ->
  C14_Seam.kf1b s (corrupt_seeded iw dw seed (segment s)) = false.
Proof. intros Hc Hs. exact (kf1_outside_l _ _ _ _ _ Hc Hs (seeded_cl iw dw seed (segment s))). Qed.

(** * 4. the f64 comparison *)
Lemma cdiv_spec a b k : 0 < b -> (k < cdiv a b <-> k * b < a).
Proof.
  intros Hb. unfold cdiv.
  pose proof (Z.div_mod (- a) b ltac:(lia)) as E. pose proof (Z.mod_pos_bound (- a) b Hb) as M.
  split; intros H; nia.
Qed.

Lemma thr_spec_l k m e : k < thr (Fin m e) <-> lt_real k m e.
Proof.
  unfold thr, lt_real. cbv zeta. destruct (0 <=? e + 53) eqn:E.
  - apply Z.leb_le in E. rewrite (Z.max_l 0 (- (e + 53))) by lia. rewrite (Z.max_r 0 (e + 53)) by lia.
    change (2 ^ 0) with 1. rewrite Z.mul_1_r. reflexivity.
  - apply Z.leb_gt in E. rewrite (Z.max_r 0 (- (e + 53))) by lia. rewrite (Z.max_l 0 (e + 53)) by lia.
    change (2 ^ 0) with 1. rewrite Z.mul_1_r. apply cdiv_spec. apply Z.pow_pos_nonneg; lia.
Qed.

(** for a draw in range, comparing with the clamped threshold is comparing with the threshold
    (as [r < p.clamp(0., 1.)] is [r < p] for r in [0, 1)) *)
Lemma clamp_lt k T : 0 <= k < D53 -> (k < clamp T <-> k < T).
Proof. unfold clamp. lia. Qed.

Lemma thr_nonneg p : 0 <= thr p.
Proof.
  destruct p as [m e| | |]; cbn [thr]; try (unfold D53; lia). cbv zeta. destruct (0 <=? e + 53) eqn:E.
  - apply Z.leb_le in E. pose proof (Z.pow_pos_nonneg 2 (e + 53) ltac:(lia) E). nia.
  - apply Z.leb_gt in E. pose proof (Z.pow_pos_nonneg 2 (- (e + 53)) ltac:(lia) ltac:(lia)) as P.
    assert (H : -1 < cdiv (Z.of_N m) (2 ^ (- (e + 53)))) by (apply cdiv_spec; [exact P|nia]). lia.
Qed.

(** the constructor's test [p.clamp(0., 1.) > 0.]: true exactly for a positive p (NaN: false) *)
Lemma thr_pos_l p : (0 <? clamp (thr p)) = true <->
  match p with Fin m _ => (0 < m)%N | FInf => True | _ => False end.
Proof.
  rewrite Z.ltb_lt. destruct p as [m e| | |]; cbn [thr]; unfold clamp, D53; try lia.
  cbv zeta. destruct (0 <=? e + 53) eqn:E.
  - apply Z.leb_le in E. pose proof (Z.pow_pos_nonneg 2 (e + 53) ltac:(lia) E). split; intros H0; nia.
  - apply Z.leb_gt in E. pose proof (Z.pow_pos_nonneg 2 (- (e + 53)) ltac:(lia) ltac:(lia)) as P.
    pose proof (cdiv_spec (Z.of_N m) _ 0 P) as C. split; intros H0; lia.
Qed.

(** a multiple of 2^-53 (the probabilities of the oracle line) has its numerator as threshold *)
Lemma thr_dyadic n : thr (Fin n (-53)) = Z.of_N n.
Proof. cbn. lia. Qed.

(** * 5. val level: on an input whose oracle fields are right the seeded run is the oracle run *)
Lemma zlist_eqb_eq : forall a b, zlist_eqb a b = true -> a = b.
Proof.
  induction a as [|x a IH]; destruct b as [|y b]; cbn [zlist_eqb]; intros H; try discriminate; [reflexivity|].
  apply andb_true_iff in H as [H1 H2]. apply Z.eqb_eq in H1. f_equal; auto.
Qed.

Lemma accepted_clamp iw dw iw' dw' : clamp iw = clamp iw' -> clamp dw = clamp dw' -> accepted iw dw = accepted iw' dw'.
Proof. unfold accepted. intros -> ->. reflexivity. Qed.

Lemma corrupt_cl_clamp iw dw iw' dw' t ks :
  clamp iw = clamp iw' -> clamp dw = clamp dw' -> corrupt_cl iw dw t ks = corrupt_cl iw' dw' t ks.
Proof. unfold corrupt_cl. intros -> ->. reflexivity. Qed.

(** the segmentation fields of the input are right: the text's clusters are [CharString::new] of
    the text, and (grapheme mode) so are the clusters handed in for the corrupted text *)
Definition seg_consistent (v : val) : Prop :=
  in_text v = seg_of (v_bool (v_nth 0 v)) (in_str v) /\
  (v_bool (v_nth 0 v) = true -> accepted (in_iw v) (in_dw v) = true ->
   let c := concat (corrupt_seeded (in_iw v) (in_dw v) (in_seed v) (in_text v)) in
   v_clusters (v_nth 2 v) = segment c).

Lemma in_text_concat v : in_text v = seg_of (v_bool (v_nth 0 v)) (in_str v) -> concat (in_text v) = in_str v.
Proof.
  unfold in_text, seg_of, in_str. destruct (v_bool (v_nth 0 v)); intros H.
  - rewrite H at 1. apply segment_concat_l.
  - apply P11.concat_singletons.
Qed.

Lemma run_seeded_eq_l v :
  seeded_xcheck v = true -> length (in_ks v) = length (in_text v) -> seg_consistent v ->
  run_C14s v = run_C14 v.
Proof.
  intros Hx Hlen [Ht Hc]. unfold seeded_xcheck in Hx.
  apply andb_true_iff in Hx as [Hx Hd]. apply andb_true_iff in Hx as [Hk Hi].
  apply zlist_eqb_eq in Hk. apply Z.eqb_eq in Hi. apply Z.eqb_eq in Hd. rewrite Hlen in Hk.
  unfold run_C14s, run_C14. rewrite <- Ht.
  rewrite <- (accepted_clamp _ _ _ _ Hi Hd).
  destruct (accepted (in_iw v) (in_dw v)) eqn:Ha; cbn [negb]; [|reflexivity].
  rewrite Hk at 1. rewrite seeded_cl.
  rewrite <- (corrupt_seeded_clamp _ _ _ _ (in_seed v) (in_text v) Hi Hd).
  set (ccl := corrupt_seeded (in_iw v) (in_dw v) (in_seed v) (in_text v)) in *.
  cbn [apply_input fst snd].
  assert (Hs : in_cseg v (concat ccl) = seg_of (v_bool (v_nth 0 v)) (concat ccl)).
  { unfold in_cseg, seg_of. destruct (v_bool (v_nth 0 v)) eqn:Hg; [|reflexivity]. exact (Hc eq_refl eq_refl). }
  rewrite Hs.
  assert (Hcc : concat (seg_of (v_bool (v_nth 0 v)) (concat ccl)) = concat ccl).
  { unfold seg_of. destruct (v_bool (v_nth 0 v)); [apply segment_concat_l|apply P11.concat_singletons]. }
  rewrite Hcc, nlist_eqb_refl. reflexivity.
Qed.

(** the executable statement holds of the seeded model's own output *)
Lemma check_run_seeded_l v :
  seeded_xcheck v = true -> length (in_ks v) = length (in_text v) -> seg_consistent v ->
  (v_bool (v_nth 0 v) = true -> premise (in_text v) = true ->
   M11.cleansb (in_str v) = true /\ corrupt_safe (in_str v) = true) ->
  check_C14 v (run_C14s v) = true.
Proof.
  intros Hx Hlen Hsc Hsafe.
  pose proof Hx as Hx0. unfold seeded_xcheck in Hx.
  apply andb_true_iff in Hx as [Hx Hd]. apply andb_true_iff in Hx as [Hk Hi].
  apply zlist_eqb_eq in Hk. apply Z.eqb_eq in Hi. apply Z.eqb_eq in Hd. rewrite Hlen in Hk.
  destruct (accepted (in_iw v) (in_dw v)) eqn:Ha.
  - rewrite (run_seeded_eq_l v Hx0 Hlen Hsc). apply check_run_l.
    split; [lia|]. split; [rewrite Hk; apply stream_range|].
    intros Hg Hp ccl Hccl. destruct Hsc as [Ht Hc]. rewrite Hg in Ht. cbn [seg_of] in Ht.
    destruct (Hsafe Hg Hp) as [Hcl Hs].
    rewrite Hk, seeded_cl in Hccl. injection Hccl as <-.
    rewrite (Hc Hg Ha). cbn zeta. rewrite Ht. apply stable_u_seeded_l; assumption.
  - unfold check_C14, run_C14s. rewrite <- (accepted_clamp _ _ _ _ Hi Hd), Ha. reflexivity.
Qed.

(** the seeded run reads nothing but (mode, text as a string, seed, prefix/suffix counts, the two
    probabilities): "a deterministic function of (text, seed)" for the actual generator *)
Lemma run_seeded_reads_l v v' :
  v_bool (v_nth 0 v) = v_bool (v_nth 0 v') -> in_str v = in_str v' -> in_seed v = in_seed v' ->
  in_iwf v = in_iwf v' -> in_dwf v = in_dwf v' -> in_np v = in_np v' -> in_ns v = in_ns v' ->
  run_C14s v = run_C14s v'.
Proof. unfold run_C14s. intros -> -> -> -> -> -> ->. reflexivity. Qed.

(** * 6. the input built by the model alone from (text, seed, probabilities) *)
Definition input_of_s (s : str) (seed : N) (pi pd : f64w) (np ns : nat) : val :=
  match input_of s (Z.of_N seed) (stream seed (length (segment s))) (thr pi) (thr pd) np ns with
  | L l => L (l ++ [f64w_v pi; f64w_v pd])
  | x => x
  end.

Lemma v_f64w_v p : v_f64w (f64w_v p) = p.
Proof. destruct p as [m e| | |]; try reflexivity. unfold f64w_v, v_f64w. cbn [v_nth nth v_z]. unfold v_n, n_v. cbn [v_z]. rewrite N2Z.id. reflexivity. Qed.

Lemma check_run_u_seeded_l s seed pi pd np ns :
  corrupt_safe s = true ->
  let v := input_of_s s seed pi pd np ns in
  check_C14 v (run_C14s v) = true /\ C14_Seam.uax29_agree v = true /\ C14_Seam.xcheck v = true
  /\ seeded_xcheck v = true.
Proof.
  intros Hs v. set (ks := stream seed (length (segment s))).
  set (v0 := input_of s (Z.of_N seed) ks (thr pi) (thr pd) np ns).
  assert (Hl : (length (segment s) <= length ks)%nat) by (unfold ks; rewrite stream_length; lia).
  destruct (check_run_u_l s (Z.of_N seed) ks (thr pi) (thr pd) np ns Hs Hl (stream_range _ _)) as (_ & H2 & H3).
  fold v0 in H2, H3.
  assert (Ht : in_text v = segment s).
  { unfold in_text, v, input_of_s, input_of. cbn [app v_nth nth]. change (v_bool (I 1)) with true. cbv iota. apply v_clusters_v. }
  assert (Hstr : in_str v = s).
  { unfold in_str, v, input_of_s, input_of. cbn [app v_nth nth]. rewrite v_clusters_v. apply segment_concat_l. }
  assert (Hk : in_ks v = ks) by (unfold in_ks, v, input_of_s, input_of; cbn [app v_nth nth]; apply v_z_list).
  assert (Hseed : in_seed v = seed).
  { unfold in_seed, v, input_of_s, input_of. cbn [app v_nth nth]. unfold v_n. cbn [v_z]. apply N2Z.id. }
  assert (Hiw : in_iw v = thr pi) by reflexivity.
  assert (Hdw : in_dw v = thr pd) by reflexivity.
  assert (Hiwf : in_iwf v = pi) by (unfold in_iwf, v, input_of_s, input_of; cbn [app v_nth nth]; apply v_f64w_v).
  assert (Hdwf : in_dwf v = pd) by (unfold in_dwf, v, input_of_s, input_of; cbn [app v_nth nth]; apply v_f64w_v).
  assert (Hg : v_bool (v_nth 0 v) = true) by reflexivity.
  assert (Hx : seeded_xcheck v = true).
  { unfold seeded_xcheck. rewrite Hk, Hseed, Hiw, Hdw, Hiwf, Hdwf, !Z.eqb_refl.
    unfold ks at 2. rewrite stream_length. fold ks. rewrite zlist_eqb_refl. reflexivity. }
  split; [|split; [exact H2|split; [exact H3|exact Hx]]].
  apply check_run_seeded_l.
  - exact Hx.
  - rewrite Hk, Ht. apply stream_length.
  - split; [rewrite Hg, Hstr; exact Ht|]. intros _ _. cbn zeta. rewrite Hiw, Hdw, Hseed, Ht.
    unfold v, input_of_s, input_of. cbn [app v_nth nth]. rewrite v_clusters_v. unfold out_of.
    fold ks. unfold ks. rewrite seeded_cl. reflexivity.
  - intros _ Hp. rewrite Hstr. split; [|exact Hs]. rewrite Ht in Hp. unfold premise in Hp.
    apply andb_true_iff in Hp as [Hcl Hwf]. apply cleanb_spec in Hcl.
    pose proof (cleansb_of_Clean _ Hcl Hwf) as Hc. rewrite segment_concat_l in Hc. exact Hc.
Qed.

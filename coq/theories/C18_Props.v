(** C18 — pinned statements. Nothing but statements, [exact], and assumption audits.
    [K]/[eqb] is the word-equality relation: [str]/[str_eqb] for exact matching, or the
    lower-cased words supplied by the harness for [ignore_case]. Nothing is assumed of
    [eqb] (it need not even be an equivalence). *)
From Coq Require Import Sorting.Sorted.
From TU Require Import Base C18_Model C18_Proofs C18_Sym.

(** ** Word splitting: the words are the maximal runs free of ASCII whitespace.
    These three equations determine [split_ascii_ws] on every string. *)
Theorem split_nil : split_ascii_ws [] = [].
Proof. reflexivity. Qed.
Print Assumptions split_nil.

Theorem split_word : forall w, w <> [] /\ forallb (fun c => negb (is_ascii_ws c)) w = true ->
  split_ascii_ws w = [w].
Proof. exact split_word_l. Qed.
Print Assumptions split_word.

Theorem split_sep : forall u c v, is_ascii_ws c = true ->
  split_ascii_ws (u ++ c :: v) = split_ascii_ws u ++ split_ascii_ws v.
Proof. exact split_sep_l. Qed.
Print Assumptions split_sep.

Theorem split_words_ok : forall s,
  Forall (fun w => w <> [] /\ forallb (fun c => negb (is_ascii_ws c)) w = true) (split_ascii_ws s).
Proof. exact split_words_ok_l. Qed.
Print Assumptions split_words_ok.

(** ** The matching *)
(** never the error value: no [MatchOp::None] is read, no index underflows, the loop ends *)
Theorem match_total : forall K (eqb : K -> K -> bool) xs ys, exists M, match_keys eqb xs ys = Some M.
Proof. exact match_total_l. Qed.
Print Assumptions match_total.

(** strictly increasing in both coordinates *)
Theorem match_increasing : forall K (eqb : K -> K -> bool) xs ys M,
  match_keys eqb xs ys = Some M ->
  StronglySorted (fun p q : nat * nat => fst p < fst q /\ snd p < snd q) M.
Proof. exact match_increasing_l. Qed.
Print Assumptions match_increasing.

(** every pair indexes two related words *)
Theorem match_related : forall K (eqb : K -> K -> bool) xs ys M,
  match_keys eqb xs ys = Some M ->
  Forall (fun p => exists x y, nth_error xs (fst p) = Some x /\ nth_error ys (snd p) = Some y /\ eqb x y = true) M.
Proof. exact match_related_l. Qed.
Print Assumptions match_related.

(** LCS optimality: no strictly increasing matching of related words is longer.
    [Matching eqb xs ys M'] unfolds to: [M'] strictly increasing in both coordinates and
    every pair of it indexes two [eqb]-related words (see the two statements above). *)
Theorem match_optimal : forall K (eqb : K -> K -> bool) xs ys M M',
  match_keys eqb xs ys = Some M ->
  (StronglySorted (fun p q : nat * nat => fst p < fst q /\ snd p < snd q) M' /\
   Forall (fun p => exists x y, nth_error xs (fst p) = Some x /\ nth_error ys (snd p) = Some y /\ eqb x y = true) M') ->
  length M' <= length M.
Proof. exact match_optimal_l. Qed.
Print Assumptions match_optimal.

(** Symmetry: when word equality is symmetric (exact and case-insensitive equality both are) the number of
    matched words does not depend on which text is the input and which the prediction, although the DP and
    its tie-breaking are not symmetric. *)
Theorem match_size_symmetric : forall K (eqb : K -> K -> bool) xs ys M M',
  (forall x y, eqb x y = eqb y x) ->
  match_keys eqb xs ys = Some M -> match_keys eqb ys xs = Some M' -> length M = length M'.
Proof. exact match_size_sym_l. Qed.
Print Assumptions match_size_symmetric.

(** counts: the reported numbers are the numbers of whitespace-separated words, the pair
    list is the matching of the two word lists, and its size is the table's corner value *)
Theorem match_counts : forall a b,
  exists M, match_words a b = Some (M, length (split_ascii_ws a), length (split_ascii_ws b))
    /\ match_keys str_eqb (split_ascii_ws a) (split_ascii_ws b) = Some M.
Proof. exact match_words_spec_l. Qed.
Print Assumptions match_counts.

Theorem match_size : forall K (eqb : K -> K -> bool) xs ys M,
  match_keys eqb xs ys = Some M ->
  length M = lcs_value eqb xs ys /\ length M <= length xs /\ length M <= length ys.
Proof.
  intros K eqb xs ys M H. split; [exact (match_size_l K eqb xs ys M H)|].
  exact (matching_bound_l K eqb xs ys M (match_matching_l K eqb xs ys M H)).
Qed.
Print Assumptions match_size.

(** exact matching relates equal words *)
Theorem str_eqb_iff : forall a b, str_eqb a b = true <-> a = b.
Proof. exact str_eqb_eq. Qed.
Print Assumptions str_eqb_iff.

(** a sequence matched with itself: the diagonal (used by C13) *)
Theorem match_self : forall K (eqb : K -> K -> bool) (xs : list K) M,
  (forall x, eqb x x = true) -> match_keys eqb xs xs = Some M ->
  M = map (fun i => (i, i)) (seq 0 (length xs)).
Proof. exact match_self_l. Qed.
Print Assumptions match_self.

(** ** edited_words = complement of the exact matching, on both sides *)
Theorem edited_complement : forall a b ea eb,
  edited_words a b = Some (ea, eb) ->
  exists M, match_words a b = Some (M, length (split_ascii_ws a), length (split_ascii_ws b))
    /\ (forall i, In i ea <-> i < length (split_ascii_ws a) /\ ~ In i (map fst M))
    /\ (forall j, In j eb <-> j < length (split_ascii_ws b) /\ ~ In j (map snd M))
    /\ StronglySorted lt ea /\ StronglySorted lt eb.
Proof. exact edited_complement_l. Qed.
Print Assumptions edited_complement.

(** ** The executable statement *)
(** what the checker accepts is an optimal matching (soundness of [check_C18]'s main clause) *)
Theorem lcs_matchingb_sound : forall K (eqb : K -> K -> bool) xs ys m,
  lcs_matchingb eqb xs ys m = true ->
  Matching eqb xs ys m /\ forall M', Matching eqb xs ys M' -> length M' <= length m.
Proof. exact lcs_matchingb_sound_l. Qed.
Print Assumptions lcs_matchingb_sound.

(** ... and it holds of the model's own output whenever the oracle key lists have the right lengths *)
Theorem check_run : forall v, keys_ok v = true -> check_C18 v (run_C18 v) = true.
Proof. exact check_run_l. Qed.
Print Assumptions check_run.

(** Non-vacuity *)
Example keys_ok_witness :
  keys_ok (L [L [I 120; I 32; I 88]; L [I 88]; I 1; L [L [I 120]; L [I 120]]; L [L [I 120]]]) = true.
Proof. vm_compute. reflexivity. Qed.
Example split_word_witness : [120; 160; 121]%N <> [] /\ forallb (fun c => negb (is_ascii_ws c)) [120; 160; 121]%N = true.
Proof. split; [discriminate|vm_compute; reflexivity]. Qed.
(** a tie: [1;2;1] vs [1;1;2] has three optimal matchings; the code's tie-breaking picks this one,
    and a shorter increasing matching is rejected by the checker *)
Example match_optimal_witness :
  match_keys Nat.eqb [1; 2; 1] [1; 1; 2] = Some [(0, 0); (2, 1)]
  /\ lcs_matchingb Nat.eqb [1; 2; 1] [1; 1; 2] [(0, 1); (1, 2)] = true
  /\ lcs_matchingb Nat.eqb [1; 2; 1] [1; 1; 2] [(0, 0)] = false.
Proof. vm_compute. repeat split; reflexivity. Qed.

(** * ignore_case with [str::to_lowercase] inside the model (UCD_Model.v; pinned facts about it in
      UCD_Props.v).  [match_words_ic a b ic] is [match_words(a, b, ic)] with the code's word relation
      applied pair by pair: [ci_eqb x y] = "[to_lowercase x] equals [to_lowercase y]" for [ic = true],
      equality otherwise.  No oracle, no premise on the relation is left. *)
From TU Require Import UCD_Model UCD_Lower C18_Lower C18_LowerProofs.
Close Scope N_scope.   (* opened by UCD_Model; this file counts in nat *)

(** matching under the pairwise relation = matching the lower-cased words exactly (what [run_C18u] computes) *)
Theorem match_ic_keys : forall xs ys,
  match_keys ci_eqb xs ys = match_keys str_eqb (map to_lowercase xs) (map to_lowercase ys).
Proof. exact (match_keys_map to_lowercase str_eqb). Qed.
Print Assumptions match_ic_keys.

(** never the error value; the counts are the numbers of ASCII-whitespace-separated words *)
Theorem match_words_ic_counts : forall a b ic,
  exists M, match_words_ic a b ic = Some (M, length (split_ascii_ws a), length (split_ascii_ws b))
    /\ match_keys (word_rel ic) (split_ascii_ws a) (split_ascii_ws b) = Some M
    /\ match_keys str_eqb (keys_of ic (split_ascii_ws a)) (keys_of ic (split_ascii_ws b)) = Some M.
Proof. exact match_words_ic_spec_l. Qed.
Print Assumptions match_words_ic_counts.

(** the matching, on the texts themselves: strictly increasing, every pair indexes two words whose
    lower-cased forms are equal (equal words when [ic = false]), and no strictly increasing list of such
    pairs is longer (LCS optimality under the case-insensitive relation) *)
Theorem match_words_ic_optimal : forall a b ic M na nb,
  match_words_ic a b ic = Some (M, na, nb) ->
  let wa := split_ascii_ws a in let wb := split_ascii_ws b in
  let rel := fun x y : str => if ic then to_lowercase x = to_lowercase y else x = y in
  na = length wa /\ nb = length wb
  /\ StronglySorted (fun p q : nat * nat => fst p < fst q /\ snd p < snd q) M
  /\ Forall (fun p => exists x y, nth_error wa (fst p) = Some x /\ nth_error wb (snd p) = Some y /\ rel x y) M
  /\ forall M',
       StronglySorted (fun p q : nat * nat => fst p < fst q /\ snd p < snd q) M' ->
       Forall (fun p => exists x y, nth_error wa (fst p) = Some x /\ nth_error wb (snd p) = Some y /\ rel x y) M' ->
       length M' <= length M.
Proof. exact match_words_ic_optimal_l. Qed.
Print Assumptions match_words_ic_optimal.

(** the relation is an equivalence (UCD_Props.ci_eqb_equivalence), so a text matched with itself gives the
    diagonal in both modes *)
Theorem match_words_ic_self : forall a ic M na nb,
  match_words_ic a a ic = Some (M, na, nb) -> M = map (fun i => (i, i)) (seq 0 (length (split_ascii_ws a))).
Proof. exact match_words_ic_self_l. Qed.
Print Assumptions match_words_ic_self.

(** the executable statement with the model's own relation holds of the model's own output — for EVERY
    input (the premise [keys_ok] of [check_run] is gone: there is no oracle to be well-formed) *)
Theorem check_run_u : forall v, check_C18u v (run_C18u v) = true.
Proof. exact check_run_u_l. Qed.
Print Assumptions check_run_u.

(** what [run_C18u] returns in fields 0 and 3: the matchings of [match_words_ic] / [match_words] *)
Theorem run_C18u_spec : forall v,
  exists M mx, match_words_ic (v_str (v_nth 0 v)) (v_str (v_nth 1 v)) (v_bool (v_nth 2 v))
               = Some (M, length (split_ascii_ws (v_str (v_nth 0 v))), length (split_ascii_ws (v_str (v_nth 1 v))))
    /\ match_words (v_str (v_nth 0 v)) (v_str (v_nth 1 v))
       = Some (mx, length (split_ascii_ws (v_str (v_nth 0 v))), length (split_ascii_ws (v_str (v_nth 1 v))))
    /\ v_nth 0 (run_C18u v) = list_v pairv M /\ v_nth 3 (run_C18u v) = list_v pairv mx.
Proof. exact run_C18u_matching. Qed.
Print Assumptions run_C18u_spec.

(** this property's word splitting is the shared [UCD_Model.split_by] with the ASCII separators *)
Theorem split_ascii_is_split_by : forall s, split_by is_ascii_ws s = split_ascii_ws s.
Proof. exact split_by_ascii. Qed.
Print Assumptions split_ascii_is_split_by.

(** İ and i + U+0307 are related (length-changing lower-casing); ΑΣ and ας are related (final sigma);
    ΑΣ and ασ are not *)
Example ci_witness :
  ci_eqb [304]%N [105; 775]%N = true /\ ci_eqb [913; 931]%N [945; 962]%N = true
  /\ ci_eqb [913; 931]%N [945; 963]%N = false
  /\ match_words_ic [304; 32; 120]%N [120; 32; 105; 775; 32; 88]%N true = Some ([(0, 1); (1, 2)], 2, 3).
Proof. vm_compute. repeat split; reflexivity. Qed.

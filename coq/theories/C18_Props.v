(** C18 — pinned statements (first version). *)
From TU Require Import Base C18_Model.

Theorem split_nil : split_ascii_ws [] = [].
Proof. reflexivity. Qed.
Print Assumptions split_nil.

(** C19 literal model, proofs part 1: the association-list operations
    ([get_mut], [entry().and_modify().or_insert()]) seen through the abstraction
    [abs_freq] / [abs_occ], presence of keys ([has_occ]) and well-formedness ([WF]). *)
From TU Require Import Base C19_Model C19_Proofs C19_Delta C19_Lit.
From Coq Require Import Lia Permutation.
Open Scope N_scope.
Arguments N.add : simpl never.
Arguments N.sub : simpl never.
Arguments N.mul : simpl never.
Arguments N.ltb : simpl never.
Arguments N.leb : simpl never.
Arguments N.eqb : simpl never.

Lemma pair_eqb_neq : forall a b, pair_eqb a b = false -> a <> b.
Proof. intros a b H ->. now rewrite pair_eqb_refl in H. Qed.
Lemma pair_neq_eqb : forall a b, a <> b -> pair_eqb a b = false.
Proof. intros a b H. destruct (pair_eqb a b) eqn:E; [|reflexivity]. apply pair_eqb_eq in E. contradiction. Qed.

(** * well-formedness: keys distinct at both levels, word indices below [n] *)
Definition occs_ok (n : nat) (ws : occs) : Prop :=
  NoDup (map fst ws) /\ Forall (fun io => (fst io < n)%nat) ws.
Definition WF (n : nat) (st : stats) : Prop :=
  NoDup (map fst st) /\ Forall (fun e => occs_ok n (snd (snd e))) st.
(** the key [q] is present and lists the word [idx] *)
Definition has_occ (st : stats) (q : pair) (idx : nat) : Prop :=
  exists f ws o, st_get st q = Some (f, ws) /\ occ_get ws idx = Some o.

(** * occurrence lists *)
Lemma occ_get_in : forall ws idx o, occ_get ws idx = Some o -> In (idx, o) ws.
Proof.
  induction ws as [|[j o'] r IH]; intros idx o H; cbn [occ_get] in H; [discriminate|].
  destruct (Nat.eqb_spec j idx) as [->|Hne].
  - injection H as <-. now left.
  - right. now apply IH.
Qed.
Lemma occ_get_none : forall ws idx, occ_get ws idx = None -> ~ In idx (map fst ws).
Proof.
  induction ws as [|[j o'] r IH]; intros idx H; cbn [occ_get map fst In] in *; [tauto|].
  destruct (Nat.eqb_spec j idx) as [->|Hne]; [discriminate|]. intros [E|Hin]; [contradiction|]. now apply (IH idx).
Qed.
Lemma in_occ_get : forall ws idx o, NoDup (map fst ws) -> In (idx, o) ws -> occ_get ws idx = Some o.
Proof.
  induction ws as [|[j o'] r IH]; intros idx o Hnd Hin; [destruct Hin|].
  cbn [map fst] in Hnd. inversion Hnd as [|? ? Hj Hr]; subst. cbn [occ_get].
  destruct Hin as [E|Hin].
  - injection E as -> ->. now rewrite Nat.eqb_refl.
  - destruct (Nat.eqb_spec j idx) as [->|Hne]; [|now apply IH].
    exfalso. apply Hj. apply in_map_iff. exists (idx, o). now split.
Qed.

Lemma occ_get_bump : forall ws idx j,
  occ_get (occ_bump ws idx) j =
  if Nat.eqb j idx then Some (match occ_get ws idx with Some o => o + 1 | None => 1 end) else occ_get ws j.
Proof.
  induction ws as [|[i o] r IH]; intros idx j; cbn [occ_bump occ_get].
  - destruct (Nat.eqb_spec idx j) as [->|Hne].
    + now rewrite Nat.eqb_refl.
    + destruct (Nat.eqb_spec j idx) as [->|_]; [contradiction | reflexivity].
  - destruct (Nat.eqb_spec i idx) as [->|Hne]; cbn [occ_get].
    + destruct (Nat.eqb_spec idx j) as [->|Hne]; [now rewrite Nat.eqb_refl|].
      destruct (Nat.eqb_spec j idx) as [->|_]; [contradiction | reflexivity].
    + rewrite IH. destruct (Nat.eqb_spec i j) as [->|Hij].
      * destruct (Nat.eqb_spec j idx) as [->|_]; [contradiction | reflexivity].
      * reflexivity.
Qed.

Lemma occ_bump_keys : forall ws idx x, In x (map fst (occ_bump ws idx)) <-> x = idx \/ In x (map fst ws).
Proof.
  induction ws as [|[i o] r IH]; intros idx x; cbn [occ_bump map fst In].
  - intuition.
  - destruct (Nat.eqb_spec i idx) as [->|Hne]; cbn [map fst In].
    + intuition.
    + rewrite IH. intuition.
Qed.

Lemma occ_bump_ok : forall n ws idx, occs_ok n ws -> (idx < n)%nat -> occs_ok n (occ_bump ws idx).
Proof.
  intros n ws idx [Hnd Hb] Hlt. induction ws as [|[i o] r IH]; cbn [occ_bump].
  - split; [cbn; constructor; [intros [] | constructor] | repeat constructor; exact Hlt].
  - cbn [map fst] in Hnd. inversion Hnd as [|? ? Hi Hr]; subst. inversion Hb as [|? ? Hbi Hbr]; subst.
    destruct (Nat.eqb_spec i idx) as [->|Hne].
    + split; [cbn [map fst]; now constructor | constructor; [exact Hbi | exact Hbr]].
    + destruct (IH Hr Hbr) as [IH1 IH2]. split.
      * cbn [map fst]. constructor; [|exact IH1]. rewrite occ_bump_keys. intros [E|Hin]; [now apply Hne | now apply Hi].
      * constructor; assumption.
Qed.

Lemma occ_dec_some : forall ws idx o, occ_get ws idx = Some o ->
  exists ws', occ_dec ws idx = Some ws' /\ map fst ws' = map fst ws /\
    forall j, occ_get ws' j = if Nat.eqb j idx then Some (o - 1) else occ_get ws j.
Proof.
  induction ws as [|[i o'] r IH]; intros idx o H; cbn [occ_get] in H; [discriminate|]. cbn [occ_dec].
  destruct (Nat.eqb_spec i idx) as [->|Hne].
  - injection H as ->. eexists. split; [reflexivity|]. split; [reflexivity|].
    intros j. cbn [occ_get]. destruct (Nat.eqb_spec idx j) as [->|Hne]; [now rewrite Nat.eqb_refl|].
    destruct (Nat.eqb_spec j idx) as [->|_]; [contradiction | reflexivity].
  - destruct (IH idx o H) as (ws' & -> & Hk & Hg). eexists. split; [reflexivity|]. split; [cbn [map fst]; now rewrite Hk|].
    intros j. cbn [occ_get]. rewrite Hg. destruct (Nat.eqb_spec i j) as [->|Hij]; [|reflexivity].
    destruct (Nat.eqb_spec j idx) as [->|_]; [contradiction | reflexivity].
Qed.

Lemma occs_ok_keys : forall n ws ws', map fst ws' = map fst ws -> occs_ok n ws -> occs_ok n ws'.
Proof.
  intros n ws ws' Hk [Hnd Hb]. split; [now rewrite Hk|].
  apply Forall_forall. intros io Hin. rewrite Forall_forall in Hb.
  assert (Hi : In (fst io) (map fst ws)) by (rewrite <- Hk; now apply in_map).
  apply in_map_iff in Hi as (io' & He & Hin'). rewrite <- He. now apply Hb.
Qed.

Lemma occ_get_zero : forall ws j, occ_get (map (fun io : nat * N => (fst io, 0)) ws) j =
  match occ_get ws j with Some _ => Some 0 | None => None end.
Proof.
  induction ws as [|[i o] r IH]; intros j; cbn [map occ_get fst]; [reflexivity|].
  destruct (Nat.eqb i j); [reflexivity | apply IH].
Qed.

(** * statistics: lookup *)
Lemma st_get_in : forall st q i, st_get st q = Some i -> In (q, i) st.
Proof.
  induction st as [|[q' i'] r IH]; intros q i H; cbn [st_get] in H; [discriminate|].
  destruct (pair_eqb q' q) eqn:E.
  - apply pair_eqb_eq in E. subst q'. injection H as <-. now left.
  - right. now apply IH.
Qed.
Lemma st_get_none : forall st q, st_get st q = None -> ~ In q (map fst st).
Proof.
  induction st as [|[q' i'] r IH]; intros q H; cbn [st_get map fst In] in *; [tauto|].
  destruct (pair_eqb q' q) eqn:E; [discriminate|]. apply pair_eqb_neq in E.
  intros [E'|Hin]; [contradiction|]. now apply (IH q).
Qed.
Lemma in_st_get : forall st q i, NoDup (map fst st) -> In (q, i) st -> st_get st q = Some i.
Proof.
  induction st as [|[q' i'] r IH]; intros q i Hnd Hin; [destruct Hin|].
  cbn [map fst] in Hnd. inversion Hnd as [|? ? Hq Hr]; subst. cbn [st_get].
  destruct Hin as [E|Hin].
  - injection E as -> ->. now rewrite pair_eqb_refl.
  - destruct (pair_eqb q' q) eqn:E; [|now apply IH].
    apply pair_eqb_eq in E. subst q'. exfalso. apply Hq. apply in_map_iff. exists (q, i). now split.
Qed.
Lemma st_get_key : forall st q, In q (map fst st) -> st_get st q <> None.
Proof. intros st q Hin H. now apply st_get_none in H. Qed.

Lemma WF_entry : forall n st q f ws, WF n st -> st_get st q = Some (f, ws) -> occs_ok n ws.
Proof.
  intros n st q f ws [_ Hf] H. apply st_get_in in H. rewrite Forall_forall in Hf. exact (Hf _ H).
Qed.

(** * [st_add] *)
Lemma st_get_add : forall st q idx k x,
  st_get (st_add st q idx k) x =
  if pair_eqb x q then Some (match st_get st q with Some (f, ws) => (f + k, occ_bump ws idx) | None => (k, [(idx, 1)]) end)
  else st_get st x.
Proof.
  induction st as [|[q' [f ws]] r IH]; intros q idx k x; cbn [st_add st_get].
  - rewrite (pair_eqb_sym q x). reflexivity.
  - destruct (pair_eqb q' q) eqn:E; cbn [st_get].
    + apply pair_eqb_eq in E. subst q'. rewrite (pair_eqb_sym q x). destruct (pair_eqb x q); reflexivity.
    + rewrite IH. destruct (pair_eqb q' x) eqn:E2; [|reflexivity].
      apply pair_eqb_eq in E2. subst q'. now rewrite E.
Qed.

Lemma st_add_keys : forall st q idx k x, In x (map fst (st_add st q idx k)) <-> x = q \/ In x (map fst st).
Proof.
  induction st as [|[q' [f ws]] r IH]; intros q idx k x; cbn [st_add map fst In].
  - intuition.
  - destruct (pair_eqb q' q) eqn:E; cbn [map fst In].
    + apply pair_eqb_eq in E. subst q'. intuition.
    + rewrite IH. intuition.
Qed.

Lemma st_add_WF : forall n st q idx k, WF n st -> (idx < n)%nat -> WF n (st_add st q idx k).
Proof.
  intros n st q idx k [Hnd Hf] Hlt. induction st as [|[q' [f ws]] r IH]; cbn [st_add].
  - split; [cbn; constructor; [intros [] | constructor]|].
    constructor; [|constructor]. cbn [snd]. split; [cbn; constructor; [intros [] | constructor] | repeat constructor; exact Hlt].
  - cbn [map fst] in Hnd. inversion Hnd as [|? ? Hq Hr]; subst. inversion Hf as [|? ? He Hfr]; subst. cbn [snd] in He.
    destruct (pair_eqb q' q) eqn:E.
    + split; [cbn [map fst]; now constructor|]. constructor; [cbn [snd]; now apply occ_bump_ok | exact Hfr].
    + apply pair_eqb_neq in E. destruct (IH Hr Hfr) as [IH1 IH2]. split.
      * cbn [map fst]. constructor; [|exact IH1]. rewrite st_add_keys. intros [E'|Hin]; [now apply E | now apply Hq].
      * constructor; assumption.
Qed.

Lemma abs_freq_add : forall st q idx k x,
  abs_freq (st_add st q idx k) x = abs_freq st x + (if pair_eqb x q then k else 0).
Proof.
  intros st q idx k x. unfold abs_freq. rewrite st_get_add. destruct (pair_eqb x q) eqn:E.
  - apply pair_eqb_eq in E. subst x. destruct (st_get st q) as [[f ws]|]; lia.
  - destruct (st_get st x) as [[f ws]|]; lia.
Qed.

Lemma abs_occ_add : forall st q idx k x j,
  abs_occ (st_add st q idx k) x j = abs_occ st x j + (if pair_eqb x q && Nat.eqb j idx then 1 else 0).
Proof.
  intros st q idx k x j. unfold abs_occ. rewrite st_get_add. destruct (pair_eqb x q) eqn:E; cbn [andb].
  - apply pair_eqb_eq in E. subst x. destruct (st_get st q) as [[f ws]|].
    + rewrite occ_get_bump. destruct (Nat.eqb_spec j idx) as [->|Hne].
      * destruct (occ_get ws idx); lia.
      * destruct (occ_get ws j); lia.
    + cbn [occ_get]. rewrite (Nat.eqb_sym idx j). destruct (Nat.eqb j idx); lia.
  - destruct (st_get st x) as [[f ws]|]; [destruct (occ_get ws j)|]; lia.
Qed.

Lemma has_occ_add : forall st q idx k x j, has_occ st x j -> has_occ (st_add st q idx k) x j.
Proof.
  intros st q idx k x j (f & ws & o & Hg & Ho). unfold has_occ. rewrite st_get_add.
  destruct (pair_eqb x q) eqn:E.
  - apply pair_eqb_eq in E. subst x. rewrite Hg. destruct (Nat.eqb j idx) eqn:Ej.
    + do 3 eexists. split; [reflexivity|]. rewrite occ_get_bump, Ej. reflexivity.
    + exists (f + k), (occ_bump ws idx), o. split; [reflexivity|]. rewrite occ_get_bump, Ej. exact Ho.
  - now exists f, ws, o.
Qed.

(** * [st_dec] *)
Lemma st_dec_some : forall st q idx k f ws o, st_get st q = Some (f, ws) -> occ_get ws idx = Some o ->
  exists st' ws', st_dec st q idx k = Ok st' /\ occ_dec ws idx = Some ws' /\ map fst st' = map fst st /\
    (forall x, st_get st' x = if pair_eqb x q then Some (f - k, ws') else st_get st x) /\
    (forall n, WF n st -> WF n st').
Proof.
  induction st as [|[q' [f' ws0]] r IH]; intros q idx k f ws o Hg Ho; cbn [st_get] in Hg; [discriminate|]. cbn [st_dec].
  destruct (pair_eqb q' q) eqn:E.
  - injection Hg as -> ->. apply pair_eqb_eq in E. subst q'.
    destruct (occ_dec_some ws idx o Ho) as (ws' & Hd & Hk & Hgo). rewrite Hd.
    eexists; exists ws'. split; [reflexivity|]. split; [reflexivity|]. split; [reflexivity|]. split.
    + intros x. cbn [st_get]. rewrite (pair_eqb_sym q x). destruct (pair_eqb x q); reflexivity.
    + intros n [Hnd Hf]. split; [exact Hnd|]. inversion Hf as [|? ? He Hfr]; subst. constructor; [|exact Hfr].
      cbn [snd] in *. eapply occs_ok_keys; eassumption.
  - destruct (IH q idx k f ws o Hg Ho) as (st' & ws' & -> & Hd & Hk & Hgs & Hwf). cbn [bind].
    eexists; exists ws'. split; [reflexivity|]. split; [exact Hd|]. split; [cbn [map fst]; now rewrite Hk|]. split.
    + intros x. cbn [st_get]. rewrite Hgs. destruct (pair_eqb q' x) eqn:E2; [|reflexivity].
      apply pair_eqb_eq in E2. subst q'. now rewrite E.
    + intros n [Hnd Hf]. cbn [map fst] in Hnd. inversion Hnd as [|? ? Hq Hr]; subst. inversion Hf as [|? ? He Hfr]; subst.
      destruct (Hwf n (conj Hr Hfr)) as [W1 W2]. split.
      * cbn [map fst]. rewrite Hk. now constructor.
      * constructor; assumption.
Qed.

Lemma st_dec_ok : forall st q idx k, has_occ st q idx ->
  exists st', st_dec st q idx k = Ok st' /\
    (forall x, abs_freq st' x = abs_freq st x - (if pair_eqb x q then k else 0)) /\
    (forall x j, abs_occ st' x j = abs_occ st x j - (if pair_eqb x q && Nat.eqb j idx then 1 else 0)) /\
    (forall x j, has_occ st x j -> has_occ st' x j) /\
    (forall n, WF n st -> WF n st').
Proof.
  intros st q idx k (f & ws & o & Hg & Ho).
  destruct (st_dec_some st q idx k f ws o Hg Ho) as (st' & ws' & Hd & Hod & Hk & Hgs & Hwf).
  destruct (occ_dec_some ws idx o Ho) as (ws'' & Hod' & Hk' & Hgo). rewrite Hod in Hod'. injection Hod' as <-.
  exists st'. split; [exact Hd|]. split; [|split; [|split; [|exact Hwf]]].
  - intros x. unfold abs_freq. rewrite Hgs. destruct (pair_eqb x q) eqn:E.
    + apply pair_eqb_eq in E. subst x. rewrite Hg. lia.
    + destruct (st_get st x) as [[? ?]|]; lia.
  - intros x j. unfold abs_occ. rewrite Hgs. destruct (pair_eqb x q) eqn:E; cbn [andb].
    + apply pair_eqb_eq in E. subst x. rewrite Hg, Hgo. destruct (Nat.eqb_spec j idx) as [->|Hne].
      * rewrite Ho. lia.
      * destruct (occ_get ws j); lia.
    + destruct (st_get st x) as [[? ws1]|]; [destruct (occ_get ws1 j)|]; lia.
  - intros x j (f1 & ws1 & o1 & Hg1 & Ho1). unfold has_occ. rewrite Hgs. destruct (pair_eqb x q) eqn:E.
    + apply pair_eqb_eq in E. subst x. rewrite Hg in Hg1. injection Hg1 as <- <-.
      destruct (Nat.eqb j idx) eqn:Ej.
      * do 3 eexists. split; [reflexivity|]. rewrite Hgo, Ej. reflexivity.
      * exists (f - k), ws', o1. split; [reflexivity|]. rewrite Hgo, Ej. exact Ho1.
    + now exists f1, ws1, o1.
Qed.

(** * [st_zero] *)
Lemma st_zero_some : forall st p f ws, st_get st p = Some (f, ws) ->
  exists st', st_zero st p = Ok st' /\ map fst st' = map fst st /\
    (forall x, st_get st' x = if pair_eqb x p then Some (0, map (fun io : nat * N => (fst io, 0)) ws) else st_get st x) /\
    (forall n, WF n st -> WF n st').
Proof.
  induction st as [|[q' [f' ws0]] r IH]; intros p f ws Hg; cbn [st_get] in Hg; [discriminate|]. cbn [st_zero].
  destruct (pair_eqb q' p) eqn:E.
  - injection Hg as -> ->. apply pair_eqb_eq in E. subst q'.
    eexists. split; [reflexivity|]. split; [reflexivity|]. split.
    + intros x. cbn [st_get]. rewrite (pair_eqb_sym p x). destruct (pair_eqb x p); reflexivity.
    + intros n [Hnd Hf]. split; [exact Hnd|]. inversion Hf as [|? ? He Hfr]; subst. constructor; [|exact Hfr].
      cbn [snd] in *. eapply occs_ok_keys; [|exact He]. rewrite map_map. reflexivity.
  - destruct (IH p f ws Hg) as (st' & -> & Hk & Hgs & Hwf). cbn [bind].
    eexists. split; [reflexivity|]. split; [cbn [map fst]; now rewrite Hk|]. split.
    + intros x. cbn [st_get]. rewrite Hgs. destruct (pair_eqb q' x) eqn:E2; [|reflexivity].
      apply pair_eqb_eq in E2. subst q'. now rewrite E.
    + intros n [Hnd Hf]. cbn [map fst] in Hnd. inversion Hnd as [|? ? Hq Hr]; subst. inversion Hf as [|? ? He Hfr]; subst.
      destruct (Hwf n (conj Hr Hfr)) as [W1 W2]. split.
      * cbn [map fst]. rewrite Hk. now constructor.
      * constructor; assumption.
Qed.

Lemma st_zero_ok : forall st p, st_get st p <> None ->
  exists st', st_zero st p = Ok st' /\
    (forall x, abs_freq st' x = if pair_eqb x p then 0 else abs_freq st x) /\
    (forall x j, abs_occ st' x j = if pair_eqb x p then 0 else abs_occ st x j) /\
    (forall x j, has_occ st x j <-> has_occ st' x j) /\
    (forall n, WF n st -> WF n st').
Proof.
  intros st p Hne. destruct (st_get st p) as [[f ws]|] eqn:Hg; [clear Hne | contradiction].
  destruct (st_zero_some st p f ws Hg) as (st' & Hz & Hk & Hgs & Hwf).
  exists st'. split; [exact Hz|]. split; [|split; [|split; [|exact Hwf]]].
  - intros x. unfold abs_freq. rewrite Hgs. destruct (pair_eqb x p); reflexivity.
  - intros x j. unfold abs_occ. rewrite Hgs. destruct (pair_eqb x p); [|reflexivity].
    rewrite occ_get_zero. destruct (occ_get ws j); reflexivity.
  - intros x j. unfold has_occ. rewrite Hgs. destruct (pair_eqb x p) eqn:E; [|reflexivity].
    apply pair_eqb_eq in E. subst x. rewrite Hg. split.
    + intros (f1 & ws1 & o1 & Hg1 & Ho1). injection Hg1 as <- <-. do 3 eexists. split; [reflexivity|].
      rewrite occ_get_zero, Ho1. reflexivity.
    + intros (f1 & ws1 & o1 & Hg1 & Ho1). injection Hg1 as <- <-. rewrite occ_get_zero in Ho1.
      destruct (occ_get ws j) as [o|] eqn:Eo; [|discriminate]. now exists f, ws, o.
Qed.

(** * sequences of decrements / increments at one word index *)

Lemma dec_all_app : forall l1 l2 idx k st,
  dec_all_lit (l1 ++ l2) idx k st = (st' <- dec_all_lit l1 idx k st ;; dec_all_lit l2 idx k st').
Proof.
  induction l1 as [|q r IH]; intros l2 idx k st; cbn [app dec_all_lit bind]; [reflexivity|].
  destruct (st_dec st q idx k) as [st'|e]; cbn [bind]; [apply IH | reflexivity].
Qed.
Lemma add_all_app : forall l1 l2 idx k st,
  add_all_lit (l1 ++ l2) idx k st = add_all_lit l2 idx k (add_all_lit l1 idx k st).
Proof. intros. unfold add_all_lit. apply fold_left_app. Qed.

Lemma dec_all_ok : forall l idx k st, (forall q, In q l -> has_occ st q idx) ->
  exists st', dec_all_lit l idx k st = Ok st' /\
    (forall x, abs_freq st' x = abs_freq st x - k * count_pair x l) /\
    (forall x j, abs_occ st' x j = abs_occ st x j - (if Nat.eqb j idx then count_pair x l else 0)) /\
    (forall x j, has_occ st x j -> has_occ st' x j) /\
    (forall n, WF n st -> WF n st').
Proof.
  induction l as [|q r IH]; intros idx k st Hh; cbn [dec_all_lit].
  - exists st. split; [reflexivity|]. cbn [count_pair]. split; [|split; [|split]]; intros; try assumption; try lia.
    destruct (Nat.eqb j idx); lia.
  - destruct (st_dec_ok st q idx k (Hh q (or_introl eq_refl))) as (st1 & -> & F1 & O1 & H1 & W1). cbn [bind].
    destruct (IH idx k st1) as (st' & -> & F2 & O2 & H2 & W2).
    { intros q' Hq'. apply H1. apply Hh. now right. }
    exists st'. split; [reflexivity|]. split; [|split; [|split]].
    + intros x. rewrite F2, F1. cbn [count_pair]. destruct (pair_eqb x q); lia.
    + intros x j. rewrite O2, O1. cbn [count_pair]. destruct (pair_eqb x q); cbn [andb]; destruct (Nat.eqb j idx); lia.
    + intros x j H. apply H2, H1, H.
    + intros n H. apply W2, W1, H.
Qed.

Lemma add_all_ok : forall l idx k st,
  (forall x, abs_freq (add_all_lit l idx k st) x = abs_freq st x + k * count_pair x l) /\
  (forall x j, abs_occ (add_all_lit l idx k st) x j = abs_occ st x j + (if Nat.eqb j idx then count_pair x l else 0)) /\
  (forall x j, has_occ st x j -> has_occ (add_all_lit l idx k st) x j) /\
  (forall n, WF n st -> (idx < n)%nat -> WF n (add_all_lit l idx k st)).
Proof.
  induction l as [|q r IH]; intros idx k st; unfold add_all_lit; cbn [fold_left].
  - cbn [count_pair]. split; [|split; [|split]]; intros; try assumption; try lia. destruct (Nat.eqb j idx); lia.
  - fold (add_all_lit r idx k (st_add st q idx k)).
    destruct (IH idx k (st_add st q idx k)) as (F2 & O2 & H2 & W2). split; [|split; [|split]].
    + intros x. rewrite F2, abs_freq_add. cbn [count_pair]. destruct (pair_eqb x q); lia.
    + intros x j. rewrite O2, abs_occ_add. cbn [count_pair]. destruct (pair_eqb x q); cbn [andb]; destruct (Nat.eqb j idx); lia.
    + intros x j H. apply H2. now apply has_occ_add.
    + intros n H Hlt. apply W2; [|exact Hlt]. now apply st_add_WF.
Qed.

(** * a positive abstract counter means the key is there *)
Lemma abs_occ_pos : forall st q idx, 0 < abs_occ st q idx -> has_occ st q idx.
Proof.
  intros st q idx H. unfold abs_occ in H. destruct (st_get st q) as [[f ws]|] eqn:Hg; [|lia].
  destruct (occ_get ws idx) as [o|] eqn:Ho; [|lia]. now exists f, ws, o.
Qed.
Lemma abs_freq_pos : forall st q, 0 < abs_freq st q -> st_get st q <> None.
Proof. intros st q H E. unfold abs_freq in H. rewrite E in H. lia. Qed.

(** * [Rep] in terms of [WF] *)
Lemma Rep_WF : forall c st, Rep c st <->
  WF (length c) st /\ (forall q, abs_freq st q = pair_freq c q) /\ (forall q idx, abs_occ st q idx = wcount c q idx).
Proof.
  intros c st. unfold Rep, WF, occs_ok. split.
  - intros (Hnd & Hin & Hf & Ho). split; [|split; assumption]. split; [exact Hnd|].
    apply Forall_forall. intros [q [f ws]] He. cbn [snd]. destruct (Hin q f ws He) as [H1 H2]. split; [exact H1|].
    apply Forall_forall. intros [idx o] Hio. cbn [fst]. eapply H2; eassumption.
  - intros ((Hnd & Hall) & Hf & Ho). split; [exact Hnd|]. split; [|split; assumption].
    intros q f ws He. rewrite Forall_forall in Hall. destruct (Hall _ He) as [H1 H2]. cbn [snd] in *. split; [exact H1|].
    intros idx o Hio. rewrite Forall_forall in H2. exact (H2 _ Hio).
Qed.

(** MessagePack model: the reader as a stream function — what it reads is a prefix of the input and does not
    depend on what follows (hence truncated files are rejected), the fuel never matters, and within the
    array-key sub-format no accepted stream is shorter than what the writer emits. *)
From TU Require Import Base MsgPack_Model MsgPack_Codec.
From Coq Require Import Lia ZifyBool ZifyNat ZifyN.
Open Scope N_scope.
Arguments N.add : simpl never.
Arguments N.sub : simpl never.
Arguments N.mul : simpl never.
Arguments N.eqb : simpl never.
Arguments N.ltb : simpl never.
Arguments N.leb : simpl never.
Arguments N.pow : simpl never.

Ltac split_ifs :=
  repeat match goal with |- context [if ?c then _ else _] => destruct c eqn:? end.

(** ** pieces: what was read is a prefix; appending bytes behind does not change it *)
Lemma take_be_split k bs v r : take_be k bs = Some (v, r) ->
  bs = firstn k bs ++ r /\ length (firstn k bs) = k /\ v = be_val 0 (firstn k bs).
Proof.
  unfold take_be. destruct (k <=? length bs)%nat eqn:E; [|discriminate]. intros H. injection H as <- <-.
  split; [symmetry; apply firstn_skipn|]. split; [apply firstn_length_le; lia|reflexivity].
Qed.

Lemma take_be_ext k bs v r x : take_be k bs = Some (v, r) -> take_be k (bs ++ x) = Some (v, r ++ x).
Proof.
  unfold take_be. destruct (k <=? length bs)%nat eqn:E; [|discriminate]. intros H. injection H as <- <-.
  rewrite app_length. destruct (k <=? length bs + length x)%nat eqn:E2; [|lia].
  rewrite firstn_app, skipn_app. replace (k - length bs)%nat with 0%nat by lia. cbn [firstn skipn].
  rewrite app_nil_r. reflexivity.
Qed.

Lemma take_n_split n bs a r : take_n n bs = Some (a, r) -> bs = a ++ r /\ N.of_nat (length a) = n.
Proof.
  unfold take_n. destruct (n <=? N.of_nat (length bs)) eqn:E; [|discriminate]. intros H. injection H as <- <-.
  split; [symmetry; apply firstn_skipn|]. rewrite firstn_length_le by lia. lia.
Qed.

Lemma take_n_ext n bs a r x : take_n n bs = Some (a, r) -> take_n n (bs ++ x) = Some (a, r ++ x).
Proof.
  unfold take_n. destruct (n <=? N.of_nat (length bs)) eqn:E; [|discriminate]. intros H. injection H as <- <-.
  rewrite app_length. destruct (n <=? N.of_nat (length bs + length x)) eqn:E2; [|lia].
  rewrite firstn_app, skipn_app. replace (N.to_nat n - length bs)%nat with 0%nat by lia. cbn [firstn skipn].
  rewrite app_nil_r. reflexivity.
Qed.

Lemma dec_unsigned_ext k mx bs v r x : dec_unsigned k mx bs = Some (v, r) -> dec_unsigned k mx (bs ++ x) = Some (v, r ++ x).
Proof.
  unfold dec_unsigned. destruct (take_be k bs) as [[v0 r0]|] eqn:E; [|discriminate].
  rewrite (take_be_ext _ _ _ _ x E). destruct (v0 <=? mx); [|discriminate]. intros H. injection H as <- <-. reflexivity.
Qed.
Lemma dec_signed_ext k mx bs v r x : dec_signed k mx bs = Some (v, r) -> dec_signed k mx (bs ++ x) = Some (v, r ++ x).
Proof.
  unfold dec_signed. destruct (take_be k bs) as [[v0 r0]|] eqn:E; [|discriminate].
  rewrite (take_be_ext _ _ _ _ x E). destruct ((v0 <? 2 ^ (8 * N.of_nat k - 1)) && (v0 <=? mx)); [|discriminate].
  intros H. injection H as <- <-. reflexivity.
Qed.

Lemma dec_uint_ext mx bs v r x : dec_uint mx bs = Some (v, r) -> dec_uint mx (bs ++ x) = Some (v, r ++ x).
Proof.
  destruct bs as [|m t]; [discriminate|]. cbn [app dec_uint].
  split_ifs; intros H; try discriminate;
    try (apply dec_unsigned_ext; exact H); try (apply dec_signed_ext; exact H).
  injection H as <- <-. reflexivity.
Qed.

(** an integer: the bytes read, and (for a byte string) the writer would not have needed more *)
Lemma enc_uint_length_le k v : v < 256 ^ N.of_nat k -> (k = 1 \/ k = 2 \/ k = 4 \/ k = 8)%nat ->
  (length (enc_uint v) <= S k)%nat.
Proof.
  intros Hv Hk. unfold enc_uint.
  destruct (v <? 128) eqn:E1; [cbn; lia|]. destruct (v <? 256) eqn:E2; [cbn; lia|].
  destruct (v <? 65536) eqn:E3.
  { cbn [length]. rewrite be_bytes_length. destruct Hk as [->|Hk]; [change (256 ^ N.of_nat 1) with 256 in Hv; lia|lia]. }
  destruct (v <? 4294967296) eqn:E4.
  { cbn [length]. rewrite be_bytes_length. destruct Hk as [->|[->|Hk]];
      [change (256 ^ N.of_nat 1) with 256 in Hv; lia|change (256 ^ N.of_nat 2) with 65536 in Hv; lia|lia]. }
  cbn [length]. rewrite be_bytes_length. destruct Hk as [-> | [-> | [-> | ->]]];
    [change (256 ^ N.of_nat 1) with 256 in Hv; lia|change (256 ^ N.of_nat 2) with 65536 in Hv; lia
    |change (256 ^ N.of_nat 4) with 4294967296 in Hv; lia|lia].
Qed.

Lemma dec_unsigned_split k mx bs v r : dec_unsigned k mx bs = Some (v, r) ->
  bs = firstn k bs ++ r /\ length (firstn k bs) = k /\ v = be_val 0 (firstn k bs) /\ v <= mx.
Proof.
  unfold dec_unsigned. destruct (take_be k bs) as [[v0 r0]|] eqn:E; [|discriminate].
  destruct (v0 <=? mx) eqn:E2; [|discriminate]. intros H. injection H as <- <-.
  destruct (take_be_split _ _ _ _ E) as (H1 & H2 & H3). repeat split; try assumption. lia.
Qed.
Lemma dec_signed_split k mx bs v r : dec_signed k mx bs = Some (v, r) ->
  bs = firstn k bs ++ r /\ length (firstn k bs) = k /\ v = be_val 0 (firstn k bs) /\ v <= mx.
Proof.
  unfold dec_signed. destruct (take_be k bs) as [[v0 r0]|] eqn:E; [|discriminate].
  destruct ((v0 <? 2 ^ (8 * N.of_nat k - 1)) && (v0 <=? mx)) eqn:E2; [|discriminate]. intros H. injection H as <- <-.
  destruct (take_be_split _ _ _ _ E) as (H1 & H2 & H3). repeat split; try assumption. lia.
Qed.

Lemma dec_uint_split mx bs v r : dec_uint mx bs = Some (v, r) ->
  exists used, bs = used ++ r /\ used <> [] /\ (v < 128 \/ v <= mx) /\
               (Forall isbyte bs -> (length (enc_uint v) <= length used)%nat).
Proof.
  destruct bs as [|m t]; [discriminate|]. cbn [dec_uint].
  assert (G : forall k, (k = 1 \/ k = 2 \/ k = 4 \/ k = 8)%nat ->
              t = firstn k t ++ r /\ length (firstn k t) = k /\ v = be_val 0 (firstn k t) /\ v <= mx ->
              exists used, m :: t = used ++ r /\ used <> [] /\ (v < 128 \/ v <= mx) /\
                           (Forall isbyte (m :: t) -> (length (enc_uint v) <= length used)%nat)).
  { intros k Hk (H1 & H2 & H3 & H4). exists (m :: firstn k t). split; [cbn [app]; f_equal; exact H1|].
    split; [discriminate|]. split; [right; exact H4|]. intros Hb. cbn [length]. rewrite H2.
    apply enc_uint_length_le; [|exact Hk]. subst v. rewrite <- H2 at 2. apply be_val_lt.
    inversion Hb as [|? ? _ Hb2]; subst. rewrite H1 in Hb2. apply Forall_app in Hb2. exact (proj1 Hb2). }
  split_ifs; intros H; try discriminate.
  - injection H as <- <-. exists [m]. split; [reflexivity|]. split; [discriminate|]. split; [left; lia|].
    intros _. unfold enc_uint. destruct (m <? 128); [cbn; lia|discriminate].
  - apply (G 1%nat); [lia|]. apply dec_unsigned_split; exact H.
  - apply (G 2%nat); [lia|]. apply dec_unsigned_split; exact H.
  - apply (G 4%nat); [lia|]. apply dec_unsigned_split; exact H.
  - apply (G 8%nat); [lia|]. apply dec_unsigned_split; exact H.
  - apply (G 1%nat); [lia|]. apply dec_signed_split; exact H.
  - apply (G 2%nat); [lia|]. apply dec_signed_split; exact H.
  - apply (G 4%nat); [lia|]. apply dec_signed_split; exact H.
  - apply (G 8%nat); [lia|]. apply dec_signed_split; exact H.
Qed.

Lemma dec_uint_shorter mx bs v r : dec_uint mx bs = Some (v, r) -> (length r < length bs)%nat.
Proof.
  intros H. destruct (dec_uint_split _ _ _ _ H) as (u & -> & Hu & _). rewrite app_length.
  destruct u; [congruence|]. cbn [length]. lia.
Qed.

(** ** elements of a key *)
Lemma dec_elems_0 f bs : dec_elems f 0 bs = Some ([], bs).
Proof. destruct f; reflexivity. Qed.
Lemma dec_elems_S f n bs : n <> 0 -> dec_elems (S f) n bs =
  match dec_uint 255 bs with
  | None => None
  | Some (v, r) => match dec_elems f (n - 1) r with None => None | Some (vs, r') => Some (v :: vs, r') end
  end.
Proof. intros H. cbn [dec_elems]. destruct (n =? 0) eqn:E; [lia|reflexivity]. Qed.
Lemma dec_elems_O n bs : n <> 0 -> dec_elems O n bs = None.
Proof. intros H. cbn [dec_elems]. destruct (n =? 0) eqn:E; [lia|reflexivity]. Qed.

Lemma dec_elems_ext : forall f n bs vs r f' x, dec_elems f n bs = Some (vs, r) -> (f <= f')%nat ->
  dec_elems f' n (bs ++ x) = Some (vs, r ++ x).
Proof.
  induction f as [|f IH]; intros n bs vs r f' x H Hf; destruct (N.eq_dec n 0) as [->|Hn].
  - rewrite dec_elems_0 in *. injection H as <- <-. reflexivity.
  - rewrite dec_elems_O in H by exact Hn. discriminate.
  - rewrite dec_elems_0 in *. injection H as <- <-. reflexivity.
  - destruct f' as [|f']; [lia|]. rewrite dec_elems_S in * by exact Hn.
    destruct (dec_uint 255 bs) as [[v t]|] eqn:E; [|discriminate].
    rewrite (dec_uint_ext _ _ _ _ x E).
    destruct (dec_elems f (n - 1) t) as [[vs0 r0]|] eqn:E2; [|discriminate]. injection H as <- <-.
    rewrite (IH _ _ _ _ f' x E2) by lia. reflexivity.
Qed.

(** the fuel [length bs] is enough: from there on the result does not depend on it *)
Lemma dec_elems_fuel_l : forall f1 f2 n bs, (length bs <= f1)%nat -> (length bs <= f2)%nat ->
  dec_elems f1 n bs = dec_elems f2 n bs.
Proof.
  induction f1 as [|f1 IH]; intros f2 n bs H1 H2; destruct (N.eq_dec n 0) as [->|Hn];
    try (rewrite !dec_elems_0; reflexivity).
  - destruct bs; [|cbn in H1; lia]. rewrite dec_elems_O by exact Hn.
    destruct f2; [rewrite dec_elems_O by exact Hn; reflexivity|rewrite dec_elems_S by exact Hn; reflexivity].
  - destruct f2 as [|f2].
    { destruct bs; [|cbn in H2; lia]. rewrite dec_elems_O, dec_elems_S by exact Hn. reflexivity. }
    rewrite !dec_elems_S by exact Hn. destruct (dec_uint 255 bs) as [[v t]|] eqn:E; [|reflexivity].
    apply dec_uint_shorter in E. rewrite (IH f2) by lia. reflexivity.
Qed.

Lemma dec_elems_split : forall f n bs vs r, dec_elems f n bs = Some (vs, r) ->
  exists used, bs = used ++ r /\ N.of_nat (length vs) = n /\ (length vs <= length used)%nat /\
               Forall isbyte vs /\
               (Forall isbyte bs -> (length (flat_map enc_uint vs) <= length used)%nat).
Proof.
  induction f as [|f IH]; intros n bs vs r H; destruct (N.eq_dec n 0) as [->|Hn].
  - rewrite dec_elems_0 in H. injection H as <- <-. exists []. repeat split; try reflexivity; try constructor; cbn; lia.
  - rewrite dec_elems_O in H by exact Hn. discriminate.
  - rewrite dec_elems_0 in H. injection H as <- <-. exists []. repeat split; try reflexivity; try constructor; cbn; lia.
  - rewrite dec_elems_S in H by exact Hn.
    destruct (dec_uint 255 bs) as [[v t]|] eqn:E; [|discriminate].
    destruct (dec_elems f (n - 1) t) as [[vs0 r0]|] eqn:E2; [|discriminate]. injection H as <- <-.
    destruct (dec_uint_split _ _ _ _ E) as (u1 & -> & Hu1 & Hv & Hmin1).
    destruct (IH _ _ _ _ E2) as (u2 & -> & Hlen & Hle & Hb & Hmin2).
    exists (u1 ++ u2). split; [rewrite app_assoc; reflexivity|]. split; [cbn [length]; lia|].
    split; [rewrite app_length; cbn [length]; destruct u1; [congruence|cbn [length]; lia]|].
    split; [constructor; [unfold isbyte; lia|exact Hb]|].
    intros Hbs. cbn [flat_map]. rewrite !app_length. apply Forall_app in Hbs as Hbs'. destruct Hbs' as [Hb1 Hb2].
    specialize (Hmin1 Hbs). specialize (Hmin2 Hb2). lia.
Qed.

(** ** keys *)
Lemma enc_array_len_length_le k n : n < 256 ^ N.of_nat k -> (k = 2 \/ k = 4)%nat ->
  (length (enc_array_len n) <= S k)%nat.
Proof.
  intros Hn Hk. unfold enc_array_len. destruct (n <? 16) eqn:E1; [cbn; lia|].
  destruct (n <? 65536) eqn:E2; cbn [length]; rewrite be_bytes_length; [lia|].
  destruct Hk as [-> | ->]; [change (256 ^ N.of_nat 2) with 65536 in Hn; lia|lia].
Qed.
Lemma enc_map_len_length_le k n : n < 256 ^ N.of_nat k -> (k = 2 \/ k = 4)%nat ->
  (length (enc_map_len n) <= S k)%nat.
Proof.
  intros Hn Hk. unfold enc_map_len. destruct (n <? 16) eqn:E1; [cbn; lia|].
  destruct (n <? 65536) eqn:E2; cbn [length]; rewrite be_bytes_length; [lia|].
  destruct Hk as [-> | ->]; [change (256 ^ N.of_nat 2) with 65536 in Hn; lia|lia].
Qed.

Lemma dec_key_ext bin bs k r x : dec_key bin bs = Some (k, r) -> dec_key bin (bs ++ x) = Some (k, r ++ x).
Proof.
  destruct bs as [|m t]; [discriminate|]. cbn [app dec_key].
  assert (G : forall w, match take_be w t with Some (n, r') => dec_elems (length r') n r' | None => None end = Some (k, r) ->
                        match take_be w (t ++ x) with Some (n, r') => dec_elems (length r') n r' | None => None end = Some (k, r ++ x)).
  { intros w H. destruct (take_be w t) as [[n r']|] eqn:E; [|discriminate]. rewrite (take_be_ext _ _ _ _ x E).
    apply (dec_elems_ext _ _ _ _ _ _ x H). rewrite app_length. lia. }
  assert (G2 : forall w, match take_be w t with Some (n, r') => take_n n r' | None => None end = Some (k, r) ->
                         match take_be w (t ++ x) with Some (n, r') => take_n n r' | None => None end = Some (k, r ++ x)).
  { intros w H. destruct (take_be w t) as [[n r']|] eqn:E; [|discriminate]. rewrite (take_be_ext _ _ _ _ x E).
    apply take_n_ext. exact H. }
  split_ifs; intros H; try discriminate; try (apply G; exact H); try (apply G2; exact H).
  apply (dec_elems_ext _ _ _ _ _ _ x H). rewrite app_length. lia.
Qed.

Lemma dec_key_split bin bs k r : dec_key bin bs = Some (k, r) ->
  exists used, bs = used ++ r /\ used <> [] /\
               (Forall isbyte bs -> Forall isbyte k /\ N.of_nat (length k) <= u32_max) /\
               (bin = false -> Forall isbyte bs -> (length (enc_key k) <= length used)%nat).
Proof.
  destruct bs as [|m t]; [discriminate|]. cbn [dec_key].
  assert (Hhead : forall w n r', take_be w t = Some (n, r') -> Forall isbyte (m :: t) -> n < 256 ^ N.of_nat w).
  { intros w n r' E Hb. destruct (take_be_split _ _ _ _ E) as (H1 & H2 & H3).
    subst n. rewrite <- H2 at 2. apply be_val_lt. inversion Hb as [|? ? _ Hb2]; subst.
    rewrite H1 in Hb2. apply Forall_app in Hb2. exact (proj1 Hb2). }
  assert (G : forall w, (w = 2 \/ w = 4)%nat ->
              match take_be w t with Some (n, r') => dec_elems (length r') n r' | None => None end = Some (k, r) ->
              exists used, m :: t = used ++ r /\ used <> [] /\
                           (Forall isbyte (m :: t) -> Forall isbyte k /\ N.of_nat (length k) <= u32_max) /\
                           (bin = false -> Forall isbyte (m :: t) -> (length (enc_key k) <= length used)%nat)).
  { intros w Hw H. destruct (take_be w t) as [[n r']|] eqn:E; [|discriminate].
    destruct (take_be_split _ _ _ _ E) as (H1 & H2 & H3).
    destruct (dec_elems_split _ _ _ _ _ H) as (u & -> & Hlen & Hle & Hbk & Hmin).
    exists (m :: firstn w t ++ u). split; [cbn [app]; rewrite <- app_assoc; f_equal; exact H1|].
    split; [discriminate|]. split.
    { intros Hb. split; [exact Hbk|]. pose proof (Hhead _ _ _ E Hb) as Hn. rewrite Hlen. unfold u32_max.
      destruct Hw as [-> | ->]; [change (256 ^ N.of_nat 2) with 65536 in Hn|change (256 ^ N.of_nat 4) with 4294967296 in Hn]; lia. }
    intros _ Hb. unfold enc_key. rewrite !app_length. cbn [length]. rewrite app_length, H2.
    pose proof (enc_array_len_length_le w n (Hhead _ _ _ E Hb) Hw) as Hh. rewrite <- Hlen in Hh.
    inversion Hb as [|? ? _ Hb2]; subst. rewrite H1 in Hb2. apply Forall_app in Hb2. destruct Hb2 as [_ Hb3].
    specialize (Hmin Hb3). lia. }
  assert (G2 : forall w, (w = 1 \/ w = 2 \/ w = 4)%nat -> bin = true ->
              match take_be w t with Some (n, r') => take_n n r' | None => None end = Some (k, r) ->
              exists used, m :: t = used ++ r /\ used <> [] /\
                           (Forall isbyte (m :: t) -> Forall isbyte k /\ N.of_nat (length k) <= u32_max) /\
                           (bin = false -> Forall isbyte (m :: t) -> (length (enc_key k) <= length used)%nat)).
  { intros w Hw Hbin H. destruct (take_be w t) as [[n r']|] eqn:E; [|discriminate].
    destruct (take_be_split _ _ _ _ E) as (H1 & H2 & H3).
    destruct (take_n_split _ _ _ _ H) as (-> & Hlen).
    exists (m :: firstn w t ++ k). split; [cbn [app]; rewrite <- app_assoc; f_equal; exact H1|].
    split; [discriminate|]. split.
    { intros Hb. pose proof (Hhead _ _ _ E Hb) as Hn. split.
      - inversion Hb as [|? ? _ Hb2]; subst. rewrite H1 in Hb2. apply Forall_app in Hb2. destruct Hb2 as [_ Hb3].
        apply Forall_app in Hb3. exact (proj1 Hb3).
      - rewrite Hlen. unfold u32_max.
        destruct Hw as [-> | [-> | ->]];
          [change (256 ^ N.of_nat 1) with 256 in Hn|change (256 ^ N.of_nat 2) with 65536 in Hn
          |change (256 ^ N.of_nat 4) with 4294967296 in Hn]; lia. }
    intros Hf. congruence. }
  split_ifs; intros H; try discriminate.
  - (* fixarray *)
    destruct (dec_elems_split _ _ _ _ _ H) as (u & -> & Hlen & Hle & Hbk & Hmin).
    exists (m :: u). split; [reflexivity|]. split; [discriminate|]. split.
    { intros _. split; [exact Hbk|]. unfold u32_max. lia. }
    intros _ Hb. unfold enc_key, enc_array_len. destruct (N.of_nat (length k) <? 16) eqn:E16; [|lia].
    cbn [app length]. inversion Hb as [|? ? _ Hb2]; subst. specialize (Hmin Hb2). lia.
  - apply (G 2%nat); [lia|exact H].
  - apply (G 4%nat); [lia|exact H].
  - apply (G2 1%nat); [lia|destruct bin; [reflexivity|discriminate]|exact H].
  - apply (G2 2%nat); [lia|destruct bin; [reflexivity|discriminate]|exact H].
  - apply (G2 4%nat); [lia|destruct bin; [reflexivity|discriminate]|exact H].
Qed.

Lemma dec_key_shorter bin bs k r : dec_key bin bs = Some (k, r) -> (length r < length bs)%nat.
Proof.
  intros H. destruct (dec_key_split _ _ _ _ H) as (u & -> & Hu & _). rewrite app_length.
  destruct u; [congruence|]. cbn [length]. lia.
Qed.

Lemma dec_key_sub bs k r : dec_key false bs = Some (k, r) -> dec_key true bs = Some (k, r).
Proof.
  destruct bs as [|m t]; [discriminate|]. cbn [dec_key andb].
  destruct ((144 <=? m) && (m <? 160)); [tauto|]. destruct (m =? 220); [tauto|]. destruct (m =? 221); [tauto|].
  discriminate.
Qed.

(** ** entries *)
Lemma dec_entries_0 bin f bs : dec_entries bin f 0 bs = Some ([], bs).
Proof. destruct f; reflexivity. Qed.
Lemma dec_entries_S bin f n bs : n <> 0 -> dec_entries bin (S f) n bs =
  match dec_key bin bs with
  | None => None
  | Some (k, r) =>
    match dec_uint u32_max r with
    | None => None
    | Some (v, r2) => match dec_entries bin f (n - 1) r2 with None => None | Some (es, r3) => Some ((k, v) :: es, r3) end
    end
  end.
Proof. intros H. cbn [dec_entries]. destruct (n =? 0) eqn:E; [lia|reflexivity]. Qed.
Lemma dec_entries_O bin n bs : n <> 0 -> dec_entries bin O n bs = None.
Proof. intros H. cbn [dec_entries]. destruct (n =? 0) eqn:E; [lia|reflexivity]. Qed.

Lemma dec_entries_ext bin : forall f n bs es r f' x, dec_entries bin f n bs = Some (es, r) -> (f <= f')%nat ->
  dec_entries bin f' n (bs ++ x) = Some (es, r ++ x).
Proof.
  induction f as [|f IH]; intros n bs es r f' x H Hf; destruct (N.eq_dec n 0) as [->|Hn].
  - rewrite dec_entries_0 in *. injection H as <- <-. reflexivity.
  - rewrite dec_entries_O in H by exact Hn. discriminate.
  - rewrite dec_entries_0 in *. injection H as <- <-. reflexivity.
  - destruct f' as [|f']; [lia|]. rewrite dec_entries_S in * by exact Hn.
    destruct (dec_key bin bs) as [[k t]|] eqn:E; [|discriminate]. rewrite (dec_key_ext _ _ _ _ x E).
    destruct (dec_uint u32_max t) as [[v t2]|] eqn:E1; [|discriminate]. rewrite (dec_uint_ext _ _ _ _ x E1).
    destruct (dec_entries bin f (n - 1) t2) as [[es0 r0]|] eqn:E2; [|discriminate]. injection H as <- <-.
    rewrite (IH _ _ _ _ f' x E2) by lia. reflexivity.
Qed.

Lemma dec_entries_fuel_l bin : forall f1 f2 n bs, (length bs <= f1)%nat -> (length bs <= f2)%nat ->
  dec_entries bin f1 n bs = dec_entries bin f2 n bs.
Proof.
  induction f1 as [|f1 IH]; intros f2 n bs H1 H2; destruct (N.eq_dec n 0) as [->|Hn];
    try (rewrite !dec_entries_0; reflexivity).
  - destruct bs; [|cbn in H1; lia]. rewrite dec_entries_O by exact Hn.
    destruct f2; [rewrite dec_entries_O by exact Hn; reflexivity|rewrite dec_entries_S by exact Hn; reflexivity].
  - destruct f2 as [|f2].
    { destruct bs; [|cbn in H2; lia]. rewrite dec_entries_O, dec_entries_S by exact Hn. reflexivity. }
    rewrite !dec_entries_S by exact Hn. destruct (dec_key bin bs) as [[k t]|] eqn:E; [|reflexivity].
    apply dec_key_shorter in E. destruct (dec_uint u32_max t) as [[v t2]|] eqn:E1; [|reflexivity].
    apply dec_uint_shorter in E1. rewrite (IH f2) by lia. reflexivity.
Qed.

Lemma dec_entries_sub : forall f n bs x, dec_entries false f n bs = Some x -> dec_entries true f n bs = Some x.
Proof.
  induction f as [|f IH]; intros n bs x H; destruct (N.eq_dec n 0) as [->|Hn];
    try (rewrite dec_entries_0 in *; exact H); try (rewrite dec_entries_O in H by exact Hn; discriminate).
  rewrite dec_entries_S in * by exact Hn.
  destruct (dec_key false bs) as [[k t]|] eqn:E; [|discriminate]. rewrite (dec_key_sub _ _ _ E).
  destruct (dec_uint u32_max t) as [[v t2]|]; [|discriminate].
  destruct (dec_entries false f (n - 1) t2) as [[es0 r0]|] eqn:E2; [|discriminate].
  rewrite (IH _ _ _ E2). exact H.
Qed.

Lemma dec_entries_split bin : forall f n bs es r, dec_entries bin f n bs = Some (es, r) ->
  exists used, bs = used ++ r /\ N.of_nat (length es) = n /\ (length es <= length used)%nat /\
               (Forall isbyte bs -> Forall entry_ok es) /\
               (bin = false -> Forall isbyte bs -> (length (flat_map enc_entry es) <= length used)%nat).
Proof.
  induction f as [|f IH]; intros n bs es r H; destruct (N.eq_dec n 0) as [->|Hn].
  - rewrite dec_entries_0 in H. injection H as <- <-. exists []. repeat split; try reflexivity; try constructor; cbn; lia.
  - rewrite dec_entries_O in H by exact Hn. discriminate.
  - rewrite dec_entries_0 in H. injection H as <- <-. exists []. repeat split; try reflexivity; try constructor; cbn; lia.
  - rewrite dec_entries_S in H by exact Hn.
    destruct (dec_key bin bs) as [[k t]|] eqn:E; [|discriminate].
    destruct (dec_uint u32_max t) as [[v t2]|] eqn:E1; [|discriminate].
    destruct (dec_entries bin f (n - 1) t2) as [[es0 r0]|] eqn:E2; [|discriminate]. injection H as <- <-.
    destruct (dec_key_split _ _ _ _ E) as (u1 & -> & Hu1 & Hk & Hmin1).
    destruct (dec_uint_split _ _ _ _ E1) as (u2 & -> & Hu2 & Hv & Hmin2).
    destruct (IH _ _ _ _ E2) as (u3 & -> & Hlen & Hle & Hok & Hmin3).
    exists (u1 ++ u2 ++ u3). split; [rewrite <- !app_assoc; reflexivity|]. split; [cbn [length]; lia|].
    split; [rewrite !app_length; cbn [length]; destruct u1; [congruence|cbn [length]; lia]|].
    split.
    { intros Hb. apply Forall_app in Hb as Hb'. destruct Hb' as [Hb1 Hb23]. apply Forall_app in Hb23 as Hb'. destruct Hb' as [Hb2 Hb3].
      constructor; [|apply Hok; exact Hb3]. destruct (Hk Hb) as [Hk1 Hk2].
      unfold entry_ok. cbn [fst snd]. repeat split; try assumption. unfold u32_max in *. lia. }
    intros Hbin Hb. apply Forall_app in Hb as Hb'. destruct Hb' as [Hb1 Hb23]. apply Forall_app in Hb23 as Hb'. destruct Hb' as [Hb2 Hb3].
    cbn [flat_map]. unfold enc_entry at 1. cbn [fst snd]. rewrite !app_length.
    specialize (Hmin1 Hbin Hb). specialize (Hmin2 Hb23). specialize (Hmin3 Hbin Hb3). lia.
Qed.

(** ** the whole stream *)
Theorem mp_parse_ext_l bin bs m rest x : mp_parse_with bin bs = Some (m, rest) ->
  mp_parse_with bin (bs ++ x) = Some (m, rest ++ x).
Proof.
  destruct bs as [|mk t]; [discriminate|]. cbn [app mp_parse_with].
  assert (G : forall w, match take_be w t with Some (n, r') => dec_entries bin (length r') n r' | None => None end = Some (m, rest) ->
                        match take_be w (t ++ x) with Some (n, r') => dec_entries bin (length r') n r' | None => None end = Some (m, rest ++ x)).
  { intros w H. destruct (take_be w t) as [[n r']|] eqn:E; [|discriminate]. rewrite (take_be_ext _ _ _ _ x E).
    apply (dec_entries_ext _ _ _ _ _ _ _ x H). rewrite app_length. lia. }
  split_ifs; intros H; try discriminate; try (apply G; exact H).
  apply (dec_entries_ext _ _ _ _ _ _ _ x H). rewrite app_length. lia.
Qed.

Theorem mp_parse_sub_l bs x : mp_parse_with false bs = Some x -> mp_parse bs = Some x.
Proof.
  unfold mp_parse. destruct bs as [|mk t]; [discriminate|]. cbn [mp_parse_with].
  split_ifs; intros H; try discriminate; try (apply dec_entries_sub; exact H);
    (destruct (take_be _ t) as [[n r']|]; [apply dec_entries_sub; exact H|discriminate]).
Qed.

Theorem mp_parse_split_l bin bs m rest : mp_parse_with bin bs = Some (m, rest) ->
  exists used, bs = used ++ rest /\ used <> [] /\
               (Forall isbyte bs -> table_in_limits m) /\
               (bin = false -> Forall isbyte bs -> (length (mp_encode m) <= length used)%nat).
Proof.
  destruct bs as [|mk t]; [discriminate|]. cbn [mp_parse_with].
  assert (G : forall w, (w = 2 \/ w = 4)%nat ->
              match take_be w t with Some (n, r') => dec_entries bin (length r') n r' | None => None end = Some (m, rest) ->
              exists used, mk :: t = used ++ rest /\ used <> [] /\
                           (Forall isbyte (mk :: t) -> table_in_limits m) /\
                           (bin = false -> Forall isbyte (mk :: t) -> (length (mp_encode m) <= length used)%nat)).
  { intros w Hw H. destruct (take_be w t) as [[n r']|] eqn:E; [|discriminate].
    destruct (take_be_split _ _ _ _ E) as (H1 & H2 & H3).
    destruct (dec_entries_split _ _ _ _ _ _ H) as (u & -> & Hlen & Hle & Hok & Hmin).
    assert (Hn : Forall isbyte (mk :: t) -> n < 256 ^ N.of_nat w).
    { intros Hb. subst n. rewrite <- H2 at 2. apply be_val_lt. inversion Hb as [|? ? _ Hb2]; subst.
      rewrite H1 in Hb2. apply Forall_app in Hb2. exact (proj1 Hb2). }
    assert (Hu : Forall isbyte (mk :: t) -> Forall isbyte (u ++ rest)).
    { intros Hb. inversion Hb as [|? ? _ Hb2]; subst. rewrite H1 in Hb2. apply Forall_app in Hb2. exact (proj2 Hb2). }
    exists (mk :: firstn w t ++ u). split; [cbn [app]; rewrite <- app_assoc; f_equal; exact H1|].
    split; [discriminate|]. split.
    { intros Hb. split; [|apply Hok; apply Hu; exact Hb]. specialize (Hn Hb). rewrite Hlen. unfold u32_max.
      destruct Hw as [-> | ->]; [change (256 ^ N.of_nat 2) with 65536 in Hn|change (256 ^ N.of_nat 4) with 4294967296 in Hn]; lia. }
    intros Hbin Hb. unfold mp_encode. rewrite !app_length. cbn [length]. rewrite app_length, H2.
    pose proof (enc_map_len_length_le w n (Hn Hb) Hw) as Hh. rewrite <- Hlen in Hh.
    specialize (Hmin Hbin (Hu Hb)). lia. }
  split_ifs; intros H; try discriminate.
  - destruct (dec_entries_split _ _ _ _ _ _ H) as (u & -> & Hlen & Hle & Hok & Hmin).
    exists (mk :: u). split; [reflexivity|]. split; [discriminate|]. split.
    { intros Hb. inversion Hb as [|? ? _ Hb2]. split; [unfold u32_max; lia|apply Hok; exact Hb2]. }
    intros Hbin Hb. specialize (Hmin Hbin). inversion Hb as [|? ? _ Hb2]. unfold mp_encode, enc_map_len.
    destruct (N.of_nat (length m) <? 16) eqn:E16; [|lia]. cbn [app length]. specialize (Hmin Hb2). lia.
  - apply (G 2%nat); [lia|exact H].
  - apply (G 4%nat); [lia|exact H].
Qed.

(** a file cut short anywhere is rejected: no strict prefix of what the writer emits is accepted *)
Theorem mp_truncated_l m p q : table_in_limits m -> mp_encode m = p ++ q -> q <> [] -> mp_decode p = None.
Proof.
  intros Hm E Hq. unfold mp_decode, mp_parse. destruct (mp_parse_with true p) as [[m' r]|] eqn:Hp; [|reflexivity].
  exfalso. pose proof (mp_parse_ext_l _ _ _ _ q Hp) as H. rewrite <- E in H.
  rewrite <- (app_nil_r (mp_encode m)) in H. rewrite mp_parse_encode_l in H by exact Hm.
  injection H as _ H. symmetry in H. apply app_eq_nil in H. destruct H as [_ H]. exact (Hq H).
Qed.

(** more generally: a strict prefix of the part of ANY accepted stream that was read is rejected *)
Theorem mp_prefix_rejected_l bs m p q : mp_parse bs = Some (m, []) -> bs = p ++ q -> q <> [] -> mp_decode p = None.
Proof.
  intros Hm E Hq. unfold mp_decode, mp_parse in *. destruct (mp_parse_with true p) as [[m' r]|] eqn:Hp; [|reflexivity].
  exfalso. pose proof (mp_parse_ext_l _ _ _ _ q Hp) as H. rewrite <- E, Hm in H.
  injection H as _ H. symmetry in H. apply app_eq_nil in H. destruct H as [_ H]. exact (Hq H).
Qed.

(** reading, writing and reading again: the parsed table is within the writer's limits, so it survives *)
Theorem mp_reencode_l bs m rest : Forall isbyte bs -> mp_parse bs = Some (m, rest) ->
  mp_decode (mp_encode m) = Some m.
Proof.
  intros Hb H. apply mp_decode_encode_l. destruct (mp_parse_split_l _ _ _ _ H) as (_ & _ & _ & Hl & _). exact (Hl Hb).
Qed.

(** MINIMALITY within the array-key sub-format: nothing the reader accepts for the table [m] is shorter than
    what the writer emits for [m] *)
Theorem mp_encode_shortest_l bs m rest : Forall isbyte bs -> mp_parse_with false bs = Some (m, rest) ->
  (length (mp_encode m) + length rest <= length bs)%nat.
Proof.
  intros Hb H. destruct (mp_parse_split_l _ _ _ _ H) as (u & -> & _ & _ & Hmin).
  rewrite app_length. specialize (Hmin eq_refl Hb). lia.
Qed.

Theorem mp_parse_consumed_l bs m rest : mp_parse bs = Some (m, rest) ->
  exists used, bs = used ++ rest /\ used <> [] /\ (Forall isbyte bs -> table_in_limits m).
Proof.
  intros H. destruct (mp_parse_split_l true bs m rest H) as (u & H1 & H2 & H3 & _).
  exists u. split; [exact H1|]. split; [exact H2|exact H3].
Qed.

(** two witnesses limiting the minimality statement *)
Lemma mp_shortest_bin_refuted_l : exists bs m, mp_decode bs = Some m /\ (length bs < length (mp_encode m))%nat.
Proof. exists [129; 196; 2; 200; 201; 0], [([200; 201], 0)]. vm_compute. split; [reflexivity|repeat constructor]. Qed.
Lemma mp_shortest_not_unique_l : exists bs m,
  mp_parse_with false bs = Some (m, []) /\ length bs = length (mp_encode m) /\ bs <> mp_encode m.
Proof.
  exists [129; 145; 97; 209; 1; 0], [([97], 256)]. vm_compute. split; [reflexivity|]. split; [reflexivity|discriminate].
Qed.

(** The heap loop keeps [Inv] and never runs out of fuel; the initial state satisfies [Inv]. *)
From TU Require Import Base BPE_Model C02_Inv.
From Coq Require Import Lia Permutation.
Open Scope N_scope.
Arguments N.add : simpl never.
Arguments N.ltb : simpl never.

Definition nonnil (b : list N) : bool := negb (is_nil b).
(** the live tokens of a slot vector *)
Definition toks (bs : list (list N)) : list (list N) := filter nonnil bs.

Lemma toks_app a b : toks (a ++ b) = toks a ++ toks b.
Proof. apply filter_app. Qed.

Lemma toks_allnil Z : AllNil Z -> toks Z = [].
Proof. induction 1 as [|b Z Hb _ IH]; [reflexivity|]. subst b. exact IH. Qed.

Lemma toks_cons_nonnil b r : b <> [] -> toks (b :: r) = b :: toks r.
Proof. intro H. unfold toks. cbn [filter]. destruct b; [congruence|reflexivity]. Qed.

Lemma Inv_perm tbl w bs ids h h2 : Permutation h h2 -> Inv tbl w bs ids h -> Inv tbl w bs ids h2.
Proof.
  intros P I. destruct I as [I1 I2 I3 I4]. constructor; try assumption.
  eapply Permutation_Forall; eassumption.
Qed.

Lemma firstn_exact {A} (L R : list A) : firstn (length L) (L ++ R) = L.
Proof. rewrite firstn_app, Nat.sub_diag, firstn_all. cbn [firstn]. apply app_nil_r. Qed.

Section Step2.
  Variables (tbl : list (list N)) (w : list N) (bs : list (list N)) (ids : list (option N)) (e : entry) (h' : list entry).
  Hypothesis HI : Inv tbl w bs ids (e :: h').
  Hypothesis Hfresh : fresh ids e = true.

  Local Notation fi := (e_fi e).
  Local Notation si := (e_si e).
  Local Notation M := (e_mg e).
  Local Notation bs' := (bs_after bs e).
  Local Notation ids' := (ids_after ids e).

  Lemma Hok : EntryOK tbl bs e.
  Proof. pose proof (inv_heap _ _ _ _ _ HI) as H. inversion H. assumption. Qed.

  Lemma inv_after0 : Inv tbl w bs' ids' h'.
  Proof. apply (step_inv tbl w bs ids e Hok Hfresh h' [] HI). constructor. Qed.

  Lemma M_facts : Tok tbl M /\ nth fi bs' [] = M /\ nth si bs' [] = [] /\ (fi < si)%nat /\ (si < length bs')%nat.
  Proof.
    pose proof (bs_after_fi tbl bs e Hok) as F. pose proof (bs_after_si tbl bs e Hok) as S.
    destruct (range tbl bs e Hok) as [R1 R2].
    destruct (fresh_slots _ _ _ _ _ _ HI Hok Hfresh) as [T1 [T2 [Hm _]]].
    assert (NM : M <> []).
    { rewrite Hm. apply Tok_nonnil in T1. destruct (nth fi bs []); [congruence|discriminate]. }
    repeat split; try assumption.
    - rewrite <- F. apply (inv_tok _ _ _ _ _ inv_after0). rewrite F. exact NM.
    - rewrite bs_after_length. exact R2.
  Qed.

  Lemma push_prev_ok : Forall (EntryOK tbl bs') (push_prev tbl bs' ids' fi M).
  Proof.
    destruct M_facts as [TM [F [S [R1 R2]]]].
    unfold push_prev. destruct (find_prev bs' fi) as [[p pb]|] eqn:P; [|constructor].
    destruct (lookup tbl (pb ++ M)) as [m|] eqn:Lk; [|constructor].
    constructor; [|constructor].
    apply find_prev_some in P. destruct P as [P1 [P2 [P3 P4]]].
    assert (Tp : Tok tbl pb) by (rewrite <- P2; apply (inv_tok _ _ _ _ _ inv_after0); rewrite P2; exact P3).
    exists pb, M. cbn [e_fid e_sid e_mg e_mid e_fi e_si].
    rewrite (inv_ids _ _ _ _ _ inv_after0), !nth_ids, P2, F.
    rewrite (idopt_some _ _ P3), (idopt_some _ _ (Tok_nonnil _ _ TM)).
    repeat split; try assumption; try reflexivity; lia.
  Qed.

  Lemma push_next_ok : Forall (EntryOK tbl bs') (push_next tbl bs' ids' fi si M).
  Proof.
    destruct M_facts as [TM [F [S [R1 R2]]]].
    unfold push_next. destruct (find_next bs' (Datatypes.S si)) as [[q qb]|] eqn:P; [|constructor].
    destruct (lookup tbl (M ++ qb)) as [m|] eqn:Lk; [|constructor].
    constructor; [|constructor].
    apply find_next_some in P. destruct P as [P0 [P1 [P2 [P3 P4]]]].
    assert (Tq : Tok tbl qb) by (rewrite <- P2; apply (inv_tok _ _ _ _ _ inv_after0); rewrite P2; exact P3).
    exists M, qb. cbn [e_fid e_sid e_mg e_mid e_fi e_si].
    rewrite (inv_ids _ _ _ _ _ inv_after0), !nth_ids, P2, F.
    rewrite (idopt_some _ _ P3), (idopt_some _ _ (Tok_nonnil _ _ TM)).
    repeat split; try assumption; try reflexivity; try lia.
    intros k Hk. destruct (Nat.eq_dec k si) as [->|N2]; [exact S|].
    destruct (Nat.lt_ge_cases k si) as [Lt|Ge].
    - rewrite (bs_after_other bs e k) by lia.
      destruct Hok as [B1 [B2 [_ [_ [_ [_ [_ [_ [_ [_ Hz]]]]]]]]]]. apply Hz. lia.
    - apply P4. lia.
  Qed.

  Lemma inv_after :
    Inv tbl w bs' ids' (push_next tbl bs' ids' fi si M ++ push_prev tbl bs' ids' fi M ++ h').
  Proof.
    rewrite app_assoc.
    apply (step_inv tbl w bs ids e Hok Hfresh h' _ HI).
    apply Forall_app. split; [apply push_next_ok|apply push_prev_ok].
  Qed.

  (** the live tokens before and after the merge *)
  Lemma step_toks : exists L R, L = firstn fi bs /\
    toks bs = toks L ++ nth fi bs [] :: nth si bs [] :: toks R /\
    toks bs' = toks L ++ M :: toks R /\ M = nth fi bs [] ++ nth si bs [].
  Proof.
    destruct (fresh_slots _ _ _ _ _ _ HI Hok Hfresh) as [T1 [T2 [Hm _]]].
    destruct M_facts as [TM _].
    pose proof Hok as [B1 [B2 [_ [_ [_ [_ [_ [_ [R1 [R2 Hz]]]]]]]]]].
    destruct (decomp2 bs fi si R1 R2 Hz) as [L [Z [R [E [HL [HS HZ]]]]]].
    exists L, R. unfold bs_after.
    remember (nth fi bs []) as X1 eqn:EX1. remember (nth si bs []) as X2 eqn:EX2. clear EX1 EX2.
    split; [rewrite E, <- HL; symmetry; apply firstn_exact|].
    rewrite E. rewrite (upd2_decomp L Z R _ _ M fi si HL HS).
    rewrite !toks_app.
    rewrite (toks_cons_nonnil X1) by (apply (Tok_nonnil tbl); exact T1).
    rewrite (toks_cons_nonnil M) by (apply (Tok_nonnil tbl); exact TM).
    rewrite !toks_app, (toks_allnil _ HZ).
    rewrite (toks_cons_nonnil X2) by (apply (Tok_nonnil tbl); exact T2).
    cbn [app]. repeat split; try reflexivity. exact Hm.
  Qed.

  Lemma push_len : (length (push_next tbl bs' ids' fi si M ++ push_prev tbl bs' ids' fi M ++ h') <= 2 + length h')%nat.
  Proof.
    rewrite !app_length. unfold push_next, push_prev.
    destruct (find_next bs' (S si)) as [[q qb]|]; [destruct (lookup tbl (M ++ qb))|];
    (destruct (find_prev bs' fi) as [[p pb]|]; [destruct (lookup tbl (pb ++ M))|]); cbn [length]; lia.
  Qed.
End Step2.

(** * the loop keeps the invariant *)
Lemma loop_inv tbl w : forall fuel bs ids h r,
  Inv tbl w bs ids h -> merge_loop tbl fuel bs ids h = Some r -> Inv tbl w (fst r) (snd r) [].
Proof.
  induction fuel as [|f IH]; intros bs ids h r I H; cbn [merge_loop] in H; [discriminate|].
  destruct (pop_max h) as [[e h']|] eqn:P.
  - apply pop_max_spec in P. destruct P as [Pm _].
    pose proof (Inv_perm _ _ _ _ _ _ Pm I) as I'.
    destruct (fresh ids e) eqn:F.
    + eapply IH; [|exact H]. apply (inv_after tbl w bs ids e h' I' F).
    + eapply IH; [|exact H]. destruct I' as [I1 I2 I3 I4]. constructor; try assumption.
      inversion I4; assumption.
  - injection H as <-. apply pop_max_none in P. subst h. exact I.
Qed.

(** * fuel: [length heap + 2 * live slots] decreases with every pop *)
Lemma loop_fuel tbl w : forall fuel bs ids h,
  Inv tbl w bs ids h -> (length h + 2 * length (toks bs) < fuel)%nat -> merge_loop tbl fuel bs ids h <> None.
Proof.
  induction fuel as [|f IH]; intros bs ids h I Hm; [lia|]. cbn [merge_loop].
  destruct (pop_max h) as [[e h']|] eqn:P; [|discriminate].
  pose proof (pop_max_length _ _ _ P) as PL.
  apply pop_max_spec in P. destruct P as [Pm _].
  pose proof (Inv_perm _ _ _ _ _ _ Pm I) as I'.
  destruct (fresh ids e) eqn:F.
  - apply IH; [apply (inv_after tbl w bs ids e h' I' F)|].
    pose proof (push_len tbl bs ids e h') as PLn.
    destruct (step_toks tbl w bs ids e h' I' F) as [L [R [_ [T1 [T2 _]]]]].
    fold (bs_after bs e). fold (ids_after ids e).
    rewrite T2. rewrite T1 in Hm. rewrite !app_length in *. cbn [length] in *. lia.
  - apply IH; [|lia]. destruct I' as [I1 I2 I3 I4]. constructor; try assumption. inversion I4; assumption.
Qed.

(** * the initial state *)
Lemma init_heap_spec tbl : forall w k e, In e (init_heap tbl k w) -> Forall (fun b => b < 256) w ->
  exists x y, e_fid e = Some x /\ e_sid e = Some y /\ x < 256 /\ y < 256 /\ e_mg e = [x; y] /\
    lookup tbl [x; y] = Some (e_mid e) /\ e_si e = S (e_fi e) /\ (k <= e_fi e)%nat /\ (S (e_fi e) < k + length w)%nat.
Proof.
  induction w as [|x r IH]; intros k e H Hb; cbn [init_heap] in H; [destruct H|].
  destruct r as [|y r']; [destruct H|].
  inversion Hb as [|? ? Hx Hr]. subst. inversion Hr as [|? ? Hy _]. subst.
  assert (Rec : In e (init_heap tbl (S k) (y :: r')) -> exists x0 y0, e_fid e = Some x0 /\ e_sid e = Some y0 /\ x0 < 256 /\ y0 < 256 /\
      e_mg e = [x0; y0] /\ lookup tbl [x0; y0] = Some (e_mid e) /\ e_si e = S (e_fi e) /\ (k <= e_fi e)%nat /\
      (S (e_fi e) < k + length (x :: y :: r'))%nat).
  { intro Hi. destruct (IH (S k) e Hi Hr) as [x0 [y0 [A1 [A2 [A3 [A4 [A5 [A6 [A7 [A8 A9]]]]]]]]]].
    exists x0, y0. cbn [length] in *. repeat split; try assumption; lia. }
  destruct (lookup tbl [x; y]) as [m|] eqn:Lk; [|apply Rec; exact H].
  destruct H as [<-|H]; [|apply Rec; exact H].
  exists x, y. cbn [e_fid e_sid e_mg e_mid e_fi e_si length]. repeat split; try assumption; try reflexivity; lia.
Qed.

Lemma concat_singletons (w : list N) : concat (map (fun b => [b]) w) = w.
Proof. induction w as [|x w IH]; [reflexivity|]. cbn [map concat app]. f_equal. exact IH. Qed.

Lemma nth_singletons (w : list N) k : (k < length w)%nat -> nth k (map (fun b => [b]) w) [] = [nth k w 0].
Proof.
  intro H. rewrite (nth_indep _ [] [0]) by (rewrite map_length; exact H).
  apply (map_nth (fun b => [b])).
Qed.

Lemma init_inv tbl w : Forall (fun b => b < 256) w ->
  Inv tbl w (map (fun b => [b]) w) (map Some w) (init_heap tbl 0 w).
Proof.
  intro Hb. constructor.
  - rewrite map_map. apply map_ext. intro a. reflexivity.
  - intros k Hk. destruct (Nat.lt_ge_cases k (length w)) as [Lt|Ge].
    + rewrite nth_singletons by exact Lt. left. exists (nth k w 0). split; [reflexivity|].
      apply (proj1 (Forall_forall _ _) Hb). apply nth_In. exact Lt.
    + exfalso. apply Hk. apply nth_overflow. rewrite map_length. exact Ge.
  - apply concat_singletons.
  - apply Forall_forall. intros e He.
    destruct (init_heap_spec tbl w 0 e He Hb) as [x [y [A1 [A2 [A3 [A4 [A5 [A6 [A7 [A8 A9]]]]]]]]]].
    exists [x], [y]. rewrite map_length.
    repeat split; try assumption.
    + left. exists x. split; [reflexivity|assumption].
    + left. exists y. split; [reflexivity|assumption].
    + rewrite A5. exact A6.
    + lia.
    + lia.
    + intros k Hk. lia.
Qed.

Lemma toks_singletons (w : list N) : toks (map (fun b => [b]) w) = map (fun b => [b]) w.
Proof. induction w as [|x w IH]; [reflexivity|]. cbn [map]. rewrite toks_cons_nonnil by discriminate. f_equal. exact IH. Qed.

(** [merge_word_fuel]: the out-of-fuel value is never returned *)
Lemma merge_word_st_some tbl w : Forall (fun b => b < 256) w -> merge_word_st tbl w <> None.
Proof.
  intro Hb. unfold merge_word_st. apply (loop_fuel tbl w); [apply init_inv; exact Hb|].
  rewrite toks_singletons, map_length. unfold word_fuel.
  assert (length (init_heap tbl 0 w) <= length w)%nat; [|lia].
  generalize 0%nat. induction w as [|x r IH]; intro k; cbn [init_heap length]; [lia|].
  inversion Hb; subst.
  destruct r as [|y r']; [cbn [length]; lia|].
  destruct (lookup tbl [x; y]); cbn [length]; specialize (IH H2 (S k)); cbn [length] in IH; lia.
Qed.

(** [merge_word_inv]: the final slots concatenate to the word, hold tokens, and the ids are theirs *)
Lemma merge_word_inv_l tbl w : Forall (fun b => b < 256) w ->
  exists bs, merge_word_st tbl w = Some (bs, map (idopt tbl) bs) /\ concat bs = w /\
             forall k, nth k bs [] <> [] -> Tok tbl (nth k bs []).
Proof.
  intro Hb. destruct (merge_word_st tbl w) as [[bs ids]|] eqn:E; [|exfalso; exact (merge_word_st_some tbl w Hb E)].
  unfold merge_word_st in E. apply (loop_inv tbl w) in E; [|apply init_inv; exact Hb].
  cbn [fst snd] in E. destruct E as [I1 I2 I3 _]. subst ids. exists bs. repeat split; assumption.
Qed.

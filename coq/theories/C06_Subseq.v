(** C06 proofs, part 1: find_subsequences_of_max_size_k. *)
From TU Require Import Base C06_Model.
Require Import Lia.

Section Subseq.
Context (sz : nat -> nat -> nat) (k n : nat).

Definition range_ok (p : nat * nat) : Prop := fst p < snd p /\ snd p <= n /\ sz (fst p) (snd p) <= k.

Lemma ff_start_spec : forall rem start, start + rem = n ->
  let s := ff_start sz k rem start in
  s <= n /\ (s < n -> sz s (S s) <= k).
Proof.
  induction rem as [|r IH]; intros start H; cbn [ff_start]; cbn zeta.
  - split; lia.
  - destruct (k <? sz start (S start)) eqn:E.
    + apply IH. lia.
    + apply Nat.ltb_ge in E. split; [lia|auto].
Qed.

(** loop invariant: the current range is non-empty; if the previous size was within
    k, the previous range was (s, e-1) and non-empty (or this is the first iteration,
    where prev is the size of the current range) *)
Definition LoopInv (s e prev : nat) : Prop :=
  s < e /\ s <= n /\ e <= n + 1 /\
  (prev <= k -> (prev = sz s (e - 1) /\ s < e - 1) \/ prev = sz s e).

Lemma Forall_option_cons : forall (P : nat * nat -> Prop) p r,
  P p -> (exists subs, r = Some subs /\ Forall P subs) ->
  exists subs, option_map (cons p) r = Some subs /\ Forall P subs.
Proof. intros P p r Hp (subs & -> & Hf). eexists. split; [reflexivity|]. constructor; auto. Qed.

Lemma fs_loop_spec : forall fuel s e prev,
  LoopInv s e prev -> 2 * n + 2 <= fuel + s + e ->
  exists subs, fs_loop sz k n fuel s e prev = Some subs /\ Forall range_ok subs.
Proof.
  induction fuel as [|f IH]; intros s e prev (Hse & Hs & He & Hprev) Hfuel; [lia|].
  cbn [fs_loop].
  destruct ((s <? n) && (e <=? n)) eqn:Ec; [|eexists; split; [reflexivity|constructor]].
  apply andb_true_iff in Ec. destruct Ec as [Es Ee].
  apply Nat.ltb_lt in Es. apply Nat.leb_le in Ee.
  destruct (sz s e <=? k) eqn:Ecur.
  - apply Nat.leb_le in Ecur.
    assert (Hnext : exists subs, fs_loop sz k n f s (S e) (sz s e) = Some subs /\ Forall range_ok subs).
    { apply IH; [|lia]. unfold LoopInv. repeat split; try lia.
      intros _. left. replace (S e - 1) with e by lia. split; [reflexivity|lia]. }
    destruct (n <=? e) eqn:En; [|exact Hnext].
    apply Forall_option_cons; [|exact Hnext]. unfold range_ok. cbn [fst snd]. lia.
  - apply Nat.leb_gt in Ecur. destruct (prev <=? k) eqn:Ep.
    + apply Nat.leb_le in Ep. destruct (Hprev Ep) as [[Hpv Hlt]|Hpv]; [|lia].
      apply Forall_option_cons.
      * unfold range_ok. cbn [fst snd]. lia.
      * apply IH; [|lia]. unfold LoopInv. repeat split; try lia.
    + apply IH; [|lia]. unfold LoopInv. repeat split; try lia.
Qed.

(** every returned range is non-empty, inside the slice, and its size is within k:
    for every size function *)
Lemma find_subseq_ok_l :
  exists subs, find_subseq sz k n = Some subs /\ Forall range_ok subs.
Proof.
  unfold find_subseq.
  pose proof (ff_start_spec n 0 eq_refl) as [Hle Hfit]. cbn zeta in *.
  set (s := ff_start sz k n 0) in *.
  destruct (n <=? s) eqn:E; [eexists; split; [reflexivity|constructor]|].
  apply Nat.leb_gt in E. apply fs_loop_spec; [|lia].
  unfold LoopInv. repeat split; try lia.
Qed.
End Subseq.

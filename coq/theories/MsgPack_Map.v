(** MessagePack model: from the entries of the file to the loaded [HashMap] (later entry wins), and from the
    map to the tokenizer's table (keys in id order) — for every order the entries may have in the file. *)
From TU Require Import Base MsgPack_Model MsgPack_Codec MsgPack_Stream.
From Coq Require Import Lia ZifyBool ZifyNat ZifyN Permutation.
Open Scope N_scope.
Arguments N.add : simpl never.
Arguments N.eqb : simpl never.
Arguments N.ltb : simpl never.

Lemma nl_eqb_iff a : forall b, nlist_eqb a b = true <-> a = b.
Proof.
  induction a as [|x a IH]; intros [|y b]; cbn [nlist_eqb]; split; intros H; try reflexivity; try discriminate.
  - apply andb_true_iff in H. destruct H as [H1 H2]. apply N.eqb_eq in H1. apply IH in H2. congruence.
  - injection H as -> ->. rewrite N.eqb_refl. cbn. apply IH. reflexivity.
Qed.
Lemma nl_eqb_refl a : nlist_eqb a a = true.
Proof. apply nl_eqb_iff. reflexivity. Qed.

(** ** [fm_get]: the map after inserting the entries in order *)
Lemma fm_get_in es k v : fm_get es k = Some v -> In (k, v) es.
Proof.
  induction es as [|[k' v'] es IH]; cbn [fm_get]; [discriminate|].
  destruct (fm_get es k) as [w|] eqn:E.
  - intros H. injection H as <-. right. apply IH. reflexivity.
  - destruct (nlist_eqb k' k) eqn:E2; [|discriminate]. intros H. injection H as <-.
    apply nl_eqb_iff in E2. subst. left. reflexivity.
Qed.

Lemma fm_get_none es k : fm_get es k = None <-> ~ In k (map fst es).
Proof.
  induction es as [|[k' v'] es IH]; cbn [fm_get map fst In]; [tauto|].
  destruct (fm_get es k) as [w|] eqn:E.
  - split; [discriminate|]. intros H. exfalso. apply H. right.
    apply fm_get_in in E. apply (in_map fst) in E. exact E.
  - destruct (nlist_eqb k' k) eqn:E2.
    + apply nl_eqb_iff in E2. split; [discriminate|]. intros H. exfalso. apply H. left. exact E2.
    + split; [|reflexivity]. intros _ [H|H]; [subst; rewrite nl_eqb_refl in E2; discriminate|].
      apply (proj1 IH); [reflexivity|exact H].
Qed.

Lemma fm_get_nodup es k v : NoDup (map fst es) -> In (k, v) es -> fm_get es k = Some v.
Proof.
  induction es as [|[k' v'] es IH]; intros Hnd Hin; [destruct Hin|]. cbn [map fst] in Hnd.
  inversion Hnd as [|? ? Hn1 Hn2]; subst. cbn [fm_get]. destruct Hin as [Heq|Hin].
  - injection Heq as -> ->. destruct (fm_get es k) eqn:E; [|rewrite nl_eqb_refl; reflexivity].
    exfalso. apply Hn1. apply fm_get_in in E. apply (in_map fst) in E. exact E.
  - rewrite (IH Hn2 Hin). reflexivity.
Qed.

(** iteration order does not matter for a map written from a map (distinct keys) *)
Lemma fm_get_perm_l es es' k : NoDup (map fst es) -> Permutation es es' -> fm_get es k = fm_get es' k.
Proof.
  intros Hnd Hp. assert (Hnd' : NoDup (map fst es')).
  { apply (Permutation_NoDup (l := map fst es)); [apply Permutation_map; exact Hp|exact Hnd]. }
  destruct (fm_get es k) as [v|] eqn:E.
  - apply fm_get_in in E. symmetry. apply fm_get_nodup; [exact Hnd'|]. apply (Permutation_in _ Hp). exact E.
  - symmetry. apply fm_get_none. apply fm_get_none in E. intros H. apply E.
    apply (Permutation_in (l := map fst es')); [apply Permutation_map; apply Permutation_sym; exact Hp|exact H].
Qed.

(** ** [fm_items]: one entry per key, the value that won *)
Lemma existsb_nl k seen : existsb (nlist_eqb k) seen = true <-> In k seen.
Proof.
  rewrite existsb_exists. split.
  - intros (x & Hx & E). apply nl_eqb_iff in E. subst. exact Hx.
  - intros H. exists k. split; [exact H|apply nl_eqb_refl].
Qed.

Lemma fm_items_aux_in all : forall es seen k v,
  In (k, v) (fm_items_aux seen all es) <-> (~ In k seen /\ In k (map fst es) /\ fm_get all k = Some v).
Proof.
  induction es as [|[k' v'] es IH]; intros seen k v; cbn [fm_items_aux map fst In]; [tauto|].
  destruct (existsb (nlist_eqb k') seen) eqn:E.
  - apply existsb_nl in E. rewrite IH. split; [tauto|]. intros (H1 & [H2|H2] & H3); [subst; tauto|tauto].
  - assert (Hns : ~ In k' seen). { intros H. apply existsb_nl in H. congruence. }
    destruct (fm_get all k') as [w|] eqn:Eg.
    + cbn [In]. rewrite IH. cbn [In]. split.
      * intros [H|(H1 & H2 & H3)]; [injection H as <- <-; tauto|tauto].
      * intros (H1 & [H2|H2] & H3); [subst; left; congruence|].
        destruct (list_eq_dec N.eq_dec k' k) as [->|Hne]; [left; congruence|right; tauto].
    + rewrite IH. cbn [In]. split; [tauto|]. intros (H1 & [H2|H2] & H3); [subst; congruence|].
      split; [|tauto]. intros [H|H]; [subst; congruence|tauto].
Qed.

Lemma fm_items_aux_nodup all : forall es seen, NoDup (map fst (fm_items_aux seen all es)).
Proof.
  induction es as [|[k' v'] es IH]; intros seen; cbn [fm_items_aux]; [constructor|].
  destruct (existsb (nlist_eqb k') seen); [apply IH|].
  destruct (fm_get all k') as [w|]; [|apply IH]. cbn [map fst]. constructor; [|apply IH].
  intros H. apply in_map_iff in H. destruct H as ([k v] & Hk & Hin). cbn [fst] in Hk. subst k.
  apply fm_items_aux_in in Hin. destruct Hin as (Hs & _). apply Hs. left. reflexivity.
Qed.

Lemma fm_items_in es k v : In (k, v) (fm_items es) <-> fm_get es k = Some v.
Proof.
  unfold fm_items. rewrite fm_items_aux_in. split; [tauto|]. intros H. split; [tauto|]. split; [|exact H].
  apply fm_get_in in H. apply (in_map fst) in H. exact H.
Qed.
Lemma fm_items_nodup_keys es : NoDup (map fst (fm_items es)).
Proof. apply fm_items_aux_nodup. Qed.

(** the listed items ARE the map *)
Lemma fm_get_items_l es k : fm_get (fm_items es) k = fm_get es k.
Proof.
  destruct (fm_get es k) as [v|] eqn:E.
  - apply fm_get_nodup; [apply fm_items_nodup_keys|]. apply fm_items_in. exact E.
  - apply fm_get_none. intros H. apply in_map_iff in H. destruct H as ([k' v] & Hk & Hin). cbn [fst] in Hk. subst k'.
    apply fm_items_in in Hin. congruence.
Qed.

Lemma fm_items_aux_id all : forall es seen, NoDup (map fst es) ->
  (forall k, In k seen -> ~ In k (map fst es)) -> (forall k v, In (k, v) es -> fm_get all k = Some v) ->
  fm_items_aux seen all es = es.
Proof.
  induction es as [|[k v] es IH]; intros seen Hnd Hs Hall; [reflexivity|].
  cbn [map fst] in Hnd. inversion Hnd as [|? ? Hn1 Hn2]; subst. cbn [fm_items_aux].
  destruct (existsb (nlist_eqb k) seen) eqn:E.
  { apply existsb_nl in E. exfalso. apply (Hs k E). left. reflexivity. }
  rewrite (Hall k v) by (left; reflexivity). f_equal. apply IH; [exact Hn2| |].
  - intros k' [<-|Hk']; [exact Hn1|]. intros H. apply (Hs k' Hk'). right. exact H.
  - intros k' v' H. apply Hall. right. exact H.
Qed.

(** a file written from a map has distinct keys: its items are its entries, in file order *)
Lemma fm_items_id_l es : NoDup (map fst es) -> fm_items es = es.
Proof.
  intros H. apply fm_items_aux_id; [exact H|intros k []|]. intros k v Hin. apply fm_get_nodup; assumption.
Qed.

(** ** the table *)
Lemma in_entries_from : forall (tbl : list (list N)) s e,
  In e (combine tbl (map N.of_nat (seq s (length tbl)))) <->
  exists i, (i < length tbl)%nat /\ e = (nth i tbl [], N.of_nat (s + i)).
Proof.
  induction tbl as [|x tbl IH]; intros s e; cbn [length seq map combine In].
  - split; [tauto|]. intros (i & Hi & _). cbn in Hi. lia.
  - rewrite IH. split.
    + intros [<-|(i & Hi & ->)]; [exists 0%nat; split; [lia|]; rewrite Nat.add_0_r; reflexivity|].
      exists (S i). split; [lia|]. cbn [nth]. replace (s + S i)%nat with (S s + i)%nat by lia. reflexivity.
    + intros ([|i] & Hi & ->); [left; rewrite Nat.add_0_r; reflexivity|].
      right. exists i. split; [lia|]. cbn [nth]. replace (s + S i)%nat with (S s + i)%nat by lia. reflexivity.
Qed.

Lemma in_entries_of_table tbl e :
  In e (entries_of_table tbl) <-> exists i, (i < length tbl)%nat /\ e = (nth i tbl [], N.of_nat i).
Proof. unfold entries_of_table. rewrite in_entries_from. reflexivity. Qed.

Lemma entries_of_table_length tbl : length (entries_of_table tbl) = length tbl.
Proof. unfold entries_of_table. rewrite combine_length, map_length, seq_length. lia. Qed.

Lemma entries_of_table_keys tbl : map fst (entries_of_table tbl) = tbl.
Proof.
  unfold entries_of_table. generalize 0%nat. induction tbl as [|x tbl IH]; intros s; [reflexivity|].
  cbn [length seq map combine fst]. f_equal. apply IH.
Qed.

Lemma entries_of_table_ids tbl : map snd (entries_of_table tbl) = map N.of_nat (seq 0 (length tbl)).
Proof.
  unfold entries_of_table. generalize 0%nat. induction tbl as [|x tbl IH]; intros s; [reflexivity|].
  cbn [length seq map combine snd]. f_equal. apply IH.
Qed.

Lemma entries_of_table_nodup tbl : NoDup (entries_of_table tbl).
Proof.
  apply (NoDup_map_inv snd). rewrite entries_of_table_ids.
  apply FinFun.Injective_map_NoDup; [intros a b H; lia|apply seq_NoDup].
Qed.

Lemma key_with_id_perm items tbl i : Permutation items (entries_of_table tbl) -> (i < length tbl)%nat ->
  key_with_id items (N.of_nat i) = Some (nth i tbl []).
Proof.
  intros Hp Hi. unfold key_with_id. destruct (find (fun e => snd e =? N.of_nat i) items) as [e|] eqn:E.
  - apply find_some in E. destruct E as [Hin He]. apply N.eqb_eq in He.
    apply (Permutation_in _ Hp) in Hin. apply in_entries_of_table in Hin. destruct Hin as (j & Hj & ->).
    cbn [snd] in He. assert (j = i) by lia. subst j. reflexivity.
  - exfalso. assert (Hin : In (nth i tbl [], N.of_nat i) items).
    { apply (Permutation_in _ (Permutation_sym Hp)). apply in_entries_of_table. exists i. split; [exact Hi|reflexivity]. }
    pose proof (find_none _ _ E _ Hin) as H. cbn [snd] in H. rewrite N.eqb_refl in H. discriminate.
Qed.

Lemma all_some_keys_spec : forall l r, all_some_keys l = Some r <-> l = map Some r.
Proof.
  induction l as [|[x|] l IH]; intros r; cbn [all_some_keys].
  - split; [intros H; injection H as <-; reflexivity|intros H; destruct r; [reflexivity|discriminate]].
  - destruct (all_some_keys l) as [r'|] eqn:E; cbn [option_map].
    + split; [intros H; injection H as <-; cbn [map]; f_equal; apply IH; reflexivity|].
      intros H. destruct r as [|y r]; [discriminate|]. cbn [map] in H. injection H as -> H.
      apply IH in H. congruence.
    + split; [discriminate|]. intros H. destruct r as [|y r]; [discriminate|]. cbn [map] in H. injection H as _ H.
      apply IH in H. discriminate.
  - split; [discriminate|]. intros H. destruct r; discriminate.
Qed.

Lemma map_nth_seq (tbl : list (list N)) : map (fun i => nth i tbl []) (seq 0 (length tbl)) = tbl.
Proof.
  induction tbl as [|x tbl IH]; [reflexivity|]. cbn [length seq map nth]. f_equal.
  rewrite <- seq_shift, map_map. exact IH.
Qed.

(** every order of the entries of a table gives that table *)
Lemma table_of_items_perm_l items tbl : Permutation items (entries_of_table tbl) -> table_of_items items = Some tbl.
Proof.
  intros Hp. unfold table_of_items. apply all_some_keys_spec.
  rewrite (Permutation_length Hp), entries_of_table_length.
  transitivity (map Some (map (fun i => nth i tbl []) (seq 0 (length tbl)))); [|rewrite map_nth_seq; reflexivity].
  rewrite map_map. apply map_ext_in. intros i Hi. apply in_seq in Hi.
  apply key_with_id_perm; [exact Hp|lia].
Qed.

(** and nothing else does: if the items yield [tbl], they are the entries of [tbl] in some order *)
Lemma table_of_items_sound_l items tbl : table_of_items items = Some tbl -> Permutation items (entries_of_table tbl).
Proof.
  unfold table_of_items. intros H. apply all_some_keys_spec in H.
  assert (Hlen : length tbl = length items).
  { apply (f_equal (@length _)) in H. rewrite !map_length, seq_length in H. lia. }
  apply Permutation_sym. apply NoDup_Permutation_bis; [apply entries_of_table_nodup|rewrite entries_of_table_length; lia|].
  intros e He. apply in_entries_of_table in He. destruct He as (i & Hi & ->).
  assert (Hk : key_with_id items (N.of_nat i) = Some (nth i tbl [])).
  { apply (f_equal (fun l => nth i l None)) in H.
    rewrite (nth_indep _ None (key_with_id items (N.of_nat 0))) in H by (rewrite map_length, seq_length; lia).
    rewrite (map_nth (fun i => key_with_id items (N.of_nat i))), seq_nth in H by lia.
    rewrite (nth_indep _ None (Some [])) in H by (rewrite map_length; lia).
    rewrite (map_nth Some) in H. exact H. }
  unfold key_with_id in Hk. destruct (find (fun e => snd e =? N.of_nat i) items) as [[k v]|] eqn:E; [|discriminate].
  cbn [option_map fst] in Hk. injection Hk as ->. apply find_some in E. destruct E as [Hin He]. cbn [snd] in He.
  apply N.eqb_eq in He. subst v. exact Hin.
Qed.

(** ** loading *)
Lemma entries_of_table_limits tbl : N.of_nat (length tbl) <= u32_max ->
  Forall (fun k => N.of_nat (length k) <= u32_max /\ Forall isbyte k) tbl -> table_in_limits (entries_of_table tbl).
Proof.
  intros Hn Hk. split; [rewrite entries_of_table_length; exact Hn|]. apply Forall_forall. intros e He.
  apply in_entries_of_table in He. destruct He as (i & Hi & ->). unfold entry_ok. cbn [fst snd].
  pose proof (proj1 (Forall_forall _ _) Hk (nth i tbl []) (nth_In _ _ Hi)) as [H1 H2].
  repeat split; [exact H1|exact H2|unfold u32_max in *; lia].
Qed.

Lemma table_in_limits_perm m m' : Permutation m m' -> table_in_limits m -> table_in_limits m'.
Proof.
  intros Hp [H1 H2]. split; [rewrite <- (Permutation_length Hp); exact H1|].
  apply (Permutation_Forall Hp). exact H2.
Qed.

(** the file [save] writes for a table (distinct keys, ids = positions), in WHATEVER order the map iterates, with
    whatever bytes behind it, loads as that table *)
Theorem load_saved_l tbl es junk : NoDup tbl -> N.of_nat (length tbl) <= u32_max ->
  Forall (fun k => N.of_nat (length k) <= u32_max /\ Forall isbyte k) tbl ->
  Permutation es (entries_of_table tbl) ->
  mp_parse (mp_encode es ++ junk) = Some (es, junk) /\ load_table (mp_encode es ++ junk) = Loaded tbl.
Proof.
  intros Hnd Hn Hk Hp.
  assert (Hlim : table_in_limits es).
  { apply (table_in_limits_perm (entries_of_table tbl)); [apply Permutation_sym; exact Hp|].
    apply entries_of_table_limits; assumption. }
  assert (Hkeys : NoDup (map fst es)).
  { apply (Permutation_NoDup (l := map fst (entries_of_table tbl))).
    - apply Permutation_map. apply Permutation_sym. exact Hp.
    - rewrite entries_of_table_keys. exact Hnd. }
  split; [apply mp_parse_encode_l; exact Hlim|].
  unfold load_table. rewrite mp_decode_trailing_l by exact Hlim.
  rewrite fm_items_id_l by exact Hkeys. rewrite (table_of_items_perm_l _ _ Hp). reflexivity.
Qed.

(** what a successful load means *)
Theorem load_table_sound_l bs tbl : load_table bs = Loaded tbl ->
  exists es rest, mp_parse bs = Some (es, rest) /\
    Permutation (fm_items es) (entries_of_table tbl) /\ NoDup tbl /\
    (forall k i, fm_get es k = Some i <-> exists j, i = N.of_nat j /\ nth_error tbl j = Some k).
Proof.
  unfold load_table, mp_decode. destruct (mp_parse bs) as [[es rest]|] eqn:E; cbn [option_map fst]; [|discriminate].
  destruct (table_of_items (fm_items es)) as [t|] eqn:Et; [|discriminate]. intros H. injection H as ->.
  apply table_of_items_sound_l in Et. exists es, rest. split; [reflexivity|]. split; [exact Et|].
  assert (Hnd : NoDup tbl).
  { rewrite <- (entries_of_table_keys tbl). apply (Permutation_NoDup (l := map fst (fm_items es)));
      [apply Permutation_map; exact Et|apply fm_items_nodup_keys]. }
  split; [exact Hnd|]. intros k i. rewrite <- fm_get_items_l. rewrite <- fm_items_in.
  rewrite fm_items_in. rewrite fm_get_items_l. rewrite <- fm_items_in. split.
  - intros Hin. apply (Permutation_in _ Et) in Hin. apply in_entries_of_table in Hin. destruct Hin as (j & Hj & Heq).
    injection Heq as -> ->. exists j. split; [reflexivity|]. apply nth_error_nth'. exact Hj.
  - intros (j & -> & Hj). apply (Permutation_in _ (Permutation_sym Et)). apply in_entries_of_table.
    exists j. split; [apply nth_error_Some; congruence|]. f_equal. symmetry. apply nth_error_nth. exact Hj.
Qed.

Theorem load_error_iff_l bs : load_table bs = LoadError <-> mp_decode bs = None.
Proof.
  unfold load_table. destruct (mp_decode bs) as [es|]; [|tauto].
  destruct (table_of_items (fm_items es)); split; discriminate.
Qed.

Theorem fm_items_spec_l es : NoDup (map fst (fm_items es)) /\
  (forall k v, In (k, v) (fm_items es) <-> fm_get es k = Some v) /\
  (forall k, fm_get (fm_items es) k = fm_get es k) /\
  (NoDup (map fst es) -> fm_items es = es).
Proof.
  split; [apply fm_items_nodup_keys|]. split; [apply fm_items_in|]. split; [apply fm_get_items_l|apply fm_items_id_l].
Qed.
Theorem table_of_items_iff_l items tbl :
  table_of_items items = Some tbl <-> Permutation items (entries_of_table tbl).
Proof. split; [apply table_of_items_sound_l|apply table_of_items_perm_l]. Qed.

(** C15 with the segmenter inside the model: when is the cluster list an edit produces the
    segmentation of the new word?  Exactly when the seams the edit creates are [glued]
    ([edit_stable_iff]); then every cluster-level theorem of C15 (exclusion set re-indexed,
    protected characters untouched, lengths) is a statement about [segment] of the NEW word.
    [edit_safe] (all clusters of the word and of the enabled tables glued in every order) makes
    this hold for every edit of every chained call. *)
From TU Require Import Base UAX29_Model UAX29_Proofs C10_Model C10_Proofs C10_Seam C10_Stable.
From TU Require Import C15_Model C15_Proofs C15_Apply C15_Check C15_Chain C15_Seam.
From Coq Require Import Lia.

Notation cchain := C10_Seam.chain.

(** * A. chains and junctions *)
Lemma chain_cons c R :
  cchain (c :: R) = (match R with d :: _ => glued c d | [] => true end) && cchain R.
Proof. destruct R; reflexivity. Qed.

Lemma junction_nil_r a : junction a [] = true.
Proof. destruct a; reflexivity. Qed.

Lemma chain_app_j (a b : list cluster) : cchain (a ++ b) = cchain a && cchain b && junction a b.
Proof.
  induction a as [|c R IH]; [cbn [app junction]; rewrite andb_true_r; reflexivity|].
  destruct R as [|c2 R'].
  - cbn [app]. rewrite chain_cons. destruct b as [|d b']; [reflexivity|].
    cbn [junction last]. change (cchain [c]) with true. cbn [andb]. apply andb_comm.
  - change ((c :: c2 :: R') ++ b) with (c :: (c2 :: R') ++ b).
    rewrite (chain_cons c ((c2 :: R') ++ b)). change ((c2 :: R') ++ b) with (c2 :: R' ++ b) at 1.
    cbv iota beta. rewrite IH. rewrite (chain_cons c (c2 :: R')).
    assert (J : junction (c :: c2 :: R') b = junction (c2 :: R') b).
    { destruct b as [|d b']; [reflexivity|]. reflexivity. }
    rewrite J. rewrite !andb_assoc. reflexivity.
Qed.

Lemma junction_hd a d b : junction a (d :: b) = junction a [d].
Proof. destruct a; reflexivity. Qed.

Lemma chain_firstn i w : cchain w = true -> cchain (firstn i w) = true.
Proof.
  intros H. rewrite <- (firstn_skipn i w), chain_app_j in H.
  apply andb_true_iff in H as [H _]. apply andb_true_iff in H as [H _]. exact H.
Qed.
Lemma chain_skipn i w : cchain w = true -> cchain (skipn i w) = true.
Proof.
  intros H. rewrite <- (firstn_skipn i w), chain_app_j in H.
  apply andb_true_iff in H as [H _]. apply andb_true_iff in H as [_ H]. exact H.
Qed.

(** * B. the chain of the edited word = the seams of the edit *)
Lemma edit_seams_spec k w :
  cchain w = true -> cchain (ed_str k) = true -> cchain (apply_word k w) = edit_seams k w.
Proof.
  intros Hw He. destruct k as [|i e|i|i e|i]; cbn [apply_word edit_seams ed_str] in *.
  - exact Hw.
  - rewrite chain_app_j, chain_app_j, (chain_firstn i w Hw), (chain_skipn i w Hw), He.
    cbn [andb]. apply andb_comm.
  - rewrite chain_app_j, (chain_firstn i w Hw), (chain_skipn (S i) w Hw). reflexivity.
  - rewrite chain_app_j, chain_app_j, (chain_firstn i w Hw), (chain_skipn (S i) w Hw), He.
    cbn [andb]. apply andb_comm.
  - pose proof (chain_skipn i w Hw) as Hs. destruct (skipn i w) as [|x [|y r]]; [exact Hw|exact Hw|].
    rewrite chain_app_j, (chain_firstn i w Hw). cbn [andb].
    rewrite (chain_cons y (x :: r)), (chain_cons x r). cbv iota beta.
    rewrite (chain_cons x (y :: r)), (chain_cons y r) in Hs. cbv iota beta in Hs.
    apply andb_true_iff in Hs as [_ Hs]. apply andb_true_iff in Hs as [_ Hr]. rewrite Hr, andb_true_r.
    rewrite (junction_hd (firstn i w) y (x :: r)).
    assert (J : junction [x] r = match r with d :: _ => glued x d | [] => true end) by (destruct r; reflexivity).
    rewrite J. rewrite andb_comm, andb_assoc. reflexivity.
Qed.

(** * C. stable cluster lists *)
Lemma seg_ok_spec l : seg_ok l = true <-> segment (concat l) = l.
Proof. unfold seg_ok. apply cll_eqb_eq. Qed.

Lemma stable_parts l :
  segment (concat l) = l ->
  Forall (fun c : cluster => c <> []) l /\ forallb is_cluster l = true /\ cchain l = true.
Proof.
  intros E. rewrite <- E. split; [apply segment_nonempty_l|]. split; [apply segment_clusters|apply segment_chain].
Qed.

Lemma apply_word_In k w x : In x (apply_word k w) -> In x w \/ In x (ed_str k).
Proof.
  assert (F : forall i, In x (firstn i w) -> In x w).
  { intros i H. rewrite <- (firstn_skipn i w). apply in_or_app. left. exact H. }
  assert (S : forall i, In x (skipn i w) -> In x w).
  { intros i H. rewrite <- (firstn_skipn i w). apply in_or_app. right. exact H. }
  destruct k as [|i e|i|i e|i]; cbn [apply_word ed_str]; intros H.
  - left. exact H.
  - apply in_app_or in H as [H|H]; [left; exact (F i H)|]. apply in_app_or in H as [H|H]; [right; exact H|left; exact (S i H)].
  - apply in_app_or in H as [H|H]; [left; exact (F i H)|left; exact (S _ H)].
  - apply in_app_or in H as [H|H]; [left; exact (F i H)|]. apply in_app_or in H as [H|H]; [right; exact H|left; exact (S _ H)].
  - left. destruct (skipn i w) as [|a [|b r]] eqn:E; [exact H|exact H|].
    apply in_app_or in H as [H|H]; [exact (F i H)|].
    apply (S i). rewrite E. destruct H as [<-|[<-|H]]; [right; left; reflexivity|left; reflexivity|right; right; exact H].
Qed.

Lemma apply_word_forallb (p : cluster -> bool) k w :
  forallb p w = true -> forallb p (ed_str k) = true -> forallb p (apply_word k w) = true.
Proof.
  rewrite !forallb_forall. intros Hw He x Hx. destruct (apply_word_In k w x Hx); auto.
Qed.

Lemma apply_word_Forall (P : cluster -> Prop) k w :
  Forall P w -> Forall P (ed_str k) -> Forall P (apply_word k w).
Proof.
  rewrite !Forall_forall. intros Hw He x Hx. destruct (apply_word_In k w x Hx); auto.
Qed.

(** the characterisation for one edit *)
Lemma edit_stable_iff_l k w :
  segment (concat w) = w -> segment (concat (ed_str k)) = ed_str k ->
  (segment (concat (apply_word k w)) = apply_word k w <-> edit_seams k w = true).
Proof.
  intros Ew Ee. destruct (stable_parts w Ew) as (Nw & Cw & Hw). destruct (stable_parts _ Ee) as (Ne & Ce & He).
  rewrite <- (edit_seams_spec k w Hw He). split.
  - intros E. exact (proj2 (proj2 (stable_parts _ E))).
  - intros H. apply chain_stable; [apply apply_word_Forall; assumption|apply apply_word_forallb; assumption|exact H].
Qed.

(** * D. table strings *)
Lemma pos_edits_strings_i c e : In e (ins_strings c) -> In e (itab_strings (itab c)).
Proof.
  unfold ins_strings, itab_strings. destruct (k_ins c); [|intros []]. rewrite !in_flat_map.
  intros (en & H1 & H2). exists en. split; [exact H1|]. unfold pos_edits in H2.
  apply in_map_iff in H2 as (x & <- & Hx). apply filter_In in Hx as [Hx _]. apply in_map. exact Hx.
Qed.
Lemma pos_edits_strings_r c e : In e (rep_strings c) -> In e (rtab_strings (rtab c)).
Proof.
  unfold rep_strings, rtab_strings. destruct (k_rep c); [|intros []]. rewrite !in_flat_map.
  intros (en & H1 & H2). exists en. split; [exact H1|]. unfold pos_edits in H2.
  apply in_map_iff in H2 as (x & <- & Hx). apply filter_In in Hx as [Hx _]. apply in_map. exact Hx.
Qed.

(** the edit string of a valid edit is a positive-weight string of an enabled table *)
Lemma valid_ed_str c w ex k :
  valid_ed c w ex k ->
  match k with
  | EIns _ e => In e (ins_strings c)
  | ERep _ e => In e (rep_strings c)
  | _ => True
  end.
Proof.
  destruct k as [|i e|i|i e|i]; intros V; try exact Logic.I.
  - destruct V as (Hk & _ & _ & _ & es & Hl & He). unfold ins_strings. rewrite Hk.
    apply in_flat_map. destruct (ins_lookup_In _ _ _ _ Hl) as (en & H1 & H2). exists en. split; [exact H1|].
    subst es. apply pos_edits_In. exact He.
  - destruct V as (Hk & _ & _ & s & es & _ & Hl & He). unfold rep_strings. rewrite Hk.
    apply in_flat_map. destruct (rep_lookup_In _ _ _ _ _ Hl) as (en & H1 & H2). exists en. split; [exact H1|].
    subst es. apply pos_edits_In. exact He.
Qed.

Lemma valid_ed_str_ok c w ex k :
  tabs_ok c = true -> valid_ed c w ex k -> segment (concat (ed_str k)) = ed_str k.
Proof.
  intros Ht V. unfold tabs_ok in Ht. apply andb_true_iff in Ht as [Hi Hr].
  rewrite forallb_forall in Hi, Hr. pose proof (valid_ed_str c w ex k V) as Hs.
  destruct k as [|i e|i|i e|i]; cbn [ed_str]; try reflexivity.
  - apply seg_ok_spec, Hi, pos_edits_strings_i, Hs.
  - apply seg_ok_spec, Hr, pos_edits_strings_r, Hs.
Qed.

(** * E. one call, string level: the returned word re-segments to the clusters the exclusion
    set was computed on exactly when the seams of the edit are glued *)
Lemma one_edit_u_l c cd cs x ex l o :
  tabs_ok c = true ->
  outcomes c cd cs (segment x) ex = Some l -> In o l ->
  exists k, valid_ed c (segment x) ex k /\ o = (apply_word k (segment x), apply_excl k ex)
            /\ (segment (concat (fst o)) = fst o <-> edit_seams k (segment x) = true).
Proof.
  intros Ht Ho Hin. destruct (outcomes_In _ _ _ _ _ _ _ Ho Hin) as (k & V & ->).
  exists k. split; [exact V|]. split; [reflexivity|]. cbn [fst].
  apply edit_stable_iff_l; [rewrite segment_concat_l; reflexivity|exact (valid_ed_str_ok c _ ex k Ht V)].
Qed.

(** the exclusion set is re-indexed correctly w.r.t. [segment] of the new word *)
Lemma excl_reindexed_u_l c x ex k :
  tabs_ok c = true -> valid_ed c (segment x) ex k -> edit_seams k (segment x) = true ->
  let x' := concat (apply_word k (segment x)) in
  (forall p, In p ex -> p < length (segment x) ->
     nth_error (segment x') (shift_of k p) = nth_error (segment x) p
     /\ ~ In (shift_of k p) (new_pos k) /\ In (shift_of k p) (apply_excl k ex))
  /\ (forall y, In y (apply_excl k ex) <-> (exists p, In p ex /\ y = shift_of k p) \/ In y (new_pos k))
  /\ (in_range (segment x) ex -> in_range (segment x') (apply_excl k ex))
  /\ len_spec k (length (segment x)) (length (segment x')).
Proof.
  intros Ht V Hs x'.
  assert (E : segment x' = apply_word k (segment x)).
  { apply (edit_stable_iff_l k (segment x)); [rewrite segment_concat_l; reflexivity|exact (valid_ed_str_ok c _ ex k Ht V)|exact Hs]. }
  rewrite E. destruct (excl_reindexed_l c (segment x) ex k V) as (H1 & H2 & H3).
  split; [|split; [exact H1|split; [exact H2|exact H3]]].
  intros p Hp Hlt. destruct (excluded_untouched_l c (segment x) ex k p V Hp Hlt) as (_ & A & B & C). auto.
Qed.

(** * F. [edit_safe]: every list over a safe pool is stable, and edits stay inside the pool *)
Lemma pool_safe_parts P :
  pool_safe P = true ->
  (forall a, In a P -> a <> []) /\ (forall a, In a P -> is_cluster a = true)
  /\ (forall a b, In a P -> In b P -> glued a b = true).
Proof.
  unfold pool_safe. intros H. apply andb_true_iff in H as [H H3]. apply andb_true_iff in H as [H1 H2].
  rewrite forallb_forall in H1, H2, H3. split; [|split].
  - intros a Ha E. specialize (H1 a Ha). subst a. discriminate.
  - exact H2.
  - intros a b Ha Hb. specialize (H3 a Ha). rewrite forallb_forall in H3. exact (H3 b Hb).
Qed.

Lemma pool_stable P L : pool_safe P = true -> incl L P -> segment (concat L) = L.
Proof.
  intros HP Hin. destruct (pool_safe_parts P HP) as (H1 & H2 & H3). apply chain_stable.
  - apply Forall_forall. intros c Hc. apply H1, Hin, Hc.
  - apply forallb_forall. intros c Hc. apply H2, Hin, Hc.
  - induction L as [|c R IH]; [reflexivity|]. rewrite chain_cons.
    rewrite IH by (intros y Hy; apply Hin; right; exact Hy). rewrite andb_true_r.
    destruct R as [|d R']; [reflexivity|]. apply H3; apply Hin; [left; reflexivity|right; left; reflexivity].
Qed.

Lemma ed_str_pool c w0 w ex k : valid_ed c w ex k -> incl (ed_str k) (pool c w0).
Proof.
  intros V y Hy. pose proof (valid_ed_str c w ex k V) as Hs. unfold pool.
  destruct k as [|i e|i|i e|i]; cbn [ed_str] in Hy; try contradiction.
  - apply in_or_app. right. apply in_or_app. left. apply in_concat. exists e. split; assumption.
  - apply in_or_app. right. apply in_or_app. right. apply in_concat. exists e. split; assumption.
Qed.

Lemma apply_word_pool c w0 w ex k :
  valid_ed c w ex k -> incl w (pool c w0) -> incl (apply_word k w) (pool c w0).
Proof.
  intros V Hw y Hy. destruct (apply_word_In k w y Hy) as [H|H]; [exact (Hw y H)|].
  exact (ed_str_pool c w0 w ex k V y H).
Qed.

Lemma chain_pool c w0 n s s' :
  C15_Model.chain c n s s' -> incl (fst s) (pool c w0) -> incl (fst s') (pool c w0).
Proof.
  induction 1 as [s|n w ex cd cs l o s' Ho Hin Hc IH]; intros Hw; [exact Hw|].
  apply IH. destruct (outcomes_In _ _ _ _ _ _ _ Ho Hin) as (k & V & ->). cbn [fst] in *.
  exact (apply_word_pool c w0 w ex k V Hw).
Qed.

Lemma pool_self c w : incl w (pool c w).
Proof. intros y Hy. unfold pool. apply in_or_app. left. exact Hy. Qed.

(** every word along every chain from an edit-safe start is the segmentation of its text *)
Lemma chain_stable_l c n w ex s' :
  edit_safe c w = true -> C15_Model.chain c n (w, ex) s' -> segment (concat (fst s')) = fst s'.
Proof.
  intros Hs Hc. apply (pool_stable (pool c w)); [exact Hs|].
  apply (chain_pool c w n (w, ex) s' Hc). apply pool_self.
Qed.

(** and every edit of an edit-safe word has glued seams *)
Lemma edit_safe_seams c w ex k :
  tabs_ok c = true -> segment (concat w) = w ->
  edit_safe c w = true -> valid_ed c w ex k -> edit_seams k w = true.
Proof.
  intros Ht Ew Hs V. apply (edit_stable_iff_l k w Ew (valid_ed_str_ok c w ex k Ht V)).
  apply (pool_stable (pool c w)); [exact Hs|]. apply (apply_word_pool c w w ex k V). apply pool_self.
Qed.

(** * G. grapheme mode: the text-level membership the runner uses is the cluster-level one
    when the word is edit-safe and the returned clusters are the model's segmentation *)
Lemma step_agree_u c s wv exv :
  edit_safe c (s_w s) = true -> seg_ok (v_cls wv) = true ->
  step_agree false c s (L [wv; exv]) = true -> step_agree true c s (L [wv; exv]) = true.
Proof.
  intros Hs Hw'. unfold step_agree.
  destruct (outcomes c (s_cd s) (s_cs s) (s_w s) (s_ex s)) as [l|] eqn:E; [|discriminate].
  intros H. apply existsb_exists in H as (m & Hm & H). apply existsb_exists. exists m. split; [exact Hm|].
  apply andb_true_iff in H as [H1 H2]. rewrite H2, andb_true_r. apply nlist_eqb_eq in H1.
  destruct (outcomes_In _ _ _ _ _ _ _ E Hm) as (k & V & ->). cbn [fst] in *.
  apply cls_eqb_eq. apply seg_ok_spec in Hw'.
  assert (Em : segment (concat (apply_word k (s_w s))) = apply_word k (s_w s)).
  { apply (pool_stable (pool c (s_w s))); [exact Hs|]. apply (apply_word_pool c (s_w s) (s_w s) (s_ex s) k V). apply pool_self. }
  rewrite <- Em, H1. exact Hw'.
Qed.

(** * H. the class flag through the model: an explanation whose cluster list is a chain is an
    explanation whose cluster list is the segmentation of the returned word *)
Lemma expl_chain_stable c s w' ex' k :
  tabs_ok c = true -> seg_ok (s_w s) = true -> seg_ok w' = true ->
  In k (all_cands c (s_w s)) ->
  expl_text (s_w s) (s_ex s) w' ex' k = true ->
  (cchain (apply_word k (s_w s)) = true <-> apply_word k (s_w s) = w').
Proof.
  intros Ht Hw Hw' Hin He. apply seg_ok_spec in Hw, Hw'.
  unfold expl_text in He. apply andb_true_iff in He as [He _]. apply nlist_eqb_eq in He.
  assert (Hes : segment (concat (ed_str k)) = ed_str k).
  { unfold tabs_ok in Ht. apply andb_true_iff in Ht as [Hi Hr]. rewrite forallb_forall in Hi, Hr.
    unfold all_cands in Hin. destruct k as [|i e|i|i e|i]; cbn [ed_str]; try reflexivity.
    - destruct Hin as [Hin|Hin]; [discriminate|]. apply in_app_or in Hin as [Hin|Hin].
      + destruct (k_ins c); [|contradiction]. apply in_flat_map in Hin as (j & _ & Hj).
        apply in_map_iff in Hj as (e' & Heq & He'). injection Heq as _ <-. apply seg_ok_spec, Hi, He'.
      + exfalso. apply in_app_or in Hin as [Hin|Hin].
        * destruct (k_del c); [|contradiction]. apply in_map_iff in Hin as (? & Heq & _). discriminate.
        * apply in_app_or in Hin as [Hin|Hin].
          -- destruct (k_rep c); [|contradiction]. apply in_flat_map in Hin as (j & _ & Hj).
             apply in_map_iff in Hj as (? & Heq & _). discriminate.
          -- destruct (k_swap c && (1 <? length (s_w s)))%bool; [|contradiction].
             apply in_map_iff in Hin as (? & Heq & _). discriminate.
    - destruct Hin as [Hin|Hin]; [discriminate|]. apply in_app_or in Hin as [Hin|Hin].
      + exfalso. destruct (k_ins c); [|contradiction]. apply in_flat_map in Hin as (j & _ & Hj).
        apply in_map_iff in Hj as (? & Heq & _). discriminate.
      + apply in_app_or in Hin as [Hin|Hin].
        * exfalso. destruct (k_del c); [|contradiction]. apply in_map_iff in Hin as (? & Heq & _). discriminate.
        * apply in_app_or in Hin as [Hin|Hin].
          -- destruct (k_rep c); [|contradiction]. apply in_flat_map in Hin as (j & _ & Hj).
             apply in_map_iff in Hj as (e' & Heq & He'). injection Heq as _ <-. apply seg_ok_spec, Hr, He'.
          -- exfalso. destruct (k_swap c && (1 <? length (s_w s)))%bool; [|contradiction].
             apply in_map_iff in Hin as (? & Heq & _). discriminate. }
  destruct (stable_parts _ Hw) as (Nw & Cw & Chw). destruct (stable_parts _ Hes) as (Ne & Ce & Che).
  split.
  - intros Hc. assert (E : segment (concat (apply_word k (s_w s))) = apply_word k (s_w s)).
    { apply chain_stable; [apply apply_word_Forall; assumption|apply apply_word_forallb; assumption|exact Hc]. }
    rewrite <- E, He. exact Hw'.
  - intros <-. rewrite <- Hw'. apply segment_chain.
Qed.

(** * I. the whole correspondence relation: text-level agreement + the segmentation clause give
    the cluster-level agreement [check_run] is stated for, when every word of the chain is
    edit-safe *)
Lemma all2_step_u c : forall ss ch,
  forallb (fun s => edit_safe c (s_w s)) ss = true ->
  forallb (fun o => match o with L [wv; _] => seg_ok (v_cls wv) | _ => true end) ch = true ->
  all2 (step_agree false c) ss ch = true -> all2 (step_agree true c) ss ch = true.
Proof.
  induction ss as [|s ss IH]; intros [|o ch] Hs Ho H; try discriminate; [reflexivity|].
  cbn [all2 forallb] in *. apply andb_true_iff in Hs as [Hs1 Hs2]. apply andb_true_iff in Ho as [Ho1 Ho2].
  apply andb_true_iff in H as [H1 H2]. rewrite (IH ch Hs2 Ho2 H2), andb_true_r.
  destruct o as [z|[|wv [|exv [|? ?]]]]; try (cbn in H1; discriminate H1).
  apply step_agree_u; assumption.
Qed.

Lemma agree_u_l v out :
  in_g15 v = true ->
  forallb (fun s => edit_safe (v_cfg v) (s_w s)) (v_steps v) = true ->
  C15_Seam.uax29_agree v out = true -> agree_C15 false v out = true ->
  agree_C15 true v out = true /\ check_C15 v out = true.
Proof.
  intros Hg Hs Hu Ha.
  assert (A : agree_C15 true v out = true).
  { unfold in_g15 in Hg. apply andb_true_iff in Hg as [He Hgg]. apply negb_true_iff in He.
    unfold agree_C15 in *. rewrite He in *. unfold agree_edit in *.
    destruct out as [z|[|pv [|[z|ch] [|? ?]]]]; try discriminate Ha.
    apply andb_true_iff in Ha as [Hp Hc]. rewrite Hp. cbn [andb].
    unfold C15_Seam.uax29_agree, in_g15 in Hu. rewrite He, Hgg in Hu. cbn [negb andb] in Hu.
    apply andb_true_iff in Hu as [_ Hw]. cbn [out_words_ok] in Hw.
    apply all2_step_u; assumption. }
  split; [exact A|apply check_run_l; exact A].
Qed.

(** * J. one call, exactly: every outcome is the segmentation of its text iff every edit the
    call can make has glued seams *)
Lemma call_stable_iff_l c cd cs w ex l :
  tabs_ok c = true -> segment (concat w) = w -> outcomes c cd cs w ex = Some l ->
  (call_safe c cd cs w ex = true <-> forall o, In o l -> segment (concat (fst o)) = fst o).
Proof.
  intros Ht Ew Ho. unfold outcomes in Ho. unfold call_safe.
  destruct (choices c cd cs w ex) as [ks|] eqn:E; [|discriminate]. cbn [option_map] in Ho. injection Ho as <-.
  rewrite forallb_forall. split.
  - intros H o Hin. apply in_map_iff in Hin as (k & <- & Hk). cbn [apply_ed fst].
    apply (edit_stable_iff_l k w Ew); [|exact (H k Hk)].
    exact (valid_ed_str_ok c w ex k Ht (choices_valid c cd cs w ex ks k E Hk)).
  - intros H k Hk. apply (edit_stable_iff_l k w Ew).
    + exact (valid_ed_str_ok c w ex k Ht (choices_valid c cd cs w ex ks k E Hk)).
    + apply (H (apply_ed w ex k)). apply in_map. exact Hk.
Qed.

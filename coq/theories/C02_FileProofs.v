(** C02 / C03 / C04 composed with the MessagePack model: a tokenizer built from a merge FILE.
    [BPETokenizer::new] = [MergeOps::load] (model: [mp_parse], later entry wins), [retain(id < limit)], the reverse
    table [sorted_by_key(id)], and [HashMap::get] in the merge loop.  The tokenizer models take a table in id order
    ([lookup] = position, [eff_table] = [firstn]); here: when [load_table] says [Loaded tbl], the loaded map IS that
    table — [get] is [lookup], [retain] is [firstn] — so the theorems of C02 hold of the tokenizer built from the file. *)
From TU Require Import Base BPE_Model C02_Model C02_Inv C02_Proofs C02_Check MsgPack_Model MsgPack_Codec MsgPack_Stream
  MsgPack_Map MsgPack_Tie C02_File C03_Model C03_File.
From Coq Require Import Lia ZifyBool ZifyNat ZifyN Permutation.
Open Scope N_scope.
Arguments N.add : simpl never.
Arguments N.ltb : simpl never.

(** ** [HashMap::get] of the loaded map = [lookup] in the table *)
Lemma lookup_from_spec : forall tbl s k i, NoDup tbl ->
  (lookup_from tbl s k = Some i <-> exists j, i = s + N.of_nat j /\ nth_error tbl j = Some k).
Proof.
  induction tbl as [|t tbl IH]; intros s k i Hnd; cbn [lookup_from].
  - split; [discriminate|]. intros (j & _ & H). destruct j; discriminate.
  - inversion Hnd as [|? ? Hn1 Hn2]; subst. destruct (nlist_eqb t k) eqn:E.
    + apply nl_eqb_iff in E. subst t. split.
      * intros H. injection H as <-. exists 0%nat. split; [lia|reflexivity].
      * intros ([|j] & -> & H); [f_equal; lia|]. cbn [nth_error] in H. apply nth_error_In in H. contradiction.
    + rewrite (IH (N.succ s) k i Hn2). split.
      * intros (j & -> & H). exists (S j). split; [lia|exact H].
      * intros ([|j] & -> & H); [cbn [nth_error] in H; injection H as ->; rewrite nl_eqb_refl in E; discriminate|].
        exists j. split; [lia|exact H].
Qed.

Lemma lookup_spec tbl k i : NoDup tbl ->
  (lookup tbl k = Some i <-> exists j, i = N.of_nat j /\ nth_error tbl j = Some k).
Proof.
  intros Hnd. unfold lookup. rewrite (lookup_from_spec tbl 0 k i Hnd). split; intros (j & -> & H); exists j; split; try lia; exact H.
Qed.

Theorem load_get_lookup_l bs tbl : load_table bs = Loaded tbl ->
  exists es rest, mp_parse bs = Some (es, rest) /\ NoDup tbl /\ forall k, fm_get es k = lookup tbl k.
Proof.
  intros H. destruct (load_table_sound_l _ _ H) as (es & rest & Hp & _ & Hnd & Hget).
  exists es, rest. split; [exact Hp|]. split; [exact Hnd|]. intros k.
  destruct (fm_get es k) as [i|] eqn:E.
  - symmetry. apply (lookup_spec tbl k i Hnd). apply Hget. exact E.
  - destruct (lookup tbl k) as [i|] eqn:E2; [|reflexivity]. apply (lookup_spec tbl k i Hnd) in E2. apply Hget in E2. congruence.
Qed.

Lemma nth_error_firstn_lt {A} : forall (l : list A) n j, (j < n)%nat -> nth_error (firstn n l) j = nth_error l j.
Proof.
  induction l as [|x l IH]; intros n j H; [rewrite firstn_nil; reflexivity|].
  destruct n as [|n]; [lia|]. destruct j as [|j]; [reflexivity|]. cbn [firstn nth_error]. apply IH. lia.
Qed.

Lemma nodup_app_l {A} (a b : list A) : NoDup (a ++ b) -> NoDup a.
Proof.
  induction a as [|x a IH]; intros H; [constructor|]. cbn [app] in H. inversion H as [|? ? H1 H2]; subst.
  constructor; [intros Hin; apply H1; apply in_or_app; left; exact Hin|apply IH; exact H2].
Qed.

(** [merge_ops.retain(|_, id| id < limit)] on the loaded map = the first [limit] entries of the table *)
Theorem retain_firstn_l tbl lim k : NoDup tbl ->
  match lookup tbl k with Some i => if i <? lim then Some i else None | None => None end
  = lookup (firstn (N.to_nat lim) tbl) k.
Proof.
  intros Hnd. assert (Hnd' : NoDup (firstn (N.to_nat lim) tbl)).
  { rewrite <- (firstn_skipn (N.to_nat lim) tbl) in Hnd. apply nodup_app_l in Hnd. exact Hnd. }
  destruct (lookup (firstn (N.to_nat lim) tbl) k) as [i|] eqn:E.
  - apply (lookup_spec _ k i Hnd') in E. destruct E as (j & -> & Hj).
    assert (Hjl : (j < N.to_nat lim)%nat).
    { assert (Hj' : (j < length (firstn (N.to_nat lim) tbl))%nat) by (apply nth_error_Some; congruence).
      rewrite firstn_length in Hj'. lia. }
    rewrite nth_error_firstn_lt in Hj by exact Hjl.
    assert (E : lookup tbl k = Some (N.of_nat j)). { apply (lookup_spec _ k _ Hnd). exists j. split; [reflexivity|exact Hj]. }
    rewrite E. destruct (N.of_nat j <? lim) eqn:E2; [reflexivity|lia].
  - destruct (lookup tbl k) as [i|] eqn:E2; [|reflexivity]. destruct (i <? lim) eqn:E3; [|reflexivity].
    exfalso. apply (lookup_spec _ k i Hnd) in E2. destruct E2 as (j & -> & Hj).
    assert (E4 : lookup (firstn (N.to_nat lim) tbl) k = Some (N.of_nat j)).
    { apply (lookup_spec _ k _ Hnd'). exists j. split; [reflexivity|]. rewrite nth_error_firstn_lt by lia. exact Hj. }
    congruence.
Qed.

(** ** the tokenizer built from a file *)
Lemma v_table_rt tbl : v_table (table_val tbl) = tbl.
Proof.
  unfold v_table, table_val. unfold list_v at 1. cbn [v_list]. rewrite map_map.
  induction tbl as [|x tbl IH]; cbn [map]; [reflexivity|]. rewrite IH. unfold v_bytes. rewrite v_list_list_v. reflexivity.
Qed.

Lemma in_file_some v fb : in_file v = Some fb -> exists x r, v = L (x :: r).
Proof.
  unfold in_file. destruct v as [z|[|x r]]; cbn [v_nth nth]; try discriminate. intros _. exists x, r. reflexivity.
Qed.

Lemma with_table_config v fb tbl : in_file v = Some fb ->
  v_config (with_table v tbl) = Cfg tbl (c_max (v_config v)) (c_toks (v_config v)) (c_prefix (v_config v)) (c_suffix (v_config v))
  /\ v_nth 5 (with_table v tbl) = v_nth 5 v.
Proof.
  intros H. destruct (in_file_some _ _ H) as (x & r & ->). cbn [with_table]. unfold v_config. cbn [v_nth nth c_max c_toks c_prefix c_suffix].
  rewrite v_table_rt. split; reflexivity.
Qed.

Theorem check_run_f_l v : Forall valid_cp (v_str (v_nth 5 v)) -> check_C02f v (run_C02f v) = true.
Proof.
  intros Hs. unfold check_C02f, run_C02f. destruct (in_file v) as [fb|] eqn:Ef.
  - destruct (load_table fb) as [|items|tbl] eqn:El; try reflexivity.
    destruct (with_table_config v fb tbl Ef) as [_ H5].
    assert (Hr : strip_file (run_C02 (with_table v tbl)) = run_C02 (with_table v tbl)).
    { unfold run_C02. destruct (bpe_tokenize _ _); reflexivity. }
    rewrite Hr. rewrite check_run_l by (rewrite H5; exact Hs). apply orb_true_r.
  - assert (Hr : strip_file (run_C02 v) = run_C02 v). { unfold run_C02. destruct (bpe_tokenize _ _); reflexivity. }
    rewrite Hr. apply check_run_l. exact Hs.
Qed.

Theorem check_sound_f_l v out fb tbl : in_file v = Some fb -> load_table fb = Loaded tbl ->
  config_ok (v_config (with_table v tbl)) = true -> out <> L [] -> check_C02f v out = true ->
  c_tbl (v_config (with_table v tbl)) = tbl /\
  exists ids vs, strip_file out = L [list_v n_v ids; L [list_v n_v (utf8s (strip_trailing_ws (v_str (v_nth 5 v))))]; vs] /\
                 Forall (fun id => id < vocab_size (v_config (with_table v tbl))) ids.
Proof.
  intros Ef El Hc Hne H. unfold check_C02f in H. rewrite Ef, El in H.
  assert (H0 : is_ctor_error out = false). { destruct out as [z|[|x r]]; try reflexivity. congruence. }
  rewrite H0 in H. cbn [orb] in H.
  destruct (with_table_config v fb tbl Ef) as [Hcfg H5]. split; [rewrite Hcfg; reflexivity|].
  destruct (check_C02_sound_l _ _ Hc H) as (ids & vs & E & Hids). rewrite H5 in E. exists ids, vs. split; assumption.
Qed.

(** lossless for the tokenizer built from any file the loader model accepts as a table *)
Theorem file_lossless_l fb tbl c s : load_table fb = Loaded tbl -> c_tbl c = tbl ->
  Forall valid_cp s -> config_ok c = true ->
  exists ids, bpe_tokenize c s = Some ids /\
    bpe_decode (eff_table c) ids = utf8s (strip_trailing_ws s) /\
    Forall (fun id => id < vocab_size c) ids.
Proof. intros _ _ Hs Hc. apply bpe_lossless_l; assumption. Qed.

(** ** what an accepted correspondence says about the file (C02, C03) *)
Theorem agree_saved_sound_l v m a b c fb lv : in_file v = None -> agree_C02f v m (L [a; b; c; fb; lv]) = true ->
  m = L [a; b; c] /\
  exists es, v_list v_n fb = mp_encode es /\ mp_parse (v_list v_n fb) = Some (es, []) /\
             Permutation es (entries_of_table (v_table (v_nth 0 v))) /\
             load_table (v_list v_n fb) = Loaded (v_table (v_nth 0 v)) /\ v_entries lv = sort_items es.
Proof.
  intros Ef H. assert (H' : val_eqb m (L [a; b; c]) && file_fields_agree v fb lv = true).
  { unfold agree_C02f in H. destruct a as [z|l]; [|exact H]. destruct z as [| |p]; [exact H|exact H|].
    destruct p as [p|p|]; [exact H|destruct p; exact H|exact H]. }
  apply andb_true_iff in H'. destruct H' as [H1 H2]. split; [apply val_eqb_eq; exact H1|].
  unfold file_fields_agree in H2. rewrite Ef in H2.
  destruct (saved_agree_sound_l _ _ _ H2) as (es & E1 & E2 & E3 & _ & _ & E6 & E7). exists es. repeat split; assumption.
Qed.

Theorem agree_C03f_sound_l v m a fb lv : agree_C03f v m (L [a; fb; lv]) = true ->
  m = L [a] /\
  exists es, v_list v_n fb = mp_encode es /\ mp_parse (v_list v_n fb) = Some (es, []) /\
             Permutation es (entries_of_table (v_table (v_nth 0 v))) /\
             load_table (v_list v_n fb) = Loaded (v_table (v_nth 0 v)) /\ v_entries lv = sort_items es.
Proof.
  unfold agree_C03f. intros H. apply andb_true_iff in H. destruct H as [H1 H2]. split; [apply val_eqb_eq; exact H1|].
  destruct (saved_agree_sound_l _ _ _ H2) as (es & E1 & E2 & E3 & _ & _ & E6 & E7). exists es. repeat split; assumption.
Qed.


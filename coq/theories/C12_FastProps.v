(** C12 fast model — pinned statements (closed under the global context): the binary-number dynamic
    programme of C12_Fast.v, which is what the extracted model runs, computes exactly the functions of
    C12_Model.v, so every theorem of C12_Props.v is a theorem about the functions that are run. *)
From TU Require Import Base C12_Model C12_Proofs C12_Fast C12_FastRun.
From Coq Require Import NArith QArith.

(** ** the fast functions are the model's, for all character lists and all flag combinations *)
Theorem dist_fast_eq : forall fl a b, dist_f fl a b = N.of_nat (dist fl a b).
Proof. exact dist_f_eq. Qed.
Print Assumptions dist_fast_eq.

Theorem prefix_dist_fast_eq : forall fl a b, prefix_dist_f fl a b = N.of_nat (prefix_dist fl a b).
Proof. exact prefix_dist_f_eq. Qed.
Print Assumptions prefix_dist_fast_eq.

(** the rationals (normalised or not) are equal as fractions, numerator and denominator (Leibniz) *)
Theorem distance_fast_eq : forall fl nm a b, distance_f fl nm a b = distance fl nm a b.
Proof. exact distance_f_eq. Qed.
Print Assumptions distance_fast_eq.

Theorem prefix_distance_fast_eq : forall fl nm a b, prefix_distance_f fl nm a b = prefix_distance fl nm a b.
Proof. exact prefix_distance_f_eq. Qed.
Print Assumptions prefix_distance_fast_eq.

Theorem distances_fast_eq : forall fl nm la lb, distances_f fl nm la lb = distances fl nm la lb.
Proof. exact distances_f_eq. Qed.
Print Assumptions distances_fast_eq.

(** the op matrix built without costs is the op matrix of the model, and the script is the same script
    (tie-breaking included; the error value [None] in the same cases, i.e. never) *)
Theorem matrix_ops_fast_eq : forall fl a b, matrix_ops_f fl a b = map (map snd) (matrix fl a b).
Proof. exact matrix_ops_f_eq. Qed.
Print Assumptions matrix_ops_fast_eq.

Theorem operations_fast_eq : forall fl a b, operations_f fl a b = operations fl a b.
Proof. exact operations_f_eq. Qed.
Print Assumptions operations_fast_eq.

(** the one-pass computation the extracted model actually calls *)
Theorem core_fast_eq : forall fl a b,
  core_f fl a b = (N.of_nat (dist fl a b), N.of_nat (prefix_dist fl a b), operations fl a b).
Proof. exact core_f_eq. Qed.
Print Assumptions core_fast_eq.

(** ** transfer: the pinned theorems, stated directly about the functions that are run *)
Theorem dist_fast_metric : forall fl a b,
  Align fl a b (N.to_nat (dist_f fl a b))
  /\ forall n, Align fl a b n -> (dist_f fl a b <= N.of_nat n)%N.
Proof. exact dist_f_metric. Qed.
Print Assumptions dist_fast_metric.

Theorem operations_fast_spec : forall fl a b,
  exists ops, operations_f fl a b = Some ops
    /\ sortedb ops = true /\ script_ok fl ops a b = true
    /\ N.of_nat (length ops) = dist_f fl a b.
Proof. exact operations_f_spec. Qed.
Print Assumptions operations_fast_spec.

(** ** val level, rational model: same output val, same verdict of the executable statement
    (whose prefix clause now reads the last row instead of one matrix per prefix) *)
Theorem run_fast_eq : forall v, run_C12_fast v = run_C12 v.
Proof. exact run_C12_fast_eq. Qed.
Print Assumptions run_fast_eq.

Theorem check_fast_eq : forall v out, check_C12_fast v out = check_C12 v out.
Proof. exact check_C12_fast_eq. Qed.
Print Assumptions check_fast_eq.

(** ** non-vacuity / sanity: "ab" -> "ba" and a longer pair, computed by the fast functions *)
Definition fx (l : list N) : list cluster := singletons l.
Example dist_fast_swap :
  (dist_f (Flags true false) (fx [97;98]%N) (fx [98;97]%N), dist_f (Flags false false) (fx [97;98]%N) (fx [98;97]%N))
  = (1, 2)%N.
Proof. vm_compute. reflexivity. Qed.
Example core_fast_example :
  core_f (Flags true true) (fx [97;32;98]%N) (fx [97;98;32;99]%N)
  = (2%N, 1%N, Some [(EInsert, 1, 1); (EReplace, 2, 3)]%nat).
Proof. vm_compute. reflexivity. Qed.

(** C19 — pinned statements. Nothing but statements, [exact], and assumption audits. *)
From TU Require Import Base C19_Model C19_Proofs.

(** Pair replacement preserves each word's bytes. *)
Theorem replace_concat : forall (p : pair) (w : word), concat (replace_in_word p w) = concat w.
Proof. exact replace_concat_l. Qed.
Print Assumptions replace_concat.

(** C19 — pinned statements. Nothing but statements, [exact], and assumption audits. *)
From TU Require Import Base C19_Model C19_Proofs C19_Count C19_Check C19_Delta C19_NoDup C19_Lit C19_LitMaps C19_LitScan C19_LitProofs C19_LitRun
  MsgPack_Model C19_File C19_FileProofs.
From Coq Require Import Permutation.
Open Scope N_scope.

(** Pair replacement ([replace_pair_in_word]) preserves each word's bytes … *)
Theorem replace_concat : forall (p : pair) (w : word), concat (replace_in_word p w) = concat w.
Proof. exact replace_concat_l. Qed.
Print Assumptions replace_concat.

(** … hence every state of a run spells the same words with the same counts. *)
Theorem run_bytes : forall ps c,
  map (fun wk => (concat (fst wk), snd wk)) (state_after c ps) = map (fun wk => (concat (fst wk), snd wk)) c.
Proof. exact state_after_bytes. Qed.
Print Assumptions run_bytes.

(** Every accepted run (any tie-breaking) from a byte-level vocabulary gives a
    well-formed table: at most [k] entries (ids are the list positions 0..n-1),
    entry i is the concatenation of two tokens that are single bytes or earlier
    entries, and has at least two bytes. *)
Theorem run_table_wf : forall c k ps, CorpusOK [] c -> Run c k ps ->
  (length ps <= k)%nat /\
  forall i p, nth_error ps i = Some p ->
    TokOK (map merge (firstn i ps)) (fst p) /\ TokOK (map merge (firstn i ps)) (snd p)
    /\ (2 <= length (merge p))%nat.
Proof. exact run_table_wf_l. Qed.
Print Assumptions run_table_wf.

(** Entry i is an adjacent pair that occurs, with positive frequency, and no pair
    at all is more frequent in the corpus as segmented by entries 0..i-1. *)
Theorem run_entry_max : forall c k ps, Run c k ps ->
  forall i p, nth_error ps i = Some p -> StepOK (state_after c (firstn i ps)) p.
Proof. exact run_entry_max_l. Qed.
Print Assumptions run_entry_max.

(** A run is shorter than the budget only if no pair with positive frequency is left. *)
Theorem run_short_exhausted : forall c k ps, Run c k ps -> (length ps < k)%nat -> Exhausted (state_after c ps).
Proof. exact run_short_exhausted_l. Qed.
Print Assumptions run_short_exhausted.

(** The boolean step/exhaustion tests are the Prop-level notions. *)
Theorem step_ok_spec : forall c p, step_okb c p = true <-> StepOK c p.
Proof. exact step_okb_spec. Qed.
Print Assumptions step_ok_spec.
Theorem exhausted_spec : forall c, exhaustedb c = true <-> Exhausted c.
Proof. exact exhaustedb_spec. Qed.
Print Assumptions exhausted_spec.

(** The executable acceptance test used on the implementation's table is exactly
    the run relation (sound and complete, so it never raises a false alarm on a
    table some tie-breaking could have produced). *)
Theorem accepts_sound : forall es c k, accepts c k es = true -> exists ps, Run c k ps /\ map merge ps = es.
Proof. exact accepts_sound_l. Qed.
Print Assumptions accepts_sound.
Theorem accepts_complete : forall c k ps, Run c k ps -> accepts c k (map merge ps) = true.
Proof. exact accepts_complete_l. Qed.
Print Assumptions accepts_complete.

(** The deterministic trainer of the model (first maximal pair) is an accepted run. *)
Theorem train_run : forall k c, Run c k (train k c).
Proof. exact train_run_l. Qed.
Print Assumptions train_run.

(** Word counting: the folded map holds, for every word, its number of
    occurrences in all lines … *)
Theorem count_lookup : forall ls x, lookup (count_all ls) x = occ x (concat ls).
Proof. exact lookup_count_all_l. Qed.
Print Assumptions count_lookup.

(** … so counts and pair frequencies are invariant under every permutation and
    every regrouping of the lines (arrival order, batches per thread) … *)
Theorem count_schedule_free : forall ls ls', Permutation (concat ls) (concat ls') ->
  (forall w, lookup (count_all ls) w = lookup (count_all ls') w) /\
  (forall p, pair_freq (corpus_of (count_all ls)) p = pair_freq (corpus_of (count_all ls')) p).
Proof. exact count_schedule_free_l. Qed.
Print Assumptions count_schedule_free.

(** … and the set of accepted runs (tables) is the same. *)
Theorem train_schedule_free : forall ls ls', Permutation (concat ls) (concat ls') ->
  forall k ps, Run (corpus_of (count_all ls)) k ps <-> Run (corpus_of (count_all ls')) k ps.
Proof. exact train_schedule_free_l. Qed.
Print Assumptions train_schedule_free.

(** The counting pool (any number of workers, any channel capacity, any
    schedule): when the fold has ended each line has been received exactly once; *)
Theorem pool_terminal : forall cap lines threads s, pool_reach cap (pool_init lines threads) s ->
  pool_done s -> Permutation (recv s) lines.
Proof. exact pool_terminal_l. Qed.
Print Assumptions pool_terminal.

(** no reachable state is stuck before that (>= 1 worker, capacity >= 1); *)
Theorem pool_progress : forall cap lines threads s, (0 < cap)%nat -> (0 < threads)%nat ->
  pool_reach cap (pool_init lines threads) s -> ~ pool_done s -> exists t, pool_step cap s t.
Proof. exact pool_progress_l. Qed.
Print Assumptions pool_progress.

(** every schedule is finite; *)
Theorem pool_finite : forall cap s t, pool_step cap s t -> (pool_measure t < pool_measure s)%nat.
Proof. exact pool_step_decreases. Qed.
Print Assumptions pool_finite.

(** and the accepted runs do not depend on the schedule. *)
Theorem pool_run : forall cap lines threads s, pool_reach cap (pool_init lines threads) s -> pool_done s ->
  forall k ps, Run (corpus_of (count_all (recv s))) k ps <-> Run (corpus_of (count_all lines)) k ps.
Proof. exact pool_run_l. Qed.
Print Assumptions pool_run.

(** The executable statement evaluated on every implementation output holds of
    the model's own output … *)
Theorem check_run : forall v, wf_input v -> check_C19 v (run_C19 v) = true.
Proof. exact check_run_l. Qed.
Print Assumptions check_run.

(** … and whenever it holds of an output, the table in that output is the table
    of an accepted run, with everything the theorems above say about runs:
    ids exactly 0..n-1, n <= num_merges, entry i a positive maximal pair of the
    state after entries 0..i-1 built from bytes or earlier entries, and short
    only if the corpus is exhausted. *)
Theorem checked_table : forall v out, check_C19 v out = true ->
  out_ids out = map Z.of_nat (seq 0 (length (out_entries out))) /\
  exists ps, map merge ps = out_entries out /\ (length ps <= num_merges v)%nat /\
    (forall i p, nth_error ps i = Some p ->
       StepOK (state_after (in_corpus v) (firstn i ps)) p /\
       TokOK (firstn i (out_entries out)) (fst p) /\ TokOK (firstn i (out_entries out)) (snd p) /\
       (2 <= length (merge p))%nat) /\
    ((length ps < num_merges v)%nat -> Exhausted (state_after (in_corpus v) ps)).
Proof. exact checked_table_l. Qed.
Print Assumptions checked_table.

(** The incremental statistics (stretch goal of DESIGN 7/C19).  Per changed word:
    walking the old word ([old_scan], decrements) and the new word ([new_scan],
    increments) as [update_stats] does turns the word's pair-occurrence counts
    ([BytePairInfo::words], weight 1) into the recount of the new word — provided
    the merged token is new in that word and tokens are non-empty. *)
Theorem update_delta : forall (p : pair) w, fst p <> [] -> snd p <> [] -> ~ In (merge p) w ->
  forall q, upd_word p w 1 (fupd (fun x => count_pair x (word_pairs w)) p 0) q
            = count_pair q (word_pairs (replace_in_word p w)).
Proof. exact update_delta_l. Qed.
Print Assumptions update_delta.

(** Whole vocabulary: [replace_pair] + [update_stats] applied to recounted
    frequencies give the recounted frequencies of the new vocabulary (truncated
    subtraction never saturates except on the merged pair itself), and visiting
    only the words listed for the pair gives the same vocabulary as replacing everywhere. *)
Theorem update_recount : forall c p, Fresh c p ->
  (forall q, upd_freq c p (pair_freq c) q = pair_freq (apply_pair c p) q) /\ upd_vocab c p = apply_pair c p.
Proof. exact update_recount_l. Qed.
Print Assumptions update_recount.

(** Different merges of one run never spell the same token (so the hash map of
    the implementation gets ids exactly 0..n-1), for every run from a byte-level
    vocabulary in which each pair merely occurs when it is merged.  Invariant: every
    token-aligned span segments in isolation exactly as in context ([span_inv]). *)
Theorem run_nodup : forall c k ps, CorpusOK [] c -> Run c k ps -> NoDup (map merge ps).
Proof. exact run_nodup_l. Qed.
Print Assumptions run_nodup.

(** The table of every accepted run is a well-formed merge table in the sense of
    C02/C03/C04 ([TableOK]: distinct entries of at least two bytes) … *)
Theorem run_table_ok : forall c k ps, CorpusOK [] c -> Run c k ps ->
  NoDup (map merge ps) /\ Forall (fun e => (2 <= length e)%nat) (map merge ps).
Proof. exact run_table_ok_l. Qed.
Print Assumptions run_table_ok.

(** … and so is every implementation table that passes the check. *)
Theorem checked_table_ok : forall v out, check_C19 v out = true ->
  NoDup (out_entries out) /\ Forall (fun e => (2 <= length e)%nat) (out_entries out).
Proof. exact checked_table_ok_l. Qed.
Print Assumptions checked_table_ok.

(** The merged token is new at every step of a run (the premise of [update_recount]) … *)
Theorem run_fresh : forall c k ps, CorpusOK [] c -> Run c k ps ->
  forall i p, nth_error ps i = Some p -> Fresh (state_after c (firstn i ps)) p.
Proof. exact run_fresh_full_l. Qed.
Print Assumptions run_fresh.

(** … hence every run of the incremental trainer (the loop of [train_bpe] on
    vocabulary + statistics, any choice among the pairs whose recorded frequency is
    positive and maximal) started on the recounted statistics of a byte-level
    vocabulary is an accepted run of the recount specification. *)
Theorem inc_refines : forall c k ps, CorpusOK [] c -> IRun c (pair_freq c) k ps -> Run c k ps.
Proof. exact inc_refines_full_l. Qed.
Print Assumptions inc_refines.

(** Non-vacuity.  Corpus "ab ab", 64 merges: the run [ab; " ab"] is accepted and
    stops early because the corpus is exhausted; the table the pinned tree wrote
    (defect D8: {" ab":1, ab:63}) is rejected. *)
Definition ex_in : val :=
  L [I 320; I 0; I 0; I 0; L []; L []; L [L [L [I 97; I 98; I 32; I 97; I 98]]]; I 1; L []]%Z.
Example ex_corpus : in_corpus ex_in = [([[97]; [98]], 1); ([[32]; [97]; [98]], 1)].
Proof. vm_compute. reflexivity. Qed.
Example ex_accepts : accepts (in_corpus ex_in) (num_merges ex_in) [[97; 98]; [32; 97; 98]] = true.
Proof. vm_compute. reflexivity. Qed.
Example ex_too_short : accepts (in_corpus ex_in) (num_merges ex_in) [[97; 98]] = false.
Proof. vm_compute. reflexivity. Qed.
Example ex_wf : wf_input ex_in.
Proof. constructor. Qed.
Example ex_d8_rejected :
  ids_from 0 (out_ids (L [L [L [I 1; L [I 32; I 97; I 98]]; L [I 63; L [I 97; I 98]]]]%Z)) = false.
Proof. vm_compute. reflexivity. Qed.
(** an overlapping pair: "aaa" holds (a,a) twice, replacement yields [aa; a] *)
Example ex_overlap : pair_freq [([[97]; [97]; [97]], 1)] ([97], [97]) = 2
  /\ replace_in_word ([97], [97]) [[97]; [97]; [97]] = [[97; 97]; [97]].
Proof. vm_compute. split; reflexivity. Qed.
(** [Fresh] is satisfiable, and it is needed: if the merged token already occurs in
    the word ([ab; c; a; b], merging (a,b)), the new-word scan counts (ab,c) twice. *)
Example ex_fresh : Fresh [([[97]; [98]], 1)] ([97], [98]).
Proof.
  split; [discriminate|]. split; [discriminate|]. intros w k [H|[]] Hin. injection H as <- <-.
  cbn in Hin. destruct Hin as [H|[H|[]]]; discriminate.
Qed.
Example ex_fresh_needed :
  let w := [[97; 98]; [99]; [97]; [98]] in let p := ([97], [98]) in
  upd_word p w 1 (fupd (fun x => count_pair x (word_pairs w)) p 0) ([97; 98], [99]) = 2
  /\ count_pair ([97; 98], [99]) (word_pairs (replace_in_word p w)) = 1.
Proof. vm_compute. split; reflexivity. Qed.
(** the incremental trainer has runs: one step on the vocabulary {ab} *)
Example ex_irun : IRun [([[97]; [98]], 1)] (pair_freq [([[97]; [98]], 1)]) 1 [([97], [98])].
Proof.
  apply IRun_step.
  - vm_compute. reflexivity.
  - intros q. pose proof (max_freq_ge [([[97]; [98]], 1)] q) as H.
    replace (pair_freq [([[97]; [98]], 1)] ([97], [98])) with (max_freq [([[97]; [98]], 1)]) by (vm_compute; reflexivity).
    exact H.
  - apply IRun_budget.
Qed.

(** * The literal model of the statistics (C19_Lit.v): the two-level hash map
    [HashMap<BytePair, BytePairInfo { freq, words : HashMap<usize, usize> }>] as an
    association list with [get_mut] / [entry().and_modify().or_insert()] lookups,
    the error exits and index arithmetic of [update_stats] written out, any
    iteration order of the maps.

    The two index-based [while] loops of [update_stats] ([find_position], [usize]
    subtractions [len - 1], [len - 2], [len - 3], [i - 1], slice indexing) perform
    exactly the decrements listed by [old_scan] and then the increments listed by
    [new_scan], in that order: no subtraction underflows, no index is out of range,
    the loop bound of the model is not reached — for every word, every pair and
    every statistics value (the only failures left are the two [ok_or_else] exits
    inside [dec_all_lit]). *)
Theorem scans_lit : forall p st idx old nw k,
  one_change p st (idx, old, nw, k) =
  (st1 <- dec_all_lit (old_scan p None old) idx k st ;; Ok (add_all_lit (new_scan (merge p) None nw) idx k st1)).
Proof. exact one_change_scan. Qed.
Print Assumptions scans_lit.

(** [byte_pair_stats] establishes the representation invariant: distinct keys at
    both levels, word indices in range, every [freq] the recount [pair_freq] of the
    vocabulary and every occurrence counter the number of occurrences of the pair
    in that word (absent = 0). *)
Theorem rep_init : forall c, Rep c (byte_pair_stats_lit c).
Proof. exact rep_init_l. Qed.
Print Assumptions rep_init.

(** [replace_pair] under the invariant, for a key of the statistics: it does not
    panic, rewrites the vocabulary to [apply_pair c p] (skipping the words whose
    counter is < 1 loses nothing), and [changes] lists exactly the words in which
    the pair occurs, each once, with the old word and its replacement. *)
Theorem replace_pair_lit_ok : forall c st p, Rep c st -> st_get st p <> None ->
  exists chs, replace_pair_lit c p st = Ok (apply_pair c p, chs) /\ NoDup (map ch_idx chs) /\
    (forall idx w nw k, In (idx, w, nw, k) chs <->
       nth_error c idx = Some (w, k) /\ nw = replace_in_word p w /\ 0 < count_pair p (word_pairs w)).
Proof. exact replace_pair_lit_ok_p. Qed.
Print Assumptions replace_pair_lit_ok.

(** [replace_pair] + [update_stats] under the invariant, for a fresh pair with
    positive recorded frequency: NO error exit is taken ("pair not found", "word not
    found", no panic), and the invariant holds of the new vocabulary — so no
    [saturating_sub] clipped anything but the merged pair's own (zeroed) entry. *)
Theorem update_lit_ok : forall c st p, Rep c st -> Fresh c p -> 0 < abs_freq st p ->
  exists chs st', replace_pair_lit c p st = Ok (apply_pair c p, chs) /\
    update_stats_lit st p chs = Ok st' /\ Rep (apply_pair c p) st'.
Proof. exact update_lit_ok_l. Qed.
Print Assumptions update_lit_ok.

(** The invariant does not depend on the iteration order of either map level. *)
Theorem rep_sperm : forall c st st1, Rep c st -> sperm st st1 -> Rep c st1.
Proof. exact rep_sperm_l. Qed.
Print Assumptions rep_sperm.

(** [max_byte_pair] ([filter(freq > 0).max_by_key(freq)], last maximum in iteration
    order): [None] iff every recorded frequency is 0; otherwise a key whose recorded
    frequency is positive and maximal. *)
Theorem max_lit_none : forall st, max_byte_pair_lit st = None <-> (forall e, In e st -> fst (snd e) = 0).
Proof. exact max_lit_none_l. Qed.
Print Assumptions max_lit_none.
Theorem max_lit_some : forall st p, max_byte_pair_lit st = Some p ->
  exists f ws, In (p, (f, ws)) st /\ 0 < f /\ forall e, In e st -> fst (snd e) <= f.
Proof. exact max_lit_some_l. Qed.
Print Assumptions max_lit_some.
(** Under the invariant: [None] iff the vocabulary is exhausted; otherwise a pair
    the specification accepts. *)
Theorem max_lit_spec : forall c st, Rep c st ->
  (max_byte_pair_lit st = None <-> Exhausted c) /\
  (forall p, max_byte_pair_lit st = Some p -> StepOK c p /\ abs_freq st p = pair_freq c p).
Proof. exact max_lit_spec_l. Qed.
Print Assumptions max_lit_spec.

(** Every run of the literal loop of [train_bpe] from the statistics
    [byte_pair_stats] builds on a byte-level vocabulary — for every iteration
    order of the maps at every step, hence every tie-break and every order of
    [changes] — ends normally (no error exit, no panic) and is an accepted run of
    the recount specification. *)
Theorem train_lit_refines : forall c k o, CorpusOK [] c -> LRun c (byte_pair_stats_lit c) k o ->
  exists ps, o = Done ps /\ Run c k ps.
Proof. exact train_lit_refines_l. Qed.
Print Assumptions train_lit_refines.

(** … so the theorems about runs hold of the literal loop: *)
Theorem train_lit_table : forall c k o, CorpusOK [] c -> LRun c (byte_pair_stats_lit c) k o ->
  exists ps, o = Done ps /\ (length ps <= k)%nat /\ NoDup (map merge ps) /\
    (forall i p, nth_error ps i = Some p ->
       StepOK (state_after c (firstn i ps)) p /\
       TokOK (map merge (firstn i ps)) (fst p) /\ TokOK (map merge (firstn i ps)) (snd p) /\
       (2 <= length (merge p))%nat) /\
    ((length ps < k)%nat -> Exhausted (state_after c ps)).
Proof. exact train_lit_table_l. Qed.
Print Assumptions train_lit_table.

(** The deterministic instance (list order = iteration order) is such a run. *)
Theorem train_lit_ok : forall c k, CorpusOK [] c ->
  exists ps, train_lit k c (byte_pair_stats_lit c) = Done ps /\ Run c k ps.
Proof. exact train_lit_ok_l. Qed.
Print Assumptions train_lit_ok.

(** The replay of an observed training used by the correspondence ([replay]: the
    literal model driven by the pairs the implementation chose, every chosen pair
    positive and maximal in the model's statistics, every observed vocabulary and
    statistics equal to the model's) accepts only runs of the specification … *)
Theorem replay_sound : forall c k steps, CorpusOK [] c -> replay k c (byte_pair_stats_lit c) steps = true ->
  Run c k (map (fun s : ostep => fst (fst s)) steps).
Proof. exact replay_sound_l. Qed.
Print Assumptions replay_sound.

(** … so when the trace clause accepts an implementation output, the table in it is
    the table of an accepted run (the vocabulary entries being distinct),
    independently of the relational test [accepts]. *)
Theorem trace_ok_sound : forall v out, NoDup (in_corpus v) -> trace_ok v out = true ->
  exists ps, Run (in_corpus v) (num_merges v) ps /\ map merge ps = out_entries out.
Proof. exact trace_ok_sound_l. Qed.
Print Assumptions trace_ok_sound.

(** Non-vacuity of the literal model.  Vocabulary {aaa:1, abab:2, abcaba:3, b:1}. *)
Definition ex_lc : corpus :=
  [([[97]; [97]; [97]], 1); ([[97]; [98]; [97]; [98]], 2); ([[97]; [98]; [99]; [97]; [98]; [97]], 3); ([[98]], 1)].
Example ex_lit_init : byte_pair_stats_lit ex_lc =
  [(([97], [97]), (2, [(0%nat, 2)])); (([97], [98]), (10, [(1%nat, 2); (2%nat, 2)]));
   (([98], [97]), (5, [(1%nat, 1); (2%nat, 1)])); (([98], [99]), (3, [(2%nat, 1)])); (([99], [97]), (3, [(2%nat, 1)]))].
Proof. vm_compute. reflexivity. Qed.
(** merging (a,a) in "aaa": the merged pair itself is decremented by the look-ahead
    ([i >= len - 3]) — the one place where [saturating_sub] clips (at the zeroed entry) *)
Example ex_lit_saturate :
  match replace_pair_lit ex_lc ([97], [97]) (byte_pair_stats_lit ex_lc) with
  | Ok (c', chs) => (c', chs, update_stats_lit (byte_pair_stats_lit ex_lc) ([97], [97]) chs)
  | Err _ => ([], [], Err EFuel)
  end =
  ([([[97; 97]; [97]], 1); ([[97]; [98]; [97]; [98]], 2); ([[97]; [98]; [99]; [97]; [98]; [97]], 3); ([[98]], 1)],
   [(0%nat, [[97]; [97]; [97]], [[97; 97]; [97]], 1)],
   Ok [(([97], [97]), (0, [(0%nat, 0)])); (([97], [98]), (10, [(1%nat, 2); (2%nat, 2)]));
       (([98], [97]), (5, [(1%nat, 1); (2%nat, 1)])); (([98], [99]), (3, [(2%nat, 1)])); (([99], [97]), (3, [(2%nat, 1)]));
       (([97; 97], [97]), (1, [(0%nat, 1)]))]).
Proof. vm_compute. reflexivity. Qed.
Example ex_lit_train : train_lit 3 ex_lc (byte_pair_stats_lit ex_lc) =
  Done [([97], [98]); ([97; 98], [97]); ([99], [97; 98; 97])].
Proof. vm_compute. reflexivity. Qed.
(** the error exits are modelled and reachable when the invariant does not hold:
    statistics that lack the neighbour pair (x,a) / that lack the word index *)
Example ex_lit_pair_not_found :
  update_stats_lit [(([97], [98]), (1, [(0%nat, 1)]))] ([97], [98]) [(0%nat, [[120]; [97]; [98]], [[120]; [97; 98]], 1)]
  = Err EPairNotFound.
Proof. vm_compute. reflexivity. Qed.
Example ex_lit_word_not_found :
  update_stats_lit [(([97], [98]), (1, [(0%nat, 1)])); (([120], [97]), (1, [(7%nat, 1)]))] ([97], [98])
                   [(0%nat, [[120]; [97]; [98]], [[120]; [97; 98]], 1)]
  = Err EWordNotFound.
Proof. vm_compute. reflexivity. Qed.
(** iteration order matters for ties only: (a,b) and (c,d) both have frequency 1 *)
Example ex_lit_order :
  max_byte_pair_lit [(([97], [98]), (1, [(0%nat, 1)])); (([99], [100]), (1, [(1%nat, 1)]))] = Some ([99], [100]) /\
  max_byte_pair_lit [(([99], [100]), (1, [(1%nat, 1)])); (([97], [98]), (1, [(0%nat, 1)]))] = Some ([97], [98]).
Proof. vm_compute. split; reflexivity. Qed.
Example ex_lit_distinct : NoDup (in_corpus ex_in).
Proof. vm_compute. repeat constructor; cbn; intuition discriminate. Qed.

(** * The merge file inside the model (third session; MsgPack_Model.v, MsgPack_Props.v)
    [train_bpe] ends with [merge_ops.save(out_file)] = [rmp_serde::to_vec] of the [HashMap<Vec<u8>, u32>]
    {merge p_i : i}.  [mp_encode es] is that writer for the iteration order [es]; [mp_parse] / [load_table] the
    reader as [MergeOps::load] + [BPETokenizer::new] use it. *)

(** Every run of the literal loop (every iteration order of the statistics at every step) ends with a table whose
    FILE — for every order in which [save] may iterate the map, with any bytes behind it — is read back entry for
    entry and loads as exactly that table, keys in id order.  Premises beyond [train_lit_refines]: the words of the
    corpus are byte strings shorter than 2^32 and the merge budget is below 2^32 (the format writes the three
    lengths and the ids [as u32]). *)
Theorem trained_file : forall c k o, CorpusOK [] c -> CorpusBytes c -> N.of_nat k <= u32_max ->
  LRun c (byte_pair_stats_lit c) k o ->
  exists ps, o = Done ps /\ Run c k ps /\ NoDup (map merge ps) /\
    forall es junk, Permutation es (entries_of_table (map merge ps)) ->
      mp_parse (mp_encode es ++ junk) = Some (es, junk) /\
      load_table (mp_encode es ++ junk) = Loaded (map merge ps).
Proof. exact trained_file_l. Qed.
Print Assumptions trained_file.

(** The vocabulary [train_bpe] counts from text meets [CorpusBytes] when every word is text of scalar values whose
    UTF-8 is shorter than 2^32 bytes. *)
Theorem corpus_of_bytes : forall m : cmap,
  (forall w n, In (w, n) m -> Forall (fun ch => ch < 1114112) w /\ N.of_nat (length (utf8s w)) <= u32_max) ->
  CorpusBytes (corpus_of m).
Proof. exact corpus_of_bytes_l. Qed.
Print Assumptions corpus_of_bytes.

(** What the file clause of the correspondence ([file_agree_C19], field 7 of the implementation output = the bytes
    the real [train_bpe] wrote) means when it accepts: the bytes are [mp_encode] of the table's entries in some
    order with nothing behind them, they load as the table, and the real [MergeOps::load] read these entries. *)
Theorem file_agree_sound : forall i tv a1 a2 a3 a4 a5 a6 fb, i = L [tv; a1; a2; a3; a4; a5; a6; fb] ->
  file_agree_C19 i = true ->
  exists es, v_list v_n fb = mp_encode es /\ mp_parse (v_list v_n fb) = Some (es, []) /\
             Permutation es (entries_of_table (out_entries i)) /\ NoDup (out_entries i) /\
             load_table (v_list v_n fb) = Loaded (out_entries i) /\ v_entries tv = sort_items es.
Proof. exact file_agree_sound_l. Qed.
Print Assumptions file_agree_sound.

(** Non-vacuity: the corpus of [ex_lit_train] (3 merges), written in the order id 2, 0, 1. *)
Definition ex_lm : cmap := [([97; 97; 97], 1); ([97; 98; 97; 98], 2); ([97; 98; 99; 97; 98; 97], 3); ([98], 1)].
Example ex_file_premises : ex_lc = corpus_of ex_lm /\ CorpusOK [] ex_lc /\ CorpusBytes ex_lc /\ N.of_nat 3 <= u32_max.
Proof.
  assert (E : ex_lc = corpus_of ex_lm) by (vm_compute; reflexivity).
  split; [exact E|]. rewrite E. split; [apply corpus_of_ok|]. split; [|vm_compute; discriminate].
  apply corpus_of_bytes_l. intros w n Hin.
  repeat (destruct Hin as [H|Hin]; [injection H as <- <-; split; [repeat constructor|vm_compute; discriminate]|]). destruct Hin.
Qed.
Example ex_file_bytes :
  let es := [([99; 97; 98; 97], 2); ([97; 98], 0); ([97; 98; 97], 1)] in
  mp_encode es = [131; 148; 99; 97; 98; 97; 2; 146; 97; 98; 0; 147; 97; 98; 97; 1] /\
  load_table (mp_encode es) = Loaded [[97; 98]; [97; 98; 97]; [99; 97; 98; 97]] /\
  file_agree_C19 (L [L [L [I 0; L [I 97; I 98]]; L [I 1; L [I 97; I 98; I 97]]; L [I 2; L [I 99; I 97; I 98; I 97]]];
                     L []; I 0; L []; L []; L []; L []; list_v n_v (mp_encode es)]) = true.
Proof. vm_compute. repeat split; reflexivity. Qed.

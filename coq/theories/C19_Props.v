(** C19 — pinned statements. Nothing but statements, [exact], and assumption audits. *)
From TU Require Import Base C19_Model C19_Proofs C19_Count C19_Check.
From Coq Require Import Permutation.
Open Scope N_scope.

(** Pair replacement ([replace_pair_in_word]) preserves each word's bytes … *)
Theorem replace_concat : forall (p : pair) (w : word), concat (replace_in_word p w) = concat w.
Proof. exact replace_concat_l. Qed.
Print Assumptions replace_concat.

(** … hence every state of a run spells the same words with the same counts. *)
Theorem run_bytes : forall ps c,
  map (fun wk => (concat (fst wk), snd wk)) (state_after c ps) = map (fun wk => (concat (fst wk), snd wk)) c.
Proof. exact state_after_bytes. Qed.
Print Assumptions run_bytes.

(** Every accepted run (any tie-breaking) from a byte-level vocabulary gives a
    well-formed table: at most [k] entries (ids are the list positions 0..n-1),
    entry i is the concatenation of two tokens that are single bytes or earlier
    entries, and has at least two bytes. *)
Theorem run_table_wf : forall c k ps, CorpusOK [] c -> Run c k ps ->
  (length ps <= k)%nat /\
  forall i p, nth_error ps i = Some p ->
    TokOK (map merge (firstn i ps)) (fst p) /\ TokOK (map merge (firstn i ps)) (snd p)
    /\ (2 <= length (merge p))%nat.
Proof. exact run_table_wf_l. Qed.
Print Assumptions run_table_wf.

(** Entry i is an adjacent pair that occurs, with positive frequency, and no pair
    at all is more frequent in the corpus as segmented by entries 0..i-1. *)
Theorem run_entry_max : forall c k ps, Run c k ps ->
  forall i p, nth_error ps i = Some p -> StepOK (state_after c (firstn i ps)) p.
Proof. exact run_entry_max_l. Qed.
Print Assumptions run_entry_max.

(** A run is shorter than the budget only if no pair with positive frequency is left. *)
Theorem run_short_exhausted : forall c k ps, Run c k ps -> (length ps < k)%nat -> Exhausted (state_after c ps).
Proof. exact run_short_exhausted_l. Qed.
Print Assumptions run_short_exhausted.

(** The boolean step/exhaustion tests are the Prop-level notions. *)
Theorem step_ok_spec : forall c p, step_okb c p = true <-> StepOK c p.
Proof. exact step_okb_spec. Qed.
Print Assumptions step_ok_spec.
Theorem exhausted_spec : forall c, exhaustedb c = true <-> Exhausted c.
Proof. exact exhaustedb_spec. Qed.
Print Assumptions exhausted_spec.

(** The executable acceptance test used on the implementation's table is exactly
    the run relation (sound and complete, so it never raises a false alarm on a
    table some tie-breaking could have produced). *)
Theorem accepts_sound : forall es c k, accepts c k es = true -> exists ps, Run c k ps /\ map merge ps = es.
Proof. exact accepts_sound_l. Qed.
Print Assumptions accepts_sound.
Theorem accepts_complete : forall c k ps, Run c k ps -> accepts c k (map merge ps) = true.
Proof. exact accepts_complete_l. Qed.
Print Assumptions accepts_complete.

(** The deterministic trainer of the model (first maximal pair) is an accepted run. *)
Theorem train_run : forall k c, Run c k (train k c).
Proof. exact train_run_l. Qed.
Print Assumptions train_run.

(** Word counting: the folded map holds, for every word, its number of
    occurrences in all lines … *)
Theorem count_lookup : forall ls x, lookup (count_all ls) x = occ x (concat ls).
Proof. exact lookup_count_all_l. Qed.
Print Assumptions count_lookup.

(** … so counts and pair frequencies are invariant under every permutation and
    every regrouping of the lines (arrival order, batches per thread) … *)
Theorem count_schedule_free : forall ls ls', Permutation (concat ls) (concat ls') ->
  (forall w, lookup (count_all ls) w = lookup (count_all ls') w) /\
  (forall p, pair_freq (corpus_of (count_all ls)) p = pair_freq (corpus_of (count_all ls')) p).
Proof. exact count_schedule_free_l. Qed.
Print Assumptions count_schedule_free.

(** … and the set of accepted runs (tables) is the same. *)
Theorem train_schedule_free : forall ls ls', Permutation (concat ls) (concat ls') ->
  forall k ps, Run (corpus_of (count_all ls)) k ps <-> Run (corpus_of (count_all ls')) k ps.
Proof. exact train_schedule_free_l. Qed.
Print Assumptions train_schedule_free.

(** The counting pool (any number of workers, any channel capacity, any
    schedule): when the fold has ended each line has been received exactly once; *)
Theorem pool_terminal : forall cap lines threads s, pool_reach cap (pool_init lines threads) s ->
  pool_done s -> Permutation (recv s) lines.
Proof. exact pool_terminal_l. Qed.
Print Assumptions pool_terminal.

(** no reachable state is stuck before that (>= 1 worker, capacity >= 1); *)
Theorem pool_progress : forall cap lines threads s, (0 < cap)%nat -> (0 < threads)%nat ->
  pool_reach cap (pool_init lines threads) s -> ~ pool_done s -> exists t, pool_step cap s t.
Proof. exact pool_progress_l. Qed.
Print Assumptions pool_progress.

(** every schedule is finite; *)
Theorem pool_finite : forall cap s t, pool_step cap s t -> (pool_measure t < pool_measure s)%nat.
Proof. exact pool_step_decreases. Qed.
Print Assumptions pool_finite.

(** and the accepted runs do not depend on the schedule. *)
Theorem pool_run : forall cap lines threads s, pool_reach cap (pool_init lines threads) s -> pool_done s ->
  forall k ps, Run (corpus_of (count_all (recv s))) k ps <-> Run (corpus_of (count_all lines)) k ps.
Proof. exact pool_run_l. Qed.
Print Assumptions pool_run.

(** The executable statement evaluated on every implementation output holds of
    the model's own output … *)
Theorem check_run : forall v, wf_input v -> check_C19 v (run_C19 v) = true.
Proof. exact check_run_l. Qed.
Print Assumptions check_run.

(** … and whenever it holds of an output, the table in that output is the table
    of an accepted run, with everything the theorems above say about runs:
    ids exactly 0..n-1, n <= num_merges, entry i a positive maximal pair of the
    state after entries 0..i-1 built from bytes or earlier entries, and short
    only if the corpus is exhausted. *)
Theorem checked_table : forall v out, check_C19 v out = true ->
  out_ids out = map Z.of_nat (seq 0 (length (out_entries out))) /\
  exists ps, map merge ps = out_entries out /\ (length ps <= num_merges v)%nat /\
    (forall i p, nth_error ps i = Some p ->
       StepOK (state_after (in_corpus v) (firstn i ps)) p /\
       TokOK (firstn i (out_entries out)) (fst p) /\ TokOK (firstn i (out_entries out)) (snd p) /\
       (2 <= length (merge p))%nat) /\
    ((length ps < num_merges v)%nat -> Exhausted (state_after (in_corpus v) ps)).
Proof. exact checked_table_l. Qed.
Print Assumptions checked_table.

(** Non-vacuity.  Corpus "ab ab", 64 merges: the run [ab; " ab"] is accepted and
    stops early because the corpus is exhausted; the table the pinned tree wrote
    (defect D8: {" ab":1, ab:63}) is rejected. *)
Definition ex_in : val :=
  L [I 320; I 0; I 0; I 0; L []; L []; L [L [L [I 97; I 98; I 32; I 97; I 98]]]; I 1; L []]%Z.
Example ex_corpus : in_corpus ex_in = [([[97]; [98]], 1); ([[32]; [97]; [98]], 1)].
Proof. vm_compute. reflexivity. Qed.
Example ex_accepts : accepts (in_corpus ex_in) (num_merges ex_in) [[97; 98]; [32; 97; 98]] = true.
Proof. vm_compute. reflexivity. Qed.
Example ex_too_short : accepts (in_corpus ex_in) (num_merges ex_in) [[97; 98]] = false.
Proof. vm_compute. reflexivity. Qed.
Example ex_wf : wf_input ex_in.
Proof. constructor. Qed.
Example ex_d8_rejected :
  ids_from 0 (out_ids (L [L [L [I 1; L [I 32; I 97; I 98]]; L [I 63; L [I 97; I 98]]]]%Z)) = false.
Proof. vm_compute. reflexivity. Qed.
(** an overlapping pair: "aaa" holds (a,a) twice, replacement yields [aa; a] *)
Example ex_overlap : pair_freq [([[97]; [97]; [97]], 1)] ([97], [97]) = 2
  /\ replace_in_word ([97], [97]) [[97]; [97]; [97]] = [[97; 97]; [97]].
Proof. vm_compute. split; reflexivity. Qed.

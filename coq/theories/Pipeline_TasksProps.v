(** Pipeline, part 2 — pinned statements about the tasks ([train_task], src/data/task.rs) and the postprocessing
    ([postprocessing(cfg, max_length)], src/data/postprocessing.rs) as modelled in Pipeline_Tasks.v, and about the whole
    item path [pipeline_t] (preprocessing, task, postprocessing = the closure [train_pipeline] returns).
    Nothing but statements, [exact], audits. *)
From TU Require Import RNG_Model RNG_Proofs.
From TU Require Import Base C01_Model C10_Model C14_Model C14_Seeded JSON_Model.
From TU Require Import Pipeline_Model Pipeline_Tasks Pipeline_TasksProofs.
Local Open Scope nat_scope.

(** ** Generation (language modelling).  [ids] = the token ids of input ++ separator ++ target, [ml] = the number of
    tokens of input ++ separator without the suffix tokens (0 without prefix masking).  Whenever ml <= |ids|: the item
    holds ids without the last, ONE LABEL PER TOKEN ID, label j is the NEXT token (id j + 1 of the full sequence), and
    -1 exactly while that next token still belongs to the masked prefix. *)
Theorem gen_labels_aligned : forall mask b ign sep x ml ids,
  gen_mask_len mask b ign sep x = Some ml ->
  byte_tokenize b (it_in x ++ osep sep ++ it_tg x) ign = Some ids -> ml <= length ids ->
  task_gen mask b ign sep x = ROk (TIGen (removelast ids) (b_pad b) (gen_labels ml ids)) /\
  length (gen_labels ml ids) = length (removelast ids) /\
  (forall j, S j < length ids ->
     nth j (gen_labels ml ids) 0%Z = if S j <? ml then (-1)%Z else Z.of_N (nth (S j) ids 0%N)) /\
  (forall j, j < length (removelast ids) -> nth j (removelast ids) 0%N = nth j ids 0%N).
Proof. exact task_gen_aligned. Qed.
Print Assumptions gen_labels_aligned.

(** with special tokens ignored (ignore_special_tokens = true) the premise ml <= |ids| always holds and the task
    never fails: every item is aligned *)
Theorem gen_labels_aligned_ign : forall mask b sep x, exists ml ids,
  gen_mask_len mask b true sep x = Some ml /\
  ids = add_pre_suf b (utf8s (it_in x ++ osep sep ++ it_tg x)) /\ ml <= length ids /\
  task_gen mask b true sep x = ROk (TIGen (removelast ids) (b_pad b) (gen_labels ml ids)) /\
  length (gen_labels ml ids) = length (removelast ids).
Proof. exact task_gen_aligned_ign. Qed.
Print Assumptions gen_labels_aligned_ign.

(** the unconditional statement "one label per token id" is FALSE of the code as modelled: with special tokens not
    ignored, no suffix token and an input that ends inside a special token which the target completes (input "<b",
    target ">", special token "<b>") the masked prefix alone has more tokens than the whole text; the item then has
    two labels for one token id.  (Model and code agree on it: corpus/C08/tasks.case.) *)
Theorem gen_labels_aligned_refuted : exists ids pad labels,
  task_gen true misaligned_base false None (mk_item [60; 98]%N [62]%N) = ROk (TIGen ids pad labels) /\
  length labels <> length ids.
Proof. exact task_gen_misaligned. Qed.
Print Assumptions gen_labels_aligned_refuted.

Example gen_example :
  task_gen true {| b_off := 256; b_sv := []; b_pre := [256%N]; b_suf := [257%N]; b_pad := 258%N |} true (Some [32%N])
           (mk_item [97; 98]%N [99]%N)
  = ROk (TIGen [256; 97; 98; 32; 99]%N 258%N [-1; -1; -1; 99; 257]%Z).
Proof. vm_compute. reflexivity. Qed.

(** ** Conditional generation: the decoder input is the target ids without the last, one label per decoder input id,
    label j = target id j + 1 *)
Theorem cond_labels_aligned : forall bi ii bt it x ids tids,
  byte_tokenize bi (it_in x) ii = Some ids -> byte_tokenize bt (it_tg x) it = Some tids ->
  task_cond bi ii bt it x = ROk (TICond ids (b_pad bi) (removelast tids) (b_pad bt) (tl (zids tids))) /\
  length (tl (zids tids)) = length (removelast tids) /\
  (forall j, S j < length tids -> nth j (tl (zids tids)) 0%Z = Z.of_N (nth (S j) tids 0%N)).
Proof. exact task_cond_spec. Qed.
Print Assumptions cond_labels_aligned.

(** ** Classification: the label is the index of the target text among the classes (the LAST one if a class is listed
    twice); a target that is no class is an Err (the item is dropped) *)
Theorem class_label_spec : forall b ign cl x,
  match task_class b ign cl x with
  | ROk (TIClass ids pad label) =>
      byte_tokenize b (it_in x) ign = Some ids /\ pad = b_pad b /\
      exists k, label = Z.of_nat k /\ nth_error cl k = Some (it_tg x) /\ (forall k', k < k' -> nth_error cl k' <> Some (it_tg x))
  | ROk _ => False
  | RErr e => (e = 4%N /\ ~ In (it_tg x) cl) \/ (e = 2%N /\ byte_tokenize b (it_in x) ign = None)
  | RPanic _ => False
  end.
Proof. exact task_class_spec. Qed.
Print Assumptions class_label_spec.

(** ** Whitespace correction: ids = prefix ++ UTF-8 bytes ++ suffix; labels = -1 per prefix token, one operation code per
    CHARACTER of the input, -1 per suffix token (labels go with the token GROUPS of C17, not with the byte ids) *)
Theorem wsc_labels_shape : forall g b x ids pad labels, task (TWsc g b) x = ROk (TISeq ids pad labels) ->
  ids = b_pre b ++ utf8s (it_in x) ++ b_suf b /\ pad = b_pad b /\
  exists ops, C10_Model.operations (seg_of g (it_in x)) (seg_of g (it_tg x)) = Some ops /\
    labels = repeat (-1)%Z (length (b_pre b)) ++ map op_code ops ++ repeat (-1)%Z (length (b_suf b)) /\
    length labels = length (b_pre b) + length (seg_of g (it_in x)) + length (b_suf b).
Proof. exact task_wsc_shape. Qed.
Print Assumptions wsc_labels_shape.

(** every task returns the variant of TrainTaskInput that belongs to it (so a batch is homogeneous, which is what
    [tensorize] assumes), and no task panics *)
Theorem task_returns_its_variant : forall t x,
  match task t x, t with
  | ROk (TISeq _ _ _), TWsc _ _ => True
  | ROk (TIGen _ _ _), TGen _ _ _ _ => True
  | ROk (TICond _ _ _ _ _), TCond _ _ _ _ => True
  | ROk (TIClass _ _ _), TClass _ _ _ => True
  | ROk _, _ => False
  | RErr _, _ => True
  | RPanic _, _ => False
  end.
Proof. exact task_variant. Qed.
Print Assumptions task_returns_its_variant.

(** ** ClipLength: every sequence of the task input is cut to a PREFIX of itself, within the bound; the token ids are
    exactly the first max_length ids; alignment survives *)
Theorem clip_keeps_prefix_within : forall n t,
  tin_prefix (clip n t) t /\ within n (clip n t) /\ tin_ids (clip n t) = firstn n (tin_ids t).
Proof. exact (fun n t => conj (clip_prefix n t) (conj (clip_within n t) (clip_exact n t))). Qed.
Print Assumptions clip_keeps_prefix_within.

Theorem clip_keeps_alignment : forall n t, aligned t -> aligned (clip n t).
Proof. exact clip_aligned. Qed.
Print Assumptions clip_keeps_alignment.

Example clip_example : clip 2 (TIGen [1; 2; 3]%N 0%N [2; 3; 4]%Z) = TIGen [1; 2]%N 0%N [2; 3]%Z.
Proof. reflexivity. Qed.

(** ** structure of the postprocessing interpreter *)
Theorem post_chain_is_sequence : forall qopq maxlen l1 l2 x i,
  postproc qopq maxlen (QChain (l1 ++ l2)) x i =
  rbind (postproc qopq maxlen (QChain l1) x i) (fun xi => postproc qopq maxlen (QChain l2) (fst xi) (snd xi)).
Proof. exact post_chain_app_l. Qed.
Print Assumptions post_chain_is_sequence.

(** a Switch the constructor accepts runs exactly one alternative, with an in-range index, for every seed *)
Theorem post_switch_one_branch : forall qopq maxlen l ps x i, qcfg_ok (QSwitch l ps) = true ->
  exists c, nth_error l (switch_choice ps (i_seed i)) = Some c /\ switch_choice ps (i_seed i) < length l /\
            postproc qopq maxlen (QSwitch l ps) x i = postproc qopq maxlen c x i.
Proof. exact q_switch_exact. Qed.
Print Assumptions post_switch_one_branch.

(** OnMark: the chain runs iff the mark is set to the value, otherwise the item passes unchanged *)
Theorem post_on_mark_spec : forall qopq maxlen k v l x i,
  postproc qopq maxlen (QOnMark k v l) x i =
  match mark_get k (i_marks i) with
  | Some m => if nlist_eqb m v then postproc qopq maxlen (QChain l) x i else ROk (x, i)
  | None => ROk (x, i)
  end.
Proof. exact post_on_mark_l. Qed.
Print Assumptions post_on_mark_spec.

(** SwitchOnMark the constructor accepts, on an info whose mark has a supported value: exactly the alternative of that
    value runs (in range); the two panics of the code are "mark not set" (8) and "value not supported" (9) *)
Theorem post_switch_on_mark_spec : forall qopq maxlen k vs l x i m, qcfg_ok (QSwitchOnMark k vs l) = true ->
  mark_get k (i_marks i) = Some m -> In m vs ->
  exists idx c, C01_Model.index_of m vs = Some idx /\ nth_error vs idx = Some m /\ nth_error l idx = Some c /\
                postproc qopq maxlen (QSwitchOnMark k vs l) x i = postproc qopq maxlen c x i.
Proof. exact q_switch_on_mark_exact. Qed.
Print Assumptions post_switch_on_mark_spec.

Theorem post_switch_on_mark_panics : forall qopq maxlen k vs l x i,
  (mark_get k (i_marks i) = None -> postproc qopq maxlen (QSwitchOnMark k vs l) x i = RPanic 8) /\
  (forall m, mark_get k (i_marks i) = Some m -> C01_Model.index_of m vs = None ->
             postproc qopq maxlen (QSwitchOnMark k vs l) x i = RPanic 9).
Proof. exact post_som_panics_l. Qed.
Print Assumptions post_switch_on_mark_panics.

(** ** what postprocessing without TokenMasking can do: NOTHING but cut the sequences of the task input to prefixes.
    The info comes back unchanged, the data untouched, alignment survives, the result is never an Err. *)
Theorem postprocessing_only_cuts : forall maxlen c, q_has_opaque c = false -> forall x i,
  match postproc qopq_none maxlen c x i with
  | ROk (x', i') => i' = i /\ x_data x' = x_data x /\ tin_prefix (x_in x') (x_in x) /\ (aligned (x_in x) -> aligned (x_in x'))
  | RErr _ => False
  | RPanic _ => True
  end.
Proof. exact postproc_rel. Qed.
Print Assumptions postprocessing_only_cuts.

(** ** the item path.  An Ok result of [pipeline_t] (any preprocessing, any task, postprocessing without TokenMasking):
    the data is what the preprocessing returned, the task input is the task's output cut to prefixes; alignment of the
    task's output survives *)
Theorem pipeline_item_shape : forall opq p t q maxlen x i y, qp_has_opaque q = false ->
  pipeline_t opq qopq_none p t q maxlen x i = ROk y ->
  exists a j inp, preprocess opq p x i = ROk (a, j) /\ task t a = ROk inp /\
    x_data y = a /\ tin_prefix (x_in y) inp /\ (aligned inp -> aligned (x_in y)).
Proof. exact pipeline_t_ok. Qed.
Print Assumptions pipeline_item_shape.

(** the processed item is a FUNCTION of (configurations, max_length, item, seed, incoming marks) — the former purity
    assumption, now for every task and the modelled postprocessing, JsonDecode included: the file index is irrelevant for
    global configurations, and the loader always starts an item with no marks *)
Theorem pipeline_t_pure : forall c t q maxlen x i i', has_unmodelled c = false -> q_has_opaque q = false ->
  i_seed i = i_seed i' -> i_marks i = i_marks i' ->
  pipeline_t opq_std qopq_none (PGlobal c) t (QGlobal q) maxlen x i =
  pipeline_t opq_std qopq_none (PGlobal c) t (QGlobal q) maxlen x i'.
Proof. exact pipeline_t_function_of_seed. Qed.
Print Assumptions pipeline_t_pure.

(** ** JsonDecode inverts serde_json's string printer: every text (any code points), printed as a json string, decodes
    to itself *)
Theorem json_decode_inverse : forall s, json_decode (json_string s) = ROk s.
Proof. exact json_decode_roundtrip. Qed.
Print Assumptions json_decode_inverse.

Example json_decode_examples :
  json_decode [32; 34; 97; 92; 110; 34; 10]%N = ROk [97; 10]%N     (*  ' "a\n"<LF>'  ->  a<LF>  *)
  /\ json_decode [91; 34; 97; 34; 93]%N = RErr 8                   (*  ["a"]  *)
  /\ json_decode [34; 97; 34; 32; 120]%N = RErr 8.                 (*  "a" x  *)
Proof. vm_compute. repeat split. Qed.

(** ** the executable statement of the item line holds of the model's own output (inside the model's domain) *)
Theorem check_run_item : forall v, check_item v (run_item v) = true \/ run_item v = v_outside.
Proof. exact check_item_run. Qed.
Print Assumptions check_run_item.

(** non-vacuity of the mark-driven stages: the preprocessing sets k = w, the postprocessing switches on it and clips *)
Example mark_pipeline_example :
  pipeline_t opq_std qopq_none (PGlobal (CMark [107]%N [119]%N))
             (TGen false {| b_off := 256; b_sv := []; b_pre := []; b_suf := []; b_pad := 256%N |} true None)
             (QGlobal (QSwitchOnMark [107]%N [[118]; [119]]%N [QNone; QClip])) 2
             (mk_item [97; 98]%N [99; 100]%N) (mk_info 5 0 [])
  = ROk (mk_xitem (mk_item [97; 98]%N [99; 100]%N) (TIGen [97; 98]%N 256%N [98; 99]%Z)).
Proof. vm_compute. reflexivity. Qed.

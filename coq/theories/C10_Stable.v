(** Cluster lists that re-segment to themselves ("SeamStable"), as a theorem about [segment]:
    a list of non-empty clusters [L] satisfies [segment (concat L) = L] exactly when every
    element is a cluster on its own and every two neighbours are [glued] (a boundary that is
    decided inside the left neighbour). Used by C10, C14 and C15 for the strings they build by
    inserting / deleting / rearranging clusters. *)
From TU Require Import Base UAX29_Model UAX29_Proofs C10_Model C10_Proofs C10_Seam.
From Coq Require Import Lia.
Open Scope N_scope.

(** * A. a boundary makes the cursor forget: what follows is segmented as a text of its own *)
Lemma pr_cases_consonant k1 k2 : check_pair k1 k2 = PR_InCbConsonant -> k2 = GC_InCB_Consonant.
Proof. destruct k1, k2; cbn; congruence. Qed.
Lemma pr_cases_regional k1 k2 :
  check_pair k1 k2 = PR_Regional -> k1 = GC_Regional_Indicator /\ k2 = GC_Regional_Indicator.
Proof. destruct k1, k2; cbn; try congruence. auto. Qed.
Lemma pr_cases_emoji k1 k2 :
  check_pair k1 k2 = PR_Emoji -> k1 = GC_ZWJ /\ k2 = GC_Extended_Pictographic.
Proof. destruct k1, k2; cbn; try congruence. auto. Qed.

Lemma break_reset x ka b :
  ctx_inv x ka -> is_break x ka (gcb b) = true ->
  advance x b (gcb b) = advance ctx0 b (gcb b).
Proof.
  intros Hinv Hb. unfold is_break in Hb.
  destruct (check_pair ka (gcb b)) eqn:Hp; try discriminate Hb.
  - apply (advance_forget x ka b Hinv Hp).
  - pose proof (pr_cases_consonant _ _ Hp) as Hk.
    assert (Hi : incb_of b = None) by (apply incb_none; rewrite Hk; reflexivity).
    unfold advance. cbn [ris_odd emo_st icb_st ctx0]. rewrite Hi, Hk. reflexivity.
  - destruct (pr_cases_regional _ _ Hp) as [_ Hk].
    assert (Hi : incb_of b = None) by (apply incb_none; rewrite Hk; reflexivity).
    apply negb_true_iff in Hb.
    unfold advance. cbn [ris_odd emo_st icb_st ctx0]. rewrite Hi, Hk, Hb. reflexivity.
  - destruct (pr_cases_emoji _ _ Hp) as [_ Hk].
    assert (Hi : incb_of b = None) by (apply incb_none; rewrite Hk; reflexivity).
    unfold advance. cbn [ris_odd emo_st icb_st ctx0]. rewrite Hi, Hk. reflexivity.
Qed.

(** [segment_split] without its third premise: any boundary splits the text *)
Lemma segment_break_split s b v :
  s <> [] -> break_after s b = true -> segment (s ++ b :: v) = segment s ++ segment (b :: v).
Proof.
  intros Hne Hb. apply segment_split; [exact Hne|exact Hb|].
  apply (break_reset _ (snd (state_of s))); [apply state_of_inv; exact Hne|exact Hb].
Qed.

(** * B. the first cluster of a text *)
Lemma seg_from_first r : forall x ka a,
  exists p q, r = p ++ q /\ seg_from x ka a p = [a :: p] /\
    match q with
    | [] => seg_from x ka a r = [a :: p]
    | b :: q' =>
        is_break (fst (run_from x ka p)) (snd (run_from x ka p)) (gcb b) = true /\
        seg_from x ka a r =
          (a :: p) :: seg_from (advance (fst (run_from x ka p)) b (gcb b)) (gcb b) b q'
    end.
Proof.
  induction r as [|c r IH]; intros x ka a.
  - exists [], []. repeat split.
  - destruct (is_break x ka (gcb c)) eqn:Eb.
    + exists [], (c :: r). split; [reflexivity|]. split; [reflexivity|].
      cbn [run_from fst snd seg_from]. rewrite Eb. split; reflexivity.
    + destruct (IH (advance x c (gcb c)) (gcb c) c) as (p & q & Hr & Hp & Hq).
      exists (c :: p), q. split; [cbn [app]; rewrite Hr; reflexivity|].
      split; [cbn [seg_from]; rewrite Eb, Hp; reflexivity|].
      cbn [run_from]. destruct q as [|b q'].
      * cbn [seg_from]. rewrite Eb, Hq. reflexivity.
      * destruct Hq as [Hq1 Hq2]. split; [exact Hq1|]. cbn [seg_from]. rewrite Eb, Hq2. reflexivity.
Qed.

Lemma segment_first a r :
  exists p q, r = p ++ q /\ segment (a :: p) = [a :: p] /\
    match q with
    | [] => segment (a :: r) = [a :: p]
    | b :: q' => break_after (a :: p) b = true /\ segment (a :: r) = (a :: p) :: segment (b :: q')
    end.
Proof.
  destruct (seg_from_first r (advance ctx0 a (gcb a)) (gcb a) a) as (p & q & Hr & Hp & Hq).
  exists p, q. split; [exact Hr|]. split; [exact Hp|]. destruct q as [|b q']; [exact Hq|].
  destruct Hq as [Hq1 Hq2].
  change (run_from (advance ctx0 a (gcb a)) (gcb a) p) with (state_of (a :: p)) in Hq1, Hq2.
  split; [exact Hq1|].
  change (segment (a :: r)) with (seg_from (advance ctx0 a (gcb a)) (gcb a) a r). rewrite Hq2. f_equal.
  change (segment (b :: q')) with (seg_from (advance ctx0 b (gcb b)) (gcb b) b q'). f_equal.
  apply (break_reset _ (snd (state_of (a :: p)))); [apply (state_of_inv (a :: p)); discriminate|exact Hq1].
Qed.

(** * C. [segment s] is a chain of clusters *)
Lemma cll_eqb_refl l : cll_eqb l l = true.
Proof. apply cll_eqb_eq. reflexivity. Qed.

Lemma is_cluster_spec c : is_cluster c = true <-> segment c = [c].
Proof. unfold is_cluster. apply cll_eqb_eq. Qed.

Lemma segment_good_n n : forall s, (length s <= n)%nat ->
  forallb is_cluster (segment s) = true /\ chain (segment s) = true.
Proof.
  induction n as [|n IH]; intros s Hl.
  - destruct s; [split; reflexivity|cbn in Hl; lia].
  - destruct s as [|a r]; [split; reflexivity|]. cbn [length] in Hl.
    destruct (segment_first a r) as (p & q & Hr & Hp & Hq). destruct q as [|b q'].
    + rewrite Hq. cbn [forallb chain]. split; [|reflexivity].
      rewrite andb_true_r. apply is_cluster_spec. exact Hp.
    + destruct Hq as [Hq1 Hq2]. rewrite Hq2.
      assert (Hlen : (length (b :: q') <= n)%nat).
      { subst r. rewrite app_length in Hl. cbn [length] in *. lia. }
      destruct (IH (b :: q') Hlen) as [H1 H2]. split.
      * cbn [forallb]. rewrite H1, andb_true_r. apply is_cluster_spec. exact Hp.
      * destruct (segment (b :: q')) as [|d R] eqn:Es; [reflexivity|].
        change (chain ((a :: p) :: d :: R)) with (glued (a :: p) d && chain (d :: R)).
        rewrite H2, andb_true_r.
        assert (Hd : exists d', d = b :: d').
        { cbn [segment] in Es. destruct (seg_from_head (advance ctx0 b (gcb b)) (gcb b) b q') as (c' & cs & E).
          rewrite E in Es. injection Es as <- _. eexists. reflexivity. }
        destruct Hd as [d' ->]. exact Hq1.
Qed.

Lemma segment_clusters s : forallb is_cluster (segment s) = true.
Proof. exact (proj1 (segment_good_n (length s) s (Nat.le_refl _))). Qed.
Lemma segment_chain s : chain (segment s) = true.
Proof. exact (proj2 (segment_good_n (length s) s (Nat.le_refl _))). Qed.

(** * D. and every chain of clusters is the segmentation of its concatenation *)
Lemma chain_stable L :
  Forall (fun c : cluster => c <> []) L ->
  forallb is_cluster L = true -> chain L = true -> segment (concat L) = L.
Proof.
  induction L as [|c R IH]; intros Hne Hc Hch; [reflexivity|].
  inversion Hne as [|? ? Hc0 HneR]; subst.
  cbn [forallb] in Hc. apply andb_true_iff in Hc as [Hc1 HcR]. apply is_cluster_spec in Hc1.
  destruct R as [|d R'].
  - cbn [concat]. rewrite app_nil_r. exact Hc1.
  - change (chain (c :: d :: R')) with (glued c d && chain (d :: R')) in Hch.
    apply andb_true_iff in Hch as [Hg HchR]. specialize (IH HneR HcR HchR).
    inversion HneR as [|? ? Hd0 _]; subst. destruct d as [|b d']; [exfalso; apply Hd0; reflexivity|].
    cbn [glued] in Hg. change (concat (c :: (b :: d') :: R')) with (c ++ b :: (d' ++ concat R')).
    rewrite (segment_break_split c b _ Hc0 Hg), Hc1.
    change (segment (concat ((b :: d') :: R')) = (b :: d') :: R') in IH.
    cbn [concat app] in IH. unfold cluster, str, cp in *. rewrite IH. reflexivity.
Qed.

(** the characterisation: SeamStable <-> chain of clusters *)
Lemma stable_iff L :
  Forall (fun c : cluster => c <> []) L ->
  (segment (concat L) = L <-> forallb is_cluster L = true /\ chain L = true).
Proof.
  intros Hne. split.
  - intros E. rewrite <- E. split; [apply segment_clusters|apply segment_chain].
  - intros [H1 H2]. apply chain_stable; assumption.
Qed.

(** * E. chains: append, sublists *)
Lemma chain_app L1 L2 :
  chain (L1 ++ L2) =
  chain L1 && chain L2 && match L2 with d :: _ => glued (last L1 []) d || (match L1 with [] => true | _ => false end) | [] => true end.
Proof.
  induction L1 as [|c R IH].
  - cbn [app chain andb]. destruct L2; [reflexivity|]. rewrite orb_true_r, andb_true_r. reflexivity.
  - destruct R as [|c2 R'].
    + cbn [app last]. destruct L2 as [|d L2']; [reflexivity|].
      change (chain (c :: d :: L2')) with (glued c d && chain (d :: L2')).
      cbn [chain andb]. rewrite orb_false_r. apply andb_comm.
    + change ((c :: c2 :: R') ++ L2) with (c :: (c2 :: R') ++ L2).
      change (chain (c :: (c2 :: R') ++ L2)) with (glued c c2 && chain ((c2 :: R') ++ L2)).
      rewrite IH. change (chain (c :: c2 :: R')) with (glued c c2 && chain (c2 :: R')).
      change (last (c :: c2 :: R') []) with (last (c2 :: R') []).
      destruct L2; rewrite ?andb_true_r, ?andb_assoc; reflexivity.
Qed.

Lemma chain_cons2 c d R : chain (c :: d :: R) = glued c d && chain (d :: R).
Proof. reflexivity. Qed.

(** [cf_break] (a boundary in every context) gives [glued] whatever the left cluster is *)
Lemma cf_break_after s a b : cf_break a b = true -> break_after (s ++ [a]) b = true.
Proof.
  unfold cf_break, break_after. rewrite state_of_snoc. cbn [fst snd]. unfold is_break.
  destruct (check_pair (gcb a) (gcb b)) eqn:Hp; try discriminate; [reflexivity|].
  destruct (incb_of a) eqn:Hi; [discriminate|]. intros _.
  unfold advance. cbn [icb_st]. rewrite Hi. destruct (gcb a); reflexivity.
Qed.

Lemma cf_break_glued c d :
  c <> [] -> cf_break (last c 32) (hd 32 d) = true -> glued c d = true.
Proof.
  intros Hc H. destruct d as [|b d']; [reflexivity|]. cbn [glued hd] in *.
  rewrite (app_removelast_last 32 Hc). apply cf_break_after. exact H.
Qed.

(** U+0020 on either side *)
Lemma glued_space_l d : glued [32] d = negb (ws_joinable (hd 32 d)) || match d with [] => true | _ => false end.
Proof.
  destruct d as [|b d']; [cbn [glued]; rewrite orb_true_r; reflexivity|]. cbn [glued hd]. rewrite orb_false_r.
  unfold break_after. cbn [state_of run_from fst snd]. change (gcb 32) with GC_Any.
  rewrite (advance_any ctx0 32 eq_refl), is_break_after_any. unfold ws_joinable. reflexivity.
Qed.

Lemma glued_space_r c : c <> [] -> glued c [32] = negb (is_prepend (last c 32)).
Proof.
  unfold cluster, str, cp in *. intros Hc. cbn [glued]. rewrite (app_removelast_last 32 Hc) at 1.
  unfold break_after. rewrite state_of_snoc. cbn [fst snd]. unfold is_break, is_prepend.
  change (gcb 32) with GC_Any. destruct (gcb (last c 32)); cbn [check_pair negb]; reflexivity.
Qed.

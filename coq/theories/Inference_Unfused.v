(** The threaded Pipe over an upstream iterator that is NOT a list: D17.

    Pipe_Model.v (C05) models the upstream as a list [xs]: a worker that calls next() past the end gets
    None and exits, and so does every later caller.  That is what a FUSED iterator does.  The inference
    loader pipes [texts.scan(..).enumerate()], and [Scan] is not fused: after the closure has returned
    None (an Err text: the error is recorded in iter_err), the next call of next() goes on with the next
    text.  In [Pipe::new] every worker polls the shared iterator until it sees None ITSELF, so before the
    repair a None ended one worker only and the others went on with the texts after the Err text.

    This file is the Pipe LTS with the upstream as the code has it: the remaining texts ([None] = Err),
    the counter of the loader's [enumerate] (it counts the items the scan let through, so the texts after
    an Err text are numbered as if that text did not exist), the flag "returned None once" and iter_err.
    [fused = false] is the code before the repair, [fused = true] the code after it ([iter.fuse()] in
    [Pipe::new]: once None, always None).  Every label other than [Pull] is Pipe_Model's step. *)
From TU Require Import Base Pipe_Model.

Section Unfused.
Variables (T B : Type) (f : nat * T -> B) (d : nat * T).
Notation A := (nat * T)%type.

Record ustate := umk {
  u_base : state A B;          (* Pipe_Model's state; [xs] = the items pulled so far, [next] = their number *)
  u_src : list (option T);     (* what the text iterator still holds; [None] = it returns Err *)
  u_cnt : nat;                 (* the loader's enumerate counter *)
  u_pos : nat;                 (* position of the head of [u_src] in the original input *)
  u_done : bool;               (* the upstream has returned None at least once *)
  u_err : option nat }.        (* iter_err: the position of the Err text recorded last *)

Definition with_xs (b : state A B) (l : list A) : state A B :=
  mk l (next b) (turn b) (thr b) (chan b) (out b) (dropped b) (log b) (pad b) (ndrop b).

Definition ustep (fused : bool) (s : ustate) (l : label) : option ustate :=
  let b := u_base s in
  match l with
  | Pull t =>
      if fused && u_done s then
        (* Fuse: None for ever; the worker exits *)
        option_map (fun b' => umk b' (u_src s) (u_cnt s) (u_pos s) true (u_err s)) (step A B f d b (Pull t))
      else
        match u_src s with
        | [] => option_map (fun b' => umk b' [] (u_cnt s) (u_pos s) true (u_err s)) (step A B f d b (Pull t))
        | None :: r =>
            (* the scan's closure records the error and returns None: this worker exits *)
            option_map (fun b' => umk b' r (u_cnt s) (S (u_pos s)) true (Some (u_pos s))) (step A B f d b (Pull t))
        | Some x :: r =>
            option_map (fun b' => umk b' r (S (u_cnt s)) (S (u_pos s)) (u_done s) (u_err s))
                       (step A B f d (with_xs b (xs b ++ [(u_cnt s, x)])) (Pull t))
        end
  | _ => option_map (fun b' => umk b' (u_src s) (u_cnt s) (u_pos s) (u_done s) (u_err s)) (step A B f d b l)
  end.

Definition uinit (texts : list (option T)) (W : nat) : ustate :=
  umk (init A B [] W) texts 0 0 false None.

Fixpoint urun (fused : bool) (s : ustate) (tr : list label) : option ustate :=
  match tr with
  | [] => Some s
  | l :: tr' => match ustep fused s l with Some s' => urun fused s' tr' | None => None end
  end.

(** nothing but a drop is enabled: all workers have returned and the channel is empty *)
Definition uterminal (fused : bool) (s : ustate) : Prop :=
  forall l, l <> Drop -> ustep fused s l = None.

(** the schedule of the witness: two workers; worker 1 runs into the Err text and exits, worker 0 goes on *)
Definition witness_schedule : list label :=
  [Pull 0; Pull 1; Compute 0; TurnOk 0; SendOk 0; Advance 0; Recv;
   Pull 0; Compute 0; TurnOk 0; SendOk 0; Advance 0; Recv; Pull 0].

(** BEFORE THE REPAIR: texts [Ok a; Err; Ok b], two workers.  There is a complete schedule (nothing but
    a drop enabled at its end) whose consumer receives the result for [a] AND a result for [b] — numbered
    1, the position of the Err text — although the upstream returned None after [a]; the recorded error is
    the one of position 1.  (With zero or one worker the stream is [f (0, a)] alone.) *)
Lemma unfused_delivers_after_err_l (a b : T) :
  exists s, urun false (uinit [Some a; None; Some b] 2) witness_schedule = Some s
    /\ uterminal false s
    /\ out (u_base s) = [f (0, a); f (1, b)]
    /\ u_err s = Some 1.
Proof.
  eexists. split; [vm_compute; reflexivity|]. split; [|split; reflexivity].
  intros l Hl. destruct l as [t|t|t|t|t|t| |]; try reflexivity.
  - destruct t as [|[|t]]; try reflexivity. destruct t; reflexivity.
  - destruct t as [|[|t]]; try reflexivity. destruct t; reflexivity.
  - destruct t as [|[|t]]; try reflexivity. destruct t; reflexivity.
  - destruct t as [|[|t]]; try reflexivity. destruct t; reflexivity.
  - destruct t as [|[|t]]; try reflexivity. destruct t; reflexivity.
  - destruct t as [|[|t]]; try reflexivity. destruct t; reflexivity.
  - contradiction.
Qed.

(** AFTER THE REPAIR the same schedule is not a schedule any more: the third Pull of worker 0 finds the
    fused upstream ended; the complete schedule below delivers [f (0, a)] alone *)
Definition fused_schedule : list label :=
  [Pull 0; Pull 1; Compute 0; TurnOk 0; SendOk 0; Advance 0; Recv; Pull 0].

Lemma fused_stops_at_err_l (a b : T) :
  exists s, urun true (uinit [Some a; None; Some b] 2) fused_schedule = Some s
    /\ uterminal true s
    /\ out (u_base s) = [f (0, a)]
    /\ u_err s = Some 1.
Proof.
  eexists. split; [vm_compute; reflexivity|]. split; [|split; reflexivity].
  intros l Hl. destruct l as [t|t|t|t|t|t| |]; try reflexivity.
  - destruct t as [|[|t]]; try reflexivity. destruct t; reflexivity.
  - destruct t as [|[|t]]; try reflexivity. destruct t; reflexivity.
  - destruct t as [|[|t]]; try reflexivity. destruct t; reflexivity.
  - destruct t as [|[|t]]; try reflexivity. destruct t; reflexivity.
  - destruct t as [|[|t]]; try reflexivity. destruct t; reflexivity.
  - destruct t as [|[|t]]; try reflexivity. destruct t; reflexivity.
  - contradiction.
Qed.

(** BEFORE THE REPAIR iter_err is whatever Err text a worker ran into last: texts [Ok a; Err; Err], two
    workers — worker 1 records position 1 and exits, worker 0 later records position 2; __next__ reports
    the error of position 2 although the stream ended at position 1 *)
Lemma unfused_records_later_err_l (a : T) :
  exists s, urun false (uinit [Some a; None; None] 2) fused_schedule = Some s
    /\ uterminal false s
    /\ out (u_base s) = [f (0, a)]
    /\ u_err s = Some 2.
Proof.
  eexists. split; [vm_compute; reflexivity|]. split; [|split; reflexivity].
  intros l Hl. destruct l as [t|t|t|t|t|t| |]; try reflexivity.
  - destruct t as [|[|t]]; try reflexivity. destruct t; reflexivity.
  - destruct t as [|[|t]]; try reflexivity. destruct t; reflexivity.
  - destruct t as [|[|t]]; try reflexivity. destruct t; reflexivity.
  - destruct t as [|[|t]]; try reflexivity. destruct t; reflexivity.
  - destruct t as [|[|t]]; try reflexivity. destruct t; reflexivity.
  - destruct t as [|[|t]]; try reflexivity. destruct t; reflexivity.
  - contradiction.
Qed.

End Unfused.

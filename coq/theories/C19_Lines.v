(** C19: the line reader of [train_bpe] at BYTE level, inside the model.
    [reader.lines().take(max_lines_per_file).filter_map(|line| line.ok())]: [BufRead::lines] cuts the file at every
    0x0A, drops the 0x0A and one 0x0D before it, yields a last piece without 0x0A if it is non-empty, and returns
    [Err(InvalidData)] for a piece that is not UTF-8 ([String::from_utf8], modelled by [C01_Model.utf8_decode]) — the
    piece is consumed, the next call goes on with the next line; [filter_map(ok)] SKIPS such lines, but they count for
    [take], which comes first.  ([Dictionary::create] reads with [map_while(Result::ok)] instead: it STOPS at the first
    such line of a file — [dict_read]; C19_LinesProofs.v shows where the two agree and where not.)

    So far the C19 input could only hold lines that are strings, every line followed by a newline (NFKC_Tie.v:
    [lines_of_file] works on code points).  Now a raw line is a list of integers: a code point (>= 0, written as its
    UTF-8), a raw byte b as [-(b+1)] (so invalid UTF-8 can be written), and [-1000] = no newline after this line (the
    last line of a file).  The oracle field [proc] has one entry per line that [lines()] yields: the processed line, or
    the marker [(-1)] for a line that is not UTF-8.  [norm_input] turns such an input into the input the training model
    [run_C19] / [check_C19] knows (take, then drop the markers); [lines_agree_b] is the model's own reading of the
    bytes against [proc].  Definitions only. *)
From TU Require Import Base C01_Model UAX29_Model C11_Model NFKC_Model NFKC_Tie C19_Model.
Open Scope N_scope.

(** ** the bytes of a file *)
Definition item_bytes (z : Z) : list N :=
  if (0 <=? z)%Z then utf8 (Z.to_N z)
  else if (-256 <=? z)%Z then [Z.to_N (- z - 1)]
  else [].
Definition line_bytes (l : list Z) : list N := flat_map item_bytes l.
Definition line_unterminated (l : list Z) : bool := existsb (Z.eqb (-1000)) l.
Definition file_bytes (raw : list (list Z)) : list N :=
  flat_map (fun l => line_bytes l ++ (if line_unterminated l then [] else [10])) raw.

(** ** the readers.  [split_lines] (NFKC_Tie.v) is [BufRead::lines] on any list of units; here the units are bytes *)
Definition read_lines (bs : list N) : list (option str) := map utf8_decode (split_lines [] bs).
Definition oks (l : list (option str)) : list str :=
  flat_map (fun o => match o with Some s => [s] | None => [] end) l.
Definition take_o {A} (o : option nat) (l : list A) : list A := match o with Some n => firstn n l | None => l end.
(** [train_bpe]: [lines().take(n).filter_map(|l| l.ok())] *)
Definition bpe_read (maxl : option nat) (bs : list N) : list str := oks (take_o maxl (read_lines bs)).
(** [Dictionary::create]: [lines().map_while(Result::ok)] per file *)
Fixpoint while_ok (l : list (option str)) : list str :=
  match l with Some s :: r => s :: while_ok r | _ => [] end.
Definition dict_read (bs : list N) : list str := while_ok (read_lines bs).

(** ** val glue *)
Definition in_raw_files (v : val) : list (list (list Z)) := v_list (v_list (v_list v_z)) (v_nth 5 v).
(** the marker of a line that is not UTF-8 in the oracle field *)
Definition is_marker (l : val) : bool := match l with L [I z] => (z <? 0)%Z | _ => false end.
Definition v_marker : val := L [I (-1)%Z].

(** the input as the training model knows it: per file the first [max_lines_per_file] entries of [proc] without the
    markers, and no line limit any more *)
Definition norm_file (maxl : option nat) (f : val) : val :=
  match f with L ls => L (filter (fun l => negb (is_marker l)) (take_o maxl ls)) | _ => f end.
Definition norm_input (v : val) : val :=
  match v with
  | L (a0 :: a1 :: a2 :: a3 :: a4 :: a5 :: a6 :: rest) =>
      L (a0 :: a1 :: a2 :: a3 :: L [] :: a5
         :: (match a6 with L fs => L (map (norm_file (v_opt v_nat a4)) fs) | _ => a6 end) :: rest)
  | _ => v
  end.

(** the model's own reading of the raw files against the oracle: every line [lines()] yields, in order; a line that
    is not UTF-8 must carry the marker, a line that is must equal [process_line] of its text *)
Definition line_ok (f : option form) (o : option str) (p : val) : bool :=
  match o with
  | Some s => negb (is_marker p) && (match p with L _ => true | _ => false end)
              && nlist_eqb (process_line f s) (v_list v_n p)
  | None => is_marker p
  end.
Fixpoint lines_ok (f : option form) (os : list (option str)) (ps : list val) : bool :=
  match os, ps with
  | [], [] => true
  | o :: os', p :: ps' => line_ok f o p && lines_ok f os' ps'
  | _, _ => false
  end.
Fixpoint files_ok (f : option form) (raws : list (list (list Z))) (procs : list val) : bool :=
  match raws, procs with
  | [], [] => true
  | raw :: raws', L ps :: procs' => lines_ok f (read_lines (file_bytes raw)) ps && files_ok f raws' procs'
  | _, _ => false
  end.
Definition lines_agree_b (v : val) : bool :=
  files_ok (in_form v) (in_raw_files v) (match v_nth 6 v with L fs => fs | _ => [] end).

(** [run] / [check] / the parts of [agree] on the normalised input *)
Definition run_C19n (v : val) : val := run_C19 (norm_input v).
Definition check_C19n (v out : val) : bool := check_C19 (norm_input v) out.

(** C20 — proofs about the tokenisation inside the model (C20_Words.v). *)
From TU Require Import Base C12_Model C20_Model C20_Topk C20_Counts C20_SaveLoad C20_Closest C20_Proofs C20_Check C20_UAX29.
From TU Require Import UCD_Model UCD_Ranges UCD_Words C20_Words.
From TU Require UAX29_Model.
From Coq Require Import Lia Permutation.
Open Scope N_scope.

(** * val round trips *)
Lemma v_bool_bool_v b : v_bool (bool_v b) = b.
Proof. destruct b; reflexivity. Qed.
Lemma v_clinfo_clinfo_v c : v_clinfo (clinfo_v c) = c.
Proof.
  destruct c as [b [x y]]. unfold v_clinfo, clinfo_v. cbn [v_nth nth fst snd].
  rewrite v_bytes_bytes_v, !v_bool_bool_v. reflexivity.
Qed.
Lemma v_winfo_winfo_v w : v_winfo (winfo_v w) = w.
Proof.
  destruct w as [ps cs]. unfold v_winfo, winfo_v. cbn [v_nth nth fst snd]. unfold list_v, v_list.
  rewrite !map_map. f_equal.
  - rewrite <- (map_id ps) at 2. apply map_ext, v_bytes_bytes_v.
  - rewrite <- (map_id cs) at 2. apply map_ext, v_clinfo_clinfo_v.
Qed.
Lemma v_line_modelize l : v_line (modelize_line l) = linfo_of_raw (line_raw l).
Proof.
  unfold v_line, modelize_line. cbn [v_nth nth]. unfold linfo_v, list_v, v_list. rewrite map_map.
  rewrite <- (map_id (linfo_of_raw (line_raw l))) at 2. apply map_ext, v_winfo_winfo_v.
Qed.

(** * [modelize] touches the files only *)
Lemma v_nth_set_nth1 v x k : k <> 1%nat -> v_nth k (set_nth1 v x) = v_nth k v.
Proof.
  intros Hk. destruct v as [z|[|a [|b r]]]; try reflexivity. cbn [set_nth1 v_nth].
  destruct k as [|[|k]]; [reflexivity|congruence|reflexivity].
Qed.
Lemma modelize_nth v k : k <> 1%nat -> v_nth k (modelize v) = v_nth k v.
Proof. intros Hk. unfold modelize. apply v_nth_set_nth1. exact Hk. Qed.

Lemma v_lines_modelized (fs : list val) :
  v_lines (list_v modelize_file fs)
  = map linfo_of_raw (flat_map (fun f => v_list line_raw (v_nth 1 f)) fs).
Proof.
  unfold v_lines, list_v. cbn [v_list]. rewrite map_id.
  induction fs as [|f fs IH]; [reflexivity|]. cbn [map flat_map]. rewrite map_app, <- IH. f_equal.
  unfold modelize_file. cbn [v_nth nth]. unfold list_v. cbn [v_list]. rewrite map_map.
  destruct (v_nth 1 f) as [z|ls]; [reflexivity|]. cbn [v_list]. rewrite map_id, map_map.
  apply map_ext. intros l. apply v_line_modelize.
Qed.

Lemma in_lines_modelize v : in_lines (modelize v) = map linfo_of_raw (in_raws v).
Proof.
  unfold in_lines, in_raws, modelize. destruct v as [z|[|a [|b r]]]; try reflexivity.
  cbn [set_nth1 v_nth nth]. apply v_lines_modelized.
Qed.

Lemma model_create_modelize v :
  model_create (modelize v)
  = create_raw (in_chars v) (in_cg v) (in_max_size v) (in_max_seq v) (in_raws v) (in_arr v) (in_hp v).
Proof.
  unfold model_create, create_raw, in_chars, in_cg, in_max_size, in_max_seq, in_arr, in_hp, in_cfg.
  rewrite in_lines_modelize, !modelize_nth by discriminate. reflexivity.
Qed.

Lemma segs_cover_modelize v : segs_cover (modelize v) = segs_cover v.
Proof. unfold segs_cover, in_dfile, in_segs. rewrite !modelize_nth by discriminate. reflexivity. Qed.

(** * the executable statement holds of the model's own output *)
Lemma same_create_refl r : r <> Overflow -> same_create (cres_v r) (cres_v r) = true.
Proof.
  destruct r as [d| |]; [| |congruence]; intros _; [|reflexivity]. unfold cres_v, same_create, n_v.
  unfold same_dict. rewrite entries_eqb_refl, Z.eqb_refl. reflexivity.
Qed.

Lemma builds_same_run v : builds_same (run_C20 v) = true.
Proof.
  unfold run_C20, builds_same. cbn [v_nth nth]. unfold list_v.
  destruct (in_threads v) as [|t ts]; [reflexivity|]. cbn [map]. rewrite forallb_forall.
  intros x Hx. apply in_map_iff in Hx as (t' & <- & _). apply same_create_refl.
  unfold model_create. apply create_no_overflow_l.
Qed.

Lemma check_run_u_l v : segs_cover v = true -> check_C20u v (run_C20u v) = true.
Proof.
  intros H. unfold check_C20u, run_C20u. rewrite check_run_l by (rewrite segs_cover_modelize; exact H).
  rewrite builds_same_run. reflexivity.
Qed.

(** * [create] on raw lines *)
Lemma flat_map_map {A B C} (f : B -> list C) (g : A -> B) l : flat_map f (map g l) = flat_map (fun x => f (g x)) l.
Proof. induction l as [|x l IH]; [reflexivity|]. cbn [map flat_map]. rewrite IH. reflexivity. Qed.

Lemma take_opt_map {A B} (g : A -> B) k l : take_opt k (map g l) = map g (take_opt k l).
Proof.
  destruct k as [k|]; [|reflexivity]. unfold take_opt. rewrite map_length.
  destruct (N.of_nat (length l) <=? k); [reflexivity|]. apply firstn_map.
Qed.

Lemma raw_toks chars n max_seq raws :
  flat_map (line_tokens chars n) (take_opt max_seq (map linfo_of_raw raws))
  = flat_map (raw_tokens chars n) (take_opt max_seq raws).
Proof. rewrite take_opt_map, flat_map_map. reflexivity. Qed.

Lemma counts_exact_u_l chars cg max_size max_seq raws arr hp d :
  create_raw chars cg max_size max_seq raws arr hp = Ok d ->
  NoDup (map fst d) /\
  forall w f, In (w, f) d ->
    f = count_tok w (flat_map (raw_tokens chars (N.to_nat cg)) (take_opt max_seq raws)) /\ 0 < f.
Proof.
  unfold create_raw. intros H. split; [exact (create_nodup _ _ _ _ _ _ _ _ H)|].
  intros w f Hin. rewrite <- raw_toks. exact (create_counts _ _ _ _ _ _ _ _ H w f Hin).
Qed.

(** word mode: the tokens of a raw line are the UTF-8 encodings of the class-only maximal [\w]-runs of
    the whitespace-separated words of the cleaned, NFKC-normalised line, in order *)
Lemma raw_tokens_word_l n raw :
  raw_tokens false n raw
  = flat_map (fun w => map (fun p : nat * str => utf8s (snd p)) (class_runs w)) (split_ws (norm_line raw)).
Proof.
  unfold raw_tokens, linfo_of_raw, linfo_of, line_tokens. rewrite flat_map_map.
  apply flat_map_ext. intros w. unfold winfo_of. cbn [fst]. rewrite word_parts_eq_l. reflexivity.
Qed.

(** character mode: the n-gram windows over the clusters of [segment w] with the model's own classes *)
Definition ucd_cl (c : cluster) : bool * bool := (str_is_alphabetic c, str_is_punctuation c).
Lemma cls_u_ucd w : map cl_info (UAX29_Model.segment w) = cls_u ucd_cl w.
Proof. reflexivity. Qed.
Lemma raw_tokens_char_l n raw :
  raw_tokens true n raw = flat_map (fun w => char_tokens n (cls_u ucd_cl w)) (split_ws (norm_line raw)).
Proof.
  unfold raw_tokens, linfo_of_raw, linfo_of, line_tokens. rewrite flat_map_map. reflexivity.
Qed.

(** * the model's own words pass the cross-check *)
Lemma clinfo_eqb_refl c : clinfo_eqb c c = true.
Proof. destruct c as [b [x y]]. unfold clinfo_eqb. cbn [fst snd]. rewrite bytes_eqb_refl, !Bool.eqb_reflx. reflexivity. Qed.
Lemma all2b_refl {A} (f : A -> A -> bool) l : (forall x, f x x = true) -> all2b f l l = true.
Proof. intros H. induction l as [|x l IH]; [reflexivity|]. cbn [all2b]. rewrite H, IH. reflexivity. Qed.
Lemma linfo_eqb_refl l : linfo_eqb l l = true.
Proof.
  apply all2b_refl. intros [ps cs]. unfold winfo_eqb. cbn [fst snd]. rewrite bl_eqb_refl.
  apply all2b_refl. exact clinfo_eqb_refl.
Qed.

(** is_alphabetic and is_punctuation exclude each other on a non-empty cluster (table fact) *)
Lemma punct_alpha_disjoint : disjoint re_punctuation std_alphabetic = true.
Proof. vm_compute. reflexivity. Qed.
Lemma punct_not_alpha c : re_punct c = true -> is_alphabetic c = false.
Proof.
  unfold re_punct, is_alphabetic. rewrite re_punct_t_spec. intros H.
  assert (Hc : 33 <= c).
  { apply (sorted_in_ge re_punctuation 33 c); [vm_compute; reflexivity|exact H]. }
  rewrite alphabetic_t_spec, (disjoint_sound _ _ c punct_alpha_disjoint H).
  assert (A : ascii_lower c = true \/ ascii_upper c = true -> False).
  { unfold ascii_lower, ascii_upper. intros [E|E]; apply andb_true_iff in E as [E1 E2]; apply N.leb_le in E1, E2;
      assert (X : in_ranges re_punctuation c = false) by
        (apply (disjoint_sound [(65, 90); (97, 122)] re_punctuation c); [vm_compute; reflexivity|];
         apply in_ranges_iff; first [exists 97, 122; split; [right; left; reflexivity|lia]
                                    |exists 65, 90; split; [left; reflexivity|lia]]);
      congruence. }
  destruct (ascii_lower c) eqn:E1; [exfalso; apply A; left; reflexivity|].
  destruct (ascii_upper c) eqn:E2; [exfalso; apply A; right; reflexivity|].
  cbn [orb]. destruct (c <=? 169); reflexivity.
Qed.
Lemma ucd_cl_exclusive c : str_is_alphabetic c = true -> str_is_punctuation c = true -> False.
Proof.
  destruct c as [|x c]; [discriminate|]. cbn [str_is_alphabetic str_is_punctuation forallb].
  intros H1 H2. apply andb_true_iff in H1 as [H1 _]. apply andb_true_iff in H2 as [H2 _].
  rewrite (punct_not_alpha x H2) in H1. discriminate.
Qed.

(** * what [builds_same] accepts *)
Lemma same_create_sound a b : same_create a b = true ->
  (a = L [I 1%Z] /\ b = L [I 1%Z])
  \/ exists i0 f0 i f, a = L [I 0%Z; i0; I f0] /\ b = L [I 0%Z; i; I f]
       /\ same_dict (v_items i0) (v_items i) = true /\ f0 = f.
Proof.
  unfold same_create. intros H.
  repeat match type of H with
         | context [match ?x with _ => _ end] => destruct x; try discriminate
         end;
  first [left; split; reflexivity
        |right; apply andb_true_iff in H as [H1 H2]; apply Z.eqb_eq in H2; subst;
         do 4 eexists; repeat split; eassumption].
Qed.

Lemma builds_same_sound_l c0 rest others :
  builds_same (L (L (c0 :: rest) :: others)) = true ->
  forall c, In c rest ->
    (c0 = L [I 1%Z] /\ c = L [I 1%Z])
    \/ exists i0 f0 i f, c0 = L [I 0%Z; i0; I f0] /\ c = L [I 0%Z; i; I f]
         /\ same_dict (v_items i0) (v_items i) = true /\ f0 = f.
Proof.
  intros H c Hc. unfold builds_same in H. cbn [v_nth nth] in H. rewrite forallb_forall in H.
  exact (same_create_sound c0 c (H c Hc)).
Qed.

(** C19 proofs, part 2: word counting is schedule-free; the counting pool. *)
From TU Require Import Base C19_Model C19_Proofs.
From Coq Require Import Lia Permutation.
Open Scope N_scope.
Arguments N.add : simpl never.
Arguments N.mul : simpl never.

(** sum of [f] over the entries of a count map, weighted by the counts *)
Definition wsum (f : str -> N) (m : cmap) : N := sumN (map (fun wk => snd wk * f (fst wk)) m).
Definition fsum (f : str -> N) (ws : list str) : N := sumN (map f ws).

Lemma wsum_add_count : forall f m w n, wsum f (add_count m w n) = wsum f m + n * f w.
Proof.
  intros f m w n; induction m as [|[w' k] r IH]; unfold wsum in *; cbn [add_count map sumN fold_right fst snd].
  - lia.
  - destruct (nlist_eqb w' w) eqn:E; cbn [map sumN fold_right fst snd].
    + apply nlist_eqb_eq in E. subst. lia.
    + unfold sumN in IH. rewrite IH. lia.
Qed.

Lemma wsum_count_words : forall f ws m,
  wsum f (fold_left (fun m w => add_count m w 1) ws m) = wsum f m + fsum f ws.
Proof.
  intros f ws; induction ws as [|w r IH]; intros m; cbn [fold_left]; unfold fsum in *; cbn [map sumN fold_right].
  - lia.
  - rewrite IH, wsum_add_count. unfold sumN. lia.
Qed.

Lemma wsum_merge_fold : forall f m acc,
  wsum f (fold_left (fun a wk => add_count a (fst wk) (snd wk)) m acc) = wsum f acc + wsum f m.
Proof.
  intros f m; induction m as [|[w k] r IH]; intros acc; cbn [fold_left fst snd].
  - unfold wsum at 3. cbn [map sumN fold_right]. lia.
  - rewrite IH, wsum_add_count. unfold wsum at 4. cbn [map sumN fold_right fst snd].
    fold (sumN (map (fun wk => snd wk * f (fst wk)) r)). fold (wsum f r). lia.
Qed.

Lemma wsum_count_all_gen : forall f ls acc,
  wsum f (fold_left merge_map (map count_line ls) acc) = wsum f acc + fsum f (concat ls).
Proof.
  intros f ls; induction ls as [|l r IH]; intros acc; cbn [map fold_left concat].
  - unfold fsum. cbn [map sumN fold_right]. lia.
  - rewrite IH. unfold merge_map. rewrite wsum_merge_fold. unfold count_line.
    rewrite wsum_count_words. unfold fsum. rewrite map_app.
    unfold sumN. rewrite fold_right_app.
    assert (Hs : forall (a b : list N), fold_right N.add (fold_right N.add 0 b) a = fold_right N.add 0 a + fold_right N.add 0 b).
    { induction a as [|x a IHa]; intros b; cbn [fold_right]; [lia | rewrite IHa; lia]. }
    rewrite Hs. unfold wsum at 2. cbn [map fold_right sumN]. lia.
Qed.

(** the folded map, weighted by any function of the word, is the plain sum over
    all word occurrences of all lines *)
Lemma wsum_count_all : forall f ls, wsum f (count_all ls) = fsum f (concat ls).
Proof.
  intros f ls. unfold count_all. rewrite wsum_count_all_gen. unfold wsum. cbn [map sumN fold_right]. lia.
Qed.

Lemma fsum_perm : forall f a b, Permutation a b -> fsum f a = fsum f b.
Proof.
  intros f a b H; induction H; unfold fsum in *; cbn [map sumN fold_right] in *; unfold sumN in *; lia.
Qed.

(** [lookup] in terms of [wsum] needs distinct keys *)
Definition keys (m : cmap) : list str := map fst m.

Lemma add_count_keys : forall m w n, NoDup (keys m) -> NoDup (keys (add_count m w n)) /\
  (forall x, In x (keys (add_count m w n)) <-> x = w \/ In x (keys m)).
Proof.
  intros m w n; induction m as [|[w' k] r IH]; intros Hnd; unfold keys in *; cbn [add_count map fst In].
  - split; [constructor; [intros []| constructor] |]. intros x; split; intros H.
    + destruct H as [H|[]]. left. now symmetry.
    + destruct H as [H|[]]. left. now symmetry.
  - inversion Hnd as [|? ? Hni Hnd']; subst. destruct (nlist_eqb w' w) eqn:E; cbn [map fst In].
    + apply nlist_eqb_eq in E. subst. split; [exact Hnd|]. intros x. intuition congruence.
    + destruct (IH Hnd') as [IH1 IH2]. split.
      * constructor; [|exact IH1]. intros Hin. apply IH2 in Hin as [->|Hin]; [|tauto].
        rewrite nlist_eqb_refl in E. discriminate.
      * intros x. rewrite IH2. intuition congruence.
Qed.

Lemma lookup_notin : forall m w, ~ In w (keys m) -> lookup m w = 0.
Proof.
  induction m as [|[w' k] r IH]; intros w H; cbn [lookup]; [reflexivity|].
  unfold keys in *. cbn [map fst In] in H. destruct (nlist_eqb w' w) eqn:E.
  - apply nlist_eqb_eq in E. tauto.
  - apply IH. tauto.
Qed.

Lemma lookup_add_count : forall m w n x,
  lookup (add_count m w n) x = lookup m x + (if nlist_eqb w x then n else 0).
Proof.
  induction m as [|[w' k] r IH]; intros w n x; cbn [add_count lookup].
  - destruct (nlist_eqb w x); lia.
  - destruct (nlist_eqb w' w) eqn:E; cbn [lookup].
    + apply nlist_eqb_eq in E. subst. destruct (nlist_eqb w x); lia.
    + destruct (nlist_eqb w' x) eqn:E2.
      * apply nlist_eqb_eq in E2. subst. destruct (nlist_eqb w x) eqn:E3; [|lia].
        apply nlist_eqb_eq in E3. subst. rewrite nlist_eqb_refl in E. discriminate.
      * apply IH.
Qed.

Definition ind (x : str) : str -> N := fun w => if nlist_eqb w x then 1 else 0.
Lemma fsum_ind_occ : forall x ws, fsum (ind x) ws = occ x ws.
Proof.
  intros x ws; induction ws as [|w r IH]; unfold fsum in *; cbn [map sumN fold_right occ]; [reflexivity|].
  unfold sumN in IH. rewrite IH. reflexivity.
Qed.

Lemma lookup_count_words : forall ws m x,
  lookup (fold_left (fun m w => add_count m w 1) ws m) x = lookup m x + occ x ws.
Proof.
  induction ws as [|w r IH]; intros m x; cbn [fold_left occ]; [lia|].
  rewrite IH, lookup_add_count. lia.
Qed.

Lemma lookup_merge_fold : forall m acc x,
  lookup (fold_left (fun a wk => add_count a (fst wk) (snd wk)) m acc) x = lookup acc x + wsum (ind x) m.
Proof.
  induction m as [|[w k] r IH]; intros acc x; cbn [fold_left fst snd].
  - unfold wsum. cbn [map sumN fold_right]. lia.
  - rewrite IH, lookup_add_count. unfold wsum, ind. cbn [map sumN fold_right fst snd].
    destruct (nlist_eqb w x); unfold sumN; lia.
Qed.

Lemma lookup_count_all_gen : forall ls acc x,
  lookup (fold_left merge_map (map count_line ls) acc) x = lookup acc x + occ x (concat ls).
Proof.
  induction ls as [|l r IH]; intros acc x; cbn [map fold_left concat].
  - cbn [occ]. lia.
  - rewrite IH. unfold merge_map. rewrite lookup_merge_fold. unfold count_line.
    rewrite wsum_count_words. unfold wsum at 1. cbn [map sumN fold_right].
    rewrite fsum_ind_occ, <- !fsum_ind_occ. unfold fsum. rewrite map_app. unfold sumN.
    rewrite fold_right_app.
    assert (Hs : forall (a b : list N), fold_right N.add (fold_right N.add 0 b) a = fold_right N.add 0 a + fold_right N.add 0 b).
    { induction a as [|y a IHa]; intros b; cbn [fold_right]; [lia | rewrite IHa; lia]. }
    rewrite Hs. lia.
Qed.

(** the folded count of a word is its number of occurrences in all lines *)
Lemma lookup_count_all_l : forall ls x, lookup (count_all ls) x = occ x (concat ls).
Proof. intros ls x. unfold count_all. rewrite lookup_count_all_gen. cbn [lookup]. lia. Qed.

Lemma occ_perm : forall x a b, Permutation a b -> occ x a = occ x b.
Proof. intros x a b H. rewrite <- !fsum_ind_occ. now apply fsum_perm. Qed.

(** frequencies of the initial vocabulary are plain sums over word occurrences *)
Lemma pair_freq_corpus_of : forall m p,
  pair_freq (corpus_of m) p = wsum (fun w => count_pair p (word_pairs (init_word w))) m.
Proof.
  intros m p; induction m as [|[w k] r IH]; unfold wsum in *; cbn [corpus_of map pair_freq fst snd sumN fold_right].
  - reflexivity.
  - unfold corpus_of in IH. rewrite IH. reflexivity.
Qed.

Lemma pair_freq_lines : forall ls p,
  pair_freq (corpus_of (count_all ls)) p = fsum (fun w => count_pair p (word_pairs (init_word w))) (concat ls).
Proof. intros ls p. now rewrite pair_freq_corpus_of, wsum_count_all. Qed.

(** ** Schedule freedom, part 1: counts and pair frequencies depend only on the
    multiset of word occurrences — not on the order of the lines, nor on how the
    words are grouped into lines or the lines into per-thread batches. *)
Lemma count_schedule_free_l : forall ls ls', Permutation (concat ls) (concat ls') ->
  (forall w, lookup (count_all ls) w = lookup (count_all ls') w) /\
  (forall p, pair_freq (corpus_of (count_all ls)) p = pair_freq (corpus_of (count_all ls')) p).
Proof.
  intros ls ls' H. split.
  - intros w. rewrite !lookup_count_all_l. now apply occ_perm.
  - intros p. rewrite !pair_freq_lines. now apply fsum_perm.
Qed.

Lemma perm_concat : forall (ls ls' : list (list str)), Permutation ls ls' -> Permutation (concat ls) (concat ls').
Proof.
  intros ls ls' H; induction H; cbn [concat].
  - constructor.
  - now apply Permutation_app_head.
  - rewrite !app_assoc. apply Permutation_app_tail. apply Permutation_app_comm.
  - etransitivity; eassumption.
Qed.

(** ** Schedule freedom, part 2: the folded maps are permutations of each other,
    hence the accepted runs (and tables) are the same. *)
Definition Pos (m : cmap) : Prop := Forall (fun wk => snd wk <> 0) m.

Lemma add_count_pos : forall m w n, n <> 0 -> Pos m -> Pos (add_count m w n).
Proof.
  intros m w n Hn; induction m as [|[w' k] r IH]; intros Hp; cbn [add_count].
  - constructor; [exact Hn | constructor].
  - inversion Hp as [|? ? Hk Hr]; subst. cbn [snd] in Hk. destruct (nlist_eqb w' w).
    + constructor; [cbn [snd]; lia | exact Hr].
    + constructor; [exact Hk | now apply IH].
Qed.

Definition Good (m : cmap) : Prop := NoDup (keys m) /\ Pos m.

Lemma add_count_good : forall m w n, n <> 0 -> Good m -> Good (add_count m w n).
Proof. intros m w n Hn [H1 H2]. split; [now apply add_count_keys | now apply add_count_pos]. Qed.

Lemma count_words_good : forall ws m, Good m -> Good (fold_left (fun m w => add_count m w 1) ws m).
Proof. induction ws as [|w r IH]; intros m H; cbn [fold_left]; [exact H|]. apply IH. apply add_count_good; [lia | exact H]. Qed.

Lemma merge_fold_good : forall m acc, Pos m -> Good acc ->
  Good (fold_left (fun a wk => add_count a (fst wk) (snd wk)) m acc).
Proof.
  induction m as [|[w k] r IH]; intros acc Hp H; cbn [fold_left fst snd]; [exact H|].
  inversion Hp as [|? ? Hk Hr]; subst. apply IH; [exact Hr|]. now apply add_count_good.
Qed.

Lemma good_nil : Good [].
Proof. split; constructor. Qed.

Lemma count_all_good_gen : forall ls acc, Good acc -> Good (fold_left merge_map (map count_line ls) acc).
Proof.
  induction ls as [|l r IH]; intros acc H; cbn [map fold_left]; [exact H|].
  apply IH. unfold merge_map. apply merge_fold_good; [|exact H].
  unfold count_line. apply count_words_good. apply good_nil.
Qed.
Lemma count_all_good : forall ls, Good (count_all ls).
Proof. intros ls. apply count_all_good_gen. apply good_nil. Qed.

Lemma lookup_in : forall m w, lookup m w <> 0 -> In (w, lookup m w) m.
Proof.
  induction m as [|[w' k] r IH]; intros w H; cbn [lookup] in *; [congruence|].
  destruct (nlist_eqb w' w) eqn:E.
  - apply nlist_eqb_eq in E. subst. now left.
  - right. now apply IH.
Qed.

Lemma lookup_remove : forall l1 w k l2 x, x <> w ->
  lookup (l1 ++ (w, k) :: l2) x = lookup (l1 ++ l2) x.
Proof.
  induction l1 as [|[w' k'] r IH]; intros w k l2 x Hx; cbn [app lookup].
  - destruct (nlist_eqb w x) eqn:E; [|reflexivity]. apply nlist_eqb_eq in E. congruence.
  - destruct (nlist_eqb w' x); [reflexivity | now apply IH].
Qed.

Lemma cmap_perm : forall m m', Good m -> Good m' ->
  (forall w, lookup m w = lookup m' w) -> Permutation m m'.
Proof.
  induction m as [|[w k] r IH]; intros m' [Hnd Hp] [Hnd' Hp'] Hl.
  - destruct m' as [|[w' k'] r']; [constructor|].
    specialize (Hl w'). cbn [lookup] in Hl. rewrite nlist_eqb_refl in Hl.
    inversion Hp'; subst. cbn [snd] in *. congruence.
  - inversion Hp as [|? ? Hk Hr]; subst. cbn [snd] in Hk.
    unfold keys in Hnd. cbn [map fst] in Hnd. inversion Hnd as [|? ? Hni Hndr]; subst.
    assert (Hw : lookup m' w = k). { rewrite <- Hl. cbn [lookup]. now rewrite nlist_eqb_refl. }
    assert (Hin : In (w, k) m'). { rewrite <- Hw. apply lookup_in. congruence. }
    apply in_split in Hin as (l1 & l2 & ->).
    etransitivity; [|apply Permutation_middle]. constructor.
    unfold keys in Hnd'. rewrite map_app in Hnd'. cbn [map fst] in Hnd'.
    pose proof (NoDup_remove_1 _ _ _ Hnd') as Hnd1. pose proof (NoDup_remove_2 _ _ _ Hnd') as Hni1.
    rewrite <- map_app in Hnd1, Hni1.
    apply IH.
    + split; assumption.
    + split; [exact Hnd1|]. unfold Pos in *. rewrite Forall_app in *. destruct Hp' as [Ha Hb].
      inversion Hb; subst. tauto.
    + intros x. destruct (nlist_eqb w x) eqn:E.
      * apply nlist_eqb_eq in E. subst x. rewrite (lookup_notin r w Hni). symmetry. now apply lookup_notin.
      * specialize (Hl x). cbn [lookup] in Hl. rewrite E in Hl. rewrite Hl. apply lookup_remove.
        intros ->. rewrite nlist_eqb_refl in E. discriminate.
Qed.

Lemma count_all_perm : forall ls ls', Permutation (concat ls) (concat ls') ->
  Permutation (count_all ls) (count_all ls').
Proof.
  intros ls ls' H. apply cmap_perm; try apply count_all_good.
  intros w. now apply count_schedule_free_l.
Qed.

(** runs do not depend on the order of the vocabulary *)
Lemma pair_freq_perm : forall c c' p, Permutation c c' -> pair_freq c p = pair_freq c' p.
Proof.
  intros c c' p H; induction H as [|[w k] ? ? ? IH|[w k] [w' k'] ?|]; cbn [pair_freq]; try lia.
Qed.
Lemma all_pairs_perm : forall c c' p, Permutation c c' -> In p (all_pairs c) -> In p (all_pairs c').
Proof.
  intros c c' p H Hin. unfold all_pairs in *. apply in_flat_map in Hin as (x & Hx & Hp).
  apply in_flat_map. exists x. split; [|exact Hp]. eapply Permutation_in; eassumption.
Qed.
Lemma StepOK_perm : forall c c' p, Permutation c c' -> StepOK c p -> StepOK c' p.
Proof.
  intros c c' p H (H1 & H2 & H3). split; [eapply all_pairs_perm; eassumption|].
  rewrite <- (pair_freq_perm c c' p H). split; [exact H2|]. intros q. rewrite <- (pair_freq_perm c c' q H). apply H3.
Qed.
Lemma Run_perm : forall c k ps, Run c k ps -> forall c', Permutation c c' -> Run c' k ps.
Proof.
  intros c k ps H; induction H as [c|c k Hex|c k p ps Hok Hrun IH]; intros c' Hp.
  - constructor.
  - constructor. intros q. rewrite <- (pair_freq_perm c c' q Hp). apply Hex.
  - constructor; [eapply StepOK_perm; eassumption|]. apply IH. unfold apply_pair. now apply Permutation_map.
Qed.

Lemma train_schedule_free_l : forall ls ls', Permutation (concat ls) (concat ls') ->
  forall k ps, Run (corpus_of (count_all ls)) k ps <-> Run (corpus_of (count_all ls')) k ps.
Proof.
  intros ls ls' H k ps. pose proof (count_all_perm _ _ H) as Hp.
  split; intros Hr; eapply Run_perm; try exact Hr; unfold corpus_of; apply Permutation_map;
    [exact Hp | now apply Permutation_sym].
Qed.

(** ** The counting pool: every schedule delivers every line exactly once *)
Lemma held_set_some : forall h i l, nth_error h i = Some None ->
  Permutation (held_lines (set_nth h i (Some l))) (l :: held_lines h).
Proof.
  induction h as [|o r IH]; intros i l H; destruct i as [|i]; cbn [nth_error] in H; try discriminate.
  - injection H as ->. unfold held_lines. cbn [set_nth flat_map app]. apply Permutation_refl.
  - unfold held_lines in *. cbn [set_nth flat_map]. specialize (IH i l H).
    etransitivity; [apply Permutation_app_head; exact IH|]. apply Permutation_sym, Permutation_middle.
Qed.
Lemma held_set_none : forall h i l, nth_error h i = Some (Some l) ->
  Permutation (l :: held_lines (set_nth h i None)) (held_lines h).
Proof.
  induction h as [|o r IH]; intros i l H; destruct i as [|i]; cbn [nth_error] in H; try discriminate.
  - injection H as ->. unfold held_lines. cbn [set_nth flat_map app]. apply Permutation_refl.
  - unfold held_lines in *. cbn [set_nth flat_map]. specialize (IH i l H).
    etransitivity; [apply Permutation_middle|]. now apply Permutation_app_head.
Qed.
Lemma set_nth_length : forall A (h : list A) i x, length (set_nth h i x) = length h.
Proof. induction h as [|y r IH]; intros [|i] x; cbn [set_nth length]; auto. Qed.

Definition pool_all (s : pool) : list (list str) := recv s ++ chan s ++ held_lines (held s) ++ queue s.

Lemma pool_step_inv : forall cap s t, pool_step cap s t -> Permutation (pool_all s) (pool_all t).
Proof.
  intros cap s t H; destruct H as [i l q h ch rc Hn | i l q h ch rc Hn Hc | l q h ch rc];
    unfold pool_all; cbn [recv chan held queue].
  - apply Permutation_app_head, Permutation_app_head.
    etransitivity; [apply Permutation_sym, Permutation_middle|].
    etransitivity; [|apply Permutation_app_tail, Permutation_sym, held_set_some; exact Hn]. apply Permutation_refl.
  - apply Permutation_app_head. rewrite <- app_assoc. apply Permutation_app_head. cbn [app].
    etransitivity; [apply Permutation_app_tail, Permutation_sym, held_set_none; exact Hn|]. apply Permutation_refl.
  - rewrite <- app_assoc. apply Permutation_refl.
Qed.

Lemma held_repeat_none : forall n, held_lines (repeat None n) = [].
Proof. induction n as [|n IH]; unfold held_lines in *; cbn [repeat flat_map app]; auto. Qed.

Lemma pool_inv_l : forall cap lines threads s, pool_reach cap (pool_init lines threads) s ->
  Permutation (pool_all s) lines /\ length (held s) = threads.
Proof.
  intros cap lines threads s H.
  remember (pool_init lines threads) as s0 eqn:E. induction H as [s|s t u Hr IH Hs]; subst.
  - unfold pool_all, pool_init. cbn [recv chan held queue app]. rewrite held_repeat_none. cbn [app].
    split; [apply Permutation_refl | apply repeat_length].
  - destruct (IH eq_refl) as [IH1 IH2]. split.
    + etransitivity; [apply Permutation_sym, (pool_step_inv _ _ _ Hs) | exact IH1].
    + destruct Hs; cbn [held] in *; rewrite ?set_nth_length; exact IH2.
Qed.

(** when the fold has ended the main thread has received each line exactly once *)
Lemma pool_terminal_l : forall cap lines threads s, pool_reach cap (pool_init lines threads) s ->
  pool_done s -> Permutation (recv s) lines.
Proof.
  intros cap lines threads s H (Hq & Hh & Hc). apply pool_inv_l in H as [H _].
  unfold pool_all in H. rewrite Hq, Hh, Hc in H. cbn [app] in H. now rewrite app_nil_r in H.
Qed.

(** no deadlock: with at least one worker and channel capacity >= 1 some step is
    enabled in every reachable state in which the fold has not ended *)
Lemma held_lines_nil : forall h, held_lines h = [] -> forall i o, nth_error h i = Some o -> o = None.
Proof.
  induction h as [|x r IH]; intros H i o Hn; destruct i; cbn [nth_error] in Hn; try discriminate.
  - injection Hn as <-. destruct x; [discriminate H | reflexivity].
  - unfold held_lines in *. cbn [flat_map] in H. apply app_eq_nil in H as [_ H]. eapply IH; eassumption.
Qed.
Lemma held_lines_some : forall h, held_lines h <> [] -> exists i l, nth_error h i = Some (Some l).
Proof.
  induction h as [|x r IH]; intros H; [now destruct H|].
  destruct x as [l|].
  - exists 0%nat, l. reflexivity.
  - unfold held_lines in *. cbn [flat_map app] in H. destruct (IH H) as (i & l & Hi). exists (S i), l. exact Hi.
Qed.

Lemma pool_progress_l : forall cap lines threads s, (0 < cap)%nat -> (0 < threads)%nat ->
  pool_reach cap (pool_init lines threads) s -> ~ pool_done s -> exists t, pool_step cap s t.
Proof.
  intros cap lines threads s Hcap Hth Hr Hnd. apply pool_inv_l in Hr as [_ Hlen].
  destruct s as [q h ch rc]. cbn [held] in Hlen. unfold pool_done in Hnd. cbn [queue held chan] in Hnd.
  destruct ch as [|l ch].
  - destruct (held_lines h) as [|x hl] eqn:Eh.
    + destruct q as [|l q]; [exfalso; apply Hnd; auto|].
      destruct h as [|o r]; [cbn [length] in Hlen; lia|].
      pose proof (held_lines_nil _ Eh 0%nat o eq_refl) as ->.
      eexists. apply (Pull cap 0%nat l q (None :: r) [] rc). reflexivity.
    + destruct (held_lines_some h) as (i & l & Hi); [congruence|].
      eexists. apply (Send cap i l q h [] rc Hi). cbn [length]. lia.
  - eexists. apply Recv.
Qed.

(** every schedule is finite: the measure decreases with every step *)
Definition pool_measure (s : pool) : nat :=
  (3 * length (queue s) + 2 * length (held_lines (held s)) + length (chan s))%nat.
Lemma pool_step_decreases : forall cap s t, pool_step cap s t -> (pool_measure t < pool_measure s)%nat.
Proof.
  intros cap s t H; destruct H as [i l q h ch rc Hn | i l q h ch rc Hn Hc | l q h ch rc];
    unfold pool_measure; cbn [queue held chan length].
  - rewrite (Permutation_length (held_set_some h i l Hn)). cbn [length]. lia.
  - rewrite <- (Permutation_length (held_set_none h i l Hn)). rewrite app_length. cbn [length]. lia.
  - lia.
Qed.

(** the table of any accepted run is the same whichever way the pool delivered the lines *)
Lemma pool_run_l : forall cap lines threads s, pool_reach cap (pool_init lines threads) s -> pool_done s ->
  forall k ps, Run (corpus_of (count_all (recv s))) k ps <-> Run (corpus_of (count_all lines)) k ps.
Proof.
  intros cap lines threads s H Hd k ps. apply train_schedule_free_l, perm_concat.
  eapply pool_terminal_l; eassumption.
Qed.

(** C19 proofs, part 3: the executable statement holds of the model's own output. *)
From TU Require Import Base C19_Model C19_Proofs.
From Coq Require Import Lia ZifyBool ZifyNat ZifyN.
Open Scope N_scope.
Arguments N.add : simpl never.
Arguments N.sub : simpl never.
Arguments N.mul : simpl never.
Arguments N.div : simpl never.
Arguments N.modulo : simpl never.
Arguments N.eqb : simpl never.
Arguments N.ltb : simpl never.
Arguments N.leb : simpl never.
Arguments N.of_nat : simpl never.
Arguments N.to_nat : simpl never.

(** * glue round trips *)
Lemma v_n_n_v : forall x, v_n (n_v x) = x.
Proof. intros x. unfold v_n, n_v, v_z. apply N2Z.id. Qed.
Lemma v_list_n : forall l, v_list v_n (list_v n_v l) = l.
Proof.
  intros l. unfold v_list, list_v. rewrite map_map. rewrite <- (map_id l) at 2. apply map_ext. apply v_n_n_v.
Qed.
Lemma v_list_list_n : forall l, v_list (v_list v_n) (list_v (list_v n_v) l) = l.
Proof.
  intros l. unfold v_list at 1, list_v at 1. rewrite map_map. rewrite <- (map_id l) at 2. apply map_ext. apply v_list_n.
Qed.

(** * UTF-8 bytes are bytes *)
Lemma utf8_bytes : forall c, c < 1114112 -> Forall (fun b => b < 256) (utf8 c).
Proof.
  intros c H. unfold utf8.
  destruct (c <? 128) eqn:E1; [apply N.ltb_lt in E1; repeat constructor; lia|].
  destruct (c <? 2048) eqn:E2.
  { apply N.ltb_lt in E2. repeat constructor.
    - assert (c / 64 < 32) by (apply N.div_lt_upper_bound; lia). lia.
    - assert (c mod 64 < 64) by (apply N.mod_lt; lia). lia. }
  destruct (c <? 65536) eqn:E3.
  { apply N.ltb_lt in E3. repeat constructor.
    - assert (c / 4096 < 16) by (apply N.div_lt_upper_bound; lia). lia.
    - assert ((c / 64) mod 64 < 64) by (apply N.mod_lt; lia). lia.
    - assert (c mod 64 < 64) by (apply N.mod_lt; lia). lia. }
  repeat constructor.
  - assert (c / 262144 < 5) by (apply N.div_lt_upper_bound; lia). lia.
  - assert ((c / 4096) mod 64 < 64) by (apply N.mod_lt; lia). lia.
  - assert ((c / 64) mod 64 < 64) by (apply N.mod_lt; lia). lia.
  - assert (c mod 64 < 64) by (apply N.mod_lt; lia). lia.
Qed.
Lemma utf8s_bytes : forall s, Forall (fun c => c < 1114112) s -> Forall (fun b => b < 256) (utf8s s).
Proof.
  intros s H; induction H as [|c r Hc Hr IH]; unfold utf8s in *; cbn [flat_map]; [constructor|].
  apply Forall_app. split; [now apply utf8_bytes | exact IH].
Qed.

Lemma drop_ws_forall : forall (P : N -> Prop) s, Forall P s -> Forall P (drop_ws s).
Proof.
  intros P s H; induction H as [|c r Hc Hr IH]; cbn [drop_ws]; [constructor|].
  destruct (is_ws c); [exact IH | now constructor].
Qed.
Lemma strip_forall : forall (P : N -> Prop) s, Forall P s -> Forall P (strip_trailing_ws s).
Proof.
  intros P s H. unfold strip_trailing_ws. apply Forall_rev. apply drop_ws_forall. now apply Forall_rev.
Qed.

Lemma decode_bytes : forall tbl ids, Forall (fun b => b < 256) ids -> decode tbl ids = ids.
Proof.
  intros tbl ids H; induction H as [|b r Hb Hr IH]; unfold decode in *; cbn [flat_map]; [reflexivity|].
  apply N.ltb_lt in Hb. rewrite Hb. cbn [app]. now rewrite IH.
Qed.

(** * the table part *)
Lemma out_ids_table : forall es s,
  map (fun e => v_z (v_nth 0 e)) (map (fun ie => L [nat_v (fst ie); list_v n_v (snd ie)]) (combine (seq s (length es)) es))
  = map Z.of_nat (seq s (length es)).
Proof.
  induction es as [|e r IH]; intros s; cbn [length seq combine map]; [reflexivity|].
  rewrite IH. reflexivity.
Qed.
Lemma out_entries_table : forall es s,
  map (fun e => v_list v_n (v_nth 1 e)) (map (fun ie => L [nat_v (fst ie); list_v n_v (snd ie)]) (combine (seq s (length es)) es))
  = es.
Proof.
  induction es as [|e r IH]; intros s; cbn [length seq combine map]; [reflexivity|].
  rewrite IH. cbn [v_nth nth fst snd]. now rewrite v_list_n.
Qed.
Lemma ids_from_seq : forall n s, ids_from (Z.of_nat s) (map Z.of_nat (seq s n)) = true.
Proof.
  induction n as [|n IH]; intros s; cbn [seq map ids_from]; [reflexivity|].
  rewrite Z.eqb_refl. cbn [andb]. replace (Z.of_nat s + 1)%Z with (Z.of_nat (S s)) by lia. apply IH.
Qed.
Lemma table_shape : forall es s,
  forallb (fun e => match e with L [I _; L _] => true | _ => false end)
    (map (fun ie => L [nat_v (fst ie); list_v n_v (snd ie)]) (combine (seq s (length es)) es)) = true.
Proof. induction es as [|e r IH]; intros s; cbn [length seq combine map forallb]; [reflexivity|]. apply IH. Qed.

Lemma tokl_eqb_refl : forall l, tokl_eqb l l = true.
Proof. induction l as [|x r IH]; cbn [tokl_eqb]; [reflexivity|]. unfold tok_eqb. now rewrite nlist_eqb_refl, IH. Qed.

Lemma t2i_seq : forall n s,
  t2i_ok (N.of_nat s) (map (fun i => L [n_v (256 + N.of_nat i)]) (seq s n)) = true.
Proof.
  induction n as [|n IH]; intros s; cbn [seq map t2i_ok]; [reflexivity|].
  unfold n_v at 1. rewrite Z.eqb_refl. cbn [andb].
  replace (N.of_nat s + 1) with (N.of_nat (S s)) by lia. apply IH.
Qed.

Lemma toks_ok_model : forall tbl tests, Forall (Forall (fun c => c < 1114112)) tests ->
  toks_ok tbl tests (map (fun s => L [list_v n_v (utf8s (strip_trailing_ws s)); list_v n_v (strip_trailing_ws s)]) tests) = true.
Proof.
  intros tbl tests H; induction H as [|s r Hs Hr IH]; cbn [map toks_ok]; [reflexivity|].
  cbn [v_nth nth]. rewrite !v_list_n, IH.
  pose proof (utf8s_bytes _ (strip_forall _ _ Hs)) as Hb.
  rewrite (decode_bytes _ _ Hb), !nlist_eqb_refl.
  assert (Hf : forallb (fun id => id <? 256 + N.of_nat (length tbl)) (utf8s (strip_trailing_ws s)) = true).
  { apply forallb_forall. intros b Hin. rewrite Forall_forall in Hb. specialize (Hb b Hin). apply N.ltb_lt. lia. }
  rewrite Hf. reflexivity.
Qed.

Lemma train_length : forall k c, (length (train k c) <= k)%nat.
Proof. intros k c. eapply run_length_l. apply train_run_l. Qed.

Lemma bytes256_length : length bytes256 = 256%nat.
Proof. unfold bytes256. now rewrite map_length, seq_length. Qed.

Lemma shape_run : forall v, shape_ok (run_C19 v) = true.
Proof.
  intros v. unfold run_C19, shape_ok. unfold table_v at 1. unfold list_v at 1 2. unfold n_v at 1.
  apply table_shape.
Qed.

Lemma check_run_l : forall v, wf_input v -> check_C19 v (run_C19 v) = true.
Proof.
  intros v Hwf. unfold check_C19. rewrite shape_run. cbn [andb].
  set (c := in_corpus v). set (k := num_merges v). set (es := map merge (train k c)).
  assert (H1 : out_ids (run_C19 v) = map Z.of_nat (seq 0 (length es))).
  { unfold out_ids, run_C19, table_v. cbn [v_nth nth v_list]. apply out_ids_table. }
  assert (H2 : out_entries (run_C19 v) = es).
  { unfold out_entries, run_C19, table_v. cbn [v_nth nth v_list]. apply out_entries_table. }
  assert (H3 : v_nth 1 (run_C19 v) =
    L (map (fun s => L [list_v n_v (utf8s (strip_trailing_ws s)); list_v n_v (strip_trailing_ws s)]) (in_tests v))) by reflexivity.
  assert (H4 : v_nth 2 (run_C19 v) = n_v (256 + N.of_nat (length es) + in_ntok v)) by reflexivity.
  assert (H5 : v_nth 3 (run_C19 v) = list_v (list_v n_v) (bytes256 ++ es ++ repeat [] (N.to_nat (in_ntok v)))) by reflexivity.
  assert (H6 : v_nth 4 (run_C19 v) = L (map (fun i => L [n_v (256 + N.of_nat i)]) (seq 0 (length es)))) by reflexivity.
  rewrite H1, H2, H3, H4, H5, H6. clear H1 H2 H3 H4 H5 H6.
  change 0%Z with (Z.of_nat 0). rewrite ids_from_seq. cbn [andb].
  assert (Hlen : Nat.leb (length es) k = true).
  { apply Nat.leb_le. unfold es. rewrite map_length. apply train_length. }
  rewrite Hlen. cbn [andb].
  assert (Hacc : accepts c k es = true) by (apply accepts_complete_l, train_run_l).
  rewrite Hacc. cbn [andb].
  rewrite (toks_ok_model es _ Hwf). cbn [andb].
  rewrite v_n_n_v, N.eqb_refl. cbn [andb].
  rewrite v_list_list_n.
  rewrite !app_length, repeat_length, bytes256_length, Nat.eqb_refl. cbn [andb].
  rewrite app_assoc, firstn_app.
  replace (256 + length es - length (bytes256 ++ es))%nat with 0%nat by (rewrite app_length, bytes256_length; lia).
  rewrite firstn_all2 by (rewrite app_length, bytes256_length; lia).
  cbn [firstn]. rewrite app_nil_r, tokl_eqb_refl. cbn [andb].
  rewrite map_length, seq_length, Nat.eqb_refl. cbn [andb].
  change 0 with (N.of_nat 0). apply t2i_seq.
Qed.

(** * soundness of the executable statement against the Prop-level one *)
Lemma ids_from_spec : forall l s, ids_from (Z.of_nat s) l = true -> l = map Z.of_nat (seq s (length l)).
Proof.
  induction l as [|i r IH]; intros s H; cbn [ids_from length seq map] in *; [reflexivity|].
  apply andb_true_iff in H as [H1 H2]. apply Z.eqb_eq in H1. subst i.
  replace (Z.of_nat s + 1)%Z with (Z.of_nat (S s)) in H2 by lia. now rewrite <- (IH _ H2).
Qed.

Lemma check_sound_l : forall v out, check_C19 v out = true ->
  out_ids out = map Z.of_nat (seq 0 (length (out_entries out))) /\
  exists ps, Run (in_corpus v) (num_merges v) ps /\ map merge ps = out_entries out.
Proof.
  intros v out H. unfold check_C19 in H.
  repeat (apply andb_true_iff in H as [H ?]).
  split.
  - replace (length (out_entries out)) with (length (out_ids out)).
    + apply ids_from_spec. assumption.
    + unfold out_ids, out_entries, v_list. destruct (v_nth 0 out); [reflexivity|]. now rewrite !map_length.
  - apply accepts_sound_l. assumption.
Qed.

(** * everything the check establishes about an implementation output *)
Lemma in_corpus_ok : forall v, CorpusOK [] (in_corpus v).
Proof. intros v. apply corpus_of_ok. Qed.

Lemma checked_table_l : forall v out, check_C19 v out = true ->
  out_ids out = map Z.of_nat (seq 0 (length (out_entries out))) /\
  exists ps, map merge ps = out_entries out /\ (length ps <= num_merges v)%nat /\
    (forall i p, nth_error ps i = Some p ->
       StepOK (state_after (in_corpus v) (firstn i ps)) p /\
       TokOK (firstn i (out_entries out)) (fst p) /\ TokOK (firstn i (out_entries out)) (snd p) /\
       (2 <= length (merge p))%nat) /\
    ((length ps < num_merges v)%nat -> Exhausted (state_after (in_corpus v) ps)).
Proof.
  intros v out H. destruct (check_sound_l v out H) as [Hids (ps & Hrun & Hps)].
  split; [exact Hids|]. exists ps. split; [exact Hps|].
  destruct (run_table_wf_l _ _ _ (in_corpus_ok v) Hrun) as [Hlen Hwf].
  split; [exact Hlen|]. split.
  - intros i p Hn. split; [eapply run_entry_max_l; eassumption|].
    rewrite <- Hps, firstn_map. now apply Hwf.
  - now apply run_short_exhausted_l.
Qed.

(** C02: BPE tokenization is lossless.
    input  = (tbl maxv toks prefix suffix text)
               tbl: byte strings in merge-id order (the merge file); maxv: () or (n) = max_vocab_size;
               toks: special tokens (code-point strings, pad = the first); prefix / suffix: special tokens;
               text: code points
    output = ((id ...) dec vocab_size)   ids of [tokenize(text, true)], dec = () or (bytes) of
               [de_tokenize(ids, true)], or () when the constructor fails *)
From TU Require Import Base BPE_Model.
Open Scope N_scope.

Definition v_config (v : val) : config :=
  Cfg (v_table (v_nth 0 v)) (v_opt v_n (v_nth 1 v)) (v_list v_str (v_nth 2 v))
      (v_list v_str (v_nth 3 v)) (v_list v_str (v_nth 4 v)).

Definition run_C02 (v : val) : val :=
  let c := v_config v in
  match bpe_tokenize c (v_str (v_nth 5 v)) with
  | Some ids => L [list_v n_v ids; L [list_v n_v (bpe_decode (eff_table c) ids)]; n_v (vocab_size c)]
  | None => L []
  end.

(** the constructor succeeds: pad (= first token) exists, prefix / suffix tokens are special tokens *)
Definition config_ok (c : config) : bool :=
  negb (is_nil (c_toks c))
  && forallb (fun t => match special_id c t with Some _ => true | None => false end) (c_prefix c ++ c_suffix c).

(** the property on an implementation output: every id is a vocabulary id, and the decoded
    bytes are the UTF-8 encoding of the text without its trailing whitespace *)
Definition check_C02 (v out : val) : bool :=
  let c := v_config v in
  let s := v_str (v_nth 5 v) in
  if config_ok c then
    match out with
    | L [idsv; L [decv]; _] =>
      let ids := v_list v_n idsv in
      val_eqb idsv (list_v n_v ids)
      && forallb (fun id => id <? vocab_size c) ids
      && val_eqb decv (list_v n_v (utf8s (strip_trailing_ws s)))
    | _ => false
    end
  else val_eqb out (L []).

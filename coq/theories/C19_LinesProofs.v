(** C19: the byte-level line reader — it commutes with UTF-8 (so the code-point-level reader of NFKC_Tie.v is the
    byte-level one on UTF-8 files), [train_bpe]'s and [Dictionary::create]'s readers agree on UTF-8 files and differ
    on others, and [norm_input] changes nothing for inputs without invalid lines. *)
From TU Require Import Base C01_Model C01_Proofs UAX29_Model C11_Model NFKC_Model NFKC_Tie C19_Model C19_Proofs C19_Check C19_Lines.
From Coq Require Import Lia ZifyBool ZifyNat ZifyN.
Open Scope N_scope.
Arguments N.add : simpl never.
Arguments N.mul : simpl never.
Arguments N.div : simpl never.
Arguments N.modulo : simpl never.
Arguments N.ltb : simpl never.
Arguments N.eqb : simpl never.
Ltac Zify.zify_post_hook ::= Z.div_mod_to_equations.

(** ** UTF-8 never produces 0x0A / 0x0D except as U+000A / U+000D *)
Lemma utf8_cases c : (c < 128 /\ utf8 c = [c]) \/ (128 <= c /\ Forall (fun b => 128 <= b) (utf8 c) /\ utf8 c <> []).
Proof.
  unfold utf8. destruct (c <? 128) eqn:E1; [left; split; [lia|reflexivity]|]. right. split; [lia|].
  destruct (c <? 2048) eqn:E2; [split; [repeat constructor; lia|discriminate]|].
  destruct (c <? 65536) eqn:E3; (split; [repeat constructor; lia|discriminate]).
Qed.

Lemma utf8_nonempty c : utf8 c <> [].
Proof. destruct (utf8_cases c) as [[_ ->]|[_ [_ H]]]; [discriminate|exact H]. Qed.

(** reading on: bytes without 0x0A just extend the current piece *)
Lemma split_lines_push : forall bs cur rest, ~ In 10 bs ->
  split_lines cur (bs ++ rest) = split_lines (rev bs ++ cur) rest.
Proof.
  induction bs as [|b bs IH]; intros cur rest Hn; [reflexivity|].
  cbn [app split_lines]. destruct (b =? 10) eqn:E; [exfalso; apply Hn; left; lia|].
  rewrite IH by (intros H; apply Hn; right; exact H). cbn [rev]. rewrite <- app_assoc. reflexivity.
Qed.

(** the reversed current piece at byte level *)
Definition bcur (cur : list N) : list N := rev (utf8s (rev cur)).
Lemma bcur_cons c cur : bcur (c :: cur) = rev (utf8 c) ++ bcur cur.
Proof. unfold bcur, utf8s. cbn [rev]. rewrite flat_map_app, rev_app_distr. cbn [flat_map]. rewrite app_nil_r. reflexivity. Qed.
Lemma bcur_nil_iff cur : bcur cur = [] <-> cur = [].
Proof.
  split; [|intros ->; reflexivity]. destruct cur as [|c cur]; [reflexivity|]. rewrite bcur_cons. intros H.
  apply app_eq_nil in H. destruct H as [H _]. apply (f_equal (@rev N)) in H. rewrite rev_involutive in H.
  exfalso. exact (utf8_nonempty c H).
Qed.
Lemma rev_bcur cur : rev (bcur cur) = utf8s (rev cur).
Proof. unfold bcur. apply rev_involutive. Qed.

(** the head of the reversed byte piece is 0x0D exactly when the last code point is U+000D *)
Lemma bcur_head_cr cur : match bcur cur with 13 :: b' => exists cur', cur = 13 :: cur' /\ b' = bcur cur' | _ => forall cur', cur <> 13 :: cur' end.
Proof.
  destruct cur as [|c cur]; [cbn; intros cur'; discriminate|]. rewrite bcur_cons.
  destruct (utf8_cases c) as [[Hc ->]|[Hc [Hb Hne]]].
  - cbn [rev app]. destruct (N.eq_dec c 13) as [->|Hn]; [exists cur; split; reflexivity|].
    destruct c as [|p]; [intros cur' H; congruence|].
    assert (forall cur', N.pos p :: cur <> 13 :: cur') by (intros cur' H; injection H as H _; congruence).
    repeat (destruct p as [p|p|]; try exact H; try congruence).
  - destruct (rev (utf8 c)) as [|b r] eqn:Er.
    { exfalso. apply Hne. apply (f_equal (@rev N)) in Er. rewrite rev_involutive in Er. exact Er. }
    assert (Hb' : 128 <= b).
    { assert (In b (utf8 c)) by (apply in_rev; rewrite Er; left; reflexivity). exact (proj1 (Forall_forall _ _) Hb b H). }
    cbn [app]. assert (forall cur', c :: cur <> 13 :: cur') by (intros cur' H; injection H as H _; lia).
    destruct b as [|p]; [lia|]. repeat (destruct p as [p|p|]; try exact H; try lia).
Qed.

(** [BufRead::lines] on the UTF-8 of a text = the UTF-8 of the lines of the text *)
Lemma split_lines_utf8_gen : forall s cur, split_lines (bcur cur) (utf8s s) = map utf8s (split_lines cur s).
Proof.
  induction s as [|c s IH]; intros cur.
  - cbn [utf8s flat_map split_lines]. destruct cur as [|c0 cur0]; [reflexivity|].
    destruct (bcur (c0 :: cur0)) as [|b r] eqn:E; [apply (proj1 (bcur_nil_iff _)) in E; discriminate E|].
    rewrite <- E, rev_bcur. reflexivity.
  - change (utf8s (c :: s)) with (utf8 c ++ utf8s s). destruct (N.eq_dec c 10) as [->|Hn].
    + change (utf8 10) with [10]. cbn [app split_lines]. change (10 =? 10) with true. cbv iota.
      cbn [map]. rewrite <- (IH []). change (bcur []) with (@nil N). f_equal.
      pose proof (bcur_head_cr cur) as H. destruct (bcur cur) as [|b r] eqn:E.
      * apply (proj1 (bcur_nil_iff _)) in E. subst cur. reflexivity.
      * destruct (N.eq_dec b 13) as [->|Hb].
        -- destruct H as (cur' & -> & ->). rewrite rev_bcur. reflexivity.
        -- assert (Hcur : forall cur', cur <> 13 :: cur').
           { destruct b as [|p]; [exact H|]. repeat (destruct p as [p|p|]; try exact H; try congruence). }
           transitivity (rev (b :: r)).
           { destruct b as [|p]; [reflexivity|]. repeat (destruct p as [p|p|]; try reflexivity; try congruence). }
           rewrite <- E, rev_bcur. destruct cur as [|c0 cur0]; [reflexivity|].
           destruct (N.eq_dec c0 13) as [->|Hc0]; [exfalso; exact (Hcur cur0 eq_refl)|].
           destruct c0 as [|p]; [reflexivity|]. repeat (destruct p as [p|p|]; try reflexivity; try congruence).
    + assert (Hno : ~ In 10 (utf8 c)).
      { destruct (utf8_cases c) as [[_ ->]|[_ [Hb _]]]; [intros [H|[]]; congruence|].
        intros H. pose proof (proj1 (Forall_forall _ _) Hb 10 H) as H1. cbv beta in H1. lia. }
      rewrite split_lines_push by exact Hno. rewrite <- bcur_cons. rewrite IH.
      cbn [split_lines]. destruct (c =? 10) eqn:E; [lia|reflexivity].
Qed.

Theorem split_lines_utf8_l s : split_lines [] (utf8s s) = map utf8s (split_lines [] s).
Proof. exact (split_lines_utf8_gen s []). Qed.

(** ** the lines of a text of scalar values are texts of scalar values *)
Lemma split_lines_scalars : forall s cur, scalars s = true -> scalars cur = true ->
  Forall (fun l => scalars l = true) (split_lines cur s).
Proof.
  assert (Hrev : forall l, scalars l = true -> scalars (rev l) = true).
  { intros l H. unfold scalars in *. rewrite forallb_forall in *. intros x Hx. apply H. apply in_rev. exact Hx. }
  induction s as [|c s IH]; intros cur Hs Hc.
  - cbn [split_lines]. destruct cur; [constructor|]. constructor; [apply Hrev; exact Hc|constructor].
  - unfold scalars in Hs. cbn [forallb] in Hs. apply andb_true_iff in Hs. destruct Hs as [Hc1 Hs].
    cbn [split_lines]. destruct (c =? 10).
    + constructor; [|apply IH; [exact Hs|reflexivity]].
      destruct cur as [|c0 cur0]; [reflexivity|].
      assert (Hc0 : scalars (rev (c0 :: cur0)) = true) by (apply Hrev; exact Hc).
      assert (Hc0' : scalars (rev cur0) = true).
      { apply Hrev. unfold scalars in Hc. cbn [forallb] in Hc. apply andb_true_iff in Hc. exact (proj2 Hc). }
      destruct c0 as [|p]; [exact Hc0|]. repeat (destruct p as [p|p|]; try exact Hc0; try exact Hc0').
    + apply IH; [exact Hs|]. unfold scalars. cbn [forallb]. rewrite Hc1. exact Hc.
Qed.

(** on a UTF-8 file every line decodes: the byte-level reader = the code-point-level reader *)
Theorem read_lines_utf8_l s : scalars s = true -> read_lines (utf8s s) = map Some (split_lines [] s).
Proof.
  intros Hs. unfold read_lines. rewrite split_lines_utf8_l, map_map.
  apply map_ext_in. intros l Hl. apply utf8_decode_utf8s.
  exact (proj1 (Forall_forall _ _) (split_lines_scalars s [] Hs eq_refl) l Hl).
Qed.

Lemma oks_some l : oks (map Some l) = l.
Proof. induction l as [|x l IH]; cbn; [reflexivity|]. f_equal. exact IH. Qed.
Lemma while_ok_some l : while_ok (map Some l) = l.
Proof. induction l as [|x l IH]; cbn; [reflexivity|]. f_equal. exact IH. Qed.
Lemma take_o_map {A B} (f : A -> B) o l : take_o o (map f l) = map f (take_o o l).
Proof. destruct o as [n|]; cbn [take_o]; [apply firstn_map|reflexivity]. Qed.

(** hence on UTF-8 files [train_bpe]'s reader and [Dictionary::create]'s reader are the same function (up to the line
    limit, which only [train_bpe] applies per file) ... *)
Theorem readers_agree_utf8_l s maxl : scalars s = true ->
  bpe_read maxl (utf8s s) = take_o maxl (split_lines [] s) /\ dict_read (utf8s s) = split_lines [] s.
Proof.
  intros Hs. unfold bpe_read, dict_read. rewrite (read_lines_utf8_l s Hs). split.
  - rewrite take_o_map. apply oks_some.
  - apply while_ok_some.
Qed.

(** ... and on other files they are not: a line that is not UTF-8 is skipped by one and ends the file for the other *)
Theorem readers_differ_l : exists bs, bpe_read None bs = [[97]; [98]] /\ dict_read bs = [[97]].
Proof. exists [97; 10; 255; 10; 98; 10]. vm_compute. split; reflexivity. Qed.

(** the line limit counts the skipped lines ([take] comes before [filter_map]) *)
Theorem take_before_filter_l : exists bs, bpe_read (Some 2%nat) bs = [[97]] /\ firstn 2 (bpe_read None bs) = [[97]; [98]].
Proof. exists [97; 10; 255; 10; 98; 10]. vm_compute. split; reflexivity. Qed.

(** ** the new raw-line format contains the old one: lines of scalar code points, each followed by a newline *)
Lemma line_bytes_string (l : list N) : line_bytes (map Z.of_N l) = flat_map utf8 l /\ line_unterminated (map Z.of_N l) = false.
Proof.
  unfold line_bytes, line_unterminated. induction l as [|x l [IH1 IH2]]; [split; reflexivity|].
  cbn [map flat_map existsb]. rewrite IH1, IH2. split.
  - f_equal. unfold item_bytes. destruct (0 <=? Z.of_N x)%Z eqn:E; [|lia]. rewrite N2Z.id. reflexivity.
  - destruct (-1000 =? Z.of_N x)%Z eqn:E; [lia|reflexivity].
Qed.

Lemma file_bytes_strings (raw : list (list N)) :
  file_bytes (map (map Z.of_N) raw) = utf8s (file_content raw).
Proof.
  unfold file_bytes, file_content, utf8s. induction raw as [|l raw IH]; [reflexivity|].
  cbn [map flat_map]. rewrite !flat_map_app. rewrite IH. f_equal.
  destruct (line_bytes_string l) as [-> ->]. reflexivity.
Qed.

Theorem read_file_strings_l (raw : list (list N)) : scalars (file_content raw) = true ->
  read_lines (file_bytes (map (map Z.of_N) raw)) = map Some (lines_of_file raw).
Proof. intros H. rewrite file_bytes_strings. unfold lines_of_file. apply read_lines_utf8_l. exact H. Qed.

(** ** [norm_input] *)
Definition no_markers (v : val) : Prop :=
  forall f ls, In f (match v_nth 6 v with L fs => fs | _ => [] end) -> f = L ls -> forallb (fun l => negb (is_marker l)) ls = true.

Lemma filter_all {A} (p : A -> bool) l : forallb p l = true -> filter p l = l.
Proof.
  induction l as [|x l IH]; cbn [forallb filter]; [reflexivity|]. intros H. apply andb_true_iff in H. destruct H as [H1 H2].
  rewrite H1, (IH H2). reflexivity.
Qed.
Lemma forallb_firstn {A} (p : A -> bool) n : forall l, forallb p l = true -> forallb p (firstn n l) = true.
Proof.
  induction n as [|n IH]; intros [|x l] H; try reflexivity. cbn [firstn forallb] in *. apply andb_true_iff in H.
  destruct H as [H1 H2]. rewrite H1, (IH _ H2). reflexivity.
Qed.

(** without invalid lines the training model sees the same lines as before *)
Theorem norm_input_lines_l v : no_markers v -> in_lines (norm_input v) = in_lines v.
Proof.
  intros Hm. destruct v as [z|l]; [reflexivity|].
  destruct l as [|a0 [|a1 [|a2 [|a3 [|a4 [|a5 [|a6 rest]]]]]]]; try reflexivity.
  unfold in_lines, in_proc, in_maxlines, norm_input. cbn [v_nth nth]. cbn [v_opt]. cbn [take_lines].
  destruct a6 as [z|fs]; [reflexivity|]. cbn [v_list]. rewrite map_map.
  unfold no_markers in Hm. cbn [v_nth nth] in Hm.
  induction fs as [|f fs IH]; [reflexivity|]. cbn [map flat_map]. rewrite IH by (intros f0 ls H; apply Hm; right; exact H).
  f_equal. destruct f as [z|ls]; [destruct (v_opt v_nat a4) as [[|n]|]; reflexivity|].
  cbn [norm_file v_list].
  assert (Hls : forallb (fun l => negb (is_marker l)) ls = true) by (apply (Hm (L ls) ls); [left; reflexivity|reflexivity]).
  destruct (v_opt v_nat a4) as [n|]; cbn [take_o take_lines].
  - rewrite filter_all by (apply forallb_firstn; exact Hls). symmetry. apply firstn_map.
  - rewrite filter_all by exact Hls. reflexivity.
Qed.

Theorem norm_input_corpus_l v : no_markers v -> in_corpus (norm_input v) = in_corpus v.
Proof. intros H. unfold in_corpus. rewrite (norm_input_lines_l v H). reflexivity. Qed.

Lemma norm_input_tests v : in_tests (norm_input v) = in_tests v.
Proof.
  destruct v as [z|l]; [reflexivity|].
  destruct l as [|a0 [|a1 [|a2 [|a3 [|a4 [|a5 [|a6 rest]]]]]]]; reflexivity.
Qed.

(** the executable statement on the normalised input holds of the model's output *)
Theorem check_run_n_l v : wf_input v -> check_C19n v (run_C19n v) = true.
Proof.
  intros H. unfold check_C19n, run_C19n. apply check_run_l. unfold wf_input in *. rewrite norm_input_tests. exact H.
Qed.

(** C20 — the executable statement of the float level holds of the float model's own output ([check_run_f]). *)
From Coq Require Import ZArith List Bool QArith Qreals Reals Lia Lra Permutation.
From Flocq Require Import Core IEEE754.BinarySingleNaN.
From TU Require Import Base C12_Model C12_Proofs C12_Float C12_FloatBase C12_FloatProofs C12_FloatCheck.
From TU Require Import C20_Model C20_Counts C20_Closest C20_Check C20_Words C20_WordsProofs C20_Bytes C20_BytesProofs C20_Float C20_FloatProofs.
Import ListNotations.
Close Scope Q_scope.
Close Scope R_scope.
Open Scope N_scope.

(** premises: queries and keys below 2^26 clusters, freq_sum of the loaded dictionary at most 2^53 *)
Definition short_input (v : val) : Prop :=
  (forall q, In q (prep_queries v) -> short (snd (snd q)))
  /\ (forall d0, load_b (in_dfile v) = Some d0 -> short_dict d0 /\ (freq_sum d0 <= P53N)%N).

(** * stripping the floats gives the answer of the rational level *)
Lemma strip_answer_fv (d : dict) (q : query) :
  strip_answer (answer_fv d q)
  = L [opt_v n_v (get (fst (snd q)) d); closest_v (closest_fl (fst q) (snd (snd q)) d)].
Proof.
  unfold answer_fv, strip_answer.
  destruct (get (fst (snd q)) d) as [f|]; destruct (closest_fl (fst q) (snd (snd q)) d) as [|e|]; reflexivity.
Qed.

Lemma short_dict_perm (a b : dict) : Permutation a b -> short_dict b -> short_dict a.
Proof. intros P H e He. apply H. eapply Permutation_in; eassumption. Qed.

(** * relative frequencies of the model's answers are in [0,1] *)
Lemma fl_unit_ok (x : f64) : is_finite x = true -> (0 <= B2R x <= 1)%R -> fl_unit (fl_v x) = true.
Proof.
  intros F R. unfold fl_unit. change (v_zq (num_of_fl_v (fl_v x))) with (zq_of x).
  destruct (zq_of_spec x F) as [D _]. destruct (zq_range x F R) as [A B].
  apply andb_true_iff. split; [apply andb_true_iff; split|]; [apply Z.ltb_lt|apply Z.leb_le|apply Z.leb_le]; assumption.
Qed.

Lemma In_snd_le (d : dict) e : In e d -> (snd e <= freq_sum d)%N.
Proof. intro H. unfold freq_sum. apply In_le_sumN. apply in_map. exact H. Qed.

Lemma rel_unit (d : dict) f : (0 < freq_sum d)%N -> (freq_sum d <= P53N)%N -> (f <= freq_sum d)%N ->
  fl_unit (fl_v (relfreq_fl f (freq_sum d))) = true.
Proof.
  intros H0 H1 H2. destruct (relfreq_range_l f (freq_sum d) H0 H1 H2) as (F & R & _). apply fl_unit_ok; assumption.
Qed.

Lemma rel_ok_answer (d : dict) (q : query) : short (snd (snd q)) -> short_dict d -> (freq_sum d <= P53N)%N ->
  rel_ok (Z.of_N (freq_sum d)) (answer_fv d q) = true.
Proof.
  intros Hq Hd H1. unfold rel_ok. destruct (Z.of_N (freq_sum d) <=? 0)%Z eqn:E0; [reflexivity|].
  apply Z.leb_gt in E0. assert (H0 : (0 < freq_sum d)%N) by lia.
  unfold answer_fv. apply andb_true_iff. split.
  - destruct (get (fst (snd q)) d) as [f|] eqn:G; [|reflexivity]. cbn [get_fv opt_v].
    apply rel_unit; [exact H0|exact H1|]. apply lookup_in in G. apply (In_snd_le d _ G).
  - destruct (closest_spec_fl_l (fst q) (snd (snd q)) d Hq Hd) as [S0 S1].
    destruct d as [|e0 d0] eqn:Ed; [rewrite (S0 eq_refl); reflexivity|]. rewrite <- Ed in *.
    destruct (S1 ltac:(rewrite Ed; discriminate)) as [e [E [Ie _]]]. rewrite E. cbn [closest_fv].
    apply rel_unit; [exact H0|exact H1|apply In_snd_le, Ie].
Qed.

(** * the output of the float model *)
Lemma in_dfile_modelize v : in_dfile (modelize v) = in_dfile v.
Proof. unfold in_dfile. rewrite modelize_nth by discriminate. reflexivity. Qed.
Lemma in_queries_modelize v : in_queries (modelize v) = in_queries v.
Proof. unfold in_queries. rewrite modelize_nth by discriminate. reflexivity. Qed.

Lemma check_run_f_l v : short_input v -> check_C20f v (run_C20f v) = true.
Proof.
  intros [Hq Hl]. unfold check_C20f.
  set (p := modelize (prep0 v)).
  assert (Hdf : in_dfile p = prep_dfile (in_dfile v)).
  { unfold p. rewrite in_dfile_modelize. apply in_dfile_prep0. }
  assert (Hqs : in_queries p = []).
  { unfold p. rewrite in_queries_modelize. reflexivity. }
  assert (Hrun0 : run_C20 p = L [v_nth 0 (run_C20 p); v_nth 1 (run_C20 p); lres_v (loaded_dict v); L []]).
  { unfold run_C20. cbn [v_nth nth]. rewrite Hdf, Hqs. fold (loaded_dict v).
    destruct (loaded_dict v); reflexivity. }
  assert (Hrun : run_C20f v =
     L [v_nth 0 (run_C20 p); v_nth 1 (run_C20 p); lres_v (loaded_dict v);
        match loaded_dict v with
        | Some d => list_v (answer_fv d) (prep_queries v)
        | None => L []
        end]).
  { unfold run_C20f. fold p. rewrite Hrun0. reflexivity. }
  assert (Hstrip : strip0 (run_C20f v) = run_C20 p).
  { rewrite Hrun, Hrun0. reflexivity. }
  rewrite Hstrip. change (check_C20u (prep0 v) (run_C20 p)) with (check_C20u (prep0 v) (run_C20u (prep0 v))).
  rewrite (check_run_u_l (prep0 v) (segs_cover_prep0_l v)). cbn [andb].
  rewrite Hrun. unfold loaded_dict. rewrite prep_dfile_load.
  destruct (load_b (in_dfile v)) as [d0|] eqn:El; cbn [option_map]; [|reflexivity].
  destruct (Hl d0 eq_refl) as [Sd Fd].
  assert (P : Permutation (sorted_d d0) d0) by apply sorted_d_perm.
  pose proof (short_dict_perm _ _ P Sd) as Sd'.
  rewrite v_lres_lres_v. unfold lres_v, opt_v. unfold list_v.
  apply andb_true_iff. split.
  - apply all2b_map. intros q Hin. rewrite strip_answer_fv.
    rewrite (closest_fl_eq_l (fst q) (snd (snd q)) (sorted_d d0) (Hq q Hin) Sd').
    apply check_closest_m_ok.
  - apply forallb_forall. intros a Ha. apply in_map_iff in Ha as (q & <- & Hin).
    apply rel_ok_answer; [apply Hq; exact Hin|exact Sd'|].
    rewrite (freq_sum_perm _ _ P). exact Fd.
Qed.

(** Pipeline proofs, part 2: what a result depends on; the stages that act on one part; the whitespace
    corruption stage as C14's function on the stream of the item's seed, and the composition with C11 / C14:
    the whitespace-correction pipeline never drops a clean item and labels it consistently. *)
From TU Require Import RNG_Model RNG_Proofs.
From TU Require Import Base UAX29_Model UAX29_Proofs C10_Model C10_Proofs C14_Model C14_Proofs C14_Seam C14_UAX29 C14_Seeded C14_Seeded_Proofs.
From TU Require Import C11_Model C11_Proofs C01_Model Pipeline_Model Pipeline_Proofs.
Require Import Lia.
Local Open Scope nat_scope.

(** * 1. the processed item is a function of (configuration, item, seed): the file index and the incoming
    marks only flow through to the outgoing info *)
Definition same_res (i i' : info) (r r' : res (item * info)) : Prop :=
  match r, r' with
  | ROk (a, j), ROk (a', j') => a = a' /\ i_seed j = i_seed i /\ i_seed j' = i_seed i'
                                /\ i_file j = i_file i /\ i_file j' = i_file i'
  | RErr e, RErr e' => e = e'
  | RPanic s, RPanic s' => s = s'
  | _, _ => False
  end.

Section Depends.
Notation preproc := (preproc opq_none).

Lemma apply_part_same : forall p (f : str -> info -> res str) x i i',
  (forall s, f s i = f s i') -> same_res i i' (apply_part p f x i) (apply_part p f x i').
Proof.
  intros p f x i i' Hf. unfold apply_part. destruct p; rewrite <- Hf.
  - destruct (f (it_in x) i); cbn [rbind same_res]; auto 6.
  - destruct (f (it_tg x) i); cbn [rbind same_res]; auto 6.
Qed.

Lemma substring_same : forall subs g x i i', i_seed i = i_seed i' ->
  same_res i i' (substring subs g x i) (substring subs g x i').
Proof.
  intros subs g x i i' Hs. unfold substring. rewrite <- Hs.
  destruct (subs (seg_of g (it_in x))) as [poss| |]; cbn [rbind same_res]; [|reflexivity|reflexivity].
  destruct (random_range _ _) as [[idx st]|]; cbn [same_res]; [|reflexivity].
  destruct (nth_error poss (N.to_nat idx)) as [[s e]|]; cbn [same_res]; [|reflexivity].
  destruct (find_sub_ignoring_ws _ _ _); cbn [same_res]; auto 6.
Qed.

Lemma preproc_same : forall c, has_opaque c = false -> forall x i i', i_seed i = i_seed i' ->
  same_res i i' (preproc c x i) (preproc c x i').
Proof.
  induction c using cfg_ind'; intros Hop x i i' Hs; cbn [has_opaque] in Hop;
    try (cbn [Pipeline_Model.preproc]; apply apply_part_same; intros; reflexivity);
    try (cbn [Pipeline_Model.preproc]; apply substring_same; exact Hs);
    try discriminate.
  - cbn [Pipeline_Model.preproc same_res]. auto 6.
  - (* chain *)
    rewrite !preproc_chain. revert x i i' Hs. induction l as [|c r IHr]; intros x i i' Hs.
    + cbn [chain_run same_res]. auto 6.
    + cbn [existsb] in Hop. apply orb_false_iff in Hop. destruct Hop as [Hc Hr].
      inversion H as [|? ? Hhd Htl]; subst. cbn [chain_run].
      pose proof (Hhd Hc x i i' Hs) as Hsame.
      destruct (preproc c x i) as [[a j]| |], (preproc c x i') as [[a' j']| |]; cbn [same_res] in Hsame; try contradiction;
        try (cbn [same_res]; exact Hsame).
      destruct Hsame as (<- & Hj & Hj' & Hf & Hf').
      assert (Hjj : i_seed j = i_seed j') by congruence.
      pose proof (IHr Htl Hr a j j' Hjj) as Hrest.
      destruct (chain_run opq_none r a j) as [[b k]| |], (chain_run opq_none r a j') as [[b' k']| |];
        cbn [same_res] in *; try contradiction; try exact Hrest.
      destruct Hrest as (-> & ? & ? & ? & ?). repeat split; congruence.
  - cbn [Pipeline_Model.preproc same_res]. auto 6.
  - (* switch *)
    rewrite !preproc_switch. rewrite <- Hs. generalize (switch_choice ps (i_seed i)) as k.
    induction l as [|c r IHr]; intros k; [cbn [pick_run same_res]; reflexivity|].
    cbn [existsb] in Hop. apply orb_false_iff in Hop. destruct Hop as [Hc Hr].
    inversion H as [|? ? Hhd Htl]; subst. cbn [pick_run]. destruct k as [|k]; [apply Hhd; assumption|].
    apply IHr; assumption.
  - (* whitespace corruption: reads the seed *)
    cbn [Pipeline_Model.preproc]. apply apply_part_same. intros s. rewrite Hs. reflexivity.
  - cbn [Pipeline_Model.preproc same_res]. auto 6.
Qed.
End Depends.

(** * 2. stages *)
Lemma stream_len_seg : forall seed (seg : list cluster), length seg <= length (stream seed (length seg)).
Proof. intros. rewrite stream_length. lia. Qed.

(** the whitespace corruption stage never fails: it is C14's function on the stream of the item's seed *)
Lemma ws_corrupt_seeded : forall iw dw g seed s,
  ws_corrupt iw dw g seed s = ROk (concat (corrupt_seeded (thr iw) (thr dw) seed (seg_of g s))).
Proof. intros. unfold ws_corrupt. rewrite seeded_cl. reflexivity. Qed.

(** code-point mode, clean text: C14's clauses, for every probabilities and every seed *)
Lemma ws_corrupt_cp : forall iw dw seed s, cleansb s = true ->
  exists c, ws_corrupt iw dw false seed s = ROk c
    /\ strip_cp c = strip_cp s /\ cleansb c = true
    /\ exists ops, operations (singletons c) (singletons s) = Some ops /\ length ops = length c
                   /\ repair (singletons c) ops = Some s.
Proof.
  intros iw dw seed s Hs.
  destruct (corrupt_cp_all (thr iw) (thr dw) s (stream seed (length (singletons s))) Hs) as (c & Hc & Hrest).
  { rewrite stream_length. unfold singletons. rewrite map_length. lia. }
  exists c. split; [|exact Hrest]. unfold ws_corrupt, seg_of.
  destruct (corrupt_cl _ _ _ _) as [out|]; cbn [option_map] in Hc; [injection Hc as <-; reflexivity|discriminate].
Qed.

(** grapheme mode, clean and corrupt-safe text (outside it: KF1) *)
Lemma ws_corrupt_g : forall iw dw seed s, cleansb s = true -> corrupt_safe s = true ->
  exists c, ws_corrupt iw dw true seed s = ROk c
    /\ strip_cp c = strip_cp s /\ cleansb c = true
    /\ exists ops, operations (segment c) (segment s) = Some ops /\ length ops = length (segment c)
                   /\ repair (segment c) ops = Some s.
Proof.
  intros iw dw seed s Hs Hsafe.
  destruct (corrupt_labels_u_l (thr iw) (thr dw) s (stream seed (length (segment s))) Hs Hsafe) as (c & Hc & Hrest).
  { rewrite stream_length. lia. }
  exists c. split; [|exact Hrest]. unfold ws_corrupt, seg_of.
  destruct (corrupt_cl _ _ _ _) as [out|]; cbn [option_map] in Hc; [injection Hc as <-; reflexivity|discriminate].
Qed.

(** only whitespace changes: every text, both modes *)
Lemma ws_corrupt_nonws : forall iw dw g seed s c, ws_corrupt iw dw g seed s = ROk c -> strip_cp c = strip_cp s.
Proof.
  intros iw dw g seed s c H. unfold ws_corrupt in H.
  destruct (corrupt_cl _ _ _ _) as [out|] eqn:E; [|discriminate]. injection H as <-.
  destruct (corrupt_nonws_l _ _ _ _ _ E) as [_ H2]. rewrite H2. f_equal.
  unfold seg_of. destruct g; [apply UAX29_Proofs.segment_concat_l|apply C11_Proofs.concat_singletons].
Qed.

(** * 3. configurations built from Clean / Normalize / WhitespaceCorruption on the INPUT (and None, Chain, Switch
    of such): the target is untouched, the info is untouched, and the call never fails *)
Inductive input_only : cfg -> Prop :=
| io_none : input_only CNone
| io_clean g : input_only (CClean PInput g)
| io_norm f g : input_only (CNormalize PInput f g)
| io_ws iw dw g : input_only (CWsCorrupt PInput iw dw g)
| io_nows g : input_only (CNoWs PInput g)
| io_full g : input_only (CFullWs PInput g)
| io_chain l : Forall input_only l -> input_only (CChain l)
| io_switch l ps : Forall input_only l -> l <> [] -> length l = length ps -> input_only (CSwitch l ps).

Section InputOnly.
Variable opq : nat -> item -> info -> res (item * info).

Lemma input_only_total : forall c, input_only c -> forall x i,
  exists s, preproc opq c x i = ROk (mk_item s (it_tg x), i).
Proof.
  induction c using cfg_ind'; intros Hio x i; inversion Hio; subst;
    try (cbn [Pipeline_Model.preproc apply_part rbind]; eexists; reflexivity).
  - destruct x as [a b]. exists a. reflexivity.
  - (* chain *)
    rewrite preproc_chain. revert x. match goal with Hl : Forall input_only l |- _ => revert Hl end.
    induction l as [|c r IHr]; intros Hl x.
    + destruct x as [a b]. exists a. reflexivity.
    + inversion H as [|? ? Hhd Htl]; subst. inversion Hl as [|? ? Hc Hr]; subst.
      destruct (Hhd Hc x i) as [s Hs]. cbn [chain_run]. rewrite Hs.
      destruct (IHr Htl (io_chain r Hr) Hr (mk_item s (it_tg x))) as [s' Hs']. exists s'. exact Hs'.
  - (* switch *)
    match goal with Hne : l <> [], Hlen : length l = length ps |- _ =>
      destruct (switch_exact opq l ps x i Hne Hlen) as (c & Hnth & _ & ->) end.
    apply nth_error_In in Hnth.
    match goal with Hl : Forall input_only l |- _ => rewrite Forall_forall in Hl; pose proof (Hl c Hnth) as Hc end.
    rewrite Forall_forall in H. exact (H c Hnth Hc x i).
  - (* whitespace corruption *)
    cbn [Pipeline_Model.preproc apply_part]. rewrite ws_corrupt_seeded. cbn [rbind]. eexists; reflexivity.
Qed.

Lemma input_only_target : forall c x i x' i', input_only c -> preproc opq c x i = ROk (x', i') ->
  it_tg x' = it_tg x /\ i' = i.
Proof.
  intros c x i x' i' Hio H. destruct (input_only_total c Hio x i) as [s Hs]. rewrite Hs in H.
  injection H as <- <-. split; reflexivity.
Qed.
End InputOnly.

(** * 4. the whitespace-correction pipeline  Clean(input), Clean(target), WhitespaceCorruption(input)  followed by
    the task, code-point mode: for every line whose input equals its target (or differs from it only in
    whitespace), every probabilities, every seed — the item is never dropped; the target is the cleaned text, the
    input differs from it only in whitespace and is clean; there is one label per input character between the
    paddings, and the labels repair the input into the target. *)
Lemma byte_tokenize_ign : forall b s, byte_tokenize b s true = Some (add_pre_suf b (utf8s s)).
Proof.
  intros b s. unfold byte_tokenize, byte_body, split_input. cbn [map_opt byte_seg_ids option_map concat].
  rewrite app_nil_r. reflexivity.
Qed.

Lemma task_wsc_ok : forall b c t ops,
  operations (singletons c) (singletons t) = Some ops ->
  task_wsc false b (mk_item c t) =
    ROk (mk_titem (mk_item c t) (add_pre_suf b (utf8s c)) (labels (length (b_pre b)) (length (b_suf b)) ops)).
Proof.
  intros b c t ops H. unfold task_wsc. cbn [it_in it_tg]. unfold seg_of. rewrite H, byte_tokenize_ign. reflexivity.
Qed.

Definition wsc_cfg (iw dw : f64w) : cfg :=
  CChain [CClean PInput false; CClean PTarget false; CWsCorrupt PInput iw dw false].

Lemma wsc_pipeline_cp : forall opq iw dw b seed epoch idx file a t,
  clean (singletons a) = clean (singletons t) ->
  let tg := clean (singletons t) in
  exists c ops,
    pipeline opq (PGlobal (wsc_cfg iw dw)) false b (mk_item a t) (item_info seed epoch idx file)
      = ROk (mk_titem (mk_item c tg) (add_pre_suf b (utf8s c)) (labels (length (b_pre b)) (length (b_suf b)) ops))
    /\ strip_cp c = strip_cp t /\ cleansb c = true /\ cleansb tg = true
    /\ length ops = length c /\ repair (singletons c) ops = Some tg.
Proof.
  intros opq iw dw b seed epoch idx file a t Hat tg.
  assert (Htg : cleansb tg = true) by (apply clean_clean_seg, wf_singletons).
  destruct (ws_corrupt_cp iw dw (i_seed (item_info seed epoch idx file)) tg Htg) as (c & Hc & Hstrip & Hclean & ops & Hops & Hlen & Hrep).
  exists c, ops. split.
  - unfold pipeline, preprocess, wsc_cfg. cbn [Pipeline_Model.preproc apply_part rbind it_in it_tg seg_of].
    rewrite Hat. fold tg. rewrite Hc. cbn [rbind fst]. apply task_wsc_ok. exact Hops.
  - split; [|auto]. rewrite Hstrip. unfold tg. change (strip_cps (clean (singletons t)) = strip_cps t).
    rewrite clean_nonws_seg, concat_singletons. reflexivity.
Qed.

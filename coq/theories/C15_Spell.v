(** C15: the closure [corrupt_spelling] returns as a function of the TEXT — definitions only.

    src/data/preprocessing.rs:487-675, all three modes, nothing supplied by the harness but
    - the text, the seed, the probabilities (binary64 values), [allow_full_delete], the mode;
    - the CONTENT of the character dictionary: items (key, frequency) in any order, each with the
      result of [freq.powf(1.0 / art_temp)] (libm, not modelled: C15_Tables);
    - the content of the misspellings file (word -> list of misspellings).
    Inside the model:
    - [text::split_words]: [str::split_whitespace] and the word regex ([UCD_Model.split_words]);
    - the tables ([C15_Tables.build_tables]);
    - [CS::split(word, true)] / [CS::new(word, true)]: extended grapheme clusters ([UAX29_Model.segment]),
      of the word at EVERY call of the chain (the code hands [edit_word] a [String], so each call
      segments the text the previous one returned), and of every edit string on its own;
    - can_delete / can_swap ([C15_Classes.cd_u] / [cs_u] from [UCD_Model]);
    - every draw ([RNG_Model], generator [ChaCha8Rng::seed_from_u64(info.seed)]):
        per word            r = random::<f64>()
        r > real_p + art_p  the word is kept
        r < real_p          the word has misspellings:  one [random_range(0..len)], that misspelling;
                            else some of its regex parts have: [random_range(0..#such parts)], then
                            [random_range(0..len)] of that part's list, the part replaced inside the word;
                            else fall through
        artificial          one [random::<f64>() < art_char_edit_p] per cluster of the word counted,
                            max(count, 1) chained [edit_word] calls (insert / replace only with a
                            character dictionary) from the empty exclusion set; an empty result is dropped
      and the probabilities per mode (the products [art_p * prob], [(1.0 - art_p) * prob] and the sum
      [real_p + art_p] in binary64);
    - [.join(" ")]. *)
From TU Require Import RNG_Model.
From TU Require Import Base UCD_Model UAX29_Model C15_Model C15_Seeded C15_Classes C15_Tables.
Close Scope N_scope.
Open Scope nat_scope.

(** * probabilities *)
(** [a - b] for [a >= b >= 0] (a negative result is [FNeg]) *)
Definition fsub (a b : f64w) : f64w :=
  match a, b with
  | Fin m1 e1, Fin m2 e2 =>
      let '(a1, a2, e) := falign m1 e1 m2 e2 in
      if (a2 <=? a1)%N then fround (a1 - a2) e else FNeg
  | FNaN, _ | _, FNaN => FNaN
  | FNeg, _ | _, FNeg => FNaN        (* not needed: operands are clamped probabilities *)
  | FInf, Fin _ _ => FInf
  | _, _ => FNaN
  end.

(** [x.clamp(0.0, 1.0)] *)
Definition fclamp01 (x : f64w) : f64w :=
  match x with
  | FNeg => f_zero
  | FNaN => FNaN
  | FInf => f_one
  | Fin _ _ => if fgt x f_one then f_one else x
  end.

(** mode: 0 Artificial(pc, T, Some(chars)), 1 Realistic(missp), 2 Mixed(art, pc, T, Some(chars), missp),
          3 Artificial(pc, T, None), 4 Mixed(art, pc, T, None, missp) *)
Definition has_tables (mode : nat) : bool := Nat.eqb mode 0 || Nat.eqb mode 2.
Definition has_miss (mode : nat) : bool := Nat.eqb mode 1 || Nat.eqb mode 2 || Nat.eqb mode 4.

(** (art_p, real_p, art_char_edit_p) from the clamped probability *)
Definition mode_probs (mode : nat) (prob pc art : f64w) : f64w * f64w * f64w :=
  match mode with
  | 1 => (f_zero, prob, f_zero)
  | 2 | 4 => let a := fclamp01 art in (fmul a prob, fmul (fsub f_one a) prob, pc)
  | _ => (prob, f_zero, pc)
  end.

(** * misspellings: [HashMap<String, Vec<String>>] with distinct keys *)
Definition miss := list (str * list str).
Fixpoint miss_lookup (m : miss) (w : str) : option (list str) :=
  match m with
  | [] => None
  | (k, r) :: m' => if nlist_eqb w k then Some r else miss_lookup m' w
  end.

Fixpoint enum_from {A} (i : nat) (l : list A) : list (nat * A) :=
  match l with [] => [] | x :: r => (i, x) :: enum_from (S i) r end.

(** the parts of the word that have misspellings, with their index among the parts *)
Definition replacable (m : miss) (parts : list (nat * str)) : list (nat * list str) :=
  flat_map (fun ip : nat * (nat * str) =>
              match miss_lookup m (snd (snd ip)) with Some r => [(fst ip, r)] | None => [] end)
           (enum_from 0 parts).

(** the branch [r < real_p]: [Some (Some x, st)] a misspelling was taken, [Some (None, st)] fall through to
    the artificial corruption (nothing drawn), [None] = [random_range] on an empty list of misspellings
    (panic "cannot sample empty range") *)
Definition real_word (m : miss) (word : str) (parts : list (nat * str)) (st : rng)
  : option (option str * rng) :=
  match miss_lookup m word with
  | Some repls =>
      match pick_idx (length repls) st with
      | Some (j, st1) => Some (Some (nth j repls []), st1)
      | None => None
      end
  | None =>
      match replacable m parts with
      | [] => Some (None, st)
      | rp =>
        match pick_idx (length rp) st with
        | None => None
        | Some (j, st1) =>
          let c := nth j rp (0, []) in
          match pick_idx (length (snd c)) st1 with
          | None => None
          | Some (i, st2) =>
            let pt := nth (fst c) parts (0, []) in
            (* word[..start] + replacement + word[start + part.len()..]; positions in code points *)
            Some (Some (firstn (fst pt) word ++ nth i (snd c) [] ++ skipn (fst pt + length (snd pt)) word), st2)
          end
        end
      end
  end.

(** * the chain on texts: every call segments the text it is given *)
Fixpoint chain_text (c : wcfg) (n : nat) (x : str) (ex : list nat) (st : rng) : option (str * list nat * rng) :=
  match n with
  | O => Some (x, ex, st)
  | S n' =>
    let w := segment x in
    match edit_word_seeded c (cd_u w) (cs_u w) w ex st with
    | SOk k st' => chain_text c n' (concat (apply_word k w)) (apply_excl k ex) st'
    | _ => None
    end
  end.

Definition art_word (c : wcfg) (pc : f64w) (word : str) (st : rng) : option (option str * rng) :=
  let (n, st2) := count_draws (length (segment word)) pc st in
  match chain_text c (Nat.max n 1) word [] st2 with
  | Some (x, _, st3) => Some (match x with [] => None | _ => Some x end, st3)
  | None => None
  end.

(** one word: [Some (Some x, st)] the word of the output, [Some (None, st)] dropped, [None] a panic *)
Definition spell_word_t (c : wcfg) (m : miss) (real_p sum_p pc : f64w) (word : str) (st : rng)
  : option (option str * rng) :=
  let (k, st1) := random_f64 st in
  let r := Fin k (-53) in
  if fgt r sum_p then Some (Some word, st1)
  else if flt r real_p then
    match real_word m word (word_parts word) st1 with
    | None => None
    | Some (Some x, st2) => Some (Some x, st2)
    | Some (None, st2) => art_word c pc word st2
    end
  else art_word c pc word st1.

Fixpoint spell_words_t (c : wcfg) (m : miss) (real_p sum_p pc : f64w) (ws : list str) (st : rng)
  : option (list str * rng) :=
  match ws with
  | [] => Some ([], st)
  | w :: r =>
    match spell_word_t c m real_p sum_p pc w st with
    | None => None
    | Some (o, st1) =>
      match spell_words_t c m real_p sum_p pc r st1 with
      | None => None
      | Some (l, st2) => Some (match o with Some x => x :: l | None => l end, st2)
      end
    end
  end.

(** [.join(" ")] *)
Fixpoint join_sp (l : list str) : str :=
  match l with
  | [] => []
  | [x] => x
  | x :: r => x ++ 32%N :: join_sp r
  end.

(** the configuration [edit_word] gets: delete and swap always, insert / replace with a character
    dictionary; every edit string segmented on its own *)
Definition spell_cfg (fd : bool) (tabs : option (list sins * list srep)) : wcfg :=
  match tabs with
  | Some (it, rt) => spell_cfg_of fd it rt
  | None =>
      {| wk_ins := false; wk_del := true; wk_rep := false; wk_swap := true; wfull_del := fd;
         witab := []; wrtab := [] |}
  end.

(** * the whole of [corrupt_spelling(prob, allow_full_delete, mode)(text, info)] *)
Inductive sp_res :=
| SpText (t : str)
| SpPanicProb          (* [assert!(prob > 0.0)] *)
| SpPanicKey           (* a dictionary key that passed the filter is not a 3-gram *)
| SpPanicRun.          (* inside the closure: empty misspelling list / invalid weights *)

Definition positive (x : f64w) : bool := match x with Fin m _ => negb (m =? 0)%N | FInf => true | _ => false end.

Definition spell_text (mode : nat) (fd : bool) (prob pc art : f64w) (items : list item) (m : miss)
                      (seed : N) (text : str) : sp_res :=
  let prob := fclamp01 prob in
  if negb (positive prob) then SpPanicProb else
  let '(art_p, real_p, pc') := mode_probs mode prob pc art in
  match (if has_tables mode then
           match build_tables items with TOk it rt => Some (Some (it, rt)) | TPanic => None end
         else Some None) with
  | None => SpPanicKey
  | Some tabs =>
    match spell_words_t (spell_cfg fd tabs) (if has_miss mode then m else []) real_p (fadd real_p art_p) pc'
                        (split_ws text) (seed_from_u64 seed) with
    | Some (l, _) => SpText (join_sp l)
    | None => SpPanicRun
    end
  end.

(** * val glue: fourth stream
    input  = (4 mode fd seed text items miss (prob pc art temp) aux divs)
             text: code points; items = ((key freq weight) ...) the dictionary file, line by line
             (distinct keys; weight = the f64 [freq.powf(1.0 / art_temp)] as (0 m e));
             miss = ((word (misspelling ...)) ...) distinct words; prob, pc, art as f64 values;
             aux = what the real crate says about the text, compared with the model's by [aux_ok]:
                   ((word ((byte-start part) ...) ((cluster alphabetic punctuation) ...)) ...)
                   for every word of [text::split_words(text)]: its regex parts with [Match::start],
                   its [CS::split(word, true)] clusters with [Character::is_alphabetic / is_punctuation]
    output = (run1 run2): the corrupted text as code points in a list [(cps)], or (-777), for two
             independent runs (fresh closure, files loaded again) *)
Definition is_spell4 (v : val) : bool := Z.eqb (v_z (v_nth 0 v)) 4.

Definition v_item (v : val) : item := (v_str (v_nth 0 v), v_n (v_nth 1 v), v_f64w (v_nth 2 v)).
Definition v_miss (v : val) : miss := v_list (fun e => (v_str (v_nth 0 e), v_list v_str (v_nth 1 e))) v.

Definition spell4 (v : val) : sp_res :=
  let p := v_nth 7 v in
  spell_text (v_nat (v_nth 1 v)) (v_bool (v_nth 2 v))
             (v_f64w (v_nth 0 p)) (v_f64w (v_nth 1 p)) (v_f64w (v_nth 2 p))
             (v_list v_item (v_nth 5 v)) (v_miss (v_nth 6 v)) (v_n (v_nth 3 v)) (v_str (v_nth 4 v)).

(** what one run of the implementation must print *)
Definition sp_res_v (r : sp_res) : val :=
  match r with
  | SpText t => L [list_v n_v t]
  | _ => L [I (-777)%Z]
  end.
Definition seeded_spell4 (v : val) : val := sp_res_v (spell4 v).

(** the oracles of the harness are the model's *)
Definition aux_word (w : str) : val :=
  L [ list_v n_v w;
      list_v (fun p : nat * str => L [nat_v (byte_off w (fst p)); list_v n_v (snd p)]) (word_parts w);
      list_v (fun c : cluster => L [list_v n_v c; bool_v (str_is_alphabetic c); bool_v (str_is_punctuation c)])
             (segment w) ].
Definition aux_of (text : str) : val := list_v aux_word (split_ws text).
Definition aux_ok (v : val) : bool := val_eqb (aux_of (v_str (v_nth 4 v))) (v_nth 8 v).

(** division probes (tenth field): ((a b q) ...), q = the f64 [(a as f64) / (b as f64)] as the harness computes it —
    the binary64 division and the [usize as f64] conversion of C15_Tables are compared with the hardware on the
    (frequency, total) pairs of the dictionary and on random operands up to 2^62 *)
Definition div_ok (d : val) : bool :=
  val_eqb (f64w_v (fdiv (f_of_N (v_n (v_nth 0 d))) (f_of_N (v_n (v_nth 1 d))))) (v_nth 2 d).
Definition divs_ok (v : val) : bool := forallb div_ok (v_list (fun x => x) (v_nth 9 v)).

(** exact line: both runs print what the model computes from the seed *)
Definition exact_spell4 (v m i : val) : bool :=
  match i with
  | L [r1; r2] => val_eqb r1 m && val_eqb r2 m && aux_ok v && divs_ok v
  | _ => false
  end.

(** * the domain in which no run may panic ([C15_SpellTotal.spell_text_total_l]): a positive probability; with a
    character dictionary every kept key is a 3-gram and the powf results are sane; no word has an empty list of
    misspellings; sizes below the machine limits of [random_range]: (|text| + 1) * (B + 2) < 2^62 with B the longest
    edit string in code points, every list of misspellings shorter than 2^32 *)
Definition mode_cfg (mode : nat) (fd : bool) (items : list item) : option wcfg :=
  if has_tables mode then
    match build_tables items with
    | TOk it rt => Some (spell_cfg fd (Some (it, rt)))
    | TPanic => None
    end
  else Some (spell_cfg fd None).
Definition mode_miss (mode : nat) (m : miss) : miss := if has_miss mode then m else [].

Definition max_str (c : cfg) : nat :=
  fold_right Nat.max 0 (map (fun e => length (concat e)) (itab_strings (itab c) ++ rtab_strings (rtab c))).
Definition size_ok (wc : wcfg) (text : str) : bool :=
  (N.of_nat (S (length text)) * N.of_nat (max_str (erase wc) + 2) <? 4611686018427387904)%N.
Definition miss_smallb (m : miss) : bool :=
  forallb (fun e : str * list str => (0 <? length (snd e)) && (N.of_nat (length (snd e)) <? 4294967296)%N) m.

Definition dom_ok (mode : nat) (fd : bool) (prob : f64w) (items : list item) (m : miss) (text : str) : bool :=
  positive (fclamp01 prob)
  && match mode_cfg mode fd items with
     | Some wc => (negb (has_tables mode) || items_sane items) && size_ok wc text
     | None => false
     end
  && miss_smallb (mode_miss mode m).

Definition dom4 (v : val) : bool :=
  dom_ok (v_nat (v_nth 1 v)) (v_bool (v_nth 2 v)) (v_f64w (v_nth 0 (v_nth 7 v)))
         (v_list v_item (v_nth 5 v)) (v_miss (v_nth 6 v)) (v_str (v_nth 4 v)).

(** executable statement on an implementation output: the two runs agree (the closure is a function of
    text, seed and the two files), and inside the domain neither panicked *)
Definition is_text (o : val) : bool := match o with L [L _] => true | _ => false end.
Definition check_spell4 (v out : val) : bool :=
  match out with
  | L [r1; r2] => val_eqb r1 r2 && (negb (dom4 v) || is_text r1)
  | _ => false
  end.

(** * dispatch: the three levels of C15 (relational, seeded, text) *)
Definition run_C15t (v : val) : val :=
  if is_spell4 v then L [L []; seeded_spell4 v] else run_C15s v.
Definition check_C15t (v out : val) : bool :=
  if is_spell4 v then check_spell4 v out else check_C15s v out.
(** [rel] is [C15_Seam.agree_C15u]; all other streams additionally: every class boolean the harness sends is
    the model's ([C15_Classes.classes_ok]) *)
Definition agree_C15t (rel : val -> val -> val -> bool) (inp m i : val) : bool :=
  if is_spell4 inp then exact_spell4 inp (v_nth 1 m) i
  else agree_C15s rel inp m i && classes_ok inp.

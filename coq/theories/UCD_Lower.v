(** Proofs about [UCD_Model.to_lower] / [to_lowercase] / [ci_eqb]. *)
From TU Require Import Base UCD_Model UCD_Ranges.
From Coq Require Import Lia.
Open Scope N_scope.

Lemma nl_eqb_eq a : forall b, nlist_eqb a b = true <-> a = b.
Proof.
  induction a as [|x a IH]; intros [|y b]; cbn [nlist_eqb]; try (split; [discriminate|discriminate]); [tauto|].
  rewrite andb_true_iff, N.eqb_eq, IH. split; [intros [-> ->]; reflexivity|intros H; injection H as -> ->; auto].
Qed.
Lemma nl_eqb_refl a : nlist_eqb a a = true.
Proof. apply nl_eqb_eq. reflexivity. Qed.

(** * [to_lower] *)
Definition ascii_lc (c : N) : N := if ascii_upper c then c + 32 else c.

Lemma to_lower_ascii c : c < 192 -> to_lower c = [ascii_lc c].
Proof.
  intros H. unfold to_lower. change std_lower_ascii_below with 192.
  destruct (c <? 192) eqn:E; [reflexivity|apply N.ltb_ge in E; lia].
Qed.

(** the three sources of a mapping above the ASCII shortcut *)
Definition lut_other (c : N) : list N := match alookup std_lower_multis c with Some l => l | None => [c] end.
Lemma to_lower_lut c : 192 <= c ->
  to_lower c = match llookup lower_singles_list c with
               | Some (lo, par, d) => if negb par || Bool.eqb (N.odd c) (N.odd lo) then [add_delta c d] else lut_other c
               | None => lut_other c
               end.
Proof.
  intros H. unfold to_lower. change std_lower_ascii_below with 192.
  destruct (c <? 192) eqn:E; [apply N.ltb_lt in E; lia|]. rewrite lower_singles_t_spec. reflexivity.
Qed.

(** code points [lo .. lo + n - 1] *)
Fixpoint nrange (lo : N) (n : nat) : list N :=
  match n with O => [] | S k => lo :: nrange (lo + 1) k end.
Lemma nrange_in n : forall lo x, lo <= x -> x < lo + N.of_nat n -> In x (nrange lo n).
Proof.
  induction n as [|n IH]; intros lo x H1 H2; [lia|]. cbn [nrange].
  destruct (N.eq_dec lo x) as [->|Hne]; [left; reflexivity|right]. apply IH; lia.
Qed.

(** a fixed point of the mapping other than capital sigma *)
Definition fixedb (d : N) : bool := negb (d =? sigma_cap) && nlist_eqb (to_lower d) [d].
Definition entry_fixed (e : N * N * bool * N) : bool :=
  match e with
  | (lo, hi, par, d) => forallb (fun c => forallb fixedb (to_lower c)) (nrange lo (N.to_nat (hi - lo + 1)))
  end.
Lemma singles_fixed : forallb entry_fixed std_lower_singles = true.
Proof. vm_compute. reflexivity. Qed.
Lemma multis_fixed : forallb (fun e : N * list N => forallb fixedb (snd e)) std_lower_multis = true.
Proof. vm_compute. reflexivity. Qed.

Lemma alookup_in {A} (l : list (N * A)) x a : alookup l x = Some a -> In (x, a) l.
Proof.
  induction l as [|[k b] l IH]; [discriminate|]. cbn [alookup]. destruct (k =? x) eqn:E.
  - apply N.eqb_eq in E. subst k. intros H. injection H as <-. left. reflexivity.
  - intros H. right. exact (IH H).
Qed.

Lemma fixedb_spec d : fixedb d = true <-> d <> sigma_cap /\ to_lower d = [d].
Proof.
  unfold fixedb. rewrite andb_true_iff, negb_true_iff, N.eqb_neq, nl_eqb_eq. tauto.
Qed.

(** every image of the per-character mapping is a fixed point of the mapping and is not U+03A3 *)
Lemma to_lower_fixed c : forallb fixedb (to_lower c) = true.
Proof.
  destruct (N.lt_ge_cases c 192) as [Hc|Hc].
  - rewrite (to_lower_ascii c Hc). cbn [forallb]. rewrite andb_true_r. apply fixedb_spec.
    unfold ascii_lc, ascii_upper, sigma_cap.
    destruct ((65 <=? c) && (c <=? 90)) eqn:E.
    + apply andb_true_iff in E as [E1 E2]. apply N.leb_le in E1, E2. split; [lia|].
      rewrite to_lower_ascii by lia. unfold ascii_lc, ascii_upper.
      destruct (c + 32 <=? 90) eqn:E3; [apply N.leb_le in E3; lia|]. rewrite andb_false_r. reflexivity.
    + split; [lia|]. rewrite (to_lower_ascii c Hc). unfold ascii_lc, ascii_upper. rewrite E. reflexivity.
  - assert (Hother : forallb fixedb (lut_other c) = true \/ lut_other c = [c]).
    { unfold lut_other. destruct (alookup std_lower_multis c) as [l|] eqn:E; [left|right; reflexivity].
      apply alookup_in in E. pose proof multis_fixed as M. rewrite forallb_forall in M. exact (M _ E). }
    rewrite (to_lower_lut c Hc). destruct (llookup lower_singles_list c) as [[[lo par] d]|] eqn:E.
    + (* inside a range of the LUT: the whole range was checked *)
      pose proof (llookup_in _ _ _ E) as (lo' & hi & Hin & H1 & H2). unfold lower_singles_list in Hin.
      apply in_map_iff in Hin as ([[[a b] p] dd] & Heq & Hin). injection Heq as Q1 Q2 Q3 Q4 Q5. subst.
      pose proof singles_fixed as S. rewrite forallb_forall in S. specialize (S _ Hin). cbn [entry_fixed] in S.
      rewrite forallb_forall in S. assert (Hc' : In c (nrange lo (N.to_nat (hi - lo + 1)))) by (apply nrange_in; lia).
      specialize (S c Hc'). rewrite (to_lower_lut c Hc), E in S. exact S.
    + destruct Hother as [Ho|Ho]; [exact Ho|]. rewrite Ho. cbn [forallb]. rewrite andb_true_r.
      apply fixedb_spec. split.
      * intros ->. vm_compute in E. discriminate.
      * rewrite (to_lower_lut c Hc), E. exact Ho.
Qed.

Lemma to_lower_fixed_in c d : In d (to_lower c) -> d <> sigma_cap /\ to_lower d = [d].
Proof.
  intros H. pose proof (to_lower_fixed c) as F. rewrite forallb_forall in F. apply fixedb_spec. exact (F d H).
Qed.

(** * [to_lowercase] *)
Lemma lower_at_fixed b c a d : In d (lower_at b c a) -> d <> sigma_cap /\ to_lower d = [d].
Proof.
  unfold lower_at. destruct (c =? sigma_cap).
  - destruct (ci_then_cased b && negb (ci_then_cased a)); intros [<-|[]]; split;
      try (vm_compute; discriminate); vm_compute; reflexivity.
  - apply to_lower_fixed_in.
Qed.

Lemma lower_from_fixed s : forall b d, In d (lower_from b s) -> d <> sigma_cap /\ to_lower d = [d].
Proof.
  induction s as [|c r IH]; intros b d H; [destruct H|]. cbn [lower_from] in H.
  apply in_app_or in H as [H|H]; [exact (lower_at_fixed _ _ _ _ H)|exact (IH _ _ H)].
Qed.

(** a string of fixed points other than U+03A3 is left alone, whatever the context *)
Lemma lower_from_id s : forall b, (forall d, In d s -> d <> sigma_cap /\ to_lower d = [d]) -> lower_from b s = s.
Proof.
  induction s as [|c r IH]; intros b H; [reflexivity|]. cbn [lower_from].
  destruct (H c (or_introl eq_refl)) as [H1 H2]. unfold lower_at.
  destruct (c =? sigma_cap) eqn:E; [apply N.eqb_eq in E; contradiction|]. rewrite H2. cbn [app].
  f_equal. apply IH. intros d Hd. apply H. right. exact Hd.
Qed.

Lemma to_lowercase_idem_l s : to_lowercase (to_lowercase s) = to_lowercase s.
Proof. unfold to_lowercase. apply lower_from_id. intros d. apply lower_from_fixed. Qed.

Lemma to_lowercase_no_sigma_l s : ~ In sigma_cap (to_lowercase s).
Proof. intros H. destruct (lower_from_fixed s [] _ H) as [H1 _]. apply H1. reflexivity. Qed.

(** the image is the concatenation of the images of the positions, each in its context *)
Fixpoint lower_positions (before_rev s : list N) : list (list N) :=
  match s with
  | [] => []
  | c :: r => lower_at before_rev c r :: lower_positions (c :: before_rev) r
  end.
Lemma lower_from_positions s : forall b, lower_from b s = concat (lower_positions b s).
Proof. induction s as [|c r IH]; intros b; [reflexivity|]. cbn [lower_from lower_positions concat]. rewrite IH. reflexivity. Qed.
Lemma lower_positions_nth s : forall b i c,
  nth_error s i = Some c ->
  nth_error (lower_positions b s) i = Some (lower_at (rev (firstn i s) ++ b) c (skipn (S i) s)).
Proof.
  induction s as [|x r IH]; intros b i c H; [destruct i; discriminate|]. destruct i as [|i].
  - injection H as <-. reflexivity.
  - cbn [nth_error] in H. cbn [lower_positions nth_error firstn skipn rev]. rewrite (IH (x :: b) i c H).
    rewrite <- app_assoc. reflexivity.
Qed.
Lemma lower_positions_length s : forall b, length (lower_positions b s) = length s.
Proof. induction s as [|c r IH]; intros b; [reflexivity|]. cbn [lower_positions length]. rewrite IH. reflexivity. Qed.

(** without U+03A3 the mapping is character by character *)
Lemma lower_from_nosigma s : forall b, ~ In sigma_cap s -> lower_from b s = flat_map to_lower s.
Proof.
  induction s as [|c r IH]; intros b H; [reflexivity|]. cbn [lower_from flat_map]. unfold lower_at.
  destruct (c =? sigma_cap) eqn:E; [apply N.eqb_eq in E; exfalso; apply H; left; exact E|].
  rewrite IH; [reflexivity|]. intros Hin. apply H. right. exact Hin.
Qed.

(** ASCII strings: [to_ascii_lowercase] *)
Lemma to_lowercase_ascii_l s : Forall (fun c => c < 128) s -> to_lowercase s = map ascii_lc s.
Proof.
  intros H. unfold to_lowercase. rewrite lower_from_nosigma.
  - induction H as [|c r Hc Hr IH]; [reflexivity|]. cbn [flat_map map]. rewrite to_lower_ascii by lia. rewrite IH. reflexivity.
  - intros Hin. rewrite Forall_forall in H. specialize (H _ Hin). unfold sigma_cap in H. lia.
Qed.

(** * the case-insensitive word relation *)
Lemma ci_eqb_iff a b : ci_eqb a b = true <-> to_lowercase a = to_lowercase b.
Proof. unfold ci_eqb. apply nl_eqb_eq. Qed.
Lemma ci_eqb_refl_l a : ci_eqb a a = true.
Proof. apply ci_eqb_iff. reflexivity. Qed.
Lemma ci_eqb_sym_l a b : ci_eqb a b = ci_eqb b a.
Proof.
  destruct (ci_eqb a b) eqn:E1, (ci_eqb b a) eqn:E2; try reflexivity.
  - apply ci_eqb_iff in E1. symmetry in E1. apply ci_eqb_iff in E1. congruence.
  - apply ci_eqb_iff in E2. symmetry in E2. apply ci_eqb_iff in E2. congruence.
Qed.
Lemma ci_eqb_trans_l a b c : ci_eqb a b = true -> ci_eqb b c = true -> ci_eqb a c = true.
Proof. rewrite !ci_eqb_iff. congruence. Qed.
Lemma ci_eqb_lower_l a : ci_eqb a (to_lowercase a) = true.
Proof. apply ci_eqb_iff. symmetry. apply to_lowercase_idem_l. Qed.

(** Proofs about the normalisation model (NFKC_Model.v): tries, table facts, decomposition,
    canonical ordering. The composition loop and the KF3 analysis are in NFKC_Clean.v.
    Pinned statements are in NFKC_Props.v. *)
From Coq Require Import FMapPositive Lia Permutation.
From TU Require Import Base UAX29_Model NFKC_Model.
Open Scope N_scope.

(** * A. Tries = first-match lookup in the translated lists *)

Lemma tfind_tadd_same {A} x (v : A) m : x <> 0 -> tfind (tadd x v m) x = Some v.
Proof. destruct x as [|p]; [congruence|]. intros _. cbn [tfind tadd]. apply PositiveMap.gss. Qed.

Lemma tfind_tadd_other {A} x y (v : A) m : x <> y -> tfind (tadd y v m) x = tfind m x.
Proof.
  destruct x as [|p], y as [|q]; cbn [tfind tadd]; try reflexivity. intros H.
  apply PositiveMap.gso. congruence.
Qed.

Lemma tfind_empty {A} x : tfind (PositiveMap.empty A) x = None.
Proof. destruct x; [reflexivity|]. cbn [tfind]. apply PositiveMap.gempty. Qed.

Definition keys_nonzero {A} (l : list (N * A)) : bool := forallb (fun e => negb (fst e =? 0)) l.

Lemma trie_of_spec {A} (l : list (N * A)) x :
  keys_nonzero l = true -> tfind (trie_of l) x = alookup l x.
Proof.
  induction l as [|[k v] l IH]; intros H.
  - cbn [trie_of fold_right alookup]. apply tfind_empty.
  - cbn [keys_nonzero forallb fst] in H. apply andb_true_iff in H as [Hk H].
    apply negb_true_iff, N.eqb_neq in Hk.
    change (trie_of ((k, v) :: l)) with (tadd k v (trie_of l)). cbn [alookup].
    destruct (N.eqb_spec k x) as [->|Hne].
    + apply tfind_tadd_same. exact Hk.
    + rewrite tfind_tadd_other by congruence. apply IH. exact H.
Qed.

Definition keys2_nonzero (l : list (N * N * N)) : bool :=
  forallb (fun e => match e with (a, b, _) => negb (a =? 0) && negb (b =? 0) end) l.

Lemma trie2_of_spec (l : list (N * N * N)) a b :
  keys2_nonzero l = true -> tfind2 (trie2_of l) a b = alookup2 l a b.
Proof.
  induction l as [|[[a' b'] r] l IH]; intros H.
  - cbn [trie2_of fold_right alookup2]. unfold tfind2. rewrite tfind_empty. reflexivity.
  - cbn [keys2_nonzero forallb] in H. apply andb_true_iff in H as [Hk H].
    apply andb_true_iff in Hk as [Ha Hb]. apply negb_true_iff, N.eqb_neq in Ha, Hb.
    specialize (IH H). change (trie2_of ((a', b', r) :: l)) with (tadd2 (a', b', r) (trie2_of l)).
    set (m := trie2_of l) in *. cbn [alookup2]. unfold tadd2, tfind2.
    destruct (N.eqb_spec a' a) as [->|Hne].
    + rewrite tfind_tadd_same by exact Ha. cbn [andb].
      destruct (N.eqb_spec b' b) as [->|Hnb].
      * apply tfind_tadd_same. exact Hb.
      * rewrite tfind_tadd_other by congruence. rewrite <- IH. unfold tfind2.
        destruct (tfind m a); [reflexivity|apply tfind_empty].
    + rewrite tfind_tadd_other by congruence. cbn [andb]. exact IH.
Qed.

Lemma alookup_in {A} (l : list (N * A)) x v : alookup l x = Some v -> In (x, v) l.
Proof.
  induction l as [|[k w] l IH]; [discriminate|]. cbn [alookup].
  destruct (N.eqb_spec k x) as [->|_].
  - intros H. injection H as <-. left. reflexivity.
  - intros H. right. apply IH. exact H.
Qed.

Lemma alookup2_in l a b r : alookup2 l a b = Some r -> In (a, b, r) l.
Proof.
  induction l as [|[[a' b'] r'] l IH]; [discriminate|]. cbn [alookup2].
  destruct (N.eqb_spec a' a) as [->|_]; cbn [andb].
  - destruct (N.eqb_spec b' b) as [->|_].
    + intros H. injection H as <-. left. reflexivity.
    + intros H. right. apply IH. exact H.
  - intros H. right. apply IH. exact H.
Qed.

Lemma alookup_forall {A} (p : N * A -> bool) (l : list (N * A)) x v :
  forallb p l = true -> alookup l x = Some v -> p (x, v) = true.
Proof. intros Hp H. rewrite forallb_forall in Hp. apply Hp. apply alookup_in. exact H. Qed.

Lemma alookup2_forall (p : N * N * N -> bool) l a b r :
  forallb p l = true -> alookup2 l a b = Some r -> p (a, b, r) = true.
Proof. intros Hp H. rewrite forallb_forall in Hp. apply Hp. apply alookup2_in. exact H. Qed.

(** ** the five tables of the crate *)
Lemma ccc_trie_spec x : tfind ccc_trie x = alookup ccc_table x.
Proof. apply trie_of_spec. vm_compute. reflexivity. Qed.
Lemma canon_trie_spec x : tfind canon_trie x = alookup canon_decomp_table x.
Proof. apply trie_of_spec. vm_compute. reflexivity. Qed.
Lemma compat_trie_spec x : tfind compat_trie x = alookup compat_decomp_table x.
Proof. apply trie_of_spec. vm_compute. reflexivity. Qed.
Lemma comp_bmp_trie_spec a b : tfind2 comp_bmp_trie a b = alookup2 comp_bmp_table a b.
Proof. apply trie2_of_spec. vm_compute. reflexivity. Qed.
Lemma comp_astral_trie_spec a b : tfind2 comp_astral_trie a b = alookup2 comp_astral_table a b.
Proof. apply trie2_of_spec. vm_compute. reflexivity. Qed.

Lemma ccc_spec_l c : ccc c = match alookup ccc_table c with Some k => k | None => 0 end.
Proof. unfold ccc. rewrite ccc_trie_spec. reflexivity. Qed.

Lemma table_decomposition_spec_l compat c :
  table_decomposition compat c =
  if compat then match alookup compat_decomp_table c with
                 | Some d => Some d
                 | None => alookup canon_decomp_table c
                 end
  else alookup canon_decomp_table c.
Proof.
  unfold table_decomposition, compatibility_fully_decomposed, canonical_fully_decomposed.
  rewrite compat_trie_spec, canon_trie_spec. reflexivity.
Qed.

Lemma composition_table_spec_l a b :
  composition_table a b =
  if (a <? 65536) && (b <? 65536) then alookup2 comp_bmp_table a b else alookup2 comp_astral_table a b.
Proof. unfold composition_table. rewrite comp_bmp_trie_spec, comp_astral_trie_spec. reflexivity. Qed.

(** * B. Canonical combining class: table facts *)

Lemma ccc_small c : c < 768 -> ccc c = 0.
Proof.
  intros H. rewrite ccc_spec_l. destruct (alookup ccc_table c) as [k|] eqn:E; [|reflexivity].
  pose proof (alookup_forall (fun e : N * N => 768 <=? fst e) ccc_table c k
                ltac:(vm_compute; reflexivity) E) as P.
  cbn beta iota delta [fst] in P. apply N.leb_le in P. lia.
Qed.

Lemma is_ws_in c : is_ws c = true <-> In c ws_list.
Proof.
  unfold is_ws. rewrite existsb_exists. split.
  - intros (x & Hx & E). apply N.eqb_eq in E. subst. exact Hx.
  - intros H. exists c. split; [exact H|apply N.eqb_refl].
Qed.

Lemma ccc_ws c : is_ws c = true -> ccc c = 0.
Proof.
  intros H. apply is_ws_in in H.
  assert (F : forallb (fun w => ccc w =? 0) ws_list = true) by (vm_compute; reflexivity).
  rewrite forallb_forall in F. apply N.eqb_eq. apply F. exact H.
Qed.

(** * C. Decomposition of one code point *)

Lemma decompose_char_ascii k c : c <= 127 -> decompose_char k c = [c].
Proof. intros H. unfold decompose_char. apply N.leb_le in H. rewrite H. reflexivity. Qed.

Lemma decompose_ascii k s : Forall (fun c => c <= 127) s -> decompose k s = s.
Proof.
  induction 1 as [|c s Hc _ IH]; [reflexivity|]. unfold decompose in *. cbn [flat_map].
  rewrite (decompose_char_ascii k c Hc), IH. reflexivity.
Qed.

Definition is_nil {A} (l : list A) : bool := match l with [] => true | _ => false end.

(** every value of the two tables is non-empty *)
Lemma table_decomposition_nonempty k c d : table_decomposition k c = Some d -> d <> [].
Proof.
  rewrite table_decomposition_spec_l. intros H.
  assert (Hc : forall x v, alookup canon_decomp_table x = Some v -> v <> []).
  { intros x v E.
    pose proof (alookup_forall (fun e : N * list N => negb (is_nil (snd e))) canon_decomp_table x v
                  ltac:(vm_compute; reflexivity) E) as P.
    cbn beta iota delta [snd] in P. destruct v; [discriminate|discriminate]. }
  destruct k; [|apply (Hc _ _ H)].
  destruct (alookup compat_decomp_table c) as [v|] eqn:E; [|apply (Hc _ _ H)].
  injection H as <-.
  pose proof (alookup_forall (fun e : N * list N => negb (is_nil (snd e))) compat_decomp_table c v
                ltac:(vm_compute; reflexivity) E) as P.
  cbn beta iota delta [snd] in P. destruct v; [discriminate|discriminate].
Qed.

Lemma decompose_char_nonempty k c : decompose_char k c <> [].
Proof.
  unfold decompose_char. destruct (c <=? 127); [discriminate|].
  destruct (is_hangul_syllable c); [unfold decompose_hangul; discriminate|].
  destruct (table_decomposition k c) as [d|] eqn:E; [|discriminate].
  apply (table_decomposition_nonempty k c d E).
Qed.

(** ** the tables are closed: what a code point decomposes to does not decompose any further.
    This is why [decompose_char] needs neither recursion nor fuel. *)
Definition fixed (k : bool) (c : N) : bool := nlist_eqb (decompose_char k c) [c].
Definition closed_entry (k : bool) (e : N * list N) : bool := forallb (fixed k) (snd e).

Lemma nlist_eqb_true a : forall b, nlist_eqb a b = true -> a = b.
Proof.
  induction a as [|x a IH]; intros [|y b]; cbn [nlist_eqb]; try discriminate; [reflexivity|].
  intros H. apply andb_true_iff in H as [E H]. apply N.eqb_eq in E. subst. f_equal. apply IH. exact H.
Qed.

Lemma fixed_spec k c : fixed k c = true -> decompose_char k c = [c].
Proof. apply nlist_eqb_true. Qed.

Lemma hangul_parts c :
  is_hangul_syllable c = true ->
  let si := c - S_BASE in
  si / N_COUNT < L_COUNT /\ (si mod N_COUNT) / T_COUNT < V_COUNT /\ si mod T_COUNT < T_COUNT.
Proof.
  unfold is_hangul_syllable, S_BASE, S_COUNT, N_COUNT, T_COUNT, L_COUNT, V_COUNT. intros H.
  apply andb_true_iff in H as [H1 H2]. apply N.leb_le in H1. apply N.ltb_lt in H2. cbv zeta.
  repeat split.
  - apply N.div_lt_upper_bound; lia.
  - apply N.div_lt_upper_bound; [lia|]. apply N.mod_upper_bound. lia.
  - apply N.mod_upper_bound. lia.
Qed.

(** no table has a key among the conjoining jamo U+1100 .. U+11FF, none is a Hangul syllable *)
Lemma jamo_fixed k c : 4352 <= c -> c <= 4607 -> decompose_char k c = [c].
Proof.
  intros H1 H2. unfold decompose_char.
  destruct (c <=? 127) eqn:E1; [apply N.leb_le in E1; lia|].
  unfold is_hangul_syllable, S_BASE, S_COUNT.
  destruct (44032 <=? c) eqn:E2; [apply N.leb_le in E2; lia|]. cbn [andb].
  rewrite table_decomposition_spec_l.
  assert (Hn : forall (l : list (N * list N)),
             forallb (fun e => (fst e <? 4352) || (4607 <? fst e)) l = true -> alookup l c = None).
  { intros l Hl. destruct (alookup l c) as [v|] eqn:E; [|reflexivity].
    pose proof (alookup_forall _ l c v Hl E) as P. cbn beta iota delta [fst] in P.
    apply orb_true_iff in P as [P|P]; apply N.ltb_lt in P; lia. }
  rewrite (Hn canon_decomp_table) by (vm_compute; reflexivity).
  rewrite (Hn compat_decomp_table) by (vm_compute; reflexivity).
  destruct k; reflexivity.
Qed.

Lemma decompose_char_closed k c : Forall (fun d => decompose_char k d = [d]) (decompose_char k c).
Proof.
  unfold decompose_char at 2.
  destruct (c <=? 127) eqn:E1.
  { constructor; [|constructor]. apply decompose_char_ascii. apply N.leb_le. exact E1. }
  destruct (is_hangul_syllable c) eqn:E2.
  { destruct (hangul_parts c E2) as (Hl & Hv & Ht). cbv zeta in *.
    unfold decompose_hangul.
    set (li := (c - S_BASE) / N_COUNT) in *. set (vi := (c - S_BASE) mod N_COUNT / T_COUNT) in *.
    set (ti := (c - S_BASE) mod T_COUNT) in *. clearbody li vi ti.
    unfold L_BASE, V_BASE, T_BASE, L_COUNT, V_COUNT, T_COUNT in *.
    constructor; [apply jamo_fixed; lia|]. constructor; [apply jamo_fixed; lia|].
    destruct (0 <? ti); [|constructor].
    constructor; [apply jamo_fixed; lia|constructor]. }
  destruct (table_decomposition k c) as [d|] eqn:E3.
  - rewrite table_decomposition_spec_l in E3. rewrite Forall_forall. intros x Hx.
    apply fixed_spec.
    assert (Hc : forallb (closed_entry false) canon_decomp_table = true) by (vm_compute; reflexivity).
    (* in compatibility mode the canonical table is only reached for keys without a compatibility entry *)
    assert (Hck : forallb (fun e => match alookup compat_decomp_table (fst e) with
                                    | Some _ => true
                                    | None => closed_entry true e
                                    end) canon_decomp_table = true) by (vm_compute; reflexivity).
    assert (Hk : forallb (closed_entry true) compat_decomp_table = true) by (vm_compute; reflexivity).
    assert (Hcl : closed_entry k (c, d) = true).
    { destruct k.
      - destruct (alookup compat_decomp_table c) as [v|] eqn:E4.
        + injection E3 as <-. apply (alookup_forall _ compat_decomp_table _ _ Hk E4).
        + pose proof (alookup_forall _ canon_decomp_table _ _ Hck E3) as P.
          cbn beta iota delta [fst] in P. rewrite E4 in P. exact P.
      - apply (alookup_forall _ canon_decomp_table _ _ Hc E3). }
    unfold closed_entry in Hcl. cbn [snd] in Hcl. rewrite forallb_forall in Hcl. apply Hcl. exact Hx.
  - constructor; [|constructor]. unfold decompose_char. rewrite E1, E2, E3. reflexivity.
Qed.

Lemma flat_map_fixed {A} (f : A -> list A) l : Forall (fun d => f d = [d]) l -> flat_map f l = l.
Proof.
  induction 1 as [|d l Hd _ IH]; [reflexivity|]. cbn [flat_map]. rewrite Hd, IH. reflexivity.
Qed.

(** full decomposition is a fixpoint of itself *)
Lemma decompose_char_idem k c : decompose k (decompose_char k c) = decompose_char k c.
Proof. apply flat_map_fixed. apply decompose_char_closed. Qed.

Lemma decompose_closed k s : Forall (fun d => decompose_char k d = [d]) (decompose k s).
Proof.
  induction s as [|c s IH]; [constructor|]. unfold decompose in *. cbn [flat_map].
  apply Forall_app. split; [apply decompose_char_closed|exact IH].
Qed.

Lemma decompose_idem k s : decompose k (decompose k s) = decompose k s.
Proof. apply flat_map_fixed. apply decompose_closed. Qed.

Lemma decompose_app k a b : decompose k (a ++ b) = decompose k a ++ decompose k b.
Proof. unfold decompose. apply flat_map_app. Qed.

Lemma decompose_nonempty k s : s <> [] -> decompose k s <> [].
Proof.
  destruct s as [|c s]; [congruence|]. intros _. unfold decompose. cbn [flat_map].
  pose proof (decompose_char_nonempty k c). destruct (decompose_char k c); [congruence|discriminate].
Qed.

(** * D. Canonical ordering *)

Fixpoint sorted_cc (l : list N) : bool :=
  match l with
  | a :: r => match r with b :: _ => (ccc a <=? ccc b) && sorted_cc r | [] => true end
  | [] => true
  end.

Lemma ins_cc_perm cx x l : Permutation (ins_cc cx x l) (x :: l).
Proof.
  induction l as [|y r IH]; [reflexivity|]. cbn [ins_cc].
  destruct (cx <=? ccc y); [reflexivity|].
  rewrite IH. apply perm_swap.
Qed.

Lemma sort_cc_perm l : Permutation (sort_cc l) l.
Proof.
  induction l as [|x r IH]; [reflexivity|]. cbn [sort_cc]. rewrite ins_cc_perm. constructor. exact IH.
Qed.

Lemma ins_cc_sorted x l : sorted_cc l = true -> sorted_cc (ins_cc (ccc x) x l) = true.
Proof.
  induction l as [|y r IH]; intros H; [reflexivity|]. cbn [ins_cc].
  destruct (ccc x <=? ccc y) eqn:E.
  - change (sorted_cc (x :: y :: r)) with ((ccc x <=? ccc y) && sorted_cc (y :: r)). rewrite E, H. reflexivity.
  - apply N.leb_gt in E. destruct r as [|z r'].
    + cbn [ins_cc sorted_cc]. rewrite andb_true_r. apply N.leb_le. lia.
    + change (sorted_cc (y :: z :: r')) with ((ccc y <=? ccc z) && sorted_cc (z :: r')) in H.
      apply andb_true_iff in H as [H1 H2]. specialize (IH H2). cbn [ins_cc] in *.
      destruct (ccc x <=? ccc z).
      * change ((ccc y <=? ccc x) && sorted_cc (x :: z :: r') = true). rewrite IH, andb_true_r.
        apply N.leb_le. lia.
      * change ((ccc y <=? ccc z) && sorted_cc (z :: ins_cc (ccc x) x r') = true). rewrite H1, IH. reflexivity.
Qed.

Lemma sort_cc_sorted l : sorted_cc (sort_cc l) = true.
Proof. induction l as [|x r IH]; [reflexivity|]. cbn [sort_cc]. apply ins_cc_sorted. exact IH. Qed.

Lemma ins_cc_sorted_id x l :
  sorted_cc (x :: l) = true -> ins_cc (ccc x) x l = x :: l.
Proof.
  destruct l as [|y r]; [reflexivity|]. intros H.
  change (sorted_cc (x :: y :: r)) with ((ccc x <=? ccc y) && sorted_cc (y :: r)) in H.
  apply andb_true_iff in H as [H _]. cbn [ins_cc]. rewrite H. reflexivity.
Qed.

Lemma sorted_cc_tail x l : sorted_cc (x :: l) = true -> sorted_cc l = true.
Proof.
  destruct l as [|y r]; [reflexivity|]. intros H.
  change (sorted_cc (x :: y :: r)) with ((ccc x <=? ccc y) && sorted_cc (y :: r)) in H.
  apply andb_true_iff in H as [_ H]. exact H.
Qed.

(** an already sorted block is left alone (stability in the simplest case) *)
Lemma sort_cc_id l : sorted_cc l = true -> sort_cc l = l.
Proof.
  induction l as [|x r IH]; intros H; [reflexivity|]. cbn [sort_cc].
  rewrite (IH (sorted_cc_tail x r H)). apply ins_cc_sorted_id. exact H.
Qed.

Definition pair_ok (a b : N) : bool := (ccc b =? 0) || (ccc a <=? ccc b).

Lemma cordered_cons2 a b r : cordered (a :: b :: r) = pair_ok a b && cordered (b :: r).
Proof. reflexivity. Qed.

Lemma cordered_sorted l : sorted_cc l = true -> cordered l = true.
Proof.
  induction l as [|a r IH]; intros H; [reflexivity|]. destruct r as [|b r']; [reflexivity|].
  change (sorted_cc (a :: b :: r')) with ((ccc a <=? ccc b) && sorted_cc (b :: r')) in H.
  apply andb_true_iff in H as [H1 H2]. rewrite cordered_cons2, (IH H2). unfold pair_ok.
  rewrite H1, orb_true_r. reflexivity.
Qed.

Lemma cordered_cons_starter c l : ccc c = 0 -> cordered l = true -> cordered (c :: l) = true.
Proof.
  intros Hc H. destruct l as [|b r]; [reflexivity|]. rewrite cordered_cons2, H. unfold pair_ok.
  rewrite Hc. replace (0 <=? ccc b) with true by (symmetry; apply N.leb_le; lia).
  rewrite orb_true_r. reflexivity.
Qed.

Lemma cordered_app_starter l c r :
  sorted_cc l = true -> ccc c = 0 -> cordered (c :: r) = true -> cordered (l ++ c :: r) = true.
Proof.
  induction l as [|a l IH]; intros Hs Hc Hr; [exact Hr|].
  specialize (IH (sorted_cc_tail a l Hs) Hc Hr). destruct l as [|b l'].
  - cbn [app]. rewrite cordered_cons2, Hr. unfold pair_ok. rewrite Hc. reflexivity.
  - change (sorted_cc (a :: b :: l')) with ((ccc a <=? ccc b) && sorted_cc (b :: l')) in Hs.
    apply andb_true_iff in Hs as [H1 _]. cbn [app] in *. rewrite cordered_cons2, IH. unfold pair_ok.
    rewrite H1, orb_true_r. reflexivity.
Qed.

Lemma reorder_cordered s : forall pend, cordered (reorder pend s) = true.
Proof.
  induction s as [|c r IH]; intros pend; cbn [reorder].
  - apply cordered_sorted, sort_cc_sorted.
  - destruct (ccc c =? 0) eqn:E; [|apply IH]. apply N.eqb_eq in E.
    apply cordered_app_starter; [apply sort_cc_sorted|exact E|].
    apply cordered_cons_starter; [exact E|apply IH].
Qed.

Lemma reorder_perm s : forall pend, Permutation (reorder pend s) (rev pend ++ s).
Proof.
  induction s as [|c r IH]; intros pend; cbn [reorder].
  - rewrite app_nil_r. apply sort_cc_perm.
  - destruct (ccc c =? 0).
    + apply Permutation_app; [apply sort_cc_perm|]. constructor. apply (IH []).
    + rewrite IH. cbn [rev]. rewrite <- app_assoc. reflexivity.
Qed.

Lemma reorder_split s : forall pend z v,
  ccc z = 0 -> reorder pend (s ++ z :: v) = reorder pend s ++ z :: reorder [] v.
Proof.
  induction s as [|c r IH]; intros pend z v Hz; cbn [app reorder].
  - rewrite Hz. reflexivity.
  - destruct (ccc c =? 0).
    + rewrite (IH [] z v Hz), <- app_assoc. reflexivity.
    + apply IH. exact Hz.
Qed.

Lemma reorder_starters s : Forall (fun c => ccc c = 0) s -> reorder [] s = s.
Proof.
  induction 1 as [|c s Hc _ IH]; [reflexivity|]. cbn [reorder rev sort_cc app]. rewrite Hc. cbn [N.eqb].
  rewrite IH. reflexivity.
Qed.

(** a text in canonical order is left alone *)
Lemma sorted_of_cordered l :
  Forall (fun c => ccc c <> 0) l -> cordered l = true -> sorted_cc l = true.
Proof.
  induction l as [|a r IH]; intros Hn H; [reflexivity|]. destruct r as [|b r']; [reflexivity|].
  inversion Hn as [|? ? _ Hr]; subst. rewrite cordered_cons2 in H. apply andb_true_iff in H as [H1 H2].
  change ((ccc a <=? ccc b) && sorted_cc (b :: r') = true). rewrite (IH Hr H2), andb_true_r.
  unfold pair_ok in H1. inversion Hr as [|? ? Hb _]; subst.
  destruct (ccc b =? 0) eqn:E; [apply N.eqb_eq in E; congruence|]. exact H1.
Qed.

Lemma cordered_app_l a : forall b, cordered (a ++ b) = true -> cordered a = true.
Proof.
  induction a as [|x a IH]; intros b H; [reflexivity|]. destruct a as [|y a']; [reflexivity|].
  cbn [app] in H. rewrite cordered_cons2 in *. apply andb_true_iff in H as [H1 H2].
  rewrite H1. apply (IH b). exact H2.
Qed.

Lemma cordered_app_r a : forall b, cordered (a ++ b) = true -> cordered b = true.
Proof.
  induction a as [|x a IH]; intros b H; [exact H|]. apply IH. cbn [app] in H.
  destruct (a ++ b) as [|y t] eqn:E; [reflexivity|]. rewrite cordered_cons2 in H.
  apply andb_true_iff in H as [_ H]. exact H.
Qed.

Lemma reorder_id s : forall pend,
  Forall (fun c => ccc c <> 0) pend -> cordered (rev pend ++ s) = true -> reorder pend s = rev pend ++ s.
Proof.
  induction s as [|c r IH]; intros pend Hp H; cbn [reorder].
  - rewrite app_nil_r in *. apply sort_cc_id. apply sorted_of_cordered; [|exact H].
    apply Forall_rev. exact Hp.
  - destruct (ccc c =? 0) eqn:E.
    + rewrite sort_cc_id.
      * f_equal. f_equal. apply (IH []); [constructor|]. cbn [rev app].
        apply cordered_app_r in H. destruct r as [|b r']; [reflexivity|].
        rewrite cordered_cons2 in H. apply andb_true_iff in H as [_ H]. exact H.
      * apply sorted_of_cordered; [apply Forall_rev; exact Hp|]. apply (cordered_app_l _ _ H).
    + apply N.eqb_neq in E. rewrite (IH (c :: pend)).
      * cbn [rev]. rewrite <- app_assoc. reflexivity.
      * constructor; assumption.
      * cbn [rev]. rewrite <- app_assoc. exact H.
Qed.

(** ** NFD / NFKD *)
Lemma nfd_cordered s : cordered (nfd s) = true.
Proof. apply reorder_cordered. Qed.
Lemma nfkd_cordered s : cordered (nfkd s) = true.
Proof. apply reorder_cordered. Qed.

Definition nfxd (k : bool) (s : list N) : list N := reorder [] (decompose k s).

Lemma nfxd_perm k s : Permutation (nfxd k s) (decompose k s).
Proof. unfold nfxd. apply (reorder_perm (decompose k s) []). Qed.

(** the output of NFD / NFKD is in NFD / NFKD *)
Lemma nfxd_idem k s : nfxd k (nfxd k s) = nfxd k s.
Proof.
  unfold nfxd at 1.
  assert (D : decompose k (nfxd k s) = nfxd k s).
  { apply flat_map_fixed. rewrite Forall_forall. intros x Hx.
    pose proof (decompose_closed k s) as C. rewrite Forall_forall in C. apply C.
    apply (Permutation_in x (nfxd_perm k s)). exact Hx. }
  rewrite D. apply (reorder_id _ []); [constructor|]. cbn [rev app]. apply reorder_cordered.
Qed.

(** every run of non-starters in the output is sorted by class *)
Lemma cordered_run u run v :
  cordered (u ++ run ++ v) = true -> Forall (fun c => ccc c <> 0) run -> sorted_cc run = true.
Proof.
  intros H Hn. apply sorted_of_cordered; [exact Hn|].
  apply cordered_app_r in H. apply (cordered_app_l _ _ H).
Qed.

(** * E. ASCII *)
Lemma ascii_starters s : Forall (fun c => c <= 127) s -> Forall (fun c => ccc c = 0) s.
Proof. apply Forall_impl. intros c H. apply ccc_small. lia. Qed.

Lemma nfxd_ascii k s : Forall (fun c => c <= 127) s -> nfxd k s = s.
Proof.
  intros H. unfold nfxd. rewrite (decompose_ascii k s H). apply reorder_starters, ascii_starters, H.
Qed.

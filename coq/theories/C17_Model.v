(** C17 model: token groups of the byte tokenizer (ByteTokenizer::process_input),
    TokenGroup::len / get_weights, token_groups_to_sparse_coo_matrix, padding_mask
    (src/tokenization.rs), pad_ids and Tensorize for Batch<TrainItem> (src/data/mod.rs).
    Weights are rationals (the code computes in f32; rounding is outside the model).
    Builds on C01_Model (special vocabulary, scanner, byte tokenizer). Definitions only. *)
From TU Require Import Base C01_Model.
From Coq Require Import QArith Qabs.
Open Scope nat_scope.

(** * token groups *)
Inductive tg := Empty (n : nat) | Full (n : nat) | Nested (l : list tg).

Fixpoint tg_len (g : tg) : nat :=
  match g with
  | Empty n => n
  | Full n => n
  | Nested l => list_sum (map tg_len l)
  end.

Definition qnat (n : nat) : Q := inject_Z (Z.of_nat n).

(** [get_weights]; [mean = false] is GroupAggregation::Sum *)
Fixpoint weights (mean : bool) (g : tg) : list Q :=
  match g with
  | Empty n => repeat 0%Q n
  | Full n => repeat (if mean then (1 / qnat n)%Q else 1%Q) n
  | Nested l =>
    let w := if mean then (1 / qnat (length l))%Q else 1%Q in
    map (fun x => (x * w)%Q) (flat_map (weights mean) l)
  end.

(** * groups of the byte tokenizer *)
Definition cluster_group (cpg : bool) (c : cluster) : tg :=
  if cpg then Nested (map (fun x => Full (length (utf8 x))) c) else Full (length (utf8s c)).

Fixpoint segs_groups (cpg g : bool) (segs : list seg) (os : list (list cluster)) : list tg :=
  match segs with
  | [] => []
  | Reg r :: rest => map (cluster_group cpg) (clusters_of g r (hd [] os)) ++ segs_groups cpg g rest (tl os)
  | Spec _ :: rest => Full 1 :: segs_groups cpg g rest os
  end.

Definition byte_groups (b : base) (cpg g : bool) (s : str) (ign : bool) (os : list (list cluster)) : list tg :=
  repeat (Full 1) (length (b_pre b)) ++ segs_groups cpg g (split_input (b_sv b) s ign) os
  ++ repeat (Full 1) (length (b_suf b)).

(** * token_groups_to_sparse_coo_matrix *)
Definition item := (list tg * bool)%type.   (* groups, mean? *)

(** the inner loop over the groups of one batch item: rows 1 and 2 and the values *)
Fixpoint inner (mean : bool) (groups : list tg) (gidx goff : nat) : list nat * list nat * list Q :=
  match groups with
  | [] => ([], [], [])
  | g :: r =>
    let n := tg_len g in
    let '(b, c, d) := inner mean r (S gidx) (goff + n) in
    (repeat gidx n ++ b, seq goff n ++ c, (if mean then weights true g else repeat 1%Q n) ++ d)
  end.

(** the outer loop; [None] = the closing assertion [offset == cum_lengths[batch_index]] fails.
    (A slice that would leave the index vector makes [offset] exceed the total and hence the cumulative
    length, so it is covered by the same test.) *)
Fixpoint sparse_loop (items : list item) (lengths : list nat) (bidx offset cum : nat)
  : option (list nat * list nat * list nat * list Q) :=
  match items, lengths with
  | [], _ => Some ([], [], [], [])
  | (groups, mean) :: ri, len :: rl =>
    let total := list_sum (map tg_len groups) in
    let '(b, c, d) := inner mean groups 0 0 in
    if Nat.eqb (offset + total) (cum + len) then
      match sparse_loop ri rl (S bidx) (offset + total) (cum + len) with
      | Some (a', b', c', d') => Some (repeat bidx total ++ a', b ++ b', c ++ c', d ++ d')
      | None => None
      end
    else None
  | _ :: _, [] => None
  end.

Definition list_max0 (l : list nat) : nat := fold_right Nat.max 0 l.

Record sparse_out := { s_r0 : list nat; s_r1 : list nat; s_r2 : list nat; s_vals : list Q;
                       s_size : list nat; s_gl : list nat }.

(** [None] = panic (assertion) *)
Definition sparse (items : list item) (lengths : list nat) : option sparse_out :=
  if Nat.eqb (length items) (length lengths) then
    match sparse_loop items lengths 0 0 0 with
    | Some (a, b, c, d) =>
      let gl := map (fun it : item => length (fst it)) items in
      Some {| s_r0 := a; s_r1 := b; s_r2 := c; s_vals := d;
              s_size := [length items; list_max0 gl; list_max0 lengths]; s_gl := gl |}
    | None => None
    end
  else None.

(** * padding_mask, pad_ids *)
Definition padding_mask (lengths : list nat) : list (list bool) :=
  let m := list_max0 lengths in map (fun l => repeat true l ++ repeat false (m - l)) lengths.

Definition pad_rows {A} (rows : list (list A)) (pad : A) : list (list A) * list nat :=
  let m := list_max0 (map (@length A) rows) in
  (map (fun r => r ++ repeat pad (m - length r)) rows, map (@length A) rows).

(** * Tensorize for Batch<TrainItem> *)
(** kind 0 classification (labels = [label]), 1 sequence classification, 2 generation, 3 conditional generation *)
Record titem := { i_kind : nat; i_ids : list Z; i_pad : Z; i_labels : list Z; i_tids : list Z; i_tpad : Z }.

(** a tensor as (shape, row-major data) *)
Definition tensor := (list nat * list Z)%type.
Definition tensor2 (p : list (list Z) * list nat) : tensor :=
  ([length (fst p); list_max0 (snd p)], concat (fst p)).
Definition tensor1 (l : list Z) : tensor := ([length l], l).
Definition lens_tensor (p : list (list Z) * list nat) : tensor := tensor1 (map Z.of_nat (snd p)).

(** [None] = empty batch ([expect] panics) *)
Definition tensorize (batch : list titem) : option (list tensor) :=
  match batch with
  | [] => None
  | first :: _ =>
    let same := filter (fun it => Nat.eqb (i_kind it) (i_kind first)) batch in
    let ids := pad_rows (map i_ids same) (i_pad first) in
    match i_kind first with
    | 0 => Some [tensor2 ids; lens_tensor ids; tensor1 (map (fun it => hd 0%Z (i_labels it)) same)]
    | 1 | 2 =>
      let labels := pad_rows (map i_labels same) (-1)%Z in
      Some [tensor2 ids; lens_tensor ids; tensor2 labels]
    | _ =>
      let tids := pad_rows (map i_tids same) (i_tpad first) in
      let labels := pad_rows (map i_labels same) (-1)%Z in
      Some [tensor2 ids; lens_tensor ids; tensor2 tids; lens_tensor tids; tensor2 labels]
    end
  end.

(** * val glue *)
Fixpoint v_tg (v : val) {struct v} : tg :=
  match v with
  | L [I 0%Z; I n] => Empty (Z.to_nat n)
  | L [I 1%Z; I n] => Full (Z.to_nat n)
  | L [I 2%Z; L l] => Nested (map v_tg l)
  | _ => Empty 0
  end.

Fixpoint tg_v (g : tg) : val :=
  match g with
  | Empty n => L [I 0%Z; nat_v n]
  | Full n => L [I 1%Z; nat_v n]
  | Nested l => L [I 2%Z; L (map tg_v l)]
  end.

Definition q_v (q : Q) : val := L [I (Qnum q); I (Zpos (Qden q))].
(** a value is either the model's exact rational (p q) or the implementation's f32 scaled by 2^40 *)
Definition v_q (v : val) : Q :=
  match v with
  | I w => Qmake w (2 ^ 40)
  | L [I p; I q] => Qmake p (Z.to_pos q)
  | _ => 0%Q
  end.

Definition sparse_v (o : option sparse_out) : val :=
  match o with
  | None => L []
  | Some s => L [L [L [list_v nat_v (s_r0 s); list_v nat_v (s_r1 s); list_v nat_v (s_r2 s)];
                    list_v q_v (s_vals s); list_v nat_v (s_size s); list_v nat_v (s_gl s)]]
  end.

Definition mask_v (m : list (list bool)) : val := list_v (list_v bool_v) m.

Definition v_item (v : val) : item := (v_list v_tg (v_nth 0 v), v_bool (v_nth 1 v)).

Definition v_titem (v : val) : titem :=
  {| i_kind := v_nat (v_nth 0 v); i_ids := v_list v_z (v_nth 1 v); i_pad := v_z (v_nth 2 v);
     i_labels := v_list v_z (v_nth 3 v); i_tids := v_list v_z (v_nth 4 v); i_tpad := v_z (v_nth 5 v) |}.

Definition tensor_v (t : tensor) : val := L [list_v nat_v (fst t); list_v z_v (snd t)].

(** mode 0: (0 cfg mean ign texts oracles)   cfg = the ten configuration fields of C01 (kind = byte)
      output (0) constructor error | (1 ((ids groups) ...) sparse? mask)
    mode 1: (1 ((groups mean) ...) (len ...))
      output (1 sparse? mask?)            mask only when the matrix was built
    mode 2: (2 (titem ...))
      output (1 (shape data) ...) *)
Definition run_mode0 (v : val) : val :=
  let c := v_cfg (v_nth 1 v) in
  let mean := v_bool (v_nth 2 v) in
  let ign := v_bool (v_nth 3 v) in
  let texts := v_list v_str (v_nth 4 v) in
  let oss := v_list (v_list (v_list v_str)) (v_nth 5 v) in
  match cfg_base c with
  | None => L [I 0%Z]
  | Some b =>
    if negb (forallb (fun p => oracle_okb (split_input (b_sv b) (fst p) ign) (snd p)) (combine texts oss))
       || negb (Nat.eqb (length texts) (length oss))
    then L [I (-1)%Z]
    else
      let toks := map (fun p => (match byte_tokenize b (fst p) ign with Some ids => ids | None => [] end,
                                 byte_groups b (c_groups c) (c_g c) (fst p) ign (snd p))) (combine texts oss) in
      let sp := sparse (map (fun t => (snd t, mean)) toks) (map (fun t => length (fst t)) toks) in
      L [ I 1%Z;
          list_v (fun t => L [list_v n_v (fst t); list_v tg_v (snd t)]) toks;
          sparse_v sp;
          match sp with Some s => mask_v (padding_mask (s_gl s)) | None => L [] end ]
  end.

Definition run_mode1 (v : val) : val :=
  let items := v_list v_item (v_nth 1 v) in
  let lengths := v_list v_nat (v_nth 2 v) in
  let sp := sparse items lengths in
  L [ I 1%Z; sparse_v sp; match sp with Some s => L [mask_v (padding_mask (s_gl s))] | None => L [] end ].

Definition run_mode2 (v : val) : val :=
  match tensorize (v_list v_titem (v_nth 1 v)) with
  | Some ts => L (I 1%Z :: map tensor_v ts)
  | None => L [I 0%Z]
  end.

Definition run_C17 (v : val) : val :=
  match v_z (v_nth 0 v) with
  | 0%Z => run_mode0 v
  | 1%Z => run_mode1 v
  | _ => run_mode2 v
  end.

(** ** The executable statement of the property *)
Fixpoint nat_list_eqb (a b : list nat) : bool :=
  match a, b with
  | [], [] => true
  | x :: a', y :: b' => Nat.eqb x y && nat_list_eqb a' b'
  | _, _ => false
  end.

Fixpoint zlist_eqb (a b : list Z) : bool :=
  match a, b with
  | [], [] => true
  | x :: a', y :: b' => Z.eqb x y && zlist_eqb a' b'
  | _, _ => false
  end.

Definition tol : Q := Qmake 1 (2 ^ 20).
(** [x] is within relative tolerance 2^-20 of the non-negative target [t] *)
Definition close (x t : Q) : bool := Qle_bool (Qabs (x - t)) (t * tol).

Definition sumQ (l : list Q) : Q := fold_right Qplus 0%Q l.

(** a group all of whose (nested) parts contain at least one token *)
Fixpoint positiveb (g : tg) : bool :=
  match g with
  | Empty _ => false
  | Full n => Nat.ltb 0 n
  | Nested l => negb (Nat.eqb (length l) 0) && forallb positiveb l
  end.

(** row 0: the batch index of every token; row 2: its position in the item; row 1: its group *)
Fixpoint spec_r0 (i : nat) (lengths : list nat) : list nat :=
  match lengths with [] => [] | l :: r => repeat i l ++ spec_r0 (S i) r end.
Definition spec_r2 (lengths : list nat) : list nat := flat_map (seq 0) lengths.
Fixpoint spec_groups (j : nat) (groups : list tg) : list nat :=
  match groups with [] => [] | g :: r => repeat j (tg_len g) ++ spec_groups (S j) r end.
Definition spec_r1 (items : list item) : list nat := flat_map (fun it : item => spec_groups 0 (fst it)) items.

(** the values, group by group: mean => the weights of a positive group sum to one; sum => all ones *)
Fixpoint groups_vals_ok (mean : bool) (groups : list tg) (vals : list Q) : option (list Q) :=
  match groups with
  | [] => Some vals
  | g :: r =>
    let n := tg_len g in
    let chunk := firstn n vals in
    if Nat.eqb (length chunk) n
       && (if mean then (if positiveb g then close (sumQ chunk) 1 else true)
           else forallb (fun x => close x 1) chunk)
    then groups_vals_ok mean r (skipn n vals)
    else None
  end.

Fixpoint items_vals_ok (items : list item) (vals : list Q) : bool :=
  match items with
  | [] => match vals with [] => true | _ => false end
  | it :: r => match groups_vals_ok (snd it) (fst it) vals with
               | Some rest => items_vals_ok r rest
               | None => false
               end
  end.

Fixpoint forall2n (f : item -> nat -> bool) (l : list item) (m : list nat) : bool :=
  match l, m with
  | [], [] => true
  | x :: l', y :: m' => f x y && forall2n f l' m'
  | _, _ => false
  end.

(** the group lengths of every item sum to its number of tokens *)
Definition equationsb (items : list item) (lengths : list nat) : bool :=
  forall2n (fun it len => Nat.eqb (list_sum (map tg_len (fst it))) len) items lengths.

Definition check_sparse (items : list item) (lengths : list nat) (spv : val) : bool :=
  if equationsb items lengths then
    match spv with
    | L [L [L [r0v; r1v; r2v]; L valsv; sizev; glv]] =>
      let r0 := v_list v_nat r0v in let r1 := v_list v_nat r1v in let r2 := v_list v_nat r2v in
      let size := v_list v_nat sizev in
      (* exactly one entry per token: (item, position) enumerates the tokens; its group is the one containing it *)
      nat_list_eqb r0 (spec_r0 0 lengths) && nat_list_eqb r2 (spec_r2 lengths) && nat_list_eqb r1 (spec_r1 items)
      && Nat.eqb (length valsv) (list_sum lengths)
      (* indices inside the declared size *)
      && Nat.eqb (length size) 3
      && forallb (fun x => Nat.ltb x (nth 0 size 0)) r0
      && forallb (fun x => Nat.ltb x (nth 1 size 0)) r1
      && forallb (fun x => Nat.ltb x (nth 2 size 0)) r2
      && nat_list_eqb (v_list v_nat glv) (map (fun it : item => length (fst it)) items)
      (* weights *)
      && items_vals_ok items (map v_q valsv)
    | _ => false
    end
  else true.

(** number of characters / special tokens of the split text (as C01's [n_chars]) *)
Fixpoint n_units (g : bool) (segs : list seg) (os : list (list cluster)) : nat :=
  match segs with
  | [] => 0
  | Reg r :: rest => length (clusters_of g r (hd [] os)) + n_units g rest (tl os)
  | Spec _ :: rest => 1 + n_units g rest os
  end.

Fixpoint forall3 {A B C} (f : A -> B -> C -> bool) (a : list A) (b : list B) (c : list C) : bool :=
  match a, b, c with
  | [], [], [] => true
  | x :: a', y :: b', z :: c' => f x y z && forall3 f a' b' c'
  | _, _, _ => false
  end.

Definition v_mask (v : val) : list (list bool) := v_list (v_list v_bool) v.

Fixpoint bool_list_eqb (a b : list bool) : bool :=
  match a, b with
  | [], [] => true
  | x :: a', y :: b' => Bool.eqb x y && bool_list_eqb a' b'
  | _, _ => false
  end.
Fixpoint mask_eqb (a b : list (list bool)) : bool :=
  match a, b with
  | [], [] => true
  | x :: a', y :: b' => bool_list_eqb x y && mask_eqb a' b'
  | _, _ => false
  end.

Definition check_mode0 (v out : val) : bool :=
  let c := v_cfg (v_nth 1 v) in
  let mean := v_bool (v_nth 2 v) in
  let ign := v_bool (v_nth 3 v) in
  let texts := v_list v_str (v_nth 4 v) in
  let oss := v_list (v_list (v_list v_str)) (v_nth 5 v) in
  match cfg_base c with
  | None => true
  | Some b =>
    if negb (forallb (fun p => oracle_okb (split_input (b_sv b) (fst p) ign) (snd p)) (combine texts oss))
       || negb (Nat.eqb (length texts) (length oss)) || c_char c
       || negb (forallb nonemptyb (b_sv b))
    then true
    else
    match out with
    | L [I 1%Z; L toksv; spv; maskv] =>
      let toks := map (fun t => (v_list v_n (v_nth 0 t), v_list v_tg (v_nth 1 t))) toksv in
      let exact := ign || prefix_freeb (b_sv b) in
      (* the group lengths sum to the number of ids; one group per character / special / prefix / suffix token *)
      forall3 (fun s os t =>
                 Nat.eqb (list_sum (map tg_len (snd t))) (length (fst t))
                 && (if exact
                     then Nat.eqb (length (snd t))
                                  (length (b_pre b) + n_units (c_g c) (split_input (b_sv b) s ign) os + length (b_suf b))
                     else true))
              texts oss toks
      (* the matrix built from these groupings *)
      && check_sparse (map (fun t => (snd t, mean)) toks) (map (fun t => length (fst t)) toks) spv
      && mask_eqb (v_mask maskv) (padding_mask (map (fun t => length (snd t)) toks))
    | _ => false
    end
  end.

Definition check_mode1 (v out : val) : bool :=
  let items := v_list v_item (v_nth 1 v) in
  let lengths := v_list v_nat (v_nth 2 v) in
  if equationsb items lengths then
    match out with
    | L [I 1%Z; spv; L [maskv]] =>
      check_sparse items lengths spv
      && mask_eqb (v_mask maskv) (padding_mask (map (fun it : item => length (fst it)) items))
    | _ => false
    end
  else true.

(** row [i] of a padded matrix = the item's values followed by padding only *)
Fixpoint rows_ok (rows : list (list Z)) (pad : Z) (m : nat) (data : list Z) : bool :=
  match rows with
  | [] => match data with [] => true | _ => false end
  | r :: rest =>
    let row := firstn m data in
    Nat.eqb (length row) m && zlist_eqb (firstn (length r) row) r
    && forallb (Z.eqb pad) (skipn (length r) row) && Nat.leb (length r) m
    && rows_ok rest pad m (skipn m data)
  end.

Definition padded_ok (rows : list (list Z)) (pad : Z) (tv : val) : bool :=
  match tv with
  | L [L [I n; I m]; L data] =>
    Z.eqb n (Z.of_nat (length rows)) && rows_ok rows pad (Z.to_nat m) (map v_z data)
  | _ => false
  end.

Definition lens_ok (rows : list (list Z)) (tv : val) : bool :=
  match tv with
  | L [L [I n]; L data] =>
    Z.eqb n (Z.of_nat (length rows)) && zlist_eqb (map v_z data) (map (fun r => Z.of_nat (length r)) rows)
  | _ => false
  end.

Definition check_mode2 (v out : val) : bool :=
  let batch := v_list v_titem (v_nth 1 v) in
  match batch with
  | [] => true
  | first :: _ =>
    let same := filter (fun it => Nat.eqb (i_kind it) (i_kind first)) batch in
    match i_kind first, out with
    | 0, L [I 1%Z; t1; t2; t3] =>
      padded_ok (map i_ids same) (i_pad first) t1 && lens_ok (map i_ids same) t2
      && (match t3 with L [L [I n]; L data] => Z.eqb n (Z.of_nat (length same))
                                               && zlist_eqb (map v_z data) (map (fun it => hd 0%Z (i_labels it)) same)
                   | _ => false end)
    | 1, L [I 1%Z; t1; t2; t3] | 2, L [I 1%Z; t1; t2; t3] =>
      padded_ok (map i_ids same) (i_pad first) t1 && lens_ok (map i_ids same) t2
      && padded_ok (map i_labels same) (-1)%Z t3
    | S (S (S _)), L [I 1%Z; t1; t2; t3; t4; t5] =>
      padded_ok (map i_ids same) (i_pad first) t1 && lens_ok (map i_ids same) t2
      && padded_ok (map i_tids same) (i_tpad first) t3 && lens_ok (map i_tids same) t4
      && padded_ok (map i_labels same) (-1)%Z t5
    | _, _ => false
    end
  end.

Definition check_C17 (v out : val) : bool :=
  match v_z (v_nth 0 v) with
  | 0%Z => check_mode0 v out
  | 1%Z => check_mode1 v out
  | _ => check_mode2 v out
  end.

(** ** correspondence: integers exactly, weights within relative tolerance 2^-20 of the model's rational *)
Fixpoint vals_close (m i : list val) : bool :=
  match m, i with
  | [], [] => true
  | x :: m', y :: i' => close (v_q y) (v_q x) && vals_close m' i'
  | _, _ => false
  end.

Definition sparse_agree (m i : val) : bool :=
  match m, i with
  | L [], L [] => true
  | L [L [rows; L vals; size; gl]], L [L [rows'; L vals'; size'; gl']] =>
    val_eqb rows rows' && vals_close vals vals' && val_eqb size size' && val_eqb gl gl'
  | _, _ => false
  end.

Definition agree_C17 (v m i : val) : bool :=
  match m, i with
  | L [I 1%Z; toks; sp; mask], L [I 1%Z; toks'; sp'; mask'] =>
    if Z.eqb (v_z (v_nth 0 v)) 0 then
      (val_eqb toks toks' && sparse_agree sp sp' && val_eqb mask mask')
      || (* overlapping special-token sets: the split depends on the hash order of the alternation;
            the implementation is judged by [check_C17] alone (as in C01) *)
         (negb (v_bool (v_nth 3 v)) &&
          match cfg_base (v_cfg (v_nth 1 v)) with
          | Some b => negb (prefix_freeb (b_sv b))
          | None => false
          end)
    else val_eqb m i
  | L [I 1%Z; sp; mask], L [I 1%Z; sp'; mask'] =>
    if Z.eqb (v_z (v_nth 0 v)) 1 then sparse_agree sp sp' && val_eqb mask mask'
    else val_eqb m i
  | _, _ => val_eqb m i
  end.

(** Proofs about the range tables of UCD_Model.v: the search trees are the linear lookup, lookup is
    membership in the translated lists, set algebra of the tables by computation lifted through
    soundness lemmas.  (The generic part follows UAX29_Proofs.v, section A.) *)
From TU Require Import Base UCD_Model.
From Coq Require Import Lia.
Open Scope N_scope.

(** * A. Range tables *)

Lemma rbuild_flatten {A} d : forall (l : list (N * N * A)),
  rflatten (fst (rbuild d l)) ++ snd (rbuild d l) = l.
Proof.
  induction d as [|d IH]; intros l; [reflexivity|].
  cbn [rbuild]. pose proof (IH l) as H1. destruct (rbuild d l) as [tl l1] eqn:E1.
  cbn [fst snd] in H1. destruct l1 as [|[[lo hi] a] l2].
  - cbn [fst snd]. exact H1.
  - pose proof (IH l2) as H2. destruct (rbuild d l2) as [tr l3] eqn:E2. cbn [fst snd] in *.
    cbn [rflatten]. rewrite <- H1, <- H2, <- !app_assoc. reflexivity.
Qed.

(** a hit of the tree is an entry of the tree that contains the point *)
Lemma rlookup_in {A} (t : rtree A) x a :
  rlookup t x = Some a -> exists lo hi, In (lo, hi, a) (rflatten t) /\ lo <= x /\ x <= hi.
Proof.
  induction t as [|l IHl lo hi b r IHr]; [discriminate|]. cbn [rlookup rflatten]. intros H.
  destruct (x ?= lo) eqn:E1.
  - destruct (x ?= hi) eqn:E2.
    + injection H as <-. exists lo, hi. split; [apply in_or_app; right; left; reflexivity|].
      apply N.compare_eq in E1, E2. lia.
    + injection H as <-. exists lo, hi. split; [apply in_or_app; right; left; reflexivity|].
      apply N.compare_eq in E1. rewrite N.compare_lt_iff in E2. lia.
    + destruct (IHr H) as (lo' & hi' & Hin & Hb). exists lo', hi'.
      split; [apply in_or_app; right; right; exact Hin|exact Hb].
  - destruct (IHl H) as (lo' & hi' & Hin & Hb). exists lo', hi'.
    split; [apply in_or_app; left; exact Hin|exact Hb].
  - destruct (x ?= hi) eqn:E2.
    + injection H as <-. exists lo, hi. split; [apply in_or_app; right; left; reflexivity|].
      apply N.compare_eq in E2. rewrite N.compare_gt_iff in E1. lia.
    + injection H as <-. exists lo, hi. split; [apply in_or_app; right; left; reflexivity|].
      rewrite N.compare_lt_iff in E2. rewrite N.compare_gt_iff in E1. lia.
    + destruct (IHr H) as (lo' & hi' & Hin & Hb). exists lo', hi'.
      split; [apply in_or_app; right; right; exact Hin|exact Hb].
Qed.

Lemma llookup_app {A} (l1 l2 : list (N * N * A)) x :
  llookup (l1 ++ l2) x = match llookup l1 x with Some a => Some a | None => llookup l2 x end.
Proof.
  induction l1 as [|[[lo hi] a] l1 IH]; [reflexivity|]. cbn [app llookup].
  destruct ((lo <=? x) && (x <=? hi)); [reflexivity|exact IH].
Qed.

Lemma sorted_below {A} (l : list (N * N * A)) : forall lb x,
  ranges_sorted lb l = true -> x < lb -> llookup l x = None.
Proof.
  induction l as [|[[lo hi] a] l IH]; intros lb x Hs Hx; [reflexivity|].
  cbn [ranges_sorted] in Hs. apply andb_true_iff in Hs as [Hs Hr]. apply andb_true_iff in Hs as [H1 H2].
  apply N.leb_le in H1, H2. cbn [llookup].
  destruct (lo <=? x) eqn:E; [apply N.leb_le in E; lia|]. cbn [andb].
  apply (IH (hi + 1)); [exact Hr|lia].
Qed.

Lemma sorted_app {A} (l1 : list (N * N * A)) : forall lb lo hi a l2,
  ranges_sorted lb (l1 ++ (lo, hi, a) :: l2) = true ->
  ranges_sorted lb l1 = true /\ lb <= lo /\ lo <= hi /\ ranges_sorted (hi + 1) l2 = true
  /\ (forall x, lo <= x -> llookup l1 x = None).
Proof.
  induction l1 as [|[[lo1 hi1] a1] l1 IH]; intros lb lo hi a l2 Hs.
  - cbn [app ranges_sorted] in Hs. apply andb_true_iff in Hs as [Hs Hr].
    apply andb_true_iff in Hs as [H1 H2]. apply N.leb_le in H1, H2.
    repeat split; try assumption; reflexivity.
  - cbn [app ranges_sorted] in Hs. apply andb_true_iff in Hs as [Hs Hr].
    apply andb_true_iff in Hs as [H1 H2]. apply N.leb_le in H1, H2.
    destruct (IH _ _ _ _ _ Hr) as (Ha & Hb & Hc & Hd & He).
    repeat split; try assumption; try lia.
    + cbn [ranges_sorted]. rewrite Ha. apply N.leb_le in H1, H2. rewrite H1, H2. reflexivity.
    + intros x Hx. cbn [llookup]. destruct (x <=? hi1) eqn:E; [apply N.leb_le in E; lia|].
      rewrite andb_false_r. apply He. exact Hx.
Qed.

(** on sorted ranges the search tree is the linear lookup *)
Lemma rlookup_llookup {A} (t : rtree A) : forall lb x,
  ranges_sorted lb (rflatten t) = true -> rlookup t x = llookup (rflatten t) x.
Proof.
  induction t as [|l IHl lo hi b r IHr]; intros lb x Hs; [reflexivity|].
  cbn [rflatten] in Hs. destruct (sorted_app _ _ _ _ _ _ Hs) as (Ha & Hb & Hc & Hd & He).
  cbn [rlookup rflatten]. rewrite llookup_app. cbn [llookup].
  destruct (x ?= lo) eqn:E1.
  - apply N.compare_eq in E1. subst x. rewrite (He lo) by lia.
    rewrite N.leb_refl. cbn [andb]. destruct (lo ?= hi) eqn:E2.
    + apply N.compare_eq in E2. subst hi. rewrite N.leb_refl. reflexivity.
    + rewrite N.compare_lt_iff in E2. destruct (lo <=? hi) eqn:E; [reflexivity|apply N.leb_gt in E; lia].
    + rewrite N.compare_gt_iff in E2. lia.
  - rewrite N.compare_lt_iff in E1. rewrite (IHl lb x Ha).
    destruct (llookup (rflatten l) x); [reflexivity|].
    destruct (lo <=? x) eqn:E; [apply N.leb_le in E; lia|]. cbn [andb].
    symmetry. apply (sorted_below _ (hi + 1)); [exact Hd|lia].
  - rewrite N.compare_gt_iff in E1. rewrite (He x) by lia.
    destruct (lo <=? x) eqn:E; [|apply N.leb_gt in E; lia]. cbn [andb].
    destruct (x ?= hi) eqn:E2.
    + apply N.compare_eq in E2. subst x. rewrite N.leb_refl. reflexivity.
    + rewrite N.compare_lt_iff in E2. destruct (x <=? hi) eqn:E3; [reflexivity|apply N.leb_gt in E3; lia].
    + rewrite N.compare_gt_iff in E2. destruct (x <=? hi) eqn:E3; [apply N.leb_le in E3; lia|].
      apply (IHr (hi + 1)). exact Hd.
Qed.

Lemma rtree_of_flatten {A} (l : list (N * N * A)) :
  snd (rbuild (rdepth l) l) = [] -> rflatten (rtree_of l) = l.
Proof.
  intros H. unfold rtree_of. pose proof (rbuild_flatten (rdepth l) l) as F.
  rewrite H, app_nil_r in F. exact F.
Qed.

Lemma rtree_of_spec {A} (l : list (N * N * A)) x :
  snd (rbuild (rdepth l) l) = [] -> ranges_sorted 0 l = true ->
  rlookup (rtree_of l) x = llookup l x.
Proof.
  intros H Hs. pose proof (rtree_of_flatten l H) as F.
  rewrite (rlookup_llookup (rtree_of l) 0 x); rewrite F; [reflexivity|exact Hs].
Qed.

Lemma llookup_in {A} (l : list (N * N * A)) x a :
  llookup l x = Some a -> exists lo hi, In (lo, hi, a) l /\ lo <= x /\ x <= hi.
Proof.
  induction l as [|[[lo hi] b] l IH]; [discriminate|]. cbn [llookup].
  destruct ((lo <=? x) && (x <=? hi)) eqn:E.
  - intros H. injection H as <-. apply andb_true_iff in E as [E1 E2]. apply N.leb_le in E1, E2.
    exists lo, hi. split; [left; reflexivity|lia].
  - intros H. destruct (IH H) as (lo' & hi' & Hin & Hb). exists lo', hi'. split; [right; exact Hin|exact Hb].
Qed.

(** ** sets *)
Lemma llookup_unit (l : rset) x :
  (match llookup (unit_ranges l) x with Some _ => true | None => false end) = in_ranges l x.
Proof.
  induction l as [|[lo hi] l IH]; [reflexivity|]. cbn [unit_ranges map llookup in_ranges existsb fst snd].
  destruct ((lo <=? x) && (x <=? hi)); [reflexivity|exact IH].
Qed.

Definition table_ok (l : rset) : bool :=
  ranges_sorted 0 (unit_ranges l)
  && match snd (rbuild (rdepth (unit_ranges l)) (unit_ranges l)) with [] => true | _ => false end.

Lemma set_tree_spec (l : rset) x : table_ok l = true -> rmem (set_tree l) x = in_ranges l x.
Proof.
  intros H. apply andb_true_iff in H as [Hs Hb]. unfold rmem, set_tree.
  rewrite rtree_of_spec; [apply llookup_unit| |exact Hs].
  destruct (snd (rbuild (rdepth (unit_ranges l)) (unit_ranges l))); [reflexivity|discriminate].
Qed.

Lemma in_ranges_iff (l : rset) x :
  in_ranges l x = true <-> exists lo hi, In (lo, hi) l /\ lo <= x /\ x <= hi.
Proof.
  unfold in_ranges. rewrite existsb_exists. split.
  - intros ([lo hi] & Hin & H). cbn [fst snd] in H. apply andb_true_iff in H as [H1 H2].
    apply N.leb_le in H1, H2. exists lo, hi. auto.
  - intros (lo & hi & Hin & H1 & H2). exists (lo, hi). split; [exact Hin|]. cbn [fst snd].
    apply andb_true_iff. split; apply N.leb_le; assumption.
Qed.

(** sorted tables: a member is at least the first bound *)
Lemma sorted_in_ge (l : rset) : forall lb x, ranges_sorted lb (unit_ranges l) = true -> in_ranges l x = true -> lb <= x.
Proof.
  induction l as [|[lo hi] l IH]; intros lb x Hs Hx; [discriminate|].
  cbn [unit_ranges map ranges_sorted fst snd] in Hs. apply andb_true_iff in Hs as [Hs Hr].
  apply andb_true_iff in Hs as [H1 H2]. apply N.leb_le in H1, H2.
  cbn [in_ranges existsb fst snd] in Hx. apply orb_true_iff in Hx as [Hx|Hx].
  - apply andb_true_iff in Hx as [H3 H4]. apply N.leb_le in H3. lia.
  - specialize (IH (hi + 1) x Hr Hx). lia.
Qed.

(** ** the tables *)
Lemma alphabetic_t_spec x : rmem alphabetic_t x = in_ranges std_alphabetic x.
Proof. apply set_tree_spec. vm_compute. reflexivity. Qed.
Lemma case_ignorable_t_spec x : rmem case_ignorable_t x = in_ranges std_case_ignorable x.
Proof. apply set_tree_spec. vm_compute. reflexivity. Qed.
Lemma lowercase_t_spec x : rmem lowercase_t x = in_ranges std_lowercase x.
Proof. apply set_tree_spec. vm_compute. reflexivity. Qed.
Lemma uppercase_t_spec x : rmem uppercase_t x = in_ranges std_uppercase x.
Proof. apply set_tree_spec. vm_compute. reflexivity. Qed.
Lemma lt_t_spec x : rmem lt_t x = in_ranges std_lt x.
Proof. apply set_tree_spec. vm_compute. reflexivity. Qed.
Lemma re_alphabetic_t_spec x : rmem re_alphabetic_t x = in_ranges re_alphabetic x.
Proof. apply set_tree_spec. vm_compute. reflexivity. Qed.
Lemma re_mark_t_spec x : rmem re_mark_t x = in_ranges re_mark x.
Proof. apply set_tree_spec. vm_compute. reflexivity. Qed.
Lemma re_nd_t_spec x : rmem re_nd_t x = in_ranges re_decimal_number x.
Proof. apply set_tree_spec. vm_compute. reflexivity. Qed.
Lemma re_pc_t_spec x : rmem re_pc_t x = in_ranges re_connector_punctuation x.
Proof. apply set_tree_spec. vm_compute. reflexivity. Qed.
Lemma re_jc_t_spec x : rmem re_jc_t x = in_ranges re_join_control x.
Proof. apply set_tree_spec. vm_compute. reflexivity. Qed.
Lemma re_punct_t_spec x : rmem re_punct_t x = in_ranges re_punctuation x.
Proof. apply set_tree_spec. vm_compute. reflexivity. Qed.
Lemma re_word_t_spec x : rmem re_word_t x = in_ranges re_perl_word x.
Proof. apply set_tree_spec. vm_compute. reflexivity. Qed.

(** the lower-case LUT as a range list with payload *)
Definition lower_singles_list : list (N * N * (N * bool * N)) :=
  map (fun e : N * N * bool * N => match e with (lo, hi, par, d) => (lo, hi, (lo, par, d)) end) std_lower_singles.
Lemma lower_singles_t_spec x : rlookup lower_singles_t x = llookup lower_singles_list x.
Proof. apply rtree_of_spec; vm_compute; reflexivity. Qed.

(** * B. Set algebra by computation *)
(** the upper end of a range of [t] that contains [x] *)
Definition find_hi (t : rset) (x : N) : option N :=
  option_map snd (find (fun p => (fst p <=? x) && (x <=? snd p)) t).
Fixpoint first_hi (ts : list rset) (x : N) : option N :=
  match ts with
  | [] => None
  | t :: r => match find_hi t x with Some h => Some h | None => first_hi r x end
  end.
(** every point of [lo..hi] lies in one of the tables [ts] *)
Fixpoint covered_any (ts : list rset) (fuel : nat) (lo hi : N) : bool :=
  match fuel with
  | O => false
  | S f => match first_hi ts lo with
           | None => false
           | Some h => if hi <=? h then true else covered_any ts f (h + 1) hi
           end
  end.
Definition in_any (ts : list rset) (x : N) : bool := existsb (fun t => in_ranges t x) ts.

Lemma find_hi_sound t x h : find_hi t x = Some h -> forall y, x <= y -> y <= h -> in_ranges t y = true.
Proof.
  unfold find_hi. destruct (find _ t) as [[a b]|] eqn:E; [|discriminate]. cbn [option_map snd].
  intros H. injection H as <-. apply find_some in E as [Hin Hb]. cbn [fst snd] in Hb.
  apply andb_true_iff in Hb as [H1 H2]. apply N.leb_le in H1, H2. intros y Hy1 Hy2.
  apply in_ranges_iff. exists a, b. split; [exact Hin|lia].
Qed.
Lemma first_hi_sound ts : forall x h, first_hi ts x = Some h -> forall y, x <= y -> y <= h -> in_any ts y = true.
Proof.
  induction ts as [|t ts IH]; intros x h H y Hy1 Hy2; [discriminate|]. cbn [first_hi] in H.
  change (in_any (t :: ts) y) with (in_ranges t y || in_any ts y). destruct (find_hi t x) as [h'|] eqn:E.
  - injection H as <-. rewrite (find_hi_sound t x h' E y Hy1 Hy2). reflexivity.
  - rewrite (IH x h H y Hy1 Hy2). apply orb_true_r.
Qed.
Lemma covered_any_sound ts fuel : forall lo hi x,
  covered_any ts fuel lo hi = true -> lo <= x -> x <= hi -> in_any ts x = true.
Proof.
  induction fuel as [|f IH]; intros lo hi x Hc H1 H2; [discriminate|]. cbn [covered_any] in Hc.
  destruct (first_hi ts lo) as [h|] eqn:E; [|discriminate].
  destruct (x <=? h) eqn:Ex.
  - apply N.leb_le in Ex. exact (first_hi_sound ts lo h E x H1 Ex).
  - apply N.leb_gt in Ex. destruct (hi <=? h) eqn:Eh; [apply N.leb_le in Eh; lia|].
    apply (IH (h + 1) hi x Hc); lia.
Qed.

Definition subset_any (a : rset) (ts : list rset) (fuel : nat) : bool :=
  forallb (fun r => covered_any ts fuel (fst r) (snd r)) a.
Lemma subset_any_sound a ts fuel x : subset_any a ts fuel = true -> in_ranges a x = true -> in_any ts x = true.
Proof.
  intros Hs Hx. apply in_ranges_iff in Hx as (lo & hi & Hin & H1 & H2).
  unfold subset_any in Hs. rewrite forallb_forall in Hs. specialize (Hs (lo, hi) Hin). cbn [fst snd] in Hs.
  exact (covered_any_sound ts fuel lo hi x Hs H1 H2).
Qed.

Definition disjoint (a b : rset) : bool :=
  forallb (fun r => forallb (fun s => (snd r <? fst s) || (snd s <? fst r)) b) a.
Lemma disjoint_sound a b x : disjoint a b = true -> in_ranges a x = true -> in_ranges b x = false.
Proof.
  intros Hd Ha. destruct (in_ranges b x) eqn:Hb; [|reflexivity]. exfalso.
  apply in_ranges_iff in Ha as (lo & hi & Hin & H1 & H2). apply in_ranges_iff in Hb as (lo' & hi' & Hin' & H3 & H4).
  unfold disjoint in Hd. rewrite forallb_forall in Hd. specialize (Hd _ Hin). rewrite forallb_forall in Hd.
  specialize (Hd _ Hin'). cbn [fst snd] in Hd. apply orb_true_iff in Hd as [Hd|Hd]; apply N.ltb_lt in Hd; lia.
Qed.

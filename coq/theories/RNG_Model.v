(** RNG model: the pseudo-random generator and the sampling algorithms text-utils uses,
    computed from the seed inside the model.  Definitions only.

    Crates (versions locked in /repo/Cargo.lock):
      rand_chacha 0.9.0  guts.rs [refill_wide_impl] / [round] / [diagonalize], chacha.rs [ChaCha8Rng] (4 double rounds)
      rand_core   0.9.5  lib.rs [SeedableRng::seed_from_u64] (PCG32 expansion), block.rs [BlockRng] ([next_u32], [next_u64])
      rand        0.9.5  rng.rs [random], [random_range]; distr/float.rs (StandardUniform for f64);
                         distr/uniform_int.rs ([UniformInt::sample_single_inclusive] "Canon's method, biased",
                         [UniformUsize::sample_single], [UniformUsize::new_inclusive] + [sample] "Lemire's method");
                         distr/uniform_float.rs ([UniformFloat<f64>::new], [new_bounded], [sample]);
                         seq/slice.rs [shuffle] / [partial_shuffle]; seq/increasing_uniform.rs;
                         distr/weighted/weighted_index.rs [WeightedIndex::new], [sample]
    target: 64-bit (usize = u64), little endian; rand's feature [unbiased] is off (default).

    Words are [N]; every 32-/64-bit operation truncates explicitly ([w32] / [w64] = [N.land] with the
    mask, proved equal to [mod 2^32] / [mod 2^64] in RNG_Proofs).  The generator state is a value;
    every sampler returns (result, new state). *)
From TU Require Import Base.
Local Open Scope N_scope.

Definition p32 : N := 4294967296.
Definition p64 : N := 18446744073709551616.
Definition mask32 : N := 4294967295.
Definition mask64 : N := 18446744073709551615.

(** [x as u32], [x as u64] *)
Definition w32 (x : N) : N := N.land x mask32.
Definition w64 (x : N) : N := N.land x mask64.
Definition add32 (a b : N) : N := w32 (a + b).
(** [u32::rotate_right] for a word below 2^32, 0 < k < 32 *)
Definition rotr32 (x k : N) : N := N.lor (N.shiftr x k) (w32 (N.shiftl x (32 - k))).

(** * ChaCha, guts.rs *)

(** [round] on one column (a, b, c, d):
      a += b; d = (d ^ a).rotate_right(16); c += d; b = (b ^ c).rotate_right(20);
      a += b; d = (d ^ a).rotate_right(24); c += d; b = (b ^ c).rotate_right(25) *)
Definition quarter_round (a b c d : N) : N * N * N * N :=
  let a := add32 a b in let d := rotr32 (N.lxor d a) 16 in
  let c := add32 c d in let b := rotr32 (N.lxor b c) 20 in
  let a := add32 a b in let d := rotr32 (N.lxor d a) 24 in
  let c := add32 c d in let b := rotr32 (N.lxor b c) 25 in
  (a, b, c, d).

(** the 4x4 word matrix, row-major: row a = x0..x3 (constants), b = x4..x7, c = x8..x11 (key),
    d = x12..x15 (block counter low, high, stream id low, high) *)
Record st16 := S16 { x0 : N; x1 : N; x2 : N; x3 : N; x4 : N; x5 : N; x6 : N; x7 : N;
                     x8 : N; x9 : N; x10 : N; x11 : N; x12 : N; x13 : N; x14 : N; x15 : N }.

(** [x = round(x); x = undiagonalize(round(diagonalize(x)))]: the four columns, then the four diagonals *)
Definition double_round (s : st16) : st16 :=
  match s with
  | S16 x0 x1 x2 x3 x4 x5 x6 x7 x8 x9 x10 x11 x12 x13 x14 x15 =>
    let '(x0, x4, x8, x12) := quarter_round x0 x4 x8 x12 in
    let '(x1, x5, x9, x13) := quarter_round x1 x5 x9 x13 in
    let '(x2, x6, x10, x14) := quarter_round x2 x6 x10 x14 in
    let '(x3, x7, x11, x15) := quarter_round x3 x7 x11 x15 in
    let '(x0, x5, x10, x15) := quarter_round x0 x5 x10 x15 in
    let '(x1, x6, x11, x12) := quarter_round x1 x6 x11 x12 in
    let '(x2, x7, x8, x13) := quarter_round x2 x7 x8 x13 in
    let '(x3, x4, x9, x14) := quarter_round x3 x4 x9 x14 in
    S16 x0 x1 x2 x3 x4 x5 x6 x7 x8 x9 x10 x11 x12 x13 x14 x15
  end.

Fixpoint iter_rounds (n : nat) (s : st16) : st16 :=
  match n with O => s | S n' => iter_rounds n' (double_round s) end.

(** ChaCha8Rng: [chacha_impl!(ChaCha8Core, ChaCha8Rng, 4, ..)] — 4 double rounds *)
Definition drounds : nat := 4.

(** the key: 8 words ([read_le] of the 32 seed bytes) *)
Record key8 := K8 { k0 : N; k1 : N; k2 : N; k3 : N; k4 : N; k5 : N; k6 : N; k7 : N }.

(** block number [c] (64 bits, little endian in words 12, 13), stream id 0 (words 14, 15):
    [from_seed] = [ChaCha::new(&seed, &[0u8; 8])] *)
Definition init_state (k : key8) (c : N) : st16 :=
  S16 1634760805 857760878 2036477234 1797285236
      (k0 k) (k1 k) (k2 k) (k3 k) (k4 k) (k5 k) (k6 k) (k7 k)
      (w32 c) (N.shiftr c 32) 0 0.

(** one output block: rounds, then the input matrix is added word by word; words in matrix order
    ([transpose4] + [to_scalars] lay the four blocks of a refill out one after another) *)
Definition chacha_block (k : key8) (c : N) : list N :=
  let i := init_state k c in
  match i, iter_rounds drounds i with
  | S16 i0 i1 i2 i3 i4 i5 i6 i7 i8 i9 i10 i11 i12 i13 i14 i15,
    S16 y0 y1 y2 y3 y4 y5 y6 y7 y8 y9 y10 y11 y12 y13 y14 y15 =>
    [add32 y0 i0; add32 y1 i1; add32 y2 i2; add32 y3 i3; add32 y4 i4; add32 y5 i5; add32 y6 i6; add32 y7 i7;
     add32 y8 i8; add32 y9 i9; add32 y10 i10; add32 y11 i11; add32 y12 i12; add32 y13 i13; add32 y14 i14; add32 y15 i15]
  end.

(** [refill4]: blocks c, c+1, c+2, c+3 (the counter is a u64 lane: it wraps at 2^64 and never
    carries into the stream id), then [state.d = add_pos(.., 4)] *)
Definition refill_words (k : key8) (c : N) : list N :=
  chacha_block k c ++ chacha_block k (w64 (c + 1)) ++ chacha_block k (w64 (c + 2)) ++ chacha_block k (w64 (c + 3)).

(** * BlockRng, block.rs: 64 buffered words and an index; index 64 = buffer used up *)
Record rng := Rng { r_key : key8; r_ctr : N; r_buf : list N; r_idx : nat }.

Definition buf_len : nat := 64.

(** [generate_and_set(i)] *)
Definition generate_and_set (i : nat) (st : rng) : rng :=
  Rng (r_key st) (w64 (r_ctr st + 4)) (refill_words (r_key st) (r_ctr st)) i.

Definition next_u32 (st : rng) : N * rng :=
  let st := if Nat.leb buf_len (r_idx st) then generate_and_set 0 st else st in
  (nth (r_idx st) (r_buf st) 0, Rng (r_key st) (r_ctr st) (r_buf st) (S (r_idx st))).

(** [(u64::from(data[1]) << 32) | u64::from(data[0])] *)
Definition read_u64 (buf : list N) (i : nat) : N :=
  N.lor (N.shiftl (nth (S i) buf 0) 32) (nth i buf 0).

(** the three cases of [next_u64]: two words in the buffer; buffer used up; one word left
    (the value straddles the refill: low half = last word of the old buffer) *)
Definition next_u64 (st : rng) : N * rng :=
  let i := r_idx st in
  if Nat.ltb i (buf_len - 1) then
    (read_u64 (r_buf st) i, Rng (r_key st) (r_ctr st) (r_buf st) (i + 2))
  else if Nat.leb buf_len i then
    let st := generate_and_set 2 st in (read_u64 (r_buf st) 0, st)
  else
    let x := nth (buf_len - 1) (r_buf st) 0 in
    let st := generate_and_set 1 st in
    let y := nth 0 (r_buf st) 0 in
    (N.lor (N.shiftl y 32) x, st).

(** * seed_from_u64, rand_core lib.rs *)
Definition pcg_mul : N := 6364136223846793005.
Definition pcg_inc : N := 11634580027462260723.

(** one PCG32 step: new state, output word (its little-endian bytes are read back as one key word) *)
Definition pcg32 (s : N) : N * N :=
  let s := w64 (s * pcg_mul + pcg_inc) in
  let xorshifted := w32 (N.shiftr (N.lxor (N.shiftr s 18) s) 27) in
  let rot := N.shiftr s 59 in
  (s, if rot =? 0 then xorshifted else rotr32 xorshifted rot).

Definition seed_key (seed : N) : key8 :=
  let '(s, a0) := pcg32 seed in let '(s, a1) := pcg32 s in let '(s, a2) := pcg32 s in
  let '(s, a3) := pcg32 s in let '(s, a4) := pcg32 s in let '(s, a5) := pcg32 s in
  let '(s, a6) := pcg32 s in let '(_, a7) := pcg32 s in
  K8 a0 a1 a2 a3 a4 a5 a6 a7.

(** [ChaCha8Rng::seed_from_u64(seed)]: block counter 0, empty buffer *)
Definition seed_from_u64 (seed : N) : rng := Rng (seed_key seed) 0 [] buf_len.

(** [set_word_pos(16 * block + off)], off < 16; [get_word_pos] as (block, offset) *)
Definition set_word_pos (block : N) (off : nat) (st : rng) : rng :=
  generate_and_set off (Rng (r_key st) (w64 block) (r_buf st) (r_idx st)).
Definition get_word_pos (st : rng) : N * nat :=
  (w64 (w64 (r_ctr st + p64 - 4) + N.of_nat (r_idx st / 16)), Nat.modulo (r_idx st) 16).

(** * random::<f64>(): the numerator k of k / 2^53 *)
Definition random_f64 (st : rng) : N * rng :=
  let (x, st) := next_u64 st in (N.shiftr x 11, st).

(** * random_range(0..n), usize *)

(** [UniformInt::<uN>::sample_single_inclusive(0, n-1)], Canon's method (biased variant: at most
    one extra draw, no loop).  [draw] / [bits] = [next_u32] / 32 or [next_u64] / 64; 0 < n < 2^bits.
      let (mut result, lo_order) = rng.random::<uN>().wmul(range);
      if lo_order > range.wrapping_neg() {
          let (new_hi_order, _) = rng.random::<uN>().wmul(range);
          result += lo_order.checked_add(new_hi_order).is_none() as uN; } *)
Definition canon (draw : rng -> N * rng) (bits : N) (n : N) (st : rng) : N * rng :=
  let pw := N.shiftl 1 bits in
  let (x, st1) := draw st in
  let p := x * n in
  let hi := N.shiftr p bits in
  let lo := N.land p (pw - 1) in
  if (pw - n) <? lo then
    let (y, st2) := draw st1 in
    let new_hi := N.shiftr (y * n) bits in
    (if pw <=? lo + new_hi then hi + 1 else hi, st2)
  else (hi, st1).

(** [rng.random_range(0..n)] for usize: [assert!(!range.is_empty())]; [UniformUsize::sample_single(0, n)]
    draws 64 bits iff [n > u32::MAX].  [None] = the panic on an empty range (and n not a usize). *)
Definition random_range (n : N) (st : rng) : option (N * rng) :=
  if (n =? 0) || (p64 <=? n) then None
  else if mask32 <? n then Some (canon next_u64 64 n st)
  else Some (canon next_u32 32 n st).

(** [rng.random_range(..bound)] for u32 ([IncreasingUniform]), 0 < bound < 2^32 *)
Definition random_below_u32 (bound : N) (st : rng) : N * rng := canon next_u32 32 bound st.

(** * Uniform::<usize>::new(0, total) + sample (Lemire's method with rejection)

    [new_inclusive(0, total - 1)]: [mode64 = total - 1 > u32::MAX]; 32-bit mode: [range = total as u32]
    (0 for total = 2^32: every u32 is taken as it is), [thresh = range.wrapping_neg() % range].
    The rejection loop runs on explicit fuel; [None] = fuel exhausted (depends on the stream). *)
Fixpoint lemire (fuel : nat) (draw : rng -> N * rng) (bits range thresh : N) (st : rng) : option (N * rng) :=
  match fuel with
  | O => None
  | S f =>
    let (x, st1) := draw st in
    let p := x * range in
    if thresh <=? N.land p (N.shiftl 1 bits - 1) then Some (N.shiftr p bits, st1)
    else lemire f draw bits range thresh st1
  end.

Definition uniform_usize (fuel : nat) (total : N) (st : rng) : option (N * rng) :=
  if mask32 <? total - 1 then
    lemire fuel next_u64 64 total ((p64 - total) mod total) st
  else
    let range := w32 total in
    if range =? 0 then Some (next_u32 st)
    else lemire fuel next_u32 32 range ((p32 - range) mod range) st.

(** * shuffle, seq/slice.rs + seq/increasing_uniform.rs *)

(** [calculate_bound_u32(m)]: the longest product m (m+1) .. (m+count-1) that fits a u32.
    [inner]'s loop on fuel; 32 steps always suffice (RNG_Proofs.calc_bound_some). *)
Fixpoint calc_bound_f (fuel : nat) (m product current : N) : option (N * N) :=
  match fuel with
  | O => None
  | S f => if product * current <? p32 then calc_bound_f f m (product * current) (current + 1)
           else Some (product, current - m)
  end.
Definition calc_bound (m : N) : N * N :=
  match calc_bound_f 33 m m (m + 1) with Some r => r | None => (m, 1) end.

(** [IncreasingUniform]: n, chunk, chunk_remaining *)
Record incu := IU { iu_n : N; iu_chunk : N; iu_rem : N }.
Definition incu_new (n : N) : incu := IU n 0 (if n =? 0 then 1 else 0).

(** [next_index]: a number in [0, n], then n grows by one *)
Definition next_index (c : incu) (st : rng) : N * incu * rng :=
  let next_n := iu_n c + 1 in
  let '(chunk, ncr, st) :=
    if iu_rem c =? 0 then
      let (bound, remaining) := calc_bound next_n in
      let (ch, st) := random_below_u32 bound st in (ch, remaining - 1, st)
    else (iu_chunk c, iu_rem c - 1, st) in
  if ncr =? 0 then (chunk, IU next_n chunk ncr, st)
  else (chunk mod next_n, IU next_n (chunk / next_n) ncr, st).

(** the indices [chooser.next_index()] returns for i = first, first+1, .. (k of them) *)
Fixpoint shuffle_idx_fast (k : nat) (c : incu) (st : rng) : list N * rng :=
  match k with
  | O => ([], st)
  | S k' => let '(j, c, st) := next_index c st in
            let (js, st) := shuffle_idx_fast k' c st in (j :: js, st)
  end.

(** slices of u32::MAX or more elements: [rng.random_range(..i + 1)] per position *)
Fixpoint shuffle_idx_slow (k : nat) (i : N) (st : rng) : list N * rng :=
  match k with
  | O => ([], st)
  | S k' => match random_range (i + 1) st with
            | Some (j, st) => let (js, st) := shuffle_idx_slow k' (i + 1) st in (j :: js, st)
            | None => ([], st)
            end
  end.

(** [partial_shuffle(rng, amount)] on a slice of [len] elements: m = len.saturating_sub(amount);
    [IncreasingUniform::new(rng, m as u32)] when [len < u32::MAX], else [random_range(..i + 1)];
    the indices drawn for i = m .. len - 1 *)
Definition partial_indices (len : N) (amount : nat) (st : rng) : list N * rng :=
  let eff := if N.of_nat amount <? len then amount else N.to_nat len in
  let m := len - N.of_nat eff in
  if len <? mask32 then shuffle_idx_fast eff (incu_new m) st
  else shuffle_idx_slow eff m st.

(** [shuffle] of a slice of [len] elements: nothing is drawn for len <= 1; otherwise
    [partial_shuffle(rng, len)], m = 0: for i in 0..len { swap(i, index_i) } *)
Definition shuffle_indices (len : nat) (st : rng) : list N * rng :=
  if Nat.leb len 1 then ([], st) else partial_indices (N.of_nat len) len st.

Fixpoint upd {A} (i : nat) (x : A) (l : list A) : list A :=
  match l, i with
  | [], _ => []
  | _ :: l', O => x :: l'
  | y :: l', S i' => y :: upd i' x l'
  end.

(** [slice.swap(i, j)]; out of bounds (a panic in the code) leaves the list alone —
    RNG_Proofs.shuffle_indices_le shows every index is in bounds *)
Definition swap {A} (i j : nat) (l : list A) : list A :=
  match nth_error l i, nth_error l j with
  | Some a, Some b => upd i b (upd j a l)
  | _, _ => l
  end.

Fixpoint apply_swaps {A} (i : nat) (js : list N) (l : list A) : list A :=
  match js with
  | [] => l
  | j :: js' => apply_swaps (S i) js' (swap i (N.to_nat j) l)
  end.

Definition shuffle {A} (l : list A) (st : rng) : list A * rng :=
  let (js, st) := shuffle_indices (length l) st in (apply_swaps 0 js l, st).

(** * WeightedIndex *)
Inductive werr := WInvalidInput | WInvalidWeight | WInsufficientNonZero | WOverflow | WPanic | WFuel.

(** [partition_point(|w| w <= chosen)] on the (non-decreasing) cumulative weights *)
Fixpoint ppoint {W} (le : W -> W -> bool) (cum : list W) (x : W) : nat :=
  match cum with
  | [] => 0
  | w :: r => if le w x then S (ppoint le r x) else 0
  end.

(** ** WeightedIndex<usize> (the loader's line counts).
    [new]: total = first weight; for every further weight: push total, [checked_add] (Overflow at 2^64);
    total = 0 is InsufficientNonZero.  Result: cumulative weights (all but the last), total. *)
Fixpoint wcum_n (ws : list N) (total : N) (acc : list N) : werr + (list N * N) :=
  match ws with
  | [] => if total =? 0 then inl WInsufficientNonZero else inr (rev acc, total)
  | w :: r => if p64 <=? total + w then inl WOverflow else wcum_n r (total + w) (total :: acc)
  end.
Definition windex_new_n (ws : list N) : werr + (list N * N) :=
  match ws with [] => inl WInvalidInput | w0 :: r => wcum_n r w0 [] end.

(** [WeightedIndex::new(weights)] + [rng.sample(dist)].  [inl]: [new] failed (the loader [expect]s);
    [inr None]: rejection fuel exhausted. *)
Definition weighted_sample_n (fuel : nat) (ws : list N) (st : rng) : werr + option (nat * rng) :=
  match windex_new_n ws with
  | inl e => inl e
  | inr (cum, total) =>
    inr (match uniform_usize fuel total st with
         | Some (x, st) => Some (ppoint N.leb cum x, st)
         | None => None
         end)
  end.

(** ** binary64, non-negative finite values only: m * 2^e, kept canonical
    (2^52 <= m < 2^53 and -1074 <= e <= 971, or m < 2^52 and e = -1074).
    Exact dyadic arithmetic followed by one rounding to nearest, ties to even. *)
Inductive f64w := Fin (m : N) (e : Z) | FInf | FNaN | FNeg.

Definition emin : Z := (-1074)%Z.

(** round m * 2^e (any m, e) to binary64 *)
Definition fround (m : N) (e : Z) : f64w :=
  if m =? 0 then Fin 0 emin else
  let e' := Z.max (e + Z.of_N (N.size m) - 53) emin in
  if (e' <=? e)%Z then
    if (971 <? e')%Z then FInf else Fin (N.shiftl m (Z.to_N (e - e'))) e'
  else
    let sh := Z.to_N (e' - e) in
    let q := N.shiftr m sh in
    let r := N.land m (N.shiftl 1 sh - 1) in
    let half := N.shiftl 1 (sh - 1) in
    let q := if (half <? r) || ((half =? r) && N.odd q) then q + 1 else q in
    let '(q, e') := if q =? 9007199254740992 then (4503599627370496, (e' + 1)%Z) else (q, e') in
    if (971 <? e')%Z then FInf else Fin q e'.

Definition falign (m1 : N) (e1 : Z) (m2 : N) (e2 : Z) : N * N * Z :=
  let e := Z.min e1 e2 in (N.shiftl m1 (Z.to_N (e1 - e)), N.shiftl m2 (Z.to_N (e2 - e)), e).

Definition fadd (a b : f64w) : f64w :=
  match a, b with
  | Fin m1 e1, Fin m2 e2 => let '(a1, a2, e) := falign m1 e1 m2 e2 in fround (a1 + a2) e
  | FNaN, _ | _, FNaN | FNeg, _ | _, FNeg => FNaN
  | _, _ => FInf
  end.
Definition fmul (a b : f64w) : f64w :=
  match a, b with
  | Fin m1 e1, Fin m2 e2 => fround (m1 * m2) (e1 + e2)
  | _, _ => FNaN
  end.
(** [a <= b], [a > b], [a == 0.0], [a >= 0.0] (false with a NaN operand; [FNeg] is only ever tested against zero) *)
Definition fle (a b : f64w) : bool :=
  match a, b with
  | Fin m1 e1, Fin m2 e2 => let '(a1, a2, _) := falign m1 e1 m2 e2 in a1 <=? a2
  | Fin _ _, FInf | FInf, FInf => true
  | _, _ => false
  end.
Definition fgt (a b : f64w) : bool :=
  match a, b with
  | Fin m1 e1, Fin m2 e2 => let '(a1, a2, _) := falign m1 e1 m2 e2 in a2 <? a1
  | FInf, Fin _ _ => true
  | _, _ => false
  end.
Definition fis_zero (a : f64w) : bool := match a with Fin m _ => m =? 0 | _ => false end.
Definition fge0 (a : f64w) : bool := match a with Fin _ _ | FInf => true | _ => false end.

(** [f64::from_bits(x.to_bits() - 1)] for a positive finite x *)
Definition fpred (a : f64w) : f64w :=
  match a with
  | Fin m e => if (m =? 4503599627370496) && (emin <? e)%Z then Fin 9007199254740991 (e - 1) else Fin (m - 1) e
  | x => x
  end.

(** [1.0 - f64::EPSILON] = (2^53 - 2) * 2^-53 *)
Definition max_rand : f64w := Fin 9007199254740990 (-53).
Definition f_zero : f64w := Fin 0 emin.

(** ** WeightedIndex<f64> (corrupt.rs [sample_edit]) *)
Fixpoint wcum_f (ws : list f64w) (total : f64w) (acc : list f64w) : werr + (list f64w * f64w) :=
  match ws with
  | [] => if fis_zero total then inl WInsufficientNonZero else inr (rev acc, total)
  | w :: r => if fge0 w then wcum_f r (fadd total w) (total :: acc) else inl WInvalidWeight
  end.

(** [UniformFloat::<f64>::new(0.0, total)]: a non-finite bound is an error that [WeightedIndex::new]
    unwraps (panic); [new_bounded]: while scale * max_rand + low > high { scale = next float down } *)
Fixpoint new_bounded (fuel : nat) (high scale : f64w) : option f64w :=
  match fuel with
  | O => None
  | S f => if fgt (fadd (fmul scale max_rand) f_zero) high then new_bounded f high (fpred scale)
           else Some scale
  end.

(** [Uniform::<f64>::new(0.0, high)]: [scale]; then [sample]:
    value1_2 = 1.m with m = [next_u64 >> 12]; value0_1 = value1_2 - 1.0 = m * 2^-52 (exact);
    result = value0_1 * scale + 0.0.
    Order of the tests as compiled with debug assertions (the harness profile): finiteness first;
    a NaN bound in a release build would be EmptyRange instead. *)
Inductive uerr := UEmptyRange | UNonFinite | UFuel.
Definition uniform_f64_new (high : f64w) : uerr + f64w :=
  match high with
  | Fin m _ => if m =? 0 then inl UEmptyRange
               else match new_bounded 4 high high with Some s => inr s | None => inl UFuel end
  | FNeg => inl UEmptyRange
  | _ => inl UNonFinite
  end.
Definition uniform_f64_sample (scale : f64w) (st : rng) : f64w * rng :=
  let (x, st) := next_u64 st in
  (fadd (fmul (fround (N.shiftr x 12) (-52)) scale) f_zero, st).

(** [WeightedIndex::<f64>::new]: cumulative weights, total, and the sampler's scale
    ([X::Sampler::new(zero, total).unwrap()]: an infinite total panics) *)
Definition windex_new_f (ws : list f64w) : werr + (list f64w * f64w * f64w) :=
  match ws with
  | [] => inl WInvalidInput
  | w0 :: r =>
    if fge0 w0 then
      match wcum_f r w0 [] with
      | inl e => inl e
      | inr (cum, total) =>
        match uniform_f64_new total with
        | inr scale => inr (cum, total, scale)
        | inl UFuel => inl WFuel
        | inl _ => inl WPanic
        end
      end
    else inl WInvalidWeight
  end.

(** [WeightedIndex::new(weights)] + [sample]; also returns [total_weight()] *)
Definition weighted_sample_f (ws : list f64w) (st : rng) : werr + (nat * f64w * rng) :=
  match windex_new_f ws with
  | inl e => inl e
  | inr (cum, total, scale) =>
    let (chosen, st) := uniform_f64_sample scale st in
    inr (ppoint fle cum chosen, total, st)
  end.

(** * A script of sampler calls run from a seed (the correspondence drives the real
    [ChaCha8Rng::seed_from_u64(seed)] through the same script) *)
Inductive call :=
| CU32 | CU64 | CF64
| CRange (n : N)
| CShuffle (m : nat)
| CWeightedN (ws : list N)
| CWeightedF (ws : list f64w)
| CSetPos (block : N) (off : nat)
| CPartial (len : N) (amount : nat) (show : bool)
| CUniformF (high : f64w).

Definition lemire_fuel : nat := 64.

Definition hi_lo (x : N) : val := L [n_v (N.shiftr x 32); n_v (w32 x)].
Definition werr_v (e : werr) : val :=
  L [I (-1)%Z; I (match e with WInvalidInput => 1 | WInvalidWeight => 2 | WInsufficientNonZero => 3
                             | WOverflow => 4 | WPanic => 5 | WFuel => 6 end)%Z].
Definition v_fuel : val := L [I (-4)%Z].
Definition f64w_v (x : f64w) : val :=
  match x with
  | Fin m e => L [I 0%Z; n_v m; I e]
  | FInf => L [I 1%Z; I 0%Z; I 0%Z]
  | FNaN => L [I 2%Z; I 0%Z; I 0%Z]
  | FNeg => L [I 3%Z; I 0%Z; I 0%Z]
  end.

Definition run_call (c : call) (st : rng) : val * rng :=
  match c with
  | CU32 => let (x, st) := next_u32 st in (n_v x, st)
  | CU64 => let (x, st) := next_u64 st in (hi_lo x, st)
  | CF64 => let (k, st) := random_f64 st in (n_v k, st)
  | CRange n => match random_range n st with
                | Some (x, st) => (hi_lo x, st)
                | None => (v_panic, st)
                end
  | CShuffle m => let (l, st) := shuffle (seq 0 m) st in (list_v nat_v l, st)
  | CWeightedN ws => match weighted_sample_n lemire_fuel ws st with
                     | inl e => (werr_v e, st)
                     | inr None => (v_fuel, st)
                     | inr (Some (i, st)) => (L [nat_v i], st)
                     end
  | CWeightedF ws => match weighted_sample_f ws st with
                     | inl e => (werr_v e, st)
                     | inr (i, total, st) => (L [nat_v i; f64w_v total], st)
                     end
  | CUniformF high => match uniform_f64_new high with
                      | inl e => (L [I (-1)%Z; I (match e with UEmptyRange => 1 | UNonFinite => 2 | UFuel => 6 end)%Z], st)
                      | inr scale => let (x, st) := uniform_f64_sample scale st in (f64w_v x, st)
                      end
  | CSetPos b off => (L [], set_word_pos b off st)
  | CPartial len amount show =>
      let (js, st) := partial_indices len amount st in ((if show then list_v n_v js else L []), st)
  end.

Fixpoint run_calls (cs : list call) (st : rng) : list val * rng :=
  match cs with
  | [] => ([], st)
  | c :: cs' => let (v, st) := run_call c st in let (vs, st) := run_calls cs' st in (v :: vs, st)
  end.

(** val glue: numbers that may reach 2^62 travel as (hi lo) pairs of 32-bit halves *)
Definition v_hl (v : val) : N := N.shiftl (v_n (v_nth 0 v)) 32 + v_n (v_nth 1 v).
Definition v_f64w (v : val) : f64w :=
  match v_z (v_nth 0 v) with
  | 0%Z => Fin (v_n (v_nth 1 v)) (v_z (v_nth 2 v))
  | 1%Z => FInf
  | 2%Z => FNaN
  | _ => FNeg
  end.
Definition v_call (v : val) : call :=
  match v_z (v_nth 0 v) with
  | 0%Z => CU32
  | 1%Z => CU64
  | 2%Z => CF64
  | 3%Z => CRange (v_hl (v_nth 1 v))
  | 4%Z => CShuffle (v_nat (v_nth 1 v))
  | 5%Z => CWeightedN (v_list v_hl (v_nth 1 v))
  | 6%Z => CWeightedF (v_list v_f64w (v_nth 1 v))
  | 7%Z => CSetPos (v_hl (v_nth 1 v)) (v_nat (v_nth 2 v))
  | 8%Z => CPartial (v_hl (v_nth 1 v)) (v_nat (v_nth 2 v)) (v_bool (v_nth 3 v))
  | _ => CUniformF (v_f64w (v_nth 1 v))
  end.

(** (seed script) |-> (results (block-hi block-lo offset)): the results of the calls and [get_word_pos] at the end *)
Definition run_script (seed : N) (cs : list call) : val :=
  let (vs, st) := run_calls cs (seed_from_u64 seed) in
  let (b, off) := get_word_pos st in
  L [L vs; L [n_v (N.shiftr b 32); n_v (w32 b); nat_v off]].

(** the statements of RNG_Props evaluated on an implementation's results: a range result is below
    its bound, a shuffle of 0..m is a permutation of 0..m, a weighted index names a positive weight *)
(** [l] is a permutation of 0..m-1: m elements, each below m, none twice (positions are ticked off) *)
Fixpoint tick (x : nat) (fl : list bool) : option (list bool) :=
  match fl, x with
  | [], _ => None
  | b :: r, O => if b then None else Some (true :: r)
  | b :: r, S x' => match tick x' r with Some r' => Some (b :: r') | None => None end
  end.
Fixpoint tick_all (l : list nat) (fl : list bool) : bool :=
  match l with
  | [] => true
  | x :: r => match tick x fl with Some fl' => tick_all r fl' | None => false end
  end.
Definition is_perm_seq (m : nat) (l : list nat) : bool :=
  Nat.eqb (length l) m && tick_all l (repeat false m).
Definition fpos (w : f64w) : bool := match w with Fin m _ => negb (m =? 0) | FInf => true | _ => false end.
Definition check_call (c : call) (out : val) : bool :=
  match c with
  | CU32 => match out with I z => (0 <=? z)%Z && (z <? 4294967296)%Z | _ => false end
  | CU64 => match out with L [I h; I l] => (0 <=? h)%Z && (h <? 4294967296)%Z && (0 <=? l)%Z && (l <? 4294967296)%Z | _ => false end
  | CF64 => match out with I z => (0 <=? z)%Z && (z <? 9007199254740992)%Z | _ => false end
  | CRange n => match out with
                | L [I h; I l] => (0 <=? h)%Z && (0 <=? l)%Z && (l <? 4294967296)%Z && (v_hl out <? n)
                | _ => (n =? 0) || (p64 <=? n)
                end
  | CShuffle m => is_perm_seq m (v_list v_nat out)
  | CWeightedN ws => match out with
                     | L [I i] => (0 <=? i)%Z && (0 <? nth (Z.to_nat i) ws 0)
                     | L [I _; I _] => match windex_new_n ws with inl _ => true | _ => false end
                     | _ => false
                     end
  | CWeightedF ws => match out, windex_new_f ws with
                     | L [I i; L [I 0%Z; I _; I _]], inr (_, Fin m _, _) =>
                         (0 <=? i)%Z && Nat.ltb (Z.to_nat i) (length ws)
                         && (fpos (nth (Z.to_nat i) ws FNaN) || (m <? 4503599627370496))
                     | L [I _; I _], inl _ => true
                     | _, _ => false
                     end
  | CUniformF high => match out, uniform_f64_new high with
                      | L [I 0%Z; I _; I _], inr _ => fle (v_f64w out) high   (* a sample of [0, high) is at most high *)
                      | L [I (-1)%Z; I _], inl _ => true
                      | _, _ => false
                      end
  | CSetPos _ _ => match out with L [] => true | _ => false end
  | CPartial len amount show =>
      let eff := if N.of_nat amount <? len then amount else N.to_nat len in
      if show then
        let js := v_list v_n out in
        Nat.eqb (length js) eff
        && (fix ok (i : N) (js : list N) := match js with [] => true | j :: r => (j <=? i) && ok (i + 1) r end)
             (len - N.of_nat eff) js
      else match out with L [] => true | _ => false end
  end.
Fixpoint check_calls (cs : list call) (outs : list val) : bool :=
  match cs, outs with
  | [], [] => true
  | c :: cs', o :: outs' => check_call c o && check_calls cs' outs'
  | _, _ => false
  end.

(** C02 at string level: the Gallina model of [String::from_utf8] (C01_Model.utf8_decode, strict decoder)
    applied to the decoded bytes gives back the text itself (minus trailing whitespace), not merely
    its UTF-8 bytes.  Bridges C02's byte-level statements with C01's decoder. *)
From TU Require Import Base BPE_Model C01_Model C01_Proofs C02_Model C02_Inv C02_Loop C02_Proofs.
Require Import Lia ZifyBool ZifyN.
Open Scope N_scope.

Lemma scalar_valid_cp c : scalar c = true -> valid_cp c.
Proof. unfold scalar, valid_cp. lia. Qed.

Lemma scalars_valid s : scalars s = true -> Forall valid_cp s.
Proof.
  unfold scalars. rewrite forallb_forall, Forall_forall. intros H c Hc. apply scalar_valid_cp, H, Hc.
Qed.

Lemma scalars_app_l a b : scalars (a ++ b) = true -> scalars a = true.
Proof. unfold scalars. rewrite forallb_app. intros H. apply andb_prop in H. exact (proj1 H). Qed.

Lemma scalars_strip s : scalars s = true -> scalars (strip_trailing_ws s) = true.
Proof.
  intros Hs. destruct (strip_spec_l s) as [[t [Ht _]] _].
  rewrite Ht in Hs. exact (scalars_app_l _ _ Hs).
Qed.

Lemma bpe_lossless_string_l : forall c s, scalars s = true -> config_ok c = true ->
  exists ids, bpe_tokenize c s = Some ids /\
    utf8_decode (bpe_decode (eff_table c) ids) = Some (strip_trailing_ws s) /\
    Forall (fun id => id < vocab_size c) ids.
Proof.
  intros c s Hs Hc.
  destruct (bpe_lossless_l c s (scalars_valid s Hs) Hc) as [ids [Ht [Hd Hv]]].
  exists ids. split; [exact Ht|]. split; [|exact Hv].
  rewrite Hd. apply utf8_decode_utf8s. apply scalars_strip, Hs.
Qed.

Lemma bpe_exact_string_l : forall c s ids t ch, scalars s = true -> bpe_tokenize c s = Some ids ->
  s = t ++ [ch] -> is_ws ch = false -> utf8_decode (bpe_decode (eff_table c) ids) = Some s.
Proof.
  intros c s ids t ch Hs Ht E Hw.
  rewrite (bpe_exact_l c s ids t ch (scalars_valid s Hs) Ht E Hw).
  apply utf8_decode_utf8s, Hs.
Qed.

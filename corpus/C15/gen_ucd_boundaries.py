#!/usr/bin/env python3
"""corpus/C15/ucd_boundaries.case: fourth-stream cases (artificial mode without a dictionary, probability 1, one edit
per word, allow_full_delete) whose texts are the code points at or next to an end of a range of std Alphabetic
(UCD_Table.std_alphabetic) and of regex-syntax \\p{P} (UCD_Table.re_punctuation), one code point per word.
The aux field (clusters and classes of every word as the real crate sees them) is compared with the model's by
`agree`, so every boundary of the two tables behind can_delete / can_swap is compared with the running code."""
import re, subprocess, sys
src = open('/verif/coq/theories/UCD_Table.v').read()
def table(name):
    m = re.search(r'Definition ' + name + r'\s*:[^=]*:=\s*\[(.*?)\]', src, re.S)
    return [(int(a), int(b)) for a, b in re.findall(r'\((\d+)\s*,\s*(\d+)\)', m.group(1))]
WS = {9,10,11,12,13,32,133,160,5760,8192,8193,8194,8195,8196,8197,8198,8199,8200,8201,8202,8232,8233,8239,8287,12288}
pts = set()
for name in ('std_alphabetic', 're_punctuation'):
    t = table(name)
    assert len(t) > 100, (name, len(t))
    for lo, hi in t:
        for c in (lo - 1, lo, hi, hi + 1):
            if 0 < c < 0x110000 and not (0xD800 <= c <= 0xDFFF) and c not in WS:
                pts.add(c)
pts = sorted(pts)
one = "(0 4503599627370496 -52)"; zero = "(0 0 -1074)"; two = "(0 4503599627370496 -51)"
lines = []
K = 24
for i in range(0, len(pts), K):
    chunk = pts[i:i + K]
    text = []
    for j, c in enumerate(chunk):
        if j: text.append(32)
        text.append(c)
    lines.append("(4 3 1 %d (%s) () () (%s %s %s %s) ())" % (1000 + i // K, " ".join(map(str, text)), one, zero, zero, two))
out = subprocess.run(['/verif/harness/target/debug/c15', 'run'], input="\n".join(lines) + "\n", capture_output=True, text=True).stdout
canon = []
for l in out.splitlines():
    p = l.split('\t')
    assert len(p) == 3 and p[0] != 'INVALID', l[:200]
    canon.append(p[2])
with open('/verif/corpus/C15/ucd_boundaries.case', 'w') as f:
    f.write("# GENERATED (notes/C15.md, section 'Fourth session'): %d code points at or next to an end of a range of\n" % len(pts))
    f.write("# UCD_Table.std_alphabetic (char::is_alphabetic) and UCD_Table.re_punctuation (regex \\p{P}); one code point per word,\n")
    f.write("# %d per input; fourth stream, artificial mode without a dictionary, probability 1, allow_full_delete: the aux field\n" % K)
    f.write("# (clusters and classes from the real crate) is compared with the model's on every check.\n")
    for c in canon: f.write(c + "\n")
print(len(pts), len(canon))

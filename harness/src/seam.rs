// Harness-side transliteration of the decidable seam conditions of coq/theories/C10_Seam.v
// (`cf_break`, `seam_ok`, `seam_safe`) over the generated range tables (uax29_ranges.rs, the same
// translation of unicode-segmentation's tables.rs that UAX29_Table.v is).
//
// It is used for ONE purpose: to decide whether a failing case may be reported under the
// known-finding class KF1 (only outside the domain of the `_u` theorems). It is not trusted: the
// flag it computes is part of the input, and `agree` (C1x_Seam.v: `xcheck`) demands on every
// case that it equals the model's own `seam_safe`; a difference is a correspondence disagreement.
// Included with `#[path]` by c10.rs, c14.rs and c15.rs.
#![allow(dead_code)]

#[path = "uax29_ranges.rs"]
mod uax29_ranges;
use uax29_ranges::{GRAPHEME_CAT_TABLE, INCB_EXTEND_TABLE, INCB_LINKER};

// indices into uax29_ranges::CATS (alphabetical, as generated)
pub const ANY: u8 = 0;
pub const CR: u8 = 1;
pub const CONTROL: u8 = 2;
pub const EXTEND: u8 = 3;
pub const EXT_PICT: u8 = 4;
pub const INCB_CONSONANT: u8 = 5;
pub const L: u8 = 6;
pub const LF: u8 = 7;
pub const LV: u8 = 8;
pub const LVT: u8 = 9;
pub const PREPEND: u8 = 10;
pub const RI: u8 = 11;
pub const SPACING_MARK: u8 = 12;
pub const T: u8 = 13;
pub const V: u8 = 14;
pub const ZWJ: u8 = 15;

pub fn cats_selfcheck() -> Vec<String> {
    let want = [
        "GC_Any", "GC_CR", "GC_Control", "GC_Extend", "GC_Extended_Pictographic", "GC_InCB_Consonant",
        "GC_L", "GC_LF", "GC_LV", "GC_LVT", "GC_Prepend", "GC_Regional_Indicator", "GC_SpacingMark",
        "GC_T", "GC_V", "GC_ZWJ",
    ];
    if uax29_ranges::CATS != want {
        vec!["seam.rs: category indices do not match uax29_ranges::CATS".to_string()]
    } else {
        vec![]
    }
}

/// `gcb` of UAX29_Model.v
pub fn gcb(c: char) -> u8 {
    let x = c as u32;
    if x <= 126 {
        return if x >= 32 {
            ANY
        } else if x == 10 {
            LF
        } else if x == 13 {
            CR
        } else {
            CONTROL
        };
    }
    match GRAPHEME_CAT_TABLE.binary_search_by(|&(lo, hi, _)| {
        if hi < x {
            std::cmp::Ordering::Less
        } else if lo > x {
            std::cmp::Ordering::Greater
        } else {
            std::cmp::Ordering::Equal
        }
    }) {
        Ok(i) => GRAPHEME_CAT_TABLE[i].2,
        Err(_) => ANY,
    }
}

/// `incb_of c <> None`
pub fn has_incb(c: char) -> bool {
    let x = c as u32;
    INCB_LINKER.contains(&x) || INCB_EXTEND_TABLE.iter().any(|&(lo, hi)| lo <= x && x <= hi)
}

#[derive(Clone, Copy, PartialEq, Eq, Debug)]
pub enum PairResult {
    NotBreak,
    Break,
    Extended,
    InCbConsonant,
    Regional,
    Emoji,
}

/// `check_pair` of UAX29_Model.v, clause by clause
pub fn check_pair(before: u8, after: u8) -> PairResult {
    use PairResult::*;
    let ctl = |k: u8| k == CONTROL || k == CR || k == LF;
    if before == CR && after == LF {
        NotBreak
    } else if ctl(before) {
        Break
    } else if ctl(after) {
        Break
    } else if before == L && (after == L || after == V || after == LV || after == LVT) {
        NotBreak
    } else if (before == LV || before == V) && (after == V || after == T) {
        NotBreak
    } else if (before == LVT || before == T) && after == T {
        NotBreak
    } else if after == EXTEND || after == ZWJ {
        NotBreak
    } else if after == SPACING_MARK {
        Extended
    } else if before == PREPEND {
        Extended
    } else if after == INCB_CONSONANT {
        InCbConsonant
    } else if before == ZWJ && after == EXT_PICT {
        Emoji
    } else if before == RI && after == RI {
        Regional
    } else {
        Break
    }
}

/// `cf_break`: a boundary between `a` and `b` in every context
pub fn cf_break(a: char, b: char) -> bool {
    match check_pair(gcb(a), gcb(b)) {
        PairResult::Break => true,
        PairResult::InCbConsonant => !has_incb(a),
        _ => false,
    }
}

pub fn is_prepend(c: char) -> bool {
    gcb(c) == PREPEND
}

pub fn ws_joinable(c: char) -> bool {
    let k = gcb(c);
    k == EXTEND || k == SPACING_MARK || k == ZWJ
}

/// `seam_ok`: U+0020 can be written or removed between `a` and `b`
pub fn seam_ok(a: char, b: char) -> bool {
    !is_prepend(a) && !ws_joinable(b) && cf_break(a, b)
}

/// `seam_safe_cf` of C10_Seam.v: every word boundary (words = maximal runs of non-White_Space
/// code points) is a `seam_ok` position
pub fn seam_safe_cf(s: &str) -> bool {
    let words: Vec<&str> = s.split_whitespace().collect();
    words.windows(2).all(|w| {
        let a = w[0].chars().last().unwrap_or(' ');
        let b = w[1].chars().next().unwrap_or(' ');
        seam_ok(a, b)
    })
}

// ---------------------------------------------------------------- the cursor's look-behind state

/// `ctx` of UAX29_Model.v: emo 0 = E_none, 1 = E_pict, 2 = E_zwj; icb 0 = I_none,
/// 1 = I_cons false, 2 = I_cons true
#[derive(Clone, Copy, PartialEq, Eq, Debug)]
pub struct Ctx {
    pub ris_odd: bool,
    pub emo: u8,
    pub icb: u8,
}
pub const CTX0: Ctx = Ctx { ris_odd: false, emo: 0, icb: 0 };

/// 0 = no Indic_Conjunct_Break class, 1 = Linker, 2 = Extend (linker asked first, as the code does)
pub fn incb_of(c: char) -> u8 {
    let x = c as u32;
    if INCB_LINKER.contains(&x) {
        1
    } else if INCB_EXTEND_TABLE.iter().any(|&(lo, hi)| lo <= x && x <= hi) {
        2
    } else {
        0
    }
}

/// `advance`
pub fn advance(x: Ctx, c: char, k: u8) -> Ctx {
    Ctx {
        ris_odd: if k == RI { !x.ris_odd } else { false },
        emo: if k == EXT_PICT {
            1
        } else if k == EXTEND {
            if x.emo == 1 { 1 } else { 0 }
        } else if k == ZWJ {
            if x.emo == 1 { 2 } else { 0 }
        } else {
            0
        },
        icb: match incb_of(c) {
            1 => if x.icb != 0 { 2 } else { 0 },
            2 => x.icb,
            _ => if k == INCB_CONSONANT { 1 } else { 0 },
        },
    }
}

/// `is_break`
pub fn is_break(x: Ctx, ka: u8, kb: u8) -> bool {
    match check_pair(ka, kb) {
        PairResult::NotBreak => false,
        PairResult::Break => true,
        PairResult::Extended => false,
        PairResult::InCbConsonant => x.icb != 2,
        PairResult::Regional => !x.ris_odd,
        PairResult::Emoji => x.emo != 2,
    }
}

/// `state_of`
pub fn state_of(s: &str) -> (Ctx, u8) {
    let mut st = (CTX0, ANY);
    for c in s.chars() {
        let k = gcb(c);
        st = (advance(st.0, c, k), k);
    }
    st
}

/// `break_after s b`: a boundary between the text `s` (read from the empty context) and `b`
pub fn break_after(s: &str, b: char) -> bool {
    let (x, ka) = state_of(s);
    is_break(x, ka, gcb(b))
}

/// `glued c d` of C10_Seam.v
pub fn glued(c: &str, d: &str) -> bool {
    match d.chars().next() {
        Some(b) => break_after(c, b),
        None => true,
    }
}

fn all_ws(c: &str) -> bool {
    c.chars().all(|x| x.is_whitespace())
}
fn mixed(c: &str) -> bool {
    let ws = c.chars().filter(|x| x.is_whitespace()).count();
    ws > 0 && ws < c.chars().count()
}

/// `del_safe` on a cluster list
pub fn del_safe(t: &[&str]) -> bool {
    (0..t.len().saturating_sub(1)).all(|i| {
        if !all_ws(t[i]) && all_ws(t[i + 1]) {
            match t.get(i + 2) {
                Some(d) => glued(t[i], d),
                None => true,
            }
        } else {
            true
        }
    })
}

/// `seam_safe` of C10_Seam.v on the clusters unicode-segmentation gives (that these are the
/// model's `segment` is the other clause of `agree`)
pub fn seam_safe(s: &str) -> bool {
    let t: Vec<&str> = vh::split_clusters(s, true).collect();
    !t.iter().any(|c| mixed(c)) && del_safe(&t)
}

/// `ins_safe` of C14_Seam.v on a cluster list
pub fn ins_safe(t: &[&str]) -> bool {
    t.windows(2).all(|w| {
        if all_ws(w[0]) || all_ws(w[1]) {
            true
        } else {
            !is_prepend(w[0].chars().last().unwrap_or(' '))
                && !ws_joinable(w[1].chars().next().unwrap_or(' '))
        }
    })
}

/// `corrupt_safe` of C14_Seam.v
pub fn corrupt_safe(s: &str) -> bool {
    let t: Vec<&str> = vh::split_clusters(s, true).collect();
    seam_safe(s) && ins_safe(&t)
}

/// `corrupt_safe_cf`
pub fn corrupt_safe_cf(s: &str) -> bool {
    let t: Vec<&str> = vh::split_clusters(s, true).collect();
    seam_safe_cf(s) && ins_safe(&t)
}

// ---------------------------------------------------------------- drawing seam-prone inputs

fn scalar_or(c: u32) -> char {
    char::from_u32(c).unwrap_or(if c < 0xDC00 { '\u{D7FF}' } else { '\u{E000}' })
}

/// a random code point of category `k` (random range of the table, ends preferred); never a
/// White_Space code point (those are drawn separately by the callers)
pub fn of_cat(rng: &mut vh::Rng, k: u8) -> char {
    if k == ANY {
        return *rng.pick(&['a', 'b', 'x', 'é', '中', '0', '.', '\u{e01}']);
    }
    let rs: Vec<(u32, u32)> =
        GRAPHEME_CAT_TABLE.iter().filter(|e| e.2 == k).map(|e| (e.0, e.1)).collect();
    for _ in 0..20 {
        let (lo, hi) = *rng.pick(&rs);
        let x = match rng.below(4) {
            0 => lo,
            1 => hi,
            _ => lo + rng.below((hi - lo + 1) as usize) as u32,
        };
        let c = scalar_or(x);
        if !c.is_whitespace() {
            return c;
        }
    }
    'a'
}

/// one non-whitespace code point of a random kind: every grapheme category, and the three
/// Indic_Conjunct_Break kinds of Extend / ZWJ (linker, InCB=Extend, neither: U+200C)
pub fn seam_unit(rng: &mut vh::Rng) -> char {
    match rng.below(20) {
        0 => of_cat(rng, ANY),
        1 => of_cat(rng, CONTROL),
        2 => of_cat(rng, EXTEND),
        3 => of_cat(rng, EXT_PICT),
        4 => of_cat(rng, INCB_CONSONANT),
        5 => of_cat(rng, L),
        6 => of_cat(rng, LV),
        7 => of_cat(rng, LVT),
        8 => of_cat(rng, PREPEND),
        9 => of_cat(rng, RI),
        10 => of_cat(rng, SPACING_MARK),
        11 => of_cat(rng, T),
        12 => of_cat(rng, V),
        13 => '\u{200d}',
        14 => scalar_or(*rng.pick(INCB_LINKER)),
        15 => {
            let &(lo, hi) = rng.pick(INCB_EXTEND_TABLE);
            scalar_or(lo + rng.below((hi - lo + 1) as usize) as u32)
        }
        16 => '\u{200c}',
        17 => '\u{200b}',
        _ => of_cat(rng, ANY),
    }
}

/// text before a probed pair that puts the cursor into each of its look-behind states
pub fn seam_prefix(rng: &mut vh::Rng) -> &'static str {
    *rng.pick(&[
        "", "", "x", "\u{1F1E9}", "\u{1F1E9}\u{1F1EA}", "\u{1F469}", "\u{1F469}\u{1F3FB}", "\u{915}",
        "\u{915}\u{94D}", "\u{915}\u{94D}\u{200D}", "\u{1100}", "\u{1100}\u{1161}", "\u{AC00}",
        "\u{600}", "e\u{301}",
    ])
}

pub fn seam_suffix(rng: &mut vh::Rng) -> &'static str {
    *rng.pick(&[
        "", "", "x", "\u{1F1EA}", "\u{200D}\u{1F4BB}", "\u{94D}\u{937}", "\u{1161}", "\u{11A8}",
        "\u{301}", "\u{903}",
    ])
}

/// a pair of code points: mostly pairs on or next to the edge of `cf_break` (the rules that look
/// at both sides: GB6-8 Hangul, GB9c conjuncts, GB11 emoji ZWJ, GB12/13 flags), else two
/// independent units
pub fn seam_pair(rng: &mut vh::Rng) -> (char, char) {
    let hangul_l = [L];
    let hangul_v = [V, LV];
    let hangul_t = [T, LVT];
    match rng.below(16) {
        0 | 1 => (of_cat(rng, RI), of_cat(rng, RI)),
        k @ 2..=4 => {
            let (ka, kb) = match k {
                2 => (*rng.pick(&hangul_l), *rng.pick(&[L, V, LV, LVT, T])),
                3 => (*rng.pick(&hangul_v), *rng.pick(&[V, T, L, LV])),
                _ => (*rng.pick(&hangul_t), *rng.pick(&[T, V, L, LVT])),
            };
            (of_cat(rng, ka), of_cat(rng, kb))
        }
        5 | 6 => {
            let a = match rng.below(5) {
                0 => scalar_or(*rng.pick(INCB_LINKER)),
                1 => {
                    let &(lo, hi) = rng.pick(INCB_EXTEND_TABLE);
                    scalar_or(lo + rng.below((hi - lo + 1) as usize) as u32)
                }
                2 => '\u{200d}',
                3 => '\u{200c}',
                _ => of_cat(rng, INCB_CONSONANT),
            };
            (a, of_cat(rng, INCB_CONSONANT))
        }
        7 => ('\u{200d}', of_cat(rng, EXT_PICT)),
        8 => (of_cat(rng, EXT_PICT), of_cat(rng, EXT_PICT)),
        9 => (seam_unit(rng), of_cat(rng, INCB_CONSONANT)),
        _ => (seam_unit(rng), seam_unit(rng)),
    }
}

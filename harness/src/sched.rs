//! Controlled scheduling of the real `Pipe` / `Buffered` threads through the
//! `verif` schedule points. Worker threads block inside `text_utils::verif::at`
//! until the scheduler (which is also the consumer) grants them one move; the
//! scheduler only grants moves that cannot block (it tracks the channel
//! occupancy itself), so at any time at most one thread of the system runs and
//! the observed event sequence is exactly one interleaving.
//!
//! The choice of the next actor mirrors `run_sched` / `brun_sched` of
//! coq/theories/Pipe_Model.v: grantable actors in canonical order, pick
//! `actors[c mod len]` with `c` the next number of the choice list (or the step
//! number once the list is exhausted).
use crate::Val;
use std::collections::{HashMap, HashSet};
use std::sync::atomic::{AtomicUsize, Ordering};
use std::sync::{Arc, Condvar, Mutex};
use std::time::{Duration, Instant};
use text_utils::data::loading::{BufferedIterator, PipelineIterator};
use text_utils::verif::{self, Event, Monitor, Point};

// generous: only a wedged implementation ever waits this long; a loaded machine must not false-alarm
/// limit for one granted move to reach its next schedule point (times `patience()`)
fn step_timeout() -> Duration {
    Duration::from_millis(10_000 * crate::patience())
}

#[derive(Default)]
struct CtlState {
    waiting: HashMap<usize, Event>,
    grant: HashSet<usize>,
    exited: HashSet<usize>,
    passed: Vec<Event>,
    /// when set, every point is pass-through (used to let threads run out at the end)
    free: bool,
}

pub struct Ctl {
    st: Mutex<CtlState>,
    cv: Condvar,
    /// true: this controller drives a `Buffered`, false: a `Pipe`; points of the other
    /// family (e.g. from a thread an earlier case leaked) are ignored
    buffered: bool,
}

fn is_buf_point(p: Point) -> bool {
    matches!(p, Point::BufBeforeTake | Point::BufGot | Point::BufSent | Point::BufExit)
}

fn blocking(p: Point) -> bool {
    matches!(
        p,
        Point::PipeBeforeTake
            | Point::PipeGot
            | Point::PipeComputed
            | Point::PipeSpin
            | Point::PipeBeforeSend
            | Point::PipeSentOk
            | Point::PipeSentErr
            | Point::BufBeforeTake
            | Point::BufGot
    )
}

impl Monitor for Ctl {
    fn at(&self, ev: Event) {
        if is_buf_point(ev.point) != self.buffered {
            return;
        }
        let mut st = self.st.lock().unwrap();
        if st.free {
            if matches!(ev.point, Point::PipeEnd | Point::PipeExit | Point::BufExit) {
                st.exited.insert(ev.thread);
            }
            self.cv.notify_all();
            return;
        }
        if !blocking(ev.point) {
            st.passed.push(ev);
            if matches!(ev.point, Point::PipeEnd | Point::PipeExit | Point::BufExit) {
                st.exited.insert(ev.thread);
            }
            self.cv.notify_all();
            return;
        }
        st.waiting.insert(ev.thread, ev);
        self.cv.notify_all();
        loop {
            if st.free || st.grant.remove(&ev.thread) {
                return;
            }
            st = self.cv.wait(st).unwrap();
        }
    }
}

/// what a thread did after being granted one move
#[derive(Debug, Clone, Copy, PartialEq)]
pub enum After {
    At(Event),
    Exited,
    Timeout,
}

impl Ctl {
    pub fn new(buffered: bool) -> Arc<Ctl> {
        Arc::new(Ctl { st: Mutex::new(CtlState::default()), cv: Condvar::new(), buffered })
    }

    pub fn install(self: &Arc<Self>) {
        verif::install(Some(self.clone() as Arc<dyn Monitor>));
    }

    /// wait until every thread in `threads` blocks at a point or has exited
    pub fn wait_all(&self, threads: &[usize]) -> bool {
        let deadline = Instant::now() + step_timeout();
        let mut st = self.st.lock().unwrap();
        loop {
            if threads.iter().all(|t| st.waiting.contains_key(t) || st.exited.contains(t)) {
                return true;
            }
            let now = Instant::now();
            if now >= deadline {
                return false;
            }
            st = self.cv.wait_timeout(st, deadline - now).unwrap().0;
        }
    }

    pub fn point_of(&self, t: usize) -> Option<Event> {
        self.st.lock().unwrap().waiting.get(&t).copied()
    }

    pub fn has_exited(&self, t: usize) -> bool {
        self.st.lock().unwrap().exited.contains(&t)
    }

    /// release thread `t` for one move (does not wait)
    pub fn release(&self, t: usize) {
        let mut st = self.st.lock().unwrap();
        st.waiting.remove(&t);
        st.grant.insert(t);
        self.cv.notify_all();
    }

    /// wait until thread `t` blocks again or exits
    pub fn settle(&self, t: usize) -> After {
        let deadline = Instant::now() + step_timeout();
        let mut st = self.st.lock().unwrap();
        loop {
            if let Some(ev) = st.waiting.get(&t) {
                return After::At(*ev);
            }
            if st.exited.contains(&t) {
                return After::Exited;
            }
            let now = Instant::now();
            if now >= deadline {
                return After::Timeout;
            }
            st = self.cv.wait_timeout(st, deadline - now).unwrap().0;
        }
    }

    pub fn grant(&self, t: usize) -> After {
        self.release(t);
        self.settle(t)
    }

    pub fn take_passed(&self) -> Vec<Event> {
        std::mem::take(&mut self.st.lock().unwrap().passed)
    }

    /// let every thread run freely from now on (end of a schedule)
    pub fn set_free(&self) {
        let mut st = self.st.lock().unwrap();
        st.free = true;
        st.waiting.clear();
        self.cv.notify_all();
    }

    pub fn wait_exited(&self, threads: &[usize], ms: u64) -> usize {
        let deadline = Instant::now() + Duration::from_millis(ms * crate::patience());
        let mut st = self.st.lock().unwrap();
        loop {
            let n = threads.iter().filter(|t| st.exited.contains(t)).count();
            if n == threads.len() {
                return n;
            }
            let now = Instant::now();
            if now >= deadline {
                return n;
            }
            st = self.cv.wait_timeout(st, deadline - now).unwrap().0;
        }
    }
}

/// upstream iterator that counts how many items were pulled
pub struct Counting {
    xs: Vec<i64>,
    pos: usize,
    pub pulled: Arc<AtomicUsize>,
    /// what `size_hint` reports (real upstreams differ: a `Vec` iterator is exact, a `filter_map` chain only
    /// knows an upper bound, a generator knows nothing): 0 = the default `(0, None)`, 1 = exact,
    /// 2 = `(0, Some(remaining))`, 3 = `(remaining, None)`. The stream must not depend on it.
    hint: u8,
    /// not fused: after the end (`None`) further calls yield up to 8 junk items (index n.., value -7) and only then `None`
    /// for good. The input SEQUENCE ends at the first `None` (Iterator contract); a consumer that polls again after the end
    /// — the defect D17 of the threaded pipe, repaired by `fuse()` — delivers junk. One case in three.
    unfused: bool,
    ended: bool,
    junk: usize,
}

pub fn unfused_of(n: usize, w: usize, extra: usize) -> bool {
    (n * 5 + w + extra) % 3 == 0
}

/// the kind of `size_hint` a case uses: a function of the case so that runs are reproducible
pub fn hint_of(n: usize, w: usize, extra: usize) -> u8 {
    ((n * 7 + w * 3 + extra) % 4) as u8
}

impl Iterator for Counting {
    type Item = (usize, i64);
    fn next(&mut self) -> Option<(usize, i64)> {
        if self.pos < self.xs.len() {
            let r = (self.pos, self.xs[self.pos]);
            self.pos += 1;
            self.pulled.fetch_add(1, Ordering::SeqCst);
            Some(r)
        } else if self.unfused && self.ended && self.junk < 8 {
            self.junk += 1;
            Some((self.xs.len() + self.junk - 1, -7))
        } else {
            self.ended = true;
            None
        }
    }
    fn size_hint(&self) -> (usize, Option<usize>) {
        let rem = self.xs.len() - self.pos;
        match self.hint {
            1 => (rem, Some(rem)),
            2 => (0, Some(rem)),
            3 => (rem, None),
            _ => (0, None),
        }
    }
}

pub fn f_model(x: i64) -> i64 {
    3 * x + 1
}

pub struct PipeRun {
    /// (actor, code, idx, pulled)
    pub events: Vec<[i64; 4]>,
    pub out: Vec<i64>,
    pub ended: bool,
    /// how many times the pipeline function ran per input index
    pub counts: Vec<usize>,
    pub pulled: usize,
    pub exited: usize,
    pub hang: bool,
    /// the choice actually used at every scheduler step (index into the actor list)
    pub used: Vec<usize>,
    /// per step: the indices (into the actor list) of the actors whose move was not a stutter
    pub alts: Vec<Vec<usize>>,
}

impl PipeRun {
    pub fn events_val(&self) -> Val {
        Val::L(self.events.iter().map(|e| Val::L(e.iter().map(|x| Val::I(*x)).collect())).collect())
    }
}

fn code_of(p: Point) -> i64 {
    match p {
        Point::PipeGot => 1,
        Point::PipeComputed => 3,
        Point::PipeSpin => 4,
        Point::PipeBeforeSend => 5,
        Point::PipeSentOk => 6,
        Point::PipeSentErr => 7,
        Point::PipeBeforeTake => 8,
        _ => 13,
    }
}

/// Run the real `Pipe` over `xs` with `w >= 1` worker threads under the schedule
/// given by `choices`; the consumer consumes at most `dropk` items and then drops
/// the iterator (`None`: consumes everything).
pub fn run_pipe_controlled(xs: &[i64], w: usize, choices: &[usize], dropk: Option<usize>) -> PipeRun {
    run_pipe_controlled_ext(xs, w, choices, dropk, false)
}

/// `first_progress`: once the choice list is exhausted pick the first actor whose move is not a
/// stutter (used by the exhaustive schedule enumeration) instead of the step number.
pub fn run_pipe_controlled_ext(
    xs: &[i64],
    w: usize,
    choices: &[usize],
    dropk: Option<usize>,
    first_progress: bool,
) -> PipeRun {
    let n = xs.len();
    let ctl = Ctl::new(false);
    ctl.install();
    let pulled = Arc::new(AtomicUsize::new(0));
    let counts: Arc<Vec<AtomicUsize>> = Arc::new((0..n + 8).map(|_| AtomicUsize::new(0)).collect());
    let counts2 = counts.clone();
    let upstream = Counting { xs: xs.to_vec(), pos: 0, pulled: pulled.clone(), hint: hint_of(n, w, choices.len()), unfused: unfused_of(n, w, choices.len()), ended: false, junk: 0 };
    let pipeline: text_utils::data::Pipeline<(usize, i64), i64> = Arc::new(move |(i, x)| {
        counts2[i].fetch_add(1, Ordering::SeqCst);
        f_model(x)
    });
    let pipe = upstream.pipe(pipeline, w as u8);
    // Pipe::new installs a process-wide panic hook that exits; keep panics of the
    // harness itself catchable
    let _ = std::panic::take_hook();
    std::panic::set_hook(Box::new(|_| {}));
    let mut pipe = Some(pipe);
    let threads: Vec<usize> = (0..w).collect();
    let mut run = PipeRun {
        events: vec![],
        out: vec![],
        ended: false,
        counts: vec![],
        pulled: 0,
        exited: 0,
        hang: false,
        used: vec![],
        alts: vec![],
    };
    if !ctl.wait_all(&threads) {
        run.hang = true;
    }
    let mut chan = 0usize; // items in the channel
    let mut dropped = false;
    let mut turn = 0usize; // number of Advance moves seen (only used to recognise stutters)
    let fuel = choices.len() + (6 * n + w + 2) * (w + 3);
    let mut k = 0usize;
    // relative speed inside a controlled schedule: in one case out of five the whole system stands still for 25 ms at
    // one step of the schedule (a function of the case, so a replay pauses at the same step). Code whose behaviour
    // depends on how long a worker has been waiting (spin-then-sleep, time-outs, back-off) takes its slow path after
    // the pause, and the steps around that path are then chosen by the schedule like any others.
    let h = choices.iter().fold(n * 31 + w * 7 + 3, |a, c| a.wrapping_mul(131).wrapping_add(*c + 1));
    let pause_at = if w >= 2 && n >= 2 && h % 5 == 0 { Some((h / 5) % (choices.len().max(4 * n) + 1)) } else { None };
    while !run.hang {
        if Some(k) == pause_at {
            std::thread::sleep(Duration::from_millis(25));
        }
        if k >= fuel {
            run.events.push([w as i64, 13, 0, pulled.load(Ordering::SeqCst) as i64]);
            break;
        }
        // grantable actors in canonical order: threads, recv (w), drop (w+1)
        let mut actors: Vec<usize> = vec![];
        for t in 0..w {
            if ctl.has_exited(t) {
                continue;
            }
            match ctl.point_of(t).map(|e| e.point) {
                Some(Point::PipeBeforeSend) => {
                    if dropped || chan < w {
                        actors.push(t)
                    }
                }
                Some(_) => actors.push(t),
                None => {}
            }
        }
        let may_consume = dropk.map(|d| run.out.len() < d).unwrap_or(true);
        if !dropped && chan > 0 && may_consume {
            actors.push(w);
        }
        if !dropped && dropk.map(|d| d <= run.out.len()).unwrap_or(false) {
            actors.push(w + 1);
        }
        if actors.is_empty() {
            let all_exited = (0..w).all(|t| ctl.has_exited(t));
            if all_exited && chan == 0 && !dropped {
                // every sender is gone: the consumer must see the end of the stream
                let (tx, rx) = std::sync::mpsc::channel();
                let mut p = pipe.take().unwrap();
                let h = std::thread::spawn(move || {
                    let r = p.next();
                    let _ = tx.send(r.is_none());
                    p
                });
                match rx.recv_timeout(step_timeout()) {
                    Ok(none) => {
                        run.ended = none;
                        if none {
                            run.events.push([w as i64, 12, 0, pulled.load(Ordering::SeqCst) as i64]);
                        }
                        pipe = h.join().ok();
                    }
                    Err(_) => run.hang = true,
                }
            }
            break;
        }
        let progress: Vec<usize> = (0..actors.len())
            .filter(|i| {
                let a = actors[*i];
                a >= w
                    || match ctl.point_of(a) {
                        Some(e) if matches!(e.point, Point::PipeComputed | Point::PipeSpin) => e.idx == turn,
                        _ => true,
                    }
            })
            .collect();
        let c = if k < choices.len() {
            choices[k] % actors.len()
        } else if first_progress {
            progress.first().copied().unwrap_or(0)
        } else {
            k % actors.len()
        };
        run.used.push(c);
        run.alts.push(progress);
        let a = actors[c];
        k += 1;
        if a < w {
            let before = ctl.point_of(a).map(|e| e.point);
            match ctl.grant(a) {
                After::Timeout => {
                    run.hang = true;
                }
                After::Exited => {
                    // exit at the end of the upstream (after BeforeTake) or after a failed send
                    let code = if before == Some(Point::PipeBeforeTake) { 2 } else { 9 };
                    if code == 9 {
                        turn += 1;
                    }
                    run.events.push([a as i64, code, 0, pulled.load(Ordering::SeqCst) as i64]);
                }
                After::At(ev) => {
                    if ev.point == Point::PipeSentOk {
                        chan += 1;
                    }
                    if ev.point == Point::PipeBeforeTake {
                        turn += 1;
                    }
                    let idx = if ev.point == Point::PipeBeforeTake { 0 } else { ev.idx as i64 };
                    run.events.push([a as i64, code_of(ev.point), idx, pulled.load(Ordering::SeqCst) as i64]);
                }
            }
        } else if a == w {
            let idx = run.out.len() as i64;
            match pipe.as_mut().unwrap().next() {
                Some(v) => {
                    run.out.push(v);
                    chan -= 1;
                    run.events.push([w as i64, 10, idx, pulled.load(Ordering::SeqCst) as i64]);
                }
                None => {
                    run.events.push([w as i64, 13, 3, pulled.load(Ordering::SeqCst) as i64]);
                    break;
                }
            }
        } else {
            pipe = None; // drops the receiver
            dropped = true;
            chan = 0;
            run.events.push([w as i64, 11, 0, pulled.load(Ordering::SeqCst) as i64]);
        }
    }
    run.exited = (0..w).filter(|t| ctl.has_exited(*t)).count();
    run.pulled = pulled.load(Ordering::SeqCst);
    run.counts = counts.iter().map(|c| c.load(Ordering::SeqCst)).collect();
    if run.counts[n..].iter().all(|c| *c == 0) {
        run.counts.truncate(n); // no junk item (index >= n) was processed
    }
    // let whatever is left run out so that no thread stays blocked in the monitor
    ctl.set_free();
    drop(pipe);
    ctl.wait_exited(&threads, 500);
    verif::install(None);
    run
}

/// Free-running (OS-scheduled) execution with per-item delays in microseconds.
pub fn run_pipe_free(xs: &[i64], w: usize, delays: &[u64]) -> PipeRun {
    verif::install(None);
    let n = xs.len();
    let pulled = Arc::new(AtomicUsize::new(0));
    let counts: Arc<Vec<AtomicUsize>> = Arc::new((0..n + 8).map(|_| AtomicUsize::new(0)).collect());
    let counts2 = counts.clone();
    let delays = delays.to_vec();
    let delays_t = delays.clone();
    let upstream = Counting { xs: xs.to_vec(), pos: 0, pulled: pulled.clone(), hint: hint_of(n, w, delays.len()), unfused: unfused_of(n, w, delays.len()), ended: false, junk: 0 };
    let pipeline: text_utils::data::Pipeline<(usize, i64), i64> = Arc::new(move |(i, x)| {
        counts2[i].fetch_add(1, Ordering::SeqCst);
        let d = if delays.is_empty() { 0 } else { delays[i % delays.len()] };
        if d > 0 {
            std::thread::sleep(Duration::from_micros(d));
        }
        f_model(x)
    });
    let (tx, rx) = std::sync::mpsc::channel();
    let _ = std::thread::spawn(move || {
        let pipe = upstream.pipe(pipeline, w as u8);
        let out: Vec<i64> = pipe.collect();
        let _ = tx.send(out);
    });
    let total_us: u64 = (0..n).map(|i| if delays_t.is_empty() { 0 } else { delays_t[i % delays_t.len()] }).sum();
    let res = rx.recv_timeout(Duration::from_millis((10_000 + total_us / 1000 * 2) * crate::patience()));
    let _ = std::panic::take_hook();
    std::panic::set_hook(Box::new(|_| {}));
    let mut run = PipeRun {
        events: vec![],
        out: vec![],
        ended: false,
        counts: vec![],
        pulled: 0,
        exited: 0,
        hang: false,
        used: vec![],
        alts: vec![],
    };
    match res {
        Ok(out) => {
            run.out = out;
            run.ended = true;
        }
        Err(_) => run.hang = true,
    }
    run.pulled = pulled.load(Ordering::SeqCst);
    run.counts = counts.iter().map(|c| c.load(Ordering::SeqCst)).collect();
    if run.counts[n..].iter().all(|c| *c == 0) {
        run.counts.truncate(n); // no junk item (index >= n) was processed
    }
    run
}

/// Every maximal schedule (modulo stutters) of the real Pipe threads for the given shape, found by
/// stateless depth-first re-execution; each is returned as the explicit choice list that replays it.
pub fn enumerate_pipe_schedules(xs: &[i64], w: usize, dropk: Option<usize>, limit: usize) -> Vec<Vec<usize>> {
    enumerate_pipe_schedules_shard(xs, w, dropk, limit, 0, 1)
}

/// Shard `shard` of `shards`: the subtrees below the root schedule are dealt out round-robin
/// (shard 0 also owns the root schedule); `limit` bounds the schedules of this shard.
pub fn enumerate_pipe_schedules_shard(
    xs: &[i64],
    w: usize,
    dropk: Option<usize>,
    limit: usize,
    shard: usize,
    shards: usize,
) -> Vec<Vec<usize>> {
    let mut results = vec![];
    let root = run_pipe_controlled_ext(xs, w, &[], dropk, true);
    if root.hang {
        return vec![root.used];
    }
    let mut stack: Vec<Vec<usize>> = vec![];
    let mut idx = 0usize;
    for k in 0..root.used.len() {
        for alt in &root.alts[k] {
            if *alt != root.used[k] {
                if idx % shards == shard {
                    let mut p = root.used[..k].to_vec();
                    p.push(*alt);
                    stack.push(p);
                }
                idx += 1;
            }
        }
    }
    if shard == 0 {
        results.push(root.used);
    }
    while let Some(prefix) = stack.pop() {
        let r = run_pipe_controlled_ext(xs, w, &prefix, dropk, true);
        if r.hang {
            results.push(r.used.clone());
            break;
        }
        for k in prefix.len()..r.used.len() {
            for alt in &r.alts[k] {
                if *alt != r.used[k] {
                    let mut p = r.used[..k].to_vec();
                    p.push(*alt);
                    stack.push(p);
                }
            }
        }
        results.push(r.used);
        if results.len() >= limit {
            break;
        }
    }
    results
}

pub struct BufRun {
    pub events: Vec<[i64; 4]>,
    pub out: Vec<i64>,
    pub ended: bool,
    pub pulled: usize,
    pub exited: bool,
    pub hang: bool,
}

impl BufRun {
    pub fn events_val(&self) -> Val {
        Val::L(self.events.iter().map(|e| Val::L(e.iter().map(|x| Val::I(*x)).collect())).collect())
    }
}

struct CountingIdx {
    n: usize,
    pos: usize,
    pulled: Arc<AtomicUsize>,
}

impl Iterator for CountingIdx {
    type Item = i64;
    fn next(&mut self) -> Option<i64> {
        if self.pos < self.n {
            self.pos += 1;
            self.pulled.fetch_add(1, Ordering::SeqCst);
            Some((self.pos - 1) as i64)
        } else {
            None
        }
    }
}

/// Run the real `Buffered` over `0..n` with the given channel capacity under the
/// schedule `choices` (mirrors `brun_sched`).
pub fn run_buffered_controlled(n: usize, cap: usize, choices: &[usize], dropk: Option<usize>) -> BufRun {
    let ctl = Ctl::new(true);
    ctl.install();
    let pulled = Arc::new(AtomicUsize::new(0));
    let upstream = CountingIdx { n, pos: 0, pulled: pulled.clone() };
    let mut buf = Some(upstream.buffered(cap));
    let mut run = BufRun { events: vec![], out: vec![], ended: false, pulled: 0, exited: false, hang: false };
    if !ctl.wait_all(&[0]) {
        run.hang = true;
    }
    let mut chan = 0usize;
    let mut dropped = false;
    let fuel = choices.len() + (3 * n + 4) * 4;
    let mut k = 0usize;
    while !run.hang {
        let p = |pl: &Arc<AtomicUsize>| pl.load(Ordering::SeqCst) as i64;
        if k >= fuel {
            run.events.push([0, 13, 0, p(&pulled)]);
            break;
        }
        let may_consume = dropk.map(|d| run.out.len() < d).unwrap_or(true);
        let mut actors: Vec<usize> = vec![];
        if !ctl.has_exited(0) {
            match ctl.point_of(0).map(|e| e.point) {
                Some(Point::BufBeforeTake) => actors.push(0),
                Some(Point::BufGot) => {
                    if dropped || chan < cap || (cap == 0 && may_consume) {
                        actors.push(0)
                    }
                }
                _ => {}
            }
        }
        if !dropped && chan > 0 && may_consume {
            actors.push(1);
        }
        if !dropped && dropk.map(|d| d <= run.out.len()).unwrap_or(false) {
            actors.push(2);
        }
        if actors.is_empty() {
            if ctl.has_exited(0) && chan == 0 && !dropped {
                let (tx, rx) = std::sync::mpsc::channel();
                let mut b = buf.take().unwrap();
                let h = std::thread::spawn(move || {
                    let r = b.next();
                    let _ = tx.send(r.is_none());
                    b
                });
                match rx.recv_timeout(step_timeout()) {
                    Ok(none) => {
                        run.ended = none;
                        if none {
                            run.events.push([1, 12, 0, p(&pulled)]);
                        }
                        buf = h.join().ok();
                    }
                    Err(_) => run.hang = true,
                }
            }
            break;
        }
        let c = if k < choices.len() { choices[k] } else { k };
        let a = actors[c % actors.len()];
        k += 1;
        match a {
            0 => {
                let at = ctl.point_of(0).map(|e| e.point);
                if at == Some(Point::BufBeforeTake) {
                    match ctl.grant(0) {
                        After::At(ev) if ev.point == Point::BufGot => run.events.push([0, 1, ev.idx as i64, p(&pulled)]),
                        After::Exited => run.events.push([0, 2, 0, p(&pulled)]),
                        After::At(_) => run.events.push([0, 13, 4, p(&pulled)]),
                        After::Timeout => run.hang = true,
                    }
                } else if !dropped && cap == 0 {
                    // rendezvous: the send completes only together with a receive
                    ctl.release(0);
                    let idx = run.out.len() as i64;
                    match buf.as_mut().unwrap().next() {
                        Some(v) => run.out.push(v),
                        None => {
                            run.events.push([0, 13, 5, p(&pulled)]);
                            break;
                        }
                    }
                    match ctl.settle(0) {
                        After::At(ev) if ev.point == Point::BufBeforeTake => run.events.push([0, 14, idx, p(&pulled)]),
                        After::At(_) | After::Exited => run.events.push([0, 13, 6, p(&pulled)]),
                        After::Timeout => run.hang = true,
                    }
                } else {
                    match ctl.grant(0) {
                        After::At(ev) if ev.point == Point::BufBeforeTake => {
                            if dropped {
                                run.events.push([0, 5, 0, p(&pulled)]);
                            } else {
                                chan += 1;
                                run.events.push([0, 3, 0, p(&pulled)]);
                            }
                        }
                        After::Exited => run.events.push([0, if dropped { 4 } else { 13 }, 0, p(&pulled)]),
                        After::At(_) => run.events.push([0, 13, 7, p(&pulled)]),
                        After::Timeout => run.hang = true,
                    }
                }
            }
            1 => {
                let idx = run.out.len() as i64;
                match buf.as_mut().unwrap().next() {
                    Some(v) => {
                        run.out.push(v);
                        chan -= 1;
                        run.events.push([1, 10, idx, p(&pulled)]);
                    }
                    None => {
                        run.events.push([1, 13, 3, p(&pulled)]);
                        break;
                    }
                }
            }
            _ => {
                buf = None;
                dropped = true;
                chan = 0;
                run.events.push([1, 11, 0, p(&pulled)]);
            }
        }
    }
    run.exited = ctl.has_exited(0);
    run.pulled = pulled.load(Ordering::SeqCst);
    ctl.set_free();
    drop(buf);
    ctl.wait_exited(&[0], 300);
    verif::install(None);
    run
}
